#!/usr/bin/env python3
"""C20 translator: the forwarding tables of alpaqa's problem wrappers / loaders, re-read from
/repo on every run and emitted as Lean tables (lean/Alpaqa/Gen/C20.lean).

Sources                                                       -> what is extracted
  problem/problem-with-counters.hpp  struct ProblemWithCounters          forwarding methods
  problem/ocproblem.hpp              struct ControlProblemWithCounters   (method, ++counter, timer,
                                                                          callee, args, requires-clause),
                                                                          provides_* forwards, reset /
                                                                          decouple bodies, copy semantics
  problem/problem-counters.hpp, ocproblem-counters.hpp                   counter / timer fields, reset()
  problem/type-erased-problem.hpp, implementation/problem/type-erased-problem.tpp
  problem/ocproblem.hpp, implementation/problem/ocproblem.tpp            required / optional lists,
                                                                          provides_/supports_ bodies,
                                                                          default bodies (kind, message)
  interop/dl/src/dl-problem.cpp      DLProblem / DLControlProblem        forwarding lines (table member,
                                                                          argument order), provides_ tests,
                                                                          constructor check list
  interop/dl/include/alpaqa/dl/dl-problem.hpp                            declared members, exception
                                                                          hierarchy
  interop/dl-api/include/alpaqa/dl/dl-problem.h                          function-pointer typedefs
"""
import json
import os
import re
import sys
import unicodedata

sys.path.insert(0, os.path.dirname(os.path.abspath(__file__)))
import cxxparse as cp

REPO = os.environ.get('VERIF_REPO', '/repo')
INC = REPO + '/src/alpaqa/include/alpaqa/'
DL_CPP = REPO + '/src/interop/dl/src/dl-problem.cpp'
DL_HPP = REPO + '/src/interop/dl/include/alpaqa/dl/dl-problem.hpp'
DL_H = REPO + '/src/interop/dl-api/include/alpaqa/dl/dl-problem.h'
ID = r'[A-Za-z_\u0080-\uffff][\w\u0080-\uffff]*'


class TErr(cp.TranslationError):
    pass


def read(path):
    txt = open(path, encoding='utf8').read()
    txt = re.sub(r"(?<=\d)'(?=\d)", '', txt)
    return unicodedata.normalize('NFC', cp.strip_comments(txt))


def split_top(s, sep=','):
    out, depth, cur = [], 0, []
    for c in s:
        if c in '([{':
            depth += 1
        elif c in ')]}':
            depth -= 1
        if c == sep and depth == 0:
            out.append(''.join(cur)); cur = []
        else:
            cur.append(c)
    if ''.join(cur).strip():
        out.append(''.join(cur))
    return [x.strip() for x in out]


def param_name(p):
    """last identifier of a parameter declaration (`crvec x`, `Box &U`, `const alpaqa_real_t *x`)"""
    p = p.strip()
    m = re.search('(' + ID + r')\s*$', p)
    if not m:
        raise TErr(f'cannot find the name of parameter {p!r}')
    return m.group(1)


def param_type(p):
    p = p.strip()
    m = re.search('(' + ID + r')\s*$', p)
    return re.sub(r'\s+', ' ', p[:m.start()].strip())


def lstr(s):
    return '"' + s.replace('\\', '\\\\').replace('"', '\\"') + '"'


def lopt(s):
    return 'none' if s is None else f'(some {lstr(s)})'


def llist(xs, f=lstr):
    return '[' + ', '.join(f(x) for x in xs) + ']'


def struct_body(src, name):
    m = re.search(r'\b(?:struct|class)\s+(?:[A-Z_]+\s+)?' + name + r'\b[^;{]*\{', src)
    if not m:
        raise TErr(f'struct {name} not found')
    ob = m.end() - 1
    return src[ob + 1:cp.match_brace(src, ob)]


def depth_map(body):
    d, out = 0, []
    for c in body:
        if c == '{':
            out.append(d); d += 1
        elif c == '}':
            d -= 1; out.append(d)
        else:
            out.append(d)
    return out


def member_functions(body):
    """[(name, params_text, qual_text (between ')' and body/';'), body_text|None)] for every
    function declared/defined at depth 0 of a class body."""
    dm = depth_map(body)
    out = []
    pos = 0
    for m in re.finditer('(' + ID + r')\s*\(', body):
        if m.start() < pos or dm[m.start()] != 0:
            continue
        name = m.group(1)
        if name in ('requires', 'decltype', 'noexcept', 'USING_ALPAQA_CONFIG', 'if', 'while',
                    'USING_ALPAQA_CONFIG_TEMPLATE', 'static_assert', 'alignas'):
            continue
        op = m.end() - 1
        cl = cp.match_brace(body, op, '(', ')')
        params = body[op + 1:cl]
        # scan the tail: qualifiers, requires-clauses (may contain braces), then `{body}` or `;`
        i = cl + 1
        qual_start = i
        fbody = None
        while i < len(body):
            rest = body[i:]
            mm = re.match(r'\s+', rest)
            if mm:
                i += mm.end(); continue
            if rest.startswith('requires'):
                i += len('requires')
                # `requires requires (args) { … }`  |  `requires(expr)`  |  `requires expr`
                mm = re.match(r'\s*requires\b', body[i:])
                if mm:
                    i += mm.end()
                    mm = re.match(r'\s*\(', body[i:])
                    if mm:
                        i = cp.match_brace(body, i + mm.end() - 1, '(', ')') + 1
                    mm = re.match(r'\s*\{', body[i:])
                    if not mm:
                        raise TErr(f'{name}: requires-expression without body')
                    i = cp.match_brace(body, i + mm.end() - 1) + 1
                else:
                    mm = re.match(r'\s*\(', body[i:])
                    if mm:
                        i = cp.match_brace(body, i + mm.end() - 1, '(', ')') + 1
                    else:
                        mm = re.match(r'[^;{=]*', body[i:])
                        i += mm.end()
                continue
            if rest[0] == '{':
                e = cp.match_brace(body, i)
                qual = body[qual_start:i]
                fbody = body[i + 1:e]
                i = e + 1
                break
            if rest[0] == ';':
                qual = body[qual_start:i]
                i += 1
                break
            if rest[0] == ':' and not rest.startswith('::'):
                # constructor initialiser list: skip to the body
                j = body.index('{', i)
                # initialisers may use braces: walk `name{…}` / `name(…)` groups
                k = i + 1
                while True:
                    mm = re.match(r'\s*' + ID + r'\s*', body[k:])
                    k += mm.end()
                    closer = {'{': '}', '(': ')'}[body[k]]
                    k = cp.match_brace(body, k, body[k], closer) + 1
                    mm = re.match(r'\s*,', body[k:])
                    if mm:
                        k += mm.end(); continue
                    break
                i = k
                continue
            mm = re.match(r'(const|noexcept|override|final|->\s*[^;{]+?(?=\s*[;{])|=\s*default|=\s*delete|=\s*0)',
                          rest)
            if mm:
                i += mm.end(); continue
            raise TErr(f'{name}: cannot parse declaration tail {rest[:60]!r}')
        else:
            raise TErr(f'{name}: unterminated declaration')
        out.append((name, params, qual, fbody))
        pos = i
    return out


# ------------------------------------------------------------------ counting wrappers

def counter_fields(src, cls, timer_cls):
    body = struct_body(src, cls)
    tb = struct_body(body, timer_cls)
    tstart = body.index(tb)
    outer = body[:body.rindex('struct', 0, tstart)] + body[tstart + len(tb):]
    fields = re.findall(r'\bunsigned\s+(' + ID + r')\s*\{\s*\}\s*;', outer)
    n_decl = len(re.findall(r'\bunsigned\b', outer))
    if n_decl != len(fields):
        raise TErr(f'{cls}: a counter field is not `unsigned name{{}};`')
    tfields = re.findall(r'std::chrono::nanoseconds\s+(' + ID + r')\s*\{\s*\}\s*;', tb)
    if len(re.findall(r'std::chrono::nanoseconds', tb)) != len(tfields):
        raise TErr(f'{timer_cls}: a timer field is not `std::chrono::nanoseconds name{{}};`')
    m = re.search(r'void\s+reset\s*\(\s*\)\s*\{\s*\*this\s*=\s*\{\s*\}\s*;\s*\}', outer)
    zero = bool(m)
    return fields, tfields, zero


def wrapper_table(src, cls, counter_cls, regions):
    body = struct_body(src, cls)
    fwd, prov = [], []
    reset_kind = decouple = None
    user_copy = False
    for name, params, qual, fbody in member_functions(body):
        if name == cls:
            if re.search(r'\b(const\s+)?' + cls + r'\s*&', params):
                user_copy = True
            continue
        if name == 'operator' or name == 'timed':
            continue
        ps = [param_name(p) for p in split_top(params)] if params.strip() else []
        if fbody is None:
            continue
        flat = re.sub(r'\s+', ' ', fbody).strip()
        if name == 'reset_evaluations':
            if re.fullmatch(r'evaluations\.reset\(\);', flat):
                reset_kind = '.nullsPointer'
            elif re.fullmatch(r'evaluations->reset\(\);', flat):
                reset_kind = '.zeroesBlock'
            else:
                raise TErr(f'{cls}::reset_evaluations: unrecognised body {{ {flat} }}')
            continue
        if name == 'decouple_evaluations':
            decouple = bool(re.fullmatch(r'evaluations = std::make_shared<' + counter_cls +
                                         r'>\(\*evaluations\);', flat))
            if not decouple:
                raise TErr(f'{cls}::decouple_evaluations: unrecognised body {{ {flat} }}')
            continue
        if name.startswith('provides_'):
            mr = re.search(r'requires\s+requires\s*\(\s*Problem\s+p\s*\)\s*\{\s*\{\s*p\.(' + ID +
                           r')\(\)\s*\}\s*->\s*std::convertible_to<bool>;\s*\}', qual)
            mb = re.fullmatch(r'return problem\.(' + ID + r')\(\);', flat)
            if not mr or not mb:
                raise TErr(f'{cls}::{name}: unrecognised provides_ forward')
            for nm in (mr.group(1), mb.group(1)):
                if not nm.startswith('provides_'):
                    raise TErr(f'{cls}::{name}: forwards to {nm}, not a provides_ member')
            prov.append((name[9:], mr.group(1)[9:], mb.group(1)[9:]))
            continue
        if not re.match(r'(eval_|get_|check$)', name):
            continue
        mreq = re.search(r'requires\s+requires\s*\{\s*&std::remove_cvref_t<Problem>::(' + ID + r');\s*\}', qual)
        if 'requires' in qual and not mreq:
            raise TErr(f'{cls}::{name}: unrecognised requires-clause {qual.strip()!r}')
        counters = re.findall(r'\+\+evaluations->(' + ID + r');', flat)
        timers = re.findall(r'timed\(evaluations->time\.(' + ID + r'),', flat)
        calls = re.findall(r'problem\.(' + ID + r')\(([^()]*)\)', flat)
        if len(calls) != 1 or len(counters) > 1 or len(timers) > 1:
            raise TErr(f'{cls}::{name}: body is not one forwarding call: {{ {flat} }}')
        # everything else in the body must be the known scaffolding
        skeleton = flat
        for pat in (r'\+\+evaluations->' + ID + r';', r'return timed\(evaluations->time\.' + ID +
                    r', \[&\] \{', r'\}\);', r'(return )?problem\.' + ID + r'\([^()]*\);'):
            skeleton = re.sub(pat, '', skeleton)
        if skeleton.strip():
            raise TErr(f'{cls}::{name}: unexpected statements in forwarding body: {skeleton.strip()!r}')
        args = [a.strip() for a in split_top(calls[0][1])] if calls[0][1].strip() else []
        fwd.append(dict(method=name, counter=counters[0] if counters else None,
                        timer=timers[0] if timers else None, callee=calls[0][0], params=ps,
                        callArgs=args, req=mreq.group(1) if mreq else None))
    if reset_kind is None or decouple is None:
        raise TErr(f'{cls}: reset_evaluations / decouple_evaluations not found')
    mev = re.search(r'std::shared_ptr<' + counter_cls + r'>\s+evaluations\s*=\s*std::make_shared<' +
                    counter_cls + r'>\(\s*\)\s*;', body)
    if not re.search(r'std::shared_ptr<' + counter_cls + r'>\s+evaluations\b', body):
        raise TErr(f'{cls}: `evaluations` is not a std::shared_ptr<{counter_cls}> member')
    regions[cls] = {'methods': len(fwd), 'provides': len(prov), 'hash': cp.ast_hash([fwd, prov, reset_kind])}
    return dict(cls=cls, counterType=counter_cls, fwd=fwd, prov=prov, resetKind=reset_kind,
                decouple=decouple, copyShares=not user_copy, fresh=bool(mev))


def emit_wrapper(name, t, fields, tfields, zero):
    L = [f'def {name} : WrapperTable where',
         f'  cls := {lstr(t["cls"])}', f'  counterType := {lstr(t["counterType"])}',
         '  fwd := [']
    rows = []
    for e in t['fwd']:
        rows.append(f'    {{ method := {lstr(e["method"])}, counter := {lopt(e["counter"])}, timer := {lopt(e["timer"])}, '
                    f'callee := {lstr(e["callee"])}, params := {llist(e["params"])}, callArgs := {llist(e["callArgs"])}, '
                    f'requiresMember := {lopt(e["req"])} }}')
    L.append(',\n'.join(rows) + ']')
    L.append('  prov := [')
    L.append(',\n'.join(f'    {{ method := {lstr(a)}, requiresMember := {lstr(b)}, callee := {lstr(c)} }}'
                        for a, b, c in t['prov']) + ']')
    L.append(f'  counterFields := {llist(fields)}')
    L.append(f'  timerFields := {llist(tfields)}')
    L.append(f'  resetKind := {t["resetKind"]}')
    L.append(f'  decoupleClones := {"true" if t["decouple"] else "false"}')
    L.append(f'  copyShares := {"true" if t["copyShares"] else "false"}')
    L.append(f'  freshOnCreate := {"true" if t["fresh"] else "false"}')
    L.append(f'  counterResetZeroes := {"true" if zero else "false"}')
    return '\n'.join(L) + '\n'



# ------------------------------------------------------------------ FunctionalProblem

def functional_table(src, regions):
    body = struct_body(src, 'FunctionalProblem')
    fns = re.findall(r'std::function<[^;]*>\s+(' + ID + r')\s*;', body)
    fwd, prov = [], []
    body = re.sub(r'std::function<[^;]*>\s+' + ID + r'\s*;', '', body)
    for name, params, qual, fbody in member_functions(body):
        if fbody is None or name == 'FunctionalProblem' or name == 'operator':
            continue
        flat = re.sub(r'\s+', ' ', fbody).strip()
        ps = [param_name(p) for p in split_top(params)] if params.strip() else []
        if name.startswith('provides_'):
            m = re.fullmatch(r'return bool\{(' + ID + r')\};', flat)
            if not m:
                raise TErr(f'FunctionalProblem::{name}: body is not `return bool{{fn}};`')
            if not name.startswith('provides_eval_'):
                raise TErr(f'FunctionalProblem::{name}: unexpected name')
            prov.append((name[9:], '', m.group(1)))
            continue
        if name == 'get_name':
            continue
        m = re.fullmatch(r'ScopedMallocAllower ma; (?:return )?(' + ID + r')\((.*)\);', flat)
        if not m or m.group(1) not in fns:
            raise TErr(f'FunctionalProblem::{name}: unrecognised body {{ {flat} }}')
        args = []
        for a in split_top(m.group(2)):
            mm = re.fullmatch('(' + ID + r')\.reshaped\(this->(\w), this->(\w)\)', a)
            if mm:
                args.append(f'{mm.group(1)}:{mm.group(2)}x{mm.group(3)}')
            else:
                args.append(a)
        fwd.append(dict(method=name, counter=None, timer=None, callee=m.group(1), params=ps,
                        callArgs=args, req=None))
    regions['FunctionalProblem'] = {'functions': fns, 'methods': len(fwd), 'provides': len(prov),
                                    'hash': cp.ast_hash([fwd, prov])}
    t = dict(cls='FunctionalProblem', counterType='', fwd=fwd, prov=prov, resetKind='.zeroesBlock',
             decouple=False, copyShares=False, fresh=False)
    return emit_wrapper('functional', t, fns, [], False)


def class_members(src, name):
    return [n for n, _, _, _ in member_functions(struct_body(src, name)) if n != name and n != 'operator']


# ------------------------------------------------------------------ type-erased vtables

def default_kind(tpp, vt, name):
    m = re.search(r'ProblemVTable<Conf>::default_' + re.escape(name) + r'\s*\(', tpp) if vt == 'ProblemVTable' \
        else re.search(r'ControlProblemVTable<Conf>::default_' + re.escape(name) + r'\s*\(', tpp)
    if not m:
        raise TErr(f'{vt}::default_{name}: definition not found')
    cl = cp.match_brace(tpp, m.end() - 1, '(', ')')
    ob = tpp.index('{', cl)
    body = re.sub(r'\s+', ' ', tpp[ob + 1:cp.match_brace(tpp, ob)]).strip()
    throws = re.findall(r'throw not_implemented_error\("([^"]*)"\);', body)
    if re.fullmatch(r'throw not_implemented_error\("[^"]*"\);', body):
        return f'.throws {lstr(throws[0])}'
    if re.fullmatch(r'if \(vtable\.m != 0\) throw not_implemented_error\("[^"]*"\);', body):
        return f'.throwsIfMNonzero {lstr(throws[0])}'
    mm = re.match(r'if \(vtable\.m == 0 && vtable\.(' + ID + r') != (?:ProblemVTable<Conf>::)?default_(' + ID +
                  r')\) return vtable\.(' + ID + r')\(self(?:, ' + ID + r')*, vtable\); (.*)$', body)
    if mm:
        if not (mm.group(1) == mm.group(2) == mm.group(3)):
            raise TErr(f'default_{name}: fallback tests {mm.group(1)}/{mm.group(2)} but calls {mm.group(3)}')
        rest = mm.group(4)
        if re.fullmatch(r'throw not_implemented_error\("[^"]*"\);', rest):
            return f'.fallbackIfM0 {lstr(mm.group(1))} (some {lstr(throws[0])})'
        if 'throw' in rest:
            raise TErr(f'default_{name}: unrecognised tail {rest!r}')
        return f'.fallbackIfM0 {lstr(mm.group(1))} none'
    if 'throw' in body:
        raise TErr(f'default_{name}: unrecognised throwing default {body!r}')
    return '.computes'


def te_table(hpp, tpp, cls, vt, regions):
    vsrc = struct_body(hpp, vt)
    req = re.findall(r'ALPAQA_TE_REQUIRED_METHOD\(\s*\*?' + ID + r'\s*,\s*P\s*,\s*(' + ID + r')\s*\)', vsrc)
    opt = re.findall(r'ALPAQA_TE_OPTIONAL_METHOD\(\s*\*?' + ID + r'\s*,\s*P\s*,\s*(' + ID + r')\s*,\s*p\s*\)', vsrc)
    # vtable member initialisers
    inits = dict(re.findall(r'>\s*(' + ID + r')\s*=\s*(&?\s*' + ID + r')\s*;', vsrc))
    csrc = struct_body(hpp, cls)
    # declared parameter names of the public functions
    params = {}
    for name, ps, qual, fbody in member_functions(csrc):
        if name in req or name in opt:
            params.setdefault(name, [param_name(p) for p in split_top(ps)] if ps.strip() else [])
    prov = {}
    for m in re.finditer(r'bool\s+provides_(' + ID + r')\(\)\s*const\s*\{\s*return\s+vtable\.(' + ID +
                         r')\s*!=\s*(?:&?\s*vtable\.)?(' + ID + r')\s*;\s*\}', csrc):
        prov[m.group(1)] = (m.group(2), m.group(3))
    n_prov = len(re.findall(r'bool\s+provides_', csrc))
    if n_prov != len(prov):
        raise TErr(f'{cls}: {n_prov - len(prov)} provides_ bodies are not `vtable.a != vtable.b`')
    sup = []
    for m in re.finditer(r'bool\s+supports_(' + ID + r')\(\)\s*const\s*\{\s*return\s+provides_(' + ID +
                         r')\(\)\s*\|\|\s*\(vtable\.m\s*==\s*0\s*&&\s*provides_(' + ID + r')\(\)\);\s*\}', csrc):
        if m.group(1) != m.group(2):
            raise TErr(f'supports_{m.group(1)} tests provides_{m.group(2)}')
        sup.append((m.group(1), m.group(3)))
    if len(re.findall(r'bool\s+supports_', csrc)) != len(sup):
        raise TErr(f'{cls}: unrecognised supports_ body')
    rows = []
    for name in req + opt:
        if name in opt:
            init = inits.get(name)
            if init is None:
                raise TErr(f'{vt}::{name}: optional entry without default initialiser')
            init = init.replace('&', '').strip()
            if init == 'nullptr':
                dk = '.null'
            elif init == 'default_' + name:
                dk = default_kind(tpp, vt, name)
            else:
                raise TErr(f'{vt}::{name} initialised with {init}, expected default_{name} or nullptr')
            dk = f'(some ({dk}))'
        else:
            dk = 'none'
        pt = prov.get(name)
        pts = 'none' if pt is None else f'(some ({lstr(pt[0])}, {lstr(pt[1])}))'
        rows.append(f'    {{ name := {lstr(name)}, required := {"true" if name in req else "false"}, '
                    f'params := {llist(params.get(name, []))}, dflt := {dk}, providesTests := {pts} }}')
    regions[cls] = {'required': len(req), 'optional': len(opt), 'provides': len(prov),
                    'hash': cp.ast_hash(rows)}
    return rows, sup, req, opt


# ------------------------------------------------------------------ DL loader

def canon_arg(a):
    a = re.sub(r'\s+', ' ', a.strip())
    nullable = None
    m = re.fullmatch('(' + ID + r')\.size\(\) == 0 \? nullptr : (' + ID + r')\.data\(\)', a)
    if m:
        if m.group(1) != m.group(2):
            raise TErr(f'nullable argument tests {m.group(1)} but passes {m.group(2)}')
        return m.group(1), m.group(1)
    if a == 'instance.get()':
        return 'instance', None
    m = re.fullmatch(r'(?:this->)?(' + ID + r'(?:\.' + ID + r')*)\.data\(\)', a)
    if m:
        return m.group(1), None
    if re.fullmatch(ID, a) or a in ('nullptr',) or re.fullmatch(r'&' + ID, a):
        return a, None
    raise TErr(f'unrecognised argument expression {a!r}')


def parse_pexpr(e):
    e = e.strip()
    parts = split_top(e.replace('||', '\x01'), '\x01')
    if len(parts) > 1:
        r = parse_pexpr(parts[0])
        for p in parts[1:]:
            r = f'(.or {r} {parse_pexpr(p)})'
        return r
    parts = split_top(e.replace('&&', '\x01'), '\x01')
    if len(parts) > 1:
        r = parse_pexpr(parts[0])
        for p in parts[1:]:
            r = f'(.and {r} {parse_pexpr(p)})'
        return r
    m = re.fullmatch(r'functions->(' + ID + r')\s*!=\s*nullptr', e)
    if m:
        return f'(.nonnull {lstr(m.group(1))})'
    m = re.fullmatch(r'functions->(' + ID + r')\s*==\s*nullptr', e)
    if m:
        return f'(.isnull {lstr(m.group(1))})'
    m = re.fullmatch(r'BoxConstrProblem(?:<config_t>)?::(' + ID + r')\(\)', e)
    if m:
        return f'(.base {lstr(m.group(1))})'
    raise TErr(f'unrecognised provides_ expression {e!r}')


def dl_definitions(cpp, cls):
    """{method: (params_text, body_text)} for `… cls::method(params) const [-> R] { body }`"""
    out = {}
    for m in re.finditer(r'\b' + cls + r'::(' + ID + r')\s*\(', cpp):
        name = m.group(1)
        cl = cp.match_brace(cpp, m.end() - 1, '(', ')')
        mm = re.match(r'\s*(const)?\s*(->\s*(?:[\w<>&\s]|::)+?)?\s*(?=\{|:(?!:))', cpp[cl + 1:])
        if not mm:
            continue
        k = cl + 1 + mm.end()
        if cpp[k] == ':':
            k += 1
            while True:
                m2 = re.match(r'\s*[\w:<>]+\s*', cpp[k:])
                k += m2.end()
                closer = {'{': '}', '(': ')'}[cpp[k]]
                k = cp.match_brace(cpp, k, cpp[k], closer) + 1
                m2 = re.match(r'\s*,', cpp[k:])
                if m2:
                    k += m2.end(); continue
                break
            k += re.match(r'\s*', cpp[k:]).end()
        if cpp[k] != '{':
            continue
        ob = k
        out.setdefault(name, []).append((cpp[m.end():cl], cpp[ob + 1:cp.match_brace(cpp, ob)]))
    return out


def emit_dlfwd(e):
    fb = 'none' if e['fallback'] is None else f'(some ({lstr(e["fallback"][0])}, {llist(e["fallback"][1])}))'
    return (f'    {{ method := {lstr(e["method"])}, member := {lstr(e["member"])}, params := {llist(e["params"])}, '
            f'passed := {llist(e["passed"])}, nullable := {llist(e["nullable"])}, '
            f'guarded := {"true" if e["guarded"] else "false"}, fallback := {fb} }}')


def dl_table(cpp, hpp, cls, regions):
    defs = dl_definitions(cpp, cls)
    fwd, prov, own = [], [], []
    for name, lst in defs.items():
        if name == cls:
            continue
        if len(lst) != 1:
            raise TErr(f'{cls}::{name} defined {len(lst)} times')
        params, body = lst[0]
        flat = re.sub(r'\s+', ' ', body).strip()
        ps = [param_name(p) for p in split_top(params)] if params.strip() else []
        if name.startswith('provides_'):
            m = re.fullmatch(r'return (.*);', flat)
            if not m:
                raise TErr(f'{cls}::{name}: body is not a single return')
            prov.append((name[9:], parse_pexpr(m.group(1))))
            continue
        if name == 'get_name':
            if flat != 'if (functions->name) return functions->name; return file.filename().string();':
                raise TErr(f'{cls}::get_name: unrecognised body')
            continue
        if not re.search(r'\bfunctions\b', flat):
            # implemented by the class itself, without any use of the plug-in's function table
            own.append(name)
            continue
        def fcall(text):
            """`functions->M(ARGS)` at the start of text -> (M, ARGS, rest)"""
            mm = re.match(r'functions->(' + ID + r')\(', text)
            if not mm:
                return None
            cl = cp.match_brace(text, mm.end() - 1, '(', ')')
            return mm.group(1), text[mm.end():cl], text[cl + 1:]
        g = re.match(r'if \(functions->(' + ID + r')\) return ', flat)
        fb, guarded, member, args = None, False, None, None
        if g:
            fc = fcall(flat[g.end():])
            if not fc:
                raise TErr(f'{cls}::{name}: unrecognised guarded body {{ {flat} }}')
            if g.group(1) != fc[0]:
                raise TErr(f'{cls}::{name}: tests functions->{g.group(1)} but calls functions->{fc[0]}')
            member, args = fc[0], fc[1]
            mb = re.fullmatch(r'; return BoxConstrProblem<config_t>::(' + ID + r')\((.*)\);', fc[2])
            if not mb:
                raise TErr(f'{cls}::{name}: unrecognised fallback {fc[2]!r}')
            fb = (mb.group(1), [a.strip() for a in split_top(mb.group(2))])
            guarded = True
        else:
            ms = re.match(r'return (convert_sparsity<config_t>\()?', flat)
            fc = fcall(flat[ms.end():]) if ms else None
            if not fc or fc[2] != (');' if ms.group(1) else ';'):
                raise TErr(f'{cls}::{name}: unrecognised forwarding body {{ {flat} }}')
            member, args = fc[0], fc[1]
        passed, nullable = [], []
        for a in split_top(args):
            c, nl = canon_arg(a)
            passed.append(c)
            if nl:
                nullable.append(nl)
        fwd.append(dict(method=name, member=member, params=ps, passed=passed, nullable=nullable,
                        guarded=guarded, fallback=fb))
    # constructor: ordered check list
    ctors = [b for p, b in defs.get(cls, []) if 'alpaqa_register_arg_t user_param' in p and 'so_filename' in p]
    if len(ctors) != 1:
        raise TErr(f'{cls}: primary constructor not found')
    body = ctors[0]
    steps = []

    def add(pat, mk, required=True, flags=re.S):
        ms = list(re.finditer(pat, body, flags))
        if required and len(ms) != 1:
            raise TErr(f'{cls} constructor: expected exactly one match of {pat!r}, found {len(ms)}')
        for m in ms:
            steps.append((m.start(), mk(m)))

    add(r'if\s*\(\s*so_filename\.empty\(\)\s*\)\s*throw\s+std::invalid_argument', lambda m: '.emptyFilename')
    add(r'handle\s*=\s*util::load_lib\(\s*so_filename\s*\)', lambda m: '.loadLib')
    # the version function: loaded inside a try block; the ABI check either inside it or right after it
    mv = list(re.finditer(r'try\s*\{([^{}]*util::load_func\(\s*handle\.get\(\)\s*,\s*function_name\s*\+\s*"_version"\s*\)[^{}]*)\}'
                          r'\s*catch\s*\(\s*const\s+([\w:]+)\s*&\s*\)\s*\{([^{}]*)\}', body, re.S))
    if len(mv) != 1:
        raise TErr(f'{cls} constructor: version-function try block not found')
    mv = mv[0]
    if re.search(r'\bthrow\b', mv.group(3)):
        raise TErr(f'{cls} constructor: the version-function catch block rethrows (not modelled)')
    inside = bool(re.search(r'check_abi_version\(\s*version_func\(\)\s*\)', mv.group(1)))
    after = re.match(r'\s*if\s*\(\s*version_func\s*\)\s*check_abi_version\(\s*version_func\(\)\s*\)\s*;', body[mv.end():])
    if inside == bool(after):
        raise TErr(f'{cls} constructor: check_abi_version(version_func()) must occur exactly once, inside the try '
                   'block or directly after it')
    if after and not re.search(r'\(\s*\*\s*version_func\s*\)\s*\(\s*\)\s*=\s*nullptr\s*;', body[:mv.start()]):
        raise TErr(f'{cls} constructor: version_func is not initialised to nullptr before the try block')
    steps.append((mv.start(), f'.versionFn {lstr(mv.group(2).split("::")[-1])} {"true" if inside else "false"}'))
    add(r'util::load_func\(\s*handle\.get\(\)\s*,\s*function_name\s*\)', lambda m: '.loadRegister')
    add(r'auto\s+r\s*=\s*register_func\(\s*user_param\s*\)', lambda m: '.callRegister')
    add(r'check_abi_version\(\s*r\.abi_version\s*\)', lambda m: '.abiOfResult')
    add(r'if\s*\(\s*unique_exception\s*\)\s*\{[^{}]*std::rethrow_exception\(\s*unique_exception->exc\s*\)\s*;\s*\}',
        lambda m: '.exceptionField')
    add(r'if\s*\(\s*!\s*([\w.>-]+)\s*\)\s*throw\s+std::logic_error', lambda m: f'.functionsNull {lstr(m.group(1))}')
    add(r'(?<![\w.>])functions\s*=\s*([\w.>-]+)\s*;', lambda m: f'.assignFunctions {lstr(m.group(1))}')
    n_throw = len(re.findall(r'\bthrow\b|rethrow_exception', body))
    if n_throw != 3:
        raise TErr(f'{cls} constructor: {n_throw} throw sites, the model knows 3 '
                   '(invalid_argument, rethrow of the plug-in exception, logic_error)')
    steps.sort()
    # post-load initialisation calls
    init = []
    for m in re.finditer(r'if\s*\(\s*functions->(' + ID + r')\s*\)\s*(\{)?', body):
        member = m.group(1)
        tail = body[m.end():]
        for c in re.finditer(r'functions->(' + ID + r')\(([^;]*?)\)\s*;', tail[:600] if m.group(2) else
                             tail[:tail.index(';') + 1]):
            if c.group(1) != member:
                raise TErr(f'{cls} constructor: tests functions->{member} but calls functions->{c.group(1)}')
            passed = [canon_arg(a)[0] for a in split_top(c.group(2))]
            boxes = sorted({p.split('.')[0] for p in passed if p.endswith('.lowerbound') or p.endswith('.upperbound')})
            init.append(dict(method='<ctor>', member=member, params=boxes, passed=passed, nullable=[],
                             guarded=True, fallback=None))
    # declared members (dl-problem.hpp)
    cbody = struct_body(hpp, cls)
    mfs = member_functions(cbody)
    declared = [n for n, _, _, _ in mfs if n != cls]
    # reads of the data members of the function table: (reader, member)
    #   constructor `this->x = functions->x;`, `get_name` (`functions->name`, checked above), inline getters of
    #   dl-problem.hpp `length_t get_X() const { return functions->X; }`
    inline = []
    reads = [('<ctor>:' + a, b) for a, b in re.findall(r'this->(' + ID + r')\s*=\s*functions->(' + ID + r')\s*;', body)]
    if 'get_name' in defs:
        reads.append(('get_name', 'name'))
    for n, _, _, fb in mfs:
        if fb is None or n == cls:
            continue
        fl = re.sub(r'\s+', ' ', fb).strip()
        mm = re.fullmatch(r'return functions->(' + ID + r');', fl)
        if mm:
            reads.append((n, mm.group(1)))
        elif 'functions->' in fl:
            raise TErr(f'{cls}::{n} (dl-problem.hpp): unrecognised inline use of the function table {{ {fl} }}')
        elif n != 'call_extra_func':
            inline.append((n, fl))
    # every other mention of the table in the constructor is one of the recognised forms
    n_deref = len(re.findall(r'functions->', body))
    n_ctor_reads = sum(1 for r in reads if r[0].startswith('<ctor>:'))
    n_tests = len(re.findall(r'if\s*\(\s*functions->' + ID + r'\s*\)', body))
    n_known = n_ctor_reads + n_tests + len(init)
    if n_deref != n_known:
        raise TErr(f'{cls} constructor: {n_deref} uses of `functions->`, {n_known} recognised '
                   '(data-member copies and guarded initialize_* calls)')
    regions[cls] = {'forwarded': len(fwd), 'provides': len(prov), 'ctor_steps': [s for _, s in steps],
                    'own': own, 'hash': cp.ast_hash([fwd, prov, steps, init, reads, own])}
    return fwd, prov, [s for _, s in steps], init, declared, reads, own, inline


def abi_members(h, struct):
    m = re.search(r'ALPAQA_BEGIN_STRUCT\(\s*' + struct + r'\s*\)\s*\{', h)
    if not m:
        raise TErr(f'{struct} not found in dl-problem.h')
    ob = m.end() - 1
    body = h[ob + 1:cp.match_brace(h, ob)]
    out = []
    for mm in re.finditer(r'([\w\s\*]+?)\(\s*\*\s*(' + ID + r')\s*\)\s*\(', body):
        cl = cp.match_brace(body, mm.end() - 1, '(', ')')
        params = split_top(body[mm.end():cl])
        tail = body[cl + 1:body.index(';', cl)]
        out.append(dict(name=mm.group(2), ret=re.sub(r'\s+', ' ', mm.group(1)).strip(),
                        params=[(param_type(p), param_name(p)) for p in params],
                        dflt=bool(re.search(r'ALPAQA_DEFAULT\(\s*nullptr\s*\)', tail))))
    if len(out) != body.count('(*'):
        raise TErr(f'{struct}: {body.count("(*") - len(out)} function-pointer members not parsed')
    return out


def abi_data_fields(h, struct):
    """names of the non-function-pointer members of an ABI struct (`alpaqa_length_t n ALPAQA_DEFAULT(0);`,
    `alpaqa_length_t N ALPAQA_DEFAULT(0), nx ALPAQA_DEFAULT(0), …;`), read independently of abi_members"""
    m = re.search(r'ALPAQA_BEGIN_STRUCT\(\s*' + struct + r'\s*\)\s*\{', h)
    if not m:
        raise TErr(f'{struct} not found in dl-problem.h')
    ob = m.end() - 1
    body = h[ob + 1:cp.match_brace(h, ob)]
    body = re.sub(r'ALPAQA_DEFAULT\(\s*[\w]*\s*\)', '', body)
    out = []
    for stmt in body.split(';'):
        stmt = stmt.strip()
        if not stmt or '(' in stmt:
            continue          # function-pointer member (parsed by abi_members)
        for piece in split_top(stmt):
            mm = re.search('(' + ID + r')\s*$', piece)
            if not mm:
                raise TErr(f'{struct}: cannot parse data member {piece!r}')
            out.append(mm.group(1))
    return out


def vtable_fields(hpp, vt):
    """the function-pointer members *declared* by a vtable struct:
    `required_function_t<Sig> name;` / `optional_function_t<Sig> name = [&]default_name;`
    (independent of the ALPAQA_TE_*_METHOD lines of the constructor that te_table reads)"""
    vsrc = struct_body(hpp, vt)
    out = []
    for m in re.finditer(r'(?<![:\w])(required_function_t|optional_function_t)\s*<([^;]*?)>\s*(' + ID +
                         r')\s*(?:=\s*&?\s*(' + ID + r'))?\s*;', vsrc):
        out.append(dict(name=m.group(3), optional=m.group(1) == 'optional_function_t', init=m.group(4)))
    n = len(re.findall(r'(?<![:\w])(?:required_function_t|optional_function_t)\s*<', vsrc))
    if n != len(out):
        raise TErr(f'{vt}: {n - len(out)} function members not parsed')
    return out


def te_dispatch(hpp, cls):
    """out-of-class definitions `… Cls<Conf, Allocator>::method(params) const [-> R] { … call(vtable.entry, args) … }`
    -> (method, entry, parameter names, forwarded arguments); every definition that dispatches through the vtable
    (the OCP class has a checked and an unchecked definition of each method: both are listed)"""
    out = []
    for m in re.finditer(r'\b' + cls + r'\s*<\s*Conf\s*,\s*Allocator\s*>\s*::\s*(' + ID + r')\s*\(', hpp):
        name = m.group(1)
        cl = cp.match_brace(hpp, m.end() - 1, '(', ')')
        mm = re.match(r'\s*(?:const)?\s*(?:->\s*[\w:<>\s&]+?)?\s*\{', hpp[cl + 1:])
        if not mm:
            continue
        ob = cl + mm.end()
        body = hpp[ob + 1:cp.match_brace(hpp, ob)]
        calls = re.findall(r'\bcall\(\s*vtable\.(' + ID + r')\s*((?:,[^()]*)?)\)', body)
        if not calls:
            if re.search(r'\bvtable\.' + ID + r'\s*\(', body):
                raise TErr(f'{cls}::{name}: calls a vtable entry without `call(vtable.entry, …)`')
            continue
        if len(calls) != 1:
            raise TErr(f'{cls}::{name}: {len(calls)} vtable dispatches in one definition')
        params = hpp[m.end():cl]
        ps = [param_name(p) for p in split_top(params)] if params.strip() else []
        args = [a.strip() for a in split_top(calls[0][1].lstrip(',').strip())] if calls[0][1].strip() else []
        out.append(dict(method=name, entry=calls[0][0], params=ps, args=args))
    return out


def te_macro_text(src, name):
    """normalised replacement text of `#define name(args) …` (line continuations joined, white space collapsed)"""
    m = re.search(r'#\s*define\s+' + name + r'\s*\(([^)]*)\)((?:[^\n]*\\\n)*[^\n]*)', src)
    if not m:
        raise TErr(f'macro {name} not found')
    body = m.group(2).replace('\\\n', ' ')
    args = ','.join(a.strip() for a in m.group(1).split(','))
    return args + ' :: ' + re.sub(r'\s+', ' ', body).strip()


def emit_vtfields(name, fs):
    rows = [f'    {{ name := {lstr(f["name"])}, optional := {"true" if f["optional"] else "false"}, '
            f'init := {lopt(f["init"])} }}' for f in fs]
    return f'def {name} : List VtField := [\n' + ',\n'.join(rows) + ']\n'


def emit_dispatch(name, ds):
    rows = [f'    {{ method := {lstr(d["method"])}, entry := {lstr(d["entry"])}, params := {llist(d["params"])}, '
            f'args := {llist(d["args"])} }}' for d in ds]
    return f'def {name} : List TEDispatch := [\n' + ',\n'.join(rows) + ']\n'


# ------------------------------------------------------------------ wrapper helper functions

def wrap_helpers(src, names, wrapper):
    """`template <class Problem> auto NAME(Problem &&p | Problem &p) { … }`  ->  which class template argument the
    wrapper is instantiated with (`Prob` = holds a copy, `const Prob &` / `Prob &` = holds a reference), or which
    other helper the call is forwarded to"""
    out = []
    for name in names:
        ms = list(re.finditer(r'\bauto\s+' + name + r'\s*\(\s*(Problem\s*&&?)\s*p\s*\)\s*\{', src))
        if len(ms) != 1:
            raise TErr(f'{name}: expected exactly one definition `auto {name}(Problem &[&] p)`, found {len(ms)}')
        m = ms[0]
        ob = m.end() - 1
        flat = re.sub(r'\s+', ' ', src[ob + 1:cp.match_brace(src, ob)]).strip()
        param = re.sub(r'\s+', '', m.group(1))
        mm = re.fullmatch(r'using Prob = std::remove_cvref_t<Problem>; using ProbWithCnt = (' + ID + r')<(const Prob ?&|Prob ?&|Prob)>; '
                          r'return ProbWithCnt\{(std::forward<Problem>\(p\)|p)\};', flat)
        if mm:
            arg = re.sub(r'\s+', ' ', mm.group(2)).replace(' &', '&')
            holds = '.value' if arg == 'Prob' else '.reference'
            out.append(dict(name=name, wrapper=mm.group(1), holds=holds, arg=arg, param=param, fwd=None))
            continue
        mm = re.fullmatch(r'return (' + ID + r')\((std::forward<Problem>\(p\)|p)\);', flat)
        if mm:
            out.append(dict(name=name, wrapper=None, holds=None, arg='', param=param, fwd=mm.group(1)))
            continue
        raise TErr(f'{name}: unrecognised body {{ {flat} }}')
    # resolve forwarding helpers
    byname = {h['name']: h for h in out}
    for h in out:
        seen = set()
        g = h
        while g['fwd'] is not None:
            if g['fwd'] in seen or g['fwd'] not in byname:
                raise TErr(f'{h["name"]}: forwards to unknown helper {g["fwd"]}')
            seen.add(g['fwd'])
            g = byname[g['fwd']]
        h['wrapper_res'], h['holds_res'], h['arg_res'] = g['wrapper'], g['holds'], g['arg']
        if h['wrapper_res'] != wrapper:
            raise TErr(f'{h["name"]}: constructs {h["wrapper_res"]}, expected {wrapper}')
    # the wrapper stores what its template argument says: `Problem problem;`
    body = struct_body(src, wrapper)
    if not re.search(r'(?<![\w:])Problem\s+problem\s*;', body):
        raise TErr(f'{wrapper}: member `Problem problem;` not found')
    return out


def emit_helpers(hs):
    rows = [f'    {{ name := {lstr(h["name"])}, wrapper := {lstr(h["wrapper_res"])}, holds := {h["holds_res"]}, '
            f'templateArg := {lstr(h["arg_res"])}, param := {lstr(h["param"])}, forwardsTo := {lopt(h["fwd"])} }}' for h in hs]
    return ('/-- the helper functions that build a counting wrapper: which template argument `ProblemWithCounters<…>` /\n'
            '    `ControlProblemWithCounters<…>` gets (`Prob`: the wrapper owns a copy; `const Prob&`: it aliases the caller\'s object) -/\n'
            'def wrapHelpers : List HelperEntry := [\n' + ',\n'.join(rows) + ']\n')


# ------------------------------------------------------------------ DLControlProblem's own projections

SEG = r'(' + ID + r')\.segment\(([^(),]+), ([^(),]+)\)'


def own_projections(cpp):
    """constructor: `D = Box{get_nc()}; D_N = Box{get_nc_N()}; if (provides_get_D()) get_D(D); if (provides_get_D_N())
    get_D_N(D_N); else if (COND) get_D(D_N);`   bodies of eval_proj_diff_g / eval_proj_multipliers: one loop over the
    stages + the terminal segment"""
    defs = dl_definitions(cpp, 'DLControlProblem')
    ctors = [b for p, b in defs.get('DLControlProblem', []) if 'alpaqa_register_arg_t user_param' in p and 'so_filename' in p]
    if len(ctors) != 1:
        raise TErr('DLControlProblem: primary constructor not found')
    flat = re.sub(r'\s+', ' ', ctors[0])
    sizes = re.findall(r'\b(D|D_N) = Box\{([^{};]*)\};', flat)
    fills = []
    mm = re.search(r'if \(([^;{}]*?)\) (get_D(?:_N)?)\((D|D_N)\);\s*if \(([^;{}]*?)\) (get_D(?:_N)?)\((D|D_N)\);\s*'
                   r'else if \(([^;{}]*?)\) (get_D(?:_N)?)\((D|D_N)\);', flat)
    if not mm or len(sizes) != 2:
        raise TErr('DLControlProblem constructor: the box initialisation (D, D_N sizes; get_D / get_D_N / fallback) '
                   'is not of the recognised shape')
    g = mm.groups()
    fills = [(g[2], 'if', g[0], g[1]), (g[5], 'if', g[3], g[4]), (g[8], 'else if', g[6], g[7])]
    n_box = len(re.findall(r'\bget_D(?:_N)?\(', flat))
    if n_box != 3:
        raise TErr(f'DLControlProblem constructor: {n_box} calls of get_D / get_D_N, the description knows 3')

    def body(name):
        lst = defs.get(name, [])
        if len(lst) != 1:
            raise TErr(f'DLControlProblem::{name}: expected one definition, found {len(lst)}')
        return re.sub(r'\s+', ' ', lst[0][1]).strip()

    def dims_of(fl):
        md = re.search(r'const auto ((?:' + ID + r' = [^,;]+(?:, )?)+);', fl)
        if not md:
            raise TErr('own projection: dimension declaration not found')
        return [tuple(x.strip() for x in d.split(' = ')) for d in md.group(1).split(', ')], fl[:md.start()] + fl[md.end():]

    d1, r1 = dims_of(body('eval_proj_diff_g'))
    m1 = re.fullmatch(r'\s*for \(index_t (' + ID + r') = 0; \1 < (' + ID + r'); \+\+\1\) e\.segment\(([^(),]+), ([^(),]+)\) = '
                      r'projecting_difference\(z\.segment\(([^(),]+), ([^(),]+)\), (' + ID + r')\); '
                      r'e\.segment\(([^(),]+), ([^(),]+)\) = projecting_difference\(z\.segment\(([^(),]+), ([^(),]+)\), (' + ID + r')\);\s*', r1)
    if not m1:
        raise TErr(f'DLControlProblem::eval_proj_diff_g: unrecognised body {{ {r1.strip()} }}')
    a = m1.groups()
    if (a[2], a[3]) != (a[4], a[5]) or (a[7], a[8]) != (a[9], a[10]):
        raise TErr('DLControlProblem::eval_proj_diff_g: input and output segments differ')
    diff = [dict(loop=(a[0], a[1]), off=a[2], len=a[3], box=a[6]), dict(loop=None, off=a[7], len=a[8], box=a[11])]
    d2, r2 = dims_of(body('eval_proj_multipliers'))
    r2 = r2.replace('using BoxConstr = BoxConstrProblem<config_t>;', '')
    m2 = re.fullmatch(r'\s*for \(index_t (' + ID + r') = 0; \1 < (' + ID + r'); \+\+\1\) BoxConstr::eval_proj_multipliers_box\((' + ID +
                      r'), y\.segment\(([^(),]+), ([^(),]+)\), M, 0\); BoxConstr::eval_proj_multipliers_box\((' + ID +
                      r'), y\.segment\(([^(),]+), ([^(),]+)\), M, 0\);\s*', r2)
    if not m2:
        raise TErr(f'DLControlProblem::eval_proj_multipliers: unrecognised body {{ {r2.strip()} }}')
    b = m2.groups()
    mult = [dict(loop=(b[0], b[1]), off=b[3], len=b[4], box=b[2]), dict(loop=None, off=b[6], len=b[7], box=b[5])]
    if d1 != d2:
        raise TErr('DLControlProblem: the two projections declare different dimensions')
    return dict(dims=d1, sizes=sizes, fills=fills, diff=diff, mult=mult)


def fn_text(src, pattern, what):
    """normalised body of the (single) function whose header matches `pattern`"""
    ms = list(re.finditer(pattern, src))
    if len(ms) != 1:
        raise TErr(f'{what}: expected one definition, found {len(ms)}')
    i = src.index('{', ms[0].end() - 1) if src[ms[0].end() - 1] != '{' else ms[0].end() - 1
    return re.sub(r'\s+', ' ', src[i + 1:cp.match_brace(src, i)]).strip()


def emit_ownproj(o):
    def seg(r):
        lp = 'none' if r['loop'] is None else f'(some ({lstr(r["loop"][0])}, {lstr(r["loop"][1])}))'
        return f'{{ loop := {lp}, off := {lstr(r["off"])}, len := {lstr(r["len"])}, box := {lstr(r["box"])} }}'
    return ('/-- `DLControlProblem`: the box initialisation of the constructor and the bodies of its own\n'
            '    `eval_proj_diff_g` / `eval_proj_multipliers` (dl-problem.cpp) -/\n'
            'def dlOCPProj : OwnProj where\n'
            f'  dims := {llist(o["dims"], lambda p: f"({lstr(p[0])}, {lstr(p[1])})")}\n'
            f'  boxSizes := {llist(o["sizes"], lambda p: f"({lstr(p[0])}, {lstr(p[1])})")}\n'
            f'  boxFill := {llist(o["fills"], lambda p: f"({lstr(p[0])}, {lstr(p[1])}, {lstr(p[2])}, {lstr(p[3])})")}\n'
            f'  diff := {llist(o["diff"], seg)}\n'
            f'  mult := {llist(o["mult"], seg)}\n')


def emit_abi(name, ms):
    rows = [f'    {{ name := {lstr(m["name"])}, ret := {lstr(m["ret"])}, params := ' +
            llist(m['params'], lambda p: f'({lstr(p[0])}, {lstr(p[1])})') +
            f', hasDefault := {"true" if m["dflt"] else "false"} }}' for m in ms]
    return f'def {name} : List AbiMember := [\n' + ',\n'.join(rows) + ']\n'


def emit_dl(name, cls, fwd, prov, steps, init, declared, reads, own, inline):
    L = [f'def {name} : DLTable where', f'  cls := {lstr(cls)}', '  fwd := [',
         ',\n'.join(emit_dlfwd(e) for e in fwd) + ']', '  prov := [',
         ',\n'.join(f'    {{ method := {lstr(n)}, test := {t} }}' for n, t in prov) + ']',
         '  ctor := [' + ', '.join(steps) + ']', '  init := [',
         ',\n'.join(emit_dlfwd(e) for e in init) + ']', f'  declared := {llist(declared)}',
         '  dataReads := ' + llist(reads, lambda p: f'({lstr(p[0])}, {lstr(p[1])})'),
         f'  own := {llist(own)}',
         '  inlineBodies := ' + llist(inline, lambda p: f'({lstr(p[0])}, {lstr(p[1])})')]
    return '\n'.join(L) + '\n'


def main(out_path):
    regions = {}
    out = ['/- GENERATED by /verif/gen/gen_c20.py from /repo — do not edit.\n'
           '   Forwarding tables of ProblemWithCounters / ControlProblemWithCounters, vtable default tables,\n'
           '   DLProblem / DLControlProblem forwarding + constructor check lists, C-ABI typedefs. -/\n'
           'import Alpaqa.Model.C20\n\nnamespace Alpaqa.Gen.C20\nopen Alpaqa.C20\n']
    pwc = read(INC + 'problem/problem-with-counters.hpp')
    ocp = read(INC + 'problem/ocproblem.hpp')
    f1, t1, z1 = counter_fields(read(INC + 'problem/problem-counters.hpp'), 'EvalCounter', 'EvalTimer')
    f2, t2, z2 = counter_fields(read(INC + 'problem/ocproblem-counters.hpp'), 'OCPEvalCounter', 'OCPEvalTimer')
    regions['EvalCounter'] = {'fields': len(f1), 'reset_zeroes': z1}
    regions['OCPEvalCounter'] = {'fields': len(f2), 'reset_zeroes': z2}
    out.append(emit_wrapper('nlpWrapper', wrapper_table(pwc, 'ProblemWithCounters', 'EvalCounter', regions), f1, t1, z1))
    out.append(emit_wrapper('ocpWrapper', wrapper_table(ocp, 'ControlProblemWithCounters', 'OCPEvalCounter', regions),
                            f2, t2, z2))

    out.append('/-- `FunctionalProblem`: `fwd` = eval_X ↦ std::function member called; `counterFields` = the std::function members -/\n' +
               functional_table(read(INC + 'problem/functional-problem.hpp'), regions))
    bm = class_members(read(INC + 'problem/box-constr-problem.hpp'), 'BoxConstrProblem')
    out.append('/-- members of `BoxConstrProblem` (base class of DLProblem and FunctionalProblem) -/\n'
               'def boxConstrDeclared : List String := ' + llist(bm) + '\n')
    te_hpp = read(INC + 'problem/type-erased-problem.hpp')
    te_tpp = read(INC + 'implementation/problem/type-erased-problem.tpp')
    rows, sup, req, opt = te_table(te_hpp, te_tpp, 'TypeErasedProblem', 'ProblemVTable', regions)
    out.append('def nlpTE : TETable where\n  cls := "TypeErasedProblem"\n  entries := [\n' + ',\n'.join(rows) +
               ']\n  supports := ' + llist(sup, lambda p: f'({lstr("eval_" + p[0][5:] if p[0].startswith("eval_") else p[0])}, {lstr(p[1])})') + '\n')
    oc_tpp = read(INC + 'implementation/problem/ocproblem.tpp')
    rows, sup2, req2, opt2 = te_table(ocp, oc_tpp, 'TypeErasedControlProblem', 'ControlProblemVTable', regions)
    out.append('def ocpTE : TETable where\n  cls := "TypeErasedControlProblem"\n  entries := [\n' + ',\n'.join(rows) +
               ']\n  supports := []\n')
    # lists read independently of the tables above: the vtable structs' declared function members, the public
    # member functions of the type-erased classes, their dispatch definitions, the two ALPAQA_TE_*_METHOD macros
    f_nlp = vtable_fields(te_hpp, 'ProblemVTable')
    f_ocp = vtable_fields(ocp, 'ControlProblemVTable')
    out.append('/-- function members declared by `ProblemVTable` (type-erased-problem.hpp) -/\n' + emit_vtfields('nlpVtFields', f_nlp))
    out.append('/-- function members declared by `ControlProblemVTable` (ocproblem.hpp) -/\n' + emit_vtfields('ocpVtFields', f_ocp))
    out.append('/-- member functions declared by `TypeErasedProblem` -/\ndef nlpTEMembers : List String := ' +
               llist(class_members(te_hpp, 'TypeErasedProblem')) + '\n')
    out.append('/-- member functions declared by `TypeErasedControlProblem` -/\ndef ocpTEMembers : List String := ' +
               llist(class_members(ocp, 'TypeErasedControlProblem')) + '\n')
    d_nlp = te_dispatch(te_hpp, 'TypeErasedProblem')
    d_ocp = te_dispatch(ocp, 'TypeErasedControlProblem')
    out.append('/-- `TypeErasedProblem::method(params) { return call(vtable.entry, args); }` -/\n' + emit_dispatch('nlpTEDispatch', d_nlp))
    out.append('/-- the same for `TypeErasedControlProblem` (checked and unchecked definitions) -/\n' + emit_dispatch('ocpTEDispatch', d_ocp))
    rm = read(INC + 'util/required-method.hpp')
    out.append('/-- replacement text of `ALPAQA_TE_REQUIRED_METHOD` (util/required-method.hpp), white space normalised -/\n'
               'def teRequiredMacro : String := ' + lstr(te_macro_text(rm, 'ALPAQA_TE_REQUIRED_METHOD')) + '\n')
    out.append('/-- replacement text of `ALPAQA_TE_OPTIONAL_METHOD` -/\n'
               'def teOptionalMacro : String := ' + lstr(te_macro_text(rm, 'ALPAQA_TE_OPTIONAL_METHOD')) + '\n')
    regions['vtable_fields'] = {'nlp': len(f_nlp), 'ocp': len(f_ocp), 'dispatch_nlp': len(d_nlp), 'dispatch_ocp': len(d_ocp),
                                'hash': cp.ast_hash([f_nlp, f_ocp, d_nlp, d_ocp])}
    # the vtable constructor's run-time checks
    vsrc = struct_body(ocp, 'ControlProblemVTable')
    chk = re.findall(r'if\s*\(\s*(\w+)\s*>\s*0\s*&&\s*(' + ID + r')\s*==\s*&?\s*(' + ID +
                     r')\s*\)\s*throw\s+std::runtime_error', vsrc)
    out.append('/-- `ControlProblemVTable` constructor: `if (dim > 0 && entry == <absent value>) throw` -/\n'
               'def ocpCtorChecks : List (String × String × String) := ' +
               llist(chk, lambda p: f'({lstr(p[0])}, {lstr(p[1])}, {lstr(p[2])})') + '\n')
    regions['ControlProblemVTable.ctor'] = chk

    cpp = read(DL_CPP)
    hpp = read(DL_HPP)
    h = read(DL_H)
    out.append(emit_abi('abiNLP', abi_members(h, 'alpaqa_problem_functions_t')))
    out.append(emit_abi('abiOCP', abi_members(h, 'alpaqa_control_problem_functions_t')))
    dn = abi_data_fields(h, 'alpaqa_problem_functions_t')
    do = abi_data_fields(h, 'alpaqa_control_problem_functions_t')
    out.append('/-- data (non-function-pointer) members of `alpaqa_problem_functions_t` -/\n'
               'def abiNLPData : List String := ' + llist(dn) + '\n')
    out.append('/-- data members of `alpaqa_control_problem_functions_t` -/\n'
               'def abiOCPData : List String := ' + llist(do) + '\n')
    regions['abi_data'] = {'nlp': dn, 'ocp': do}
    out.append(emit_dl('dlNLP', 'DLProblem', *dl_table(cpp, hpp, 'DLProblem', regions)))
    out.append(emit_dl('dlOCP', 'DLControlProblem', *dl_table(cpp, hpp, 'DLControlProblem', regions)))
    out.append(emit_helpers(wrap_helpers(pwc, ['problem_with_counters', 'problem_with_counters_ref'], 'ProblemWithCounters') +
                            wrap_helpers(ocp, ['ocproblem_with_counters', 'ocproblem_with_counters_ref'], 'ControlProblemWithCounters')))
    op = own_projections(cpp)
    out.append(emit_ownproj(op))
    box_hpp = read(INC + 'problem/box.hpp')
    bcp_hpp = read(INC + 'problem/box-constr-problem.hpp')
    out.append('/-- body of `project(v, box)` (problem/box.hpp) -/\ndef boxProjectBody : String := ' +
               lstr(fn_text(box_hpp, r'inline auto project\(const auto &v,[^)]*\)\s*\{', 'project')) + '\n')
    out.append('/-- body of `projecting_difference(v, box)` (problem/box.hpp) -/\ndef boxProjDiffBody : String := ' +
               lstr(fn_text(box_hpp, r'projecting_difference\(const auto &v,[^)]*\)\s*\{', 'projecting_difference')) + '\n')
    out.append('/-- body of `BoxConstrProblem::eval_proj_multipliers_box(D, y, M, penalty_alm_split)` -/\n'
               'def projMultipliersBoxBody : String := ' +
               lstr(fn_text(bcp_hpp, r'static void eval_proj_multipliers_box\([^)]*\)\s*\{', 'eval_proj_multipliers_box')) + '\n')
    regions['own_projections'] = {'hash': cp.ast_hash([op['dims'], op['sizes'], op['fills'], op['diff'], op['mult']])}
    m = re.search(r'struct\s+(?:[A-Z_]+\s+)?invalid_abi_error\s*:\s*(?:public\s+)?([\w:]+)', hpp)
    if not m:
        raise TErr('invalid_abi_error: base class not found')
    derives = m.group(1).split('::')[-1] == 'dynamic_load_error'
    out.append('/-- `struct invalid_abi_error : dynamic_load_error` (dl-problem.hpp) -/\n'
               f'def invalidAbiDerivesFromDynamicLoadError : Bool := {"true" if derives else "false"}\n')
    mabi = re.search(r'#define\s+ALPAQA_DL_ABI_VERSION\s+(0x[0-9A-Fa-f]+)', h)
    if not mabi:
        raise TErr('ALPAQA_DL_ABI_VERSION not found')
    out.append(f'def abiVersion : Nat := {int(mabi.group(1), 16)}\n')
    regions['abi'] = {'version': mabi.group(1), 'invalid_abi_error_base': m.group(1)}
    out.append('end Alpaqa.Gen.C20\n')
    text = '\n'.join(out)
    old = open(out_path, encoding='utf8').read() if os.path.exists(out_path) else None
    if old != text:
        with open(out_path, 'w', encoding='utf8') as f:
            f.write(text)
    return regions


if __name__ == '__main__':
    outp = sys.argv[1] if len(sys.argv) > 1 else os.path.join(
        os.path.dirname(os.path.abspath(__file__)), '..', 'lean', 'Alpaqa', 'Gen', 'C20.lean')
    try:
        r = main(outp)
        print(json.dumps({'ok': True, 'regions': r}))
    except (cp.TranslationError, ValueError, IndexError, KeyError) as e:
        print(json.dumps({'ok': False, 'error': f'{type(e).__name__}: {e}'}))
        sys.exit(2)
