"""
cxxparse — tokenizer, region locator and Pratt parser for the C++ *statement subset* that
alpaqa's decision kernels are written in.  No dependencies.

It is deliberately small: anything outside the subset raises TranslationError, and the caller
(the per-property generator) turns that into a *broken tie* (never a silent skip).

AST (tuples):
  ('num', text)                   numeric literal
  ('id', name)                    identifier (may be qualified: 'std::max')
  ('str', text) / ('chr', text)
  ('un', op, a)                   unary  - + ! ~ * & ++ --
  ('post', op, a)                 postfix ++ --
  ('bin', op, a, b)               binary, incl. '=' and compound assignments, ','
  ('tern', c, a, b)
  ('call', f, [args], [targs])    f(args) — f is an AST; targs = template-argument text or None
  ('mem', obj, name, arrow)       obj.name / obj->name
  ('idx', a, i)                   a[i]
  ('cast', type_text, e)          static_cast<T>(e), T(e) for known scalar types
  ('init', [args])                braced initialiser list
Statements:
  ('decl', type_text, name, init_or_None)
  ('expr', e)  ('return', e_or_None)  ('if', c, then, else_or_None)  ('block', [stmts])
  ('for', init, cond, step, body) ('while', c, body) ('dowhile', body, c)
  ('break',) ('continue',) ('throw', e)  ('other', text)
"""
import re
import unicodedata


class TranslationError(Exception):
    pass


# ---------------------------------------------------------------- comments / regions

def strip_comments(src: str) -> str:
    """Remove // and /* */ comments, keep string literals and line structure."""
    out = []
    i, n = 0, len(src)
    while i < n:
        c = src[i]
        if c == '"' or c == "'":
            j = i + 1
            while j < n and src[j] != c:
                if src[j] == '\\':
                    j += 1
                j += 1
            out.append(src[i:j + 1])
            i = j + 1
        elif src.startswith('//', i):
            j = src.find('\n', i)
            if j < 0:
                j = n
            i = j
        elif src.startswith('/*', i):
            j = src.find('*/', i + 2)
            j = n if j < 0 else j + 2
            out.append(''.join(ch if ch == '\n' else ' ' for ch in src[i:j]))
            i = j
        else:
            out.append(c)
            i += 1
    return ''.join(out)


def match_brace(src: str, open_idx: int, open_ch='{', close_ch='}') -> int:
    """Index of the brace matching src[open_idx]."""
    assert src[open_idx] == open_ch, (src[open_idx - 20:open_idx + 20])
    depth = 0
    i, n = open_idx, len(src)
    while i < n:
        c = src[i]
        if c == '"' or c == "'":
            j = i + 1
            while j < n and src[j] != c:
                if src[j] == '\\':
                    j += 1
                j += 1
            i = j + 1
            continue
        if c == open_ch:
            depth += 1
        elif c == close_ch:
            depth -= 1
            if depth == 0:
                return i
        i += 1
    raise TranslationError('unbalanced braces')


def find_region(src: str, anchor_re: str, which: int = 0, flags=re.S):
    """Locate `anchor_re` (comment-stripped source), then the next '{' and its match.
    Returns (header_text, body_text) — body without the outer braces."""
    ms = list(re.finditer(anchor_re, src, flags))
    if len(ms) <= which:
        raise TranslationError(f'anchor not found: {anchor_re!r} (occurrence {which})')
    m = ms[which]
    ob = src.find('{', m.end() - 1 if src[m.end() - 1] == '{' else m.end())
    if ob < 0:
        raise TranslationError(f'no body after anchor {anchor_re!r}')
    cb = match_brace(src, ob)
    return src[m.start():ob], src[ob + 1:cb]


def find_statement(src: str, anchor_re: str, which: int = 0, flags=re.S) -> str:
    """The single statement (up to the terminating ';' at depth 0) starting at anchor."""
    ms = list(re.finditer(anchor_re, src, flags))
    if len(ms) <= which:
        raise TranslationError(f'anchor not found: {anchor_re!r} (occurrence {which})')
    i = ms[which].start()
    depth = 0
    j = i
    while j < len(src):
        c = src[j]
        if c in '([{':
            depth += 1
        elif c in ')]}':
            depth -= 1
        elif c == ';' and depth == 0:
            return src[i:j + 1]
        j += 1
    raise TranslationError('unterminated statement')


# ---------------------------------------------------------------- tokenizer

_OPS = ['<<=', '>>=', '<=>', '->*', '...', '::', '->', '++', '--', '<<', '>>', '<=', '>=', '==',
        '!=', '&&', '||', '+=', '-=', '*=', '/=', '%=', '&=', '|=', '^=',
        '+', '-', '*', '/', '%', '<', '>', '=', '!', '~', '&', '|', '^', '?', ':', ';', ',',
        '.', '(', ')', '[', ']', '{', '}', '#']

_NUM_RE = re.compile(r'(0[xX][0-9a-fA-F\']+|(\d[\d\']*)?\.?\d[\d\']*([eE][+-]?\d+)?)[uUlLfF]*')


def _id_start(c):
    return c == '_' or unicodedata.category(c)[0] == 'L'


def _id_cont(c):
    cat = unicodedata.category(c)
    return c == '_' or cat[0] == 'L' or cat in ('Mn', 'Mc', 'Nd', 'Nl')


def tokenize(src: str):
    toks = []
    i, n = 0, len(src)
    while i < n:
        c = src[i]
        if c.isspace():
            i += 1
            continue
        if c == '"' or c == "'":
            j = i + 1
            while j < n and src[j] != c:
                if src[j] == '\\':
                    j += 1
                j += 1
            toks.append(('str' if c == '"' else 'chr', src[i:j + 1]))
            i = j + 1
            continue
        if c.isdigit() or (c == '.' and i + 1 < n and src[i + 1].isdigit()):
            m = _NUM_RE.match(src, i)
            toks.append(('num', m.group(0)))
            i = m.end()
            continue
        if _id_start(c):
            j = i + 1
            while j < n and _id_cont(src[j]):
                j += 1
            word = unicodedata.normalize('NFC', src[i:j])
            if word in ('not', 'and', 'or'):
                toks.append(('op', {'not': '!', 'and': '&&', 'or': '||'}[word]))
            else:
                toks.append(('id', word))
            i = j
            continue
        for op in _OPS:
            if src.startswith(op, i):
                toks.append(('op', op))
                i += len(op)
                break
        else:
            raise TranslationError(f'cannot tokenize at {src[i:i + 20]!r}')
    toks.append(('eof', ''))
    return toks


# ---------------------------------------------------------------- parser

_BINPREC = {
    ',': 1,
    '=': 2, '+=': 2, '-=': 2, '*=': 2, '/=': 2, '%=': 2, '&=': 2, '|=': 2, '^=': 2, '<<=': 2, '>>=': 2,
    '?': 3,
    '||': 4, '&&': 5, '|': 6, '^': 7, '&': 8,
    '==': 9, '!=': 9,
    '<': 10, '>': 10, '<=': 10, '>=': 10, '<=>': 10,
    '<<': 11, '>>': 11,
    '+': 12, '-': 12,
    '*': 13, '/': 13, '%': 13,
}
_RIGHT = {'=', '+=', '-=', '*=', '/=', '%=', '&=', '|=', '^=', '<<=', '>>=', '?'}

SCALAR_TYPES = {'real_t', 'double', 'float', 'index_t', 'length_t', 'int', 'unsigned', 'size_t',
                'bool', 'long', 'auto', 'ptrdiff_t'}
_DECL_QUAL = {'const', 'constexpr', 'static', 'volatile', 'inline', 'mutable', 'typename'}


class Parser:
    def __init__(self, text: str, type_names=()):
        self.toks = tokenize(text)
        self.p = 0
        self.type_names = set(SCALAR_TYPES) | set(type_names)

    # -- token helpers
    def peek(self, k=0):
        return self.toks[min(self.p + k, len(self.toks) - 1)]

    def next(self):
        t = self.toks[self.p]
        self.p += 1
        return t

    def at(self, kind, val=None, k=0):
        t = self.peek(k)
        return t[0] == kind and (val is None or t[1] == val)

    def accept(self, kind, val=None):
        if self.at(kind, val):
            return self.next()
        return None

    def expect(self, kind, val=None):
        t = self.next()
        if t[0] != kind or (val is not None and t[1] != val):
            raise TranslationError(f'expected {val or kind}, got {t} near token {self.p}')
        return t

    # -- expressions
    def parse_expr(self, minprec=1):
        lhs = self.parse_unary()
        while True:
            t = self.peek()
            if t[0] != 'op' or t[1] not in _BINPREC:
                break
            op = t[1]
            prec = _BINPREC[op]
            if prec < minprec:
                break
            self.next()
            if op == '?':
                a = self.parse_expr(2)
                self.expect('op', ':')
                b = self.parse_expr(2)  # right assoc, assignment-level
                lhs = ('tern', lhs, a, b)
                continue
            rhs = self.parse_expr(prec if op in _RIGHT else prec + 1)
            lhs = ('bin', op, lhs, rhs)
        return lhs

    def parse_assign(self):
        return self.parse_expr(2)

    def parse_unary(self):
        t = self.peek()
        if t[0] == 'op' and t[1] in ('-', '+', '!', '~', '*', '&', '++', '--'):
            self.next()
            a = self.parse_unary()
            return ('un', t[1], a)
        return self.parse_postfix(self.parse_primary())

    def _template_args_ahead(self):
        """At '<': decide whether it opens a template-argument list (heuristic: balanced
        <...> containing only ids, ::, numbers, commas, and followed by '(' or '::' or '{')."""
        k = 0
        depth = 0
        while True:
            t = self.peek(k)
            if t[0] == 'eof':
                return None
            if t == ('op', '<'):
                depth += 1
            elif t == ('op', '>'):
                depth -= 1
                if depth == 0:
                    nxt = self.peek(k + 1)
                    if nxt in (('op', '('), ('op', '::'), ('op', '{')):
                        return k
                    return None
            elif t == ('op', '>>'):
                return None
            elif t[0] in ('id', 'num') or t in (('op', '::'), ('op', ','), ('op', '*'), ('op', '&')):
                pass
            else:
                return None
            k += 1

    def parse_qualified_id(self, first):
        name = first
        targs = None
        while True:
            if self.at('op', '::'):
                self.next()
                if self.accept('id', 'template'):
                    pass
                name += '::' + self.expect('id')[1]
            elif self.at('op', '<'):
                k = self._template_args_ahead()
                if k is None:
                    break
                parts = [self.next()[1] for _ in range(k + 1)]
                targs = ''.join(parts)[1:-1]
                if not self.at('op', '::'):
                    break
                name += '<' + targs + '>'
                targs = None
            else:
                break
        return name, targs

    def parse_primary(self):
        t = self.next()
        if t[0] == 'num':
            return ('num', t[1])
        if t[0] == 'str':
            return ('str', t[1])
        if t[0] == 'chr':
            return ('chr', t[1])
        if t[0] == 'op' and t[1] == '(':
            e = self.parse_expr()
            self.expect('op', ')')
            return e
        if t[0] == 'op' and t[1] == '{':
            args = self.parse_args('}')
            return ('init', args)
        if t[0] == 'op' and t[1] == '[':
            raise TranslationError('lambda expression inside translated region')
        if t[0] == 'id':
            if t[1] in ('static_cast', 'const_cast', 'reinterpret_cast', 'dynamic_cast'):
                self.expect('op', '<')
                depth, parts = 1, []
                while depth:
                    u = self.next()
                    if u == ('op', '<'):
                        depth += 1
                    elif u == ('op', '>'):
                        depth -= 1
                    if depth:
                        parts.append(u[1])
                self.expect('op', '(')
                e = self.parse_expr()
                self.expect('op', ')')
                return ('cast', ' '.join(parts), e)
            name, targs = self.parse_qualified_id(t[1])
            node = ('id', name)
            if targs is not None:
                # templated call f<T>(...)
                if self.at('op', '('):
                    self.next()
                    args = self.parse_args(')')
                    return ('call', node, args, targs)
                return ('id', name + '<' + targs + '>')
            if name in self.type_names and self.at('op', '('):
                self.next()
                args = self.parse_args(')')
                if len(args) == 1:
                    return ('cast', name, args[0])
                return ('call', node, args, None)
            if name in self.type_names and self.at('op', '{'):
                self.next()
                args = self.parse_args('}')
                if len(args) == 1:
                    return ('cast', name, args[0])
                return ('call', node, args, None)
            return node
        raise TranslationError(f'unexpected token {t}')

    def parse_args(self, close):
        args = []
        if self.accept('op', close):
            return args
        while True:
            args.append(self.parse_assign())
            if self.accept('op', ','):
                continue
            self.expect('op', close)
            return args

    def parse_postfix(self, e):
        while True:
            if self.at('op', '('):
                self.next()
                args = self.parse_args(')')
                e = ('call', e, args, None)
            elif self.at('op', '['):
                self.next()
                i = self.parse_expr()
                self.expect('op', ']')
                e = ('idx', e, i)
            elif self.at('op', '.') or self.at('op', '->'):
                arrow = self.next()[1] == '->'
                self.accept('id', 'template')
                name = self.expect('id')[1]
                targs = None
                if self.at('op', '<'):
                    k = self._template_args_ahead()
                    if k is not None:
                        parts = [self.next()[1] for _ in range(k + 1)]
                        targs = ''.join(parts)[1:-1]
                e = ('mem', e, name, arrow)
                if targs is not None:
                    self.expect('op', '(')
                    args = self.parse_args(')')
                    e = ('call', e, args, targs)
            elif self.at('op', '++') or self.at('op', '--'):
                e = ('post', self.next()[1], e)
            else:
                return e

    # -- statements
    def _looks_like_decl(self):
        """type-ish prefix followed by identifier and one of = ; { ( , — conservative."""
        k = 0
        saw_type = False
        while True:
            t = self.peek(k)
            if t[0] == 'id' and (t[1] in _DECL_QUAL):
                k += 1
                continue
            if t[0] == 'id' and not saw_type:
                # (qualified) type name
                k += 1
                while self.peek(k) == ('op', '::') and self.peek(k + 1)[0] == 'id':
                    k += 2
                if self.peek(k) == ('op', '<'):
                    # template args in a type: skip balanced
                    depth = 0
                    while True:
                        u = self.peek(k)
                        if u[0] == 'eof':
                            return False
                        if u == ('op', '<'):
                            depth += 1
                        elif u == ('op', '>'):
                            depth -= 1
                            if depth == 0:
                                k += 1
                                break
                        elif u[0] == 'op' and u[1] in (';', '=', '(', ')', '{', '}'):
                            return False
                        k += 1
                saw_type = True
                continue
            if t[0] == 'op' and t[1] in ('&', '*', '&&') and saw_type:
                k += 1
                continue
            break
        if not saw_type:
            return False
        t = self.peek(k)
        if t[0] == 'op' and t[1] == '[':
            # structured binding: auto [a, b] = ...
            return self.peek(0)[1] in ('auto', 'const')
        if t[0] != 'id':
            return False
        u = self.peek(k + 1)
        return u[0] == 'op' and u[1] in ('=', ';', '{', ',')

    def parse_decl(self):
        parts = []
        while True:
            t = self.peek()
            u = self.peek(1)
            if t[0] == 'id' and u[0] == 'op' and u[1] in ('=', ';', '{', ',') and parts:
                break
            if t == ('op', '['):
                break
            parts.append(self.next()[1])
        ty = ' '.join(parts)
        if self.at('op', '['):
            self.next()
            names = []
            while True:
                names.append(self.expect('id')[1])
                if self.accept('op', ','):
                    continue
                self.expect('op', ']')
                break
            self.expect('op', '=')
            init = self.parse_expr()
            self.expect('op', ';')
            return ('decl', ty, tuple(names), init)
        decls = []
        while True:
            name = self.expect('id')[1]
            init = None
            if self.accept('op', '='):
                init = self.parse_assign()
            elif self.at('op', '{'):
                self.next()
                args = self.parse_args('}')
                init = args[0] if len(args) == 1 else ('init', args)
            decls.append(('decl', ty, name, init))
            if self.accept('op', ','):
                continue
            self.expect('op', ';')
            break
        return decls[0] if len(decls) == 1 else ('block_flat', decls)

    def parse_stmt(self):
        t = self.peek()
        if t == ('op', '{'):
            self.next()
            stmts = []
            while not self.at('op', '}'):
                stmts.append(self.parse_stmt())
            self.next()
            return ('block', _flatten(stmts))
        if t == ('op', ';'):
            self.next()
            return ('block', [])
        if t[0] == 'id':
            kw = t[1]
            if kw == 'return':
                self.next()
                e = None if self.at('op', ';') else self.parse_expr()
                self.expect('op', ';')
                return ('return', e)
            if kw == 'if':
                self.next()
                self.accept('id', 'constexpr')
                self.expect('op', '(')
                c = self.parse_expr()
                self.expect('op', ')')
                th = self.parse_stmt()
                el = None
                if self.accept('id', 'else'):
                    el = self.parse_stmt()
                return ('if', c, th, el)
            if kw == 'while':
                self.next()
                self.expect('op', '(')
                c = self.parse_expr()
                self.expect('op', ')')
                return ('while', c, self.parse_stmt())
            if kw == 'do':
                self.next()
                body = self.parse_stmt()
                self.expect('id', 'while')
                self.expect('op', '(')
                c = self.parse_expr()
                self.expect('op', ')')
                self.expect('op', ';')
                return ('dowhile', body, c)
            if kw == 'for':
                self.next()
                self.expect('op', '(')
                init = self.parse_stmt()
                cond = None if self.at('op', ';') else self.parse_expr()
                self.expect('op', ';')
                step = None if self.at('op', ')') else self.parse_expr()
                self.expect('op', ')')
                return ('for', init, cond, step, self.parse_stmt())
            if kw == 'break':
                self.next()
                self.expect('op', ';')
                return ('break',)
            if kw == 'continue':
                self.next()
                self.expect('op', ';')
                return ('continue',)
            if kw == 'throw':
                self.next()
                e = self.parse_expr()
                self.expect('op', ';')
                return ('throw', e)
            if kw == 'using':
                while not self.accept('op', ';'):
                    self.next()
                return ('block', [])
            if self._looks_like_decl():
                return self.parse_decl()
        e = self.parse_expr()
        self.expect('op', ';')
        return ('expr', e)

    def parse_stmts(self):
        stmts = []
        while not self.at('eof'):
            stmts.append(self.parse_stmt())
        return _flatten(stmts)


def _flatten(stmts):
    out = []
    for s in stmts:
        if s[0] == 'block_flat':
            out.extend(s[1])
        else:
            out.append(s)
    return out


def parse_statements(text: str, type_names=()):
    return Parser(text, type_names).parse_stmts()


def parse_expression(text: str, type_names=()):
    p = Parser(text, type_names)
    e = p.parse_expr()
    if not p.at('eof'):
        raise TranslationError(f'trailing tokens after expression: {p.peek()}')
    return e


# ---------------------------------------------------------------- identifier mangling

_GREEK = {
    'α': 'alpha', 'β': 'beta', 'γ': 'gamma', 'δ': 'delta', 'ε': 'eps', 'ϵ': 'eps', 'ζ': 'zeta',
    'η': 'eta', 'θ': 'theta', 'λ': 'lam', 'μ': 'mu', 'µ': 'mu', 'ν': 'nu', 'ρ': 'rho', 'σ': 'sigma',
    'τ': 'tau', 'φ': 'phi', 'ϕ': 'phi', 'ψ': 'psi', 'Σ': 'Sig', 'Δ': 'Del',
}
_SUB = {'ₖ': '_k', 'ₜ': '_t', 'ₙ': '_n', 'ₑ': '_e', 'ₓ': '_x', 'ₗ': '_l', 'ₐ': '_a', 'ₛ': '_s'}
_COMB = {'̂': 'hat', '̅': 'bar', '̃': 'tilde'}


def mangle(name: str) -> str:
    """C++ (unicode) identifier → ASCII Lean identifier, injective on alpaqa's names."""
    out = []
    for ch in unicodedata.normalize('NFD', name):
        if ch in _GREEK:
            out.append(_GREEK[ch])
        elif ch in _SUB:
            out.append(_SUB[ch])
        elif ch in _COMB:
            out.append(_COMB[ch])
        elif ch == 'ᵀ':
            out.append('T')
        elif ch == ':':
            out.append('_')
        elif ch.isascii() and (ch.isalnum() or ch == '_'):
            out.append(ch)
        else:
            out.append('u%04x' % ord(ch))
    s = ''.join(out)
    if s in ('at', 'from', 'have', 'show', 'fun', 'end', 'then', 'else', 'if', 'let', 'in', 'do',
             'open', 'def', 'theorem', 'by', 'with', 'match', 'where', 'instance', 'class'):
        s += '_'
    return s


def ast_hash(ast) -> str:
    import hashlib
    return hashlib.sha256(repr(ast).encode()).hexdigest()[:16]
