#!/usr/bin/env python3
"""C08 translator: FISTA's scalar / vector update statements — momentum parameter `t_new`, the
next-point statement (extrapolation or plain forward-backward point), the `fixed_lipschitz`
condition, the initial step size and the backtracking update — re-extracted from /repo's
fista.tpp on every run (lean/Alpaqa/Gen/C08.lean)."""
import json
import os
import re
import sys
sys.path.insert(0, os.path.dirname(os.path.abspath(__file__)))
import cxxparse as cp
from lean_emit import Emitter, file_header, FILE_FOOTER

REPO = os.environ.get('VERIF_REPO', '/repo')
SRC = REPO + '/src/alpaqa/include/alpaqa/implementation/inner/fista.tpp'
# the step-size backtracking loop: `while (!stop_signal.stop_requested() && curr->L < params.L_max && qub_violated(*curr))`
QUB_WHILE = r'while\s*\(\s*!\s*stop_signal\s*\.\s*stop_requested\s*\(\s*\)\s*&&\s*curr->L\s*<\s*params\.L_max'


def nfc(s):
    return cp.unicodedata.normalize('NFC', s)


def statement_with_else(src, anchor_re):
    """`if (…) stmt; else stmt;` starting at the anchor (two simple statements)."""
    m = re.search(anchor_re, src, re.S)
    if not m:
        raise cp.TranslationError(f'anchor not found: {anchor_re!r}')
    first = cp.find_statement(src[m.start():], anchor_re)
    rest = src[m.start() + len(first):]
    if not re.match(r'\s*else\b', rest):
        raise cp.TranslationError('next-point statement has no else branch')
    second = cp.find_statement(rest, r'else\b')
    return first + second


def main(out_path):
    regions, defs, lits = {}, [], set()
    problems = []   # shape mismatches with the hand-written model: reported after the file is written
    src = nfc(cp.strip_comments(open(SRC, encoding='utf8').read()))
    # only the body of operator() (the comment block with the textbook formulas is stripped)
    _, body = cp.find_region(src, r'FISTASolver<Conf>::operator\(\)\s*\(')

    def emit(name, params, ss, ret, outputs=None, doc=None, out_types=None):
        env = {c: (l, t) for c, l, t in params}
        em = Emitter(lambda d: env.get(d))
        txt = em.function(name, params, ss, ret, outputs=outputs, doc=doc, out_types=out_types)
        lits.update(em.nat_lits)
        regions[name] = {'hash': cp.ast_hash(ss)}
        defs.append(txt)

    # ---- bool fixed_lipschitz = params.L_min == params.L_max; -------------------------------
    st = cp.find_statement(body, r'bool\s+fixed_lipschitz\s*=')
    ss = cp.parse_statements(st)
    emit('fista_fixedLipschitz', [('params.L_min', 'L_min', 'S'), ('params.L_max', 'L_max', 'S')],
         ss, None, outputs=['fixed_lipschitz'], doc='fista.tpp `bool fixed_lipschitz = …`',
         out_types={'fixed_lipschitz': 'B'})

    # ---- curr->γ = params.Lipschitz.Lγ_factor / curr->L; -----------------------------------
    st = cp.find_statement(body, nfc(r'curr->γ\s*=\s*params\.Lipschitz'))
    ss = cp.parse_statements(st)
    emit('fista_gammaInit', [(nfc('params.Lipschitz.Lγ_factor'), 'Lgamma_factor', 'S'),
                             ('curr.L', 'L', 'S')], ss, None, outputs=[nfc('curr.γ')],
         doc='fista.tpp initial step size', out_types={nfc('curr.γ'): 'S'})

    # ---- backtracking update inside the quadratic-upper-bound loop --------------------------
    hdr, wbody = cp.find_region(body, QUB_WHILE)
    cond = cp.parse_expression(hdr[hdr.index('(') + 1:hdr.rindex(')')])
    cond_txt = repr(cond)
    if 'qub_violated' not in cond_txt:
        raise cp.TranslationError('QUB loop condition does not call qub_violated')
    if 'stop_requested' not in cond_txt:
        raise cp.TranslationError('QUB loop condition does not poll the stop flag (Model/Fista.lean `qubLoop` does)')
    ss_all = cp.parse_statements(wbody)
    upd = [s for s in ss_all if s[0] == 'expr' and s[1][0] == 'bin' and s[1][1] in ('/=', '*=')]
    calls = [cp.ast_hash([s]) for s in ss_all if s not in upd]
    emit('fista_backtrack', [(nfc('curr.γ'), 'gamma', 'S'), ('curr.L', 'L', 'S')], upd, None,
         outputs=[nfc('curr.γ'), 'curr.L'], doc='fista.tpp QUB loop: `curr->γ /= 2; curr->L *= 2;`',
         out_types={nfc('curr.γ'): 'S', 'curr.L': 'S'})
    # the rest of the loop body (prox step, ψ(x̂), counter) and the loop condition are pinned by hash:
    # the hand-written `qubLoop` of Model/Fista.lean mirrors exactly this shape
    shape = [s[1][1][1] if s[0] == 'expr' and s[1][0] == 'call' and s[1][1][0] == 'id' else
             ('incr' if s[0] == 'expr' and s[1][0] in ('un', 'post') else s[0]) for s in ss_all if s not in upd]
    expected = [nfc('eval_prox_grad_step'), nfc('eval_ψx̂'), 'incr']
    if shape != expected:
        raise cp.TranslationError(f'QUB loop body changed shape: {shape} (model expects {expected})')
    regions['fista_qubLoop_shape'] = {'hash': cp.ast_hash([cond] + ss_all)}

    # ---- ∇ψ(x̂) is evaluated after the backtracking loop (at the accepted step) ------------------
    # Model/Fista.lean `proxStage` = firstStep; qubLoop; withGradHat — pinned here by position.
    w = re.search(QUB_WHILE, body)
    wend = cp.match_brace(body, body.index('{', w.end()))
    crit = body.index('calc_error_stop_crit')
    gh = [m_.start() for m_ in re.finditer(nfc(r'if\s*\(\s*need_grad_ψx̂\s*\)\s*eval_grad_ψx̂\s*\(\s*\*curr\s*\)\s*;'), body)]
    if len(gh) != 1 or not (wend < gh[0] < crit):
        problems.append(
            'eval_grad_ψx̂ is not evaluated (exactly once) between the QUB loop and calc_error_stop_crit: '
            f'positions {gh}, loop ends at {wend} — ε would use ∇ψ of a rejected x̂ after backtracking')
    regions['fista_gradhat_after_qub'] = {'hash': cp.ast_hash(cp.parse_statements(body[wend + 1:crit].split('real_t')[0].split('if (no_progress')[0]))}

    # ---- real_t t_new = (1 + std::sqrt(1 + 4 * t * t)) / 2; --------------------------------
    st = cp.find_statement(body, r'real_t\s+t_new\s*=')
    ss = cp.parse_statements(st)
    emit('fista_tNext', [('t', 't', 'S')], ss, None, outputs=['t_new'],
         doc='fista.tpp `real_t t_new = …` (momentum parameter)', out_types={'t_new': 'S'})

    # ---- if (params.disable_acceleration) curr->x = curr->x̂; else curr->x = … ; -----------
    st = statement_with_else(body, r'if\s*\(\s*params\.disable_acceleration\s*\)')
    ss = cp.parse_statements(st)
    emit('fista_nextX', [('params.disable_acceleration', 'disable_acceleration', 'B'),
                         ('t_prev', 't_prev', 'S'), ('t', 't', 'S'), ('curr.x', 'x', 'V'),
                         (nfc('curr.x̂'), 'xhat', 'V'), (nfc('prev_x̂'), 'prev_xhat', 'V')],
         ss, None, outputs=['curr.x'],
         doc='fista.tpp "Calculate xₖ₊₁": extrapolation, or x̂ₖ when acceleration is disabled',
         out_types={'curr.x': 'V'})

    # ---- exit-block condition for the late ψ(x̂) evaluation --------------------------------
    m = re.search(nfc(r'if\s*\(\s*fixed_lipschitz\s*&&\s*!\s*need_grad_ψx̂\s*\)\s*eval_ψx̂\s*\(\s*\*curr\s*\)\s*;'), body)
    if not m:
        raise cp.TranslationError('exit block: `if (fixed_lipschitz && !need_grad_ψx̂) eval_ψx̂(*curr);` not found')
    regions['fista_exit_eval'] = {'hash': cp.ast_hash(cp.parse_statements(m.group(0)))}

    hdr = file_header('C08 FISTA momentum, extrapolation and step-size update statements.', nat_lits=lits)
    text = hdr + '\n'.join(defs) + FILE_FOOTER
    old = open(out_path).read() if os.path.exists(out_path) else None
    if old != text:
        with open(out_path, 'w') as f:
            f.write(text)
    if problems:
        raise cp.TranslationError('; '.join(problems))
    return regions


if __name__ == '__main__':
    out = sys.argv[1] if len(sys.argv) > 1 else os.path.join(
        os.path.dirname(os.path.abspath(__file__)), '..', 'lean', 'Alpaqa', 'Gen', 'C08.lean')
    try:
        r = main(out)
        print(json.dumps({'ok': True, 'regions': r}))
    except cp.TranslationError as e:
        print(json.dumps({'ok': False, 'error': str(e)}))
        sys.exit(2)
