#!/usr/bin/env python3
"""C05 translator: forward-backward envelope, quadratic-upper-bound and line-search acceptance
tests (PANOC, ZeroFPR, PANTR, FISTA, PANOC-OCP), PANTR ratio / radius update — re-extracted from
/repo on every run (lean/Alpaqa/Gen/C05.lean)."""
import json
import os
import re
import sys
sys.path.insert(0, os.path.dirname(os.path.abspath(__file__)))
import cxxparse as cp
from lean_emit import Emitter, file_header, FILE_FOOTER, dotted

REPO = os.environ.get('VERIF_REPO', '/repo')
INC = REPO + '/src/alpaqa/include/alpaqa/'

N = cp.unicodedata.normalize


def nfc(s):
    return N('NFC', s)


# fields of an iterate as they appear in the sources (after NFC), → lean suffix
FIELDS = {nfc('ψx'): 'psix', nfc('ψx̂'): 'psixhat', nfc('hx̂'): 'hxhat', nfc('pᵀp'): 'pTp',
          nfc('γ'): 'gamma', nfc('grad_ψᵀp'): 'gradpsiTp', nfc('L'): 'L',
          nfc('ψu'): 'psix', nfc('ψû'): 'psixhat'}
FBE_ARGS_STD = ['psix', 'hxhat', 'pTp', 'gamma', 'gradpsiTp']
FBE_ARGS_OCP = ['psix', 'pTp', 'gamma', 'gradpsiTp']


def read(rel):
    return cp.strip_comments(open(INC + rel, encoding='utf8').read())


def main(out_path):
    regions, defs, lits = {}, [], set()

    for solver, tag in (('panoc', 'panoc'), ('zerofpr', 'zerofpr'), ('pantr', 'pantr'),
                        ('fista', 'fista'), ('panoc-ocp', 'ocp')):
        src = nfc(read(f'implementation/inner/{solver}.tpp'))
        ocp = tag == 'ocp'
        fbe_args = FBE_ARGS_OCP if ocp else FBE_ARGS_STD

        # ---- Iterate::fbe -------------------------------------------------------------------
        _, body = cp.find_region(src, r'real_t\s+fbe\s*\(\s*\)\s*const')
        ss = cp.parse_statements(body)
        env = {f: (l, 'S') for f, l in FIELDS.items()}
        em = Emitter(lambda d: env.get(d))
        used = []
        for f, l in FIELDS.items():
            if re.search(r'(?<![\w])' + re.escape(f) + r'(?![\ŵᵀ])', body) and l in fbe_args \
                    and l not in [u[1] for u in used]:
                used.append((f, l))
        params = []
        for l in fbe_args:
            f = [ff for ff, ll in FIELDS.items() if ll == l and (ff in body)]
            if not f:
                raise cp.TranslationError(f'{solver}: fbe does not mention {l}')
            params.append((f[0], l, 'S'))
        defs.append(em.function(f'{tag}_fbe', params, ss, 'S', doc=f'{solver}.tpp Iterate::fbe'))
        lits.update(em.nat_lits)
        regions[f'{tag}_fbe'] = {'hash': cp.ast_hash(ss)}

        def iter_env(prefixes, extra):
            e = dict(extra)
            for pre in prefixes:
                for f, l in FIELDS.items():
                    e[f'{pre}.{f}'] = (f'{pre}_{l}', 'S')
            return e

        def fbe_method(obj, name, args, em):
            if name == 'fbe' and not args:
                pre = dotted(obj)
                xs = [em.lookup(f'{pre}.' + [ff for ff, ll in FIELDS.items()
                                              if ll == l and f'{pre}.{ff}' in em_env][0])[0]
                      for l in fbe_args]
                return '(' + ' '.join([f'{tag}_fbe'] + xs) + ')', 'S'
            return None

        # ---- qub_violated -------------------------------------------------------------------
        _, body = cp.find_region(src, r'auto\s+qub_violated\s*=')
        ss = cp.parse_statements(body)
        em_env = iter_env(['i'], {'params.quadratic_upperbound_tolerance_factor': ('qub_tol', 'S')})
        em = Emitter(lambda d: em_env.get(d))
        em.method_handler = fbe_method
        qfields = ['psix', 'psixhat', 'gradpsiTp', 'L', 'pTp']
        params = [('params.quadratic_upperbound_tolerance_factor', 'qub_tol', 'S')]
        for l in qfields:
            f = [ff for ff, ll in FIELDS.items() if ll == l and f'i.{ff}' in body]
            if not f:
                raise cp.TranslationError(f'{solver}: qub_violated does not mention {l}')
            params.append((f'i.{f[0]}', f'i_{l}', 'S'))
        defs.append(em.function(f'{tag}_qubViolated', params, ss, 'B',
                                doc=f'{solver}.tpp qub_violated'))
        lits.update(em.nat_lits)
        regions[f'{tag}_qubViolated'] = {'hash': cp.ast_hash(ss)}

        # ---- linesearch_violated (PANOC, ZeroFPR, PANOC-OCP) --------------------------------
        if tag in ('panoc', 'zerofpr', 'ocp'):
            _, body = cp.find_region(src, r'auto\s+linesearch_violated\s*=')
            ss = cp.parse_statements(body)
            em_env = iter_env(['curr', 'next'], {
                'params.force_linesearch': ('force_linesearch', 'B'),
                'params.linesearch_strictness_factor': ('beta', 'S'),
                'params.linesearch_tolerance_factor': ('ls_tol', 'S')})
            em = Emitter(lambda d: em_env.get(d))
            em.method_handler = fbe_method
            params = [('params.force_linesearch', 'force_linesearch', 'B'),
                      ('params.linesearch_strictness_factor', 'beta', 'S'),
                      ('params.linesearch_tolerance_factor', 'ls_tol', 'S')]
            for pre in ('curr', 'next'):
                for l in (fbe_args + (['L'] if pre == 'curr' else [])):
                    f = [ff for ff, ll in FIELDS.items() if ll == l and ff in src][0]
                    f = [ff for ff, ll in FIELDS.items() if ll == l and
                         (ocp == (ff in (nfc('ψu'), nfc('ψû'))) or ll not in ('psix', 'psixhat'))][0]
                    params.append((f'{pre}.{f}', f'{pre}_{l}', 'S'))
            defs.append(em.function(f'{tag}_linesearchViolated', params, ss, 'B',
                                    doc=f'{solver}.tpp linesearch_violated'))
            lits.update(em.nat_lits)
            regions[f'{tag}_linesearchViolated'] = {'hash': cp.ast_hash(ss)}

    # ---- PANTR ratio and radius ----------------------------------------------------------------
    src = nfc(read('implementation/inner/pantr.tpp'))
    _, body = cp.find_region(src, r'auto\s+compute_candidate_ratio\s*=')
    body = body.replace('prox->', 'prox.').replace('cand->', 'cand.')
    ss = cp.parse_statements(body)
    envr = {'q_model': ('q_model', 'S'), 'params.TR_tolerance_factor': ('tr_tol', 'S'),
            'params.ratio_approx_fbe_quadratic_model': ('ratio_approx', 'B'),
            nfc('params.Lipschitz.Lγ_factor'): ('Lgamma_factor', 'S')}
    for pre in ('prox', 'cand'):
        for l in FBE_ARGS_STD:
            f = [ff for ff, ll in FIELDS.items() if ll == l and ff not in (nfc('ψu'), nfc('ψû'))][0]
            envr[f'{pre}.{f}'] = (f'{pre}_{l}', 'S')
    em_env = envr
    em = Emitter(lambda d: envr.get(d))

    def fbe_method2(obj, name, args, em):
        if name == 'fbe' and not args:
            pre = dotted(obj)
            xs = [f'{pre}_{l}' for l in FBE_ARGS_STD]
            return '(' + ' '.join(['pantr_fbe'] + xs) + ')', 'S'
        return None
    em.method_handler = fbe_method2
    params = [('q_model', 'q_model', 'S'), ('params.TR_tolerance_factor', 'tr_tol', 'S'),
              ('params.ratio_approx_fbe_quadratic_model', 'ratio_approx', 'B'),
              (nfc('params.Lipschitz.Lγ_factor'), 'Lgamma_factor', 'S')]
    for pre in ('prox', 'cand'):
        for l in FBE_ARGS_STD:
            f = [ff for ff, ll in FIELDS.items() if ll == l and ff not in (nfc('ψu'), nfc('ψû'))][0]
            params.append((f'{pre}.{f}', f'{pre}_{l}', 'S'))
    defs.append(em.function('pantr_candidateRatio', params, ss, 'S',
                            doc='pantr.tpp compute_candidate_ratio'))
    lits.update(em.nat_lits)
    regions['pantr_candidateRatio'] = {'hash': cp.ast_hash(ss)}

    _, body = cp.find_region(src, r'auto\s+compute_updated_radius\s*=')
    ss = cp.parse_statements(body)
    envu = {nfc('ρ'): ('rho', 'S'), nfc('old_Δ'): ('old_Delta', 'S'), 'qnorm': ('qnorm', 'S'),
            'params.ratio_threshold_good': ('thr_good', 'S'),
            'params.ratio_threshold_acceptable': ('thr_acc', 'S'),
            'params.radius_factor_good': ('fac_good', 'S'),
            'params.radius_factor_acceptable': ('fac_acc', 'S'),
            'params.radius_factor_rejected': ('fac_rej', 'S')}
    em = Emitter(lambda d: envu.get(d))

    def qnorm(obj, name, args, em):
        if name == 'norm' and dotted(obj) == 'q':
            return 'qnorm', 'S'
        return None
    em.method_handler = qnorm
    defs.append(em.function('pantr_updatedRadius', [(k, v[0], v[1]) for k, v in envu.items()], ss, 'S',
                            doc='pantr.tpp compute_updated_radius (‖q‖ passed as `qnorm`)'))
    lits.update(em.nat_lits)
    regions['pantr_updatedRadius'] = {'hash': cp.ast_hash(ss)}

    hdr = file_header('C05 envelope, QUB and line-search acceptance kernels.', nat_lits=lits)
    text = hdr + '\n'.join(defs) + FILE_FOOTER
    old = open(out_path).read() if os.path.exists(out_path) else None
    if old != text:
        with open(out_path, 'w') as f:
            f.write(text)
    return regions


if __name__ == '__main__':
    out = sys.argv[1] if len(sys.argv) > 1 else os.path.join(
        os.path.dirname(os.path.abspath(__file__)), '..', 'lean', 'Alpaqa', 'Gen', 'C05.lean')
    try:
        r = main(out)
        print(json.dumps({'ok': True, 'regions': r}))
    except cp.TranslationError as e:
        print(json.dumps({'ok': False, 'error': str(e)}))
        sys.exit(2)
