#!/usr/bin/env python3
"""C15 translator: componentwise prox / projection kernels, regenerated from /repo on every run.

Each region is a purely componentwise Eigen expression; it is translated in *componentwise mode*
(all vector operands read as one component), giving the scalar kernel the theorems are about.
The driver maps the kernel over the components (the C++ does the same, coefficient by
coefficient), so the Float instance is bit-exact.
"""
import json
import sys
import os
sys.path.insert(0, os.path.dirname(os.path.abspath(__file__)))
import cxxparse as cp
from lean_emit import Emitter, file_header, FILE_FOOTER

REPO = os.environ.get('VERIF_REPO', '/repo')
INC = REPO + '/src/alpaqa/include/alpaqa/'


def S(*names):
    return {n: (cp.mangle(n.replace('.', '_')), 'S') for n in names}


def main(out_path):
    regions = {}
    defs = []
    lits = set()

    def emit(name, file, anchor, params, outputs=None, ret='S', which=0, pre=None, doc=None,
             drop_return=False):
        src = cp.strip_comments(open(INC + file, encoding='utf8').read())
        _, body = cp.find_region(src, anchor, which)
        if pre:
            body = pre(body)
        ss = cp.parse_statements(body)
        ss = [s for s in ss if not (s[0] == 'expr' and s[1][0] == 'call'
                                    and cp_d(s[1][1]) in ('assert',))]
        if drop_return:
            ss = [s for s in ss if s[0] != 'return']
        env = S(*params)
        em = Emitter(lambda d: env.get(d), componentwise=True)
        plist = [(n, env[n][0], 'S') for n in params]
        txt = em.function(name, plist, ss, None if outputs else ret, outputs=outputs,
                          doc=doc or f'{file} :: {anchor}',
                          out_types={o: 'S' for o in (outputs or [])})
        lits.update(em.nat_lits)
        regions[name] = {'file': file, 'hash': cp.ast_hash(ss)}
        defs.append(txt)

    from lean_emit import dotted as cp_d

    # BoxConstrProblem::eval_proj_grad_step_box: p, x̂ (returns 0)
    emit('projGradStepBox', 'problem/box-constr-problem.hpp',
         r'static\s+real_t\s+eval_proj_grad_step_box\s*\(',
         ['γ', 'x', 'grad_ψ', 'C.lowerbound', 'C.upperbound'], outputs=['p', 'x̂'],
         drop_return=True)
    # BoxConstrProblem::eval_prox_grad_step_box_l1_impl
    emit('proxGradStepBoxL1', 'problem/box-constr-problem.hpp',
         r'static\s+void\s+eval_prox_grad_step_box_l1_impl\s*\(',
         ['λ', 'γ', 'x', 'grad_ψ', 'C.lowerbound', 'C.upperbound'], outputs=['p', 'x̂'])
    # sets::project
    emit('projectBox', 'problem/box.hpp', r'inline\s+auto\s+project\s*\(',
         ['v', 'box.lowerbound', 'box.upperbound'], ret='S')
    # Box prox (indicator-box.hpp)
    emit('proxBox', 'functions/indicator-box.hpp',
         r'alpaqa_tag_invoke\s*\(\s*tag_t<alpaqa::prox>\s*,\s*Box<Conf>',
         ['in', 'self.lowerbound', 'self.upperbound'], outputs=['out'], drop_return=True)
    emit('proxStepBox', 'functions/indicator-box.hpp',
         r'alpaqa_tag_invoke\s*\(\s*tag_t<alpaqa::prox_step>\s*,\s*Box<Conf>',
         ['in', 'fwd_step', 'γ_fwd', 'self.lowerbound', 'self.upperbound'],
         outputs=['fb_step', 'out'], drop_return=True)
    # UnconstrProblem::eval_prox_grad_step
    emit('proxGradStepUnconstr', 'problem/unconstr-problem.hpp',
         r'real_t\s+eval_prox_grad_step\s*\(', ['γ', 'x', 'grad_ψ'],
         outputs=['p', 'x̂'], drop_return=True)

    # L1Norm::prox — the two `out = …` statements (scalar and vector weight) with their `step`
    src = cp.strip_comments(open(INC + 'functions/l1-norm.hpp', encoding='utf8').read())
    _, l1body = cp.find_region(src, r'struct\s+L1Norm\s*\{')
    _, proxbody = cp.find_region(l1body, r'real_t\s+prox\s*\(\s*crmat')
    for k, nm in ((0, 'l1ProxScalarW'), (1, 'l1ProxVectorW')):
        st_step = cp.find_statement(proxbody, r'auto\s+step\s*=', k)
        st_out = cp.find_statement(proxbody, r'out\s*=\s*vec::Zero', k)
        ss = cp.parse_statements(st_step + '\n' + st_out)
        params = ['λ', 'γ', 'in']
        env = S(*params)
        em = Emitter(lambda d: env.get(d), componentwise=True)
        txt = em.function(nm, [(n, env[n][0], 'S') for n in params], ss, None, outputs=['out'], out_types={'out': 'S'},
                          doc=f'functions/l1-norm.hpp L1Norm::prox, occurrence {k} of `out = …`')
        lits.update(em.nat_lits)
        regions[nm] = {'file': 'functions/l1-norm.hpp', 'hash': cp.ast_hash(ss)}
        defs.append(txt)

    hdr = file_header('C15 prox / projection kernels (componentwise).', nat_lits=lits)
    text = hdr + '\n'.join(defs) + FILE_FOOTER
    old = open(out_path).read() if os.path.exists(out_path) else None
    if old != text:
        with open(out_path, 'w') as f:
            f.write(text)
    return regions


if __name__ == '__main__':
    out = sys.argv[1] if len(sys.argv) > 1 else os.path.join(
        os.path.dirname(os.path.abspath(__file__)), '..', 'lean', 'Alpaqa', 'Gen', 'C15.lean')
    try:
        r = main(out)
        print(json.dumps({'ok': True, 'regions': r}))
    except cp.TranslationError as e:
        print(json.dumps({'ok': False, 'error': str(e)}))
        sys.exit(2)
