#!/usr/bin/env python3
"""C15 translator: componentwise prox / projection kernels, regenerated from /repo on every run.

Each region is a purely componentwise Eigen expression; it is translated in *componentwise mode*
(all vector operands read as one component), giving the scalar kernel the theorems are about.
The driver maps the kernel over the components (the C++ does the same, coefficient by
coefficient), so the Float instance is bit-exact.
"""
import json
import re
import sys
import os
sys.path.insert(0, os.path.dirname(os.path.abspath(__file__)))
import cxxparse as cp
from lean_emit import Emitter, file_header, FILE_FOOTER, dotted

REPO = os.environ.get('VERIF_REPO', '/repo')
INC = REPO + '/src/alpaqa/include/alpaqa/'


def S(*names):
    return {n: (cp.mangle(n.replace('.', '_')), 'S') for n in names}


def cplx_component(ast, var, comp):
    """Rewrite an AST over a std::complex variable `var` into the AST of one component:
    `var.real()` / `var.imag()` ↦ the component variables, `var` in value position ↦ `var_<comp>`."""
    if not isinstance(ast, tuple):
        if isinstance(ast, list):
            return [cplx_component(a, var, comp) for a in ast]
        return ast
    if ast[0] == 'call' and ast[1][0] == 'mem' and ast[1][1] == ('id', var) and not ast[2]:
        if ast[1][2] == 'real':
            return ('id', var + '_re')
        if ast[1][2] == 'imag':
            return ('id', var + '_im')
        raise cp.TranslationError(f'unsupported complex method .{ast[1][2]}()')
    if ast == ('id', var):
        return ('id', f'{var}_{comp}')
    return tuple(cplx_component(a, var, comp) for a in ast)


def cplx_vector_ops(ast):
    """`norm_1(e)` on a complex vector ↦ cnorm_1(e); `e.cwiseProduct(w)` ↦ cscale(e, w)."""
    if not isinstance(ast, tuple):
        if isinstance(ast, list):
            return [cplx_vector_ops(a) for a in ast]
        return ast
    if ast[0] == 'call' and ast[1] == ('id', 'norm_1') and len(ast[2]) == 1:
        return ('call', ('id', 'cnorm_1'), [cplx_vector_ops(ast[2][0])], None)
    if ast[0] == 'call' and ast[1][0] == 'mem' and ast[1][2] == 'cwiseProduct' and len(ast[2]) == 1:
        return ('call', ('id', 'cscale'), [cplx_vector_ops(ast[1][1]), cplx_vector_ops(ast[2][0])], None)
    return tuple(cplx_vector_ops(a) for a in ast)


def find_to_index(ast):
    """`std::find(X.begin(), X.end(), c)` ↦ find_first(X, c) (an index; `X.end()` = size)."""
    if not isinstance(ast, tuple):
        if isinstance(ast, list):
            return [find_to_index(a) for a in ast]
        return ast
    if ast[0] == 'call' and ast[1] == ('id', 'std::find'):
        a = ast[2]
        ok = (len(a) == 3 and a[0][0] == 'call' and a[0][1][0] == 'mem' and a[0][1][2] == 'begin'
              and a[1][0] == 'call' and a[1][1][0] == 'mem' and a[1][1][2] == 'end'
              and a[0][1][1] == a[1][1][1] and not a[0][2] and not a[1][2])
        if not ok:
            raise cp.TranslationError('std::find over something other than X.begin(), X.end()')
        return ('call', ('id', 'find_first'), [a[0][1][1], a[2]], None)
    return tuple(find_to_index(a) for a in ast)


def main(out_path):
    regions = {}
    defs = []
    lits = set()

    def emit(name, file, anchor, params, outputs=None, ret='S', which=0, pre=None, doc=None,
             drop_return=False):
        src = cp.strip_comments(open(INC + file, encoding='utf8').read())
        _, body = cp.find_region(src, anchor, which)
        if pre:
            body = pre(body)
        ss = cp.parse_statements(body)
        ss = [s for s in ss if not (s[0] == 'expr' and s[1][0] == 'call'
                                    and cp_d(s[1][1]) in ('assert',))]
        if drop_return:
            ss = [s for s in ss if s[0] != 'return']
        env = S(*params)
        em = Emitter(lambda d: env.get(d), componentwise=True)
        plist = [(n, env[n][0], 'S') for n in params]
        txt = em.function(name, plist, ss, None if outputs else ret, outputs=outputs,
                          doc=doc or f'{file} :: {anchor}',
                          out_types={o: 'S' for o in (outputs or [])})
        lits.update(em.nat_lits)
        regions[name] = {'file': file, 'hash': cp.ast_hash(ss)}
        defs.append(txt)

    from lean_emit import dotted as cp_d

    # BoxConstrProblem::eval_proj_grad_step_box: p, x̂ (returns 0)
    emit('projGradStepBox', 'problem/box-constr-problem.hpp',
         r'static\s+real_t\s+eval_proj_grad_step_box\s*\(',
         ['γ', 'x', 'grad_ψ', 'C.lowerbound', 'C.upperbound'], outputs=['p', 'x̂'],
         drop_return=True)
    # BoxConstrProblem::eval_prox_grad_step_box_l1_impl
    emit('proxGradStepBoxL1', 'problem/box-constr-problem.hpp',
         r'static\s+void\s+eval_prox_grad_step_box_l1_impl\s*\(',
         ['λ', 'γ', 'x', 'grad_ψ', 'C.lowerbound', 'C.upperbound'], outputs=['p', 'x̂'])
    # sets::project
    emit('projectBox', 'problem/box.hpp', r'inline\s+auto\s+project\s*\(',
         ['v', 'box.lowerbound', 'box.upperbound'], ret='S')
    # Box prox (indicator-box.hpp)
    emit('proxBox', 'functions/indicator-box.hpp',
         r'alpaqa_tag_invoke\s*\(\s*tag_t<alpaqa::prox>\s*,\s*Box<Conf>',
         ['in', 'self.lowerbound', 'self.upperbound'], outputs=['out'], drop_return=True)
    emit('proxStepBox', 'functions/indicator-box.hpp',
         r'alpaqa_tag_invoke\s*\(\s*tag_t<alpaqa::prox_step>\s*,\s*Box<Conf>',
         ['in', 'fwd_step', 'γ_fwd', 'self.lowerbound', 'self.upperbound'],
         outputs=['fb_step', 'out'], drop_return=True)
    # UnconstrProblem::eval_prox_grad_step
    emit('proxGradStepUnconstr', 'problem/unconstr-problem.hpp',
         r'real_t\s+eval_prox_grad_step\s*\(', ['γ', 'x', 'grad_ψ'],
         outputs=['p', 'x̂'], drop_return=True)

    # L1Norm::prox — the two `out = …` statements (scalar and vector weight) with their `step`
    src = cp.strip_comments(open(INC + 'functions/l1-norm.hpp', encoding='utf8').read())
    _, l1body = cp.find_region(src, r'struct\s+L1Norm\s*\{')
    _, proxbody = cp.find_region(l1body, r'real_t\s+prox\s*\(\s*crmat')
    for k, nm in ((0, 'l1ProxScalarW'), (1, 'l1ProxVectorW')):
        st_step = cp.find_statement(proxbody, r'auto\s+step\s*=', k)
        st_out = cp.find_statement(proxbody, r'out\s*=\s*vec::Zero', k)
        ss = cp.parse_statements(st_step + '\n' + st_out)
        params = ['λ', 'γ', 'in']
        env = S(*params)
        em = Emitter(lambda d: env.get(d), componentwise=True)
        txt = em.function(nm, [(n, env[n][0], 'S') for n in params], ss, None, outputs=['out'], out_types={'out': 'S'},
                          doc=f'functions/l1-norm.hpp L1Norm::prox, occurrence {k} of `out = …`')
        lits.update(em.nat_lits)
        regions[nm] = {'file': 'functions/l1-norm.hpp', 'hash': cp.ast_hash(ss)}
        defs.append(txt)

    # L1Norm::prox — the returned values `λ * norm_1(out.reshaped())` / `norm_1(out.cwiseProduct(λ).reshaped())`
    # ("returns h at that point") and, pinned textually, the two special branches the hand model mirrors:
    # `if (λ == 0) { out = in; return 0; }` and the empty-weight default `λ = weight_t::Ones(n)`.
    for k, nm, lamty in ((0, 'l1ValueScalarW', 'S'), (1, 'l1ValueVectorW', 'V')):
        st = cp.find_statement(proxbody, r'return\s+[^;]*norm_1', k)
        ss = cp.parse_statements(st)
        envv = {'λ': ('lam', lamty), 'out': ('out', 'V')}
        em = Emitter(lambda d: envv.get(d))
        txt = em.function(nm, [('λ', 'lam', lamty), ('out', 'out', 'V')], ss, 'S',
                          doc=f'functions/l1-norm.hpp L1Norm::prox, returned value {k}')
        lits.update(em.nat_lits)
        regions[nm] = {'file': 'functions/l1-norm.hpp', 'hash': cp.ast_hash(ss)}
        defs.append(txt)
    flat = re.sub(r'\s+', '', proxbody)
    for need in ('if(λ==0){out=in;return0;}', 'ifconstexpr(std::is_same_v<weight_t,vec>)if(λ.size()==0)λ=weight_t::Ones(n);',
                 'ifconstexpr(scalar_weight){', 'constlength_tn=in.size();'):
        if flat.count(need) != 1:
            raise cp.TranslationError(f'L1Norm::prox: branch structure changed (expected exactly one {need!r})')
    regions['l1ProxBranches'] = {'file': 'functions/l1-norm.hpp',
                                 'hash': cp.ast_hash([re.sub(r'assert\([^;]*\);', '', flat)])}

    # prox_step_fn — the generic default (prox_step from prox): `fb_step = in + γ_fwd * fwd_step;`
    # `auto &&h_out = prox(func, fb_step, out, γ);` `fb_step = out - in;` `return h_out;`
    psrc = cp.strip_comments(open(INC + 'functions/prox.hpp', encoding='utf8').read())
    _, psbody = cp.find_region(psrc, r'struct\s+prox_step_fn\s*\{')
    _, dflt = cp.find_region(psbody, r'->\s*typename\s+T::config_t::real_t\s*\{', 1)
    sts = [re.sub(r'\s+', ' ', x).strip() for x in dflt.split(';') if x.strip()]
    if len(sts) != 4 or re.sub(r'\s+', '', sts[1]) != 'auto&&h_out=prox(func,fb_step,out,γ)' \
            or re.sub(r'\s+', '', sts[3]) != 'returnh_out':
        raise cp.TranslationError(f'prox_step default implementation changed: {sts!r}')
    for nm, st, params, outn in (('proxStepDefaultFwd', sts[0] + ';', ['in', 'γ_fwd', 'fwd_step'], 'fb_step'),
                                 ('proxStepDefaultFb', sts[2] + ';', ['out', 'in'], 'fb_step')):
        ss = cp.parse_statements(st)
        env = S(*params)
        em = Emitter(lambda d: env.get(d), componentwise=True)
        txt = em.function(nm, [(n, env[n][0], 'S') for n in params], ss, None, outputs=[outn],
                          out_types={outn: 'S'},
                          doc=f'functions/prox.hpp prox_step_fn default implementation: `{st}`')
        lits.update(em.nat_lits)
        regions[nm] = {'file': 'functions/prox.hpp', 'hash': cp.ast_hash(ss)}
        defs.append(txt)
    regions['proxStepDefaultShape'] = {'file': 'functions/prox.hpp', 'hash': cp.ast_hash(sts)}

    # ------------------------------------------------------------------ L1NormComplex::prox
    # The two `soft_thres` lambdas (scalar / per-component weight).  A `cplx_t` value is a pair
    # (re, im): the lambda is translated once per component — `x.real()` / `x.imag()` read the
    # components, `x` in value position is the component itself (std::complex<T> * T scales both
    # parts; the literal `0` in the `?:` converts to (0, 0)).  A capture with initialiser
    # (`[γλ{γ * λ}]`) becomes a leading declaration.
    _, cbody = cp.find_region(src, r'struct\s+L1NormComplex\s*\{')
    _, cprox = cp.find_region(cbody, r'real_t\s+prox\s*\(\s*crcmat')
    lam_re = r'auto\s+soft_thres\s*=\s*\[([^\]]*)\]\s*\(([^)]*)\)\s*\{'
    lams = list(re.finditer(lam_re, cprox))
    if len(lams) != 2:
        raise cp.TranslationError(f'L1NormComplex::prox: expected 2 soft_thres lambdas, found {len(lams)}')
    for k, nm in ((0, 'cplxSoftScalarW'), (1, 'cplxSoftVectorW')):
        m = lams[k]
        ob = m.end() - 1
        lbody = cprox[ob + 1:cp.match_brace(cprox, ob)]
        ss = cp.parse_statements(lbody, type_names=['cplx_t'])
        pre = []
        for cap in [c.strip() for c in m.group(1).split(',') if c.strip()]:
            mc = re.fullmatch(r'(\w+)\s*\{(.*)\}', cap, re.S)
            if mc:
                pre.append(('decl', 'real_t', mc.group(1), cp.parse_expression(mc.group(2))))
            elif not re.fullmatch(r'[&=]?\w*', cap):
                raise cp.TranslationError(f'unsupported lambda capture {cap!r}')
        lparams = [q.strip() for q in m.group(2).split(',')]
        if lparams[0] != 'cplx_t x' or lparams[1:] not in ([], ['real_t λ']):
            raise cp.TranslationError(f'unexpected soft_thres parameter list {m.group(2)!r}')
        ss = pre + ss
        params = ['γ', 'λ', 'x.re', 'x.im']
        for comp in ('re', 'im'):
            ssc = [cplx_component(st, 'x', comp) for st in ss]
            env = S(*params)
            env['x_re'] = env['x.re']
            env['x_im'] = env['x.im']
            em = Emitter(lambda d: env.get(d), componentwise=True)
            txt = em.function(f'{nm}_{comp}', [(n, env[n][0], 'S') for n in params], ssc, 'S',
                              doc=f'functions/l1-norm.hpp L1NormComplex::prox, soft_thres lambda {k}, '
                                  f'{comp} part of the returned cplx_t')
            lits.update(em.nat_lits)
            defs.append(txt)
        defs.append(f'/-- soft_thres lambda {k} of L1NormComplex::prox as a map on (re, im) pairs -/\n'
                    f'def {nm} (gamma : α) (lam : α) (x_re : α) (x_im : α) : α × α :=\n'
                    f'  ({nm}_re gamma lam x_re x_im, {nm}_im gamma lam x_re x_im)\n')
        regions[nm] = {'file': 'functions/l1-norm.hpp',
                       'hash': cp.ast_hash([m.group(1), m.group(2), ss])}
    # the returned values `λ * norm_1(out)` / `norm_1(out.cwiseProduct(λ))` (complex 1-norm)
    for k, nm, lamty in ((0, 'cplxL1ValueScalarW', 'S'), (1, 'cplxL1ValueVectorW', 'V')):
        st = cp.find_statement(cprox, r'return\s+[^;]*norm_1', k)
        ss = [cplx_vector_ops(s_) for s_ in cp.parse_statements(st)]
        env = {'λ': ('lam', lamty), 'out': ('out', 'CVec α')}
        em = Emitter(lambda d: env.get(d),
                     scalar_fns={'cnorm_1': ('cnorm1', ['CVec α'], 'S'),
                                 'cscale': ('cscale', ['CVec α', 'V'], 'CVec α')})
        txt = em.function(nm, [('λ', 'lam', lamty), ('out', 'out', 'CVec α')], ss, 'S',
                          doc=f'functions/l1-norm.hpp L1NormComplex::prox, returned value {k}')
        lits.update(em.nat_lits)
        regions[nm] = {'file': 'functions/l1-norm.hpp', 'hash': cp.ast_hash(ss)}
        defs.append(txt)

    # ------------------------------------------------------------------ NuclearNorm::prox (post-SVD part)
    nsrc = cp.strip_comments(open(INC + 'functions/nuclear-norm.hpp', encoding='utf8').read())
    _, nbody = cp.find_region(nsrc, r'struct\s+NuclearNorm\s*\{')
    _, nprox = cp.find_region(nbody, r'real_t\s+prox\s*\(\s*crmat')
    # componentwise: step, singular_values = Zero.cwiseMax(σ − step)
    ss = cp.parse_statements(cp.find_statement(nprox, r'auto\s+step\s*=') + '\n' +
                             cp.find_statement(nprox, r'singular_values\s*='))
    env = S('λ', 'γ')

    def sv_method(obj, name, args, em_):
        if name == 'singularValues' and dotted(obj) == 'svd' and not args:
            return 'sigma', 'S'
        return None
    em = Emitter(lambda d: env.get(d), componentwise=True)
    em.method_handler = sv_method
    txt = em.function('nucThreshold', [('λ', 'lam', 'S'), ('γ', 'gamma', 'S'), ('σ', 'sigma', 'S')], ss, None,
                      outputs=['singular_values'], out_types={'singular_values': 'S'},
                      doc='functions/nuclear-norm.hpp NuclearNorm::prox: step, singular_values = … '
                          '(one singular value)')
    lits.update(em.nat_lits)
    regions['nucThreshold'] = {'file': 'functions/nuclear-norm.hpp', 'hash': cp.ast_hash(ss)}
    defs.append(txt)
    # value = λ * norm_1(singular_values)
    ss = cp.parse_statements(cp.find_statement(nprox, r'real_t\s+value\s*='))
    env2 = {'λ': ('lam', 'S'), 'singular_values': ('singular_values', 'V')}
    em = Emitter(lambda d: env2.get(d))
    txt = em.function('nucValue', [('λ', 'lam', 'S'), ('singular_values', 'singular_values', 'V')], ss, None,
                      outputs=['value'], out_types={'value': 'S'}, doc='functions/nuclear-norm.hpp NuclearNorm::prox: value')
    lits.update(em.nat_lits)
    regions['nucValue'] = {'file': 'functions/nuclear-norm.hpp', 'hash': cp.ast_hash(ss)}
    defs.append(txt)
    # rank: it0 = std::find(begin, end, 0); rank = it0 − begin
    ss = cp.parse_statements(cp.find_statement(nprox, r'auto\s+it0\s*=') + '\n' +
                             cp.find_statement(nprox, r'index_t\s+rank\s*='))
    ss = [find_to_index(s_) for s_ in ss]
    env3 = {'singular_values': ('singular_values', 'V')}

    def it_method(obj, name, args, em_):
        if name == 'begin' and not args and dotted(obj) in env3:
            return '0', 'N'
        if name == 'end' and not args and dotted(obj) in env3:
            return f'(List.length {env3[dotted(obj)][0]})', 'N'
        return None
    em = Emitter(lambda d: env3.get(d), scalar_fns={'find_first': ('findFirstIdx', ['V', 'S'], 'N')})
    em.method_handler = it_method
    txt = em.function('nucRank', [('singular_values', 'singular_values', 'V')], ss, None,
                      outputs=['rank'], out_types={'rank': 'N'}, doc='functions/nuclear-norm.hpp NuclearNorm::prox: it0, rank')
    lits.update(em.nat_lits)
    regions['nucRank'] = {'file': 'functions/nuclear-norm.hpp', 'hash': cp.ast_hash(ss)}
    defs.append(txt)
    # the selection that follows must use exactly `rank` leading columns / rows / values
    sel = cp.find_statement(nprox, r'auto\s+sel\s*=')
    if re.sub(r'\s+', '', sel) != 'autosel=seqN(0,rank);':
        raise cp.TranslationError(f'NuclearNorm::prox: unexpected selection {sel!r}')
    uses = [re.sub(r'\s+', '', cp.find_statement(nprox, a)) for a in
            (r'auto\s*&&\s*U1\s*=', r'auto\s*&&\s*Σ1\s*=', r'auto\s*&&\s*V1T\s*=', r'out\.reshaped\(\)')]
    expect = ['auto&&U1=U(all,sel);', 'auto&&Σ1=singular_values(sel).asDiagonal();',
              'auto&&V1T=V.transpose()(sel,all);', 'out.reshaped().noalias()=(U1*Σ1*V1T).reshaped();']
    if uses != expect:
        raise cp.TranslationError(f'NuclearNorm::prox: reconstruction statements changed: {uses!r}')
    regions['nucReconstruct'] = {'file': 'functions/nuclear-norm.hpp', 'hash': cp.ast_hash(uses + [sel])}

    hdr = file_header('C15 prox / projection kernels (componentwise).',
                      imports=('Alpaqa.Model.Vec', 'Alpaqa.Model.C15Base'), nat_lits=lits)
    text = hdr + '\n'.join(defs) + FILE_FOOTER
    old = open(out_path).read() if os.path.exists(out_path) else None
    if old != text:
        with open(out_path, 'w') as f:
            f.write(text)
    return regions


if __name__ == '__main__':
    out = sys.argv[1] if len(sys.argv) > 1 else os.path.join(
        os.path.dirname(os.path.abspath(__file__)), '..', 'lean', 'Alpaqa', 'Gen', 'C15.lean')
    try:
        r = main(out)
        print(json.dumps({'ok': True, 'regions': r}))
    except cp.TranslationError as e:
        print(json.dumps({'ok': False, 'error': str(e)}))
        sys.exit(2)
