#!/usr/bin/env python3
"""C18 translator: the parameter tables of alpaqa, re-read from /repo on every run.

Sources                                                   -> what is extracted
  params/structs.ipp   PARAMS_TABLE / PARAMS_ALIAS_TABLE / ENUM_TABLE  -> tables (key, member)
  params/structs.hpp   the PARAMS_MEMBER / ENUM_MEMBER / ..._ALIAS macro bodies (shape check)
  headers under include/alpaqa/**   `struct <Name> {…}` of every struct with a table
                                    -> field list (C++ type, kind), local enums
                                    `enum class <Name> {…}` of every enum with a table
  src/params/params.cpp   ALPAQA_SET_PARAM_INST list, the bool literal strings
  util/duration-parse.hpp  trim set, unit-stop set, unit -> std::ratio table

Outputs
  lean/Alpaqa/Gen/C18.lean                 Lean tables (decided by `Props/C18.lean`, executed by the driver)
  .cache/c18_<repo-hash>/c18_tables.hpp    C++ leaf walkers for the harness (never committed)
"""
import glob
import hashlib
import json
import os
import re
import sys

sys.path.insert(0, os.path.dirname(os.path.abspath(__file__)))
import cxxparse as cp

REPO = os.environ.get('VERIF_REPO', '/repo')
VERIF = os.path.dirname(os.path.dirname(os.path.abspath(__file__)))
INC = REPO + '/src/alpaqa/include/alpaqa/'
SRC = REPO + '/src/alpaqa/src/'
IDENT = r'[A-Za-z_\u0080-\uffff][\w\u0080-\uffff]*'


class TErr(cp.TranslationError):
    pass


def cache_dir():
    h = hashlib.sha256(os.path.abspath(REPO).encode()).hexdigest()[:10]
    return os.path.join(VERIF, '.cache', 'c18_' + h)


def read(path):
    txt = open(path, encoding='utf8').read()
    txt = re.sub(r"(?<=\d)'(?=\d)", '', txt)     # digit separators confuse the char-literal scanner
    return cp.strip_comments(txt)


def split_top(s, sep=','):
    """Split at depth-0 separators (parens / braces / brackets / angle brackets of templates)."""
    out, depth, cur, i = [], 0, [], 0
    while i < len(s):
        c = s[i]
        if c == '"':
            j = s.index('"', i + 1)
            cur.append(s[i:j + 1]); i = j + 1
            continue
        if c in '([{':
            depth += 1
        elif c in ')]}':
            depth -= 1
        if c == sep and depth == 0:
            out.append(''.join(cur)); cur = []
        else:
            cur.append(c)
        i += 1
    out.append(''.join(cur))
    return out


# ---------------------------------------------------------------- structs.ipp

def parse_tables(lenient=False):
    src = read(INC + 'params/structs.ipp')
    src = re.sub(r'^\s*#.*$', '', src, flags=re.M)          # drop #if ALPAQA_WITH_OCP / #endif
    params, aliases, enums = [], [], []
    pos = 0
    rx = re.compile(r'\b(ENUM_TABLE|PARAMS_TABLE|PARAMS_ALIAS_TABLE)\s*\(')
    consumed = []
    while True:
        m = rx.search(src, pos)
        if not m:
            break
        close = cp.match_brace(src, m.end() - 1, '(', ')')
        args = [a.strip() for a in split_top(src[m.end():close])]
        consumed.append((m.start(), close + 1))
        pos = close + 1
        ty = re.sub(r'\s*<\s*config_t\s*>', '', args[0])     # `S<config_t>` and `S<config_t>::E`
        if not re.fullmatch(IDENT + r'(?:::' + IDENT + r')?', ty) or \
                ('::' in ty and m.group(1) != 'ENUM_TABLE'):
            raise TErr(f'structs.ipp: unexpected table type {args[0]!r}')
        ents = []
        for a in args[1:]:
            if a == '':
                continue
            if m.group(1) == 'PARAMS_TABLE':
                mm = re.fullmatch(r'PARAMS_MEMBER\s*\(\s*(' + IDENT + r')\s*,\s*""\s*\)', a, flags=re.S)
                if not mm and lenient:
                    continue
                if not mm:
                    raise TErr(f'structs.ipp: PARAMS_TABLE({ty}) has an entry that is not '
                               f'PARAMS_MEMBER(name, ""): {a[:120]!r}')
                ents.append((mm.group(1), mm.group(1)))
            elif m.group(1) == 'ENUM_TABLE':
                mm = re.fullmatch(r'ENUM_MEMBER\s*\(\s*(' + IDENT + r')\s*\)', a, flags=re.S)
                if not mm and lenient:
                    continue
                if not mm:
                    raise TErr(f'structs.ipp: ENUM_TABLE({ty}) has an entry that is not '
                               f'ENUM_MEMBER(name): {a[:120]!r}')
                ents.append(mm.group(1))
            else:
                mm = re.fullmatch(r'PARAMS_MEMBER_ALIAS\s*\(\s*(' + IDENT + r')\s*,\s*(' + IDENT + r')\s*\)',
                                  a, flags=re.S)
                if not mm and lenient:
                    continue
                if not mm:
                    raise TErr(f'structs.ipp: PARAMS_ALIAS_TABLE({ty}) entry not understood: {a[:120]!r}')
                ents.append((mm.group(1), mm.group(2)))
        {'PARAMS_TABLE': params, 'ENUM_TABLE': enums, 'PARAMS_ALIAS_TABLE': aliases}[m.group(1)].append((ty, ents))
    # nothing else may be in the file
    rest = src
    for a, b in reversed(consumed):
        rest = rest[:a] + rest[b:]
    if re.sub(r'[\s;]', '', rest) and not lenient:
        raise TErr(f'structs.ipp: text outside the table macros: {rest.strip()[:120]!r}')
    return params, aliases, enums


def check_macros():
    src = read(INC + 'params/structs.hpp')
    src = src.replace('\\\n', ' ')
    want = {
        'PARAMS_MEMBER': r'#define\s+PARAMS_MEMBER\(name,\s*\.\.\.\)\s*\{\s*#name,\s*attribute_accessor<S>::'
                         r'template\s+make<type>\(&type::name,\s*__VA_ARGS__\)\s*\}',
        'PARAMS_MEMBER_ALIAS': r'#define\s+PARAMS_MEMBER_ALIAS\(alias,\s*name\)\s*\{\s*#alias,\s*#name\s*\}',
        'ENUM_MEMBER': r'#define\s+ENUM_MEMBER\(name,\s*\.\.\.\)\s*\{\s*#name,\s*\{\s*type::name,\s*__VA_ARGS__\s*\}\s*\}',
        'PARAMS_TABLE': r'#define\s+PARAMS_TABLE\(type_,\s*\.\.\.\)\s*template\s*<class S>\s*struct\s+'
                        r'attribute_table<type_,\s*S>\s*\{\s*using type = type_;\s*inline static const '
                        r'attribute_table_t<S> table\{__VA_ARGS__\};\s*\}',
        'ENUM_TABLE': r'#define\s+ENUM_TABLE\(type_,\s*\.\.\.\)\s*template\s*<class S>\s*struct\s+'
                      r'enum_table<type_,\s*S>\s*\{\s*using type = type_;\s*inline static const '
                      r'enum_table_t<type,\s*S> table\{__VA_ARGS__\};\s*\}',
    }
    norm = re.sub(r'\s+', ' ', src)
    h = {}
    for k, rx in want.items():
        m = re.search(re.sub(r'\\s\+|\\s\*', lambda mm: mm.group(0), rx), norm)
        if not m:
            raise TErr(f'structs.hpp: macro {k} no longer has the shape "key string = member name"')
        h[k] = hashlib.sha256(m.group(0).encode()).hexdigest()[:12]
    # the table container: std::map keyed by string_view (first duplicate wins, lookup by ==)
    if not re.search(r'using attribute_table_t = std::map<std::string_view, attribute_accessor<S>>', norm):
        raise TErr('structs.hpp: attribute_table_t is no longer std::map<string_view, …>')
    if not re.search(r'using enum_table_t = std::map<std::string_view, enum_accessor<T, S>>', norm):
        raise TErr('structs.hpp: enum_table_t is no longer std::map<string_view, …>')
    return h


# ---------------------------------------------------------------- struct / enum definitions

_headers = None


def headers():
    global _headers
    if _headers is None:
        _headers = {p: read(p) for p in sorted(glob.glob(INC + '**/*.hpp', recursive=True))}
    return _headers


def find_def(rx, what):
    hits = []
    for p, s in headers().items():
        for m in re.finditer(rx, s):
            hits.append((p, s, m))
    if len(hits) != 1:
        raise TErr(f'{what}: expected exactly one definition, found {len(hits)}')
    return hits[0]


def _top_level_open_brace(txt):
    """Index of the first `{` outside (), [] — or -1."""
    depth = 0
    for i, c in enumerate(txt):
        if c in '([':
            depth += 1
        elif c in ')]':
            depth -= 1
        elif c == '{' and depth == 0:
            return i
    return -1


def struct_statements(body):
    """Top-level statements of a struct body, each tagged: ('stmt', text) for `…;` and
    ('func', text) for a member function / constructor definition `…(…) [const noexcept …] {…}`
    (recognised by a parameter list directly in front of the body's `{`; a brace *initialiser*
    `T x{…};` is part of its statement)."""
    out, depth, cur = [], 0, []
    for c in body:
        if c in '({[':
            depth += 1
        elif c in ')}]':
            depth -= 1
            if depth < 0:
                raise TErr('struct body: unbalanced brackets')
        cur.append(c)
        if depth == 0 and c == ';':
            t = ''.join(cur[:-1]).strip()
            if t:
                out.append(('stmt', t))
            cur = []
        elif depth == 0 and c == '}':
            txt = ''.join(cur).strip()
            ob = _top_level_open_brace(txt)
            head = txt[:ob].rstrip() if ob >= 0 else ''
            head = re.sub(r'(?:\s*\b(?:const|noexcept|override|final|volatile)\b|\s*&{1,2})+$', '', head)
            if head.endswith(')') and not re.match(r'\s*(enum|struct|union|class)\b', txt):
                out.append(('func', txt))      # member function / constructor definition
                cur = []
            elif re.search(r'\)(?:\s|\bconst\b|\bnoexcept\b)*->\s*[^{]*$', txt[:ob] if ob >= 0 else ''):
                out.append(('func', txt))      # trailing return type
                cur = []
    if ''.join(cur).strip():
        raise TErr('struct body: trailing text ' + ''.join(cur).strip()[:80])
    return out


_TOK = re.compile(r'\s*(?:(?P<id>' + IDENT + r')|(?P<num>\d[\w.\']*)|(?P<str>"(?:[^"\\]|\\.)*"|\'(?:[^\'\\]|\\.)*\')|'
                  r'(?P<op>::|->|<<|>>|<=|>=|==|!=|&&|\|\||\[\[|\]\]|.))', re.S)
_REJECT_LEADING = {'static': 'static member', 'inline': 'inline (static) member', 'constexpr': 'constexpr (static) member',
                   'mutable': 'mutable member', 'friend': 'friend declaration', 'template': 'member template',
                   'typedef': 'typedef', 'struct': 'nested struct', 'union': 'nested / anonymous union',
                   'class': 'nested class', 'virtual': 'virtual member function', 'explicit': 'constructor declaration',
                   'public': 'access specifier', 'private': 'access specifier', 'protected': 'access specifier',
                   'alignas': 'alignas specifier', 'extern': 'extern declaration', 'thread_local': 'thread_local member',
                   'operator': 'operator declaration'}


def parse_member_statement(sname, st):
    """One `…;` statement of a parameter struct body -> list of (member name, C++ type text).

    Recognised: `T name;`, `T name = init;`, `T name{init};`, several declarators sharing the type
    (`T a, b = 1;` -> two fields).  Everything else raises (broken tie): bit-fields, arrays,
    pointer / reference / function declarators, static / constexpr / mutable members, nested
    structs / unions, member function declarations, access specifiers, attributes."""
    toks = []
    pos = 0
    while pos < len(st):
        m = _TOK.match(st, pos)
        if not m or m.end() == pos:
            break
        if m.group(0).strip():
            kind = 'id' if m.group('id') else 'num' if m.group('num') else 'str' if m.group('str') else 'op'
            toks.append((kind, m.group(kind), m.start(kind), m.end(kind)))
        pos = m.end()

    def bad(why):
        return TErr(f'struct {sname}: {why}: {re.sub(chr(10), " ", st)[:100]!r}')

    if not toks:
        raise bad('empty member statement')
    if toks[0][1] in _REJECT_LEADING:
        raise bad(_REJECT_LEADING[toks[0][1]] + ' in a parameter struct is not understood')
    if toks[0][1] == '[[':
        raise bad('attribute on a member is not understood')
    # split into declarators at top-level commas; find type / name / initialiser of each
    decls, cur, depth, adepth, in_init = [], [], 0, 0, False
    for t in toks:
        k, v = t[0], t[1]
        if k == 'op':
            if v in '([{' or v == '[[':
                depth += 1
            elif v in ')]}' or v == ']]':
                depth -= 1
            elif v == '<' and depth == 0 and not in_init and cur and cur[-1][0] == 'id':
                adepth += 1
            elif v == '>' and depth == 0 and not in_init and adepth > 0:
                adepth -= 1
            elif v == '>>' and depth == 0 and not in_init and adepth > 1:
                adepth -= 2
            elif v == '=' and depth == 0 and adepth == 0:
                in_init = True
            elif v == ',' and depth == 0 and adepth == 0:
                decls.append(cur); cur = []; in_init = False
                continue
        cur.append(t)
    decls.append(cur)
    if depth != 0 or adepth != 0:
        raise bad('unbalanced brackets / template arguments in a member declaration')

    def split_decl(d):
        """tokens of one declarator -> (tokens before the initialiser, has initialiser)"""
        depth = adepth = 0
        for i, (k, v, _, _) in enumerate(d):
            if k == 'op':
                if v == '=' and depth == 0 and adepth == 0:
                    return d[:i], True
                if v == '{' and depth == 0 and adepth == 0:
                    # brace initialiser: must close at the very end
                    dd = 0
                    for j in range(i, len(d)):
                        if d[j][1] == '{':
                            dd += 1
                        elif d[j][1] == '}':
                            dd -= 1
                            if dd == 0 and j != len(d) - 1:
                                raise bad('text after a brace initialiser')
                    return d[:i], True
                if v in '([':
                    depth += 1
                elif v in ')]':
                    depth -= 1
                elif v == '<' and i > 0 and d[i - 1][0] == 'id':
                    adepth += 1
                elif v == '>' and adepth > 0:
                    adepth -= 1
                elif v == '>>' and adepth > 1:
                    adepth -= 2
        return d, False

    fields = []
    first, _ = split_decl(decls[0])
    if len(first) < 2 or first[-1][0] != 'id':
        # e.g. `int a : 3`, `int a[4]`, `void f()`, `int (*p)`
        tail = ''.join(v for _, v, _, _ in first[-3:])
        if any(v == ':' for _, v, _, _ in first):
            raise bad('bit-field member')
        if any(v == '[' for _, v, _, _ in first):
            raise bad('array member')
        if any(v == '(' for _, v, _, _ in first):
            raise bad('member function declaration / function-style declarator')
        raise bad(f'member declaration does not end in a name (…{tail})')
    tytoks = first[:-1]
    for k, v, _, _ in tytoks:
        if k == 'op' and v in ('(', ')', '[', ']', ':', '{', '}', '=', '[[', ']]'):
            raise bad({'(': 'member function declaration / function-style declarator', ')': 'member function declaration',
                       '[': 'array member', ']': 'array member', ':': 'bit-field member'}.get(v, 'member declaration not understood'))
        if k in ('num', 'str') and not any(x[1] == '<' for x in tytoks):
            raise bad('literal inside the member type')
        if k == 'id' and v in _REJECT_LEADING:
            raise bad(_REJECT_LEADING[v] + ' in a parameter struct is not understood')
    if tytoks[-1][0] == 'op' and tytoks[-1][1] in ('*', '&', '&&'):
        pass                                        # pointer / reference member: type text keeps it -> opaque kind
    ty = re.sub(r'\s+', ' ', st[tytoks[0][2]:tytoks[-1][3]]).strip()
    if tytoks[-1][0] == 'id' and tytoks[-1][1] in ('const', 'volatile'):
        pass
    fields.append((first[-1][1], ty))
    shared = ty
    if len(decls) > 1 and (tytoks[-1][0] == 'op' and tytoks[-1][1] in ('*', '&', '&&')):
        raise bad('several declarators with pointer / reference declarators')
    for d in decls[1:]:
        head, _ = split_decl(d)
        if len(head) != 1 or head[0][0] != 'id':
            raise bad('further declarator of a multi-declarator member is not a plain name')
        fields.append((head[0][1], shared))
    names = [n for n, _ in fields]
    if len(set(names)) != len(names):
        raise bad('member declared twice in one statement')
    return fields


INT_RANGES = {
    'unsigned': (0, 2 ** 32 - 1), 'unsigned int': (0, 2 ** 32 - 1),
    'int': (-2 ** 31, 2 ** 31 - 1),
    'length_t': (-2 ** 63, 2 ** 63 - 1), 'index_t': (-2 ** 63, 2 ** 63 - 1),
}
DUR_NS = {'std::chrono::nanoseconds': 1, 'std::chrono::microseconds': 10 ** 3,
          'std::chrono::milliseconds': 10 ** 6, 'std::chrono::seconds': 10 ** 9,
          'std::chrono::minutes': 60 * 10 ** 9, 'std::chrono::hours': 3600 * 10 ** 9}


def kind_of(ty, table_structs, table_enums):
    t = re.sub(r'\s+', ' ', ty).strip()
    if t == 'bool':
        return ('bool',)
    if t == 'real_t':
        return ('real',)
    if t in INT_RANGES:
        return ('int',) + INT_RANGES[t]
    if t in DUR_NS:
        return ('dur', DUR_NS[t])
    if t == 'vec':
        return ('vec',)
    m = re.fullmatch(r'(' + IDENT + r')\s*<\s*config_t\s*>', t)
    if m:
        return ('struct', m.group(1)) if m.group(1) in table_structs else ('opaque', t)
    if t in table_enums:
        return ('enum', t)
    return ('opaque', t)


def parse_struct(name, table_structs, table_enums):
    p, s, m = find_def(r'\bstruct\s+' + re.escape(name) + r'\s*\{', f'struct {name}')
    close = cp.match_brace(s, m.end() - 1)
    if re.search(r'\bstruct\s+' + re.escape(name) + r'\s*(?:final\s*)?:', s):
        raise TErr(f'struct {name}: base classes are not understood (inherited members would be missed)')
    fields = []
    local_enums = []
    for tag, st in struct_statements(s[m.end():close]):
        if tag == 'func':
            continue                       # member function / constructor definition: not a field
        if re.match(r'USING_ALPAQA_CONFIG\s*\(', st) or re.match(r'static_assert\s*\(', st):
            continue
        if re.match(r'using\s+' + IDENT + r'\s*=', st) or re.match(r'using\s+(?:typename\s+)?[\w:<> ]+$', st):
            continue                       # type alias / using-declaration: declares no member
        me = re.fullmatch(r'enum\s+(?:class\s+)?(' + IDENT + r')\s*\{(.*)\}\s*(' + IDENT + r')\s*(=\s*[^,;]+)?', st, flags=re.S)
        if me:
            local_enums.append((me.group(1), parse_enumerators(me.group(2), f'{name}::{me.group(1)}')))
            qual = f'{name}::{me.group(1)}'
            fields.append((me.group(3), qual,
                           ('enum', qual) if qual in table_enums else ('opaque', f'enum {me.group(1)}')))
            continue
        if re.match(r'enum\b', st):
            raise TErr(f'struct {name}: enum declaration not understood: {st[:100]!r}')
        for fname, ty in parse_member_statement(name, st):
            fields.append((fname, ty, kind_of(ty, table_structs, table_enums)))
    names = [f[0] for f in fields]
    if len(set(names)) != len(names):
        raise TErr(f'struct {name}: member name read twice')
    return {'name': name, 'file': os.path.relpath(p, INC), 'fields': fields, 'local_enums': local_enums}


def parse_enumerators(body, what):
    out = []
    nxt = 0
    for e in split_top(body):
        e = e.strip()
        if not e:
            continue
        dep = 'deprecated' in e
        e2 = re.sub(r'\[\[.*?\]\]', ' ', e, flags=re.S)
        m = re.fullmatch(r'(' + IDENT + r')\s*(=\s*(.+?))?\s*', e2, flags=re.S)
        if not m:
            raise TErr(f'{what}: enumerator not understood: {e[:80]!r}')
        if m.group(3) is not None:
            v = m.group(3).strip()
            if re.fullmatch(r'-?\d+', v):
                val = int(v)
            else:
                prev = dict((n, x) for n, x, _ in out)
                if v not in prev:
                    raise TErr(f'{what}: enumerator value not understood: {e[:80]!r}')
                val = prev[v]
        else:
            val = nxt
        nxt = val + 1
        out.append((m.group(1), val, dep))
    return out


def parse_enum(name):
    p, s, m = find_def(r'\benum\s+class\s+' + re.escape(name) + r'\s*\{', f'enum class {name}')
    close = cp.match_brace(s, m.end() - 1)
    return {'name': name, 'file': os.path.relpath(p, INC),
            'enumerators': parse_enumerators(s[m.end():close], name)}


# ---------------------------------------------------------------- params.cpp, duration-parse.hpp

def parse_params_cpp():
    src = read(SRC + 'params/params.cpp')
    i = src.index('#define ALPAQA_SET_PARAM_INST(')
    inst = []
    for m in re.finditer(r'^\s*ALPAQA_SET_PARAM_INST(?:_INT)?\s*\(([^;]*)\)\s*;', src[i:], flags=re.M):
        first = split_top(m.group(1))[0].strip()
        if first == '__VA_ARGS__':        # body of the ALPAQA_SET_PARAM_INST_INT macro itself
            continue
        inst.append(re.sub(r'\s*<\s*config_t\s*>', '', first))
    _, body = cp.find_region(src, r'void\s+ALPAQA_EXPORT\s+set_param\s*\(\s*bool\s*&\s*b')
    bools = []
    for m in re.finditer(r'if\s*\(((?:\s*s\.value\s*==\s*"[^"]*"\s*(?:\|\|)?)+)\)\s*b\s*=\s*(true|false)\s*;', body):
        for lit in re.findall(r'"([^"]*)"', m.group(1)):
            bools.append((lit, m.group(2) == 'true'))
    if len(bools) < 2:
        raise TErr('params.cpp: bool literal chain of set_param(bool&) not found')
    return inst, bools


def parse_vff():
    """Statement order of `set_param(vec_from_file<config_t> &v, ParamString s)` in params.cpp.

    Returns (direct_steps, file_steps): the recognised actions of the two branches of
    `if (s.value.starts_with('@')) {file} else {direct}` in *execution* order.  Direct branch:
    `emplace` (engages / overwrites v.value), `parse` (set_param of the vec), `size` (the
    expected_size check), `store` (assignment of an already parsed vector).  Anything that is not
    one of the shapes the model was written for raises (broken tie)."""
    src = read(SRC + 'params/params.cpp')
    _, body = cp.find_region(src, r'void\s+ALPAQA_EXPORT\s+set_param\s*\(\s*vec_from_file\s*<\s*config_t\s*>\s*&\s*v\b')
    if not re.match(r'\s*assert_key_empty\s*<\s*vec_from_file\s*<\s*config_t\s*>\s*>\s*\(\s*s\s*\)\s*;', body):
        raise TErr('params.cpp: set_param(vec_from_file&) no longer starts with assert_key_empty')
    m = re.search(r"if\s*\(\s*s\.value\.starts_with\s*\(\s*'@'\s*\)\s*\)\s*\{", body)
    if not m:
        raise TErr("params.cpp: set_param(vec_from_file&): `if (s.value.starts_with('@')) {` not found")
    fclose = cp.match_brace(body, m.end() - 1)
    fbranch = body[m.end():fclose]
    m2 = re.match(r'\s*else\s*\{', body[fclose + 1:])
    if not m2:
        raise TErr('params.cpp: set_param(vec_from_file&): else branch not found')
    dopen = fclose + 1 + m2.end() - 1
    dclose = cp.match_brace(body, dopen)
    dbranch = body[dopen + 1:dclose]
    if body[dclose + 1:].strip() or body[len(re.match(r'\s*assert_key_empty[^;]*;', body).group(0)):m.start()].strip():
        raise TErr('params.cpp: set_param(vec_from_file&): statements outside the if / else')

    def events(text, pats):
        ev = []
        for tag, rx, exactly_one in pats:
            hits = [mm.start() for mm in re.finditer(rx, text)]
            if exactly_one and len(hits) != 1:
                raise TErr(f'params.cpp: set_param(vec_from_file&): expected exactly one `{tag}` action, found {len(hits)}')
            ev += [(h, tag) for h in hits]
        return sorted(ev)

    # ---- direct branch
    dev = events(dbranch, [
        ('writes', r'v\.value\s*(?:\.\s*emplace\s*\(|\.\s*reset\s*\(|=[^=])|\*\s*v\.value\s*=[^=]|v\.value\s*->\s*(?:resize|operator)', False),
        ('parse', r'\bset_param\s*\(', True),
        ('size', r'v\.expected_size\s*>=\s*0', True),
    ])
    writes = [h for h, t in dev if t == 'writes']
    if len(writes) != 1:
        raise TErr(f'params.cpp: set_param(vec_from_file&): expected exactly one write of v.value in the direct branch, found {len(writes)}')
    ppos = [h for h, t in dev if t == 'parse'][0]
    pclose = cp.match_brace(dbranch, dbranch.index('(', ppos), '(', ')')
    spos = [h for h, t in dev if t == 'size'][0]
    w = writes[0]
    wtxt = dbranch[w:w + 40]
    if ppos < w < pclose:                       # set_param(v.value.emplace(), s): argument first
        if not re.match(r'v\.value\s*\.\s*emplace\s*\(\s*\)', wtxt):
            raise TErr('params.cpp: set_param(vec_from_file&): write inside the parse call is not `v.value.emplace()`')
        if spos < pclose:
            raise TErr('params.cpp: set_param(vec_from_file&): size check before the parse')
        order = ['emplace', 'parse', 'size']
    else:
        order = [t for _, t in sorted([(w, 'emplace' if re.match(r'v\.value\s*\.\s*emplace\s*\(\s*\)', wtxt) else 'store'),
                                       (ppos, 'parse'), (spos, 'size')])]
    if order not in (['emplace', 'parse', 'size'], ['parse', 'size', 'store']):
        raise TErr(f'params.cpp: set_param(vec_from_file&): direct branch has the action order {order}, '
                   f'which the model was not written for')
    if order[0] == 'parse' and re.search(r'\bset_param\s*\(\s*(?:\*\s*)?v\b', dbranch):
        raise TErr('params.cpp: set_param(vec_from_file&): parse target is v although the store comes later')
    if not re.search(r'throw\s+std::invalid_argument\s*\(\s*"Incorrect size', dbranch):
        raise TErr('params.cpp: set_param(vec_from_file&): the size check no longer throws "Incorrect size"')
    # ---- file branch
    fev = events(fbranch, [
        ('open', r'std::ifstream\s+f\s*\(', True),
        ('opencheck', r'if\s*\(\s*!\s*f\s*\)\s*throw', True),
        ('read', r'read_row_std_vector\s*<', True),
        ('size', r'v\.expected_size\s*>=\s*0', True),
        ('store', r'v\.value\s*(?:\.\s*emplace\s*\(|=[^=])', True),
        ('catch', r'catch\s*\(\s*alpaqa::csv::read_error\s*&', True),
    ])
    forder = [t for _, t in fev]
    if re.search(r'v\.value\s*\.\s*(?:reset|emplace\s*\(\s*\))|\*\s*v\.value|v\.value\s*->', fbranch):
        raise TErr('params.cpp: set_param(vec_from_file&): file branch touches v.value before the row is stored')
    return order, forder


def parse_duration_hpp():
    src = read(INC + 'util/duration-parse.hpp')
    _, body = cp.find_region(src, r'std::string_view\s+parse_single_duration\s*\(')
    m1 = re.search(r'find_first_not_of\s*\(\s*"([^"]*)"\s*\)', body)
    m2 = re.search(r'find_first_of\s*\(\s*"([^"]*)"\s*\)', body)
    if not m1 or not m2:
        raise TErr('duration-parse.hpp: trim / unit-stop character sets not found')
    units = []
    rx = re.compile(r'if\s*\(((?:\s*units\s*==\s*"[^"]*"\s*(?:\|\|)?|\s*units\.empty\(\)\s*(?:\|\|)?)+)\)\s*'
                    r'(?:t\s*\+=\s*cast|add)\s*\(\s*duration\s*<\s*double\s*,\s*std::ratio\s*<\s*([\d\']+)\s*,\s*([\d\']+)\s*>\s*>'
                    r'\s*\{\s*value\s*\}\s*\)\s*;')
    for m in rx.finditer(body):
        num = int(m.group(2)); den = int(m.group(3))
        if (num * 10 ** 9) % den:
            raise TErr('duration-parse.hpp: unit period is not a whole number of ns')
        ns = num * 10 ** 9 // den
        for part in re.split(r'\|\|', m.group(1)):
            part = part.strip()
            mm = re.fullmatch(r'units\s*==\s*"([^"]*)"', part)
            units.append((mm.group(1) if mm else '', ns))
    n_branches = len(re.findall(r'duration\s*<\s*double\s*,\s*std::ratio', body))
    if not units or n_branches != len(rx.findall(body)):
        raise TErr('duration-parse.hpp: unit chain not understood')
    if len(re.findall(r'std::chrono::round\s*<\s*Duration\s*>\s*\(', body)) != 1:
        raise TErr('duration-parse.hpp: the conversion is no longer one std::chrono::round<Duration>')
    return m1.group(1), m2.group(1), units


# ---------------------------------------------------------------- emit

def lstr(s):
    return '"' + s.replace('\\', '\\\\').replace('"', '\\"') + '"'


def lkind(k):
    if k[0] in ('bool', 'real', 'vec'):
        return '.' + k[0]
    if k[0] == 'int':
        return f'.int ({k[1]}) ({k[2]})'
    if k[0] == 'dur':
        return f'.dur {k[1]}'
    return f'.{"other" if k[0] == "opaque" else k[0]} {lstr(k[1])}'


def llist(items, indent='  '):
    if not items:
        return '[]'
    return '[\n' + ',\n'.join(indent + '  ' + i for i in items) + ']'


def emit_lean(d):
    o = ['/- GENERATED by /verif/gen/gen_c18.py from /repo — do not edit.\n'
         '   Parameter tables (structs.ipp), struct / enum definitions (headers), instantiation\n'
         '   list and bool literals (params.cpp), duration unit table (duration-parse.hpp). -/',
         'import Alpaqa.Model.C18', '', 'namespace Alpaqa.Gen.C18', 'open Alpaqa.C18', '']
    o.append('/-- struct definitions (headers): every member with its C++ type and kind -/')
    o.append('def structDecls : List StructDecl := ' + llist([
        '{ name := %s, file := %s, fields := %s }' % (
            lstr(s['name']), lstr(s['file']),
            llist(['{ name := %s, cxxType := %s, kind := %s }' % (lstr(n), lstr(t), lkind(k))
                   for n, t, k in s['fields']], '    '))
        for s in d['structs']]))
    o.append('')
    o.append('/-- enum definitions (headers): enumerator, value, deprecated -/')
    o.append('def enumDecls : List EnumDecl := ' + llist([
        '{ name := %s, file := %s, enumerators := %s }' % (
            lstr(e['name']), lstr(e['file']),
            llist(['(%s, %d, %s)' % (lstr(n), v, 'true' if dep else 'false')
                   for n, v, dep in e['enumerators']], '    '))
        for e in d['enums']]))
    o.append('')
    o.append('/-- `PARAMS_TABLE(struct, PARAMS_MEMBER(name, "")…)`: (key, member) in source order -/')
    o.append('def paramTables : List (String × List (String × String)) := ' + llist([
        '(%s, %s)' % (lstr(t), llist(['(%s, %s)' % (lstr(k), lstr(mm)) for k, mm in ents], '    '))
        for t, ents in d['params']]))
    o.append('')
    o.append('/-- `PARAMS_ALIAS_TABLE(struct, PARAMS_MEMBER_ALIAS(alias, name)…)` -/')
    o.append('def aliasTables : List (String × List (String × String)) := ' + llist([
        '(%s, %s)' % (lstr(t), llist(['(%s, %s)' % (lstr(a), lstr(n)) for a, n in ents], '    '))
        for t, ents in d['aliases']]))
    o.append('')
    o.append('/-- `ENUM_TABLE(enum, ENUM_MEMBER(name)…)` -/')
    o.append('def enumTables : List (String × List String) := ' + llist([
        '(%s, [%s])' % (lstr(t), ', '.join(lstr(n) for n in ents)) for t, ents in d['enumtabs']]))
    o.append('')
    o.append('/-- first argument of every `ALPAQA_SET_PARAM_INST(…)` in params.cpp -/')
    o.append('def instList : List String := [' + ', '.join(lstr(i) for i in d['inst']) + ']')
    o.append('')
    o.append('/-- literal strings accepted by `set_param(bool&, …)` -/')
    o.append('def boolStrings : List (String × Bool) := [' + ', '.join(
        '(%s, %s)' % (lstr(s), 'true' if b else 'false') for s, b in d['bools']) + ']')
    o.append('')
    o.append('/-- `duration-parse.hpp`: trim set, unit-stop set, unit ↦ period in ns -/')
    o.append('def durCfg : DurCfg := { trim := %s.toList, stop := %s.toList, units := [%s] }' % (
        lstr(d['trim']), lstr(d['stop']), ', '.join('(%s, %d)' % (lstr(u), ns) for u, ns in d['units'])))
    o.append('')
    o.append('/-- `set_param(vec_from_file&, …)` (params.cpp): actions of the direct branch and of the\n'
             '    `@file` branch in execution order -/')
    o.append('def vffDirectSteps : List String := [' + ', '.join(lstr(x) for x in d['vff_direct']) + ']')
    o.append('def vffFileSteps : List String := [' + ', '.join(lstr(x) for x in d['vff_file']) + ']')
    o.append('')
    # the dispatch environment: table entries with the kind of the member they write
    o.append('/-- dispatch environment of the model: each table entry with the kind of its member\n'
             '    (from the struct definition), each enum table entry with its value -/')
    sdef = {s['name']: s for s in d['structs']}
    edef = {e['name']: e for e in d['enums']}
    st_items = []
    for t, ents in d['params']:
        fk = {n: k for n, _, k in sdef[t]['fields']}
        es = []
        for k, mm in ents:
            if mm not in fk:
                raise TErr(f'PARAMS_TABLE({t}): member {mm} does not exist in the struct (would not compile)')
            es.append('{ key := %s, member := %s, kind := %s }' % (lstr(k), lstr(mm), lkind(fk[mm])))
        st_items.append('(%s, %s)' % (lstr(t), llist(es, '    ')))
    en_items = []
    for t, ents in d['enumtabs']:
        ev = {n: v for n, v, _ in edef[t]['enumerators']}
        for n in ents:
            if n not in ev:
                raise TErr(f'ENUM_TABLE({t}): enumerator {n} does not exist (would not compile)')
        en_items.append('(%s, [%s])' % (lstr(t), ', '.join('(%s, %d)' % (lstr(n), ev[n]) for n in ents)))
    o.append('def env : Env where\n  structs := ' + llist(st_items) + '\n  enums := ' + llist(en_items) +
             '\n  vffEmplaceFirst := vffDirectSteps.head? == some "emplace"')
    o.append('')
    o.append('end Alpaqa.Gen.C18')
    return '\n'.join(o) + '\n'


def cxx_ident_lit(s):
    return '"' + ''.join(c if ord(c) < 128 else ''.join('\\x%02x' % b for b in c.encode()) + '""'
                         for c in s) + '"'


def emit_cxx(d):
    o = ['// GENERATED by /verif/gen/gen_c18.py — leaf walkers for every struct with a PARAMS_TABLE.',
         '// Walks ALL members of the struct definition (not just the table), in declaration order.',
         '#pragma once', '#include <string>', '']
    names = [s['name'] for s in d['structs']]
    for n in names:
        o.append(f'template <class V> void c18_walk(V &v, const std::string &p, alpaqa::{n}<config_t> &t);')
    o.append('')
    for s in d['structs']:
        o.append(f'template <class V> void c18_walk(V &v, const std::string &p, alpaqa::{s["name"]}<config_t> &t) {{')
        for n, ty, k in s['fields']:
            if k[0] == 'struct':
                o.append(f'    c18_walk(v, p + {cxx_ident_lit(n)} ".", t.{n});')
            else:
                o.append(f'    v.leaf(p + {cxx_ident_lit(n)}, t.{n});')
        o.append('}')
    o.append('')
    inst = [i for i in d['inst'] if i in names]
    o.append('#define C18_TOP_STRUCTS(X) \\')
    o.append(' \\\n'.join(f'    X({i})' for i in inst))
    o.append('')
    o.append('#define C18_TOP_ENUMS(X) \\')
    o.append(' \\\n'.join(f'    X({e["name"]})' for e in d['enums'] if e['name'] in d['inst'] and '::' not in e['name']))
    o.append('')
    return '\n'.join(o)


def gather(lenient=False):
    """lenient=True: only what the harness walkers and the monitor need (struct / enum
    definitions of the types that have a table); table entries that are not understood are
    skipped instead of raising.  Never used for the Lean tables."""
    macro_hashes = {} if lenient else check_macros()
    params, aliases, enumtabs = parse_tables(lenient)
    tstructs = [t for t, _ in params]
    tenums = [t for t, _ in enumtabs]
    if len(set(tstructs)) != len(tstructs) or len(set(tenums)) != len(tenums):
        raise TErr('structs.ipp: a type has two tables (would not compile)')
    structs = [parse_struct(t, set(tstructs), set(tenums)) for t in tstructs]
    sdef = {s['name']: s for s in structs}
    enums = []
    for t in tenums:
        if '::' in t:                       # enum nested in a parameter struct
            sn, en = t.split('::')
            le = dict(sdef[sn]['local_enums']) if sn in sdef else {}
            if en not in le:
                raise TErr(f'ENUM_TABLE({t}): no such nested enum (would not compile)')
            enums.append({'name': t, 'file': sdef[sn]['file'], 'enumerators': le[en]})
        else:
            enums.append(parse_enum(t))
    if lenient:
        try:
            inst, bools = parse_params_cpp()
        except (cp.TranslationError, ValueError):
            inst, bools = list(tstructs) + list(tenums), []
        trim, stop, units = '', '', []
    else:
        inst, bools = parse_params_cpp()
        trim, stop, units = parse_duration_hpp()
    vff_direct, vff_file = ([], []) if lenient else parse_vff()
    return {'vff_direct': vff_direct, 'vff_file': vff_file,'params': params, 'aliases': aliases, 'enumtabs': enumtabs, 'structs': structs,
            'enums': enums, 'inst': inst, 'bools': bools, 'trim': trim, 'stop': stop, 'units': units,
            'macro_hashes': macro_hashes}


def write_if_changed(path, text):
    old = open(path, encoding='utf8').read() if os.path.exists(path) else None
    if old != text:
        os.makedirs(os.path.dirname(path), exist_ok=True)
        tmp = path + f'.{os.getpid()}.tmp'
        with open(tmp, 'w', encoding='utf8') as f:
            f.write(text)
        os.replace(tmp, path)


def harness_only():
    """Definitions + C++ walkers even when the tables cannot be translated (the Lean side is then
    left untouched and the strict run reports the broken tie)."""
    d = gather(lenient=True)
    write_if_changed(os.path.join(cache_dir(), 'c18_tables.hpp'), emit_cxx(d))
    return d


def main(out_path=None):
    out_path = out_path or os.path.join(VERIF, 'lean', 'Alpaqa', 'Gen', 'C18.lean')
    d = gather()
    lean = emit_lean(d)
    cxx = emit_cxx(d)
    write_if_changed(out_path, lean)
    write_if_changed(os.path.join(cache_dir(), 'c18_tables.hpp'), cxx)
    h = lambda x: hashlib.sha256(json.dumps(x, sort_keys=True, default=str).encode()).hexdigest()[:12]
    regions = {
        'structs.ipp tables': {'file': 'params/structs.ipp',
                               'hash': h([d['params'], d['aliases'], d['enumtabs']]),
                               'n_param_tables': len(d['params']), 'n_enum_tables': len(d['enumtabs']),
                               'n_alias_tables': len(d['aliases']),
                               'n_entries': sum(len(e) for _, e in d['params'])},
        'structs.hpp macros': {'file': 'params/structs.hpp', 'hash': h(d['macro_hashes'])},
        'struct definitions': {'file': sorted({s['file'] for s in d['structs']}), 'hash': h(d['structs']),
                               'n_fields': sum(len(s['fields']) for s in d['structs'])},
        'enum definitions': {'file': sorted({e['file'] for e in d['enums']}), 'hash': h(d['enums'])},
        'params.cpp inst list + bool literals': {'file': 'src/params/params.cpp',
                                                 'hash': h([d['inst'], d['bools']]), 'n_inst': len(d['inst'])},
        'duration-parse.hpp units': {'file': 'util/duration-parse.hpp',
                                     'hash': h([d['trim'], d['stop'], d['units']])},
        'params.cpp set_param(vec_from_file&) action order': {'file': 'src/params/params.cpp',
                                                              'hash': h([d['vff_direct'], d['vff_file']]),
                                                              'direct': d['vff_direct'], 'file_branch': d['vff_file']},
    }
    return regions, d


if __name__ == '__main__':
    try:
        r, _ = main(sys.argv[1] if len(sys.argv) > 1 else None)
        print(json.dumps({'ok': True, 'regions': r}))
    except cp.TranslationError as e:
        print(json.dumps({'ok': False, 'error': str(e)}))
        sys.exit(2)
    except (OSError, ValueError) as e:
        print(json.dumps({'ok': False, 'error': f'{type(e).__name__}: {e}'}))
        sys.exit(2)
