#!/usr/bin/env python3
"""C06 translator: exit-status chain, stopping-criterion formulas, no-progress update —
re-extracted from /repo on every run and emitted as Lean (lean/Alpaqa/Gen/C06.lean)."""
import json
import os
import re
import sys
sys.path.insert(0, os.path.dirname(os.path.abspath(__file__)))
import cxxparse as cp
from lean_emit import Emitter, file_header, FILE_FOOTER, dotted

REPO = os.environ.get('VERIF_REPO', '/repo')
INC = REPO + '/src/alpaqa/include/alpaqa/'

STATUS_ENV = {
    'opts.tolerance': ('tolerance_opt', 'S'),
    'params.max_iter': ('max_iter', 'N'),
    'params.max_no_progress': ('max_no_progress', 'N'),
    'iteration': ('iteration', 'N'),
    'εₖ': ('eps_k', 'S'),
    'no_progress': ('no_progress', 'N'),
    'out_of_time': ('out_of_time', 'B'),
    'interrupted': ('interrupted', 'B'),
}


def read(rel):
    return cp.strip_comments(open(INC + rel, encoding='utf8').read())


def enum_names(src, name):
    m = re.search(r'enum\s+class\s+' + name + r'\s*\{', src)
    if not m:
        raise cp.TranslationError(f'enum {name} not found')
    ob = src.index('{', m.start())
    body = src[ob + 1:cp.match_brace(src, ob)]
    names = []
    for part in body.split(','):
        part = part.strip()
        if not part:
            continue
        mm = re.match(r'([A-Za-z_]\w*)\s*(=\s*(\d+))?$', part)
        if not mm:
            raise cp.TranslationError(f'enum {name}: cannot parse enumerator {part!r}')
        names.append(mm.group(1))
    return names


def status_chain(body, lean_name, regions, lits, status_names):
    ss = cp.parse_statements(body)
    keep = []
    for s in ss:
        # time and stop flag are oracles: their declarations become parameters
        if s[0] == 'decl' and s[2] in ('max_time', 'out_of_time', 'interrupted'):
            continue
        if s[0] == 'if' and 'max_time' in repr(s):
            continue
        keep.append(s)
    enumv = {f'SolverStatus::{n}': f'SolverStatus.{n}' for n in status_names}
    em = Emitter(lambda d: STATUS_ENV.get(d), enum_values=enumv)
    params = [(k, v[0], v[1]) for k, v in STATUS_ENV.items()]
    txt = em.function(lean_name, params, keep, 'SolverStatus',
                      doc=f'{lean_name}: translated status chain')
    lits.update(em.nat_lits)
    regions[lean_name] = {'hash': cp.ast_hash(keep)}
    return txt


def case_bodies(switch_src, enum):
    """{'Name': body_text} for `case Enum::Name: { … }` groups; fallthrough labels share a body."""
    out = {}
    pos = 0
    pending = []
    for m in re.finditer(r'case\s+' + enum + r'::(\w+)\s*:\s*(\[\[fallthrough\]\]\s*;)?', switch_src):
        if m.start() < pos:
            continue
        name = m.group(1)
        rest = switch_src[m.end():].lstrip()
        if m.group(2):
            pending.append(name)
            continue
        if rest.startswith('{'):
            ob = switch_src.index('{', m.end())
            cb = cp.match_brace(switch_src, ob)
            body = switch_src[ob + 1:cb]
            pos = cb
        elif rest.startswith('return'):
            end = switch_src.index(';', m.end())
            body = switch_src[m.end():end + 1]
            pos = end
        else:
            pending.append(name)
            continue
        for n in pending + [name]:
            out[n] = body
        pending = []
    return out, pending


def main(out_path):
    regions, defs, lits = {}, [], set()
    helpers = read('implementation/inner/panoc-helpers.tpp')
    ocp = read('implementation/inner/panoc-ocp.tpp')

    # ---- enums -----------------------------------------------------------------------------
    st_names = enum_names(read('inner/internal/solverstatus.hpp'), 'SolverStatus')
    sc_names = enum_names(read('inner/internal/panoc-stop-crit.hpp'), 'PANOCStopCrit')
    defs.append('/-- `enum class SolverStatus` (solverstatus.hpp), enumerators in source order. -/\n'
                'inductive SolverStatus where\n' + ''.join(f'  | {n}\n' for n in st_names) +
                '  deriving DecidableEq, Repr, Inhabited\n')
    defs.append('/-- `enum class PANOCStopCrit` (panoc-stop-crit.hpp), enumerators in source order. -/\n'
                'inductive PANOCStopCrit where\n' + ''.join(f'  | {n}\n' for n in sc_names) +
                '  deriving DecidableEq, Repr, Inhabited\n')
    defs.append('def SolverStatus.all : List SolverStatus := [' +
                ', '.join(f'.{n}' for n in st_names) + ']\n')
    defs.append('def PANOCStopCrit.all : List PANOCStopCrit := [' +
                ', '.join(f'.{n}' for n in sc_names) + ']\n')
    regions['enums'] = {'SolverStatus': st_names, 'PANOCStopCrit': sc_names}

    # ---- status chains ---------------------------------------------------------------------
    _, body = cp.find_region(helpers, r'static\s+SolverStatus\s+check_all_stop_conditions\s*\(')
    defs.append(status_chain(body, 'statusChain', regions, lits, st_names))
    _, body = cp.find_region(ocp, r'auto\s+check_all_stop_conditions\s*=')
    defs.append(status_chain(body, 'statusChainOcp', regions, lits, st_names))

    # ---- stop_crit_requires_grad_ψx̂ ------------------------------------------------------
    _, body = cp.find_region(helpers, r'static\s+bool\s+stop_crit_requires_grad_\S+\s*\(\s*PANOCStopCrit')
    _, sw = cp.find_region(body, r'switch\s*\(\s*crit\s*\)')
    cases, _ = case_bodies(sw, 'PANOCStopCrit')
    arms = []
    for n in sc_names:
        if n not in cases:
            raise cp.TranslationError(f'stop_crit_requires_grad: no case for {n}')
        mm = re.match(r'\s*return\s+(true|false)\s*;', cases[n])
        if not mm:
            raise cp.TranslationError(f'stop_crit_requires_grad: case {n} is not `return bool`')
        arms.append(f'  | .{n} => {mm.group(1)}')
    defs.append('/-- `PANOCHelpers::stop_crit_requires_grad_ψx̂`. -/\n'
                'def requiresGradHat : PANOCStopCrit → Bool\n' + '\n'.join(arms) + '\n')
    regions['requiresGradHat'] = {'hash': cp.ast_hash(sorted(cases.items()))}

    # ---- calc_error_stop_crit (helpers): one Lean def per case -----------------------------
    _, body = cp.find_region(helpers, r'static\s+real_t\s+calc_error_stop_crit\s*\(')
    _, sw = cp.find_region(body, r'switch\s*\(\s*crit\s*\)')
    cases, _ = case_bodies(sw, 'PANOCStopCrit')
    env = {
        'pₖ': ('p', 'V'), 'γ': ('gamma', 'S'), 'xₖ': ('x', 'V'), 'x̂ₖ': ('xhat', 'V'),
        'ŷₖ': ('yhat', 'V'), 'grad_ψₖ': ('grad_psi', 'V'), 'grad_̂ψₖ': ('grad_hatpsi', 'V'),
    }
    env = {cp.unicodedata.normalize('NFC', k): v for k, v in env.items()}

    def prox_handler(e, em):
        d = dotted(e[1])
        if d == 'problem.eval_prox_grad_step' and len(e[2]) == 5:
            g, _ = em.expr(e[2][0], 'S')
            x, _ = em.expr(e[2][1], 'V')
            gr, _ = em.expr(e[2][2], 'V')
            o1, o2 = dotted(e[2][3]), dotted(e[2][4])
            return [(o1, 'V', f'(prox {g} {x} {gr}).1'), (o2, 'V', f'(prox {g} {x} {gr}).2')]
        return None

    crit_arms = []
    for n in sc_names:
        if n not in cases:
            raise cp.TranslationError(f'calc_error_stop_crit: no case for {n}')
        ss = cp.parse_statements(cases[n])
        em = Emitter(lambda d: env.get(d))
        em.stmt_call_handler = prox_handler
        params = [('prox', 'prox', 'α → Vec α → Vec α → Vec α × Vec α')] + \
                 [(k, v[0], v[1]) for k, v in env.items()]
        txt = em.function(f'stopCrit_{n}', params, ss, 'S',
                          doc=f'calc_error_stop_crit, case PANOCStopCrit::{n}')
        lits.update(em.nat_lits)
        regions[f'stopCrit_{n}'] = {'hash': cp.ast_hash(ss)}
        defs.append(txt)
        crit_arms.append(f'  | .{n} => stopCrit_{n} prox p gamma x xhat yhat grad_psi grad_hatpsi')
    defs.append('/-- `PANOCHelpers::calc_error_stop_crit` (dispatch on the criterion). -/\n'
                'def calcErrorStopCrit (crit : PANOCStopCrit) (prox : α → Vec α → Vec α → Vec α × Vec α)\n'
                '    (p : Vec α) (gamma : α) (x xhat yhat grad_psi grad_hatpsi : Vec α) : α :=\n'
                '  match crit with\n' + '\n'.join(crit_arms) + '\n')

    # ---- PANOC-OCP copy of the criteria -----------------------------------------------------
    _, body = cp.find_region(ocp, r'auto\s+calc_error_stop_crit\s*=')
    _, sw = cp.find_region(body, r'switch\s*\(\s*params\.stop_crit\s*\)')
    cases, unsupported = case_bodies(sw, 'PANOCStopCrit')
    envo = {'γ': ('gamma', 'S'), 'xuₖ': ('xu', 'V'), 'grad_ψₖ': ('grad_psi', 'V'),
            'pₖ': ('p', 'V'), 'pₖᵀpₖ': ('pTp', 'S')}

    def ocp_prox_handler(e, em):
        d = dotted(e[1])
        if d == 'eval_prox_impl' and len(e[2]) == 5:
            g, _ = em.expr(e[2][0], 'S')
            x, _ = em.expr(e[2][1], 'V')
            gr, _ = em.expr(e[2][2], 'V')
            o1, o2 = dotted(e[2][3]), dotted(e[2][4])
            return [(o1, 'V', f'(proxOcp {g} {x} {gr}).1'), (o2, 'V', f'(proxOcp {g} {x} {gr}).2.1'),
                    ('work_pTp', 'S', f'(proxOcp {g} {x} {gr}).2.2')]
        return None

    ocp_arms = []
    for n in sc_names:
        if n in unsupported or n not in cases:
            ocp_arms.append(f'  | .{n} => none')
            continue
        text = cases[n]
        # `auto [pTp, gTp] = eval_prox_impl(1, xuₖ, grad_ψₖ, work_xu, work_p);` → call + scalar
        text2 = re.sub(r'auto\s*\[\s*(\w+)\s*,\s*(\w+)\s*\]\s*=\s*eval_prox_impl\s*\(([^;]*)\)\s*;',
                       r'eval_prox_impl(\3); real_t \1 = work_pTp;', text)
        ss = cp.parse_statements(text2)
        em = Emitter(lambda d: envo.get(d))
        em.stmt_call_handler = ocp_prox_handler
        params = [('proxOcp', 'proxOcp', 'α → Vec α → Vec α → Vec α × Vec α × α')] + \
                 [(k, v[0], v[1]) for k, v in envo.items()]
        txt = em.function(f'stopCritOcp_{n}', params, ss, 'S',
                          doc=f'panoc-ocp.tpp calc_error_stop_crit, case {n}')
        lits.update(em.nat_lits)
        regions[f'stopCritOcp_{n}'] = {'hash': cp.ast_hash(ss)}
        defs.append(txt)
        ocp_arms.append(f'  | .{n} => some (stopCritOcp_{n} proxOcp gamma xu grad_psi p pTp)')
    defs.append('/-- PANOC-OCP `calc_error_stop_crit`: `none` = the solver throws `invalid_argument`. -/\n'
                'def calcErrorStopCritOcp (crit : PANOCStopCrit)\n'
                '    (proxOcp : α → Vec α → Vec α → Vec α × Vec α × α)\n'
                '    (gamma : α) (xu grad_psi p : Vec α) (pTp : α) : Option α :=\n'
                '  match crit with\n' + '\n'.join(ocp_arms) + '\n')

    # ---- no-progress counter update (each solver's copy must be the same statement) ---------
    np_env = {'no_progress': ('no_progress', 'N'), 'k': ('k', 'N'),
              'params.max_no_progress': ('max_no_progress', 'N'), 'same_iterate': ('same_iterate', 'B')}
    hashes = {}
    first = None
    for solver, cmp_re in (('panoc', r'curr->x\s*==\s*next->x'), ('zerofpr', r'curr->x\s*==\s*next->x'),
                           ('fista', r'curr->x̂\s*==\s*prev_x̂'), ('panoc-ocp', r'curr->xu\s*==\s*next->xu'),
                           ('pantr', None)):
        src = read(f'implementation/inner/{solver}.tpp')
        try:
            st = cp.find_statement(src, r'if\s*\(\s*no_progress\s*>\s*0')
        except cp.TranslationError:
            if solver == 'pantr':
                continue
            raise
        # the statement ends at the first ';' at depth 0, which is the assignment's
        if cmp_re:
            st2, nsub = re.subn(cmp_re, 'same_iterate', cp.unicodedata.normalize('NFC', st))
            if nsub != 1:
                raise cp.TranslationError(f'{solver}: iterate comparison not found in no_progress update')
        else:
            st2 = st
        ss = cp.parse_statements(st2)
        hashes[solver] = cp.ast_hash(ss)
        if first is None:
            first = ss
    if len(set(hashes.values())) != 1:
        raise cp.TranslationError(f'no_progress update differs between solvers: {hashes}')
    em = Emitter(lambda d: np_env.get(d))
    txt = em.function('noProgressUpdate', [(k, v[0], v[1]) for k, v in np_env.items()], first, None,
                      outputs=['no_progress'],
                      doc='`if (no_progress > 0 || k % max_no_progress == 0) no_progress = same ? no_progress + 1 : 0;`')
    lits.update(em.nat_lits)
    defs.append(txt)
    regions['noProgressUpdate'] = hashes

    hdr = file_header('C06 status chain, stopping criteria, no-progress update.', nat_lits=lits)
    # the inductive types must precede the `variable` section
    pre = [d for d in defs if d.startswith('/-- `enum class') or d.startswith('def SolverStatus.all')
           or d.startswith('def PANOCStopCrit.all') or 'def requiresGradHat' in d]
    post = [d for d in defs if d not in pre]
    head, sect = hdr.split('section\n', 1)
    text = head + '\n'.join(pre) + '\nsection\n' + sect + '\n'.join(post) + FILE_FOOTER
    old = open(out_path).read() if os.path.exists(out_path) else None
    if old != text:
        with open(out_path, 'w') as f:
            f.write(text)
    return regions


if __name__ == '__main__':
    out = sys.argv[1] if len(sys.argv) > 1 else os.path.join(
        os.path.dirname(os.path.abspath(__file__)), '..', 'lean', 'Alpaqa', 'Gen', 'C06.lean')
    try:
        r = main(out)
        print(json.dumps({'ok': True, 'regions': r}))
    except cp.TranslationError as e:
        print(json.dumps({'ok': False, 'error': str(e)}))
        sys.exit(2)
