#!/usr/bin/env python3
"""C01 translator: `alpaqa::compute_kkt_error` (problem/kkt-error.hpp), re-extracted from /repo on every
run and emitted as Lean (lean/Alpaqa/Gen/C01.lean).

The function is a straight line of 15 statements, most of them calls through the type-erased problem
with output arguments, plus one `std::inner_product` with a lambda — outside the statement subset of
gen/lean_emit.py.  It is therefore translated statement by statement with one pattern per statement
*shape*: the statements must appear in exactly this order, every variable name, argument position,
literal (`1` = the step size, `real_t(0)` = the fold's start value) and operator that the Lean text
depends on is captured from the source and checked, and anything else raises TranslationError (never
skipped).  The problem's functions are oracles (parameters of the generated definition):

  gradL x y            `problem.eval_grad_L(x, y, grad_Lx, work)`            → grad_Lx
  proxGradStepP γ x g  `problem.eval_prox_grad_step(γ, x, g, x̂, p)`          → p  (5th argument)
  evalG x              `problem.eval_g(x, g)`                                → g
  projDiffG z          `problem.eval_proj_diff_g(z, e)`                      → e
  providesBoxC         `problem.provides_get_box_C()`
  projectC v           `project(v, problem.get_box_C())`
"""
import hashlib
import json
import os
import re
import sys
import unicodedata

sys.path.insert(0, os.path.dirname(os.path.abspath(__file__)))
import cxxparse as cp
from cxxparse import TranslationError

REPO = os.environ.get('VERIF_REPO', '/repo')
SRC = REPO + '/src/alpaqa/include/alpaqa/problem/kkt-error.hpp'
ID = r'[^\W\d]\w*'


def statements(body):
    """split at ';' outside (), [], {}; an `if (...) stmt;` stays one statement"""
    out, cur, depth = [], '', 0
    for ch in body:
        if ch in '([{':
            depth += 1
        elif ch in ')]}':
            depth -= 1
        if ch == ';' and depth == 0:
            if cur.strip():
                out.append(' '.join(cur.split()))
            cur = ''
        else:
            cur += ch
    if cur.strip():
        raise TranslationError(f'trailing text after the last statement: {cur.strip()[:60]!r}')
    return out


def main(out_path):
    src = unicodedata.normalize('NFC', cp.strip_comments(open(SRC, encoding='utf8').read()))
    # ---- the result struct ------------------------------------------------------------------------
    _, sbody = cp.find_region(src, r'struct\s+KKTError\s*\{')
    sflat = ' '.join(sbody.split())
    m = re.search(r'real_t ((?:' + ID + r' = NaN, )*' + ID + r' = NaN);', sflat, flags=re.U)
    if not m:
        raise TranslationError('struct KKTError: member list `real_t a = NaN, …;` not found')
    fields = [f.split('=')[0].strip() for f in m.group(1).split(',')]
    if fields != ['stationarity', 'constr_violation', 'complementarity', 'bounds_violation']:
        raise TranslationError(f'struct KKTError: unexpected members {fields}')
    # ---- the function -----------------------------------------------------------------------------
    hdr, body = cp.find_region(src, r'KKTError<Conf>\s+compute_kkt_error\s*\(')
    hflat = ' '.join(hdr.split())
    if not re.search(r'compute_kkt_error\(const TypeErasedProblem<Conf> &problem, crvec<Conf> x, '
                     r'crvec<Conf> y\)', hflat):
        raise TranslationError('compute_kkt_error: signature changed')
    ss = statements(body)
    env = {}          # C++ local → what it holds ('vec' buffers are tracked by name)
    lean = []

    def need(i, pat, what):
        if i >= len(ss):
            raise TranslationError(f'compute_kkt_error: statement {i} ({what}) missing')
        mm = re.fullmatch(pat, ss[i], flags=re.U)
        if not mm:
            raise TranslationError(f'compute_kkt_error: statement {i} is not {what}: {ss[i][:120]!r}')
        return mm

    i = 0
    need(i, r'USING_ALPAQA_CONFIG\(Conf\)', '`USING_ALPAQA_CONFIG(Conf)`'); i += 1
    need(i, r'using vec_util::norm_inf', '`using vec_util::norm_inf`'); i += 1
    need(i, r'const auto n = x\.size\(\), m = y\.size\(\)', 'the size declarations'); i += 1
    mm = need(i, r'vec (' + ID + r')\(n\), (' + ID + r')\(n\), (' + ID + r')\(n\), (' + ID + r')\(m\), ('
              + ID + r')\(m\)', 'the buffer declarations'); i += 1
    bufs = list(mm.groups())
    if len(set(bufs)) != 5:
        raise TranslationError('buffer names not distinct')
    # gradient of the Lagrangian
    mm = need(i, r'problem\.eval_grad_L\(x, y, (' + ID + r'), (' + ID + r')\)', 'eval_grad_L(x, y, out, work)'); i += 1
    gL, work = mm.groups()
    if gL not in bufs[:3] or work not in bufs[:3] or gL == work:
        raise TranslationError('eval_grad_L: output / workspace are not two distinct n-buffers')
    lean.append(f'let {gL} := gradL x y')
    # projected-gradient step with step size 1
    mm = need(i, r'problem\.eval_prox_grad_step\((\S+), x, (' + ID + r'), (' + ID + r'), (' + ID + r')\)',
              'eval_prox_grad_step(γ, x, grad, x̂, p)'); i += 1
    gam, g_in, xhat, pz = mm.groups()
    if gam != '1':
        raise TranslationError(f'eval_prox_grad_step: step size {gam!r} is not the literal 1')
    if g_in != gL or pz not in bufs[:3] or xhat not in bufs[:3] or len({gL, xhat, pz}) != 3 and xhat != work:
        raise TranslationError('eval_prox_grad_step: arguments changed')
    if pz in (gL, xhat):
        raise TranslationError('eval_prox_grad_step: the step output aliases another argument')
    lean.append(f'let {pz} := proxGradStepP (1 : α) x {gL}')
    mm = need(i, r'auto (' + ID + r') = norm_inf\((' + ID + r')\)', 'stationarity = norm_inf(p)'); i += 1
    if mm.group(1) != 'stationarity' or mm.group(2) != pz:
        raise TranslationError('stationarity is not the ∞-norm of the step')
    lean.append(f'let stationarity := normInf {pz}')
    # constraints
    mm = need(i, r'problem\.eval_g\(x, (' + ID + r')\)', 'eval_g(x, g)'); i += 1
    gbuf = mm.group(1)
    if gbuf not in bufs[3:]:
        raise TranslationError('eval_g: output is not an m-buffer')
    lean.append(f'let {gbuf} := evalG x')
    mm = need(i, r'problem\.eval_proj_diff_g\((' + ID + r'), (' + ID + r')\)', 'eval_proj_diff_g(g, e)'); i += 1
    if mm.group(1) != gbuf or mm.group(2) not in bufs[3:] or mm.group(2) == gbuf:
        raise TranslationError('eval_proj_diff_g: arguments changed')
    ebuf = mm.group(2)
    lean.append(f'let {ebuf} := projDiffG {gbuf}')
    mm = need(i, r'auto (' + ID + r') = norm_inf\((' + ID + r')\)', 'constr_violation = norm_inf(e)'); i += 1
    if mm.group(1) != 'constr_violation' or mm.group(2) != ebuf:
        raise TranslationError('constr_violation is not the ∞-norm of the projecting difference')
    lean.append(f'let constr_violation := normInf {ebuf}')
    # complementarity: std::inner_product(first1, last1, first2, init, op1 = (acc, ye) ↦ fmax(acc, |ye|), op2 = *)
    mm = need(i, r'real_t complementarity = std::inner_product\( ?(' + ID + r')\.begin\(\), (' + ID
              + r')\.end\(\), (' + ID + r')\.begin\(\), real_t\((\S+)\), \[\]\(real_t (' + ID + r'), real_t ('
              + ID + r')\) \{ return std::fmax\((' + ID + r'), std::abs\((' + ID + r')\)\); \}, '
              r'std::multiplies<>\{\}\)', 'the complementarity fold'); i += 1
    a1, a2, b1, init, acc, ye, facc, fye = mm.groups()
    if (a1, a2, b1) != ('y', 'y', ebuf) or init != '0' or (facc, fye) != (acc, ye) or acc == ye:
        raise TranslationError('complementarity fold: ranges / start value / lambda changed')
    lean.append(f'let complementarity := (vzip (· * ·) y {ebuf}).foldl (fun acc ye => fmaxS acc (eabs ye)) (0 : α)')
    # bounds violation
    need(i, r'real_t bounds_violation = NaN<config_t>', 'bounds_violation = NaN'); i += 1
    need(i, r'if \(problem\.provides_get_box_C\(\)\) bounds_violation = '
            r'norm_inf\(project\(x, problem\.get_box_C\(\)\) - x\)', 'the guarded bounds violation'); i += 1
    lean.append('let bounds_violation := if providesBoxC then normInf (vsub (projectC x) x) else nan')
    need(i, r'return \{ ?\.stationarity = stationarity, \.constr_violation = constr_violation, '
            r'\.complementarity = complementarity, \.bounds_violation = bounds_violation,? ?\}',
         'the designated-initialiser return'); i += 1
    if i != len(ss):
        raise TranslationError(f'compute_kkt_error: {len(ss) - i} unexpected statement(s) after the return')
    lean.append('⟨stationarity, constr_violation, complementarity, bounds_violation⟩')
    text = ('/- GENERATED by /verif/gen/gen_c01.py — do not edit. C01: compute_kkt_error (problem/kkt-error.hpp). -/\n'
            'import Alpaqa.Model.Vec\n\nnamespace Alpaqa.Gen\nopen Alpaqa\n\n'
            '/-- `struct KKTError` (kkt-error.hpp), members in source order. -/\n'
            'structure KKTError (α : Type) where\n' + ''.join(f'  {f} : α\n' for f in fields) + '\n'
            'section\nvariable {α : Type} [Add α] [Sub α] [Mul α] [Neg α] [LT α] [DecidableLT α] [RealLike α] '
            '[OfNat α 0] [OfNat α 1]\n\n'
            '/-- kkt-error.hpp :: compute_kkt_error.  Oracles: `gradL x y` = `eval_grad_L`, `proxGradStepP γ x g` = '
            'the step `p` written by `eval_prox_grad_step(γ, x, g, x̂, p)`, `evalG`, `projDiffG z` = '
            '`eval_proj_diff_g`, `providesBoxC` / `projectC v` = `project(v, get_box_C())`; `nan` = the IEEE NaN '
            'the C++ reports when the problem has no box. -/\n'
            'def computeKktError (nan : α) (gradL : Vec α → Vec α → Vec α) '
            '(proxGradStepP : α → Vec α → Vec α → Vec α) (evalG : Vec α → Vec α) (projDiffG : Vec α → Vec α) '
            '(providesBoxC : Bool) (projectC : Vec α → Vec α) (x y : Vec α) : KKTError α :=\n' +
            ''.join('  ' + l + '\n' for l in lean) + '\nend\nend Alpaqa.Gen\n')
    old = open(out_path).read() if os.path.exists(out_path) else None
    if old != text:
        with open(out_path, 'w') as f:
            f.write(text)
    return {'computeKktError': {'file': 'problem/kkt-error.hpp',
                                'hash': hashlib.sha256(repr(ss).encode()).hexdigest()[:16]},
            'KKTError': {'fields': fields}}


if __name__ == '__main__':
    out = sys.argv[1] if len(sys.argv) > 1 else os.path.join(
        os.path.dirname(os.path.abspath(__file__)), '..', 'lean', 'Alpaqa', 'Gen', 'C01.lean')
    try:
        r = main(out)
        print(json.dumps({'ok': True, 'regions': r}))
    except TranslationError as e:
        print(json.dumps({'ok': False, 'error': str(e)}))
        sys.exit(2)
