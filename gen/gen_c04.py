#!/usr/bin/env python3
"""C04 translator — regenerated from /repo on every run into lean/Alpaqa/Gen/C04.lean:

  * type-erased-problem.tpp: `calc_ŷ_dᵀŷ` (both branches) and every `default_eval_*` of the slots
    the model has, as Lean definitions over a `VTable` record of oracle functions (calls through
    the vtable are oracle calls; `rvec` arguments are outputs; workspace arguments are dropped),
    once as the value definition the theorems are about and once as the *call trace* (`…T`);
  * type-erased-problem.hpp: the slot tables (required / optional, signature, default installed),
    the constructor's REQUIRED/OPTIONAL lists, the `provides_*` / `supports_*` bodies;
  * util/required-method.hpp: the structure of the two macros;
  * box.hpp / box-constr-problem.hpp: `project`, `projecting_difference`, `eval_proj_diff_g`;
  * dl-problem.cpp vs dl-problem.h vs the vtable signatures, and CasADiProblem.tpp call sites vs the
    generator's documented input order: argument-order tables.

Anything outside the statement subset raises TranslationError (never skipped silently).
"""
import json
import os
import re
import sys
import unicodedata

sys.path.insert(0, os.path.dirname(os.path.abspath(__file__)))
import cxxparse as cp
from cxxparse import TranslationError, mangle
from lean_emit import Emitter, dotted, _indent, STD_CLASSES

REPO = os.environ.get('VERIF_REPO', '/repo')
INC = REPO + '/src/alpaqa/include/alpaqa/'
IDENT = r'[^\s=;<>(),*&{}\[\]:.+\-/!?|^%~"\']+'

# slots of the hand-written `VTable` (Model/C04Base.lean); everything else in the C++ vtable is
# outside C04 (prox step, multipliers projection, Jacobian, sparsity, boxes, check, name)
REQUIRED_MODELLED = ['eval_proj_diff_g', 'eval_f', 'eval_grad_f', 'eval_g', 'eval_grad_g_prod']
OPTIONAL_MODELLED = ['eval_hess_L_prod', 'eval_hess_L', 'eval_hess_ψ_prod', 'eval_hess_ψ',
                     'eval_f_grad_f', 'eval_f_g', 'eval_grad_f_grad_g_prod', 'eval_grad_L',
                     'eval_ψ', 'eval_grad_ψ', 'eval_ψ_grad_ψ']
# defaults that are not part of C04; each must still be classified below (pure throw / other)
OUTSIDE_C04 = ['default_eval_inactive_indices_res_lna', 'default_eval_jac_g',
               'default_get_jac_g_sparsity', 'default_eval_grad_gi', 'default_get_hess_L_sparsity',
               'default_get_hess_ψ_sparsity', 'default_get_box_C', 'default_get_box_D',
               'default_check', 'default_get_name']


def nfc(s):
    return unicodedata.normalize('NFC', s)


def read(path):
    return cp.strip_comments(nfc(open(path, encoding='utf8').read()))


def lstr(s):
    return '"' + s.replace('\\', '\\\\').replace('"', '\\"') + '"'


def llist(xs):
    return '[' + ', '.join(xs) + ']'


# ------------------------------------------------------------------------------- signatures

def split_top(text, sep=',', angles=True):
    out, depth, cur = [], 0, ''
    i, n = 0, len(text)
    opens = '([{<' if angles else '([{'
    closes = ')]}>' if angles else ')]}'
    while i < n:
        ch = text[i]
        if text.startswith('->', i):
            cur += '->'
            i += 2
            continue
        if ch in opens:
            depth += 1
        elif ch in closes:
            depth -= 1
        if ch == sep and depth == 0:
            out.append(cur)
            cur = ''
        else:
            cur += ch
        i += 1
    if cur.strip():
        out.append(cur)
    return [p.strip() for p in out]


TYPE_TOKENS = {'const', 'void', '*', '&', 'crvec', 'rvec', 'real_t', 'index_t', 'length_t',
               'rindexvec', 'crindexvec', 'ProblemVTable', 'rmat', 'crmat', 'alpaqa_real_t',
               'alpaqa_index_t', 'alpaqa_length_t'}


def parse_param(p):
    toks = p.replace('*', ' * ').replace('&', ' & ').split()
    if len(toks) >= 2 and toks[-1] not in TYPE_TOKENS:
        return ' '.join(toks[:-1]), toks[-1]
    return ' '.join(toks), None


def parse_signature(sig):
    """`real_t(crvec x, rvec g) const` → (ret, [(type, name)])."""
    sig = sig.strip()
    ob = sig.index('(')
    cb = cp.match_brace(sig, ob, '(', ')')
    ret = sig[:ob].strip()
    params = [parse_param(p) for p in split_top(sig[ob + 1:cb])] if sig[ob + 1:cb].strip() else []
    return ret, params


def vtable_slots(hpp):
    """[(kind, name, ret, params, default)] in declaration order."""
    _, body = cp.find_region(hpp, r'struct\s+ProblemVTable\s*:\s*util::BasicVTable')
    out = []
    for m in re.finditer(r'(required_function_t|optional_function_t)\s*<([^;]*?)>\s*(' + IDENT +
                         r')\s*(?:=\s*(' + IDENT + r'))?\s*;', body, re.S):
        kind = 'required' if m.group(1).startswith('required') else 'optional'
        ret, params = parse_signature(m.group(2))
        out.append((kind, m.group(3), ret, params, m.group(4)))
    if not out:
        raise TranslationError('no vtable slots found in type-erased-problem.hpp')
    return out, body


def tpp_function(src, name):
    """(ret, [(type, name)], body_text) of `ProblemVTable<Conf>::name`."""
    pat = r'(auto|void|std::string)\s+ProblemVTable<Conf>::' + re.escape(name) + r'\s*\('
    ms = list(re.finditer(pat, src))
    if len(ms) != 1:
        raise TranslationError(f'{name}: expected exactly one definition, found {len(ms)}')
    m = ms[0]
    ob = m.end() - 1
    cb = cp.match_brace(src, ob, '(', ')')
    params = [parse_param(p) for p in split_top(src[ob + 1:cb])]
    brace = src.index('{', cb)
    tail = src[cb + 1:brace]
    if m.group(1) == 'auto':
        mm = re.search(r'->\s*(.+?)\s*$', tail.strip(), re.S)
        if not mm:
            raise TranslationError(f'{name}: trailing return type not found')
        ret = mm.group(1).strip()
    else:
        ret = m.group(1)
    body = src[brace + 1:cp.match_brace(src, brace)]
    return ret, params, body


# ------------------------------------------------------------------------------- the walker

LTYPE = {'crvec': 'V', 'rvec': 'V', 'real_t': 'S', 'index_t': 'N', 'length_t': 'N'}


def base_type(ty):
    return ' '.join(w for w in ty.split() if w not in ('const', '&'))


class Slot:
    def __init__(self, kind, name, ret, params, default, option):
        self.kind, self.name, self.ret, self.params, self.default = kind, name, ret, params, default
        self.option = option          # the slot's call may throw not_implemented (→ Option)
        self.lean = mangle(name)

    def ins(self):
        return [(t, n) for t, n in self.params if base_type(t) in ('crvec', 'real_t', 'index_t')]

    def outs(self):
        return [(t, n) for t, n in self.params
                if base_type(t) == 'rvec' and not (n or '').startswith('work_')]


class FnTranslator:
    """One C++ function body → Lean term (value version or trace version)."""

    def __init__(self, name, ret, params, body, slots, trace, option_mode, inout_slots):
        self.name, self.ret, self.params, self.slots = name, ret, params, slots
        self.trace = trace
        self.option_mode = option_mode
        self.inout_slots = inout_slots
        self.alias = {}
        self.used_in = set()
        self.em = Emitter(self.resolve)
        body = re.sub(r'\(\s*void\s*\)\s*', '', body)
        self.ss = cp.parse_statements(body)
        self.hash = cp.ast_hash(self.ss)
        self.outs = []
        self.lean_params = []         # (lean name, lean type, cxx name, is_inout)
        for ty, n in params:
            bt = base_type(ty)
            if n in ('self', 'vtable') or bt in ('void *', 'ProblemVTable'):
                continue
            if n is None:
                continue              # unnamed (unused) parameter
            if bt == 'rvec':
                if n.startswith('work_'):
                    continue
                self.outs.append(n)
                self.em.locals[n] = (mangle(n) + '_in', 'V')
                self.lean_params.append((mangle(n) + '_in', 'V', n, True))
            elif bt in LTYPE:
                self.em.locals[n] = (mangle(n), LTYPE[bt])
                self.lean_params.append((mangle(n), LTYPE[bt], n, False))
            else:
                raise TranslationError(f'{name}: unsupported parameter type {ty!r}')
        if ret not in ('real_t', 'void'):
            raise TranslationError(f'{name}: unsupported return type {ret!r}')

    # -- name resolution
    def resolve(self, d):
        if d == 'vtable.m':
            return ('vt.m', 'N')
        if d == 'vtable.n':
            return ('vt.n', 'N')
        if d.startswith('__p_'):
            return ('vt.p_' + mangle(d[4:]), 'B')
        return None

    def pre(self, a):
        """alias resolution, `v(i)` → index, `vtable.X != default_X` → provides flag."""
        if not isinstance(a, tuple):
            return a
        k = a[0]
        if k == 'id':
            return ('id', self.alias.get(a[1], a[1]))
        if k == 'call' and a[1][0] == 'id' and len(a[2]) == 1:
            v = self.alias.get(a[1][1], a[1][1])
            if v in self.em.locals and self.em.locals[v][1] == 'V':
                return ('idx', ('id', v), self.pre(a[2][0]))
        if k == 'bin' and a[1] in ('!=', '=='):
            l, r = a[2], a[3]
            dl, dr = dotted(l), dotted(r)
            if dl and dl.startswith('vtable.') and dr and 'default_' in dr:
                slot = dl[len('vtable.'):]
                dflt = dr.split('::')[-1]
                if dflt != 'default_' + slot:
                    raise TranslationError(f'{self.name}: compares slot {slot} with {dflt}')
                if slot not in self.slots or self.slots[slot].default != dflt:
                    raise TranslationError(f'{self.name}: {dflt} is not the default of {slot}')
                e = ('id', '__p_' + slot)
                return e if a[1] == '!=' else ('un', '!', e)
        if k in ('num', 'str', 'chr'):
            return a
        return tuple(self.pre(x) if isinstance(x, tuple) else
                     ([self.pre(y) for y in x] if isinstance(x, list) else x) for x in a)

    def expr(self, a, want=None):
        return self.em.expr(self.pre(a), want)

    # -- oracle calls
    def oracle(self, e):
        """If `e` is `vtable.X(self, …)` or `calc_ŷ_dᵀŷ(self, …)`: (lines, result_scalar|None,
        is_option, callee_out_names)."""
        if e[0] != 'call':
            return None
        d = dotted(e[1])
        if d is None:
            return None
        args = e[2]
        if d.startswith('vtable.') and d[7:] in self.slots:
            s = self.slots[d[7:]]
            if not args or dotted(args[0]) != 'self':
                raise TranslationError(f'{self.name}: call of {d} does not pass self first')
            args = args[1:]
            if s.kind == 'optional':
                if not args or dotted(args[-1]) != 'vtable':
                    raise TranslationError(f'{self.name}: optional slot {d} called without vtable')
                args = args[:-1]
            if len(args) != len(s.params):
                raise TranslationError(f'{self.name}: arity of {d}')
            if s.name in self.inout_slots:
                raise TranslationError(f'{self.name}: call of slot {d} with in-out argument')
            return self.emit_call('vt.' + s.lean, 'tv.' + s.lean, s.params, s.ret, args, s.option,
                                  inout=())
        if d == 'calc_ŷ_dᵀŷ':
            c = self.slots['__calc__']
            if len(args) != len(c.params) + 2 or dotted(args[0]) != 'self' or dotted(args[-1]) != 'vtable':
                raise TranslationError(f'{self.name}: arity of calc_ŷ_dᵀŷ')
            return self.emit_call('calc_yhat_dTyhat vt', 'calc_yhat_dTyhatT tv vt', c.params, c.ret,
                                  args[1:-1], False, inout=('g_ŷ',))
        return None

    def emit_call(self, fn, tfn, params, ret, args, option, inout):
        ins, outs = [], []
        for (ty, pn), a in zip(params, args):
            bt = base_type(ty)
            if bt == 'rvec':
                if (pn or '').startswith('work_'):
                    continue
                d = dotted(self.pre(a))
                if d is None:
                    raise TranslationError(f'{self.name}: output argument is not a variable')
                if pn in inout:
                    ins.append(self.expr(a, 'V')[0])
                outs.append(d)
            elif bt in LTYPE:
                ins.append(self.expr(a, LTYPE[bt])[0])
            else:
                raise TranslationError(f'{self.name}: unsupported callee parameter type {ty!r}')
        call = ' '.join([fn] + ins)
        tcall = ' '.join([tfn] + ins)
        return call, tcall, ret != 'void', outs, option

    def bind_result(self, rv, has_ret, outs, retname):
        """lets projecting the tuple `rv` into (retname?, outs…)."""
        names = ([retname] if has_ret else []) + outs
        lines = []
        for i, nm in enumerate(names):
            if len(names) == 1:
                proj = rv
            elif i < len(names) - 1:
                proj = rv + '.2' * i + '.1'
            else:
                proj = rv + '.2' * i
            if nm is None:
                continue
            ty = 'S' if (has_ret and i == 0) else 'V'
            ln = self.em.bind(nm, ty)
            lines.append(f'let {ln} := {proj}')
        return lines

    # -- results
    def result(self, retval):
        if self.trace:
            return 'tr'
        vals = ([retval] if self.ret != 'void' else []) + [self.em.lookup(o)[0] for o in self.outs]
        if self.ret != 'void' and retval is None:
            raise TranslationError(f'{self.name}: control reaches end of non-void function')
        t = '(' + ', '.join(vals) + ')' if len(vals) != 1 else vals[0]
        return f'some {t}' if self.option_mode else t

    counter = 0

    def fresh(self, base):
        FnTranslator.counter += 1
        return f'{base}{FnTranslator.counter}'

    def do_call(self, oc, retname, rest, is_return):
        call, tcall, has_ret, outs, option = oc
        lines = []
        if self.trace:
            lines.append(f'let tr := tr ++ {tcall}')
        if option:
            if not self.option_mode:
                raise TranslationError(f'{self.name}: calls a throwing slot outside Option mode')
            if self.trace:
                if not is_return:
                    raise TranslationError(f'{self.name}: throwing slot called in non-tail position')
                return '\n'.join(lines + ['tr'])
            # value: propagate `none`
            if is_return and not has_ret and outs == self.outs and self.ret == 'void':
                return call
            rv = self.fresh('r')
            saved = dict(self.em.locals)
            inner = self.bind_result(rv, has_ret, outs, retname)
            cont = self.result(self.em.lookup(retname)[0] if (is_return and has_ret) else None) \
                if is_return else self.walk(rest)
            self.em.locals = saved
            return f'({call}).bind fun {rv} =>\n' + _indent('\n'.join(inner + [cont]))
        rv = self.fresh('r')
        saved = dict(self.em.locals)
        names = ([retname] if has_ret else []) + outs
        if len(names) == 1 and names[0] is not None:
            ty = 'S' if has_ret else 'V'
            ln = self.em.bind(names[0], ty)
            lines.append(f'let {ln} := {call}')
        elif len(names) >= 1:
            lines.append(f'let {rv} := {call}')
            lines += self.bind_result(rv, has_ret, outs, retname)
        if is_return:
            rvv = self.em.lookup(retname)[0] if has_ret else None
            cont = self.result(rvv)
        else:
            cont = self.walk(rest)
        self.em.locals = saved
        return '\n'.join(lines + [cont])

    # -- statements
    def walk(self, ss):
        if not ss:
            return self.result(None)
        s, rest = ss[0], ss[1:]
        k = s[0]
        em = self.em
        if k == 'block':
            return self.walk(list(s[1]) + rest)
        if k == 'decl':
            ty, name, init = s[1], s[2], s[3]
            if not isinstance(name, str) or init is None:
                raise TranslationError(f'{self.name}: unsupported declaration {name!r}')
            if '&' in ty.split():
                tgt = dotted(self.pre(init))
                if tgt is None:
                    raise TranslationError(f'{self.name}: reference to non-variable')
                saved = dict(self.alias)
                self.alias[name] = tgt
                r = self.walk(rest)
                self.alias = saved
                return r
            oc = self.oracle(init)
            if oc is not None:
                if not oc[2]:
                    raise TranslationError(f'{self.name}: void call used as initialiser')
                return self.do_call(oc, name, rest, False)
            want = em.type_of_decl(ty, None)
            e, t = self.expr(init, want)
            t2 = em.type_of_decl(ty, t)
            saved = dict(em.locals)
            ln = em.bind(name, t2)
            body = self.walk(rest)
            em.locals = saved
            return f'let {ln} := {e}\n{body}'
        if k == 'expr':
            e = s[1]
            oc = self.oracle(e)
            if oc is not None:
                return self.do_call(oc, None, rest, False)
            if e[0] == 'bin' and e[1] in ('=', '+=', '-=', '*=', '/='):
                lhs = self.pre(e[2])
                rhs = e[3] if e[1] == '=' else ('bin', e[1][0], e[2], e[3])
                if lhs[0] == 'idx':
                    v = dotted(lhs[1])
                    cur, ty = em.lookup(v)
                    i, _ = self.expr(lhs[2], 'N')
                    r, _ = self.expr(rhs, 'S')
                    saved = dict(em.locals)
                    ln = em.bind(v, 'V')
                    body = self.walk(rest)
                    em.locals = saved
                    return f'let {ln} := Alpaqa.C04.vset {cur} {i} {r}\n{body}'
                d = dotted(lhs)
                if d is None:
                    raise TranslationError(f'{self.name}: assignment to non-variable')
                cur, ty = em.lookup(d)
                r, _ = self.expr(rhs, ty)
                saved = dict(em.locals)
                ln = em.bind(d, ty)
                body = self.walk(rest)
                em.locals = saved
                return f'let {ln} := {r}\n{body}'
            raise TranslationError(f'{self.name}: unsupported expression statement {e[0]}')
        if k == 'return':
            if s[1] is None:
                return self.result(None)
            oc = self.oracle(s[1])
            if oc is not None:
                return self.do_call(oc, '__ret', [], True)
            e, _ = self.expr(s[1], 'S')
            return self.result(e)
        if k == 'throw':
            if not self.option_mode:
                raise TranslationError(f'{self.name}: throw outside Option mode')
            return 'tr' if self.trace else 'none'
        if k == 'if':
            c, _ = self.expr(s[1], 'B')
            th = list(s[2][1]) if s[2][0] == 'block' else [s[2]]
            el = [] if s[3] is None else (list(s[3][1]) if s[3][0] == 'block' else [s[3]])
            saved, saved_a = dict(em.locals), dict(self.alias)
            a = self.walk(th + rest)
            em.locals, self.alias = dict(saved), dict(saved_a)
            b = self.walk(el + rest)
            em.locals, self.alias = saved, saved_a
            return f'if {c} then\n{_indent(a)}\nelse\n{_indent(b)}'
        if k == 'for':
            return self.for_loop(s, rest)
        raise TranslationError(f'{self.name}: unsupported statement {k}')

    def for_loop(self, s, rest):
        em = self.em
        init, cond, step, body = s[1], s[2], s[3], s[4]
        if not (init[0] == 'decl' and init[1] == 'index_t' and isinstance(init[2], str)
                and init[3] == ('num', '0')):
            raise TranslationError(f'{self.name}: for-loop initialiser outside the subset')
        iv = init[2]
        if not (cond and cond[0] == 'bin' and cond[1] == '<' and cond[2] == ('id', iv)):
            raise TranslationError(f'{self.name}: for-loop condition outside the subset')
        if step not in (('un', '++', ('id', iv)), ('post', '++', ('id', iv))):
            raise TranslationError(f'{self.name}: for-loop step outside the subset')
        bound, _ = self.expr(cond[3], 'N')
        stmts = list(body[1]) if body[0] == 'block' else [body]
        mod = []
        for t in stmts:
            if not (t[0] == 'expr' and t[1][0] == 'bin' and t[1][1] in ('=', '+=', '-=', '*=', '/=')):
                raise TranslationError(f'{self.name}: loop body statement outside the subset')
            lhs = self.pre(t[1][2])
            d = dotted(lhs[1]) if lhs[0] == 'idx' else dotted(lhs)
            if d is None:
                raise TranslationError(f'{self.name}: loop assigns a non-variable')
            if d not in mod:
                mod.append(d)
        if not 1 <= len(mod) <= 2:
            raise TranslationError(f'{self.name}: loop modifies {len(mod)} variables')
        cur = [em.lookup(d) for d in mod]
        st = self.fresh('s')
        saved = dict(em.locals)
        em.locals[iv] = ('i', 'N')
        inner = []
        for j, (d, (c, ty)) in enumerate(zip(mod, cur)):
            proj = st if len(mod) == 1 else f'{st}.{j + 1}'
            inner.append(f'let {em.bind(d, ty)} := {proj}')
        # body statements, then the state tuple
        sub = FnBody(self, stmts, mod)
        inner.append(sub.text())
        em.locals = saved
        tup = '(' + ', '.join(c for c, _ in cur) + ')' if len(mod) > 1 else cur[0][0]
        res = self.fresh('s')
        lines = [f'let {res} := Alpaqa.C04.forRange {bound} (fun i {st} =>\n' + _indent('\n'.join(inner), 4)
                 + f') {tup}']
        saved = dict(em.locals)
        for j, (d, (c, ty)) in enumerate(zip(mod, cur)):
            proj = res if len(mod) == 1 else f'{res}.{j + 1}'
            lines.append(f'let {em.bind(d, ty)} := {proj}')
        cont = self.walk(rest)
        em.locals = saved
        return '\n'.join(lines + [cont])

    def function_text(self):
        FnTranslator.counter = 0
        body = self.walk(self.ss)
        tymap = {'S': 'α', 'V': 'Vec α', 'N': 'Nat', 'B': 'Bool'}
        ps = []
        for ln, ty, cn, inout in self.lean_params:
            if inout and not re.search(r'(?<![\w.])' + re.escape(ln) + r'(?![\w])', body):
                continue
            ps.append((ln, ty, cn, inout))
        self.final_params = ps
        return body


class FnBody:
    """Loop body: assignments only; ends with the tuple of the modified variables."""

    def __init__(self, parent, stmts, mod):
        self.p, self.stmts, self.mod = parent, stmts, mod

    def text(self):
        p = self.p
        saved_result = p.result
        mod = self.mod

        def res(_):
            vals = [p.em.lookup(d)[0] for d in mod]
            return '(' + ', '.join(vals) + ')' if len(vals) > 1 else vals[0]
        saved_trace = p.trace
        p.result = res
        try:
            return p.walk(self.stmts)
        finally:
            p.result = saved_result
            p.trace = saved_trace


# ------------------------------------------------------------------------------- tables

def constructor_lists(hpp):
    req = re.findall(r'ALPAQA_TE_REQUIRED_METHOD\s*\(\s*vtable\s*,\s*P\s*,\s*(' + IDENT + r')\s*\)', hpp)
    opt = re.findall(r'ALPAQA_TE_OPTIONAL_METHOD\s*\(\s*vtable\s*,\s*P\s*,\s*(' + IDENT + r')\s*,\s*p\s*\)', hpp)
    if not req or not opt:
        raise TranslationError('constructor REQUIRED/OPTIONAL lists not found')
    return req, opt


def provides_table(hpp):
    out = []
    for m in re.finditer(r'bool\s+provides_(' + IDENT + r')\s*\(\s*\)\s*const\s*\{\s*return\s+vtable\.(' + IDENT +
                         r')\s*!=\s*vtable\.(' + IDENT + r')\s*;\s*\}', hpp):
        out.append((m.group(1), m.group(2), m.group(3)))
    if not out:
        raise TranslationError('provides_* bodies not found')
    return out


def supports_defs(hpp):
    """`supports_X() const { return provides_X() || (vtable.m == 0 && provides_Y()); }` → Lean."""
    defs, names = [], []
    for m in re.finditer(r'bool\s+supports_(' + IDENT + r')\s*\(\s*\)\s*const\s*\{(.*?)\}', hpp, re.S):
        name, body = m.group(1), m.group(2)
        ss = cp.parse_statements(body)
        if len(ss) != 1 or ss[0][0] != 'return':
            raise TranslationError(f'supports_{name}: body is not a single return')

        def resolve(d):
            if d == 'vtable.m':
                return ('vt.m', 'N')
            return None
        em = Emitter(resolve)

        def pre(a):
            if isinstance(a, tuple) and a[0] == 'call' and a[1][0] == 'id' and \
                    a[1][1].startswith('provides_') and not a[2]:
                return ('id', '__p_' + a[1][1][len('provides_'):])
            if not isinstance(a, tuple) or a[0] in ('num', 'id'):
                return a
            return tuple(pre(x) if isinstance(x, tuple) else
                         ([pre(y) for y in x] if isinstance(x, list) else x) for x in a)
        em.resolve = lambda d: (('vt.p_' + mangle(d[4:]), 'B') if d.startswith('__p_') else resolve(d))
        e, _ = em.expr(pre(ss[0][1]), 'B')
        defs.append(f'/-- `TypeErasedProblem::supports_{name}`. -/\n'
                    f'def supports_{mangle(name)} (vt : Alpaqa.C04.VTable α) : Bool :=\n  {e}\n')
        names.append(name)
    if not defs:
        raise TranslationError('supports_* bodies not found')
    return defs, names


def macro_facts(rm):
    """Structural facts about ALPAQA_TE_REQUIRED_METHOD / ALPAQA_TE_OPTIONAL_METHOD."""
    txt = rm.replace('\\\n', ' ')
    txt = re.sub(r'\s+', ' ', txt)
    mr = re.search(r'#define ALPAQA_TE_REQUIRED_METHOD\(vtable, type, member\)(.*?)(?=#define|$)', txt)
    mo = re.search(r'#define ALPAQA_TE_OPTIONAL_METHOD\(vtable, type, member, instance\)(.*?)(?=#define|$)', txt)
    if not mr or not mo:
        raise TranslationError('required-method.hpp: macros not found')
    r, o = mr.group(1), mo.group(1)
    nos = lambda s: re.sub(r'\s+', '', s)
    r_, o_ = nos(r), nos(o)
    facts = {
        'required_assigns_member':
            '(vtable).member=util::type_erased_wrapped<type,&type::member>();' in r_,
        'required_static_asserts_presence': 'static_assert(requires{&type::member;}' in r_,
        'optional_guarded_by_member_presence': o_.startswith('do{ifconstexpr(requires{&type::member;}){'),
        'optional_assigns_same_member':
            '(vtable).member=util::type_erased_wrapped<type,&type::member,constvtable_t&>();' in o_,
        'optional_honours_provides':
            'ifconstexpr(requires{&type::provides_##member;}){if(std::invoke(&type::provides_##member,instance))assign_vtable();}else{assign_vtable();}' in o_,
        'optional_single_assignment': o_.count('(vtable).member=') == 1 and o_.count('assign_vtable();') == 2,
    }
    return facts, cp.ast_hash((r_, o_))


def kernel(src, anchor, name, params, pre=None, scalar_fns=None, outputs=None):
    _, body = cp.find_region(src, anchor)
    if pre:
        body = pre(body)
    ss = cp.parse_statements(body)
    env = {n: (mangle(n.replace('.', '_')), 'S') for n in params}
    em = Emitter(lambda d: env.get(d), componentwise=True, scalar_fns=scalar_fns or {})
    txt = em.function(name, [(n, env[n][0], 'S') for n in params], ss, None if outputs else 'S',
                      outputs=outputs, out_types={o: 'S' for o in (outputs or [])},
                      doc=f'componentwise: {anchor}')
    return txt, cp.ast_hash(ss)


# ------------------------------------------------------------------------------- ABI tables

def norm_arg(a):
    a = re.sub(r'\s+', '', a)
    m = re.match(r'^(.+)\.size\(\)==0\?nullptr:(.+)$', a)
    if m:
        a = m.group(2)
    a = a.replace('this->', '')
    if a == 'instance.get()':
        return 'instance'
    if a.endswith('.data()'):
        a = a[:-len('.data()')]
    if a.startswith('&'):
        a = a[1:]
    return {'D.lowerbound': 'zl', 'D.upperbound': 'zu'}.get(a, a)


def dl_tables(cpp, hdr, slots):
    fwd = []
    for m in re.finditer(r'auto\s+DLProblem::(' + IDENT + r')\s*\(([^)]*)\)\s*const\s*->\s*[\w:]+\s*\{', cpp):
        meth, params = m.group(1), m.group(2)
        ob = m.end() - 1
        body = cpp[ob + 1:cp.match_brace(cpp, ob)]
        pnames = [parse_param(p)[1] for p in split_top(params)] if params.strip() else []
        for c in re.finditer(r'return\s+functions->(' + IDENT + r')\s*\(', body):
            o2 = c.end() - 1
            args = body[o2 + 1:cp.match_brace(body, o2, '(', ')')]
            fwd.append((meth, c.group(1), pnames, [norm_arg(a) for a in split_top(args)]))
    if len(fwd) < 20:
        raise TranslationError(f'dl-problem.cpp: only {len(fwd)} forwarding lines found')
    _, body = cp.find_region(hdr, r'ALPAQA_BEGIN_STRUCT\s*\(\s*alpaqa_problem_functions_t\s*\)')
    tdef = {}
    for m in re.finditer(r'\(\s*\*\s*(' + IDENT + r')\s*\)\s*\(([^)]*)\)', body, re.S):
        tdef[m.group(1)] = [parse_param(p)[1] for p in split_top(m.group(2))]
    return fwd, tdef


def casadi_tables(tpp, gen_py):
    """call sites `(*impl->F)({ins}, {outs})` / `impl->F({ins},{outs})`, the loader's names and
    dims, and the generator's documented argument names."""
    tpp = re.sub(r'#if\s+0\b.*?#else(.*?)#endif', r'\1', tpp, flags=re.S)
    sites = []
    for m in re.finditer(r'(?:\(\s*\*\s*impl->(' + IDENT + r')\s*\)|impl->(' + IDENT + r'))\s*\(\s*\{(.*?)\}\s*,\s*\{(.*?)\}\s*\)',
                         tpp, re.S):
        fn = m.group(1) or m.group(2)
        ins = [norm_arg(a) for a in split_top(m.group(3))]
        outs = [norm_arg(a) for a in split_top(m.group(4))]
        sites.append((fn, ins, outs))
    if len(sites) < 8:
        raise TranslationError(f'CasADiProblem.tpp: only {len(sites)} call sites found')
    loadname = {}
    for m in re.finditer(r'\.(' + IDENT + r')\s*=\s*(?:try_load|wrapped_load)\s*<[^;]*?>\s*\(\s*loader\s*,\s*"(\w+)"\s*,\s*dims\(',
                         tpp, re.S):
        o1 = m.end() - 1
        c1 = cp.match_brace(tpp, o1, '(', ')')
        mm = re.match(r'\s*,\s*dims\(', tpp[c1 + 1:])
        if not mm:
            raise TranslationError(f'CasADi loader: output dims of {m.group(2)} not found')
        o2 = c1 + 1 + mm.end() - 1
        c2 = cp.match_brace(tpp, o2, '(', ')')
        nosp = lambda t: re.sub(r'\s+', '', t)
        loadname[m.group(1)] = (m.group(2), [nosp(d) for d in split_top(tpp[o1 + 1:c1])],
                                [nosp(d) for d in split_top(tpp[o2 + 1:c2])])
    if len(loadname) < 8:
        raise TranslationError(f'CasADi loader: only {len(loadname)} functions found')
    loadname.setdefault('g', ('g', ['n', 'p'], ['m']))
    doc = {}
    mm = re.search(r'^def _prepare_casadi_problem\(.*?(?=^def )', gen_py, re.S | re.M)
    if not mm:
        raise TranslationError('casadi generator: _prepare_casadi_problem not found')
    gen_py = mm.group(0)
    for m in re.finditer(r'cs\.Function\(', gen_py):
        ob = m.end() - 1
        args = split_top(gen_py[ob + 1:cp.match_brace(gen_py, ob, '(', ')')], angles=False)
        if len(args) < 5:
            continue
        mm = re.match(r'^"(\w+)"$', args[0])
        if not mm:
            continue          # helper wrappers built from an existing function's own name
        nm = mm.group(1)

        def names(t):
            t = t.strip()
            if not t.startswith('['):
                raise TranslationError(f'casadi generator: name list of {nm}: {t!r}')
            inner = t[1:cp.match_brace(t, 0, '[', ']')]
            out = []
            for p in split_top(inner, angles=False):
                if p == '*xp_names':
                    out += ['x', 'p']
                else:
                    q = re.match(r'^"(.*)"$', p)
                    if not q:
                        raise TranslationError(f'casadi generator: cannot read name {p!r} of {nm}')
                    out.append(nfc(q.group(1)))
            return out
        if nm not in doc:
            doc[nm] = (names(args[3]), names(args[4]))
    for need in ('f', 'f_grad_f', 'g', 'psi', 'psi_grad_psi', 'grad_L', 'hess_L', 'hess_L_prod',
                 'hess_psi', 'hess_psi_prod', 'jacobian_g'):
        if need not in doc:
            raise TranslationError(f'casadi generator: documented argument names of {need} not found')
    return sites, loadname, doc


# ------------------------------------------------------------------------------- main

def main(out_path):
    regions = {}
    hpp = read(INC + 'problem/type-erased-problem.hpp')
    tpp = read(INC + 'implementation/problem/type-erased-problem.tpp')
    rm = nfc(open(INC + 'util/required-method.hpp', encoding='utf8').read())
    boxh = read(INC + 'problem/box.hpp')
    bcp = read(INC + 'problem/box-constr-problem.hpp')

    slot_list, vt_body = vtable_slots(hpp)
    throwing = {}
    all_defaults = sorted(set(re.findall(r'ProblemVTable<Conf>::(default_' + IDENT + r')\s*\(', tpp)))
    for d in all_defaults:
        _, _, body = tpp_function(tpp, d)
        throwing[d] = re.search(r'\bthrow\b', body) is not None
    pure_throw = [d for d in all_defaults
                  if re.fullmatch(r'\s*throw\s+not_implemented_error\s*\([^;]*\)\s*;\s*', tpp_function(tpp, d)[2])]
    slots = {}
    for kind, name, ret, params, default in slot_list:
        slots[name] = Slot(kind, name, ret, params, default, bool(default and throwing.get(default)))
    for s in REQUIRED_MODELLED:
        if s not in slots or slots[s].kind != 'required':
            raise TranslationError(f'{s} is not a required vtable slot any more')
    for s in OPTIONAL_MODELLED:
        if s not in slots or slots[s].kind != 'optional':
            raise TranslationError(f'{s} is not an optional vtable slot any more')
    modelled_defaults = [slots[s].default for s in OPTIONAL_MODELLED]
    for d in all_defaults:
        if d.startswith('default_eval_') and d not in modelled_defaults and d not in OUTSIDE_C04:
            raise TranslationError(f'new default {d} in type-erased-problem.tpp is not translated')

    # calc_ŷ_dᵀŷ first (the defaults call it)
    ret, params, body = tpp_function(tpp, 'calc_ŷ_dᵀŷ')
    cparams = [(t, n) for t, n in params if n not in ('self', 'vtable')]
    slots['__calc__'] = Slot('calc', 'calc_ŷ_dᵀŷ', ret, cparams, None, False)
    inout_slots = set()
    defs = []

    def emit(fname, lean_name, slot, ret, params, body):
        opt = 'throw' in repr(cp.parse_statements(re.sub(r'\(\s*void\s*\)\s*', '', body)))
        tymap = {'S': 'α', 'V': 'Vec α', 'N': 'Nat', 'B': 'Bool'}
        out = []
        for trace in (False, True):
            ft = FnTranslator(fname, ret, params, body, slots, trace, opt, inout_slots)
            term = ft.function_text()
            if not trace:
                value_params = ft.final_params
                used_inout = [cn for _, _, cn, io in value_params if io]
                if slot is not None and used_inout:
                    inout_slots.add(slot)
                rts = (['α'] if ret != 'void' else []) + ['Vec α'] * len(ft.outs)
                rt = ' × '.join(rts)
                if opt:
                    rt = f'Option ({rt})'
                regions[lean_name] = {'hash': ft.hash, 'option': opt, 'inout': used_inout}
            ps = ' '.join(f'({ln} : {tymap[ty]})' for ln, ty, _, _ in value_params)
            if trace:
                out.append(f'/-- call trace of `{fname}` (problem member functions reached, in order). -/\n'
                           f'def {lean_name}T (tv : Alpaqa.C04.TraceVT α) (vt : Alpaqa.C04.VTable α) {ps} : List String :=\n'
                           f'  let tr : List String := []\n{_indent(term)}\n')
            else:
                out.append(f'/-- `ProblemVTable<Conf>::{fname}` (type-erased-problem.tpp). -/\n'
                           f'def {lean_name} (vt : Alpaqa.C04.VTable α) {ps} : {rt} :=\n{_indent(term)}\n')
        return out

    defs += emit('calc_ŷ_dᵀŷ', 'calc_yhat_dTyhat', None, ret, params, body)
    # order: a default may only call lower slots through the vtable; emission order is irrelevant
    for sname in OPTIONAL_MODELLED:
        d = slots[sname].default
        if d != 'default_' + sname:
            raise TranslationError(f'slot {sname} is initialised with {d}')
        r, ps, b = tpp_function(tpp, d)
        # the default's parameter list must be the slot's signature (names may be omitted)
        sig = [(base_type(t)) for t, _ in slots[sname].params]
        got = [base_type(t) for t, n in ps if n not in ('self', 'vtable') and
               base_type(t) not in ('void *', 'ProblemVTable')]
        if got != sig or r != slots[sname].ret:
            raise TranslationError(f'{d}: parameter list {got} differs from slot signature {sig}')
        # unnamed parameters take the slot's names (they are unused by the body)
        k = 0
        ps2 = []
        for t, n in ps:
            if base_type(t) in ('void *', 'ProblemVTable'):
                ps2.append((t, n or ('self' if base_type(t) == 'void *' else 'vtable')))
                continue
            ps2.append((t, n or slots[sname].params[k][1]))
            k += 1
        defs += emit(d, mangle(d), sname, r, ps2, b)

    # ---- slot tables ---------------------------------------------------------------------------
    req_c, opt_c = constructor_lists(hpp)
    prov = provides_table(hpp)
    sup_defs, sup_names = supports_defs(hpp)
    facts, mhash = macro_facts(rm)
    regions['macros'] = {'hash': mhash, 'facts': facts}

    def sigstr(s):
        return llist(lstr(n or '_') for _, n in s.params)
    tables = []
    tables.append('/-- required slots of `ProblemVTable` in declaration order, with parameter names. -/\n'
                  'def requiredSlots : List (String × List String) := ' +
                  llist(f'({lstr(s.name)}, {sigstr(s)})' for s in slots.values() if s.kind == 'required') + '\n')
    tables.append('/-- optional slots: (name, default installed by the member initialiser, parameter names). -/\n'
                  'def optionalSlots : List (String × String × List String) := ' +
                  llist(f'({lstr(s.name)}, {lstr(s.default or "")}, {sigstr(s)})'
                        for s in slots.values() if s.kind == 'optional') + '\n')
    tables.append('/-- `ALPAQA_TE_REQUIRED_METHOD` lines of the constructor, in order. -/\n'
                  'def ctorRequired : List String := ' + llist(map(lstr, req_c)) + '\n')
    tables.append('/-- `ALPAQA_TE_OPTIONAL_METHOD` lines of the constructor, in order. -/\n'
                  'def ctorOptional : List String := ' + llist(map(lstr, opt_c)) + '\n')
    tables.append('/-- `provides_X() { return vtable.A != vtable.B; }` as (X, A, B). -/\n'
                  'def providesTable : List (String × String × String) := ' +
                  llist(f'({lstr(a)}, {lstr(b)}, {lstr(c)})' for a, b, c in prov) + '\n')
    tables.append('/-- defaults whose whole body is `throw not_implemented_error(…)`. -/\n'
                  'def pureThrowDefaults : List String := ' + llist(map(lstr, pure_throw)) + '\n')
    tables.append('/-- defaults that can throw (→ `Option` in the model). -/\n'
                  'def throwingDefaults : List String := ' +
                  llist(lstr(d) for d in all_defaults if throwing[d]) + '\n')
    tables.append('/-- slots modelled by `C04.VTable` (required, optional). -/\n'
                  'def modelledRequired : List String := ' + llist(map(lstr, REQUIRED_MODELLED)) + '\n'
                  'def modelledOptional : List String := ' + llist(map(lstr, OPTIONAL_MODELLED)) + '\n')
    tables.append('/-- structure of the two macros in util/required-method.hpp. -/\n'
                  'def macroFacts : List (String × Bool) := ' +
                  llist(f'({lstr(k)}, {"true" if v else "false"})' for k, v in facts.items()) + '\n')

    # ---- box kernels ---------------------------------------------------------------------------
    ktxt = []
    t, h = kernel(boxh, r'inline\s+auto\s+project\s*\(', 'projectBox', ['v', 'box.lowerbound', 'box.upperbound'])
    ktxt.append(t); regions['projectBox'] = {'hash': h}
    t, h = kernel(boxh, r'projecting_difference\s*\(', 'projectingDifference',
                  ['v', 'box.lowerbound', 'box.upperbound'],
                  pre=lambda b: re.sub(r'project\s*\(\s*v\s*,\s*box\s*\)', 'project3(v, box.lowerbound, box.upperbound)', b),
                  scalar_fns={'project3': ('projectBox', ['S', 'S', 'S'], 'S')})
    ktxt.append(t); regions['projectingDifference'] = {'hash': h}
    t, h = kernel(bcp, r'void\s+eval_proj_diff_g\s*\(\s*crvec\s+z\s*,\s*rvec\s+p\s*\)', 'boxEvalProjDiffG',
                  ['z', 'D.lowerbound', 'D.upperbound'],
                  pre=lambda b: re.sub(r'projecting_difference\s*\(\s*z\s*,\s*D\s*\)',
                                       'projecting_difference3(z, D.lowerbound, D.upperbound)', b),
                  scalar_fns={'projecting_difference3': ('projectingDifference', ['S', 'S', 'S'], 'S')},
                  outputs=['p'])
    ktxt.append(t); regions['boxEvalProjDiffG'] = {'hash': h}

    # ---- ABI tables ----------------------------------------------------------------------------
    dlcpp = read(REPO + '/src/interop/dl/src/dl-problem.cpp')
    dlh = read(REPO + '/src/interop/dl-api/include/alpaqa/dl/dl-problem.h')
    fwd, tdef = dl_tables(dlcpp, dlh, slots)
    cas = read(REPO + '/src/interop/casadi/include/alpaqa/implementation/casadi/CasADiProblem.tpp')
    genpy = nfc(open(REPO + '/python/alpaqa/casadi_generator/__init__.py', encoding='utf8').read())
    sites, loadname, doc = casadi_tables(cas, genpy)
    abi = []
    abi.append('/-- dl-problem.cpp forwarding lines: (DLProblem method, C function, method parameter names, '
               'normalised argument list passed to the C function). -/\n'
               'def dlForward : List (String × String × List String × List String) := ' +
               llist(f'({lstr(a)}, {lstr(b)}, {llist(map(lstr, c))}, {llist(map(lstr, d))})'
                     for a, b, c, d in fwd) + '\n')
    abi.append('/-- dl-problem.h `alpaqa_problem_functions_t`: (member, parameter names of the typedef). -/\n'
               'def dlTypedef : List (String × List String) := ' +
               llist(f'({lstr(k)}, {llist(lstr(x or "_") for x in v)})' for k, v in tdef.items()) + '\n')
    abi.append('/-- vtable slot → parameter names (type-erased-problem.hpp), all slots. -/\n'
               'def teSignature : List (String × List String) := ' +
               llist(f'({lstr(s.name)}, {sigstr(s)})' for s in slots.values() if s.kind != 'calc') + '\n')
    abi.append('/-- CasADiProblem.tpp call sites: (impl member, inputs, outputs), normalised. -/\n'
               'def casadiSites : List (String × List String × List String) := ' +
               llist(f'({lstr(a)}, {llist(map(lstr, b))}, {llist(map(lstr, c))})' for a, b, c in sites) + '\n')
    abi.append('/-- loader: impl member → (CasADi function name, input dims, output dims). -/\n'
               'def casadiLoad : List (String × String × List String × List String) := ' +
               llist(f'({lstr(k)}, {lstr(v[0])}, {llist(map(lstr, v[1]))}, {llist(map(lstr, v[2]))})'
                     for k, v in loadname.items()) + '\n')
    abi.append('/-- documented order (python/alpaqa/casadi_generator): function → (input names, output names). -/\n'
               'def casadiDoc : List (String × List String × List String) := ' +
               llist(f'({lstr(k)}, {llist(map(lstr, v[0]))}, {llist(map(lstr, v[1]))})' for k, v in doc.items()) + '\n')
    regions['abi'] = {'dl_forward': len(fwd), 'dl_typedef': len(tdef), 'casadi_sites': len(sites),
                      'casadi_doc': len(doc), 'hash': cp.ast_hash((fwd, sorted(tdef.items()), sites,
                                                                   sorted(doc.items())))}
    regions['tables'] = {'required': len(req_c), 'optional': len(opt_c), 'provides': len(prov),
                         'hash': cp.ast_hash((req_c, opt_c, prov, [(s.name, s.default) for s in slots.values()]))}

    hdr = ('/- GENERATED by /verif/gen/gen_c04.py — do not edit. C04: calc_ŷ_dᵀŷ, default_eval_*, '
           'vtable tables, box kernels, ABI argument orders. -/\n'
           'import Alpaqa.Model.Vec\nimport Alpaqa.Model.C04Base\n\n'
           'set_option linter.unusedVariables false\n\n'
           'namespace Alpaqa.Gen.C04\nopen Alpaqa\n\n')
    text = (hdr + '\n'.join(tables) + '\n' + '\n'.join(abi) + '\nsection\n'
            f'variable {{α : Type}} {STD_CLASSES} [OfNat α 0] [OfNat α 1]\n\n'
            + '\n'.join(ktxt) + '\n' + '\n'.join(defs) + '\n' + '\n'.join(sup_defs)
            + '\nend\nend Alpaqa.Gen.C04\n')
    old = open(out_path).read() if os.path.exists(out_path) else None
    if old != text:
        with open(out_path, 'w') as f:
            f.write(text)
    return regions


if __name__ == '__main__':
    out = sys.argv[1] if len(sys.argv) > 1 else os.path.join(
        os.path.dirname(os.path.abspath(__file__)), '..', 'lean', 'Alpaqa', 'Gen', 'C04.lean')
    try:
        r = main(out)
        print(json.dumps({'ok': True, 'regions': r}))
    except TranslationError as e:
        print(json.dumps({'ok': False, 'error': str(e)}))
        sys.exit(2)
