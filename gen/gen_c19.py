#!/usr/bin/env python3
"""C19 translator: how the stop flag is declared and accessed (atomic-stop-signal.hpp) and how the
inner solvers use their `stop_signal` member — re-extracted from /repo on every run and emitted as
Lean tables (lean/Alpaqa/Gen/C19.lean).  `Props/C19_Panoc.lean` decides over these tables that the
flag is a `std::atomic<bool>`, initialised `false`, accessed only through `store(true)` / `load`
(never stored `false`), and that PANOC polls it in the condition of the initial step-size loop
(`while (!stop_requested() && L < L_max && qub_violated(…))`), at the loop head (through
`check_all_stop_conditions`), in the condition of the line-search loop and right after that loop
(`if (stop_requested()) continue;`); and, for every solver scanned, that each `while` loop whose
condition calls `qub_violated` (the step-size backtracking loops) polls the flag first."""
import json
import os
import re
import sys
sys.path.insert(0, os.path.dirname(os.path.abspath(__file__)))
import cxxparse as cp

REPO = os.environ.get('VERIF_REPO', '/repo')
INC = REPO + '/src/alpaqa/include/alpaqa/'

SOLVER_FILES = ['inner/panoc.hpp', 'implementation/inner/panoc.tpp',
                'implementation/inner/panoc-helpers.tpp',
                'inner/zerofpr.hpp', 'implementation/inner/zerofpr.tpp',
                'inner/pantr.hpp', 'implementation/inner/pantr.tpp',
                'inner/fista.hpp', 'implementation/inner/fista.tpp',
                'inner/panoc-ocp.hpp', 'implementation/inner/panoc-ocp.tpp']


def read(rel):
    return cp.strip_comments(open(INC + rel, encoding='utf8').read())


def enclosing_function(body, pos):
    """Name of the member function whose braces enclose `pos` (None at class level)."""
    best = None
    for m in re.finditer(r'([A-Za-z_~]\w*)\s*\(([^()]*)\)\s*(?:const\s*)?(?:noexcept\s*)?'
                         r'(?::\s*[^{};]*)?\{', body):
        ob = m.end() - 1
        cb = cp.match_brace(body, ob)
        if ob < pos < cb:
            best = m.group(1)
    return best


def flag_accesses(src):
    m = re.search(r'class\s+AtomicStopSignal\s*\{', src)
    if not m:
        raise cp.TranslationError('class AtomicStopSignal not found')
    ob = src.index('{', m.start())
    body = src[ob + 1:cp.match_brace(src, ob)]
    out = []
    for mm in re.finditer(r'(?<![\w])stop_flag(?![\w])', body):
        before = body[:mm.start()]
        after = body[mm.end():]
        fn = enclosing_function(body, mm.start())
        d = re.search(r'(std::atomic\s*<\s*(\w+)\s*>|[\w:<>]+)\s*(?:mutable\s+)?$', before)
        a = after.lstrip()
        if fn is None and d and re.match(r'\{\s*(true|false)\s*\}\s*;|=\s*(true|false)\s*;|\s*;', a):
            ty = re.sub(r'\s+', '', d.group(1))
            init = re.match(r'\{\s*(true|false)\s*\}|=\s*(true|false)', a)
            iv = (init.group(1) or init.group(2)) if init else 'uninit'
            out.append(('<class>', f'.decl {"true" if ty == "std::atomic<bool>" else "false"} '
                                   f'{"false" if iv == "false" else "true"}'))
            continue
        st = re.match(r'\.\s*store\s*\(\s*([^,()]+?)\s*[,)]', a)
        if st:
            v = st.group(1)
            out.append((fn or '<class>', f'.store {"(some true)" if v == "true" else "(some false)" if v == "false" else "none"}'))
            continue
        if re.match(r'\.\s*load\s*\(', a):
            out.append((fn or '<class>', '.load'))
            continue
        out.append((fn or '<class>', '.other'))
    return out


# what follows `while (!stop_signal.stop_requested()` in a step-size backtracking loop
QUB_REST = (r'&&\s*\w+\s*(?:->|\.)\s*L\s*<\s*params\s*\.\s*L_max\s*&&\s*'
            r'qub_violated\s*\(\s*\*?\s*\w+\s*\)\s*\)\s*\{')


def stepsize_loops(rel, src):
    """Every `while (…)` whose condition calls `qub_violated`: (file, does the condition start with
    `!stop_signal.stop_requested() &&`, is the rest `L < params.L_max && qub_violated(…)`)."""
    out = []
    name = os.path.basename(rel)
    for mm in re.finditer(r'(?<![\w])while\s*\(', src):
        op = mm.end() - 1
        depth, i = 0, op
        while i < len(src):
            if src[i] == '(':
                depth += 1
            elif src[i] == ')':
                depth -= 1
                if depth == 0:
                    break
            i += 1
        cond = src[op + 1:i]
        if not re.search(r'(?<![\w])qub_violated\s*\(', cond):
            continue
        m = re.match(r'\s*!\s*stop_signal\s*\.\s*stop_requested\s*\(\s*\)\s*', cond)
        polls = bool(m)
        rest = cond[m.end():] if m else '&& ' + cond.lstrip()
        shape = bool(re.fullmatch(r'&&\s*\w+\s*(?:->|\.)\s*L\s*<\s*params\s*\.\s*L_max\s*&&\s*'
                                  r'qub_violated\s*\(\s*\*?\s*\w+\s*\)\s*', rest))
        out.append((name, polls, shape))
    return out


def signal_uses(rel, src):
    out = []
    name = os.path.basename(rel)
    for mm in re.finditer(r'(?<![\w.])stop_signal(?![\w])', src):
        before = src[:mm.start()].rstrip()
        after = src[mm.end():].lstrip()
        if re.search(r'(?<![\w&])AtomicStopSignal$', before) and after.startswith(';'):
            kind = '.member'
        elif re.search(r'const\s+AtomicStopSignal\s*&$', before):
            kind = '.paramConstRef'
        elif re.match(r'\.\s*stop\s*\(\s*\)', after):
            kind = '.callStop'
        elif re.match(r'\.\s*stop_requested\s*\(\s*\)', after):
            rest = after[re.match(r'\.\s*stop_requested\s*\(\s*\)', after).end():].lstrip()
            if re.search(r'while\s*\(\s*!$', before) and rest.startswith(')'):
                kind = '.whileNotPoll'
            elif re.search(r'while\s*\(\s*!$', before) and re.match(QUB_REST, rest):
                kind = '.whileNotPollQub'
            elif re.search(r'if\s*\($', before) and re.match(r'\)\s*continue\s*;', rest):
                kind = '.ifPollContinue'
            else:
                kind = '.poll'
        elif (before.endswith(',') or before.endswith('(')) and (after.startswith(',') or after.startswith(')')):
            # argument of a call: which function?
            depth, i = 0, mm.start() - 1
            while i >= 0:
                c = src[i]
                if c == ')':
                    depth += 1
                elif c == '(':
                    if depth == 0:
                        break
                    depth -= 1
                i -= 1
            callee = re.search(r'([A-Za-z_][\w:]*)\s*$', src[:i])
            kind = '.passToChain' if callee and callee.group(1).endswith('check_all_stop_conditions') \
                else '.other'
        else:
            kind = '.other'
        out.append((name, kind))
    return out


def main(out_path):
    regions = {}
    src = read('util/atomic-stop-signal.hpp')
    acc = flag_accesses(src)
    if not acc:
        raise cp.TranslationError('no occurrence of stop_flag in AtomicStopSignal')
    regions['stopFlagAccesses'] = acc
    uses, loops = [], []
    for rel in SOLVER_FILES:
        uses += signal_uses(rel, read(rel))
        loops += stepsize_loops(rel, read(rel))
    regions['signalUses'] = uses
    regions['stepsizeLoops'] = loops
    b = lambda v: 'true' if v else 'false'
    q = lambda s: '"' + s.replace('"', '\\"') + '"'
    text = ('/- GENERATED by /verif/gen — do not edit. C19: declaration and accesses of the stop flag, uses of\n'
            '   the solvers\' `stop_signal` member. -/\n\n'
            'namespace Alpaqa.Gen.C19\n\n'
            '/-- One textual occurrence of `stop_flag` inside `class AtomicStopSignal`. -/\n'
            'inductive FlagAccess where\n'
            '  /-- member declaration: is the type `std::atomic<bool>`? initial value -/\n'
            '  | decl (atomicBool : Bool) (init : Bool)\n'
            '  /-- `stop_flag.store(v, …)`; `none` = the stored value is not a literal -/\n'
            '  | store (v : Option Bool)\n'
            '  /-- `stop_flag.load(…)` -/\n'
            '  | load\n'
            '  /-- anything else (assignment, exchange, address-of, …) -/\n'
            '  | other\n'
            '  deriving DecidableEq, Repr\n\n'
            '/-- One textual occurrence of a solver\'s `stop_signal`. -/\n'
            'inductive SignalUse where\n'
            '  | member          -- `AtomicStopSignal stop_signal;`\n'
            '  | paramConstRef   -- `const AtomicStopSignal &stop_signal` (parameter)\n'
            '  | callStop        -- `stop_signal.stop()`\n'
            '  | poll            -- `stop_signal.stop_requested()` in another context\n'
            '  | whileNotPoll    -- `while (!stop_signal.stop_requested())`\n'
            '  | whileNotPollQub -- `while (!stop_signal.stop_requested() && i.L < params.L_max && qub_violated(i))`\n'
            '  | ifPollContinue  -- `if (stop_signal.stop_requested()) continue;`\n'
            '  | passToChain     -- argument of `check_all_stop_conditions(…)`\n'
            '  | other\n'
            '  deriving DecidableEq, Repr\n\n'
            '/-- (enclosing member function, access) for every occurrence of `stop_flag`, in source order. -/\n'
            'def stopFlagAccesses : List (String × FlagAccess) :=\n  [' +
            ',\n   '.join(f'({q(f)}, {a})' for f, a in acc) + ']\n\n'
            '/-- (file, use) for every occurrence of `stop_signal` in the inner solvers, in source order. -/\n'
            'def signalUses : List (String × SignalUse) :=\n  [' +
            ',\n   '.join(f'({q(f)}, {a})' for f, a in uses) + ']\n\n'
            '/-- (file, condition starts with `!stop_signal.stop_requested() &&`, rest of the condition is\n'
            '    `L < params.L_max && qub_violated(…)`) for every `while` loop of the inner solvers whose\n'
            '    condition calls `qub_violated` (the step-size backtracking loops), in source order. -/\n'
            'def stepsizeLoops : List (String × Bool × Bool) :=\n  [' +
            ',\n   '.join(f'({q(f)}, {b(p)}, {b(sh)})' for f, p, sh in loops) + ']\n\n'
            'end Alpaqa.Gen.C19\n')
    old = open(out_path).read() if os.path.exists(out_path) else None
    if old != text:
        with open(out_path, 'w') as f:
            f.write(text)
    return regions


if __name__ == '__main__':
    out = sys.argv[1] if len(sys.argv) > 1 else os.path.join(
        os.path.dirname(os.path.abspath(__file__)), '..', 'lean', 'Alpaqa', 'Gen', 'C19.lean')
    try:
        r = main(out)
        print(json.dumps({'ok': True, 'regions': r}))
    except cp.TranslationError as e:
        print(json.dumps({'ok': False, 'error': str(e)}))
        sys.exit(2)
