#!/usr/bin/env python3
"""C09 translator: the scalar decision kernel and the ring index arithmetic of alpaqa::LBFGS,
regenerated from /repo on every run.

Regions (all located by anchor + brace matching):
  lbfgs.tpp  LBFGS<Conf>::update_valid           -> lbfgsUpdateValid   (scalar decision chain)
  lbfgs.hpp  CBFGSParams::operator bool          -> cbfgsEnabled
  lbfgs.hpp  LBFGS::succ / pred / current_history-> lbfgsSucc / lbfgsPred / lbfgsCurrentHistory (Nat)
  lbfgs.hpp  LBFGS::foreach_fwd / foreach_rev    -> lbfgsForeachFwd / lbfgsForeachRev: the list of
             indices `fun` is called with, each C `for` mapped onto `C09.forIdx` with the loop's own
             init / condition (incl. `i-- > …` side effects) / step expressions.
  lbfgs.tpp  LBFGS<Conf>::apply_masked_impl: the "initial scaling still to be computed" marker
             `bool need_γ = γ < 0;`              -> lbfgsMaskedNeedGamma
             first loop, `if (need_γ) { yᵀy = …; γ = 1 / (ρJ * yᵀy); need_γ = false; }`
                                                 -> lbfgsMaskedSetGamma (the test), lbfgsMaskedGammaOfPair
                                                    (the value); the block's shape is pinned
             `if (need_γ) return false;` between the loops -> lbfgsMaskedFail
"""
import json
import os
import re
import sys
import unicodedata
sys.path.insert(0, os.path.dirname(os.path.abspath(__file__)))
import cxxparse as cp
from cxxparse import TranslationError
from lean_emit import Emitter, file_header, FILE_FOOTER, dotted, _indent

REPO = os.environ.get('VERIF_REPO', '/repo')
INC = REPO + '/src/alpaqa/include/alpaqa/'
HPP = 'accelerators/lbfgs.hpp'
TPP = 'implementation/accelerators/lbfgs.tpp'


def alt_tokens(body):
    """C++ alternative operator spellings -> symbols (the tokenizer reads them as identifiers)."""
    body = re.sub(r'\bnot\b', '!', body)
    body = re.sub(r'\band\b', '&&', body)
    body = re.sub(r'\bor\b', '||', body)
    return body


class NatEmitter(Emitter):
    """Index arithmetic: integer literals are `Nat`, nothing is coerced to the scalar."""

    def lit(self, text, want):
        t = text.rstrip('uUlLfF').replace("'", '')
        if not all(ch.isdigit() for ch in t):
            raise TranslationError(f'non-integer literal {text} in index arithmetic')
        return t, 'N'

    def coerce(self, e, t, want):
        if want is None or t == want:
            return e, t
        raise TranslationError(f'index arithmetic: have {t}, want {want} in {e}')


HIST = {'history': ('history', [], 'N')}


def nat_env(*names, bools=()):
    env = {n: (cp.mangle(n), 'N') for n in names}
    env.update({b: (cp.mangle(b), 'B') for b in bools})
    return env


def truthy(em, cond):
    """C++ contextual conversion to bool of an index (`if (idx)`) or a bool."""
    e, t = em.expr(cond)
    if t == 'B':
        return e
    if t == 'N':
        return f'({e} != 0)'
    raise TranslationError(f'condition of type {t}')


def subst_loopvar(ast, var):
    """Replace `var--`/`var++`/`--var`/`++var` inside a loop condition by the value the comparison
    sees; returns (ast', delta) where delta ∈ {-1, 0, +1} is the side effect on var and
    `pre` tells whether the comparison already sees the modified value."""
    effects = []

    def go(a):
        if isinstance(a, tuple):
            if a[0] == 'post' and a[1] in ('--', '++') and a[2] == ('id', var):
                effects.append((a[1], False))
                return ('id', var)
            if a[0] == 'un' and a[1] in ('--', '++') and a[2] == ('id', var):
                effects.append((a[1], True))
                return ('id', '__' + var + '_after')
            return tuple(go(x) if isinstance(x, (tuple, list)) else x for x in a)
        if isinstance(a, list):
            return [go(x) for x in a]
        return a
    out = go(ast)
    if len(effects) > 1:
        raise TranslationError('loop condition modifies the loop variable more than once')
    return out, (effects[0] if effects else None)


def loop_term(em, st):
    """('for', init, cond, step, body) with body `fun(i);` -> Lean term of type List Nat."""
    _, init, cond, step, body = st
    if init[0] != 'decl' or not isinstance(init[2], str) or init[3] is None:
        raise TranslationError('for-init is not a single initialised declaration')
    var = init[2]
    if em.type_of_decl(init[1], None) != 'N':
        raise TranslationError('loop variable is not an index')
    e0, _ = em.expr(init[3], 'N')
    b = body
    if b[0] == 'block' and len(b[1]) == 1:
        b = b[1][0]
    if not (b[0] == 'expr' and b[1][0] == 'call' and dotted(b[1][1]) == 'fun'
            and len(b[1][2]) == 1 and b[1][2][0] == ('id', var)):
        raise TranslationError('loop body is not `fun(i);`')
    if cond is None:
        raise TranslationError('loop without condition')
    saved = dict(em.locals)
    lv = cp.mangle(var)
    em.locals[var] = (lv, 'N')
    cond2, eff = subst_loopvar(cond, var)
    after = lv
    if eff is not None:
        after = f'({lv} - 1)' if eff[0] == '--' else f'({lv} + 1)'
        em.locals['__' + var + '_after'] = (after, 'N')
    c, _ = em.expr(cond2, 'B')
    test = f'(fun {lv} => ({c}, {after}))'
    if step is None:
        stp = f'(fun {lv} => {lv})'
    else:
        if step[0] in ('un', 'post') and step[1] in ('++', '--') and step[2] == ('id', var):
            stp = f'(fun {lv} => ({lv} {"+" if step[1] == "++" else "-"} 1))'
        elif step[0] == 'bin' and step[1] in ('+=', '-=') and step[2] == ('id', var):
            k, _ = em.expr(step[3], 'N')
            stp = f'(fun {lv} => ({lv} {step[1][0]} {k}))'
        else:
            raise TranslationError('unsupported loop step')
    em.locals = saved
    return f'(C09.forIdx {test} {stp} (history + 2) {e0})'


def visit_list(em, ss):
    """Statement list made of `if (c) for …` / `for …` -> concatenation of index lists."""
    parts = []
    for s in ss:
        if s[0] == 'for':
            parts.append(loop_term(em, s))
        elif s[0] == 'if' and s[3] is None:
            inner = s[2][1] if s[2][0] == 'block' else [s[2]]
            parts.append(f'(if {truthy(em, s[1])} then {visit_list(em, inner)} else [])')
        else:
            raise TranslationError(f'unsupported statement {s[0]} in foreach body')
    if not parts:
        return '[]'
    return '(' + ' ++\n    '.join(parts) + ')'


def main(out_path):
    regions = {}
    defs = []
    lits = set()
    hpp = cp.strip_comments(open(INC + HPP, encoding='utf8').read())
    tpp = cp.strip_comments(open(INC + TPP, encoding='utf8').read())

    # ---- CBFGSParams::operator bool
    _, cb = cp.find_region(hpp, r'struct\s+CBFGSParams\s*\{')
    _, body = cp.find_region(cb, r'explicit\s+operator\s+bool\s*\(\s*\)\s*const')
    ss = cp.parse_statements(alt_tokens(body))
    env = {'ϵ': ('eps', 'S'), 'α': ('alpha', 'S')}
    em = Emitter(lambda d: env.get(d))
    defs.append(em.function('cbfgsEnabled', [('α', 'alpha', 'S'), ('ϵ', 'eps', 'S')], ss, 'B',
                            doc=f'{HPP} :: CBFGSParams::operator bool'))
    lits.update(em.nat_lits)
    regions['cbfgsEnabled'] = {'file': HPP, 'hash': cp.ast_hash(ss)}

    # ---- LBFGS::update_valid
    hdr, body = cp.find_region(tpp, r'bool\s+LBFGS<Conf>::update_valid\s*\(')
    # the parameter order of the C++ signature is part of the region (yᵀs, sᵀs, pᵀp)
    sig = re.search(r'update_valid\s*\(([^)]*)\)', hdr, re.S)
    if not sig:
        raise TranslationError('update_valid signature not found')
    pnames = [p.split()[-1].lstrip('&') for p in sig.group(1).split(',')]
    if len(pnames) != 4 or pnames[0] != 'params':
        raise TranslationError(f'update_valid signature changed: {pnames}')
    pnames = [unicodedata.normalize('NFC', p) for p in pnames]
    ss = cp.parse_statements(alt_tokens(body))
    env = {
        'params.min_abs_s': ('params_min_abs_s', 'S'),
        'params.min_div_fac': ('params_min_div_fac', 'S'),
        'params.force_pos_def': ('params_force_pos_def', 'B'),
        'params.cbfgs': ('(cbfgsEnabled params_cbfgs_alpha params_cbfgs_eps)', 'B'),
        'params.cbfgs.α': ('params_cbfgs_alpha', 'S'),
        'params.cbfgs.ϵ': ('params_cbfgs_eps', 'S'),
    }
    for p in pnames[1:]:
        env[p] = (cp.mangle(p), 'S')
    em = Emitter(lambda d: env.get(d), scalar_fns={'std::pow': ('PowLike.pow', ['S', 'S'], 'S')})
    plist = [('params.min_abs_s', 'params_min_abs_s', 'S'),
             ('params.min_div_fac', 'params_min_div_fac', 'S'),
             ('params.force_pos_def', 'params_force_pos_def', 'B'),
             ('params.cbfgs.α', 'params_cbfgs_alpha', 'S'),
             ('params.cbfgs.ϵ', 'params_cbfgs_eps', 'S')] + \
            [(p, cp.mangle(p), 'S') for p in pnames[1:]]
    defs.append(em.function('lbfgsUpdateValid', plist, ss, 'B',
                            doc=f'{TPP} :: LBFGS::update_valid(params, {", ".join(pnames[1:])})'))
    lits.update(em.nat_lits)
    regions['lbfgsUpdateValid'] = {'file': TPP, 'hash': cp.ast_hash((pnames, ss))}

    # ---- apply_masked_impl: the marker that says "the initial scaling is still to be computed"
    _, am = cp.find_region(tpp, r'bool\s+LBFGS<Conf>::apply_masked_impl\s*\(')
    menv = {'γ': ('gamma', 'S'), 'need_γ': ('need_gamma', 'B'), 'ρJ': ('rhoJ', 'S'), 'yᵀy': ('yTy', 'S')}
    menv = {unicodedata.normalize('NFC', k): v for k, v in menv.items()}
    am = unicodedata.normalize('NFC', am)

    def masked_fn(name, params, ret_expr, ret, doc):
        em = Emitter(lambda d: menv.get(d))
        pl = [(c, menv[c][0], menv[c][1]) for c in params]
        defs.append(em.function(name, pl, [('return', ret_expr)], ret, doc=f'{TPP} :: LBFGS::apply_masked_impl — {doc}'))
        lits.update(em.nat_lits)
        regions[name] = {'file': TPP, 'hash': cp.ast_hash(ret_expr)}
    # (a) the declaration (must precede the first loop)
    decl_txt = cp.find_statement(am, r'bool\s+need_γ\s*=')
    if am.index(decl_txt) > re.search(r'foreach_rev\s*\(', am).start():
        raise TranslationError('apply_masked_impl: `need_γ` is declared after the first loop')
    decl = cp.parse_statements(alt_tokens(decl_txt))
    if len(decl) != 1 or decl[0][0] != 'decl' or decl[0][2] != 'need_γ' or decl[0][3] is None:
        raise TranslationError('apply_masked_impl: `bool need_γ = …;` changed shape')
    masked_fn('lbfgsMaskedNeedGamma', ['γ'], decl[0][3], 'B', '`bool need_γ = …` (γ after the BasedOnCurvature override)')
    # (b) first loop: the block that computes the scaling from the pair
    hdr_rev, rev = cp.find_region(am, r'foreach_rev\s*\(\s*\[&\]\s*\(\s*index_t\s+i\s*\)')
    cands = []
    for m in re.finditer(r'\bif\s*\(', rev):
        op = m.end() - 1
        cl = cp.match_brace(rev, op, '(', ')')
        k = cl + 1
        while k < len(rev) and rev[k].isspace():
            k += 1
        if k < len(rev) and rev[k] == '{':
            blk = rev[k + 1:cp.match_brace(rev, k)]
            if re.search(r'(?<![\w.])γ\s*=[^=]', blk):
                cands.append((rev[op + 1:cl], blk))
    if len(cands) != 1:
        raise TranslationError(f'apply_masked_impl: expected exactly one `if (…) {{ … γ = … }}` in the first loop, found {len(cands)}')
    cond = cp.parse_expression(alt_tokens(cands[0][0]))
    blk = cp.parse_statements(alt_tokens(cands[0][1]))
    want_blk = [
        ('decl', 'yᵀy', ('call', ('id', 'dotJ'), [('call', ('id', 'y'), [('id', 'i')], None)] * 2, None)),
        ('assign', 'γ'),
        ('expr', ('bin', '=', ('id', 'need_γ'), ('id', 'false'))),
    ]
    shape = []
    gam_rhs = None
    for st in blk:
        if st[0] == 'decl':
            shape.append(('decl', st[2], st[3]))
        elif st[0] == 'expr' and st[1][0] == 'bin' and st[1][1] == '=' and st[1][2] == ('id', 'γ'):
            shape.append(('assign', 'γ'))
            gam_rhs = st[1][3]
        else:
            shape.append(st)
    if repr(shape) != repr(want_blk):
        raise TranslationError('apply_masked_impl: the block `{ yᵀy = dotJ(y(i), y(i)); γ = …; need_γ = false; }` '
                               f'changed shape: {shape!r}')
    masked_fn('lbfgsMaskedSetGamma', ['need_γ', 'γ'], cond, 'B',
              'first loop, test of `if (…) { γ = …; need_γ = false; }` (evaluated for a pair valid on J)')
    masked_fn('lbfgsMaskedGammaOfPair', ['ρJ', 'yᵀy'], gam_rhs, 'S', 'first loop, `γ = …` (ρJ = 1/⟨s,y⟩_J, yᵀy = ⟨y,y⟩_J)')
    # (c) between the loops: the failure test
    after = am[am.index(rev) + len(rev):]
    after = after[:re.search(r'foreach_fwd\s*\(', after).start()]
    fails = [m for m in re.finditer(r'\bif\s*\(', after)]
    if len(fails) != 1:
        raise TranslationError('apply_masked_impl: expected exactly one `if` between the two loops')
    fst = cp.parse_statements(alt_tokens(cp.find_statement(after, r'\bif\s*\(')))
    if len(fst) != 1 or fst[0][0] != 'if' or fst[0][3] is not None or \
            repr(fst[0][2]) not in (repr(('return', ('id', 'false'))), repr(('block', [('return', ('id', 'false'))]))):
        raise TranslationError('apply_masked_impl: `if (…) return false;` between the loops changed shape')
    masked_fn('lbfgsMaskedFail', ['need_γ', 'γ'], fst[0][1], 'B', '`if (…) return false;` after the first loop')

    # ---- ring index arithmetic (class LBFGS in the header)
    _, cls = cp.find_region(hpp, r'class\s+LBFGS\s*\{')

    def nat_fn(name, anchor, params, bools=()):
        _, body = cp.find_region(cls, anchor)
        ss = cp.parse_statements(alt_tokens(body))
        env = nat_env(*params, bools=bools)
        em = NatEmitter(lambda d: env.get(d), scalar_fns=HIST)
        pl = [('history', 'history', 'N')] + [(p, env[p][0], env[p][1]) for p in list(params) + list(bools)]
        defs.append(em.function(name, pl, ss, 'N', doc=f'{HPP} :: LBFGS :: {anchor}'))
        regions[name] = {'file': HPP, 'hash': cp.ast_hash(ss)}

    nat_fn('lbfgsSucc', r'index_t\s+succ\s*\(\s*index_t\s+i\s*\)\s*const', ['i'])
    nat_fn('lbfgsPred', r'index_t\s+pred\s*\(\s*index_t\s+i\s*\)\s*const', ['i'])
    nat_fn('lbfgsCurrentHistory', r'length_t\s+current_history\s*\(\s*\)\s*const', ['idx'],
           bools=['full'])

    for name, anchor in (('lbfgsForeachFwd', r'void\s+foreach_fwd\s*\(\s*const\s+F\s*&\s*fun\s*\)\s*const'),
                         ('lbfgsForeachRev', r'void\s+foreach_rev\s*\(\s*const\s+F\s*&\s*fun\s*\)\s*const')):
        _, body = cp.find_region(cls, anchor)
        ss = cp.parse_statements(alt_tokens(body))
        env = nat_env('idx', bools=['full'])
        em = NatEmitter(lambda d: env.get(d), scalar_fns=HIST)
        term = visit_list(em, ss)
        defs.append(f'/-- {HPP} :: LBFGS :: {anchor}  (indices `fun` is called with, in order) -/\n'
                    f'def {name} (history : Nat) (idx : Nat) (full : Bool) : List Nat :=\n{_indent(term)}\n')
        regions[name] = {'file': HPP, 'hash': cp.ast_hash(ss)}

    hdr = file_header('C09 L-BFGS acceptance test and ring index arithmetic.',
                      imports=('Alpaqa.Model.C09Base',), nat_lits=lits)
    hdr = hdr.replace('[OfScientific α]', '[OfScientific α] [PowLike α]')
    text = hdr + '\n'.join(defs) + FILE_FOOTER
    old = open(out_path).read() if os.path.exists(out_path) else None
    if old != text:
        with open(out_path, 'w') as f:
            f.write(text)
    return regions


if __name__ == '__main__':
    out = sys.argv[1] if len(sys.argv) > 1 else os.path.join(
        os.path.dirname(os.path.abspath(__file__)), '..', 'lean', 'Alpaqa', 'Gen', 'C09.lean')
    try:
        r = main(out)
        print(json.dumps({'ok': True, 'regions': r}))
    except TranslationError as e:
        print(json.dumps({'ok': False, 'error': str(e)}))
        sys.exit(2)
