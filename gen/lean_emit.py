"""
lean_emit — turn a cxxparse AST (scalar / Eigen-componentwise statement subset) into a Lean 4
definition over the generic scalar of Alpaqa.Model.

Types: 'S' scalar, 'V' vector (List α), 'B' Bool, 'N' Nat (indices / counters), 'E' enum value.

The caller supplies `resolve(dotted_name) -> (lean_expr, type) | None` for free identifiers and
member chains (`params.max_iter`, `curr->γ`, `C.lowerbound` …).  Anything not resolvable or not
in the subset raises TranslationError.
"""
from cxxparse import TranslationError, mangle

STD_CLASSES = ('[Add α] [Sub α] [Mul α] [Div α] [Neg α] [LT α] [LE α] [DecidableLT α] '
               '[DecidableLE α] [BEq α] [RealLike α] [NatCast α] [OfScientific α]')


def dotted(ast):
    """Flatten ('mem', …) chains and ids into 'a.b.c' ('->' treated as '.'); None if not a chain."""
    if ast[0] == 'id':
        return ast[1]
    if ast[0] == 'mem':
        base = dotted(ast[1])
        if base is None:
            return None
        return base + '.' + ast[2]
    if ast[0] == 'un' and ast[1] == '*':
        return dotted(ast[2])
    return None


class Emitter:
    def __init__(self, resolve, scalar_fns=None, enum_values=None, componentwise=False):
        self.resolve = resolve
        self.componentwise = componentwise   # treat Eigen cwise methods on scalars as scalar ops
        self.locals = {}          # cxx name -> (lean name, type)
        self.nat_lits = set()
        self.extra_scalar_fns = scalar_fns or {}
        self.enum_values = enum_values or {}
        self.out_types = {}
        self.stmt_call_handler = None
        self.method_handler = None

    # ---- helpers
    def lit(self, text, want):
        t = text.rstrip('uUlLfF').replace("'", '')
        is_int = all(ch.isdigit() for ch in t)
        if want == 'N':
            if not is_int:
                raise TranslationError(f'non-integer literal {text} in index context')
            return t, 'N'
        if is_int:
            self.nat_lits.add(int(t))
            return f'({t} : α)', 'S'
        return f'({t} : α)', 'S'

    def lookup(self, name):
        if name in self.locals:
            return self.locals[name]
        r = self.resolve(name)
        if r is None:
            raise TranslationError(f'unresolved identifier {name!r}')
        return r

    def coerce(self, e, t, want):
        if want is None or t == want or want not in ('S', 'V', 'B', 'N'):
            return e, t
        if t == 'N' and want == 'S':
            return f'((({e}) : Nat) : α)', 'S'
        raise TranslationError(f'type mismatch: have {t}, want {want} in {e}')

    # ---- expressions
    def expr(self, a, want=None):
        e, t = self._expr(a, want)
        return self.coerce(e, t, want)

    def _expr(self, a, want):
        k = a[0]
        if k == 'num':
            return self.lit(a[1], 'N' if want == 'N' else 'S')
        if k in ('id', 'mem'):
            d = dotted(a)
            if d is not None:
                if d in ('true', 'false'):
                    return d, 'B'
                if d in self.enum_values:
                    return self.enum_values[d], 'E'
                try:
                    return self.lookup(d)
                except TranslationError:
                    if k == 'id':
                        raise
            if k == 'mem':
                raise TranslationError(f'unresolved member access {d or a!r}')
        if k == 'cast':
            ty = a[1]
            if ty in ('real_t', 'double', 'float'):
                return self.expr(a[2], 'S')
            if ty in ('index_t', 'length_t', 'int', 'unsigned', 'size_t', 'long'):
                return self.expr(a[2], 'N')
            if ty == 'bool':
                return self.expr(a[2], 'B')
            raise TranslationError(f'unsupported cast to {ty}')
        if k == 'un':
            op = a[1]
            if op == '-':
                e, t = self.expr(a[2])
                if t == 'S':
                    return f'(-{e})', 'S'
                if t == 'V':
                    return f'(vneg {e})', 'V'
                raise TranslationError('negation of non-numeric')
            if op == '+':
                return self.expr(a[2])
            if op == '!':
                e, _ = self.expr(a[2], 'B')
                return f'(!{e})', 'B'
            if op == '*':
                return self.expr(a[2])
            raise TranslationError(f'unsupported unary {op}')
        if k == 'tern':
            c, _ = self.expr(a[1], 'B')
            x, tx = self.expr(a[2], want)
            y, ty = self.expr(a[3], want)
            if tx != ty:
                if {tx, ty} == {'N', 'S'}:
                    x, tx = self.coerce(x, tx, 'S')
                    y, ty = self.coerce(y, ty, 'S')
                else:
                    raise TranslationError('ternary branches of different type')
            return f'(if {c} then {x} else {y})', tx
        if k == 'bin':
            return self.binop(a, want)
        if k == 'call':
            return self.call(a, want)
        if k == 'idx':
            v, tv = self.expr(a[1])
            i, _ = self.expr(a[2], 'N')
            if tv != 'V':
                raise TranslationError('indexing a non-vector')
            return f'(vget {v} {i})', 'S'
        raise TranslationError(f'unsupported expression node {k}')

    def binop(self, a, want):
        op = a[1]
        if op in ('&&', '||'):
            x, _ = self.expr(a[2], 'B')
            y, _ = self.expr(a[3], 'B')
            return f'({x} {op} {y})', 'B'
        if op in ('<', '>', '<=', '>=', '==', '!='):
            x, tx = self.expr(a[2])
            y, ty = self.expr(a[3])
            if tx == 'E' or ty == 'E':
                if op not in ('==', '!='):
                    raise TranslationError('ordering on enum')
                return (f'({x} == {y})' if op == '==' else f'({x} != {y})'), 'B'
            if tx == 'B' and ty == 'B':
                return (f'({x} == {y})' if op == '==' else f'({x} != {y})'), 'B'
            if tx != ty:
                # re-elaborate literal / nat side at the other type
                if a[3][0] == 'num' and tx == 'N':
                    y, ty = self.expr(a[3], 'N')
                elif a[2][0] == 'num' and ty == 'N':
                    x, tx = self.expr(a[2], 'N')
                elif tx == 'N' and ty == 'S':
                    x, tx = self.expr(a[2], 'S')
                elif tx == 'S' and ty == 'N':
                    y, ty = self.expr(a[3], 'S')
                else:
                    raise TranslationError(f'comparison between {tx} and {ty}')
            if tx == 'N':
                # literal-only side may have been made scalar; redo as N
                x, _ = self.expr(a[2], 'N')
                y, _ = self.expr(a[3], 'N')
            if tx not in ('S', 'N'):
                raise TranslationError(f'comparison of {tx}')
            if op == '==':
                return f'({x} == {y})', 'B'
            if op == '!=':
                return f'({x} != {y})', 'B'
            lop = {'<': '<', '>': '>', '<=': '≤', '>=': '≥'}[op]
            return f'(decide ({x} {lop} {y}))', 'B'
        if op in ('+', '-', '*', '/', '%'):
            x, tx = self.expr(a[2], 'N' if want == 'N' else None)
            y, ty = self.expr(a[3], 'N' if want == 'N' else None)
            if want != 'S':
                # integer literal next to an integer expression stays integral (C++ usual conversions)
                if tx == 'N' and ty == 'S' and a[3][0] == 'num':
                    y, ty = self.expr(a[3], 'N') if a[3][1].rstrip('uUlL').isdigit() else (y, ty)
                if ty == 'N' and tx == 'S' and a[2][0] == 'num':
                    x, tx = self.expr(a[2], 'N') if a[2][1].rstrip('uUlL').isdigit() else (x, tx)
            if tx == 'N' and ty == 'N':
                return f'({x} {op} {y})', 'N'
            if tx == 'N':
                x, tx = self.coerce(x, tx, 'S')
            if ty == 'N':
                y, ty = self.coerce(y, ty, 'S')
            if tx == 'S' and ty == 'S':
                if op == '%':
                    raise TranslationError('% on scalars')
                return f'({x} {op} {y})', 'S'
            if tx == 'V' and ty == 'V':
                fn = {'+': 'vadd', '-': 'vsub'}.get(op)
                if fn is None:
                    raise TranslationError(f'vector {op} vector')
                return f'({fn} {x} {y})', 'V'
            if tx == 'S' and ty == 'V' and op == '*':
                return f'(smul {x} {y})', 'V'
            if tx == 'V' and ty == 'S' and op == '*':
                return f'(smul {y} {x})', 'V'
            if tx == 'V' and ty == 'S' and op == '/':
                return f'(vdivs {x} {y})', 'V'
            raise TranslationError(f'unsupported arithmetic {tx} {op} {ty}')
        raise TranslationError(f'unsupported binary operator {op}')

    # method / free-function tables -------------------------------------------------------
    def call(self, a, want):
        f, args, targs = a[1], a[2], a[3]
        if f[0] == 'mem':
            obj, name = f[1], f[2]
            if self.method_handler is not None:
                r = self.method_handler(obj, name, args, self)
                if r is not None:
                    return r
            # Eigen methods on a vector expression
            if name in ('array', 'matrix', 'eval', 'transpose', 'reshaped'):
                return self.expr(obj)
            if name in ('cwiseMax', 'cwiseMin', 'cwiseProduct', 'cwiseQuotient', 'dot', 'max', 'min'):
                x, tx = self.expr(obj)
                y, ty = self.expr(args[0])
                if ty == 'N':
                    y, ty = self.coerce(y, ty, 'S')
                if tx == 'N' and self.componentwise:
                    x, tx = self.coerce(x, tx, 'S')
                if tx == 'S' and ty == 'S' and self.componentwise and name != 'dot':
                    op = {'cwiseMax': 'emax', 'cwiseMin': 'emin', 'max': 'emax', 'min': 'emin'}.get(name)
                    if op:
                        return f'({op} {x} {y})', 'S'
                    op = {'cwiseProduct': '*', 'cwiseQuotient': '/'}[name]
                    return f'({x} {op} {y})', 'S'
                if tx != 'V':
                    raise TranslationError(f'.{name} on non-vector')
                if ty == 'N':
                    y, ty = self.coerce(y, ty, 'S')
                base = {'cwiseMax': 'vmax', 'cwiseMin': 'vmin', 'max': 'vmax', 'min': 'vmin',
                        'cwiseProduct': 'vmul', 'cwiseQuotient': 'vdiv', 'dot': 'dot'}[name]
                if ty == 'V':
                    return f'({base} {x} {y})', ('S' if name == 'dot' else 'V')
                if ty == 'S' and name in ('cwiseMax', 'cwiseMin', 'max', 'min'):
                    return f'({base}s {x} {y})', 'V'
                raise TranslationError(f'.{name} with argument type {ty}')
            if name in ('cwiseAbs', 'abs'):
                x, tx = self.expr(obj)
                if tx == 'S' and self.componentwise:
                    return f'(eabs {x})', 'S'
                x, _ = self.coerce(x, tx, 'V')
                return f'(vabs {x})', 'V'
            if name in ('norm', 'squaredNorm', 'sum'):
                x, _ = self.expr(obj, 'V')
                fn = {'norm': 'norm2', 'squaredNorm': 'sqNorm', 'sum': 'vsum'}[name]
                return f'({fn} {x})', 'S'
            if name == 'lpNorm':
                x, _ = self.expr(obj, 'V')
                if targs and 'Infinity' in targs:
                    return f'(normInf {x})', 'S'
                if targs and targs.strip() == '1':
                    return f'(norm1 {x})', 'S'
                raise TranslationError(f'lpNorm<{targs}>')
            if name == 'size':
                x, _ = self.expr(obj, 'V')
                return f'(List.length {x})', 'N'
            if name == 'allFinite':
                x, _ = self.expr(obj, 'V')
                return f'(vallFinite {x})', 'B'
            raise TranslationError(f'unsupported method .{name}()')
        d = dotted(f)
        if d is None:
            raise TranslationError('call through non-identifier')
        short = d.split('::')[-1]
        if self.componentwise and short == 'Zero' and d.split('::')[0] in ('vec', 'weight_t'):
            self.nat_lits.add(0)
            return '(0 : α)', 'S'
        if self.componentwise and short == 'Ones' and d.split('::')[0] in ('vec', 'weight_t'):
            self.nat_lits.add(1)
            return '(1 : α)', 'S'
        if self.componentwise and short == 'Constant' and len(args) == 2:
            return self.expr(args[1], 'S')
        if short in ('max', 'min', 'fmax', 'fmin') and len(args) == 2:
            x, tx = self.expr(args[0], 'N' if want == 'N' else None)
            y, ty = self.expr(args[1], 'N' if want == 'N' else None)
            if tx == 'N' and ty == 'N' and short in ('max', 'min'):
                return f'(Nat.{short} {x} {y})', 'N'
            x, _ = self.coerce(x, tx, 'S')
            y, _ = self.coerce(y, ty, 'S')
            fn = {'max': 'emax', 'min': 'emin', 'fmax': 'fmaxS', 'fmin': 'fminS'}[short]
            return f'({fn} {x} {y})', 'S'
        if short == 'abs' and len(args) == 1:
            x, _ = self.expr(args[0], 'S')
            return f'(eabs {x})', 'S'
        if short == 'sqrt' and len(args) == 1:
            x, _ = self.expr(args[0], 'S')
            return f'(RealLike.sqrt {x})', 'S'
        if short == 'isfinite' and len(args) == 1:
            x, _ = self.expr(args[0], 'S')
            return f'(RealLike.isFinite {x})', 'B'
        if short == 'isnan' and len(args) == 1:
            x, _ = self.expr(args[0], 'S')
            return f'(RealLike.isNaN {x})', 'B'
        if short == 'clamp' and len(args) == 3:
            xs = [self.expr(z, 'S')[0] for z in args]
            return f'(eclamp {xs[0]} {xs[1]} {xs[2]})', 'S'
        if short == 'norm_inf' and len(args) == 1:
            x, _ = self.expr(args[0], 'V')
            return f'(normInf {x})', 'S'
        if short == 'norm_1' and len(args) == 1:
            x, _ = self.expr(args[0], 'V')
            return f'(norm1 {x})', 'S'
        if short == 'norm_squared_weighted' and len(args) == 2:
            x, _ = self.expr(args[0], 'V')
            y, _ = self.expr(args[1], 'V')
            return f'(dot {x} (vmul {y} {x}))', 'S'
        if d in self.extra_scalar_fns:
            lean, argtys, ret = self.extra_scalar_fns[d]
            if len(argtys) != len(args):
                raise TranslationError(f'arity of {d}')
            xs = [self.expr(z, t)[0] for z, t in zip(args, argtys)]
            return '(' + ' '.join([lean] + xs) + ')', ret
        raise TranslationError(f'unsupported call {d}(…)')

    # ---- statements → Lean term
    def assigned(self, stmts):
        """Names assigned (not declared) in stmts, in first-assignment order."""
        out = []

        def visit_expr(e):
            if e[0] == 'bin' and e[1] in ('=', '+=', '-=', '*=', '/='):
                d = dotted(e[2])
                if d is not None and d not in out:
                    out.append(d)
            elif e[0] in ('post', 'un') and e[1] in ('++', '--'):
                d = dotted(e[2])
                if d is not None and d not in out:
                    out.append(d)

        def visit(s, declared):
            k = s[0]
            if k == 'expr':
                visit_expr(s[1])
            elif k == 'block':
                inner = set(declared)
                for t in s[1]:
                    if t[0] == 'decl' and isinstance(t[2], str):
                        inner.add(t[2])
                    visit(t, inner)
            elif k == 'if':
                visit(s[2], declared)
                if s[3] is not None:
                    visit(s[3], declared)
            elif k in ('decl', 'empty', 'return', 'throw'):
                pass
            else:
                # a loop / other construct inside a translated `if`: its effect would be lost silently
                raise TranslationError(f'unsupported statement `{k}` inside a translated conditional')
        declared = set()
        for s in stmts:
            if s[0] == 'decl' and isinstance(s[2], str):
                declared.add(s[2])
            visit(s, declared)
        return [n for n in out if n not in declared]

    def always_returns(self, s):
        k = s[0]
        if k in ('return', 'throw'):
            return True
        if k == 'block':
            return any(self.always_returns(t) for t in s[1])
        if k == 'if':
            return s[3] is not None and self.always_returns(s[2]) and self.always_returns(s[3])
        return False

    def contains_return(self, s):
        k = s[0]
        if k in ('return', 'throw'):
            return True
        if k == 'block':
            return any(self.contains_return(t) for t in s[1])
        if k == 'if':
            return self.contains_return(s[2]) or (s[3] is not None and self.contains_return(s[3]))
        return False

    def bind(self, name, ty):
        lean = mangle(name.replace('.', '_').replace('->', '_'))
        self.locals[name] = (lean, ty)
        return lean

    def type_of_decl(self, tytext, init_t):
        toks = tytext.replace('const', '').replace('constexpr', '').replace('static', '').split()
        base = toks[-1] if toks else 'auto'
        base = base.rstrip('&')
        if base in ('real_t', 'double', 'float'):
            return 'S'
        if base in ('bool',):
            return 'B'
        if base in ('index_t', 'length_t', 'int', 'unsigned', 'size_t', 'long'):
            return 'N'
        if base in ('vec', 'rvec', 'crvec'):
            return 'V'
        if base == 'auto':
            return init_t
        raise TranslationError(f'unsupported declaration type {tytext!r}')

    def stmts(self, ss, final):
        """Lean term for `ss; final()` where final() yields the term for falling off the end."""
        if not ss:
            return final()
        s, rest = ss[0], ss[1:]
        k = s[0]
        if k == 'decl':
            if not isinstance(s[2], str):
                raise TranslationError('structured binding in translated region')
            if s[3] is None:
                raise TranslationError(f'uninitialised declaration of {s[2]}')
            want = self.type_of_decl(s[1], None)
            e, t = self.expr(s[3], want)
            ty = self.type_of_decl(s[1], t)
            saved = dict(self.locals)
            lean = self.bind(s[2], ty)
            body = self.stmts(rest, final)
            self.locals = saved
            return f'let {lean} := {e}\n{body}'
        if k == 'expr':
            e = s[1]
            if e[0] == 'bin' and e[1] in ('=', '+=', '-=', '*=', '/='):
                d = dotted(e[2])
                if d is None:
                    raise TranslationError('assignment to non-identifier')
                if d not in self.locals and d in self.out_types and self.resolve(d) is None:
                    if e[1] != '=':
                        raise TranslationError(f'compound assignment to uninitialised output {d}')
                    ty = self.out_types[d]
                else:
                    cur, ty = self.lookup(d)
                rhs = e[3] if e[1] == '=' else ('bin', e[1][0], e[2], e[3])
                r, _ = self.expr(rhs, ty)
                saved = dict(self.locals)
                lean = self.bind(d, ty)
                body = self.stmts(rest, final)
                self.locals = saved
                return f'let {lean} := {r}\n{body}'
            if e[0] in ('post', 'un') and e[1] in ('++', '--'):
                d = dotted(e[2])
                cur, ty = self.lookup(d)
                r = f'({cur} + 1)' if e[1] == '++' else f'({cur} - 1)'
                saved = dict(self.locals)
                lean = self.bind(d, ty)
                body = self.stmts(rest, final)
                self.locals = saved
                return f'let {lean} := {r}\n{body}'
            if e[0] == 'call' and self.stmt_call_handler is not None:
                binds = self.stmt_call_handler(e, self)
                if binds is not None:
                    saved = dict(self.locals)
                    lines = []
                    for nm, ty, lean_rhs in binds:
                        ln = self.bind(nm, ty)
                        lines.append(f'let {ln} := {lean_rhs}')
                    body = self.stmts(rest, final)
                    self.locals = saved
                    return '\n'.join(lines + [body])
            raise TranslationError(f'unsupported expression statement {e[0]}')
        if k == 'return':
            if s[1] is None:
                return final()
            e, _ = self.expr(s[1], self.ret_type)
            return e
        if k == 'block':
            saved = dict(self.locals)
            # flatten: declarations inside the block are scoped, but assignments to outer names
            # must survive — handled by treating a bare block as inline statements
            r = self.stmts(list(s[1]) + rest, final)
            self.locals = saved
            return r
        if k == 'if':
            c, _ = self.expr(s[1], 'B')
            th = s[2] if s[2][0] == 'block' else ('block', [s[2]])
            el = s[3] if s[3] is None or s[3][0] == 'block' else ('block', [s[3]])
            if self.contains_return(s):
                # early-return style: duplicate the continuation in both arms
                a = self.stmts(list(th[1]) + rest, final)
                b = self.stmts((list(el[1]) if el else []) + rest, final)
                return f'if {c} then\n{_indent(a)}\nelse\n{_indent(b)}'
            mod = self.assigned([s])
            if not mod:
                def _effectless(b):
                    return b is None or all(t[0] in ('decl', 'empty') or
                                            (t[0] == 'block' and _effectless(t)) for t in (b[1] if b[0] == 'block' else [b]))
                if not (_effectless(th) and _effectless(el)):
                    # e.g. a call or an update the emitter cannot see: never drop it silently
                    raise TranslationError('conditional without a visible effect on any variable (calls / loops in its '
                                           'body are not translated): ' + repr(s)[:160])
                return self.stmts(rest, final)
            tup = lambda: ('(' + ', '.join(self.lookup(n)[0] for n in mod) + ')') if len(mod) > 1 \
                else self.lookup(mod[0])[0]
            a = self.stmts(list(th[1]), tup)
            b = self.stmts(list(el[1]) if el else [], tup)
            tys = [self.lookup(n)[1] for n in mod]
            saved = dict(self.locals)
            names = [self.bind(n, t) for n, t in zip(mod, tys)]
            pat = '(' + ', '.join(names) + ')' if len(names) > 1 else names[0]
            body = self.stmts(rest, final)
            self.locals = saved
            return f'let {pat} := if {c} then\n{_indent(a)}\n  else\n{_indent(b)}\n{body}'
        raise TranslationError(f'unsupported statement {k}')

    def function(self, name, params, ss, ret_type, outputs=None, doc=None, out_types=None):
        """Emit `def name (params…) : ret := …`.
        params: list of (cxx_name, lean_name, type).  outputs: cxx names returned (as a tuple)
        when control falls off the end (for void regions)."""
        self.ret_type = ret_type
        self.out_types = out_types or {}
        self.locals = {c: (l, t) for c, l, t in params}

        def final():
            if outputs is None:
                raise TranslationError(f'{name}: control reaches end without return')
            vals = [self.lookup(o)[0] for o in outputs]
            return '(' + ', '.join(vals) + ')' if len(vals) > 1 else vals[0]
        body = self.stmts(ss, final)
        tymap = {'S': 'α', 'V': 'Vec α', 'B': 'Bool', 'N': 'Nat'}

        def ty(t):
            return tymap.get(t, t)
        if outputs is not None and ret_type is None:
            ots = [self.out_types[o] if o in self.out_types else self.lookup(o)[1] for o in outputs]
            rt = ' × '.join(ty(t) for t in ots)
        else:
            rt = ty(ret_type)
        ps = ' '.join(f'({l} : {ty(t)})' for _, l, t in params)
        d = f'/-- {doc} -/\n' if doc else ''
        return f'{d}def {name} {ps} : {rt} :=\n{_indent(body)}\n'


def _indent(s, n=2):
    pad = ' ' * n
    return '\n'.join(pad + line for line in s.split('\n'))


def file_header(module_doc, imports=('Alpaqa.Model.Vec',), nat_lits=()):
    lits = ' '.join(f'[OfNat α {n}]' for n in sorted(set(nat_lits) | {0, 1}))
    imp = '\n'.join(f'import {i}' for i in imports)
    return (f'/- GENERATED by /verif/gen — do not edit. {module_doc} -/\n{imp}\n\n'
            f'namespace Alpaqa.Gen\nopen Alpaqa\n\nsection\n'
            f'variable {{α : Type}} {STD_CLASSES} {lits}\n\n')


FILE_FOOTER = '\nend\nend Alpaqa.Gen\n'
