#!/usr/bin/env python3
"""C14 translator: sparsity-format converters (sparsity-conversions.hpp, sparsity.hpp, sparse-ops.hpp)
re-extracted from /repo on every run and emitted as Lean (lean/Alpaqa/Gen/C14.lean).

What becomes Lean text (so that a changed operator / operand / constant changes the generated
definition and the theorems in Props/C14.lean stop compiling):
  * the enumerator values of Symmetry, SparseCSC::Order, SparseCOO::Order, the alternatives of
    SparsityVariant (sparsity.hpp);
  * the feature-test condition guarding ALPAQA_HAVE_COO_CSC_CONVERSIONS (sparse-ops.hpp), evaluated
    with the macro values of the compiler + flags the harness is built with;
  * the list of `SparsityConverter<From, To>` partial specialisations that exist;
  * per converter: the shape test (`symmetry != Unsymmetric && rows != cols`), the triangle tests and
    the scatter targets of the conversions to dense (`if (r > c) throw`, `T(c, r) = T(r, c) = work(l)`),
    the index formulas (`row_indices(l) - first_index`, `static_cast<…>(r) + Δ`, the Δ statements,
    the lambda `cvt_idx`), the inner loop conditions (`r <= c`), the nnz formulas, the `.order` /
    `.first_index` fields of the returned pattern, the `topRows(c + 1)` / `t += c + 1` counts,
    the early-return test of COO→COO, and the exception thrown when a converter is compiled out.
What is pinned by a structural hash instead (loop skeletons that the hand-written model in
Model/C14.lean mirrors): any difference from the recorded skeleton is a TranslationError, i.e. a
broken tie that the check reports — never a silent skip.
"""
import hashlib
import json
import os
import re
import subprocess
import sys

sys.path.insert(0, os.path.dirname(os.path.abspath(__file__)))
import cxxparse as cp
from cxxparse import TranslationError

REPO = os.environ.get('VERIF_REPO', '/repo')
INC = REPO + '/src/alpaqa/include/alpaqa/'
CXX = os.environ.get('CXX', 'g++')
# the language-level flags of checks/common.py BASE_FLAGS (feature macros depend on -std only)
STD_FLAGS = ['-std=c++20']

KINDS = ('Dense', 'SparseCSC', 'SparseCOO')
SHORT = {'Dense': 'dense', 'SparseCSC': 'csc', 'SparseCOO': 'coo'}


def read(rel):
    return open(INC + rel, encoding='utf8').read()


# ------------------------------------------------------------------ feature macro

def feature_condition(sparse_ops_src):
    """The `#if` line that guards `#define ALPAQA_HAVE_COO_CSC_CONVERSIONS 1`, as a conjunction of
    (macro, minimum) pairs."""
    lines = sparse_ops_src.splitlines()
    for i, ln in enumerate(lines):
        if re.match(r'\s*#\s*define\s+ALPAQA_HAVE_COO_CSC_CONVERSIONS\s+1\s*$', ln):
            j = i - 1
            while j >= 0 and not lines[j].strip():
                j -= 1
            m = re.match(r'\s*#\s*if\s+(.*)$', lines[j])
            if not m:
                raise TranslationError('ALPAQA_HAVE_COO_CSC_CONVERSIONS is not defined directly under an #if')
            cond = m.group(1).strip()
            terms = []
            for part in cond.split('&&'):
                mm = re.match(r'^\s*(__cpp_lib_\w+)\s*>=\s*(\d+)L?\s*$', part)
                if not mm:
                    raise TranslationError(f'feature-test term outside the subset: {part!r}')
                terms.append((mm.group(1), int(mm.group(2))))
            return cond, terms
    raise TranslationError('definition of ALPAQA_HAVE_COO_CSC_CONVERSIONS not found')


def macro_values(names):
    """Values of the library feature-test macros under the harness' compiler and -std flag."""
    prog = '#include <version>\n#include <ranges>\n' + ''.join(
        f'#ifdef {n}\nVERIF_MACRO {n} {n}\n#else\nVERIF_MACRO {n} 0\n#endif\n' for n in names)
    r = subprocess.run([CXX] + STD_FLAGS + ['-E', '-P', '-x', 'c++', '-'], input=prog,
                       stdout=subprocess.PIPE, stderr=subprocess.PIPE, text=True)
    if r.returncode != 0:
        raise TranslationError('cannot evaluate feature macros: ' + r.stderr[-300:])
    vals = {}
    for ln in r.stdout.splitlines():
        m = re.match(r'\s*VERIF_MACRO\s+(\w+)\s+(\d+)L?\s*$', ln)
        if m:
            vals[m.group(1)] = int(m.group(2))
    for n in names:
        if n not in vals:
            raise TranslationError(f'no value for feature macro {n}')
    return vals


def preprocess(src, have):
    """Resolve `#if ALPAQA_HAVE_COO_CSC_CONVERSIONS … [#else …] #endif`; drop other directives.
    Also returns the text of each inactive branch (for the compiled-out fallbacks)."""
    out = []
    stack = []          # each: [active_now, parent_active]
    for ln in src.splitlines():
        s = ln.strip()
        if s.startswith('#'):
            d = s[1:].strip()
            if d.startswith('if'):
                if not re.match(r'if\s+ALPAQA_HAVE_COO_CSC_CONVERSIONS\s*$', d):
                    raise TranslationError(f'unexpected preprocessor conditional: {s!r}')
                parent = all(a for a, _ in stack)
                stack.append([bool(have), parent])
            elif d.startswith('else'):
                if not stack:
                    raise TranslationError('#else without #if')
                stack[-1][0] = not stack[-1][0]
            elif d.startswith('endif'):
                if not stack:
                    raise TranslationError('#endif without #if')
                stack.pop()
            elif d.startswith('pragma') or d.startswith('include'):
                pass
            else:
                raise TranslationError(f'unexpected preprocessor directive: {s!r}')
            out.append('')
            continue
        out.append(ln if all(a for a, _ in stack) else '')
    if stack:
        raise TranslationError('unterminated #if')
    return '\n'.join(out)


# ------------------------------------------------------------------ enums (sparsity.hpp)

def enum_values(src, anchor_re):
    m = re.search(anchor_re, src)
    if not m:
        raise TranslationError(f'enum not found: {anchor_re}')
    ob = src.index('{', m.end() - 1)
    body = src[ob + 1:cp.match_brace(src, ob)]
    out = []
    nxt = 0
    for part in body.split(','):
        part = part.strip()
        if not part:
            continue
        mm = re.match(r'^([A-Za-z_]\w*)\s*(?:=\s*(\d+))?$', part)
        if not mm:
            raise TranslationError(f'cannot parse enumerator {part!r}')
        v = int(mm.group(2)) if mm.group(2) is not None else nxt
        out.append((mm.group(1), v))
        nxt = v + 1
    return out


# ------------------------------------------------------------------ expression → Lean (Int / Bool)

class Env:
    """Resolution of identifiers / member chains for one region."""
    def __init__(self, ints=None, bools=None, enums=None, inline=None):
        self.ints = dict(ints or {})      # dotted C++ name -> lean name (Int)
        self.bools = dict(bools or {})    # dotted C++ name -> lean name (Bool)
        self.enums = dict(enums or {})    # dotted C++ name -> int literal
        self.inline = dict(inline or {})  # function name -> (param, ast)  (lambdas such as cvt_idx)


def dotted(a):
    if a[0] == 'id':
        return a[1]
    if a[0] == 'mem':
        b = dotted(a[1])
        return None if b is None else b + '.' + a[2]
    return None


def subst(ast, name, repl):
    if isinstance(ast, tuple):
        if ast == ('id', name):
            return repl
        return tuple(subst(x, name, repl) for x in ast)
    if isinstance(ast, list):
        return [subst(x, name, repl) for x in ast]
    return ast


def lean_int(a, env: Env):
    e, t = lean_expr(a, env)
    if t != 'I':
        raise TranslationError(f'expected an integer expression, got {t}: {a!r}')
    return e


def lean_bool(a, env: Env):
    e, t = lean_expr(a, env)
    if t == 'I':
        raise TranslationError(f'integer used as condition: {a!r}')
    return e


def lean_expr(a, env: Env):
    k = a[0]
    if k == 'num':
        t = a[1].rstrip('uUlL')
        if not t.isdigit():
            raise TranslationError(f'non-integer literal {a[1]}')
        return f'({t} : Int)', 'I'
    if k == 'cast':
        return lean_expr(a[2], env)           # index-width conversions are value-preserving in the model
    if k == 'un' and a[1] == '*':
        d = dotted(a[2])
        if d is not None and ('*' + d) in env.ints:
            return env.ints['*' + d], 'I'
        raise TranslationError(f'unresolved dereference {a!r}')
    if k in ('id', 'mem'):
        d = dotted(a)
        if d is None:
            raise TranslationError(f'unsupported member access {a!r}')
        if d in env.enums:
            return f'({env.enums[d]} : Int)', 'I'
        if d in env.ints:
            return env.ints[d], 'I'
        if d in env.bools:
            return env.bools[d], 'B'
        if d in ('true', 'false'):
            return d, 'B'
        raise TranslationError(f'unresolved identifier {d!r}')
    if k == 'un':
        if a[1] == '-':
            return f'(-{lean_int(a[2], env)})', 'I'
        if a[1] == '+':
            return lean_expr(a[2], env)
        if a[1] == '!':
            return f'(!{lean_bool(a[2], env)})', 'B'
        raise TranslationError(f'unsupported unary {a[1]}')
    if k == 'bin':
        op = a[1]
        if op in ('&&', '||'):
            return f'({lean_bool(a[2], env)} {op} {lean_bool(a[3], env)})', 'B'
        if op in ('+', '-', '*', '/'):
            return f'({lean_int(a[2], env)} {op} {lean_int(a[3], env)})', 'I'
        if op in ('<', '>', '<=', '>=', '==', '!='):
            x, tx = lean_expr(a[2], env)
            y, ty = lean_expr(a[3], env)
            if tx != ty:
                raise TranslationError(f'comparison between {tx} and {ty}')
            if op == '==':
                return f'({x} == {y})', 'B'
            if op == '!=':
                return f'({x} != {y})', 'B'
            if tx != 'I':
                raise TranslationError('ordering on Bool')
            lop = {'<': '<', '>': '>', '<=': '≤', '>=': '≥'}[op]
            return f'(decide ({x} {lop} {y}))', 'B'
        raise TranslationError(f'unsupported binary operator {op}')
    if k == 'tern':
        c = lean_bool(a[1], env)
        x, tx = lean_expr(a[2], env)
        y, ty = lean_expr(a[3], env)
        if tx != ty:
            raise TranslationError('ternary branches of different type')
        return f'(if {c} then {x} else {y})', tx
    if k == 'call':
        f = dotted(a[1])
        if f in env.inline and len(a[2]) == 1:
            param, body = env.inline[f]
            return lean_expr(subst(body, param, a[2][0]), env)
        raise TranslationError(f'unsupported call {f}(…)')
    raise TranslationError(f'unsupported expression node {k}')


def skel_hash(obj):
    return hashlib.sha256(repr(obj).encode()).hexdigest()[:16]


RECORD = False
GOT = {}
PIN_ERRORS = []


def pin(key, h, what):
    """Compare a skeleton hash with the one the hand-written model was derived from.  A mismatch is
    collected (the Lean file is still regenerated from what could be translated) and reported as
    a broken tie at the end of the run."""
    GOT[key] = h
    if not RECORD and EXPECTED.get(key) != h:
        PIN_ERRORS.append(f'{what} changed (hash {h}, modelled {EXPECTED.get(key)}); the hand-written '
                          'model in Model/C14.lean mirrors the recorded shape and must be re-derived')


def is_throw(s, exc):
    return (s[0] == 'throw' and s[1][0] == 'call' and dotted(s[1][1]) == 'std::' + exc)


def unwrap(s):
    """Statements of a block / single statement."""
    return list(s[1]) if s[0] == 'block' else [s]


# ------------------------------------------------------------------ locating converters

SPEC_RE = re.compile(r'struct\s+SparsityConverter\s*<\s*(\w+)\s*<([^<>]*)>\s*,\s*(\w+)\s*<([^<>]*)>\s*>\s*\{')


def converters(src):
    out = {}
    for m in SPEC_RE.finditer(src):
        f, t = m.group(1), m.group(3)
        ob = m.end() - 1
        body = src[ob + 1:cp.match_brace(src, ob)]
        if (f, t) in out:
            raise TranslationError(f'duplicate specialisation {f}→{t}')
        out[(f, t)] = body
    return out


def method(body, anchor_re, what):
    try:
        _, b = cp.find_region(body, anchor_re)
    except TranslationError:
        raise TranslationError(f'{what}: method not found ({anchor_re})')
    return b


def split_switch(text, what):
    """text contains exactly one `switch (…) { … }`; returns (subject_expr_text, {label: body_text},
    text_with_placeholder)."""
    ms = list(re.finditer(r'\bswitch\s*\(', text))
    if len(ms) != 1:
        raise TranslationError(f'{what}: expected exactly one switch, found {len(ms)}')
    m = ms[0]
    cp_close = cp.match_brace(text, m.end() - 1, '(', ')')
    subject = text[m.end():cp_close]
    ob = text.index('{', cp_close)
    cb = cp.match_brace(text, ob)
    inner = text[ob + 1:cb]
    labels = list(re.finditer(r'\bcase\s+([\w:]+)\s*:(?!:)|\bdefault\s*:', inner))
    cases = {}
    for i, lm in enumerate(labels):
        end = labels[i + 1].start() if i + 1 < len(labels) else len(inner)
        name = lm.group(1) or 'default'
        if name in cases:
            raise TranslationError(f'{what}: duplicate case {name}')
        cases[name] = inner[lm.end():end]
    if inner[:labels[0].start()].strip() if labels else True:
        raise TranslationError(f'{what}: statements before the first case label')
    return subject.strip(), cases, text[:m.start()] + '__SWITCH__;' + text[cb + 1:]


def return_fields(text, what):
    """The designated initialisers of the (last) `return { .a = …, … };`; also the text without it."""
    ms = list(re.finditer(r'\breturn\s*\{', text))
    if not ms:
        raise TranslationError(f'{what}: no `return {{…}}`')
    fields_all = []
    out = text
    for m in reversed(ms):
        ob = m.end() - 1
        cb = cp.match_brace(out, ob)
        inner = out[ob + 1:cb]
        semi = out.index(';', cb)
        out = out[:m.start()] + '__RETURN__;' + out[semi + 1:]
        # split on top-level commas
        parts, depth, cur = [], 0, ''
        for ch in inner:
            if ch in '([{<' and ch != '<':
                depth += 1
            elif ch in ')]}' :
                depth -= 1
            if ch == ',' and depth == 0:
                parts.append(cur)
                cur = ''
            else:
                cur += ch
        if cur.strip():
            parts.append(cur)
        fields = {}
        for p in parts:
            mm = re.match(r'^\s*\.(\w+)\s*=\s*(.*)$', p.strip(), re.S)
            if not mm:
                raise TranslationError(f'{what}: cannot parse initialiser {p.strip()!r}')
            fields[mm.group(1)] = mm.group(2).strip()
        fields_all.append(fields)
    fields_all.reverse()
    return fields_all, out


def strip_lambda_decl(text, name, what):
    """Remove `auto name = [caps](auto p) { return e; };` and return (param, ast of e, captures)."""
    m = re.search(r'\bauto\s+' + name + r'\s*=\s*\[([^\]]*)\]\s*\(\s*auto\s+(\w+)\s*\)\s*\{', text)
    if not m:
        raise TranslationError(f'{what}: lambda {name} not found')
    ob = m.end() - 1
    cb = cp.match_brace(text, ob)
    semi = text.index(';', cb)
    ss = cp.parse_statements(text[ob + 1:cb])
    if len(ss) != 1 or ss[0][0] != 'return' or ss[0][1] is None:
        raise TranslationError(f'{what}: lambda {name} is not a single return')
    return (m.group(2), ss[0][1], m.group(1).strip()), text[:m.start()] + text[semi + 1:]


# ------------------------------------------------------------------ the translator proper

class Out:
    def __init__(self):
        self.defs = []
        self.regions = {}

    def add(self, name, params, ret, body, doc, ast_for_hash):
        ps = ' '.join(f'({p} : {t})' for p, t in params)
        self.defs.append(f'/-- {doc} -/\ndef {name} {ps} : {ret} :=\n  {body}\n')
        self.regions[name] = skel_hash(ast_for_hash)


def sym_chain(per_case, sym_enum, default, what):
    """if-chain over the symmetry code from {enumerator: lean_expr}; `default` for other codes."""
    s = default
    for name, code in reversed(sym_enum):
        key = 'Symmetry::' + name
        if key not in per_case:
            raise TranslationError(f'{what}: no case for {key}')
        s = f'if symmetry == ({code} : Int) then {per_case[key]}\n  else {s}'
    return s


def shape_rejects(stmts, env, what):
    """OR of the conditions of the top-level `if (c) throw std::invalid_argument(...)` statements.
    Any other statement kind is outside the subset."""
    conds = []
    for s in stmts:
        if s[0] == 'if' and s[3] is None and all(is_throw(t, 'invalid_argument') for t in unwrap(s[2])) \
                and unwrap(s[2]):
            conds.append(s[1])
        elif s == ('expr', ('id', '__RETURN__')):
            continue
        else:
            raise TranslationError(f'{what}: unexpected statement {s[0]} in shape-test region')
    return conds


def or_conds(conds, env):
    if not conds:
        return 'false'
    return ' || '.join(lean_bool(c, env) for c in conds)


def translate_to_dense(o: Out, name, body, sym_enum, is_coo):
    """CSC→Dense / COO→Dense: constructor shape test + the scatter loop of convert_values."""
    what = f'{name}→Dense'
    env = Env(ints={'from.symmetry': 'symmetry', 'from.rows': 'rows', 'from.cols': 'cols'},
              enums={'Symmetry::' + n: v for n, v in sym_enum})
    cs = method(body, r'to_sparsity_t\s+convert_sparsity\s*\(', what)
    fields, cs_wo = return_fields(cs, what)
    conds = shape_rejects(cp.parse_statements(cs_wo), env, what)
    o.add(f'{name}DenseRejectsShape', [('symmetry', 'Int'), ('rows', 'Int'), ('cols', 'Int')], 'Bool',
          or_conds(conds, env),
          f'{what} convert_sparsity: condition under which `std::invalid_argument` is thrown', conds)
    want = {'rows': 'from.rows', 'cols': 'from.cols', 'symmetry': 'from.symmetry'}
    if len(fields) != 1 or fields[0] != want:
        raise TranslationError(f'{what}: returned pattern is not {{rows, cols, symmetry}} of the source: {fields}')
    # convert_values
    cv = method(body, r'void\s+convert_values\s*\(', what)
    subject, cases, skel_text = split_switch(cv, what)
    if subject != 'from_sparsity.symmetry':
        raise TranslationError(f'{what}: switch subject is {subject!r}')
    skel = cp.parse_statements(skel_text)
    h = skel_hash(_blank_decl_init(skel, ('r', 'c')) if is_coo else skel)
    o.regions[f'{name}DenseLoopSkeleton'] = h
    pin(f'{name}Dense', h, f'{what}: loop skeleton of convert_values')
    # inside the loops: how r, c are obtained
    if is_coo:
        eenv = Env(ints={'from_sparsity.row_indices(l)': 'row_index', 'from_sparsity.col_indices(l)': 'col_index',
                         'from_sparsity.first_index': 'first_index'})
        loop = [s for s in skel if s[0] == 'for']
        if len(loop) != 1:
            raise TranslationError(f'{what}: expected one loop')
        decls = {s[2]: s[3] for s in unwrap(loop[0][4]) if s[0] == 'decl'}
        for var, key, arg in (('r', 'row_indices', 'row_index'), ('c', 'col_indices', 'col_index')):
            if var not in decls:
                raise TranslationError(f'{what}: no declaration of {var}')
            ast = decls[var]
            call = ('call', ('mem', ('id', 'from_sparsity'), key, False), [('id', 'l')], None)
            ast2 = _replace(ast, call, ('id', '__IDX__'))
            e = lean_int(ast2, Env(ints={'__IDX__': arg, 'from_sparsity.first_index': 'first_index'}))
            o.add(f'cooDense{"Row" if var == "r" else "Col"}', [(arg, 'Int'), ('first_index', 'Int')], 'Int', e,
                  f'{what} convert_values: `auto {var} = …` (zero-based {"row" if var == "r" else "column"})', ast)
    # per-symmetry: throw conditions and scatter targets
    throws, writes = {}, {}
    tenv = Env(ints={'r': 'r', 'c': 'c'})
    for label, text in cases.items():
        ss = cp.parse_statements(text)
        conds, targets, unconditional = [], [], False
        for s in ss:
            if s == ('break',):
                continue
            if is_throw(s, 'invalid_argument'):
                unconditional = True
            elif s[0] == 'if' and s[3] is None and unwrap(s[2]) and \
                    all(is_throw(t, 'invalid_argument') for t in unwrap(s[2])):
                if targets:
                    raise TranslationError(f'{what}/{label}: triangle test after a write')
                conds.append(s[1])
            elif s[0] == 'expr' and s[1][0] == 'bin' and s[1][1] == '=':
                # T(a, b) = T(c, d) = … = work(l): executed right to left
                chain = []
                e = s[1]
                while e[0] == 'bin' and e[1] == '=':
                    chain.append(e[2])
                    e = e[3]
                if e != ('call', ('id', 'work'), [('id', 'l')], None):
                    raise TranslationError(f'{what}/{label}: scatter source is not work(l)')
                for t in reversed(chain):
                    if t[0] != 'call' or t[1] != ('id', 'T') or len(t[2]) != 2:
                        raise TranslationError(f'{what}/{label}: scatter target is not T(i, j)')
                    targets.append((lean_int(t[2][0], tenv), lean_int(t[2][1], tenv)))
            else:
                raise TranslationError(f'{what}/{label}: unexpected statement {s[0]}')
        if unconditional and (conds or targets):
            raise TranslationError(f'{what}/{label}: mixed unconditional throw')
        throws[label] = 'true' if unconditional else or_conds(conds, tenv)
        writes[label] = '[' + ', '.join(f'({a}, {b})' for a, b in targets) + ']'
    if 'default' not in cases:
        raise TranslationError(f'{what}: switch without default')
    o.add(f'{name}DenseThrows', [('symmetry', 'Int'), ('r', 'Int'), ('c', 'Int')], 'Bool',
          sym_chain(throws, sym_enum, throws['default'], what),
          f'{what} convert_values: entry (r, c) makes the scatter loop throw `std::invalid_argument`',
          sorted(throws.items()))
    o.add(f'{name}DenseWrites', [('symmetry', 'Int'), ('r', 'Int'), ('c', 'Int')], 'List (Int × Int)',
          sym_chain(writes, sym_enum, writes['default'], what),
          f'{what} convert_values: cells T(i, j) assigned `work(l)` for entry (r, c), in execution order',
          sorted(writes.items()))


def _blank_decl_init(ast, names):
    """Blank the initialisers of the named declarations (translated separately) in a skeleton."""
    if isinstance(ast, tuple):
        if len(ast) == 4 and ast[0] == 'decl' and ast[2] in names:
            return ('decl', ast[1], ast[2], '__INIT__')
        return tuple(_blank_decl_init(x, names) for x in ast)
    if isinstance(ast, list):
        return [_blank_decl_init(x, names) for x in ast]
    return ast


def _replace(ast, pat, repl):
    if ast == pat:
        return repl
    if isinstance(ast, tuple):
        return tuple(_replace(x, pat, repl) for x in ast)
    if isinstance(ast, list):
        return [_replace(x, pat, repl) for x in ast]
    return ast


def delta_function(o: Out, name, stmts, what, with_from):
    """`storage_index_t Δ = 0; if (request.first_index) Δ = <e>;` → Lean."""
    if len(stmts) != 2 or stmts[0][0] != 'decl' or stmts[0][2] != 'Δ' or stmts[1][0] != 'if' \
            or stmts[1][3] is not None:
        raise TranslationError(f'{what}: Δ statements have an unexpected shape')
    ints = {'*request.first_index': 'req_first_index'}
    if with_from:
        ints['from.first_index'] = 'from_first_index'
    env = Env(ints=ints, bools={'request.first_index': 'has_first_index'})
    init = lean_int(stmts[0][3], env)
    c = lean_bool(stmts[1][1], env)
    th = unwrap(stmts[1][2])
    if len(th) != 1 or th[0][0] != 'expr' or th[0][1][0] != 'bin' or th[0][1][1] != '=' \
            or th[0][1][2] != ('id', 'Δ'):
        raise TranslationError(f'{what}: Δ assignment not found')
    e = lean_int(th[0][1][3], env)
    params = [('has_first_index', 'Bool'), ('req_first_index', 'Int')] + \
        ([('from_first_index', 'Int')] if with_from else [])
    o.add(name, params, 'Int', f'if {c} then {e} else {init}', f'{what}: the index shift Δ', stmts)


def first_index_field(o: Out, name, text, what, with_from):
    ints = {'*request.first_index': 'req_first_index'}
    if with_from:
        ints['from.first_index'] = 'from_first_index'
    env = Env(ints=ints, bools={'request.first_index': 'has_first_index'})
    ast = cp.parse_expression(text)
    params = [('has_first_index', 'Bool'), ('req_first_index', 'Int')] + \
        ([('from_first_index', 'Int')] if with_from else [])
    o.add(name, params, 'Int', lean_int(ast, env), f'{what}: `.first_index` of the returned pattern', ast)


def check_copy_fields(fields, what):
    for k in ('rows', 'cols', 'symmetry'):
        if fields.get(k) != 'from.' + k:
            raise TranslationError(f'{what}: returned .{k} is {fields.get(k)!r}, not from.{k}')


def translate_from_dense(o: Out, to, body, sym_enum, order_enum):
    """Dense→COO / Dense→CSC: index generation loops + triangle extraction of the values."""
    nm = 'dense' + {'SparseCOO': 'Coo', 'SparseCSC': 'Csc'}[to]
    what = f'Dense→{to}'
    is_coo = to == 'SparseCOO'
    cs = method(body, r'to_sparsity_t\s+convert_sparsity\s*\(', what)
    fields, cs = return_fields(cs, what)
    if len(fields) != 1:
        raise TranslationError(f'{what}: expected one return')
    fields = fields[0]
    check_copy_fields(fields, what)
    inline = {}
    if not is_coo:
        (param, ast, caps), cs = strip_lambda_decl(cs, 'cvt_idx', what)
        inline['cvt_idx'] = (param, ast)
    subject, cases, skel_text = split_switch(cs, what)
    if subject != 'from.symmetry':
        raise TranslationError(f'{what}: switch subject is {subject!r}')
    pre = cp.parse_statements(skel_text)
    pre = [s for s in pre if s not in (('expr', ('id', '__SWITCH__')), ('expr', ('id', '__RETURN__')))]
    if is_coo:
        delta_function(o, nm + 'Delta', pre, what, with_from=False)
        first_index_field(o, nm + 'FirstIndex', fields['first_index'], what, with_from=False)
    elif pre:
        raise TranslationError(f'{what}: unexpected statements before the switch')
    oenv = Env(enums={'to_sparsity_t::' + n: v for n, v in order_enum})
    oast = cp.parse_expression(fields['order'])
    o.add(nm + 'Order', [], 'Int', lean_int(oast, oenv), f'{what}: `.order` of the returned pattern', oast)
    env = Env(ints={'from.rows': 'rows', 'from.cols': 'cols', 'r': 'r', 'c': 'c', 'l': 'l', 'Δ': 'Del'},
              inline=inline)
    rejects, nnz, rowcond, rowidx, colidx, outer_at, skels = {}, {}, {}, {}, {}, {}, {}
    for label, text in cases.items():
        ss = []
        for s in cp.parse_statements(text):
            ss.extend(unwrap(s) if s[0] == 'block' else [s])
        ss = [s for s in ss if s != ('break',)]
        if len(ss) == 1 and is_throw(ss[0], 'invalid_argument'):
            rejects[label] = 'true'
            for d in (nnz, rowcond, rowidx, colidx, outer_at):
                d[label] = None
            continue
        conds = []
        while ss and ss[0][0] == 'if' and ss[0][3] is None and unwrap(ss[0][2]) and \
                all(is_throw(t, 'invalid_argument') for t in unwrap(ss[0][2])):
            conds.append(ss[0][1])
            ss = ss[1:]
        rejects[label] = or_conds(conds, env)
        # nnz: COO `length_t nnz = e; row_indices.resize(nnz); col_indices.resize(nnz);`
        #      CSC `inner_idx.resize(e); outer_ptr.resize(from.cols + 1);`
        def is_resize(s, vec):
            return (s[0] == 'expr' and s[1][0] == 'call' and s[1][1] == ('mem', ('id', vec), 'resize', False)
                    and len(s[1][2]) == 1)
        if is_coo:
            if not (ss[0][0] == 'decl' and ss[0][2] == 'nnz' and is_resize(ss[1], 'row_indices')
                    and is_resize(ss[2], 'col_indices') and ss[1][1][2][0] == ('id', 'nnz')
                    and ss[2][1][2][0] == ('id', 'nnz')):
                raise TranslationError(f'{what}/{label}: nnz / resize statements have an unexpected shape')
            nnz[label] = lean_int(ss[0][3], env)
            rest = ss[3:]
        else:
            if not (is_resize(ss[0], 'inner_idx') and is_resize(ss[1], 'outer_ptr')):
                raise TranslationError(f'{what}/{label}: resize statements have an unexpected shape')
            nnz[label] = lean_int(ss[0][1][2][0], env)
            if lean_int(ss[1][1][2][0], env) != '(cols + (1 : Int))':
                raise TranslationError(f'{what}/{label}: outer_ptr is not resized to cols + 1')
            rest = ss[2:]
        # `index_t l = 0; for (c…) { [outer_ptr[c] = cvt_idx(l);] for (r = 0; COND; ++r) { …; ++l; } } [outer_ptr[from.cols] = cvt_idx(l);]`
        if not (rest and rest[0][0] == 'decl' and rest[0][2] == 'l' and rest[0][3] == ('num', '0')
                and len(rest) >= 2 and rest[1][0] == 'for'):
            raise TranslationError(f'{what}/{label}: loop nest not found')
        outer = rest[1]
        tail = rest[2:]
        ob = unwrap(outer[4])
        inner = [s for s in ob if s[0] == 'for']
        if len(inner) != 1:
            raise TranslationError(f'{what}/{label}: expected one inner loop')
        inner = inner[0]
        rowcond[label] = lean_bool(inner[2], env)
        assigns = {}
        for s in unwrap(inner[4]):
            if s[0] == 'expr' and s[1][0] == 'bin' and s[1][1] == '=' and s[1][2][0] == 'idx':
                tgt = s[1][2]
                if tgt[2] != ('id', 'l'):
                    raise TranslationError(f'{what}/{label}: index vector not written at l')
                assigns[dotted(tgt[1])] = s[1][3]
        if is_coo:
            if set(assigns) != {'row_indices', 'col_indices'}:
                raise TranslationError(f'{what}/{label}: expected writes to row_indices[l], col_indices[l]')
            rowidx[label] = lean_int(assigns['row_indices'], env)
            colidx[label] = lean_int(assigns['col_indices'], env)
            outer_at[label] = None
        else:
            if set(assigns) != {'inner_idx'}:
                raise TranslationError(f'{what}/{label}: expected a write to inner_idx[l]')
            rowidx[label] = lean_int(assigns['inner_idx'], env)
            colidx[label] = None
            pre_inner = [s for s in ob if s[0] != 'for']
            want_pre = ('expr', ('bin', '=', ('idx', ('id', 'outer_ptr'), ('id', 'c')), None))
            if len(pre_inner) != 1 or pre_inner[0][1][:3] != want_pre[1][:3] or len(tail) != 1:
                raise TranslationError(f'{what}/{label}: outer_ptr writes have an unexpected shape')
            a = lean_int(pre_inner[0][1][3], env)
            t = tail[0]
            if not (t[0] == 'expr' and t[1][0] == 'bin' and t[1][1] == '=' and
                    t[1][2] == ('idx', ('id', 'outer_ptr'), ('mem', ('id', 'from'), 'cols', False))):
                raise TranslationError(f'{what}/{label}: final outer_ptr[from.cols] write not found')
            b = lean_int(t[1][3], env)
            if a != b:
                raise TranslationError(f'{what}/{label}: outer_ptr writes differ')
            outer_at[label] = a
        # skeleton with the translated expressions blanked out
        blank = _replace(_replace(outer, inner[2], ('id', '__COND__')), None, None)
        skels[label] = skel_hash((_blank_rhs(blank), [s[0] for s in tail]))
    for lbl in ('default',):
        if lbl not in cases:
            raise TranslationError(f'{what}: switch without default')
    h = skel_hash(sorted(skels.items()))
    o.regions[nm + 'LoopSkeleton'] = h
    pin(nm, h, f'{what}: loop skeleton of convert_sparsity')
    P3 = [('symmetry', 'Int'), ('rows', 'Int'), ('cols', 'Int')]

    def chain(d, default):
        return sym_chain({k: (v if v is not None else default) for k, v in d.items()}, sym_enum,
                         d['default'] if d['default'] is not None else default, what)
    o.add(nm + 'Rejects', P3, 'Bool', chain(rejects, 'true'),
          f'{what} convert_sparsity: condition under which `std::invalid_argument` is thrown',
          sorted(rejects.items()))
    o.add(nm + 'Nnz', P3, 'Int', chain(nnz, '(0 : Int)'),
          f'{what} convert_sparsity: size the index vectors are resized to', sorted(nnz.items(), key=str))
    o.add(nm + 'RowCond', P3 + [('r', 'Int'), ('c', 'Int')], 'Bool', chain(rowcond, 'false'),
          f'{what} convert_sparsity: continuation condition of the inner loop `for (r = 0; …; ++r)`',
          sorted(rowcond.items(), key=str))
    if is_coo:
        o.add(nm + 'RowIndex', [('symmetry', 'Int'), ('r', 'Int'), ('c', 'Int'), ('Del', 'Int')], 'Int',
              chain(rowidx, '(0 : Int)'), f'{what}: value stored in row_indices[l]', sorted(rowidx.items(), key=str))
        o.add(nm + 'ColIndex', [('symmetry', 'Int'), ('r', 'Int'), ('c', 'Int'), ('Del', 'Int')], 'Int',
              chain(colidx, '(0 : Int)'), f'{what}: value stored in col_indices[l]', sorted(colidx.items(), key=str))
    else:
        o.add(nm + 'InnerIdx', [('symmetry', 'Int'), ('r', 'Int'), ('c', 'Int')], 'Int',
              chain(rowidx, '(0 : Int)'), f'{what}: value stored in inner_idx[l]', sorted(rowidx.items(), key=str))
        o.add(nm + 'OuterPtr', [('symmetry', 'Int'), ('l', 'Int')], 'Int',
              chain(outer_at, '(0 : Int)'), f'{what}: value stored in outer_ptr[c] / outer_ptr[cols] (running count l)',
              sorted(outer_at.items(), key=str))
    # convert_values: `if (sym == Unsymmetric) from(to); else if (sym == Upper) { from(work); …
    #   for (c…) std::ranges::copy_backward(f.col(c).topRows(X), t += Y); }`
    cv = cp.parse_statements(method(body, r'void\s+convert_values\s*\(', what))
    venv = Env(ints={'sparsity.symmetry': 'symmetry', 'c': 'c'}, enums={'Symmetry::' + n: v for n, v in sym_enum})
    if len(cv) != 1 or cv[0][0] != 'if' or cv[0][3] is None or cv[0][3][0] != 'if' or cv[0][3][3] is not None:
        raise TranslationError(f'{what}: convert_values is not an if / else-if')
    c1 = lean_bool(cv[0][1], venv)
    c2 = lean_bool(cv[0][3][1], venv)
    if unwrap(cv[0][2]) != [('expr', ('call', ('id', 'from_'), [('id', 'to')], None))] and \
            unwrap(cv[0][2]) != [('expr', ('call', ('id', 'from'), [('id', 'to')], None))]:
        raise TranslationError(f'{what}: first branch of convert_values is not from(to)')
    br = unwrap(cv[0][3][2])
    loop = [s for s in br if s[0] == 'for']
    if len(loop) != 1:
        raise TranslationError(f'{what}: triangle extraction loop not found')
    lb = unwrap(loop[0][4])
    if len(lb) != 1 or lb[0][0] != 'expr' or lb[0][1][0] != 'call' or \
            dotted(lb[0][1][1]) != 'std::ranges::copy_backward' or len(lb[0][1][2]) != 2:
        raise TranslationError(f'{what}: triangle extraction is not a copy_backward')
    a0, a1 = lb[0][1][2]
    want_src = ('call', ('mem', ('call', ('mem', ('id', 'f'), 'col', False), [('id', 'c')], None), 'topRows', False), None, None)
    if a0[0] != 'call' or a0[1] != want_src[1] or len(a0[2]) != 1:
        raise TranslationError(f'{what}: copy source is not f.col(c).topRows(…)')
    if a1[0] != 'bin' or a1[1] != '+=' or a1[2] != ('id', 't'):
        raise TranslationError(f'{what}: copy destination is not `t += …`')
    vh = skel_hash(_replace(_replace(cv, a0[2][0], ('id', '__X__')), a1[3], ('id', '__Y__')))
    o.regions[nm + 'ValuesSkeleton'] = vh
    o.add(nm + 'ValuesCopy', [('symmetry', 'Int')], 'Bool', c1,
          f'{what} convert_values: values are copied unchanged (`from(to)`)', cv[0][1])
    o.add(nm + 'ValuesTriangle', [('symmetry', 'Int')], 'Bool', f'(!{c1}) && {c2}',
          f'{what} convert_values: the leading `TopRows c` entries of each dense column are extracted', cv[0][3][1])
    o.add(nm + 'TopRows', [('c', 'Int')], 'Int', lean_int(a0[2][0], venv),
          f'{what} convert_values: number of leading entries of column c copied', a0[2][0])
    o.add(nm + 'Advance', [('c', 'Int')], 'Int', lean_int(a1[3], venv),
          f'{what} convert_values: advance of the output iterator for column c', a1[3])
    return vh


def _blank_rhs(ast):
    """Blank the right-hand sides of assignments (translated separately) in a skeleton."""
    if isinstance(ast, tuple):
        if len(ast) == 4 and ast[0] == 'bin' and ast[1] == '=':
            return ('bin', '=', _blank_rhs(ast[2]), '__RHS__')
        return tuple(_blank_rhs(x) for x in ast)
    if isinstance(ast, list):
        return [_blank_rhs(x) for x in ast]
    return ast


def translate_csc_coo(o: Out, body, coo_order, csc_order):
    what = 'SparseCSC→SparseCOO'
    cs = method(body, r'to_sparsity_t\s+convert_sparsity\s*\(', what)
    fields, cs = return_fields(cs, what)
    fields = fields[0]
    check_copy_fields(fields, what)
    ss = [s for s in cp.parse_statements(cs) if s != ('expr', ('id', '__RETURN__'))]
    delta_function(o, 'cscCooDelta', ss[:2], what, with_from=False)
    first_index_field(o, 'cscCooFirstIndex', fields['first_index'], what, with_from=False)
    rest = ss[2:]
    env = Env(ints={'r': 'r', 'c': 'c', 'Δ': 'Del'})
    loops = [s for s in rest if s[0] == 'for']
    if len(loops) != 1:
        raise TranslationError(f'{what}: loop nest not found')
    inner = [s for s in unwrap(loops[0][4]) if s[0] == 'for']
    if len(inner) != 1:
        raise TranslationError(f'{what}: inner loop not found')
    assigns = {}
    for s in unwrap(inner[0][4]):
        if s[0] == 'expr' and s[1][0] == 'bin' and s[1][1] == '=' and s[1][2][0] == 'idx':
            if s[1][2][2] != ('id', 'l'):
                raise TranslationError(f'{what}: index vector not written at l')
            assigns[dotted(s[1][2][1])] = s[1][3]
    if set(assigns) != {'row_indices', 'col_indices'}:
        raise TranslationError(f'{what}: expected writes to row_indices[l], col_indices[l]')
    o.add('cscCooRowIndex', [('r', 'Int'), ('c', 'Int'), ('Del', 'Int')], 'Int',
          lean_int(assigns['row_indices'], env), f'{what}: value stored in row_indices[l]', assigns['row_indices'])
    o.add('cscCooColIndex', [('r', 'Int'), ('c', 'Int'), ('Del', 'Int')], 'Int',
          lean_int(assigns['col_indices'], env), f'{what}: value stored in col_indices[l]', assigns['col_indices'])
    h = skel_hash(_blank_rhs(rest))
    o.regions['cscCooLoopSkeleton'] = h
    pin('cscCoo', h, f'{what}: loop skeleton of convert_sparsity')
    oenv = Env(ints={'from.order': 'from_order'},
               enums={**{'to_sparsity_t::' + n: v for n, v in coo_order},
                      **{'from_sparsity_t::' + n: v for n, v in csc_order}})
    oast = cp.parse_expression(fields['order'])
    o.add('cscCooOrder', [('from_order', 'Int')], 'Int', lean_int(oast, oenv),
          f'{what}: `.order` of the returned pattern', oast)
    values_copy(o, 'cscCoo', body, what)


def values_copy(o: Out, nm, body, what):
    cv = cp.parse_statements(method(body, r'void\s+convert_values\s*\(', what))
    ok = cv == [('expr', ('call', ('id', 'from'), [('id', 'to')], None))]
    if not ok:
        raise TranslationError(f'{what}: convert_values is not `from(to);`')
    o.add(nm + 'ValuesCopy', [], 'Bool', 'true', f'{what} convert_values is exactly `from(to);`', cv)


def translate_coo_coo(o: Out, body, coo_order):
    what = 'SparseCOO→SparseCOO'
    cs = method(body, r'to_sparsity_t\s+convert_sparsity\s*\(', what)
    fields, cs = return_fields(cs, what)
    fields = fields[0]
    check_copy_fields(fields, what)
    (param, ast, caps), cs = strip_lambda_decl(cs, 'cvt_idx', what)
    if caps != 'Δ':
        raise TranslationError(f'{what}: cvt_idx does not capture Δ by value')
    cs = re.sub(r'std::is_same_v\s*<\s*StorageIndexFrom\s*,\s*StorageIndexTo\s*>', 'same_index_type', cs)
    ss = [s for s in cp.parse_statements(cs) if s != ('expr', ('id', '__RETURN__'))]
    delta_function(o, 'cooCooDelta', ss[:2], what, with_from=True)
    first_index_field(o, 'cooCooFirstIndex', fields['first_index'], what, with_from=True)
    # early return: if constexpr (same) if (Δ == 0) return from;
    s = ss[2]
    conds = []
    while s[0] == 'if' and s[3] is None:
        conds.append(s[1])
        inner = unwrap(s[2])
        if len(inner) != 1:
            raise TranslationError(f'{what}: early-return nest has an unexpected shape')
        s = inner[0]
    if s != ('return', ('id', 'from')) or not conds:
        raise TranslationError(f'{what}: early `return from;` not found')
    env = Env(ints={'Δ': 'Del'}, bools={'same_index_type': 'same_index_type'})
    o.add('cooCooReuse', [('same_index_type', 'Bool'), ('Del', 'Int')], 'Bool',
          ' && '.join(lean_bool(c, env) for c in conds),
          f'{what}: the source pattern is returned unchanged (`return from;`)', conds)
    o.add('cooCooIndex', [('i', 'Int'), ('Del', 'Int')], 'Int',
          lean_int(subst(ast, param, ('id', '__i__')), Env(ints={'__i__': 'i', 'Δ': 'Del'})),
          f'{what}: the lambda `cvt_idx` applied to every row and column index', ast)
    rest = ss[3:]
    h = skel_hash(rest)
    o.regions['cooCooBodySkeleton'] = h
    pin('cooCoo', h, f'{what}: resize/transform statements')
    oast = cp.parse_expression(fields['order'])
    oenv = Env(ints={'from.order': 'from_order'},
               enums={**{'to_sparsity_t::' + n: v for n, v in coo_order},
                      **{'from_sparsity_t::' + n: v for n, v in coo_order}})
    o.add('cooCooOrder', [('from_order', 'Int')], 'Int', lean_int(oast, oenv),
          f'{what}: `.order` of the returned pattern (`static_cast<Order>(from.order)`)', oast)
    values_copy(o, 'cooCoo', body, what)


def compiled_out_fallback(raw_body, anchor_re, what):
    """Inside the method at anchor: the `#if ALPAQA_HAVE_COO_CSC_CONVERSIONS … #else <stmts> #endif`
    whose #else branch is a single throw; returns the exception class name."""
    m = re.search(anchor_re, raw_body)
    if not m:
        raise TranslationError(f'{what}: anchor not found')
    ob = raw_body.index('{', m.end() - 1)
    cb = cp.match_brace(raw_body, ob)
    text = raw_body[ob + 1:cb]
    found = []
    for mm in re.finditer(r'#\s*if\s+ALPAQA_HAVE_COO_CSC_CONVERSIONS\b(.*?)#\s*endif', text, re.S):
        blk = mm.group(1)
        if re.search(r'#\s*else', blk):
            els = re.split(r'#\s*else', blk)[1]
            ss = cp.parse_statements(re.sub(r'"\s*\n\s*"', '', cp.strip_comments(els)))
            if len(ss) != 1 or ss[0][0] != 'throw' or ss[0][1][0] != 'call':
                raise TranslationError(f'{what}: #else branch is not a single throw')
            found.append(dotted(ss[0][1][1]))
    if len(found) != 1:
        raise TranslationError(f'{what}: expected one #if/#else/#endif fallback, found {len(found)}')
    if not found[0].startswith('std::'):
        raise TranslationError(f'{what}: fallback throws {found[0]}')
    return found[0][5:]


# skeleton hashes of the loops mirrored by the hand-written model (Model/C14.lean)
EXPECTED = {
    'cscDense': 'aca4098c4a371ff9',
    'cooDense': '19b83e808a13152d',
    'denseCoo': '8913e02abc99a008',
    'denseCsc': '5859ce36e92a28f5',
    'denseValues': '9a778ea196cfb887',
    'cscCoo': '512cfe4efd706147',
    'cooCoo': 'ce2b49e080e6b10b',
    'cscCsc': 'faeb399b2d404214',
    'permValues': '402bb1f29b5a5354',
}


def main(out_path):
    o = Out()
    sp_src = cp.strip_comments(read('problem/sparsity.hpp'))
    ops_raw = read('util/sparse-ops.hpp')
    conv_raw = read('problem/sparsity-conversions.hpp')

    # --- enums and variant alternatives
    sym_enum = enum_values(sp_src, r'enum\s+class\s+Symmetry\s*\{')
    _, csc_body = cp.find_region(sp_src, r'struct\s+SparseCSC\s*\{')
    _, coo_body = cp.find_region(sp_src, r'struct\s+SparseCOO\s*\{')
    csc_order = enum_values(csc_body, r'enum\s+Order\s*\{')
    coo_order = enum_values(coo_body, r'enum\s+Order\s*\{')
    mv = re.search(r'using\s+SparsityVariant\s*=\s*std::variant\s*<(.*?)>\s*;', sp_src, re.S)
    if not mv:
        raise TranslationError('SparsityVariant not found')
    alts = []
    for part in re.split(r',\s*(?![^<]*>)', mv.group(1)):
        part = ' '.join(part.split())
        mm = re.match(r'^(\w+)<\s*Conf\s*(?:,\s*([\w ]+?)\s*)?>$', part)
        if not mm:
            raise TranslationError(f'cannot parse variant alternative {part!r}')
        alts.append((mm.group(1), mm.group(2) or ''))

    def lean_pairs(xs, num=True):
        return '[' + ', '.join((f'("{a}", {b})' if num else f'("{a}", "{b}")') for a, b in xs) + ']'
    o.defs.append('/-- sparsity.hpp `enum class Symmetry` -/\n'
                  f'def symmetryEnum : List (String × Nat) := {lean_pairs(sym_enum)}\n')
    o.defs.append('/-- sparsity.hpp `SparseCSC::Order` -/\n'
                  f'def cscOrderEnum : List (String × Nat) := {lean_pairs(csc_order)}\n')
    o.defs.append('/-- sparsity.hpp `SparseCOO::Order` -/\n'
                  f'def cooOrderEnum : List (String × Nat) := {lean_pairs(coo_order)}\n')
    o.defs.append('/-- sparsity.hpp alternatives of `SparsityVariant` (format, index type) -/\n'
                  f'def variantAlternatives : List (String × String) := {lean_pairs(alts, num=False)}\n')
    o.regions['enums'] = skel_hash((sym_enum, csc_order, coo_order, alts))

    # --- feature macro
    cond_text, terms = feature_condition(ops_raw)
    vals = macro_values([n for n, _ in terms])
    have = all(vals[n] >= k for n, k in terms)
    o.defs.append(f'/-- sparse-ops.hpp: `#if {cond_text}` guards ALPAQA_HAVE_COO_CSC_CONVERSIONS -/\n'
                  f'def featureTest : List (String × Nat) := {lean_pairs(terms)}\n')
    o.defs.append(f'/-- values of these macros for `{CXX} {" ".join(STD_FLAGS)}` (0 = undefined) -/\n'
                  f'def buildMacros : List (String × Nat) := {lean_pairs([(n, vals[n]) for n, _ in terms])}\n')
    conj = ' && '.join(f'decide (({vals[n]} : Nat) ≥ {k})' for n, k in terms)
    o.defs.append('/-- ALPAQA_HAVE_COO_CSC_CONVERSIONS in this build -/\n'
                  f'def haveCooCscConversions : Bool := {conj}\n')
    o.regions['featureTest'] = skel_hash((terms, vals))

    # --- converters
    raw_convs = converters(conv_raw)                      # with preprocessor lines (for fallbacks)
    src = cp.strip_comments(preprocess(conv_raw, have))
    src = re.sub(r'"\s*\n\s*"', '', src)           # adjacent string literals (exception messages)
    convs = converters(src)
    pairs = sorted(convs.keys(), key=lambda p: (KINDS.index(p[0]) if p[0] in KINDS else 9,
                                                KINDS.index(p[1]) if p[1] in KINDS else 9))
    for f, t in pairs:
        if f not in KINDS or t not in KINDS:
            raise TranslationError(f'specialisation over an unknown format: {f}→{t}')
    o.defs.append('/-- the `SparsityConverter<From, To>` partial specialisations present in '
                  'sparsity-conversions.hpp -/\n'
                  f'def converterPairs : List (String × String) := {lean_pairs(pairs, num=False)}\n')
    o.regions['converterPairs'] = skel_hash(pairs)
    has_wrapper = re.search(r'struct\s+SparsityConverter\s*<\s*Sparsity\s*<\s*Conf\s*>\s*,\s*To\s*>', src) is not None
    o.defs.append('/-- the variant wrapper `SparsityConverter<Sparsity<Conf>, To>` exists -/\n'
                  f'def hasVariantWrapper : Bool := {"true" if has_wrapper else "false"}\n')

    def need(f, t):
        if (f, t) not in convs:
            raise TranslationError(f'specialisation SparsityConverter<{f}, {t}> not found')
        return convs[(f, t)]

    # Dense → Dense
    body = need('Dense', 'Dense')
    ctor_re = (r'SparsityConverter\s*\(\s*from_sparsity_t\s+from\s*,\s*Request\s*=\s*\{\s*\}\s*\)\s*'
               r':\s*sparsity\s*\(\s*from\s*\)\s*(?=\{)')
    try:
        _, ctor = cp.find_region(body, ctor_re)
    except TranslationError:
        raise TranslationError('Dense→Dense: constructor `SparsityConverter(from, Request = {}) : sparsity(from)` not found')
    env = Env(ints={'from.symmetry': 'symmetry', 'from.rows': 'rows', 'from.cols': 'cols'},
              enums={'Symmetry::' + n: v for n, v in sym_enum})
    conds = shape_rejects(cp.parse_statements(ctor), env, 'Dense→Dense')
    o.add('denseDenseRejectsShape', [('symmetry', 'Int'), ('rows', 'Int'), ('cols', 'Int')], 'Bool',
          or_conds(conds, env), 'Dense→Dense constructor: condition under which `std::invalid_argument` is thrown',
          conds)
    values_copy(o, 'denseDense', body, 'Dense→Dense')

    # X → Dense
    for f, is_coo in (('SparseCSC', False), ('SparseCOO', True)):
        translate_to_dense(o, SHORT[f], need(f, 'Dense'), sym_enum, is_coo)

    # Dense → X
    vhs = []
    for t, oe in (('SparseCOO', coo_order), ('SparseCSC', csc_order)):
        vhs.append(translate_from_dense(o, t, need('Dense', t), sym_enum, oe))
    pin('denseValues', skel_hash(vhs), 'Dense→sparse: convert_values skeleton')

    # CSC → COO, COO → COO
    translate_csc_coo(o, need('SparseCSC', 'SparseCOO'), coo_order, csc_order)
    translate_coo_coo(o, need('SparseCOO', 'SparseCOO'), coo_order)

    # COO → CSC and CSC → CSC: compiled-out fallbacks; CSC → CSC request logic pinned
    need('SparseCOO', 'SparseCSC')
    exc1 = compiled_out_fallback(raw_convs[('SparseCOO', 'SparseCSC')],
                                 r'to_sparsity_t\s+convert_sparsity\s*\(', 'SparseCOO→SparseCSC')
    exc2 = compiled_out_fallback(raw_convs[('SparseCSC', 'SparseCSC')],
                                 r'auto\s+sort_indices\s*=\s*\[&\]\s*\{', 'SparseCSC→SparseCSC sort_indices')
    o.defs.append('/-- COO→CSC `convert_sparsity`: exception thrown by the `#else` branch of '
                  '`#if ALPAQA_HAVE_COO_CSC_CONVERSIONS` -/\n'
                  f'def cooCscFallbackThrows : String := "{exc1}"\n')
    o.defs.append('/-- CSC→CSC `sort_indices`: exception thrown by the `#else` branch -/\n'
                  f'def cscCscSortFallbackThrows : String := "{exc2}"\n')
    if not have:
        # the whole body of COO→CSC convert_sparsity must be that throw in this build
        cs = cp.parse_statements(method(need('SparseCOO', 'SparseCSC'),
                                        r'to_sparsity_t\s+convert_sparsity\s*\(', 'SparseCOO→SparseCSC'))
        if len(cs) != 1 or not is_throw(cs[0], exc1):
            raise TranslationError('SparseCOO→SparseCSC: convert_sparsity does more than throw in this build')
    body = need('SparseCSC', 'SparseCSC')
    cs = method(body, r'to_sparsity_t\s+convert_sparsity\s*\(', 'SparseCSC→SparseCSC')
    h = skel_hash(cp.tokenize(cs))
    o.regions['cscCscBodyTokens'] = h
    pin('cscCsc', h, 'SparseCSC→SparseCSC: convert_sparsity (request / need_sorting logic)')
    pv = []
    for f in ('SparseCSC', 'SparseCOO'):
        pv.append(cp.parse_statements(method(need(f, 'SparseCSC'), r'void\s+convert_values\s*\(', f + '→SparseCSC')))
    if pv[0] != pv[1]:
        raise TranslationError('COO→CSC and CSC→CSC convert_values differ')
    h = skel_hash(pv[0])
    o.regions['permValuesSkeleton'] = h
    pin('permValues', h, '→SparseCSC convert_values (permutation gather)')

    if RECORD:
        return dict(GOT)

    text = ('/- GENERATED by /verif/gen/gen_c14.py from sparsity.hpp, sparsity-conversions.hpp, '
            'sparse-ops.hpp — do not edit. -/\n\nset_option linter.unusedVariables false\n\nnamespace Alpaqa.Gen.C14\n\n'
            + '\n'.join(o.defs) + '\nend Alpaqa.Gen.C14\n')
    old = open(out_path).read() if os.path.exists(out_path) else None
    if old != text:
        with open(out_path, 'w') as f:
            f.write(text)
    if PIN_ERRORS:
        raise TranslationError('; '.join(PIN_ERRORS))
    return o.regions


if __name__ == '__main__':
    args = [a for a in sys.argv[1:] if not a.startswith('--')]
    out = args[0] if args else os.path.join(
        os.path.dirname(os.path.abspath(__file__)), '..', 'lean', 'Alpaqa', 'Gen', 'C14.lean')
    if '--record' in sys.argv:
        # development aid: print the skeleton hashes of the current tree (to paste into EXPECTED)
        RECORD = True
        print(json.dumps(main(out), indent=1))
        sys.exit(0)
    try:
        r = main(out)
        print(json.dumps({'ok': True, 'regions': r}))
    except TranslationError as e:
        print(json.dumps({'ok': False, 'error': str(e)}))
        sys.exit(2)
