#!/usr/bin/env python3
"""C07 translator: the ALM outer loop (alm.tpp) and its helpers (alm-helpers.tpp), re-extracted
from /repo on every run and emitted as Lean (lean/Alpaqa/Gen/C07.lean).

Translated regions (located by anchor + brace matching, never by line number):

  alm.hpp            struct ALMParams            -> structure ALMParams      (field list + types)
  alm.hpp            struct ALMSolver::Stats     -> structure ALMStats, ALMStats.default
  inner-solve-options.hpp  InnerSolveOptions     -> structure InnerSolveOptions (+ defaults)
  alm-helpers.tpp    update_penalty_weights      -> updatePenaltyWeights (both branches; the
                                                    per-component `for` becomes a map over indices)
  alm-helpers.tpp    initialize_penalty (×2)     -> initializePenalty, initializePenaltyOcp
  alm.tpp            `if (params.max_iter == 0) return {…}`   -> almMaxIter0
  alm.tpp            m == 0 block                -> almInnerOptsM0, almM0
  alm.tpp            declarations + Σ selection before the loop -> almInit  (LoopState)
  alm.tpp            `for (unsigned i = 0; i < params.max_iter; ++i)` -> almLoopInit/Cond/Step
  alm.tpp            loop body before the inner call -> almPreCall (projection, out_of_iter), almInnerOpts
  alm.tpp            loop body after the inner call  -> almIter : IterOut  (accounting, Interrupted
                     return, alm_converged / exit / status chain, Σ hand-back, penalty update,
                     tolerance update, error swap)

Also pinned (regex): `ALMSolver::stop()` = `{ stop_signal.stop(); inner_solver.stop(); }`, the data
member `AtomicStopSignal stop_signal;`, and that alm.tpp uses `stop_signal` exactly once — the
`stop_requested()` read after the inner call, which becomes the oracle parameter `stop_requested` of almIter.

Oracles (parameters of the generated definitions): the clock (`out_of_time`; every statement that
only computes times is dropped — the list is explicit below and anything else that cannot be
translated raises TranslationError), the problem (`f0`, `g0` for initialize_penalty, `projMult`
for eval_proj_multipliers), the inner solver's result `ps`, and its statistics accumulator
(`accAdd`).  Printing (`print_interval` block, `print_real`, `printbuf`) is dropped.
"""
import json
import os
import re
import sys
sys.path.insert(0, os.path.dirname(os.path.abspath(__file__)))
import cxxparse as cp
from cxxparse import TranslationError
from lean_emit import Emitter, STD_CLASSES, dotted, _indent

REPO = os.environ.get('VERIF_REPO', '/repo')
INC = REPO + '/src/alpaqa/include/alpaqa/'
ALM_TPP = 'implementation/outer/alm.tpp'
HELP_TPP = 'implementation/outer/internal/alm-helpers.tpp'
ALM_HPP = 'outer/alm.hpp'
OPTS_HPP = 'inner/inner-solve-options.hpp'

NFC = lambda s: cp.unicodedata.normalize('NFC', s)


def read(rel):
    return NFC(cp.strip_comments(open(INC + rel, encoding='utf8').read()))


# ------------------------------------------------------------------------------ struct tables

SCALAR_T = {'real_t': 'S', 'unsigned': 'N', 'unsigned int': 'N', 'int': 'N', 'bool': 'B',
            'SolverStatus': 'E'}
LEAN_T = {'S': 'α', 'N': 'Nat', 'B': 'Bool', 'E': 'SolverStatus', 'V': 'Vec α', 'A': 'A'}


def struct_fields(body, skip, extra_types=None):
    """[(cxx_name, type_code, init_text|None)] for `T name = init;` / `T name{};` / `T name;`
    member declarations, in source order.  Members named in `skip` are left out (they must
    exist); anything else that is not understood raises."""
    types = dict(SCALAR_T)
    types.update(extra_types or {})
    out, seen_skip = [], set()
    depth0 = re.sub(r'\bUSING_ALPAQA_CONFIG\s*\([^)]*\)\s*;', '', body)
    for stmt in depth0.split(';'):
        st = ' '.join(stmt.split())
        if not st:
            continue
        m = re.match(r'^(?P<ty>[\w:<> ,]+?)\s*(?P<ptr>\*?)\s*(?P<name>[^\W\d]\w*)\s*'
                     r'(?:=\s*(?P<init>.+)|\{\s*(?P<binit>[^}]*)\})?$', st, flags=re.U)
        if not m:
            raise TranslationError(f'struct member not understood: {st!r}')
        name, ty = m.group('name'), m.group('ty').strip()
        if name in skip:
            seen_skip.add(name)
            continue
        ty = re.sub(r'^typename\s+', '', ty)
        if m.group('ptr') or ty not in types:
            raise TranslationError(f'struct member {name!r} has untranslated type {ty!r}')
        init = m.group('init')
        if init is None and m.group('binit') is not None:
            init = m.group('binit').strip() or None
        out.append((name, types[ty], init))
    missing = set(skip) - seen_skip
    if missing:
        raise TranslationError(f'expected (skipped) struct members not found: {sorted(missing)}')
    return out


def struct_body(src, anchor):
    _, body = cp.find_region(src, anchor)
    # drop nested function bodies / doc leftovers: only data members are expected here
    return body


# ------------------------------------------------------------------------------ emitter

class Emitter7(Emitter):
    """lean_emit.Emitter extended (inside this generator only) with what alm.tpp needs:
    struct-valued locals (`s.x = e` → `{ s with x := e }`), Bool→Nat accounting, element loops
    `for (index_t i = 0; i < v.rows(); ++i) { … v(i) … }` → map over indices, `setConstant`,
    `swap`, `vec::Constant`, calls to the other generated helpers, a `return`-wrapper."""

    def __init__(self, resolve, **kw):
        super().__init__(resolve, **kw)
        self.struct_vars = {}      # cxx name -> {field cxx name -> (lean field, type)}
        self.on_return = None      # lean expr of returned value -> lean term
        self.helper_calls = {}     # dotted callee -> fn(args_ast, em) -> [(name, ty, lean_rhs)]
        self.decl_default = {}     # (type_text) -> lean term for `T name;`
        self.stop_oracle = None    # lean name of the stop-flag oracle (loop body after the inner call only)
        self.stop_reads = 0        # number of `stop_signal.stop_requested()` reads translated

    # -- expressions ---------------------------------------------------------------------
    def coerce(self, e, t, want):
        if t == 'B' and want == 'N':
            return f'(b2n {e})', 'N'
        return super().coerce(e, t, want)

    def _expr(self, a, want):
        if a[0] == 'leanraw':
            return a[1], a[2]
        if a[0] in ('id', 'mem'):
            d = dotted(a)
            if d is not None and '.' in d:
                base, fld = d.split('.', 1)
                if base in self.struct_vars and base in self.locals_struct():
                    f = self.struct_vars[base].get(fld)
                    if f is None:
                        raise TranslationError(f'unknown field {d}')
                    return f'{self.locals_struct()[base]}.{f[0]}', f[1]
        return super()._expr(a, want)

    def locals_struct(self):
        return {k: v[0] for k, v in self.locals.items() if v[1] == 'T'}

    def binop(self, a, want):
        op = a[1]
        if op in ('+', '-'):
            # integer accounting with a bool operand (`n += not converged`)
            try:
                return super().binop(a, want)
            except TranslationError:
                x, tx = self.expr(a[2])
                y, ty = self.expr(a[3])
                if {tx, ty} == {'N', 'B'}:
                    x, _ = self.coerce(x, tx, 'N')
                    y, _ = self.coerce(y, ty, 'N')
                    return f'({x} {op} {y})', 'N'
                if tx == 'A':
                    if op != '+':
                        raise
                    return f'(accAdd {x} {y})', 'A'
                raise
        return super().binop(a, want)

    def call(self, a, want):
        f, args = a[1], a[2]
        d = dotted(f)
        if d == 'vec::Constant' and len(args) == 2 and not self.componentwise:
            n, _ = self.expr(args[0], 'N')
            v, _ = self.expr(args[1], 'S')
            return f'(List.replicate {n} {v})', 'V'
        if f[0] == 'mem' and f[2] in ('maxCoeff', 'minCoeff') and not args and not self.componentwise:
            # Eigen redux with scalar_max_op / scalar_min_op = std::max / std::min, left fold
            v, t = self.expr(f[1])
            if t != 'V':
                raise TranslationError(f'.{f[2]}() on non-vector')
            self.nat_lits.add(0)
            return f'(redux {"emax" if f[2] == "maxCoeff" else "emin"} (0 : α) {v})', 'S'
        if d == 'stop_signal.stop_requested' and not args and self.stop_oracle is not None:
            # ALMSolver's own AtomicStopSignal, read once per loop pass: an oracle bit
            self.stop_reads += 1
            return self.stop_oracle, 'B'
        if f[0] == 'id' and len(args) == 1 and a[3] is None:
            # Eigen coefficient access `v(k)`
            try:
                lv, t = self.lookup(f[1])
            except TranslationError:
                t = None
            if t == 'V':
                k, _ = self.expr(args[0], 'N')
                return f'(vget {lv} {k})', 'S'
        return super().call(a, want)

    # -- statements ----------------------------------------------------------------------
    def assigned(self, stmts):
        out = []

        def add(d):
            if d is not None:
                root = d.split('.')[0] if d.split('.')[0] in self.struct_vars else d
                if root not in out:
                    out.append(root)

        def visit_expr(e):
            if e[0] == 'bin' and e[1] in ('=', '+=', '-=', '*=', '/='):
                add(dotted(e[2]))
            elif e[0] in ('post', 'un') and e[1] in ('++', '--'):
                add(dotted(e[2]))
            elif e[0] == 'call' and e[1][0] == 'mem' and e[1][2] == 'setConstant':
                add(dotted(e[1][1]))
            elif e[0] == 'call' and e[1][0] == 'mem' and e[1][2] == 'swap':
                add(dotted(e[1][1]))
                add(dotted(e[2][0]))
            elif e[0] == 'call' and dotted(e[1]) in self.helper_calls:
                for nm in self.helper_calls[dotted(e[1])][1](e[2]):
                    add(nm)

        def visit(s, declared):
            k = s[0]
            if k == 'expr':
                visit_expr(s[1])
            elif k == 'block':
                inner = set(declared)
                for t in s[1]:
                    if t[0] == 'decl' and isinstance(t[2], str):
                        inner.add(t[2])
                    visit(t, inner)
            elif k == 'if':
                visit(s[2], declared)
                if s[3] is not None:
                    visit(s[3], declared)
            elif k == 'for':
                for nm in self.for_targets(s):
                    add(nm)
        declared = set()
        for s in stmts:
            if s[0] == 'decl' and isinstance(s[2], str):
                declared.add(s[2])
            visit(s, declared)
        return [n for n in out if n not in declared]

    # element loop ------------------------------------------------------------------------
    def for_shape(self, s):
        """Check `for (index_t i = 0; i < V.rows(); ++i)`; returns (loopvar, V)."""
        _, init, cond, step, body = s
        ok = (init[0] == 'decl' and init[1].split()[-1] in ('index_t', 'length_t') and
              isinstance(init[2], str) and init[3] == ('num', '0'))
        if not ok:
            raise TranslationError(f'for-loop init not `index_t i = 0`: {init!r}')
        i = init[2]
        if not (cond and cond[0] == 'bin' and cond[1] == '<' and cond[2] == ('id', i) and
                cond[3][0] == 'call' and cond[3][1][0] == 'mem' and
                cond[3][1][2] in ('rows', 'size') and not cond[3][2]):
            raise TranslationError(f'for-loop condition not `i < v.rows()`: {cond!r}')
        if step not in (('un', '++', ('id', i)), ('post', '++', ('id', i))):
            raise TranslationError(f'for-loop step not `++i`: {step!r}')
        return i, dotted(cond[3][1][1])

    def elem_rewrite(self, a, i, found):
        """`V(i)` → synthetic scalar identifier `V⟦i⟧`."""
        if not isinstance(a, tuple):
            return a
        if a and a[0] == 'call' and a[1][0] == 'id' and a[2] == [('id', i)] and a[3] is None:
            v = a[1][1]
            try:
                _, t = self.lookup(v)
            except TranslationError:
                t = None
            if t == 'V':
                found.add(v)
                return ('id', f'{v}⟦{i}⟧')
        return tuple(self.elem_rewrite(x, i, found) if isinstance(x, tuple)
                     else ([self.elem_rewrite(y, i, found) for y in x] if isinstance(x, list) else x)
                     for x in a)

    def for_targets(self, s):
        i, _ = self.for_shape(s)
        found = set()
        body = self.elem_rewrite(s[4], i, found)
        sub = Emitter7(lambda d: None)
        names = Emitter.assigned(sub, [body] if body[0] != 'block' else list(body[1]))
        tg = []
        for n in names:
            m = re.match(r'^(.*)⟦' + re.escape(i) + r'⟧$', n)
            if not m:
                raise TranslationError(f'element loop assigns non-element {n!r}')
            tg.append(m.group(1))
        return tg

    def emit_for(self, s):
        """Returns [(vector name, lean term)] — the vectors rebuilt by the loop."""
        i, bound = self.for_shape(s)
        found = set()
        body = self.elem_rewrite(s[4], i, found)
        targets = self.for_targets(s)
        if len(targets) != 1:
            raise TranslationError(f'element loop must assign exactly one vector, got {targets}')
        tv = targets[0]
        li = cp.mangle(i)
        sub = Emitter7(None)
        outer = self

        def resolve(d):
            m = re.match(r'^(.*)⟦' + re.escape(i) + r'⟧$', d)
            if m:
                lv, t = outer.lookup(m.group(1))
                return f'(vget {lv} {li})', 'S'
            if d == i:
                return li, 'N'
            try:
                return outer.lookup(d)
            except TranslationError:
                return None
        sub.resolve = resolve
        sub.struct_vars = self.struct_vars
        sub.ret_type = None
        sub.out_types = {}
        sub.locals = {}
        stmts = list(body[1]) if body[0] == 'block' else [body]
        tname = f'{tv}⟦{i}⟧'
        orig_bind = sub.bind

        def bind(name, ty):
            if name == tname:
                lean = cp.mangle(tv) + '_' + li
                sub.locals[name] = (lean, ty)
                return lean
            return orig_bind(name, ty)
        sub.bind = bind
        term = sub.stmts(stmts, lambda: sub.lookup(tname)[0])
        self.nat_lits |= sub.nat_lits
        lb, _ = self.lookup(bound)
        return [(tv, f'((List.range (List.length {lb})).map fun {li} =>\n{_indent(term, 4)})')]

    def rebind_and_continue(self, binds, rest, final):
        saved = dict(self.locals)
        lines = []
        # evaluate all right-hand sides before binding (simultaneous assignment, e.g. swap)
        tmp = []
        for nm, ty, rhs in binds:
            tmp.append((nm, ty, rhs))
        if len(tmp) > 1:
            names = [cp.mangle(nm.replace('.', '_')) for nm, _, _ in tmp]
            lines.append(f'let ({", ".join(names)}) := ({", ".join(r for _, _, r in tmp)})')
            for (nm, ty, _), ln in zip(tmp, names):
                self.locals[nm] = (ln, ty)
        else:
            nm, ty, rhs = tmp[0]
            ln = self.bind(nm, ty)
            lines.append(f'let {ln} := {rhs}')
        body = self.stmts(rest, final)
        self.locals = saved
        return '\n'.join(lines + [body])

    def stmts(self, ss, final):
        if not ss:
            return final()
        s, rest = ss[0], ss[1:]
        k = s[0]
        if k == 'decl' and isinstance(s[2], str) and s[3] is None and s[1].strip() in self.decl_default:
            lean_rhs, ty = self.decl_default[s[1].strip()]
            return self.rebind_and_continue([(s[2], ty, lean_rhs)], rest, final)
        if k == 'return' and s[1] is not None and self.on_return is not None:
            e, _ = self.expr(s[1])
            return self.on_return(e)
        if k == 'for':
            binds = [(nm, 'V', term) for nm, term in self.emit_for(s)]
            return self.rebind_and_continue(binds, rest, final)
        if k == 'expr':
            e = s[1]
            # struct field assignment
            if e[0] == 'bin' and e[1] in ('=', '+=', '-=', '*=', '/='):
                d = dotted(e[2])
                if d and '.' in d and d.split('.', 1)[0] in self.struct_vars:
                    base, fld = d.split('.', 1)
                    f = self.struct_vars[base].get(fld)
                    if f is None:
                        raise TranslationError(f'assignment to unknown field {d}')
                    cur, tcur = self.lookup(base)
                    rhs = e[3] if e[1] == '=' else ('bin', e[1][0], e[2], e[3])
                    r, _ = self.expr(rhs, f[1])
                    return self.rebind_and_continue(
                        [(base, 'T', f'{{ {cur} with {f[0]} := {r} }}')], rest, final)
            if e[0] == 'call' and e[1][0] == 'mem' and e[1][2] == 'setConstant' and len(e[2]) == 1:
                d = dotted(e[1][1])
                cur, t = self.lookup(d)
                if t != 'V':
                    raise TranslationError('setConstant on non-vector')
                v, _ = self.expr(e[2][0], 'S')
                # Eigen: every coefficient := v, size unchanged
                return self.rebind_and_continue(
                    [(d, 'V', f'({cur}.map fun _ => {v})')], rest, final)
            if e[0] == 'call' and e[1][0] == 'mem' and e[1][2] == 'swap' and len(e[2]) == 1:
                a, b = dotted(e[1][1]), dotted(e[2][0])
                la, ta = self.lookup(a)
                lb, tb = self.lookup(b)
                if ta != 'V' or tb != 'V':
                    raise TranslationError('swap of non-vectors')
                return self.rebind_and_continue([(a, 'V', lb), (b, 'V', la)], rest, final)
            if e[0] == 'call' and dotted(e[1]) in self.helper_calls:
                binds = self.helper_calls[dotted(e[1])][0](e[2], self)
                return self.rebind_and_continue(binds, rest, final)
        if k == 'if' and not self.contains_return(s):
            # like the base class, but struct-valued / loop-assigned names are carried too
            c, _ = self.expr(s[1], 'B')
            th = s[2] if s[2][0] == 'block' else ('block', [s[2]])
            el = s[3] if s[3] is None or s[3][0] == 'block' else ('block', [s[3]])
            mod = self.assigned([s])
            if not mod:
                return self.stmts(rest, final)
            tup = lambda: ('(' + ', '.join(self.lookup(n)[0] for n in mod) + ')') if len(mod) > 1 \
                else self.lookup(mod[0])[0]
            a = self.stmts(list(th[1]), tup)
            b = self.stmts(list(el[1]) if el else [], tup)
            tys = [self.lookup(n)[1] for n in mod]
            saved = dict(self.locals)
            names = [self.bind(n, t) for n, t in zip(mod, tys)]
            pat = '(' + ', '.join(names) + ')' if len(names) > 1 else names[0]
            body = self.stmts(rest, final)
            self.locals = saved
            return f'let {pat} := if {c} then\n{_indent(a)}\n  else\n{_indent(b)}\n{body}'
        return super().stmts(ss, final)

    def type_of_decl(self, tytext, init_t):
        toks = tytext.replace('constexpr', '').replace('const', '').split()
        if toks and toks[-1] == 'auto' and init_t is not None:
            return init_t
        return super().type_of_decl(tytext, init_t)


# ------------------------------------------------------------------------------ main

PARAM_SKIP = ('max_time', 'print_interval', 'print_precision')
STATS_SKIP = ('elapsed_time',)
OPTS_SKIP = ('max_time', 'os')

TYVARS = '{α A S : Type}'


def lean_field(n):
    return cp.mangle(n)


def main(out_path):
    regions = {}
    lits = set()
    alm = read(ALM_TPP)
    helpers = read(HELP_TPP)
    hpp = read(ALM_HPP)
    opts_hpp = read(OPTS_HPP)
    status_src = read('inner/internal/solverstatus.hpp')
    from gen_c06 import enum_names
    st_names = enum_names(status_src, 'SolverStatus')
    enumv = {f'SolverStatus::{n}': f'SolverStatus.{n}' for n in st_names}

    pre = []    # definitions before the `variable` section
    defs = []

    # ---- ALMParams -------------------------------------------------------------------------
    pf = struct_fields(struct_body(hpp, r'struct\s+ALMParams\s*\{'), PARAM_SKIP,
                       {'std::chrono::nanoseconds': None})
    pre.append('/-- `ALMParams` (outer/alm.hpp), members in source order; `max_time` is the clock '
               'oracle, the two print members are not modelled. -/\n'
               'structure ALMParams (α : Type) where\n' +
               ''.join(f'  {lean_field(n)} : {LEAN_T[t]}\n' for n, t, _ in pf))
    regions['ALMParams'] = {'fields': [(n, t, i) for n, t, i in pf]}
    params_env = {f'params.{n}': (f'params.{lean_field(n)}', t) for n, t, _ in pf}

    # ---- InnerSolveOptions -----------------------------------------------------------------
    of = struct_fields(struct_body(opts_hpp, r'struct\s+InnerSolveOptions\s*\{'), OPTS_SKIP,
                       {'std::optional<std::chrono::nanoseconds>': None, 'std::ostream': None})
    pre.append('/-- `InnerSolveOptions` (inner/inner-solve-options.hpp) without `max_time` (clock) '
               'and `os`. -/\n'
               'structure InnerSolveOptions (α : Type) where\n' +
               ''.join(f'  {lean_field(n)} : {LEAN_T[t]}\n' for n, t, _ in of) +
               '  deriving Repr\n')
    regions['InnerSolveOptions'] = {'fields': of}

    # ---- ALMSolver::Stats ------------------------------------------------------------------
    _, alm_cls = cp.find_region(hpp, r'class\s+ALMSolver\s*\{')
    sf = struct_fields(struct_body(alm_cls, r'struct\s+Stats\s*\{'), STATS_SKIP,
                       {'std::chrono::nanoseconds': None,
                        'InnerStatsAccumulator<typename InnerSolver::Stats>': 'A'})
    pre.append('/-- `ALMSolver::Stats` (outer/alm.hpp) without `elapsed_time`. -/\n'
               'structure ALMStats (α A : Type) where\n' +
               ''.join(f'  {lean_field(n)} : {LEAN_T[t]}\n' for n, t, _ in sf))
    regions['ALMStats'] = {'fields': sf}
    stats_fields = {n: (lean_field(n), t) for n, t, _ in sf}

    pre.append('/-- `bool` → `unsigned` conversion in the accounting statements. -/\n'
               '@[inline] def b2n (b : Bool) : Nat := if b then 1 else 0\n')
    pre.append('/-- loop-carried variables of `ALMSolver::operator()` (declared before the `for`). -/\n'
               'structure LoopState (α A : Type) where\n'
               '  Sig_curr : Vec α\n  error : Vec α\n  error_old : Vec α\n'
               '  norm_e : α\n  norm_e_old : α\n  s : ALMStats α A\n  eps : α\n')
    pre.append('/-- one pass through the loop body after the inner solve: `return s` (with the '
               'caller\'s Σ buffer) or fall through to the next iteration. -/\n'
               'inductive IterOut (α A : Type) where\n'
               '  | done (s : ALMStats α A) (Sig : Vec α)\n'
               '  | cont (st : LoopState α A)\n')

    def default_expr(em, init, t):
        if init is None:
            if t == 'A':
                return 'acc0'
            raise TranslationError('member without initialiser')
        e = cp.parse_expression(no_targs(init))
        x, _ = em.expr(e, t if t in ('S', 'N', 'B') else None)
        return x

    # defaults of the two structs
    em = Emitter7(lambda d: {'inf__config_t': ('inf', 'S')}.get(d), enum_values=enumv)
    defs.append('/-- default member initialisers of `ALMSolver::Stats`. -/\n'
                'def ALMStats.default (inf : α) (acc0 : A) : ALMStats α A :=\n  { ' +
                ', '.join(f'{lean_field(n)} := {default_expr(em, i, t)}' for n, t, i in sf) + ' }\n')
    em0 = Emitter7(lambda d: None, enum_values=enumv)
    defs.append('/-- default member initialisers of `InnerSolveOptions`. -/\n'
                'def InnerSolveOptions.default : InnerSolveOptions α :=\n  { ' +
                ', '.join(f'{lean_field(n)} := {default_expr(em0, i, t)}' for n, t, i in of) + ' }\n')
    lits |= em.nat_lits | em0.nat_lits

    # ---- alm-helpers.tpp: update_penalty_weights --------------------------------------------
    _, body = cp.find_region(helpers, r'static\s+void\s+update_penalty_weights\s*\(')
    ss = cp.parse_statements(body)
    env = dict(params_env)
    env.update({'Δ': ('Del', 'S'), 'first_iter': ('first_iter', 'B'), 'e': ('e', 'V'),
                'old_e': ('old_e', 'V'), 'norm_e': ('norm_e', 'S'),
                'old_norm_e': ('old_norm_e', 'S'), 'Σ': ('Sig', 'V')})
    em = Emitter7(lambda d: env.get(d), enum_values=enumv)
    txt = em.function('updatePenaltyWeights',
                      [('params', 'params', 'ALMParams α')] +
                      [(k, v[0], v[1]) for k, v in env.items() if not k.startswith('params.')],
                      ss, None, outputs=['Σ'],
                      doc='alm-helpers.tpp :: ALMHelpers::update_penalty_weights (returns the new Σ)')
    lits |= em.nat_lits
    regions['updatePenaltyWeights'] = {'hash': cp.ast_hash(ss)}
    defs.append(txt)

    # ---- alm-helpers.tpp: initialize_penalty (problem overload, OCP overload) ----------------
    def init_penalty(which, name, doc, oracle):
        _, body = cp.find_region(helpers, r'static\s+void\s+initialize_penalty\s*\(', which)
        env = dict(params_env)
        env.update({'Σ': ('Sig', 'V')})
        if oracle:
            # `real_t f0 = p.eval_f(x0); vec g0(p.get_m()); p.eval_g(x0, g0);` — problem oracles
            txt0 = ' '.join(body.split())
            if not re.search(r'real_t f0 = p\.eval_f\(x0\); vec g0\(p\.get_m\(\)\); p\.eval_g\(x0, g0\);', txt0):
                raise TranslationError('initialize_penalty: oracle prologue (f0, g0) changed')
            body2 = re.sub(r'real_t\s+f0\s*=\s*p\.eval_f\(x0\)\s*;\s*vec\s+g0\(p\.get_m\(\)\)\s*;'
                           r'\s*p\.eval_g\(x0,\s*g0\)\s*;', '', body)
            ss = cp.parse_statements(body2)
            env.update({'f0': ('f0', 'S'), 'g0': ('g0', 'V')})
        else:
            ss = cp.parse_statements(body)
        em = Emitter7(lambda d: env.get(d), enum_values=enumv)
        txt = em.function(name, [('params', 'params', 'ALMParams α')] +
                          [(k, v[0], v[1]) for k, v in env.items() if not k.startswith('params.')],
                          ss, None, outputs=['Σ'], doc=doc)
        lits.update(em.nat_lits)
        regions[name] = {'hash': cp.ast_hash(ss)}
        defs.append(txt)
    init_penalty(0, 'initializePenalty',
                 'alm-helpers.tpp :: ALMHelpers::initialize_penalty (TypeErasedProblem); '
                 '`f0 = f(x0)`, `g0 = g(x0)` are problem oracles', True)
    init_penalty(1, 'initializePenaltyOcp',
                 'alm-helpers.tpp :: ALMHelpers::initialize_penalty (TypeErasedControlProblem)', False)

    # ---- alm.hpp: ALMSolver::stop() and the solver's own stop flag ----------------------------
    # `void stop() { stop_signal.stop(); inner_solver.stop(); }` — sets ALM's flag, forwards to the
    # inner solver; `AtomicStopSignal stop_signal;` is a data member; nothing else in the class touches it
    # (AtomicStopSignal has no reset: gen_c19 pins its member functions).
    cls_flat = ' '.join(alm_cls.split())
    if not re.search(r'void stop\(\) \{ stop_signal\.stop\(\); inner_solver\.stop\(\); \}', cls_flat):
        raise TranslationError('ALMSolver::stop() is not `{ stop_signal.stop(); inner_solver.stop(); }`')
    if len(re.findall(r'\bAtomicStopSignal stop_signal;', cls_flat)) != 1:
        raise TranslationError('ALMSolver: data member `AtomicStopSignal stop_signal;` not found')
    if len(re.findall(r'\bstop_signal\b', cls_flat)) != 2:
        raise TranslationError('ALMSolver: stop_signal is used outside stop() / its declaration')
    regions['almStop'] = {'stop': 'stop_signal.stop(); inner_solver.stop();'}

    # ---- alm.tpp: operator() ---------------------------------------------------------------
    _, op = cp.find_region(alm, r'ALMSolver<InnerSolverT>::operator\(\)\s*\(')
    if len(re.findall(r'\bstop_signal\b', alm)) != 1 or \
            len(re.findall(r'\bstop_signal\s*\.\s*stop_requested\s*\(\s*\)', op)) != 1:
        raise TranslationError('alm.tpp: expected exactly one use of stop_signal, a stop_requested() read '
                               'in operator()')

    # (a) `if (params.max_iter == 0) return {.status = SolverStatus::MaxIter};`
    m = re.search(r'if\s*\(\s*params\.max_iter\s*==\s*0\s*\)\s*return\s*\{\s*\.status\s*=\s*'
                  r'(SolverStatus::\w+)\s*\}\s*;', op)
    if not m or m.group(1) not in enumv:
        raise TranslationError('`if (params.max_iter == 0) return {.status = …};` not found')
    defs.append('/-- alm.tpp: `if (params.max_iter == 0) return {.status = …};` -/\n'
                'def almMaxIter0Cond (params : ALMParams α) : Bool := (params.max_iter == 0)\n'
                'def almMaxIter0 (inf : α) (acc0 : A) : ALMStats α A :=\n'
                f'  {{ (ALMStats.default inf acc0 : ALMStats α A) with status := {enumv[m.group(1)]} }}\n')
    regions['almMaxIter0'] = {'status': m.group(1)}
    if not re.search(r'p\.check\(\)\s*;\s*if\s*\(\s*params\.max_iter\s*==\s*0', op):
        raise TranslationError('order `p.check(); if (params.max_iter == 0)` changed')

    # designated-initialiser option blocks
    def opts_block(text, lean_name, params, env, doc):
        st = cp.find_statement(text, r'InnerSolveOptions<config_t>\s+opts\s*\{')
        inner = st[st.index('{') + 1:st.rindex('}')]
        parts, depth, cur = [], 0, ''
        for ch in inner:
            if ch in '([{':
                depth += 1
            elif ch in ')]}':
                depth -= 1
            if ch == ',' and depth == 0:
                parts.append(cur)
                cur = ''
            else:
                cur += ch
        parts.append(cur)
        given = {}
        for p_ in parts:
            p_ = p_.strip()
            if not p_:
                continue
            mm = re.match(r'^\.(\w+)\s*=\s*(.+)$', p_, flags=re.S)
            if not mm:
                raise TranslationError(f'{lean_name}: not a designated initialiser: {p_!r}')
            given[mm.group(1)] = mm.group(2)
        em = Emitter7(lambda d: env.get(d), enum_values=enumv)
        vals = []
        known = {n: t for n, t, _ in of}
        for n in given:
            if n not in known and n not in OPTS_SKIP:
                raise TranslationError(f'{lean_name}: unknown InnerSolveOptions member {n}')
        for n, t, _ in of:
            if n in given:
                x, _ = em.expr(cp.parse_expression(given[n]), t)
                vals.append(f'{lean_field(n)} := {x}')
        lits.update(em.nat_lits)
        ps = ' '.join(f'({l} : {LEAN_T.get(t, t)})' for _, l, t in params)
        regions[lean_name] = {'hash': cp.ast_hash(sorted(given.items()))}
        defs.append(f'/-- {doc} -/\ndef {lean_name} {ps} : InnerSolveOptions α :=\n'
                    f'  {{ (InnerSolveOptions.default : InnerSolveOptions α) with ' + ', '.join(vals) + ' }\n')
        return st

    # (b) m == 0 block
    _, m0 = cp.find_region(op, r'if\s*\(\s*m\s*==\s*0\s*\)')
    if not re.search(r'auto\s+m\s*=\s*p\.get_m\(\)\s*;\s*if\s*\(\s*m\s*==\s*0\s*\)', op):
        raise TranslationError('`auto m = p.get_m(); if (m == 0)` not found')
    opts_block(m0, 'almInnerOptsM0', [('params', 'params', 'ALMParams α')], params_env,
               'alm.tpp, m == 0 block: the options the single inner solve is called with')
    call_re = r'auto\s+ps\s*=\s*inner_solver\s*\(\s*p\s*,\s*opts\s*,\s*x\s*,\s*y\s*,\s*Σ_curr\s*,\s*error\s*\)\s*;'
    mm = re.search(call_re, m0)
    if not mm:
        raise TranslationError('m == 0 block: inner solver call changed')
    head0 = ' '.join(m0[:mm.start()].split())
    if not re.match(r'^Stats s; vec Σ_curr\(0\), error\(0\); InnerSolveOptions<config_t> opts\{.*\};$', head0):
        raise TranslationError('m == 0 block: prologue (Stats s; vec Σ_curr(0), error(0); opts) changed')
    ss = cp.parse_statements(m0[mm.end():])
    ss = drop_time(ss)
    env = dict(params_env)
    env.update({'ps.status': ('ps_status', 'E'), 'ps.ε': ('ps_eps', 'S'), 'ps': ('ps', 'S_'),
                's': ('s', 'T')})
    em = Emitter7(lambda d: env.get(d), enum_values=enumv)
    em.struct_vars = {'s': stats_fields}
    em.on_return = lambda e: e
    txt = em.function('almM0', [('accAdd', 'accAdd', 'A → S → A'), ('ps.status', 'ps_status', 'E'),
                                ('ps.ε', 'ps_eps', 'S'), ('ps', 'ps', 'S_'), ('s', 's', 'T')],
                      ss, 'T', doc='alm.tpp, m == 0 block after the inner solve; `s` enters '
                      'default-initialised (`Stats s;`)')
    lits |= em.nat_lits
    regions['almM0'] = {'hash': cp.ast_hash(ss)}
    defs.append(fix_types(txt))

    # (c) declarations between the m == 0 block and the loop
    i0 = op.index('constexpr auto NaN')
    mfor = re.search(r'for\s*\(\s*unsigned\s+i\s*=', op)
    if not mfor:
        raise TranslationError('outer `for (unsigned i = …` not found')
    decl_txt = op[i0:mfor.start()]
    # printing helpers: dropped (must be present exactly once)
    decl_txt, n1 = re.subn(r'std::array<char,\s*64>\s+printbuf\s*;', '', decl_txt)
    pr = re.search(r'auto\s+print_real\s*=\s*\[&\]', decl_txt)
    if n1 != 1 or not pr:
        raise TranslationError('print helpers before the loop changed')
    ob = decl_txt.index('{', pr.end())
    cb = cp.match_brace(decl_txt, ob)
    semi = decl_txt.index(';', cb)
    decl_txt = decl_txt[:pr.start()] + decl_txt[semi + 1:]
    ss = cp.parse_statements(no_targs(decl_txt), type_names=('vec',))
    ss = [rewrite_optional(s) for s in ss]
    env = dict(params_env)
    env.update({'alpaqa::NaN__config_t': ('nan', 'S'), 'm': ('m', 'N'), 'Σ': ('Sig', 'V'),
                'has_Σ': ('has_Sig', 'B'), 'f0': ('f0', 'S'), 'g0': ('g0', 'V')})
    em = Emitter7(lambda d: env.get(d), enum_values=enumv)
    em.struct_vars = {'s': stats_fields}
    em.decl_default = {'Stats': ('(ALMStats.default inf acc0 : ALMStats α A)', 'T')}

    def h_init_penalty(args, em_):
        if [dotted(a) for a in args] != ['p', 'params', 'x', 'Σ_curr']:
            raise TranslationError('call of Helpers::initialize_penalty changed')
        cur, _ = em_.lookup('Σ_curr')
        return [('Σ_curr', 'V', f'(initializePenalty params {cur} f0 g0)')]
    em.helper_calls = {'Helpers::initialize_penalty': (h_init_penalty, lambda args: [dotted(args[3])])}
    outs = ['Σ_curr', 'error', 'error_old', 'norm_e', 'norm_e_old', 's', 'ε']
    em.on_return = None
    body = em_function_body(em, ss, outs)
    defs.append('/-- alm.tpp: declarations and initial penalty selection between the m == 0 block and '
                'the loop (`NaN`, `inf` = the IEEE specials; `has_Sig`/`Sig` = the caller\'s optional Σ; '
                '`f0`, `g0` problem oracles for `initialize_penalty`). -/\n'
                'def almInit (params : ALMParams α) (nan inf : α) (acc0 : A) (m : Nat) (has_Sig : Bool) '
                '(Sig : Vec α) (f0 : α) (g0 : Vec α) : LoopState α A :=\n' + _indent(body) + '\n')
    lits |= em.nat_lits
    regions['almInit'] = {'hash': cp.ast_hash(ss)}

    # (d) the loop header
    fs = cp.parse_statements(op[mfor.start():op.index('{', mfor.end())] + '{}')
    if len(fs) != 1 or fs[0][0] != 'for':
        raise TranslationError('outer loop did not parse as one for-statement')
    _, finit, fcond, fstep, _ = fs[0]
    if not (finit[0] == 'decl' and finit[1].strip() == 'unsigned' and finit[2] == 'i'):
        raise TranslationError('outer loop init changed')
    if fstep not in (('un', '++', ('id', 'i')), ('post', '++', ('id', 'i'))):
        raise TranslationError('outer loop step is not ++i')
    env = dict(params_env)
    env.update({'i': ('i', 'N')})
    em = Emitter7(lambda d: env.get(d), enum_values=enumv)
    i_init, _ = em.expr(finit[3], 'N')
    i_cond, _ = em.expr(fcond, 'B')
    defs.append('/-- alm.tpp: `for (unsigned i = INIT; COND; ++i)` -/\n'
                f'def almLoopInit : Nat := {i_init}\n'
                f'def almLoopCond (params : ALMParams α) (i : Nat) : Bool := {i_cond}\n'
                'def almLoopStep (i : Nat) : Nat := (i + 1)\n')
    regions['almLoop'] = {'hash': cp.ast_hash([finit, fcond, fstep])}
    tail = ' '.join(op[cp.match_brace(op, op.index('{', mfor.end())) + 1:].split())
    if not re.match(r'^throw std::logic_error\(', tail):
        raise TranslationError('statement after the outer loop is not `throw std::logic_error`')

    # (e) loop body, before the inner call
    lb = op[op.index('{', mfor.end()) + 1:cp.match_brace(op, op.index('{', mfor.end()))]
    mm = re.search(call_re, lb)
    if not mm:
        raise TranslationError('loop body: inner solver call changed')
    pre_txt, post_txt = lb[:mm.start()], lb[mm.end():]
    env = dict(params_env)
    env.update({'ε': ('eps', 'S'), 'i': ('i', 'N')})
    st_opts = opts_block(pre_txt, 'almInnerOpts', [('ε', 'eps', 'S'), ('i', 'i', 'N')], env,
                         'alm.tpp, loop body: the options the inner solve of outer iteration `i` is '
                         'called with')
    pre_txt = pre_txt.replace(st_opts, '')
    for anchor in (r'auto\s+time_elapsed\s*=', r'auto\s+time_remaining\s*='):
        st = cp.find_statement(pre_txt, anchor)
        pre_txt = pre_txt.replace(st, '')
    ss = cp.parse_statements(pre_txt)
    env = dict(params_env)
    env.update({'i': ('i', 'N'), 'y': ('y', 'V')})
    em = Emitter7(lambda d: env.get(d), enum_values=enumv)

    def h_proj(args, em_):
        if len(args) != 2 or dotted(args[0]) != 'y':
            raise TranslationError('call of p.eval_proj_multipliers changed')
        y_, _ = em_.lookup('y')
        M, _ = em_.expr(args[1], 'S')
        return [('y', 'V', f'(projMult {y_} {M})')]
    em.helper_calls = {'p.eval_proj_multipliers': (h_proj, lambda args: [dotted(args[0])])}
    txt = em.function('almPreCall', [('params', 'params', 'ALMParams α'),
                                     ('projMult', 'projMult', 'Vec α → α → Vec α'),
                                     ('i', 'i', 'N'), ('y', 'y', 'V')], ss, None,
                      outputs=['y', 'out_of_iter'], out_types={'out_of_iter': 'B', 'y': 'V'},
                      doc='alm.tpp, loop body before the inner solve: multiplier projection '
                      '(`projMult` = the problem\'s eval_proj_multipliers) and `out_of_iter`')
    lits |= em.nat_lits
    regions['almPreCall'] = {'hash': cp.ast_hash(ss)}
    defs.append(txt)

    # (f) loop body, after the inner call
    pi = re.search(r'if\s*\(\s*params\.print_interval', post_txt)
    if not pi:
        raise TranslationError('print block not found in loop body')
    ob = post_txt.index('{', pi.end())
    post_txt = post_txt[:pi.start()] + post_txt[cp.match_brace(post_txt, ob) + 1:]
    ss = cp.parse_statements(post_txt)
    ss = drop_time(ss)
    ss = [rewrite_optional(s) for s in ss]
    env = dict(params_env)
    env.update({'ps.status': ('ps_status', 'E'), 'ps.ε': ('ps_eps', 'S'), 'ps': ('ps', 'S_'),
                's': ('s', 'T'), 'm': ('m', 'N'), 'i': ('i', 'N'), 'has_Σ': ('has_Sig', 'B'),
                'Σ': ('Sig', 'V'), 'out_of_iter': ('out_of_iter', 'B'),
                'out_of_time': ('out_of_time', 'B'), 'stop_requested': ('stop_requested', 'B'),
                'Σ_curr': ('Sig_curr', 'V'),
                'error': ('error', 'V'), 'error_old': ('error_old', 'V'),
                'norm_e': ('norm_e', 'S'), 'norm_e_old': ('norm_e_old', 'S'), 'ε': ('eps', 'S')})
    em = Emitter7(lambda d: env.get(d), enum_values=enumv)
    em.struct_vars = {'s': stats_fields}

    def h_upd(args, em_):
        if len(args) != 8 or dotted(args[0]) != 'params' or dotted(args[7]) != 'Σ_curr':
            raise TranslationError('call of Helpers::update_penalty_weights changed')
        tys = ['S', 'B', 'V', 'V', 'S', 'S', 'V']
        xs = [em_.expr(a, t)[0] for a, t in zip(args[1:], tys)]
        return [('Σ_curr', 'V', '(updatePenaltyWeights params ' + ' '.join(xs) + ')')]
    em.helper_calls = {'Helpers::update_penalty_weights': (h_upd, lambda args: [dotted(args[7])])}
    em.stop_oracle = 'stop_requested'
    em.on_return = lambda e: f'IterOut.done {e} {em.lookup("Σ")[0]}'
    em.ret_type = None
    em.out_types = {}
    em.locals = {}
    plist = [('params', 'params', 'ALMParams α'), ('accAdd', 'accAdd', 'A → S → A'),
             ('m', 'm', 'N'), ('i', 'i', 'N'), ('has_Σ', 'has_Sig', 'B'), ('Σ', 'Sig', 'V'),
             ('out_of_iter', 'out_of_iter', 'B'), ('out_of_time', 'out_of_time', 'B'),
             ('stop_requested', 'stop_requested', 'B'),
             ('ps.status', 'ps_status', 'E'), ('ps.ε', 'ps_eps', 'S'), ('ps', 'ps', 'S_'),
             ('Σ_curr', 'Sig_curr', 'V'), ('error', 'error', 'V'), ('error_old', 'error_old', 'V'),
             ('norm_e', 'norm_e', 'S'), ('norm_e_old', 'norm_e_old', 'S'), ('s', 's', 'T'),
             ('ε', 'eps', 'S')]
    em.locals = {c: (l, t) for c, l, t in plist}
    outs = ['Σ_curr', 'error', 'error_old', 'norm_e', 'norm_e_old', 's', 'ε']

    def final():
        return 'IterOut.cont ⟨' + ', '.join(em.lookup(o)[0] for o in outs) + '⟩'
    body = em.stmts(ss, final)
    if em.stop_reads != 1:
        raise TranslationError(f'loop body after the inner call reads the stop flag {em.stop_reads} times '
                               f'(expected once)')
    if re.search(r'\bstop_signal\b', pre_txt):
        raise TranslationError('loop body before the inner call uses stop_signal')
    ps_ = ' '.join(f'({l} : {lean_ty(t)})' for _, l, t in plist)
    defs.append('/-- alm.tpp, loop body after the inner solve (`error` already holds the slack error '
                'the inner solver wrote; `ps` its statistics; `out_of_time` the clock oracle; '
                '`stop_requested` the value `stop_signal.stop_requested()` reads there — ALM\'s own stop '
                'flag, set by `ALMSolver::stop()`): '
                'accounting, Interrupted return, termination test (incl. the pending stop request) and '
                'status chain, Σ hand-back, penalty / tolerance update, error swap. -/\n'
                f'def almIter {ps_} : IterOut α A :=\n' + _indent(body) + '\n')
    lits |= em.nat_lits
    regions['almIter'] = {'hash': cp.ast_hash(ss)}

    # ---- assemble --------------------------------------------------------------------------
    litcls = ' '.join(f'[OfNat α {n}]' for n in sorted(lits | {0, 1}))
    text = ('/- GENERATED by /verif/gen/gen_c07.py — do not edit. C07 ALM outer loop and helpers. -/\n'
            'import Alpaqa.Model.Vec\nimport Alpaqa.Gen.C06\n\n'
            'namespace Alpaqa.Gen\nopen Alpaqa\n\n' + '\n'.join(pre) +
            f'\nsection\nvariable {TYVARS} {STD_CLASSES} {litcls}\n\n' +
            '\n'.join(defs) + '\nend\nend Alpaqa.Gen\n')
    old = open(out_path).read() if os.path.exists(out_path) else None
    if old != text:
        with open(out_path, 'w') as f:
            f.write(text)
    return regions


def no_targs(text):
    """variable templates `inf<config_t>`, `alpaqa::NaN<config_t>` → plain identifiers."""
    return re.sub(r'\b(inf|NaN)<config_t>', r'\1__config_t', text)


def lean_ty(t):
    return {'S': 'α', 'V': 'Vec α', 'B': 'Bool', 'N': 'Nat', 'E': 'SolverStatus', 'S_': 'S',
            'T': 'ALMStats α A'}.get(t, t)


def fix_types(txt):
    """Emitter.function prints unknown type codes verbatim; map ours."""
    for code, lean in (('E', 'SolverStatus'), ('S_', 'S'), ('T', 'ALMStats α A')):
        txt = re.sub(r': ' + code + r'\)', f': {lean})', txt)
        txt = re.sub(r'\) : ' + code + r' :=', f') : {lean} :=', txt)
    return txt


def em_function_body(em, ss, outs):
    em.ret_type = None
    em.out_types = {}
    em.locals = {}

    def final():
        return '⟨' + ', '.join(em.lookup(o)[0] for o in outs) + '⟩'
    return em.stmts(ss, final)


def mentions(ast, names):
    if isinstance(ast, tuple):
        if ast and ast[0] == 'id' and ast[1].split('::')[-1] in names:
            return True
        return any(mentions(x, names) for x in ast)
    if isinstance(ast, list):
        return any(mentions(x, names) for x in ast)
    return False


def drop_time(ss):
    """Clock statements are oracles: exactly these forms are dropped, recursively."""
    out = []
    for s in ss:
        if s[0] == 'decl' and s[2] in ('time_elapsed', 'out_of_time', 'time_remaining'):
            if not mentions(s[3], {'now', 'time_elapsed'}):
                raise TranslationError(f'clock declaration {s[2]} no longer reads the clock')
            continue
        if s[0] == 'expr' and s[1][0] == 'bin' and s[1][1] == '=' and \
                dotted(s[1][2]) in ('time_elapsed', 's.elapsed_time'):
            continue
        if s[0] == 'if':
            th = ('block', drop_time(s[2][1])) if s[2][0] == 'block' else drop_time([s[2]])[0]
            el = s[3]
            if el is not None:
                el = ('block', drop_time(el[1])) if el[0] == 'block' else drop_time([el])[0]
            out.append(('if', s[1], th, el))
            continue
        if s[0] == 'block':
            out.append(('block', drop_time(s[1])))
            continue
        out.append(s)
    return out


def rewrite_optional(s):
    """`std::optional<rvec> Σ` in Boolean context (`if (Σ)`, `Σ && …`) → `has_Σ`."""
    def cond(c):
        if c == ('id', 'Σ'):
            return ('id', 'has_Σ')
        if c[0] == 'bin' and c[1] in ('&&', '||'):
            return ('bin', c[1], cond(c[2]), cond(c[3]))
        if c[0] == 'un' and c[1] == '!':
            return ('un', '!', cond(c[2]))
        return c

    def go(t):
        if t is None:
            return None
        if t[0] == 'if':
            return ('if', cond(t[1]), go(t[2]), go(t[3]))
        if t[0] == 'block':
            return ('block', [go(u) for u in t[1]])
        return t
    return go(s)


if __name__ == '__main__':
    out = sys.argv[1] if len(sys.argv) > 1 else os.path.join(
        os.path.dirname(os.path.abspath(__file__)), '..', 'lean', 'Alpaqa', 'Gen', 'C07.lean')
    try:
        r = main(out)
        print(json.dumps({'ok': True, 'regions': r}, default=str))
    except cp.TranslationError as e:
        print(json.dumps({'ok': False, 'error': str(e)}))
        sys.exit(2)
