#!/usr/bin/env python3
"""C12 translator: the storage layout of alpaqa::OCPVariables and the index loops of
alpaqa::detail::IndexSet, regenerated from /repo on every run -> lean/Alpaqa/Gen/C12.lean.

Regions (located by anchor + brace matching, never by line number):
  ocp-vars.hpp   struct OCPVariables
      constructors          -> OCPVars.mk' (std::partial_sum of the size arrays), OCPVars.ofProblem
                               (order of the get_*() arguments of the delegating constructor)
      enum Indices          -> i_u i_h i_c i_h_N i_c_N
      size size_N nx nu nxu nh nc nx_N nh_N nc_N   -> Nat functions of the index arrays
      create / create_qr / create_AB               -> createSize, createQrSize, createABRows/Cols
      xk xuk uk hk ck qk rk qrk  (v.segment(start, len))       -> <name>Start, <name>Len
      ABk Ak Bk (AB.middleCols(start, len); all overloads must agree) -> <name>Start, <name>Len
  index-set.hpp  struct IndexSet
      constructor `storage{…}`, sizes(), indices(), indices(i), compl_indices(i)  -> Nat functions
      update::build_Jt      -> buildJLoop / buildJ   (loop init / condition / step / stored value
                               are the translated source expressions; the loop skeleton is checked
                               structurally and runs on fuel so that it is total for any condition)
      compute_complement (private overload) -> complInner / complOuter / complFinal /
                               computeComplement (same treatment)
      update (outer loop)   -> structural hash only (hand model `C12.indexSetUpdate`, tied by the
                               correspondence run)
"""
import json
import os
import re
import sys
sys.path.insert(0, os.path.dirname(os.path.abspath(__file__)))
import cxxparse as cp
from cxxparse import TranslationError

REPO = os.environ.get('VERIF_REPO', '/repo')
INC = REPO + '/src/alpaqa/include/alpaqa/'
VARS = 'inner/directions/panoc-ocp/ocp-vars.hpp'
ISET = 'util/index-set.hpp'


# --------------------------------------------------------------------------- Nat expressions

class NatExpr:
    """cxxparse AST -> Lean `Nat`/`Bool` term.  `ids`: identifier -> Lean term;
    `calls`: nullary / unary member-function name -> Lean function (applied to `self_` first)."""

    def __init__(self, ids, calls=None, arrays=None, self_=None):
        self.ids = dict(ids)
        self.calls = calls or {}
        self.arrays = arrays or {}
        self.self_ = self_

    def e(self, a):
        k = a[0]
        if k == 'num':
            t = a[1].rstrip('uUlL').replace("'", '')
            if not t.isdigit():
                raise TranslationError(f'non-integer literal {a[1]} in index arithmetic')
            return t
        if k == 'id':
            if a[1] in self.ids:
                return self.ids[a[1]]
            raise TranslationError(f'unresolved identifier {a[1]!r} in index arithmetic')
        if k == 'cast':
            return self.e(a[2])
        if k == 'bin':
            op = a[1]
            if op in ('+', '-', '*', '/', '%'):
                return f'({self.e(a[2])} {op} {self.e(a[3])})'
            if op in ('<', '>', '<=', '>=', '==', '!='):
                lop = {'<': '<', '>': '>', '<=': '≤', '>=': '≥', '==': '=', '!=': '≠'}[op]
                return f'(decide ({self.e(a[2])} {lop} {self.e(a[3])}))'
            if op in ('&&', '||'):
                return f'({self.e(a[2])} {op} {self.e(a[3])})'
            raise TranslationError(f'unsupported operator {op} in index arithmetic')
        if k == 'tern':
            return f'(if {self.e(a[1])} then {self.e(a[2])} else {self.e(a[3])})'
        if k == 'idx':
            if a[1][0] == 'id' and a[1][1] in self.arrays:
                return f'(({self.arrays[a[1][1]]}).getD {self.e(a[2])} 0)'
            raise TranslationError(f'indexing of {a[1]!r}')
        if k == 'call':
            f, args = a[1], a[2]
            if f[0] == 'id' and f[1] in self.calls:
                xs = ' '.join(self.e(x) for x in args)
                head = f'{self.calls[f[1]]} {self.self_}' if self.self_ else self.calls[f[1]]
                return f'({head}{" " + xs if xs else ""})'
            if f[0] == 'mem' and f[1][0] == 'id' and f[1][1] in self.arrays and f[2] == 'back' and not args:
                return f'(({self.arrays[f[1][1]]}).getLastD 0)'
            raise TranslationError(f'unsupported call in index arithmetic: {f!r}')
        raise TranslationError(f'unsupported node {k} in index arithmetic')


def find_call(ast, pred):
    """All sub-ASTs that are calls satisfying pred (depth first)."""
    out = []

    def go(a):
        if isinstance(a, tuple):
            if a and a[0] == 'call' and pred(a):
                out.append(a)
            for x in a:
                go(x)
        elif isinstance(a, list):
            for x in a:
                go(x)
    go(ast)
    return out


def strip_asserts(ss):
    return [s for s in ss if not (s[0] == 'expr' and s[1][0] == 'call' and s[1][1] == ('id', 'assert'))]


def single_return(body, what):
    ss = strip_asserts(cp.parse_statements(body))
    if len(ss) != 1 or ss[0][0] != 'return' or ss[0][1] is None:
        raise TranslationError(f'{what}: body is not a single return statement')
    return ss[0][1], ss


# --------------------------------------------------------------------------- OCPVariables

SCALAR_METHODS = ['size', 'size_N', 'nx', 'nu', 'nxu', 'nh', 'nc', 'nx_N', 'nh_N', 'nc_N']
SEGMENTS = ['xk', 'xuk', 'uk', 'hk', 'ck', 'qk', 'rk', 'qrk']
COLBLOCKS = ['ABk', 'Ak', 'Bk']


def gen_vars(src, regions, out):
    _, cls = cp.find_region(src, r'struct\s+OCPVariables\s*\{')

    # ---- constructors -----------------------------------------------------------------------
    m = re.search(r'OCPVariables\s*\(\s*const\s+std::array<index_t,\s*4>\s*&\s*sizes\s*,\s*'
                  r'const\s+std::array<index_t,\s*3>\s*&\s*sizes_N\s*,\s*length_t\s+N\s*\)\s*'
                  r':\s*N\s*\{\s*N\s*\}\s*\{', cls)
    if not m:
        raise TranslationError('OCPVariables(sizes, sizes_N, N) constructor not found')
    ob = m.end() - 1
    body = cls[ob + 1:cp.match_brace(cls, ob)]
    ss = cp.parse_statements(body)
    want = [('sizes', 'indices'), ('sizes_N', 'indices_N')]
    got = []
    for s in ss:
        if not (s[0] == 'expr' and s[1][0] == 'call' and s[1][1] == ('id', 'std::partial_sum')
                and len(s[1][2]) == 3):
            raise TranslationError('OCPVariables constructor: statement is not std::partial_sum(…)')
        a = s[1][2]

        def mem_call(x, meth):
            return (x[0] == 'call' and x[1][0] == 'mem' and x[1][2] == meth and x[1][1][0] == 'id'
                    and not x[2]) and x[1][1][1]
        srcb, srce, dst = mem_call(a[0], 'begin'), mem_call(a[1], 'end'), mem_call(a[2], 'begin')
        if not srcb or srcb != srce or not dst:
            raise TranslationError('OCPVariables constructor: unexpected partial_sum arguments')
        got.append((srcb, dst))
    if got != want:
        raise TranslationError(f'OCPVariables constructor: partial sums {got}, expected {want}')
    regions['OCPVariables.ctor'] = {'hash': cp.ast_hash(ss)}

    m = re.search(r'OCPVariables\s*\(\s*const\s+TypeErasedControlProblem<config_t>\s*&\s*prob\s*\)\s*'
                  r':\s*OCPVariables\s*\{', cls)
    if not m:
        raise TranslationError('OCPVariables(problem) delegating constructor not found')
    ob = m.end() - 1
    init = re.sub(r',\s*\}', '}', cls[ob:cp.match_brace(cls, ob) + 1])   # trailing commas
    e = cp.parse_expression(init)
    if e[0] != 'init' or len(e[1]) != 3 or e[1][0][0] != 'init' or e[1][1][0] != 'init':
        raise TranslationError('delegating constructor: unexpected initialiser shape')

    def getter(x):
        if (x[0] == 'call' and x[1][0] == 'mem' and x[1][1] == ('id', 'prob') and not x[2]
                and x[1][2].startswith('get_')):
            return x[1][2][4:]
        raise TranslationError(f'delegating constructor: argument is not prob.get_*(): {x!r}')
    sizes = [getter(x) for x in e[1][0][1]]
    sizes_n = [getter(x) for x in e[1][1][1]]
    hor = getter(e[1][2])
    dims = ['N', 'nx', 'nu', 'nh', 'nc', 'nh_N', 'nc_N']
    if len(sizes) != 4 or len(sizes_n) != 3 or hor != 'N' or not set(sizes + sizes_n) <= set(dims):
        raise TranslationError(f'delegating constructor: sizes {sizes} {sizes_n} horizon {hor}')
    regions['OCPVariables.ofProblem'] = {'sizes': sizes, 'sizes_N': sizes_n, 'hash': cp.ast_hash(e)}

    # ---- enum Indices -----------------------------------------------------------------------
    _, en = cp.find_region(cls, r'enum\s+Indices\s*\{')
    enums = {}
    for part in en.split(','):
        part = part.strip()
        if not part:
            continue
        mm = re.match(r'(\w+)\s*=\s*(\d+)$', part)
        if not mm:
            raise TranslationError(f'enum Indices: cannot parse {part!r}')
        enums[mm.group(1)] = int(mm.group(2))
    regions['OCPVariables.Indices'] = enums

    out.append('''/-- `std::partial_sum` over a list of sizes. -/
def partialSumFrom : Nat → List Nat → List Nat
  | _, [] => []
  | acc, x :: xs => (acc + x) :: partialSumFrom (acc + x) xs
def partialSum (l : List Nat) : List Nat := partialSumFrom 0 l

/-- `struct OCPVariables`: horizon and the two arrays of partial sums. -/
structure OCPVars where
  N : Nat
  indices : List Nat
  indices_N : List Nat
  deriving Repr

/-- `OCPVariables(sizes, sizes_N, N)`: `std::partial_sum(sizes) → indices`, same for `_N`. -/
def OCPVars.mk' (sizes sizes_N : List Nat) (N : Nat) : OCPVars :=
  ⟨N, partialSum sizes, partialSum sizes_N⟩
''')
    out.append('/-- `OCPVariables(const TypeErasedControlProblem &)`: argument order of the delegating\n'
               '    constructor as written in the source. -/\n'
               'def OCPVars.ofProblem (N nx nu nh nc nh_N nc_N : Nat) : OCPVars :=\n'
               f'  OCPVars.mk\' [{", ".join(sizes)}] [{", ".join(sizes_n)}] {hor}\n')
    out.append('/-! `enum Indices` -/\n' + ''.join(f'def {k} : Nat := {v}\n' for k, v in enums.items()))

    ids = {'N': 'v.N', 't': 't', 'i': 'i'}
    ids.update({k: k for k in enums})
    calls = {m_: f'OCPVars.{m_}' for m_ in SCALAR_METHODS}
    arrays = {'indices': 'v.indices', 'indices_N': 'v.indices_N'}
    nx = NatExpr(ids, calls, arrays, self_='v')

    out.append('namespace OCPVars\n')
    # ---- scalar methods ---------------------------------------------------------------------
    for name in SCALAR_METHODS:
        hdr, body = cp.find_region(cls, r'length_t\s+' + name + r'\s*\(\s*(size_t\s+i)?\s*\)\s*const\s*\{')
        e, ss = single_return(body, name)
        has_i = 'size_t' in hdr
        out.append(f'/-- `{name}({"i" if has_i else ""})` -/\n'
                   f'def {name} (v : OCPVars){" (i : Nat)" if has_i else ""} : Nat := {nx.e(e)}\n')
        regions['OCPVariables.' + name] = {'hash': cp.ast_hash(ss)}

    # ---- create* ----------------------------------------------------------------------------
    for name, lean, ctor, nargs in (('create', ['createSize'], 'vec', 1),
                                    ('create_qr', ['createQrSize'], 'vec', 1),
                                    ('create_AB', ['createABRows', 'createABCols'], 'mat', 2)):
        _, body = cp.find_region(cls, r'(vec|mat)\s+' + name + r'\s*\(\s*\)\s*const\s*\{')
        e, ss = single_return(body, name)
        if not (e[0] == 'call' and e[1] == ('id', ctor) and len(e[2]) == nargs):
            raise TranslationError(f'{name}: not `return {ctor}(…)` with {nargs} argument(s)')
        for ln, arg in zip(lean, e[2]):
            out.append(f'/-- `{name}()` -/\ndef {ln} (v : OCPVars) : Nat := {nx.e(arg)}\n')
        regions['OCPVariables.' + name] = {'hash': cp.ast_hash(ss)}

    # ---- vector segments --------------------------------------------------------------------
    for name in SEGMENTS:
        _, body = cp.find_region(
            cls, r'auto\s+' + name + r'\s*\(\s*VectorRefLike<config_t>\s+auto\s*&&\s*v\s*,\s*index_t\s+t\s*\)\s*const\s*\{')
        e, ss = single_return(body, name)
        segs = find_call(e, lambda c: c[1][0] == 'mem' and c[1][2] == 'segment' and c[1][1] == ('id', 'v'))
        if len(segs) != 1 or len(segs[0][2]) != 2:
            raise TranslationError(f'{name}: expected exactly one v.segment(start, len)')
        st, ln = segs[0][2]
        out.append(f'/-- `{name}(v, t)` = `v.segment({name}Start t, {name}Len t)` -/\n'
                   f'def {name}Start (v : OCPVars) (t : Nat) : Nat := {nx.e(st)}\n'
                   f'def {name}Len (v : OCPVars) (t : Nat) : Nat := {nx.e(ln)}\n')
        regions['OCPVariables.' + name] = {'hash': cp.ast_hash(strip_asserts(ss))}

    # ---- column blocks of AB (all overloads must be the same expression) ----------------------
    for name in COLBLOCKS:
        pat = (r'(rmat|crmat|auto)\s+' + name +
               r'\s*\(\s*(rmat|crmat|mat\s*&)\s*AB\s*,\s*index_t\s+t\s*\)\s*const\s*\{')
        n_over = len(list(re.finditer(pat, cls)))
        if n_over == 0:
            raise TranslationError(f'{name}: no overload found')
        seen = None
        for w in range(n_over):
            _, body = cp.find_region(cls, pat, w)
            e, ss = single_return(body, name)
            if not (e[0] == 'call' and e[1][0] == 'mem' and e[1][2] == 'middleCols'
                    and e[1][1] == ('id', 'AB') and len(e[2]) == 2):
                raise TranslationError(f'{name}: not `return AB.middleCols(start, len)`')
            if seen is not None and seen != e:
                raise TranslationError(f'{name}: overloads disagree')
            seen = e
        st, ln = seen[2]
        out.append(f'/-- `{name}(AB, t)` = `AB.middleCols({name}Start t, {name}Len t)` ({n_over} overloads, identical) -/\n'
                   f'def {name}Start (v : OCPVars) (t : Nat) : Nat := {nx.e(st)}\n'
                   f'def {name}Len (v : OCPVars) (t : Nat) : Nat := {nx.e(ln)}\n')
        regions['OCPVariables.' + name] = {'hash': cp.ast_hash(seen), 'overloads': n_over}
    out.append('end OCPVars\n')


# --------------------------------------------------------------------------- IndexSet

def is_incr(step, var):
    return step is not None and step[0] in ('un', 'post') and step[1] == '++' and step[2] == ('id', var)


def unblock(s):
    while s[0] == 'block' and len(s[1]) == 1:
        s = s[1][0]
    return s


def store_value(s, arr, cnt):
    """`arr[cnt++] = value;` -> value AST."""
    s = unblock(s)
    if (s[0] == 'expr' and s[1][0] == 'bin' and s[1][1] == '=' and s[1][2][0] == 'idx'
            and s[1][2][1] == ('id', arr) and s[1][2][2] == ('post', '++', ('id', cnt))):
        return s[1][3]
    raise TranslationError(f'expected `{arr}[{cnt}++] = …;`')


def gen_indexset(src, regions, out):
    _, cls = cp.find_region(src, r'struct\s+IndexSet\s*\{')

    # ---- storage layout ---------------------------------------------------------------------
    m = re.search(r'IndexSet\s*\(\s*length_t\s+N\s*,\s*length_t\s+n\s*\)\s*:\s*N\s*\{\s*N\s*\}\s*,\s*'
                  r'n\s*\{\s*n\s*\}\s*,\s*storage\s*\{([^}]*)\}', cls)
    if not m:
        raise TranslationError('IndexSet constructor not found')
    ix = NatExpr({'N': 'N', 'n': 'n', 'i': 'i', 'nJ': 'nJ'})
    e = cp.parse_expression(m.group(1))
    out.append(f'/-- `IndexSet(N, n)`: `storage{{{m.group(1).strip()}}}` -/\n'
               f'def isetStorageSize (N n : Nat) : Nat := {ix.e(e)}\n')
    regions['IndexSet.ctor'] = {'hash': cp.ast_hash(e)}
    for name, lean in (('sizes', 'isetSizes'), ('indices', 'isetIndices')):
        _, body = cp.find_region(cls, r'auto\s+' + name + r'\s*\(\s*\)\s*const\s*\{')
        e, ss = single_return(body, name)
        if not (e[0] == 'call' and e[1][0] == 'mem' and e[1][2] == 'segment'
                and e[1][1] == ('id', 'storage') and len(e[2]) == 2):
            raise TranslationError(f'IndexSet::{name}(): not storage.segment(start, len)')
        # the non-const overload must be the same expression
        _, body2 = cp.find_region(cls, r'auto\s+' + name + r'\s*\(\s*\)\s*\{')
        e2, _ = single_return(body2, name)
        if e2 != e:
            raise TranslationError(f'IndexSet::{name}(): const / non-const overloads disagree')
        out.append(f'/-- `{name}()` = `storage.segment(…)` -/\n'
                   f'def {lean}Start (N n : Nat) : Nat := {ix.e(e[2][0])}\n'
                   f'def {lean}Len (N n : Nat) : Nat := {ix.e(e[2][1])}\n')
        regions['IndexSet.' + name] = {'hash': cp.ast_hash(ss)}
    for name, lean in (('indices', 'isetJ'), ('compl_indices', 'isetK')):
        _, body = cp.find_region(cls, r'crindexvec\s+' + name + r'\s*\(\s*index_t\s+i\s*\)\s*const\s*\{')
        ss = cp.parse_statements(body)
        lets = []
        ret = None
        sizes_at_i = ('call', ('call', ('id', 'sizes'), [], None), [('id', 'i')], None)
        for s in ss:
            if s[0] == 'decl' and isinstance(s[2], str) and s[3] is not None:
                if s[3] == sizes_at_i:
                    if s[2] != 'nJ':
                        raise TranslationError(f'IndexSet::{name}: sizes()(i) bound to {s[2]}')
                    continue
                lets.append((s[2], s[3]))
            elif s[0] == 'return':
                ret = s[1]
            else:
                raise TranslationError(f'IndexSet::{name}: unexpected statement {s[0]}')
        if not (ret and ret[0] == 'call' and ret[1][0] == 'mem' and ret[1][2] == 'segment'
                and ret[1][1] == ('call', ('id', 'indices'), [], None) and len(ret[2]) == 2):
            raise TranslationError(f'IndexSet::{name}: not `return indices().segment(start, len)`')
        ixl = NatExpr({'N': 'N', 'n': 'n', 'i': 'i', 'nJ': 'nJ'})
        pre = ''
        for nm, ex in lets:
            pre += f'let {nm} := {ixl.e(ex)}; '
            ixl.ids[nm] = nm
        out.append(f'/-- `{name}(i)` = `indices().segment(…)`, `nJ = sizes()(i)` -/\n'
                   f'def {lean}Start (n i nJ : Nat) : Nat := {pre}{ixl.e(ret[2][0])}\n'
                   f'def {lean}Len (n i nJ : Nat) : Nat := {pre}{ixl.e(ret[2][1])}\n')
        regions['IndexSet.' + name + '(i)'] = {'hash': cp.ast_hash(ss)}

    # ---- update: build_Jt -------------------------------------------------------------------
    _, upd = cp.find_region(cls, r'void\s+update\s*\(\s*const\s+F\s*&\s*condition\s*\)\s*\{')
    m = re.search(r'auto\s+build_Jt\s*=\s*\[&\]\s*\(\s*index_t\s+time_step\s*,\s*index_t\s*\*\s*out\s*\)\s*\{', upd)
    if not m:
        raise TranslationError('IndexSet::update: build_Jt lambda not found')
    ob = m.end() - 1
    cb = cp.match_brace(upd, ob)
    ss = cp.parse_statements(upd[ob + 1:cb])
    if not (len(ss) == 3 and ss[0][0] == 'decl' and ss[0][2] == 'j' and ss[0][3] == ('num', '0')
            and ss[1][0] == 'for' and ss[2] == ('return', ('id', 'j'))):
        raise TranslationError('build_Jt: expected `index_t j = 0; for (…) …; return j;`')
    _, init, cond, step, body = ss[1]
    if not (init[0] == 'decl' and init[2] == 'c' and init[3] is not None and is_incr(step, 'c')):
        raise TranslationError('build_Jt: loop is not `for (index_t c = …; …; ++c)`')
    b = unblock(body)
    if not (b[0] == 'if' and b[3] is None and b[1] == ('call', ('id', 'condition'),
                                                        [('id', 'time_step'), ('id', 'c')], None)):
        raise TranslationError('build_Jt: loop body is not `if (condition(time_step, c)) …`')
    val = store_value(b[2], 'out', 'j')
    lx = NatExpr({'c': 'c', 'n': 'n'})
    out.append(f'''/-- `IndexSet::update`, lambda `build_Jt`:
    `for (index_t c = {lx.e(init[3])}; {lx.e(cond)}; ++c) if (condition(time_step, c)) out[j++] = {lx.e(val)};` -/
def buildJLoop (cond : Nat → Bool) (n : Nat) : Nat → Nat → List Nat → List Nat
  | 0, _, out => out
  | fuel + 1, c, out =>
    if {lx.e(cond)} then buildJLoop cond n fuel (c + 1) (if cond c then out ++ [{lx.e(val)}] else out)
    else out
def buildJ (cond : Nat → Bool) (n : Nat) : List Nat := buildJLoop cond n (n + 2) {lx.e(init[3])} []
''')
    regions['IndexSet.build_Jt'] = {'hash': cp.ast_hash(ss)}
    # outer loop of update: hand-modelled, hash recorded
    rest = upd[:m.start()] + upd[cb + 1:]
    regions['IndexSet.update.outer'] = {'hash': cp.ast_hash(cp.tokenize(rest))}

    # ---- compute_complement (the private pointer overload does the work) ----------------------
    pat = (r'static\s+void\s+compute_complement\s*\(\s*std::span<const\s+index_t>\s+in\s*,\s*'
           r'index_t\s*\*\s*out\s*,\s*length_t\s+n\s*\)\s*\{')
    _, body = cp.find_region(cls, pat)
    m = re.search(r'for\s*\(\s*index_t\s+j\s*:\s*in\s*\)\s*\{', body)
    if not m:
        raise TranslationError('compute_complement: range-for over `in` not found')
    ob = m.end() - 1
    cb = cp.match_brace(body, ob)
    pre = cp.parse_statements(body[:m.start()])
    inner = cp.parse_statements(body[ob + 1:cb])
    post = cp.parse_statements(body[cb + 1:])
    inits = {s[2]: s[3] for s in pre if s[0] == 'decl'}
    if len(pre) != 2 or set(inits) != {'c', 'k'} or inits['k'] != ('num', '0') or inits['c'] is None:
        raise TranslationError('compute_complement: expected `length_t c = …; length_t k = 0;`')

    def simple_for(s, what):
        if not (s[0] == 'for' and s[1] == ('block', []) and is_incr(s[3], 'c') and s[2] is not None):
            raise TranslationError(f'compute_complement: {what} is not `for (; …; ++c)`')
        return s[2], store_value(s[4], 'out', 'k')
    if not (len(inner) == 2 and inner[1][0] == 'expr' and is_incr(inner[1][1], 'c')):
        raise TranslationError('compute_complement: range-for body is not `for (…) …; ++c;`')
    c1, v1 = simple_for(inner[0], 'inner loop')
    if len(post) != 1:
        raise TranslationError('compute_complement: expected exactly one trailing loop')
    c2, v2 = simple_for(post[0], 'trailing loop')
    cx = NatExpr({'c': 'c', 'n': 'n', 'j': 'j'})
    out.append(f'''/-- `compute_complement`, loop inside the range-for: `for (; {cx.e(c1)}; ++c) out[k++] = {cx.e(v1)};` -/
def complInner (j : Nat) : Nat → Nat → List Nat → Nat × List Nat
  | 0, c, out => (c, out)
  | fuel + 1, c, out => if {cx.e(c1)} then complInner j fuel (c + 1) (out ++ [{cx.e(v1)}]) else (c, out)
/-- `for (index_t j : in) {{ <inner loop>; ++c; }}` -/
def complOuter (n : Nat) : List Nat → Nat → List Nat → Nat × List Nat
  | [], c, out => (c, out)
  | j :: js, c, out =>
    let r := complInner j (n + 2) c out
    complOuter n js (r.1 + 1) r.2
/-- trailing loop: `for (; {cx.e(c2)}; ++c) out[k++] = {cx.e(v2)};` -/
def complFinal (n : Nat) : Nat → Nat → List Nat → List Nat
  | 0, _, out => out
  | fuel + 1, c, out => if {cx.e(c2)} then complFinal n fuel (c + 1) (out ++ [{cx.e(v2)}]) else out
/-- `IndexSet::compute_complement(in, out, n)` -/
def computeComplement (inp : List Nat) (n : Nat) : List Nat :=
  let r := complOuter n inp {cx.e(inits['c'])} []
  complFinal n (n + 2) r.1 r.2
''')
    regions['IndexSet.compute_complement'] = {'hash': cp.ast_hash((pre, inner, post))}


def main(out_path):
    regions, defs = {}, []
    gen_vars(cp.strip_comments(open(INC + VARS, encoding='utf8').read()), regions, defs)
    gen_indexset(cp.strip_comments(open(INC + ISET, encoding='utf8').read()), regions, defs)
    text = ('/- GENERATED by /verif/gen/gen_c12.py — do not edit. C12: OCPVariables storage layout and '
            'IndexSet index loops. -/\n\nset_option linter.unusedVariables false\n\nnamespace Alpaqa.Gen.C12\n\n' + '\n'.join(defs) +
            '\nend Alpaqa.Gen.C12\n')
    old = open(out_path).read() if os.path.exists(out_path) else None
    if old != text:
        with open(out_path, 'w') as f:
            f.write(text)
    return regions


if __name__ == '__main__':
    out = sys.argv[1] if len(sys.argv) > 1 else os.path.join(
        os.path.dirname(os.path.abspath(__file__)), '..', 'lean', 'Alpaqa', 'Gen', 'C12.lean')
    try:
        r = main(out)
        print(json.dumps({'ok': True, 'regions': r}))
    except TranslationError as e:
        print(json.dumps({'ok': False, 'error': str(e)}))
        sys.exit(2)
