#!/usr/bin/env python3
"""C10 translator: ring index arithmetic and scalar formulas of alpaqa::LimitedMemoryQR,
CircularIndexIterator / CircularRange (ringbuffer.hpp), minimize_update_anderson and
AndersonAccel::resize, regenerated from /repo on every run -> lean/Alpaqa/Gen/C10.lean.

Regions (located by anchor + brace matching, never by line number):
  limited-memory-qr.hpp
    r_succ / r_pred                          -> lmqrSucc / lmqrPred                (Nat)
    ring_head / ring_tail / num_columns / current_history
                                             -> lmqrRingHead / … (which member is returned)
    ring_iter()                              -> lmqrRingIterArgs (size, idx1, idx2, max) order
    add_column: the index updates            -> lmqrAddIdx   (q_idx, r_idx_start, r_idx_end)
    add_column: η, `norm_q < η * norm_v`, min/max_eig update, normalisation guard `norm_q > 0`
                                             -> lmqrEta / lmqrReorthCond / lmqrAddEig / lmqrAddNormalize
    remove_column: init of r, c; loop test; loop advance; inner `for` header; index updates;
                   min/max_eig update        -> lmqrRemoveInit / lmqrRemoveCond / lmqrRemoveAdvance /
                                                lmqrInnerInit / lmqrInnerCond / lmqrInnerStep /
                                                lmqrRemoveIdx (+ `update_eig_bounds();` last)
    solve_col: pivot threshold test          -> lmqrSolveSkip
    scale_R: loop + `update_eig_bounds();`   -> shape-checked
    update_eig_bounds                        -> lmqrEigInit / lmqrEigStep
    reset                                    -> lmqrResetIdx (q_idx, r_idx_start, r_idx_end, reorth_count),
                                                lmqrResetEig
  ringbuffer.hpp
    CircularIndexIterator::operator++ / --   -> circInc / circDec  (zerobased, circular)
    CircularRange::begin / end               -> circBegin / circEnd
    operator==(CircularIndices)              -> circEq
    ReverseCircularIndexIterator::operator*, ++ ; CircularRange::rbegin/rend ;
    ReverseCircularRange::begin/end          -> shape-checked (AST must be the expected one),
                                                hashes recorded
  anderson-helpers.hpp
    full test, threshold, α₀ / αᵢ / α_last   -> aaFull / aaTol / aaAlpha0 / aaAlphaMid / aaAlphaLast
    G̃.col(qr.ring_tail()) = gₖ              -> shape-checked
  anderson.hpp
    m_AA = std::min(n, params.memory)        -> aaMem
    reset(): newest_g_idx = qr.ring_tail(); if (newest_g_idx != 0) G.col(0) = G.col(newest_g_idx)
                                             -> aaResetCopies (Bool) + shape check
"""
import json
import os
import re
import sys
import unicodedata
sys.path.insert(0, os.path.dirname(os.path.abspath(__file__)))
import cxxparse as cp
from cxxparse import TranslationError
from lean_emit import Emitter, file_header, FILE_FOOTER, dotted

REPO = os.environ.get('VERIF_REPO', '/repo')
INC = REPO + '/src/alpaqa/include/alpaqa/'
QR = 'accelerators/internal/limited-memory-qr.hpp'
RB = 'util/ringbuffer.hpp'
AH = 'accelerators/internal/anderson-helpers.hpp'
AA = 'accelerators/anderson.hpp'

IDX = ('q_idx', 'r_idx_start', 'r_idx_end')


def nfc(s):
    return unicodedata.normalize('NFC', s)


def read(rel):
    return nfc(cp.strip_comments(open(INC + rel, encoding='utf8').read()))


def index_lit(body):
    """`Index{0}` (value-initialised index literal) -> `index_t(0)` for the emitter's cast table."""
    return re.sub(r'\bIndex\s*\{\s*(\d+)\s*\}', r'index_t(\1)', body)


def qr_calls(a):
    """`qr.f()` -> `qr_f()` (a free function name the emitter can be given a meaning for)."""
    if isinstance(a, tuple):
        if (a and a[0] == 'call' and a[1][0] == 'mem' and a[1][1] == ('id', 'qr') and a[2] == []):
            return ('call', ('id', 'qr_' + a[1][2]), [], None)
        return tuple(qr_calls(x) for x in a)
    if isinstance(a, list):
        return [qr_calls(x) for x in a]
    return a


class NatEmitter(Emitter):
    """Index arithmetic: integer literals are `Nat`, nothing is coerced to the scalar."""

    def lit(self, text, want):
        t = text.rstrip('uUlLfF').replace("'", '')
        if not all(ch.isdigit() for ch in t):
            raise TranslationError(f'non-integer literal {text} in index arithmetic')
        return t, 'N'

    def coerce(self, e, t, want):
        if want is None or t == want:
            return e, t
        raise TranslationError(f'index arithmetic: have {t}, want {want} in {e}')


def targets(e):
    """Assignment / increment target of an expression statement, or None."""
    if e[0] == 'bin' and e[1] in ('=', '+=', '-=', '*=', '/='):
        return dotted(e[2])
    if e[0] in ('post', 'un') and e[1] in ('++', '--'):
        return dotted(e[2])
    return None


def nested_assigns(s, names, top=True):
    """Names from `names` that are assigned anywhere below the top level of statement s."""
    hit = []
    k = s[0]
    if k == 'expr':
        t = targets(s[1])
        if not top and t in names:
            hit.append(t)
    elif k == 'block':
        for t in s[1]:
            hit += nested_assigns(t, names, False)
    elif k == 'if':
        hit += nested_assigns(s[2], names, False)
        if s[3] is not None:
            hit += nested_assigns(s[3], names, False)
    elif k in ('while',):
        hit += nested_assigns(s[2], names, False)
    elif k == 'for':
        hit += nested_assigns(s[1], names, False) + nested_assigns(s[4], names, False)
        if s[3] is not None and targets(s[3]) in names:
            hit.append(targets(s[3]))
    elif k == 'dowhile':
        hit += nested_assigns(s[1], names, False)
    elif k == 'decl' and not top and isinstance(s[2], str) and s[2] in names:
        hit.append(s[2])
    return hit


def main(out_path):
    regions, defs, lits = {}, [], set()
    qr = read(QR)
    _, cls = cp.find_region(qr, r'class\s+LimitedMemoryQR\s*\{')

    # ------------------------------------------------------------------ Nat helpers
    SUCC = {'r_succ': ('lmqrSucc m', ['N'], 'N'), 'r_pred': ('lmqrPred m', ['N'], 'N'),
            'm': ('m', [], 'N')}

    def nat_fn(name, anchor, params, ret='N', src=cls, fns=None, doc=None, body_tf=None,
               outputs=None, stmts=None, hash_extra=None, type_names=()):
        if stmts is None:
            _, body = cp.find_region(src, anchor)
            if body_tf:
                body = body_tf(body)
            stmts = cp.parse_statements(body, type_names)
            stmts = [s for s in stmts if not (s[0] == 'expr' and s[1][0] == 'call'
                                              and dotted(s[1][1]) == 'assert')]
        env = {p: (cp.mangle(p.replace('.', '_')), 'N') for p in params}
        em = NatEmitter(lambda d: env.get(d), scalar_fns=fns if fns is not None else SUCC)
        pl = [(p, env[p][0], 'N') for p in params]
        defs.append(em.function(name, pl, stmts, None if outputs else ret, outputs=outputs,
                                doc=doc or f'{anchor}',
                                out_types={o: 'N' for o in (outputs or [])}))
        regions[name] = {'hash': cp.ast_hash((stmts, hash_extra))}

    nat_fn('lmqrSucc', r'index_t\s+r_succ\s*\(\s*index_t\s+i\s*\)\s*const', ['m', 'i'],
           fns={'m': ('m', [], 'N')}, doc=f'{QR} :: r_succ')
    nat_fn('lmqrPred', r'index_t\s+r_pred\s*\(\s*index_t\s+i\s*\)\s*const', ['m', 'i'],
           fns={'m': ('m', [], 'N')}, doc=f'{QR} :: r_pred')
    for nm, anchor in (('lmqrRingHead', r'index_t\s+ring_head\s*\(\s*\)\s*const'),
                       ('lmqrRingTail', r'index_t\s+ring_tail\s*\(\s*\)\s*const'),
                       ('lmqrNumColumns', r'length_t\s+num_columns\s*\(\s*\)\s*const'),
                       ('lmqrCurrentHistory', r'length_t\s+current_history\s*\(\s*\)\s*const')):
        nat_fn(nm, anchor, list(IDX), fns={}, doc=f'{QR} :: {nm}')
    nat_fn('lmqrRingNext', r'index_t\s+ring_next\s*\(\s*index_t\s+i\s*\)\s*const', ['m', 'i'],
           doc=f'{QR} :: ring_next')
    nat_fn('lmqrRingPrev', r'index_t\s+ring_prev\s*\(\s*index_t\s+i\s*\)\s*const', ['m', 'i'],
           doc=f'{QR} :: ring_prev')

    # ring_iter(): `return {q_idx, r_idx_start, r_idx_end, m()};` against the constructor's
    # parameter order `CircularRange(Index size, Index idx1, Index idx2, Index max)`
    _, body = cp.find_region(cls, r'CircularRange<index_t>\s+ring_iter\s*\(\s*\)\s*const')
    ss = cp.parse_statements(body)
    if not (len(ss) == 1 and ss[0][0] == 'return' and ss[0][1][0] == 'init' and len(ss[0][1][1]) == 4):
        raise TranslationError('ring_iter(): expected `return {a, b, c, d};`')
    rb = read(RB)
    _, crange = cp.find_region(rb, r'class\s+CircularRange\s*\{')
    mm = re.search(r'CircularRange\s*\(\s*Index\s+(\w+)\s*,\s*Index\s+(\w+)\s*,\s*Index\s+(\w+)\s*,'
                   r'\s*Index\s+(\w+)\s*\)\s*:\s*size\s*\(\s*(\w+)\s*\)\s*,\s*idx1\s*\(\s*(\w+)\s*\)\s*,'
                   r'\s*idx2\s*\(\s*(\w+)\s*\)\s*,\s*max\s*\(\s*(\w+)\s*\)', crange)
    if not mm:
        raise TranslationError('CircularRange constructor not found / changed shape')
    ctor_params = list(mm.groups()[:4])
    member_from = {'size': mm.group(5), 'idx1': mm.group(6), 'idx2': mm.group(7), 'max': mm.group(8)}
    env = {p: (p, 'N') for p in IDX}
    em = NatEmitter(lambda d: env.get(d), scalar_fns={'m': ('m', [], 'N')})
    em.locals = {p: (p, 'N') for p in IDX}
    args = [em.expr(a, 'N')[0] for a in ss[0][1][1]]
    by_param = dict(zip(ctor_params, args))
    tup = [by_param.get(member_from[k]) for k in ('size', 'idx1', 'idx2', 'max')]
    if any(t is None for t in tup):
        raise TranslationError('CircularRange constructor: member initialisers do not name its parameters')
    defs.append(f'/-- {QR} :: ring_iter() through the `CircularRange(size, idx1, idx2, max)` constructor: '
                f'the members `(size, idx1, idx2, max)` of the returned range. -/\n'
                f'def lmqrRingIterArgs (m : Nat) (q_idx : Nat) (r_idx_start : Nat) (r_idx_end : Nat) : '
                f'Nat × Nat × Nat × Nat :=\n  ({", ".join(tup)})\n')
    regions['lmqrRingIterArgs'] = {'hash': cp.ast_hash((ss, ctor_params, sorted(member_from.items())))}
    # ring_reverse_iter(): must forward ring_iter()
    _, body = cp.find_region(cls, r'ReverseCircularRange<index_t>\s+ring_reverse_iter\s*\(\s*\)\s*const')
    ss = cp.parse_statements(body)
    if repr(ss) != repr([('return', ('call', ('id', 'ring_iter'), [], None))]):
        raise TranslationError('ring_reverse_iter(): expected `return ring_iter();`')
    regions['ring_reverse_iter'] = {'hash': cp.ast_hash(ss)}

    # ------------------------------------------------------------------ add_column
    _, body = cp.find_region(cls, r'void\s+add_column\s*\(\s*const\s+VecV\s*&\s*v\s*\)')
    ss = cp.parse_statements(body)
    bad = [n for s in ss for n in nested_assigns(s, IDX)]
    if bad:
        raise TranslationError(f'add_column: index {bad} updated inside a nested statement')
    upd = [s for s in ss if s[0] == 'expr' and targets(s[1]) in IDX]
    nat_fn('lmqrAddIdx', None, ['m'] + list(IDX), stmts=upd, outputs=list(IDX),
           doc=f'{QR} :: add_column — every statement that writes q_idx / r_idx_start / r_idx_end, in order')
    # which columns are written: `auto q = Q.col(q_idx); auto r = R.col(r_idx_end);`
    colsel = [s for s in ss if s[0] == 'decl' and s[2] in ('q', 'r')]
    want = [('decl', 'auto', 'q', ('call', ('mem', ('id', 'Q'), 'col', False), [('id', 'q_idx')], None)),
            ('decl', 'auto', 'r', ('call', ('mem', ('id', 'R'), 'col', False), [('id', 'r_idx_end')], None))]
    if repr(colsel) != repr(want):
        raise TranslationError('add_column: `auto q = Q.col(q_idx); auto r = R.col(r_idx_end);` changed')
    regions['add_column.targets'] = {'hash': cp.ast_hash(colsel)}

    def scalar_fn(name, stmts, params, ret=None, outputs=None, doc=None, fns=None, ptypes=None):
        env = {p: (cp.mangle(p.replace('.', '_')), (ptypes or {}).get(p, 'S')) for p in params}
        em = Emitter(lambda d: env.get(d), scalar_fns=fns or {})
        pl = [(p, env[p][0], env[p][1]) for p in params]
        defs.append(em.function(name, pl, stmts, ret, outputs=outputs, doc=doc))
        lits.update(em.nat_lits)
        regions[name] = {'hash': cp.ast_hash(stmts)}

    eta = [s for s in ss if s[0] == 'decl' and s[2] == 'η']
    if len(eta) != 1:
        raise TranslationError('add_column: declaration of η not found')
    scalar_fn('lmqrEta', [('return', eta[0][3])], [], ret='S', doc=f'{QR} :: add_column — η')
    wh = [s for s in ss if s[0] == 'while']
    if len(wh) != 1:
        raise TranslationError('add_column: expected exactly one while loop (reorthogonalisation)')
    scalar_fn('lmqrReorthCond', [('return', wh[0][1])], ['η', 'norm_q', 'norm_v'], ret='B',
              doc=f'{QR} :: add_column — reorthogonalisation loop test')
    # the loop body's scalar bookkeeping: `++reorth_count; … norm_v = norm_q; norm_q = q.norm();`
    wb = wh[0][2][1] if wh[0][2][0] == 'block' else [wh[0][2]]
    wb_scal = [s for s in wb if s[0] == 'expr' and targets(s[1]) in ('reorth_count', 'norm_v', 'norm_q')]
    want = [('expr', ('un', '++', ('id', 'reorth_count'))),
            ('expr', ('bin', '=', ('id', 'norm_v'), ('id', 'norm_q'))),
            ('expr', ('bin', '=', ('id', 'norm_q'), ('call', ('mem', ('id', 'q'), 'norm', False), [], None)))]
    if repr(wb_scal) != repr(want):
        raise TranslationError('add_column: reorthogonalisation loop bookkeeping changed')
    regions['add_column.reorth_bookkeeping'] = {'hash': cp.ast_hash(wb_scal)}
    eig = [s for s in ss if s[0] == 'expr' and targets(s[1]) in ('min_eig', 'max_eig')]
    scalar_fn('lmqrAddEig', eig, ['min_eig', 'max_eig', 'norm_q'], outputs=['min_eig', 'max_eig'],
              doc=f'{QR} :: add_column — min_eig / max_eig update')
    # normalisation guard: `r(q_idx) = norm_q; if (norm_q > 0) q /= norm_q; else q.setZero();`
    nrm = [s for s in ss if s[0] == 'if']
    if len(nrm) != 1:
        raise TranslationError('add_column: expected exactly one `if` (the normalisation guard)')

    def unblock(st):
        return st[1] if st is not None and st[0] == 'block' else [st]
    want_then = [('expr', ('bin', '/=', ('id', 'q'), ('id', 'norm_q')))]
    want_else = [('expr', ('call', ('mem', ('id', 'q'), 'setZero', False), [], None))]
    if repr(unblock(nrm[0][2])) != repr(want_then) or repr(unblock(nrm[0][3])) != repr(want_else):
        raise TranslationError('add_column: `if (…) q /= norm_q; else q.setZero();` changed shape')
    piv = [s for s in ss if s[0] == 'expr' and s[1][0] == 'bin' and s[1][1] == '=' and
           repr(s[1][2]) == repr(('call', ('id', 'r'), [('id', 'q_idx')], None))]
    if repr(piv) != repr([('expr', ('bin', '=', ('call', ('id', 'r'), [('id', 'q_idx')], None), ('id', 'norm_q')))]):
        raise TranslationError('add_column: `r(q_idx) = norm_q;` changed')
    scalar_fn('lmqrAddNormalize', [('return', nrm[0][1])], ['norm_q'], ret='B',
              doc=f'{QR} :: add_column — "divide q by norm_q" test (else q is set to zero)')
    regions['add_column.normalise_shape'] = {'hash': cp.ast_hash((nrm[0][2], nrm[0][3], piv))}

    # ------------------------------------------------------------------ remove_column
    _, body = cp.find_region(cls, r'void\s+remove_column\s*\(\s*\)')
    body2 = re.sub(r'R\s*\(\s*r\s*,\s*c\s*\)', 'R_rc', body)
    ss = cp.parse_statements(body2)
    wh = [s for s in ss if s[0] == 'while']
    if len(wh) != 1:
        raise TranslationError('remove_column: expected exactly one while loop')
    bad = [n for s in ss for n in nested_assigns(s, IDX)]
    if bad:
        raise TranslationError(f'remove_column: index {bad} updated inside a nested statement')
    init = [s for s in ss if s[0] == 'decl' and s[2] in ('r', 'c')]
    if [s[2] for s in init] != ['r', 'c']:
        raise TranslationError('remove_column: `index_t r = …; index_t c = …;` not found')
    nat_fn('lmqrRemoveInit', None, ['m'] + list(IDX), stmts=init, outputs=['r', 'c'],
           doc=f'{QR} :: remove_column — initial (row r, storage column c) of the sweep')
    nat_fn('lmqrRemoveCond', None, ['q_idx', 'r'], stmts=[('return', wh[0][1])], ret='B',
           doc=f'{QR} :: remove_column — sweep loop test')
    wb = wh[0][2][1] if wh[0][2][0] == 'block' else [wh[0][2]]
    adv = [s for s in wb if s[0] == 'expr' and targets(s[1]) in ('r', 'c')]
    nat_fn('lmqrRemoveAdvance', None, ['m', 'r', 'c'], stmts=adv, outputs=['r', 'c'],
           doc=f'{QR} :: remove_column — advance to the next diagonal element')
    fors = [s for s in wb if s[0] == 'for']
    if len(fors) != 1:
        raise TranslationError('remove_column: expected exactly one inner for loop')
    f = fors[0]
    if not (f[1][0] == 'decl' and f[1][2] == 'cc' and f[2] is not None and f[3] is not None
            and targets(f[3]) == 'cc' and f[3][1] == '='):
        raise TranslationError('remove_column: inner for header changed shape')
    nat_fn('lmqrInnerInit', None, ['m', 'c'], stmts=[('return', f[1][3])],
           doc=f'{QR} :: remove_column — inner loop `cc = …` initialiser')
    nat_fn('lmqrInnerCond', None, ['r_idx_end', 'cc'], stmts=[('return', f[2])], ret='B',
           doc=f'{QR} :: remove_column — inner loop test')
    nat_fn('lmqrInnerStep', None, ['m', 'cc'], stmts=[('return', f[3][3])],
           doc=f'{QR} :: remove_column — inner loop step')
    # order of the statements of the sweep body: makeGivens, for(applyOnTheLeft), applyOnTheRight,
    # eig updates, advance — and their argument lists
    shape = []
    for s in wb:
        if s[0] == 'expr' and s[1][0] == 'call' and s[1][1][0] == 'mem':
            shape.append((s[1][1][2], repr(s[1][2]), repr(s[1][1][1])))
        elif s[0] == 'for':
            b = s[4][1] if s[4][0] == 'block' else [s[4]]
            shape.append(('for', repr(b)))
    want_shape = [
        ('makeGivens', repr([('id', 'R_rc'),
                             ('call', ('id', 'R'), [('bin', '+', ('id', 'r'), ('num', '1')), ('id', 'c')], None),
                             ('un', '&', ('id', 'R_rc'))]), repr(('id', 'G'))),
        ('for', repr([('expr', ('call', ('mem', ('call', ('mem', ('id', 'R'), 'col', False), [('id', 'cc')], None),
                                         'applyOnTheLeft', False),
                                [('id', 'r'), ('bin', '+', ('id', 'r'), ('num', '1')),
                                 ('call', ('mem', ('id', 'G'), 'adjoint', False), [], None)], None))])),
        ('applyOnTheRight', repr([('id', 'r'), ('bin', '+', ('id', 'r'), ('num', '1')), ('id', 'G')]),
         repr(('call', ('mem', ('id', 'Q'), 'block', False),
               [('num', '0'), ('num', '0'), ('call', ('mem', ('id', 'Q'), 'rows', False), [], None),
                ('id', 'q_idx')], None))),
    ]
    if shape != want_shape:
        raise TranslationError('remove_column: Givens sweep body changed shape '
                               '(makeGivens / applyOnTheLeft loop / applyOnTheRight): ' + repr(shape)[:400])
    regions['remove_column.sweep_shape'] = {'hash': cp.ast_hash(shape)}
    # min_eig / max_eig: nothing inside the sweep; `update_eig_bounds();` is the LAST statement, after the index updates
    eig_any = [n for s in ss for n in nested_assigns(s, ('min_eig', 'max_eig'))] + \
              [s for s in ss if s[0] == 'expr' and targets(s[1]) in ('min_eig', 'max_eig')]
    if eig_any:
        raise TranslationError('remove_column: min_eig / max_eig written outside update_eig_bounds()')
    call_upd = ('expr', ('call', ('id', 'update_eig_bounds'), [], None))
    if repr(ss[-1]) != repr(call_upd) or sum(repr(x) == repr(call_upd) for x in ss) != 1:
        raise TranslationError('remove_column: `update_eig_bounds();` is not its last statement')
    regions['remove_column.update_eig_last'] = {'hash': cp.ast_hash(ss[-1])}
    upd = [s for s in ss if s[0] == 'expr' and targets(s[1]) in IDX]
    nat_fn('lmqrRemoveIdx', None, ['m'] + list(IDX), stmts=upd, outputs=list(IDX),
           doc=f'{QR} :: remove_column — every statement that writes q_idx / r_idx_start / r_idx_end, in order')

    # ------------------------------------------------------------------ solve_col
    _, body = cp.find_region(cls, r'void\s+solve_col\s*\(')
    body2 = re.sub(r'R\s*\(\s*rR\s*,\s*cR\s*\)', 'R_d', body)
    ss = cp.parse_statements(body2)
    outer = [s for s in ss if s[0] == 'for']
    if len(outer) != 1:
        raise TranslationError('solve_col: expected one outer loop')
    ob = outer[0][4][1]
    ifs = [s for s in ob if s[0] == 'if']
    if len(ifs) != 1:
        raise TranslationError('solve_col: expected one threshold test')
    scalar_fn('lmqrSolveSkip', [('return', ifs[0][1])], ['R_d', 'tol'], ret='B',
              doc=f'{QR} :: solve_col — "do not divide by this pivot" test')
    want_then = [('expr', ('bin', '=', ('call', ('id', 'x'), [('id', 'rR')], None), ('cast', 'real_t', ('num', '0')))),
                 ('continue',)]
    th = ifs[0][2][1] if ifs[0][2][0] == 'block' else [ifs[0][2]]
    if repr(th) != repr(want_then):
        raise TranslationError('solve_col: skipped pivot no longer sets x(rR) = 0; continue')
    # loop skeleton: iterators and the three x(rR) statements
    skel = [s for s in ss if s[0] == 'decl'] + [outer[0][1], ('c', outer[0][2]), ('s', outer[0][3])] + \
           [s for s in ob if s[0] != 'if']
    want_skel_txt = (
        "[('decl', 'auto', 'rev_bgn', ('call', ('mem', ('call', ('id', 'ring_reverse_iter'), [], None), 'begin', False), [], None)), "
        "('decl', 'auto', 'rev_end', ('call', ('mem', ('call', ('id', 'ring_reverse_iter'), [], None), 'end', False), [], None)), "
        "('decl', 'auto', 'fwd_end', ('call', ('mem', ('call', ('id', 'ring_iter'), [], None), 'end', False), [], None)), "
        "('decl', 'auto', 'it_d', ('id', 'rev_bgn')), ('c', ('bin', '!=', ('id', 'it_d'), ('id', 'rev_end'))), "
        "('s', ('un', '++', ('id', 'it_d'))), "
        "('decl', 'auto', ('rR', 'cR'), ('un', '*', ('id', 'it_d'))), "
        "('expr', ('bin', '=', ('call', ('id', 'x'), [('id', 'rR')], None), ('bin', '*', ('call', ('mem', ('call', ('mem', ('id', 'Q'), 'col', False), [('id', 'rR')], None), 'transpose', False), [], None), ('id', 'b')))), "
        "('for', ('decl', 'auto', 'it_c', ('mem', ('id', 'it_d'), 'forwardit', False)), ('bin', '!=', ('id', 'it_c'), ('id', 'fwd_end')), ('un', '++', ('id', 'it_c')), "
        "('block', [('decl', 'auto', ('rX2', 'cR2'), ('un', '*', ('id', 'it_c'))), "
        "('expr', ('bin', '-=', ('call', ('id', 'x'), [('id', 'rR')], None), ('bin', '*', ('call', ('id', 'R'), [('id', 'rR'), ('id', 'cR2')], None), ('call', ('id', 'x'), [('id', 'rX2')], None))))])), "
        "('expr', ('bin', '/=', ('call', ('id', 'x'), [('id', 'rR')], None), ('id', 'R_d')))]")
    if repr(skel) != want_skel_txt:
        raise TranslationError('solve_col: back-substitution skeleton changed: ' + repr(skel)[:600])
    regions['solve_col.skeleton'] = {'hash': cp.ast_hash(skel)}

    # ------------------------------------------------------------------ scale_R / reset
    _, body = cp.find_region(cls, r'void\s+scale_R\s*\(\s*real_t\s+scal\s*\)')
    mm = re.search(r'for\s*\(\s*auto\s*\[\s*i\s*,\s*r_idx\s*\]\s*:\s*ring_iter\s*\(\s*\)\s*\)\s*'
                   r'R\.col\s*\(\s*r_idx\s*\)\s*\.topRows\s*\(\s*i\s*\+\s*1\s*\)\s*\*=\s*scal\s*;', body)
    if not mm:
        raise TranslationError('scale_R: `for (auto [i, r_idx] : ring_iter()) R.col(r_idx).topRows(i + 1) *= scal;` changed')
    regions['scale_R.loop'] = {'hash': cp.ast_hash(re.sub(r'\s+', '', mm.group(0)))}
    rest = cp.parse_statements(body[mm.end():])
    if repr(rest) != repr([('expr', ('call', ('id', 'update_eig_bounds'), [], None))]) or body[:mm.start()].strip():
        raise TranslationError('scale_R: expected the scaling loop followed by `update_eig_bounds();` only')
    regions['scale_R.update_eig_last'] = {'hash': cp.ast_hash(rest)}

    # update_eig_bounds(): `min_eig = +inf; max_eig = -inf; for (auto [i, r_idx] : ring_iter()) { min/max with R(i, r_idx) }`
    _, body = cp.find_region(cls, r'void\s+update_eig_bounds\s*\(\s*\)')
    body2 = re.sub(r'inf\s*<\s*config_t\s*>', 'INF', body)
    mm = re.search(r'for\s*\(\s*auto\s*\[\s*i\s*,\s*r_idx\s*\]\s*:\s*ring_iter\s*\(\s*\)\s*\)\s*\{', body2)
    if not mm:
        raise TranslationError('update_eig_bounds: `for (auto [i, r_idx] : ring_iter()) {` not found')
    close = body2.index('}', mm.end())
    if body2[close + 1:].strip():
        raise TranslationError('update_eig_bounds: statements after the loop')
    init_st = cp.parse_statements(body2[:mm.start()])
    if [targets(x[1]) if x[0] == 'expr' else None for x in init_st] != ['min_eig', 'max_eig']:
        raise TranslationError('update_eig_bounds: expected `min_eig = …; max_eig = …;` before the loop')
    env = {'INF': ('inf', 'S')}
    em = Emitter(lambda d: env.get(d))
    defs.append(em.function('lmqrEigInit', [('INF', 'inf', 'S')], init_st, None, outputs=['min_eig', 'max_eig'],
                            out_types={'min_eig': 'S', 'max_eig': 'S'},
                            doc=f'{QR} :: update_eig_bounds — start values (min_eig, max_eig); `inf` = `inf<config_t>`'))
    regions['lmqrEigInit'] = {'hash': cp.ast_hash(init_st)}
    loop_txt = re.sub(r'R\s*\(\s*i\s*,\s*r_idx\s*\)', 'R_d', body2[mm.end():close])
    loop_st = cp.parse_statements(loop_txt)
    if [targets(x[1]) if x[0] == 'expr' else None for x in loop_st] != ['min_eig', 'max_eig'] or \
            re.search(r'\b(i|r_idx|R)\b', loop_txt):
        raise TranslationError('update_eig_bounds: loop body is not two updates with the diagonal entry R(i, r_idx)')
    scalar_fn('lmqrEigStep', loop_st, ['min_eig', 'max_eig', 'R_d'], outputs=['min_eig', 'max_eig'],
              doc=f'{QR} :: update_eig_bounds — one trip of the loop over ring_iter() (R_d = R(i, r_idx), the diagonal entry)')

    _, body = cp.find_region(cls, r'void\s+reset\s*\(\s*\)')
    body2 = re.sub(r'inf\s*<\s*config_t\s*>', 'INF', body)
    ss = cp.parse_statements(body2)
    idx_st = [s for s in ss if s[0] == 'expr' and targets(s[1]) in IDX + ('reorth_count',)]
    eig_st = [s for s in ss if s[0] == 'expr' and targets(s[1]) in ('min_eig', 'max_eig')]
    if len(idx_st) + len(eig_st) != len(ss):
        raise TranslationError('reset(): unexpected statement')
    em = NatEmitter(lambda d: None)
    em.out_types = {k: 'N' for k in IDX + ('reorth_count',)}
    defs.append(em.function('lmqrResetIdx', [], idx_st, None, outputs=list(IDX) + ['reorth_count'],
                            out_types={k: 'N' for k in IDX + ('reorth_count',)},
                            doc=f'{QR} :: reset — (q_idx, r_idx_start, r_idx_end, reorth_count)').replace(
        'def lmqrResetIdx  :', 'def lmqrResetIdx :'))
    regions['lmqrResetIdx'] = {'hash': cp.ast_hash(idx_st)}
    env = {'INF': ('inf', 'S')}
    em = Emitter(lambda d: env.get(d))
    defs.append(em.function('lmqrResetEig', [('INF', 'inf', 'S')], eig_st, None, outputs=['min_eig', 'max_eig'],
                            out_types={'min_eig': 'S', 'max_eig': 'S'},
                            doc=f'{QR} :: reset — (min_eig, max_eig); `inf` = `inf<config_t>`'))
    regions['lmqrResetEig'] = {'hash': cp.ast_hash(eig_st)}

    # ------------------------------------------------------------------ ringbuffer.hpp
    _, it = cp.find_region(rb, r'struct\s+CircularIndexIterator\s*\{')
    TN = ('Index',)
    for nm, anchor in (('circInc', r'CircularIndexIterator\s*&\s*operator\+\+\s*\(\s*\)'),
                       ('circDec', r'CircularIndexIterator\s*&\s*operator--\s*\(\s*\)')):
        _, body = cp.find_region(it, anchor)
        ss = cp.parse_statements(index_lit(body), TN)
        ss = [s for s in ss if not (s[0] == 'expr' and s[1][0] == 'call' and dotted(s[1][1]) == 'assert')]
        if not (ss and ss[-1][0] == 'return' and repr(ss[-1][1]) == repr(('un', '*', ('id', 'this')))):
            raise TranslationError(f'{nm}: does not end in `return *this;`')
        env = {'max': ('max', 'N'), 'i.zerobased': ('zerobased', 'N'), 'i.circular': ('circular', 'N')}
        em = NatEmitter(lambda d: env.get(d))
        defs.append(em.function(nm, [('max', 'max', 'N'), ('i.zerobased', 'zerobased', 'N'),
                                     ('i.circular', 'circular', 'N')], ss[:-1], None,
                                outputs=['i.zerobased', 'i.circular'],
                                doc=f'{RB} :: CircularIndexIterator :: {anchor} — new (zerobased, circular)'))
        regions[nm] = {'hash': cp.ast_hash(ss)}
    for nm, anchor in (('circBegin', r'iterator\s+begin\s*\(\s*\)\s*const'),
                       ('circEnd', r'iterator\s+end\s*\(\s*\)\s*const')):
        _, body = cp.find_region(crange, anchor)
        ss = cp.parse_statements(index_lit(body), TN)
        ok = (len(ss) == 1 and ss[0][0] == 'return' and ss[0][1][0] == 'init' and len(ss[0][1][1]) == 2
              and ss[0][1][1][0][0] == 'init' and len(ss[0][1][1][0][1]) == 2)
        if not ok:
            raise TranslationError(f'{nm}: expected `return {{{{zerobased, circular}}, max}};`')
        env = {k: (k, 'N') for k in ('size', 'idx1', 'idx2', 'max')}
        em = NatEmitter(lambda d: env.get(d))
        em.locals = dict(env)
        zb = em.expr(ss[0][1][1][0][1][0], 'N')[0]
        ci = em.expr(ss[0][1][1][0][1][1], 'N')[0]
        mx = em.expr(ss[0][1][1][1], 'N')[0]
        defs.append(f'/-- {RB} :: CircularRange :: {anchor} — (zerobased, circular, max) of the iterator -/\n'
                    f'def {nm} (size : Nat) (idx1 : Nat) (idx2 : Nat) (max : Nat) : Nat × Nat × Nat :=\n'
                    f'  ({zb}, {ci}, {mx})\n')
        regions[nm] = {'hash': cp.ast_hash(ss)}
    # CircularIndices constructor order (zerobased, circular) and equality on zerobased
    if not re.search(r'CircularIndices\s*\(\s*Index\s+zerobased\s*,\s*Index\s+circular\s*\)\s*:\s*'
                     r'zerobased\s*\(\s*zerobased\s*\)\s*,\s*circular\s*\(\s*circular\s*\)', rb):
        raise TranslationError('CircularIndices constructor changed')
    mm = re.search(r'bool\s+operator==\s*\(\s*CircularIndices<IndexT>\s+a\s*,\s*CircularIndices<IndexT>\s+b\s*\)\s*\{', rb)
    if not mm:
        raise TranslationError('operator==(CircularIndices) not found')
    _, body = cp.find_region(rb, r'bool\s+operator==\s*\(\s*CircularIndices<IndexT>\s+a\s*,\s*CircularIndices<IndexT>\s+b\s*\)')
    ss = cp.parse_statements(body)
    env = {'a.zerobased': ('a_zerobased', 'N'), 'a.circular': ('a_circular', 'N'),
           'b.zerobased': ('b_zerobased', 'N'), 'b.circular': ('b_circular', 'N')}
    em = NatEmitter(lambda d: env.get(d))
    defs.append(em.function('circEq', [(k, v[0], 'N') for k, v in env.items()], ss, 'B',
                            doc=f'{RB} :: operator==(CircularIndices, CircularIndices)'))
    regions['circEq'] = {'hash': cp.ast_hash(ss)}
    # iterator equality forwards to the indices; != is the negation
    shapes = {}
    for label, anchor, want in (
        ('it==', r'bool\s+operator==\s*\(\s*CircularIndexIterator<IndexT>\s+a\s*,\s*CircularIndexIterator<IndexT>\s+b\s*\)',
         [('return', ('bin', '==', ('mem', ('id', 'a'), 'i', False), ('mem', ('id', 'b'), 'i', False)))]),
        ('it!=', r'bool\s+operator!=\s*\(\s*CircularIndexIterator<IndexT>\s+a\s*,\s*CircularIndexIterator<IndexT>\s+b\s*\)',
         [('return', ('un', '!', ('bin', '==', ('id', 'a'), ('id', 'b'))))]),
        ('idx!=', r'bool\s+operator!=\s*\(\s*CircularIndices<IndexT>\s+a\s*,\s*CircularIndices<IndexT>\s+b\s*\)',
         [('return', ('un', '!', ('bin', '==', ('id', 'a'), ('id', 'b'))))]),
        ('rev==', r'bool\s+operator==\s*\(\s*ReverseCircularIndexIterator<IndexT>\s+a\s*,\s*ReverseCircularIndexIterator<IndexT>\s+b\s*\)',
         [('return', ('bin', '==', ('mem', ('id', 'a'), 'forwardit', False), ('mem', ('id', 'b'), 'forwardit', False)))]),
        ('rev!=', r'bool\s+operator!=\s*\(\s*ReverseCircularIndexIterator<IndexT>\s+a\s*,\s*ReverseCircularIndexIterator<IndexT>\s+b\s*\)',
         [('return', ('un', '!', ('bin', '==', ('id', 'a'), ('id', 'b'))))]),
    ):
        _, body = cp.find_region(rb, anchor)
        ss = [s for s in cp.parse_statements(body)
              if not (s[0] == 'expr' and s[1][0] == 'call' and dotted(s[1][1]) == 'assert')]
        if repr(ss) != repr(want):
            raise TranslationError(f'ringbuffer.hpp {label}: changed shape: {ss!r}')
        shapes[label] = cp.ast_hash(ss)
    _, rit = cp.find_region(rb, r'struct\s+ReverseCircularIndexIterator\s*\{')
    for label, anchor, want in (
        ('rev*', r'reference\s+operator\*\s*\(\s*\)\s*const',
         [('decl', 'auto', 'tmp', ('id', 'forwardit')), ('return', ('un', '*', ('un', '--', ('id', 'tmp'))))]),
        ('rev++', r'ReverseCircularIndexIterator\s*&\s*operator\+\+\s*\(\s*\)',
         [('expr', ('un', '--', ('id', 'forwardit'))), ('return', ('un', '*', ('id', 'this')))]),
    ):
        _, body = cp.find_region(rit, anchor)
        ss = cp.parse_statements(body)
        if repr(ss) != repr(want):
            raise TranslationError(f'ReverseCircularIndexIterator {label}: changed shape: {ss!r}')
        shapes[label] = cp.ast_hash(ss)
    for label, src, anchor, want in (
        ('rbegin', crange, r'reverse_iterator\s+rbegin\s*\(\s*\)\s*const',
         "[('return', ('call', ('id', 'reverse_iterator'), [('call', ('id', 'end'), [], None)], None))]"),
        ('rend', crange, r'reverse_iterator\s+rend\s*\(\s*\)\s*const',
         "[('return', ('call', ('id', 'reverse_iterator'), [('call', ('id', 'begin'), [], None)], None))]"),
    ):
        _, body = cp.find_region(src, anchor)
        body = re.sub(r'reverse_iterator\s*\{([^}]*)\}', r'reverse_iterator(\1)', body)
        ss = cp.parse_statements(body)
        if repr(ss) != want:
            raise TranslationError(f'CircularRange::{label} changed shape: {ss!r}')
        shapes[label] = cp.ast_hash(ss)
    _, rrange = cp.find_region(rb, r'class\s+ReverseCircularRange\s*\{')
    for label, anchor, want in (
        ('Rbegin', r'iterator\s+begin\s*\(\s*\)\s*const',
         [('return', ('call', ('mem', ('id', 'forwardrange'), 'rbegin', False), [], None))]),
        ('Rend', r'iterator\s+end\s*\(\s*\)\s*const',
         [('return', ('call', ('mem', ('id', 'forwardrange'), 'rend', False), [], None))]),
    ):
        _, body = cp.find_region(rrange, anchor)
        ss = cp.parse_statements(body)
        if repr(ss) != repr(want):
            raise TranslationError(f'ReverseCircularRange::{label} changed shape: {ss!r}')
        shapes[label] = cp.ast_hash(ss)
    if not re.search(r'ReverseCircularRange\s*\(\s*const\s+ForwardRange\s*&\s*forwardrange\s*\)\s*:\s*'
                     r'forwardrange\s*\(\s*forwardrange\s*\)', rrange):
        raise TranslationError('ReverseCircularRange(ForwardRange) constructor changed')
    if not re.search(r'ReverseCircularIndexIterator\s*\(\s*ForwardIterator\s+forwardit\s*\)\s*:\s*'
                     r'forwardit\s*\(\s*forwardit\s*\)', rit):
        raise TranslationError('ReverseCircularIndexIterator(ForwardIterator) constructor changed')
    regions['ringbuffer.shapes'] = shapes

    # ------------------------------------------------------------------ anderson-helpers.hpp
    ah = read(AH)
    _, body = cp.find_region(ah, r'inline\s+void\s+minimize_update_anderson\s*\(')
    G = nfc('G̃')
    ifst = cp.find_statement(body, r'if\s*\(\s*qr\.num_columns\s*\(\s*\)')
    ss = cp.parse_statements(ifst)
    if not (len(ss) == 1 and ss[0][0] == 'if' and ss[0][3] is None and
            repr(ss[0][2]) == repr(('expr', ('call', ('mem', ('id', 'qr'), 'remove_column', False), [], None)))):
        raise TranslationError('minimize_update_anderson: `if (full) qr.remove_column();` changed')
    fns = {'qr_num_columns': ('num_columns', [], 'N'), 'qr_m': ('m', [], 'N')}
    env = {'num_columns': ('num_columns', 'N'), 'm': ('m', 'N')}
    em = NatEmitter(lambda d: env.get(d), scalar_fns=fns)
    defs.append(em.function('aaFull', [('num_columns', 'num_columns', 'N'), ('m', 'm', 'N')],
                            [('return', qr_calls(ss[0][1]))], 'B',
                            doc=f'{AH} :: "history buffer is full" test before the update'))
    regions['aaFull'] = {'hash': cp.ast_hash(ss)}
    # call sequence: remove (if full), add_column(rₖ - rₗₐₛₜ), solve_col(rₖ, γ_LS, tol)
    calls = [s for s in cp.parse_statements(body)
             if s[0] == 'expr' and s[1][0] == 'call' and s[1][1][0] == 'mem' and dotted(s[1][1][1]) == 'qr']
    rk, rl, gls = nfc('rₖ'), nfc('rₗₐₛₜ'), nfc('γ_LS')
    if len(calls) != 2 or calls[0][1][1][2] != 'add_column' or calls[1][1][1][2] != 'solve_col':
        raise TranslationError('minimize_update_anderson: qr call sequence changed')
    if repr(calls[0][1][2]) != repr([('bin', '-', ('id', rk), ('id', rl))]):
        raise TranslationError('minimize_update_anderson: add_column argument is not rₖ - rₗₐₛₜ')
    sargs = calls[1][1][2]
    if len(sargs) != 3 or repr(sargs[:2]) != repr([('id', rk), ('id', gls)]):
        raise TranslationError('minimize_update_anderson: solve_col arguments changed')
    scalar_fn('aaTol', [('return', qr_calls(sargs[2]))], ['max_eig', 'min_div_fac'], ret='S',
              fns={'qr_get_max_eig': ('max_eig', [], 'S')},
              doc=f'{AH} :: pivot threshold passed to solve_col')
    regions['aa.calls'] = {'hash': cp.ast_hash(calls)}
    # α statements
    a0 = cp.parse_statements(cp.find_statement(body, r'auto\s+α\s*=\s*'))
    if not (len(a0) == 1 and a0[0][0] == 'decl'):
        raise TranslationError('α₀ declaration not found')
    gam_fns = {gls: ('gam', ['N'], 'S'), 'qr_num_columns': ('num_columns', [], 'N')}
    pt = {'gam': 'Nat → α', 'i': 'N', 'num_columns': 'N'}

    def alpha_fn(name, expr_ast, params, doc):
        env = {p: (p, pt[p]) for p in params}
        em = Emitter(lambda d: env.get(d), scalar_fns=gam_fns)
        pl = [(p, p, pt[p]) for p in params]
        defs.append(em.function(name, pl, [('return', qr_calls(expr_ast))], 'S', doc=doc))
        lits.update(em.nat_lits)
        regions[name] = {'hash': cp.ast_hash(expr_ast)}

    alpha_fn('aaAlpha0', a0[0][3], ['gam'], f'{AH} :: α₀')
    wst = cp.find_statement(body, r'while\s*\(\s*\+\+g_it')
    # find_statement stops at the first ';' at depth 0 — inside the braces depth is 1, so this is the whole loop
    _, wbody = cp.find_region(body, r'while\s*\(\s*\+\+g_it\s*!=\s*g_end\s*\)')
    wss = cp.parse_statements(wbody)
    want_bind = ('decl', 'auto', ('i', 'g_idx'), ('un', '*', ('id', 'g_it')))
    if not (len(wss) == 3 and repr(wss[0]) == repr(want_bind) and wss[1][0] == 'expr'
            and targets(wss[1][1]) == 'α' and wss[1][1][1] == '='):
        raise TranslationError('minimize_update_anderson: accumulation loop changed shape')
    alpha_fn('aaAlphaMid', wss[1][1][3], ['gam', 'i'], f'{AH} :: αᵢ inside the loop (0 < i < mₖ)')
    xaa = nfc('xₖ_aa')
    want_acc = ('expr', ('bin', '+=', ('id', xaa), ('bin', '*', ('id', 'α'),
                ('call', ('mem', ('id', G), 'col', False), [('id', 'g_idx')], None))))
    if repr(wss[2]) != repr(want_acc):
        raise TranslationError('minimize_update_anderson: `xₖ_aa += α * G̃.col(g_idx)` changed')
    rest = body[body.index(wbody) + len(wbody):]
    last = cp.parse_statements(rest[rest.index('}') + 1:])
    gk = nfc('gₖ')
    if not (len(last) == 3 and last[0][0] == 'expr' and targets(last[0][1]) == 'α' and last[0][1][1] == '='):
        raise TranslationError('minimize_update_anderson: tail (α_last, accumulate, store) changed')
    alpha_fn('aaAlphaLast', last[0][1][3], ['gam', 'num_columns'], f'{AH} :: α for the current gₖ')
    want_tail = [('expr', ('bin', '+=', ('id', xaa), ('bin', '*', ('id', 'α'), ('id', gk)))),
                 ('expr', ('bin', '=', ('call', ('mem', ('id', G), 'col', False),
                                        [('call', ('mem', ('id', 'qr'), 'ring_tail', False), [], None)], None),
                           ('id', gk)))]
    if repr(last[1:]) != repr(want_tail):
        raise TranslationError('minimize_update_anderson: `xₖ_aa += α * gₖ; G̃.col(qr.ring_tail()) = gₖ;` changed')
    first = cp.parse_statements(cp.find_statement(body, nfc(r'xₖ_aa\s*=\s*α')))
    want_first = [('expr', ('bin', '=', ('id', xaa), ('bin', '*', ('id', 'α'),
                  ('call', ('mem', ('id', G), 'col', False),
                   [('mem', ('un', '*', ('id', 'g_it')), 'circular', False)], None))))]
    if repr(first) != repr(want_first):
        raise TranslationError('minimize_update_anderson: `xₖ_aa = α * G̃.col((*g_it).circular)` changed')
    its = cp.parse_statements(cp.find_statement(body, r'auto\s+g_it\s*=') + cp.find_statement(body, r'auto\s+g_end\s*='))
    want_its = [('decl', 'auto', 'g_it', ('call', ('mem', ('call', ('mem', ('id', 'qr'), 'ring_iter', False), [], None), 'begin', False), [], None)),
                ('decl', 'auto', 'g_end', ('call', ('mem', ('call', ('mem', ('id', 'qr'), 'ring_iter', False), [], None), 'end', False), [], None))]
    if repr(its) != repr(want_its):
        raise TranslationError('minimize_update_anderson: g_it / g_end changed')
    regions['aa.accumulate_shape'] = {'hash': cp.ast_hash((wss, last, first, its))}

    # ------------------------------------------------------------------ anderson.hpp
    aa = read(AA)
    _, acl = cp.find_region(aa, r'class\s+AndersonAccel\s*\{')
    _, body = cp.find_region(acl, r'void\s+resize\s*\(\s*length_t\s+n\s*\)')
    st = cp.parse_statements(cp.find_statement(body, r'length_t\s+m_AA\s*='))
    env = {'n': ('n', 'N'), 'params.memory': ('memory', 'N')}
    em = NatEmitter(lambda d: env.get(d))
    defs.append(em.function('aaMem', [('n', 'n', 'N'), ('params.memory', 'memory', 'N')],
                            [('return', st[0][3])], 'N', doc=f'{AA} :: resize — m_AA'))
    regions['aaMem'] = {'hash': cp.ast_hash(st)}
    rest = [s for s in cp.parse_statements(body) if s[0] == 'expr']
    want_rest = [
        ('expr', ('call', ('mem', ('id', 'qr'), 'resize', False), [('id', 'n'), ('id', 'm_AA')], None)),
        ('expr', ('call', ('mem', ('id', 'G'), 'resize', False), [('id', 'n'), ('id', 'm_AA')], None)),
        ('expr', ('call', ('mem', ('id', rl), 'resize', False), [('id', 'n')], None)),
        ('expr', ('call', ('mem', ('id', gls), 'resize', False), [('id', 'm_AA')], None)),
        ('expr', ('bin', '=', ('id', 'initialized'), ('id', 'false')))]
    if repr(rest) != repr(want_rest):
        raise TranslationError('AndersonAccel::resize changed shape')
    _, body = cp.find_region(acl, r'void\s+reset\s*\(\s*\)')
    ss = cp.parse_statements(body)
    want = [('decl', 'index_t', 'newest_g_idx', ('call', ('mem', ('id', 'qr'), 'ring_tail', False), [], None)),
            ('if', None, ('expr', ('bin', '=', ('call', ('mem', ('id', 'G'), 'col', False), [('num', '0')], None),
                                   ('call', ('mem', ('id', 'G'), 'col', False), [('id', 'newest_g_idx')], None))), None),
            ('expr', ('call', ('mem', ('id', 'qr'), 'reset', False), [], None))]
    got = [ss[0], ('if', None, ss[1][2], ss[1][3]) if len(ss) > 1 and ss[1][0] == 'if' else None] + ss[2:]
    if repr(got) != repr(want):
        raise TranslationError('AndersonAccel::reset changed shape')
    env = {'newest_g_idx': ('newest_g_idx', 'N')}
    em = NatEmitter(lambda d: env.get(d))
    defs.append(em.function('aaResetCopies', [('newest_g_idx', 'newest_g_idx', 'N')],
                            [('return', ss[1][1])], 'B',
                            doc=f'{AA} :: reset — test guarding `G.col(0) = G.col(newest_g_idx)`'))
    regions['aaResetCopies'] = {'hash': cp.ast_hash(ss)}
    _, body = cp.find_region(acl, r'void\s+initialize\s*\(\s*crvec\s+g_0\s*,\s*crvec\s+r_0\s*\)')
    ss = [s for s in cp.parse_statements(body)
          if not (s[0] == 'expr' and s[1][0] == 'call' and dotted(s[1][1]) == 'assert')]
    want = [('expr', ('bin', '=', ('call', ('mem', ('id', 'G'), 'col', False), [('num', '0')], None), ('id', 'g_0'))),
            ('expr', ('bin', '=', ('id', rl), ('id', 'r_0'))),
            ('expr', ('call', ('mem', ('id', 'qr'), 'reset', False), [], None)),
            ('expr', ('bin', '=', ('id', 'initialized'), ('id', 'true')))]
    if repr(ss) != repr(want):
        raise TranslationError('AndersonAccel::initialize changed shape')
    regions['aa.initialize'] = {'hash': cp.ast_hash(ss)}

    hdr = file_header('C10 limited-memory QR / ring buffer / Anderson index arithmetic and scalar formulas.',
                      nat_lits=lits)
    text = hdr + '\n'.join(defs) + FILE_FOOTER
    old = open(out_path).read() if os.path.exists(out_path) else None
    if old != text:
        with open(out_path, 'w') as f:
            f.write(text)
    return regions


if __name__ == '__main__':
    out = sys.argv[1] if len(sys.argv) > 1 else os.path.join(
        os.path.dirname(os.path.abspath(__file__)), '..', 'lean', 'Alpaqa', 'Gen', 'C10.lean')
    try:
        r = main(out)
        print(json.dumps({'ok': True, 'regions': r}))
    except TranslationError as e:
        print(json.dumps({'ok': False, 'error': str(e)}))
        sys.exit(2)
