#!/usr/bin/env python3
"""C11 translator: the scalar / componentwise statements of `SteihaugCG::solve`, all of
`SteihaugCG::get_boundaries_intersections`, and the scalar parts of `NewtonTRDirection::apply`,
re-extracted from /repo on every run and emitted as Lean (lean/Alpaqa/Gen/C11.lean).

Every statement of `solve` that computes a number, a vector or a branch condition becomes one
generated definition; the hand model (Model/C11.lean) only supplies the loop and the order in
which the kernels are called (that order is tied by the bit-exact correspondence run).

Oracles that are parameters of the generated definitions:
  hess_prod   `B : Vec α → Vec α`
  copysign    `copysign : α → α → α`   (sign-bit copy; `-0.0` matters at Float)
  round       `round : α → Int`        (only in `maxIterOf`)
"""
import json
import os
import re
import sys
sys.path.insert(0, os.path.dirname(os.path.abspath(__file__)))
import cxxparse as cp
from cxxparse import TranslationError
from lean_emit import Emitter, file_header, FILE_FOOTER, dotted, _indent

REPO = os.environ.get('VERIF_REPO', '/repo')
INC = REPO + '/src/alpaqa/include/alpaqa/'
CG = 'accelerators/steihaugcg.hpp'
NTR = 'inner/directions/pantr/newton-tr.hpp'

TY = {'S': 'α', 'V': 'Vec α', 'B': 'Bool', 'N': 'Nat'}


def read(rel):
    return cp.strip_comments(open(INC + rel, encoding='utf8').read())


def nfc(s):
    return cp.unicodedata.normalize('NFC', s)


def cond_of_if(src, anchor_re, which=0):
    """Text of the condition of the `if (…)` whose header matches anchor_re."""
    ms = list(re.finditer(anchor_re, src, re.S))
    if len(ms) <= which:
        raise TranslationError(f'anchor not found: {anchor_re!r} (occurrence {which})')
    m = ms[which]
    op = src.index('(', m.start())
    cl = cp.match_brace(src, op, '(', ')')
    return src[op + 1:cl]


def sub1(pattern, repl, text, what, count=1):
    """re.sub that must hit exactly `count` times (otherwise the tie is broken)."""
    out, n = re.subn(pattern, repl, text)
    if n != count:
        raise TranslationError(f'{what}: expected {count} occurrence(s) of {pattern!r}, found {n}')
    return out


class Gen:
    def __init__(self):
        self.defs = []
        self.regions = {}
        self.lits = set()

    def _emitter(self, params, scalar_fns=None):
        env = {c: (l, t) for c, l, t, _ in params}
        em = Emitter(lambda d: env.get(d), scalar_fns=scalar_fns or {})
        return em

    @staticmethod
    def _plist(params):
        return [(c, l, (lt or TY[t])) for c, l, t, lt in params]

    def stmts(self, name, text, params, outputs, out_tags, doc, scalar_fns=None, handler=None,
              ret=None):
        """params: (cxx, lean, tag, lean_type_or_None).  Emits a def from a statement list."""
        ss = cp.parse_statements(text)
        em = self._emitter(params, scalar_fns)
        em.stmt_call_handler = handler
        plist = [(c, l, t) for c, l, t, _ in params]
        ot = {}
        for o in (outputs or []):
            ot[o] = (out_tags or {}).get(o, 'S')
        txt = em.function(name, plist, ss, ret, outputs=outputs, doc=doc, out_types=ot)
        # re-print parameter list with custom Lean types (function tags are not Lean types)
        for c, l, t, lt in params:
            if lt:
                txt = txt.replace(f'({l} : {TY.get(t, t)})', f'({l} : {lt})', 1)
        self.lits.update(em.nat_lits)
        self.regions[name] = {'hash': cp.ast_hash(ss)}
        self.defs.append(txt)

    def cond(self, name, text, params, doc, scalar_fns=None):
        """Emit `def name … : Bool := <condition>` from the text of a C++ condition."""
        e = cp.parse_expression(text)
        em = self._emitter(params, scalar_fns)
        em.locals = {c: (l, t) for c, l, t, _ in params}
        body, _ = em.expr(e, 'B')
        ps = ' '.join(f'({l} : {lt or TY[t]})' for _, l, t, lt in params)
        self.lits.update(em.nat_lits)
        self.regions[name] = {'hash': cp.ast_hash(e)}
        self.defs.append(f'/-- {doc} -/\ndef {name} {ps} : Bool :=\n  {body}\n')


def P(*names, tag='S'):
    return [(n, cp.mangle(nfc(n).replace('.', '_')), tag, None) for n in names]


def main(out_path):
    G = Gen()
    src = read(CG)
    _, cls = cp.find_region(src, r'struct\s+SteihaugCG\s*\{')
    _, solve = cp.find_region(cls, r'real_t\s+solve\s*\(\s*const\s+auto\s*&\s*grad')
    _, gbi = cp.find_region(cls, r'static\s+auto\s+get_boundaries_intersections\s*\(')

    # the views `v(x)` are the first n rows of the workspaces: identity on the model's lists
    if not re.search(r'auto\s+v\s*=\s*\[n\]\s*\(auto\s*&v\)\s*\{\s*return\s+v\.topRows\(n\);\s*\}', solve):
        raise TranslationError('solve: the view lambda `v` is not `v.topRows(n)` any more')
    if not re.search(r'auto\s+z\s*=\s*v\(this->z\)\s*,\s*r\s*=\s*v\(this->r\)\s*,\s*d\s*=\s*v\(this->d\)\s*,'
                     r'\s*Bd\s*=\s*v\(this->Bd\)\s*;\s*auto\s+g\s*=\s*v\(grad\)\s*;\s*auto\s+s\s*=\s*v\(step\)\s*;',
                     solve):
        raise TranslationError('solve: workspace views z, r, d, Bd, g, s changed')
    if not re.search(r'z\.setZero\(\)\s*;', solve):
        raise TranslationError('solve: `z.setZero()` not found')

    # ---- initial state -----------------------------------------------------------------------
    init = cp.find_statement(solve, r'\br\s*=\s*g\s*;') + '\n' + \
        cp.find_statement(solve, r'\bd\s*=\s*-r\s*;') + '\n' + \
        cp.find_statement(solve, r'real_t\s+r_sq\s*=') + '\n' + \
        cp.find_statement(solve, r'real_t\s+grad_mag\s*=')
    G.stmts('cgInit', init, P('g', tag='V'), ['r', 'd', 'r_sq', 'grad_mag'],
            {'r': 'V', 'd': 'V'}, 'solve: `r = g; d = -r; r_sq = r.squaredNorm(); grad_mag = g.norm();`')

    # ---- zero gradient: early return of the origin --------------------------------------------
    # `if (grad_mag == 0) { s.setZero(); return 0; }` right after the initial state, before the tolerance
    zg_cond = cond_of_if(solve, r'if\s*\(\s*grad_mag\b')
    G.cond('cgZeroGrad', zg_cond, P('grad_mag'),
           'solve: `if (grad_mag == 0)` ⇒ `s.setZero(); return 0;` (the origin, model value 0)')
    _, zg_body = cp.find_region(solve, r'if\s*\(\s*grad_mag\b')
    if not re.fullmatch(r'\s*s\.setZero\(\)\s*;\s*return\s+0\s*;\s*', zg_body):
        raise TranslationError('solve: the zero-gradient branch is not `s.setZero(); return 0;`')
    pos = [re.search(pt, solve).start() for pt in (r'real_t\s+grad_mag\s*=', r'if\s*\(\s*grad_mag\b',
                                                   r'real_t\s+tolerance\s*=', r'while\s*\(\s*true\s*\)')]
    if pos != sorted(pos):
        raise TranslationError('solve: the zero-gradient test is not between `grad_mag = …` and the tolerance / loop')
    G.regions['cgZeroGradReturn'] = {'hash': cp.ast_hash(zg_body.split())}

    # ---- tolerance ---------------------------------------------------------------------------
    tol = cp.find_statement(solve, r'real_t\s+tolerance\s*=')
    G.stmts('cgTolerance', tol,
            P('params.tol_max', 'params.tol_scale', 'params.tol_scale_root', 'grad_mag'),
            ['tolerance'], None, 'solve: the default tolerance rule')

    # ---- iteration cap -----------------------------------------------------------------------
    mi = cp.find_statement(solve, r'const\s+auto\s+max_iter\s*=')
    ss = cp.parse_statements(mi)
    ok = (len(ss) == 1 and ss[0][0] == 'decl' and ss[0][2] == 'max_iter' and ss[0][3][0] == 'cast'
          and ss[0][3][1].strip() == 'index_t' and ss[0][3][2][0] == 'call'
          and dotted(ss[0][3][2][1]) == 'std::round' and len(ss[0][3][2][2]) == 1)
    if not ok:
        raise TranslationError('solve: `max_iter = static_cast<index_t>(std::round(…))` changed shape')
    em = Emitter(lambda d: {'n': ('n', 'N'), 'params.max_iter_factor': ('max_iter_factor', 'S')}.get(d))
    arg, _ = em.expr(ss[0][3][2][2][0], 'S')
    G.lits.update(em.nat_lits)
    G.regions['cgMaxIter'] = {'hash': cp.ast_hash(ss)}
    G.defs.append('/-- solve: `max_iter = static_cast<index_t>(std::round(static_cast<real_t>(n) * '
                  'params.max_iter_factor))`; `round` is the libm oracle. -/\n'
                  f'def cgMaxIter (round : α → Int) (n : Nat) (max_iter_factor : α) : Int :=\n  round {arg}\n')
    if not re.search(r'index_t\s+i\s*=\s*0\s*;', solve):
        raise TranslationError('solve: `index_t i = 0;` not found')

    # ---- model evaluation lambda -------------------------------------------------------------
    _, evalb = cp.find_region(solve, r'auto\s+eval\s*=\s*\[&\]\s*\(\s*crvec\s+p\s*\)')
    evalb = sub1(r'\bv\(work_eval\)', 'work_eval', evalb, 'eval lambda')

    def hess_handler(e, em):
        if dotted(e[1]) == 'hess_prod' and len(e[2]) == 2:
            x, _ = em.expr(e[2][0], 'V')
            return [(dotted(e[2][1]), 'V', f'(B {x})')]
        return None
    Bp = ('hess_prod', 'B', 'F', 'Vec α → Vec α')
    G.stmts('cgEval', evalb, [Bp] + P('g', 'p', tag='V'), None, None,
            'solve: `eval` — `hess_prod(p, work_eval); return p.dot(g) + 0.5 * p.dot(work_eval);`',
            handler=hess_handler, ret='S')

    # ---- the loop body -----------------------------------------------------------------------
    _, loop = cp.find_region(solve, r'while\s*\(\s*true\s*\)')
    curv = cp.find_statement(loop, r'hess_prod\s*\(\s*d\s*,\s*Bd\s*\)') + '\n' + \
        cp.find_statement(loop, r'real_t\s+dBd\s*=')
    G.stmts('cgCurvature', curv, [Bp] + P('d', tag='V'), ['Bd', 'dBd'], {'Bd': 'V'},
            'loop: `hess_prod(d, Bd); dBd = d.dot(Bd);`', handler=hess_handler)
    G.cond('cgNegCurv', cond_of_if(loop, r'if\s*\(\s*dBd\b'), P('dBd'),
           'loop: the curvature test `dBd <= 0`')

    _, neg = cp.find_region(loop, r'if\s*\(\s*dBd\b')
    # both branches ask for the two intersections with the same arguments
    calls = re.findall(r'auto\s*\[\s*ta\s*,\s*tb\s*\]\s*=\s*get_boundaries_intersections\s*\(\s*z\s*,\s*d\s*,'
                       r'\s*trust_radius\s*\)\s*;', loop)
    if len(calls) != 2:
        raise TranslationError('loop: expected two `auto [ta, tb] = get_boundaries_intersections(z, d, '
                               'trust_radius);`')
    if not (re.search(r'auto\s*&\s*pa\s*=\s*r\s*;', neg) and re.search(r'auto\s*&\s*pb\s*=\s*d\s*;', neg)):
        raise TranslationError('negative-curvature branch: storage aliases pa = r, pb = d changed')
    zd = P('z', tag='V') + P('ta', 'tb') + P('d', tag='V')
    G.stmts('cgPointA', cp.find_statement(neg, r'\bpa\s*=\s*z'), zd, ['pa'], {'pa': 'V'},
            'negative curvature: `pa = z + ta * d;`')
    G.stmts('cgPointB', cp.find_statement(neg, r'\bpb\s*=\s*z'), zd, ['pb'], {'pb': 'V'},
            'negative curvature: `pb = z + tb * d;`')
    if not re.search(r'real_t\s+q_a\s*=\s*eval\(pa\)\s*,\s*q_b\s*=\s*eval\(pb\)\s*;', neg):
        raise TranslationError('negative-curvature branch: `q_a = eval(pa), q_b = eval(pb)` changed')
    qmin = cp.find_statement(neg, r'real_t\s+q_min\s*=')
    pick = cond_of_if(neg, r'if\s*\(\s*q_a\b')
    G.stmts('cgPickA', qmin + '\nbool pick_a = ' + pick + ';', P('q_a', 'q_b'), ['pick_a'], {'pick_a': 'B'},
            'negative curvature: `q_min = fmin(q_a, q_b); if (q_a == q_min)` — true ⇒ return (pa, q_a)')
    _, then_b = cp.find_region(neg, r'if\s*\(\s*q_a\b')
    m_else = re.search(r'if\s*\(\s*q_a[^{]*\{[^}]*\}\s*else\s*\{([^}]*)\}', neg, re.S)
    if not (re.fullmatch(r'\s*s\s*=\s*pa\s*;\s*return\s+q_a\s*;\s*', then_b) and m_else and
            re.fullmatch(r'\s*s\s*=\s*pb\s*;\s*return\s+q_b\s*;\s*', m_else.group(1))):
        raise TranslationError('negative-curvature branch: returns are not (pa, q_a) / (pb, q_b)')
    G.regions['cgNegCurvReturns'] = {'hash': cp.ast_hash(cp.parse_statements(then_b + m_else.group(1)))}

    G.stmts('cgAlpha', cp.find_statement(loop, r'real_t\s+alpha\s*='), P('r_sq', 'dBd'), ['alpha'], None,
            'loop: `alpha = r_sq / dBd;`')
    G.cond('cgAlphaBad', cond_of_if(loop, r'if\s*\(\s*!\s*std::isfinite\s*\(\s*alpha'), P('alpha'),
           'loop: `!std::isfinite(alpha)` ⇒ NaN step, NaN value')
    _, bad = cp.find_region(loop, r'if\s*\(\s*!\s*std::isfinite\s*\(\s*alpha')
    if not re.fullmatch(r'\s*s\.setConstant\(NaN<config_t>\)\s*;\s*return\s+NaN<config_t>\s*;\s*', bad):
        raise TranslationError('loop: non-finite alpha branch changed')
    G.stmts('cgTrial', cp.find_statement(loop, r'\bs\s*=\s*z\s*\+\s*alpha'), P('z', tag='V') + P('alpha') + P('d', tag='V'),
            ['s'], {'s': 'V'}, 'loop: `s = z + alpha * d;`')
    G.cond('cgOverLong', cond_of_if(loop, r'if\s*\(\s*s\.norm\s*\('), P('s', tag='V') + P('trust_radius'),
           'loop: the over-long-step test `s.norm() >= trust_radius`')
    _, over = cp.find_region(loop, r'if\s*\(\s*s\.norm\s*\(')
    G.stmts('cgBoundary', cp.find_statement(over, r'\bs\s*=\s*z'), zd, ['s'], {'s': 'V'},
            'over-long step: `s = z + tb * d;` (the non-negative root)')
    if not re.search(r'return\s+eval\(s\)\s*;', over):
        raise TranslationError('over-long branch: `return eval(s);` not found')
    resid = cp.find_statement(loop, r'\br\s*[-+*/]=\s*alpha') + '\n' + cp.find_statement(loop, r'real_t\s+r_next_sq\s*=') + \
        '\n' + cp.find_statement(loop, r'real_t\s+r_next\s*=')
    G.stmts('cgResidual', resid, P('r', tag='V') + P('alpha') + P('Bd', tag='V'),
            ['r', 'r_next_sq', 'r_next'], {'r': 'V'},
            'loop: `r += alpha * Bd; r_next_sq = r.squaredNorm(); r_next = sqrt(r_next_sq);`')
    int_cond = cond_of_if(loop, r'if\s*\(\s*r_next\b')
    G.cond('cgInteriorExit', int_cond,
           P('r_next', 'tolerance') + [('i', '(Int.ofNat i)', 'N', None), ('max_iter', 'max_iter', 'N', None)],
           'loop: the interior exit tests `r_next < tolerance || r_next == 0 || i > max_iter`')
    # `i` is a Nat, `max_iter` an Int (index_t is signed): fix the printed binder types
    G.defs[-1] = G.defs[-1].replace('((Int.ofNat i) : Nat)', '(i : Nat)').replace('(max_iter : Nat)', '(max_iter : Int)')
    after = loop[loop.index(int_cond):]
    if not re.match(r'[^;{]*\)\s*return\s+eval\(s\)\s*;', after[len(int_cond):]):
        raise TranslationError('loop: interior exit is not `return eval(s);`')
    nxt = cp.find_statement(loop, r'real_t\s+beta_next\s*=') + '\n' + cp.find_statement(loop, r'\br_sq\s*=\s*r_next_sq') + \
        '\n' + cp.find_statement(loop, r'\bd\s*=\s*beta_next') + '\n' + cp.find_statement(loop, r'\bz\s*=\s*s\s*;') + \
        '\n' + cp.find_statement(loop, r'\+\+i\s*;')
    G.stmts('cgNext', nxt,
            P('r_next_sq', 'r_sq') + P('d', 'r', 's', 'z', tag='V') + [('i', 'i', 'N', None)],
            ['beta_next', 'r_sq', 'd', 'z', 'i'], {'d': 'V', 'z': 'V', 'i': 'N'},
            'loop: `beta_next = r_next_sq / r_sq; r_sq = r_next_sq; d = beta_next * d - r; z = s; ++i;`')
    # order of the statements inside the loop (structure hash: a moved statement breaks the tie)
    order = [m.start() for m in (re.search(p, loop) for p in (
        r'hess_prod\s*\(\s*d', r'if\s*\(\s*dBd', r'real_t\s+alpha', r'std::isfinite\s*\(\s*alpha',
        r's\s*=\s*z\s*\+\s*alpha', r's\.norm\(\)', r'r\s*\+=', r'real_t\s+r_next_sq', r'if\s*\(\s*r_next',
        r'real_t\s+beta_next', r'\+\+i')) if m]
    if len(order) != 11 or order != sorted(order):
        raise TranslationError('loop: statement order changed')

    # ---- get_boundaries_intersections (whole body) -------------------------------------------
    m = re.search(r'return\s+std::make_tuple\s*\((.*)\)\s*;\s*$', gbi, re.S)
    if not m:
        raise TranslationError('get_boundaries_intersections: `return std::make_tuple(…, …);` not found')
    args, depth, cur = [], 0, ''
    for ch in m.group(1):
        if ch == ',' and depth == 0:
            args.append(cur); cur = ''
            continue
        depth += ch in '([{'
        depth -= ch in ')]}'
        cur += ch
    args.append(cur)
    if len(args) != 2:
        raise TranslationError('get_boundaries_intersections: make_tuple does not have two components')
    gbi2 = gbi[:m.start()] + f'real_t t_lo = {args[0]}; real_t t_hi = {args[1]};'
    G.stmts('boundaryIntersections', gbi2,
            [('std::copysign', 'copysign', 'F', 'α → α → α')] + P('z', 'd', tag='V') + P('trust_radius'),
            ['t_lo', 't_hi'], None,
            'SteihaugCG::get_boundaries_intersections: the two roots of ‖z + t d‖² = Δ², (low, high)',
            scalar_fns={'std::copysign': ('copysign', ['S', 'S'], 'S')})

    # ---- NewtonTRDirection::apply: the scalar / componentwise parts ----------------------------
    nsrc = nfc(read(NTR))
    _, ncls = cp.find_region(nsrc, r'struct\s+NewtonTRDirection\s*\{')
    _, app = cp.find_region(ncls, r'real_t\s+apply\s*\(')
    app = app.replace('γₖ', 'γ').replace('pₖ', 'p').replace('qₖ', 'q')
    G.cond('ntrRadiusNotFinite', cond_of_if(app, r'if\s*\(\s*!\s*std::isfinite\s*\(\s*radius'), P('radius'),
           'apply: `!std::isfinite(radius)` ⇒ throws logic_error')
    small = sub1(r'std::numeric_limits<real_t>::epsilon\(\)', 'eps_machine',
                 cond_of_if(app, r'if\s*\(\s*radius\s*<'), 'radius-too-small test')
    G.cond('ntrRadiusTooSmall', small, P('radius', 'eps_machine'),
           'apply: `radius < epsilon` ⇒ throws logic_error')
    rJ = sub1(r'\bp\(J\)', 'p_J', cp.find_statement(app, r'\brJ\s*=\s*\('), 'rJ statement')
    G.stmts('ntrRhs', rJ, P('γ') + P('p_J', tag='V'), ['rJ'], {'rJ': 'V'},
            'apply: `rJ = (-1 / γ) * p(J);`')
    if not (re.search(r'\bq\(K\)\s*=\s*p\(K\)\s*;', app) and re.search(r'\bq\(J\)\.setZero\(\)\s*;', app)):
        raise TranslationError('apply: `q(K) = p(K); q(J).setZero();` not found')
    nq = sub1(r'\bp\(K\)', 'p_K', cp.find_statement(app, r'real_t\s+norm_qK_sq\s*='), 'norm_qK_sq statement')
    G.stmts('ntrNormQK', nq, P('p_K', tag='V'), ['norm_qK_sq'], None,
            'apply: `norm_qK_sq = p(K).squaredNorm();`')
    G.cond('ntrUseHess', cond_of_if(app, r'if\s*\(\s*direction_params\.hessian_vec_factor'),
           P('direction_params.hessian_vec_factor'), 'apply: `hessian_vec_factor != 0`')
    _, hv = cp.find_region(app, r'if\s*\(\s*direction_params\.hessian_vec_factor')
    m = re.search(r'\}\s*else\s*\{(.*)\}\s*$', hv, re.S)
    if not m:
        raise TranslationError('apply: exact-Hessian branch of the Hessian-vector term not found')
    exact = m.group(1)
    if not re.search(r'problem->eval_hess_ψ_prod\(xₖ,\s*\*y,\s*\*Σ,\s*1,\s*q,\s*work\)\s*;', exact):
        raise TranslationError('apply: `eval_hess_ψ_prod(xₖ, *y, *Σ, 1, q, work)` changed')
    upd = cp.find_statement(exact, r'\brJ\.noalias\(\)\s*\+=')
    upd = sub1(r'rJ\.noalias\(\)', 'rJ', upd, 'rJ update')
    upd = sub1(r'\bwork\(J\)', 'work_J', upd, 'rJ update')
    G.stmts('ntrRhsHess', upd, P('rJ', 'work_J', tag='V') + P('direction_params.hessian_vec_factor'),
            ['rJ'], {'rJ': 'V'}, 'apply: `rJ += work(J) * hessian_vec_factor;` with `work = ∇²ψ(x)·q`')
    _, hvm = cp.find_region(app, r'auto\s+hess_vec_mult\s*=')
    m = re.search(r'\}\s*else\s*\{(.*)\}\s*$', hvm, re.S)
    if not (m and re.fullmatch(r'\s*work\.setZero\(\)\s*;\s*work\(J\)\s*=\s*p\s*;\s*'
                               r'problem->eval_hess_ψ_prod\(xₖ,\s*\*y,\s*\*Σ,\s*1,\s*work,\s*work_2\)\s*;\s*'
                               r'Bp\.topRows\(nJ\)\s*=\s*work_2\(J\)\s*;\s*', m.group(1))):
        raise TranslationError('apply: hess_vec_mult (exact branch) is not gather∘H∘scatter any more')
    G.regions['ntrHessVecMult'] = {'hash': cp.ast_hash(m.group(1).split())}
    if not (re.search(r'real_t\s+qJ_model\s*=\s*steihaug\.solve\(rJ,\s*hess_vec_mult,\s*radius,\s*qJ\)\s*;', app)
            and re.search(r'\bq\(J\)\s*=\s*qJ\s*;', app)):
        raise TranslationError('apply: `qJ_model = steihaug.solve(rJ, hess_vec_mult, radius, qJ); q(J) = qJ;` changed')
    ret = cp.find_statement(app, r'return\s+qJ_model')
    G.stmts('ntrReturn', ret, P('qJ_model', 'norm_qK_sq', 'γ'), None, None,
            'apply: `return qJ_model - norm_qK_sq / (2 * γ);`', ret='S')

    hdr = file_header('C11 Steihaug CG / Newton-TR kernels.', nat_lits=G.lits)
    hdr = hdr.replace('namespace Alpaqa.Gen\n', 'namespace Alpaqa.Gen.C11\n')
    text = hdr + '\n'.join(G.defs) + FILE_FOOTER.replace('end Alpaqa.Gen', 'end Alpaqa.Gen.C11')
    old = open(out_path).read() if os.path.exists(out_path) else None
    if old != text:
        with open(out_path, 'w') as f:
            f.write(text)
    return G.regions


if __name__ == '__main__':
    out = sys.argv[1] if len(sys.argv) > 1 else os.path.join(
        os.path.dirname(os.path.abspath(__file__)), '..', 'lean', 'Alpaqa', 'Gen', 'C11.lean')
    try:
        r = main(out)
        print(json.dumps({'ok': True, 'regions': r}))
    except (TranslationError, ValueError, IndexError) as e:
        print(json.dumps({'ok': False, 'error': str(e)}))
        sys.exit(2)
