#!/usr/bin/env python3
"""C16 translator: lifetime logic of `alpaqa::util::TypeErased` (util/type-erasure.hpp),
regenerated from the working tree on every run.

Two kinds of output go to lean/Alpaqa/Gen/C16.lean:

 1. decision predicates (translated with cxxparse + lean_emit, over `Nat`):
    the sentinels `invalid_size / mut_ref_size / const_ref_size`, `size_indicates_ownership`,
    `size_indicates_const`, `owns_referenced_object`, `referenced_object_is_const`, the
    small-buffer predicates of `allocate` (`size <= small_buffer_size`) and of `deallocate` /
    the three move paths (`size > small_buffer_size`), `operator bool`, the pointer-constructor
    size selection, and the guards in front of non-const dispatch (`call`, `as`, `get_pointer`).

 2. the *shape* of every lifetime function: for copy-ctor, allocator-aware copy-ctor,
    copy-assign, move-ctor, allocator-aware move-ctor, move-assign, cleanup, deallocate,
    allocate, do_copy_assign and construct_inplace, the list of control-flow paths, each a list
    of (condition, polarity) and the ordered list of lifetime actions performed
    (allocate / copy-construct / move-construct / destroy / deallocate(by whom, what) /
    pointer-steal / set-null / allocator propagation …).  Any statement of these bodies that is
    not recognised raises TranslationError (a broken tie, never a silent skip), so a dropped
    `vtable.destroy`, a swapped deallocator or a forgotten `other.self = nullptr` changes the
    generated table, and `Props.C16.shape_*` (decide) no longer compiles.
"""
import json
import os
import re
import sys
sys.path.insert(0, os.path.dirname(os.path.abspath(__file__)))
import cxxparse as cp
from lean_emit import Emitter

REPO = os.environ.get('VERIF_REPO', '/repo')
HDR = REPO + '/src/alpaqa/include/alpaqa/util/type-erasure.hpp'
TE = cp.TranslationError


# ------------------------------------------------------------------ AST → canonical text

def show(a):
    k = a[0]
    if k in ('num', 'id', 'str', 'chr'):
        return a[1]
    if k == 'un':
        return f'{a[1]}{show(a[2])}'
    if k == 'post':
        return f'{show(a[2])}{a[1]}'
    if k == 'bin':
        return f'({show(a[2])} {a[1]} {show(a[3])})'
    if k == 'tern':
        return f'({show(a[1])} ? {show(a[2])} : {show(a[3])})'
    if k == 'call':
        t = f'<{a[3]}>' if a[3] is not None else ''
        return f'{show(a[1])}{t}(' + ', '.join(show(x) for x in a[2]) + ')'
    if k == 'mem':
        return f'{show(a[1])}{"->" if a[3] else "."}{a[2]}'
    if k == 'cast':
        return f'cast<{a[1]}>({show(a[2])})'
    if k == 'init':
        return '{' + ', '.join(show(x) for x in a[1]) + '}'
    if k == 'idx':
        return f'{show(a[1])}[{show(a[2])}]'
    raise TE(f'cannot print node {k}')


# ------------------------------------------------------------------ classification tables

CONDS = {
    '(&other == this)': 'selfAssign',
    '(other.self == nullptr)': 'otherEmpty',
    '!other': 'otherEmpty',
    'other.self': 'otherNonEmpty',
    'self': 'nonEmpty',
    '!other.owns_referenced_object()': 'otherNotOwning',
    '!owns_referenced_object()': 'notOwning',
    '(size > small_buffer_size)': 'sizeLarge',
    '(allocator == other.allocator)': 'allocEq',
    'prop_alloc': 'propAlloc',
    '(CopyAllocator && prop_alloc)': 'copyAllocAndProp',
    '(prop_alloc || (allocator == other.allocator))': 'propAllocOrAllocEq',
    '(!other.owns_referenced_object() || (size > small_buffer_size))': 'otherNotOwningOrSizeLarge',
}
COND_NAMES = ['selfAssign', 'otherEmpty', 'otherNonEmpty', 'nonEmpty', 'otherNotOwning', 'notOwning',
              'sizeLarge', 'allocEq', 'propAlloc', 'copyAllocAndProp', 'propAllocOrAllocEq',
              'otherNotOwningOrSizeLarge']

ACTS_EXPR = {
    'cleanup()': 'cleanup',
    'do_copy_assign<false>(other)': 'doCopyAssignKeepAlloc',
    'do_copy_assign<true>(other)': 'doCopyAssignMayCopyAlloc',
    '(vtable = other.vtable)': 'copyVtable',
    '(vtable = std::move(other.vtable))': 'moveVtable',
    '(allocator = other.allocator)': 'copyAllocator',
    '(allocator = std::move(other.allocator))': 'moveAllocator',
    '(size = other.size)': 'takeSize',
    '(self = other.self)': 'aliasPtr',
    '(self = std::exchange(other.self, nullptr))': 'stealPtr',
    '(self = small_buffer.data())': 'useSmallBuffer',
    '(self = allocator.allocate(size))': 'allocOwn',
    'vtable.move(other.self, self)': 'moveConstruct',
    'vtable.copy(other.self, self)': 'copyConstruct',
    'vtable.destroy(other.self)': 'destroyOther',
    'vtable.destroy(self)': 'destroySelf',
    'other.deallocate()': 'otherDeallocate',
    'deallocate()': 'selfDeallocate',
    '(other.self = nullptr)': 'nullOther',
    '(self = nullptr)': 'nullSelf',
    '(other.size = invalid_size)': 'invalidateOtherSize',
    'storage_guard.release()': 'releaseGuard',
    '(self = ((size <= small_buffer_size) ? small_buffer.data() : allocator.allocate(size)))':
        'chooseStorage',
    '(this->size = size)': 'setSize',
}
ACT_NAMES = sorted(set(ACTS_EXPR.values())) + [
    'bindPropMoveAssign', 'bindPropCopyAssign', 'guardedAllocateOtherSize', 'guardedAllocateSizeofT',
    'deallocOwnSelf', 'deallocOwnOtherSelf', 'deallocOtherOtherSelf', 'deallocOtherSelf',
    'deallocOwnIfPropElseOtherOtherSelf', 'returnGuard', 'initAllocSelectOnCopy', 'initAllocArg',
    'initAllocMoveOther', 'initVtableCopy', 'initVtableMove', 'constructPayload', 'setVtableInPlace',
    'releaseObjGuard', 'setRefSize', 'setRefSelf']

ALLOC_SEL = {
    'allocator': 'Own',
    'other.allocator': 'Other',
    '(prop_alloc ? allocator : other.allocator)': 'OwnIfPropElseOther',
}
PTR_SEL = {'self': 'Self', 'other.self': 'OtherSelf'}


class Paths:
    """Enumerate control-flow paths of a statement list as (conds, acts)."""

    def __init__(self, fname):
        self.fname = fname
        self.locals = {}

    def cond(self, ast):
        t = show(ast)
        if t not in CONDS:
            raise TE(f'{self.fname}: unrecognised condition `{t}`')
        return CONDS[t]

    def resolve(self, ast):
        """Replace local reference / cast aliases by their initialisers (canonical text)."""
        while True:
            if ast[0] == 'cast':
                ast = ast[2]
                continue
            if ast[0] == 'id' and ast[1] in self.locals:
                ast = self.locals[ast[1]]
                continue
            return show(ast)

    def act_of_expr(self, e):
        t = show(e)
        if t in ACTS_EXPR:
            return [ACTS_EXPR[t]]
        if e[0] == 'call' and show(e[1]) == 'assert':
            return []
        # X.deallocate(P, size)
        if e[0] == 'call' and e[1][0] == 'mem' and e[1][2] == 'deallocate' and len(e[2]) == 2:
            who = self.resolve(e[1][1])
            ptr = self.resolve(e[2][0])
            if show(e[2][1]) != 'size':
                raise TE(f'{self.fname}: deallocate with size `{show(e[2][1])}`')
            if who not in ALLOC_SEL or ptr not in PTR_SEL:
                raise TE(f'{self.fname}: unrecognised deallocate `{who}`.deallocate(`{ptr}`)')
            return ['dealloc' + ALLOC_SEL[who] + PTR_SEL[ptr]]
        raise TE(f'{self.fname}: unrecognised statement `{t}`')

    def act_of_decl(self, s):
        _, ty, name, init = s
        if not isinstance(name, str) or init is None:
            raise TE(f'{self.fname}: unsupported declaration {name}')
        t = show(init)
        if name == 'prop_alloc':
            if t == 'allocator_traits::propagate_on_container_move_assignment::value':
                return ['bindPropMoveAssign']
            if t == 'allocator_traits::propagate_on_container_copy_assignment::value':
                return ['bindPropCopyAssign']
            raise TE(f'{self.fname}: prop_alloc bound to `{t}`')
        if name == 'storage_guard':
            if t == 'allocate(other.size)':
                return ['guardedAllocateOtherSize']
            if t == 'allocate(sizeof(T))':
                return ['guardedAllocateSizeofT']
            raise TE(f'{self.fname}: storage_guard = `{t}`')
        if '&' in ty or name in ('other_pointer',):
            self.locals[name] = init        # reference alias / cast of a pointer
            return []
        raise TE(f'{self.fname}: unrecognised declaration `{ty} {name} = {t}`')

    def run(self, stmts):
        """returns list of (conds, acts) — all complete paths."""
        done = []
        live = [([], [])]
        for s in stmts:
            live, fin = self.step(s, live)
            done += fin
        return done + live

    def step(self, s, live):
        k = s[0]
        if not live:
            return live, []
        if k == 'block':
            fin = []
            for t in s[1]:
                live, f = self.step(t, live)
                fin += f
            return live, fin
        if k == 'return':
            if s[1] is not None and show(s[1]) == '{this}':
                live = [(c, a + ['returnGuard']) for c, a in live]
            elif s[1] is not None and show(s[1]) != '*this':
                raise TE(f'{self.fname}: return `{show(s[1])}`')
            return [], live
        if k == 'if':
            c = self.cond(s[1])
            th = s[2] if s[2][0] == 'block' else ('block', [s[2]])
            el = s[3] if s[3] is None or s[3][0] == 'block' else ('block', [s[3]])
            l1, f1 = self.step(th, [(cs + [(c, True)], a) for cs, a in live])
            l2 = [(cs + [(c, False)], a) for cs, a in live]
            f2 = []
            if el is not None:
                l2, f2 = self.step(el, l2)
            return l1 + l2, f1 + f2
        if k == 'decl':
            acts = self.act_of_decl(s)
            return [(c, a + acts) for c, a in live], []
        if k == 'expr':
            acts = self.act_of_expr(s[1])
            return [(c, a + acts) for c, a in live], []
        raise TE(f'{self.fname}: unsupported statement kind {k}')


class Progs(Paths):
    """The same statement walk, but keeping the *interleaving* of decisions and actions: a decision
    tree `ret | act a k | ite c t e` (the continuation of an `if` is duplicated into both branches,
    an early `return` cuts it).  This is the program the Lean interpreter (`Model/C16Exec.lean`)
    executes: the model the driver runs is this regenerated description."""

    def build(self, stmts):
        if not stmts:
            return ('ret',)
        s, rest = stmts[0], list(stmts[1:])
        k = s[0]
        if k == 'block':
            return self.build(list(s[1]) + rest)
        if k == 'return':
            if s[1] is not None and show(s[1]) == '{this}':
                return ('act', 'returnGuard', ('ret',))
            if s[1] is not None and show(s[1]) != '*this':
                raise TE(f'{self.fname}: return `{show(s[1])}`')
            return ('ret',)
        if k == 'if':
            c = self.cond(s[1])
            th = self.build([s[2]] + rest)
            el = self.build(([s[3]] if s[3] is not None else []) + rest)
            return ('ite', c, th, el)
        if k == 'decl':
            acts = self.act_of_decl(s)
        elif k == 'expr':
            acts = self.act_of_expr(s[1])
        else:
            raise TE(f'{self.fname}: unsupported statement kind {k}')
        p = self.build(rest)
        for a in reversed(acts):
            p = ('act', a, p)
        return p


def prog_paths(p, conds=(), acts=()):
    """control-flow paths of a program tree (used to cross-check the two walks)"""
    if p[0] == 'ret':
        return [(list(conds), list(acts))]
    if p[0] == 'act':
        return prog_paths(p[2], conds, acts + (p[1],))
    return (prog_paths(p[2], conds + ((p[1], True),), acts) +
            prog_paths(p[3], conds + ((p[1], False),), acts))


def lean_prog(p, ind=2):
    sp = ' ' * ind
    if p[0] == 'ret':
        return sp + '.ret'
    if p[0] == 'act':
        # chains of actions on consecutive lines, same indentation
        return sp + f'(.act .{p[1]}\n' + lean_prog(p[2], ind) + ')'
    return (sp + f'(.ite .{p[1]}\n' + lean_prog(p[2], ind + 2) + '\n' + lean_prog(p[3], ind + 2) + ')')


# ------------------------------------------------------------------ region location

def function_parts(src, anchor, which=0):
    """(init_list_text, body_text) of the function / constructor whose signature matches."""
    ms = list(re.finditer(anchor, src, re.S))
    if len(ms) <= which:
        raise TE(f'anchor not found: {anchor!r}')
    i = ms[which].end()
    # skip `noexcept`, whitespace
    m = re.compile(r'\s*(noexcept)?\s*').match(src, i)
    i = m.end()
    inits = []
    if src[i] == ':':
        i += 1
        while True:
            m = re.compile(r'\s*([A-Za-z_][\w:]*)\s*([{(])').match(src, i)
            if not m:
                raise TE(f'cannot parse member-initialiser list after {anchor!r}')
            ob = m.end() - 1
            cb = cp.match_brace(src, ob, src[ob], '}' if src[ob] == '{' else ')')
            inits.append((m.group(1), src[ob + 1:cb]))
            i = cb + 1
            m = re.compile(r'\s*,').match(src, i)
            if m:
                i = m.end()
                continue
            break
    m = re.compile(r'\s*\{').match(src, i)
    if not m:
        raise TE(f'no body after {anchor!r}: {src[i:i + 40]!r}')
    ob = m.end() - 1
    cb = cp.match_brace(src, ob)
    return inits, src[ob + 1:cb]


INIT_ACTS = {
    ('allocator', 'allocator_traits::select_on_container_copy_construction(other.allocator)'):
        'initAllocSelectOnCopy',
    ('allocator', 'alloc'): 'initAllocArg',
    ('allocator', 'std::move(other.allocator)'): 'initAllocMoveOther',
    ('vtable', 'other.vtable'): 'initVtableCopy',
    ('vtable', 'std::move(other.vtable)'): 'initVtableMove',
}

FUNCS = [
    ('copyCtor', r'TypeErased\s*\(\s*const\s+TypeErased\s*&\s*other\s*\)'),
    ('copyCtorAlloc', r'TypeErased\s*\(\s*const\s+TypeErased\s*&\s*other\s*,\s*const\s+allocator_type\s*&\s*alloc\s*\)'),
    ('copyAssign', r'TypeErased\s*&\s*operator=\s*\(\s*const\s+TypeErased\s*&\s*other\s*\)'),
    ('moveCtor', r'TypeErased\s*\(\s*TypeErased\s*&&\s*other\s*\)'),
    ('moveCtorAlloc', r'TypeErased\s*\(\s*TypeErased\s*&&\s*other\s*,\s*const\s+allocator_type\s*&\s*alloc\s*\)'),
    ('moveAssign', r'TypeErased\s*&\s*operator=\s*\(\s*TypeErased\s*&&\s*other\s*\)'),
    ('cleanupFn', r'void\s+cleanup\s*\(\s*\)'),
    ('deallocateFn', r'void\s+deallocate\s*\(\s*\)'),
    ('allocateFn', r'Deallocator\s+allocate\s*\(\s*size_t\s+size\s*\)'),
    ('doCopyAssign', r'void\s+do_copy_assign\s*\(\s*const\s+TypeErased\s*&\s*other\s*\)'),
]


def extract_shapes(src):
    shapes = {}
    hashes = {}
    progs = {}
    for name, anchor in FUNCS:
        inits, body = function_parts(src, anchor)
        pre = []
        for mem, txt in inits:
            key = (mem, show(cp.parse_expression(txt)))
            if key not in INIT_ACTS:
                raise TE(f'{name}: unrecognised member initialiser {mem}{{{key[1]}}}')
            pre.append(INIT_ACTS[key])
        ss = cp.parse_statements(body)
        P = Paths(name)
        paths = P.run(ss)
        shapes[name] = [(c, pre + a) for c, a in paths]
        prog = Progs(name).build(ss)
        for a in reversed(pre):
            prog = ('act', a, prog)
        # the two walks of the same statements must describe the same set of paths
        pp = prog_paths(prog)
        if sorted(map(repr, pp)) != sorted(map(repr, shapes[name])) or len(pp) != len(shapes[name]):
            raise TE(f'{name}: program tree and path table disagree')
        progs[name] = prog
        hashes[name] = cp.ast_hash((inits, ss))
    return shapes, hashes, progs


def extract_construct_inplace(src):
    """construct_inplace: pointer branch (size/self selection) and object branch (guard order)."""
    _, body = cp.find_region(src, r'void\s+construct_inplace\s*\(\s*Args\s*&&\s*\.\.\.\s*args\s*\)')
    m = re.search(r'if\s+constexpr\s*\(\s*std::is_pointer_v<T>\s*\)\s*\{', body)
    if not m:
        raise TE('construct_inplace: pointer branch not found')
    ob = m.end() - 1
    cb = cp.match_brace(body, ob)
    ptr_branch = body[ob + 1:cb]
    m2 = re.compile(r'\s*else\s*\{').match(body, cb + 1)
    if not m2:
        raise TE('construct_inplace: object branch not found')
    ob2 = m2.end() - 1
    obj_branch = body[ob2 + 1:cp.match_brace(body, ob2)]
    # pointer branch
    st = cp.find_statement(ptr_branch, r'\bsize\s*=')
    if not re.fullmatch(r'size\s*=\s*std::is_const_v<Tnp>\s*\?\s*const_ref_size\s*:\s*mut_ref_size\s*;', st):
        raise TE(f'construct_inplace: pointer size selection is `{st}`')
    st2 = cp.find_statement(ptr_branch, r'\bself\s*=')
    if not re.search(r'self\s*=\s*const_cast<\s*std::remove_const_t<Tnp>\s*\*\s*>\s*\(\s*ptr\s*\)\s*;', st2):
        raise TE(f'construct_inplace: pointer self assignment is `{st2}`')
    if not re.search(r'vtable\s*=\s*VTable\{std::in_place,\s*\*ptr\}', ptr_branch):
        raise TE('construct_inplace: pointer vtable assignment not found')
    order_ptr = sorted([(ptr_branch.find('size'), 'setRefSize'),
                        (ptr_branch.find('vtable'), 'setVtableInPlace'),
                        (ptr_branch.find('self '), 'setRefSelf')])
    # object branch: drop the libc++-15 alternative
    ob_txt = re.sub(r'#if[^\n]*\n.*?#else\n(.*?)#endif', r'\1', obj_branch, flags=re.S)
    marks = [
        (r'auto\s+storage_guard\s*=\s*allocate\s*\(\s*sizeof\s*\(\s*T\s*\)\s*\)\s*;', 'guardedAllocateSizeofT'),
        (r'destroyer\s+obj_guard\s*\{\s*std::uninitialized_construct_using_allocator\s*\(\s*'
         r'reinterpret_cast<T\s*\*>\s*\(\s*self\s*\)\s*,\s*allocator\s*,', 'constructPayload'),
        (r'vtable\s*=\s*VTable\s*\{\s*std::in_place\s*,', 'setVtableInPlace'),
        (r'obj_guard\s*\.\s*release\s*\(\s*\)\s*;', 'releaseObjGuard'),
        (r'storage_guard\s*\.\s*release\s*\(\s*\)\s*;', 'releaseGuard'),
    ]
    pos = []
    for rx, nm in marks:
        ms = list(re.finditer(rx, ob_txt))
        if len(ms) != 1:
            raise TE(f'construct_inplace: expected exactly one `{nm}` statement, found {len(ms)}')
        pos.append((ms[0].start(), nm))
    n_stmt = len([x for x in re.sub(r'\busing\s[^;]*;', '', ob_txt).split(';') if x.strip()])
    if n_stmt != len(marks):
        raise TE(f'construct_inplace: object branch has {n_stmt} statements, expected {len(marks)}')
    return [a for _, a in order_ptr], [a for _, a in sorted(pos)], cp.ast_hash(body)


def extract_guards(src):
    """Guards in front of non-const dispatch.  Returns dict of Lean Bool / list values."""
    out = {}
    # call overloads
    mut, cst = [], []
    for m in re.finditer(r'decltype\(auto\)\s+call\s*\(\s*Ret\s*\(\*f\)\(\s*(const\s+)?void\s*\*', src):
        is_const = m.group(1) is not None
        ob = src.find('{', m.end())
        body = src[ob + 1:cp.match_brace(src, ob)]
        chk = re.search(r'if\s*\(\s*referenced_object_is_const\s*\(\s*\)\s*\)\s*throw\s+'
                        r'bad_type_erased_constness\s*\{\s*\}\s*;', body)
        first_call = re.search(r'\bf\s*\(\s*self\b', body)
        if first_call is None:
            raise TE('call(): dispatch `f(self…)` not found')
        guarded = chk is not None and chk.start() < first_call.start()
        (cst if is_const else mut).append(guarded)
    if len(mut) != 3 or len(cst) != 3:
        raise TE(f'call(): expected 3 non-const and 3 const overloads, found {len(mut)}/{len(cst)}')
    out['nonConstCallGuards'] = mut
    out['constCallGuards'] = cst
    # as<T>() &  (mutable)
    _, b = cp.find_region(src, r'T\s*&\s*as\s*\(\s*\)\s*&\s*\{')
    ss = cp.parse_statements(b)
    out['asMut'] = [guard_kind(s) for s in ss]
    _, b = cp.find_region(src, r'T\s*&\s*as\s*\(\s*\)\s*const\s*&\s*\{')
    out['asConst'] = [guard_kind(s) for s in cp.parse_statements(b)]
    _, b = cp.find_region(src, r'void\s*\*\s*get_pointer\s*\(\s*\)\s*const\s*\{')
    out['getPointer'] = [guard_kind(s) for s in
                         cp.parse_statements(b, type_names=('bad_type_erased_constness',))]
    return out


def guard_kind(s):
    if s[0] == 'if' and s[3] is None and s[2][0] == 'throw':
        c, t = show(s[1]), show(s[2][1])
        if c == '(typeid(T) != type())' and t.startswith('bad_type_erased_type('):
            return 'typeCheck'
        if c == 'referenced_object_is_const()' and t.startswith('bad_type_erased_constness'):
            return 'constCheck'
        raise TE(f'unrecognised guard if ({c}) throw {t}')
    if s[0] == 'return':
        t = show(s[1])
        if t in ('*cast<T *>(self)', 'self'):
            return 'deliver'
        raise TE(f'unrecognised access `return {t}`')
    raise TE(f'unrecognised statement in accessor: {s[0]}')


# ------------------------------------------------------------------ predicates

def extract_predicates(src):
    defs = []
    hashes = {}
    consts = {}
    for cname, lname in (('invalid_size', 'invalidSize'), ('mut_ref_size', 'mutRefSize'),
                         ('const_ref_size', 'constRefSize')):
        m = re.search(r'static\s+constexpr\s+size_t\s+' + cname +
                      r'\s*=\s*static_cast<size_t>\(\s*(0[xX][0-9A-Fa-f\']+|\d[\d\']*)\s*\)\s*;', src)
        if not m:
            raise TE(f'sentinel {cname} not found')
        v = int(m.group(1).replace("'", ''), 0) % (1 << 64)
        consts[cname] = (lname, v)
        defs.append(f'/-- `TypeErased::{cname}` -/\ndef {lname} : Nat := 0x{v:X}\n')
    env = {c: (l, 'N') for c, (l, _) in consts.items()}
    env.update({'size': ('size', 'N'), 'small_buffer_size': ('small_buffer_size', 'N'),
                'self': ('selfNonNull', 'B'), 'nullptr': ('false', 'B')})
    fns = {'size_indicates_ownership': ('sizeIndicatesOwnership', ['N'], 'B'),
           'size_indicates_const': ('sizeIndicatesConst', ['N'], 'B')}

    def emit(name, params, ss, doc, ret='B'):
        em = Emitter(lambda d: env.get(d), scalar_fns=fns)
        ss = [s for s in ss if not (s[0] == 'expr' and s[1][0] == 'call' and show(s[1][1]) == 'assert')]
        txt = em.function(name, [(p, env[p][0], env[p][1]) for p in params], ss, ret, doc=doc)
        defs.append(txt)
        hashes[name] = cp.ast_hash(ss)

    _, b = cp.find_region(src, r'static\s+bool\s+size_indicates_ownership\s*\(\s*size_t\s+size\s*\)')
    emit('sizeIndicatesOwnership', ['size'], cp.parse_statements(b), 'TypeErased::size_indicates_ownership')
    _, b = cp.find_region(src, r'static\s+bool\s+size_indicates_const\s*\(\s*size_t\s+size\s*\)')
    emit('sizeIndicatesConst', ['size'], cp.parse_statements(b), 'TypeErased::size_indicates_const')
    _, b = cp.find_region(src, r'bool\s+owns_referenced_object\s*\(\s*\)\s*const\s+noexcept')
    emit('ownsReferencedObject', ['size'], cp.parse_statements(b), 'TypeErased::owns_referenced_object')
    _, b = cp.find_region(src, r'bool\s+referenced_object_is_const\s*\(\s*\)\s*const\s+noexcept')
    emit('referencedObjectIsConst', ['size'], cp.parse_statements(b),
         'TypeErased::referenced_object_is_const')
    # operator bool: `return self != nullptr;`  (self is modelled as a Bool "non-null")
    _, b = cp.find_region(src, r'explicit\s+operator\s+bool\s*\(\s*\)\s*const\s+noexcept')
    e = cp.parse_statements(b)
    if len(e) != 1 or e[0][0] != 'return' or show(e[0][1]) != '(self != nullptr)':
        raise TE(f'operator bool is `{b.strip()}`')
    defs.append('/-- `explicit operator bool`: `self != nullptr` -/\n'
                'def operatorBool (selfNonNull : Bool) : Bool := selfNonNull\n')
    hashes['operatorBool'] = cp.ast_hash(e)
    # small-buffer predicate in allocate(): condition of the ternary
    _, b = cp.find_region(src, r'Deallocator\s+allocate\s*\(\s*size_t\s+size\s*\)')
    st = cp.parse_statements(cp.find_statement(b, r'\bself\s*='))[0][1]
    if not (st[0] == 'bin' and st[1] == '=' and st[3][0] == 'tern'
            and show(st[3][2]) == 'small_buffer.data()' and show(st[3][3]) == 'allocator.allocate(size)'):
        raise TE(f'allocate(): storage choice is `{show(st)}`')
    emit('allocateUsesSmallBuffer', ['size', 'small_buffer_size'], [('return', st[3][1])],
         'condition of the storage choice in TypeErased::allocate (true → small buffer)')

    # `size > small_buffer_size` in deallocate() and the three move paths
    def large_cond(name, anchor, lname, expect):
        inits, body = function_parts(src, anchor)
        found = []

        def visit(s):
            if s[0] == 'if':
                walk(s[1])
                visit(s[2])
                if s[3] is not None:
                    visit(s[3])
            elif s[0] == 'block':
                for t in s[1]:
                    visit(t)

        def walk(e):
            if e[0] == 'bin':
                if e[1] in ('<', '>', '<=', '>=') and 'small_buffer_size' in show(e):
                    found.append(e)
                else:
                    walk(e[2])
                    walk(e[3])
            elif e[0] == 'un':
                walk(e[2])
        for s in cp.parse_statements(body):
            visit(s)
        if len(found) != expect:
            raise TE(f'{name}: expected {expect} small-buffer comparison(s), found {len(found)}')
        emit(lname, ['size', 'small_buffer_size'], [('return', found[0])],
             f'small-buffer comparison in {name} (true → heap storage)')
    large_cond('deallocate', FUNCS[7][1], 'deallocateUsesAllocator', 1)
    large_cond('move constructor', FUNCS[3][1], 'moveCtorLarge', 1)
    large_cond('allocator-aware move constructor', FUNCS[4][1], 'moveCtorAllocLarge', 1)
    large_cond('move assignment', FUNCS[5][1], 'moveAssignLarge', 1)
    return defs, hashes


# ------------------------------------------------------------------ emission

def lean_paths(name, paths, doc):
    rows = []
    for conds, acts in paths:
        cs = ', '.join(f'(.{c}, {"true" if p else "false"})' for c, p in conds)
        as_ = ', '.join('.' + a for a in acts)
        rows.append(f'  ⟨[{cs}],\n   [{as_}]⟩')
    return (f'/-- {doc} -/\ndef {name} : List Path := [\n' + ',\n'.join(rows) + ']\n')


def main(out_path):
    raw = open(HDR, encoding='utf8').read()
    # digit separators (0xDEAD'BEEF) would be taken for character literals by strip_comments
    raw = re.sub(r"(?<=[0-9A-Fa-f])'(?=[0-9A-Fa-f])", '', raw)
    src = cp.strip_comments(raw)
    regions = {}
    defs, h = extract_predicates(src)
    regions.update({k: {'file': 'util/type-erasure.hpp', 'hash': v} for k, v in h.items()})
    shapes, h, progs = extract_shapes(src)
    regions.update({k: {'file': 'util/type-erasure.hpp', 'hash': v, 'paths': len(shapes[k])}
                    for k, v in h.items()})
    ptr_acts, obj_acts, hci = extract_construct_inplace(src)
    regions['constructInplace'] = {'file': 'util/type-erasure.hpp', 'hash': hci}
    guards = extract_guards(src)
    regions['guards'] = {'file': 'util/type-erasure.hpp', 'hash': cp.ast_hash(sorted(guards.items()))}
    # delegating constructors / destructors (checked textually)
    for nm, rx in (
        ('dtor', r'~TypeErased\s*\(\s*\)\s*\{\s*cleanup\s*\(\s*\)\s*;\s*\}'),
        ('guardDtor', r'~Deallocator\s*\(\s*\)\s*\{\s*instance\s*\?\s*instance->deallocate\s*\(\s*\)\s*:\s*void\s*\(\s*\)\s*;\s*\}'),
        ('guardRelease', r'void\s+release\s*\(\s*\)\s*noexcept\s*\{\s*instance\s*=\s*nullptr\s*;\s*\}'),
        ('copyCtorAllocArgDelegates', r'TypeErased\s*\(\s*std::allocator_arg_t\s*,\s*const\s+allocator_type\s*&\s*alloc\s*,\s*const\s+TypeErased\s*&\s*other\s*\)\s*:\s*TypeErased\s*\{\s*other\s*,\s*alloc\s*\}\s*\{\s*\}'),
        ('moveCtorAllocArgDelegates', r'TypeErased\s*\(\s*std::allocator_arg_t\s*,\s*const\s+allocator_type\s*&\s*alloc\s*,\s*TypeErased\s*&&\s*other\s*\)\s*noexcept\s*:\s*TypeErased\s*\{\s*std::move\s*\(\s*other\s*\)\s*,\s*alloc\s*\}\s*\{\s*\}'),
        ('memberDefaults', r'void\s*\*\s*self\s*=\s*nullptr\s*;\s*size_t\s+size\s*=\s*invalid_size\s*;'),
    ):
        if not re.search(rx, src):
            raise TE(f'{nm}: expected text not found (changed?)')
        regions[nm] = {'file': 'util/type-erasure.hpp', 'hash': 'text-match'}

    L = []
    L.append('/- GENERATED by /verif/gen/gen_c16.py from util/type-erasure.hpp — do not edit. -/\n\n'
             'namespace Alpaqa.Gen.C16\n\n')
    L.append('/-! ### Decision predicates -/\n\n')
    # strip the generic-scalar clutter: the emitter only used Nat / Bool here
    L.append('\n'.join(defs))
    L.append('\n/-- pointer constructors: `size = is_const ? const_ref_size : mut_ref_size` -/\n'
             'def refSize (isConst : Bool) : Nat := if isConst then constRefSize else mutRefSize\n')
    b = lambda xs: '[' + ', '.join('true' if x else 'false' for x in xs) + ']'
    L.append('\n/-! ### Guards in front of dispatch -/\n\n'
             'inductive Guard | typeCheck | constCheck | deliver\n  deriving DecidableEq, Repr\n\n'
             f'/-- every non-const `call` overload tests `referenced_object_is_const()` first -/\n'
             f'def nonConstCallGuards : List Bool := {b(guards["nonConstCallGuards"])}\n'
             f'def constCallGuards : List Bool := {b(guards["constCallGuards"])}\n'
             f'def asMut : List Guard := [{", ".join("." + g for g in guards["asMut"])}]\n'
             f'def asConst : List Guard := [{", ".join("." + g for g in guards["asConst"])}]\n'
             f'def getPointer : List Guard := [{", ".join("." + g for g in guards["getPointer"])}]\n')
    L.append('\n/-! ### Shapes of the lifetime functions -/\n\n'
             'inductive Cond\n  | ' + ' | '.join(COND_NAMES) + '\n  deriving DecidableEq, Repr\n\n'
             'inductive Act\n  | ' + '\n  | '.join(' | '.join(ACT_NAMES[i:i + 5])
                                                    for i in range(0, len(ACT_NAMES), 5)) +
             '\n  deriving DecidableEq, Repr\n\n'
             'structure Path where\n  conds : List (Cond × Bool)\n  acts : List Act\n'
             '  deriving DecidableEq, Repr\n\n')
    docs = {
        'copyCtor': 'TypeErased(const TypeErased &)',
        'copyCtorAlloc': 'TypeErased(const TypeErased &, const allocator_type &)',
        'copyAssign': 'operator=(const TypeErased &)',
        'moveCtor': 'TypeErased(TypeErased &&)',
        'moveCtorAlloc': 'TypeErased(TypeErased &&, const allocator_type &)',
        'moveAssign': 'operator=(TypeErased &&)',
        'cleanupFn': 'cleanup()',
        'deallocateFn': 'deallocate()',
        'allocateFn': 'allocate(size_t)',
        'doCopyAssign': 'do_copy_assign<CopyAllocator>(const TypeErased &)',
    }
    for name, _ in FUNCS:
        L.append(lean_paths(name, shapes[name], docs[name]) + '\n')
    L.append('/-! ### The same functions as programs: decisions and actions in statement order\n\n'
             '  `ite c t e`: `if (c) t else e`, the statements after the `if` are continued in both\n'
             '  branches; `ret`: `return` / end of the body.  `Model/C16Exec.lean` executes these. -/\n\n'
             'inductive Prog\n  | ret\n  | act (a : Act) (k : Prog)\n  | ite (c : Cond) (t e : Prog)\n'
             '  deriving DecidableEq, Repr\n\n')
    for name, _ in FUNCS:
        L.append(f'/-- {docs[name]} -/\ndef {name}P : Prog :=\n' + lean_prog(progs[name]) + '\n\n')
    L.append('/-- construct_inplace, pointer branch -/\n'
             f'def constructInplacePtr : List Act := [{", ".join("." + a for a in ptr_acts)}]\n'
             '/-- construct_inplace, object branch -/\n'
             f'def constructInplaceObj : List Act := [{", ".join("." + a for a in obj_acts)}]\n')
    L.append('\nend Alpaqa.Gen.C16\n')
    text = ''.join(L)
    old = open(out_path).read() if os.path.exists(out_path) else None
    if old != text:
        with open(out_path, 'w') as f:
            f.write(text)
    return regions


if __name__ == '__main__':
    out = sys.argv[1] if len(sys.argv) > 1 else os.path.join(
        os.path.dirname(os.path.abspath(__file__)), '..', 'lean', 'Alpaqa', 'Gen', 'C16.lean')
    try:
        r = main(out)
        print(json.dumps({'ok': True, 'regions': r}))
    except cp.TranslationError as e:
        print(json.dumps({'ok': False, 'error': str(e)}))
        sys.exit(2)
