#!/usr/bin/env python3
"""C17 translator: constants, decision expressions and statement skeletons of `CSVReader`
(csv.tpp) and the printers' framing constants (print.tpp), regenerated from the working tree on
every run -> lean/Alpaqa/Gen/C17.lean.

What is translated
  * constants: bufmaxsize, initial bufidx / keep_reading, `end`, the array size expression;
  * every decision / update expression of read, read_chunk, skip_comments, read_single, next_line,
    done as a pure Lean function of named atoms (Nat offsets relative to `s.data()`, Bool flags,
    Char, `Option Char` for `is.peek()` / `is.get()` whose EOF is `none`);
  * for conditions containing a side-effecting stream call (`is.peek()`, `is.get()`), the guard
    under which C++ short-circuit evaluation reaches that call (`…EvalsPeek`, `…EvalsGet`);
    `is.eof()` read before the call becomes parameter `eof0`, after it `eof1`;
  * the statement skeleton (statement kinds + callee names, nested) of each function as a
    `List String`; Props/C17.lean decides them equal to the shape the hand model was written to;
  * print.tpp: the separator / begin / end literals of the csv, python and matlab framings and
    the skeleton of the three `print_*_impl` functions.
Normalisations applied before parsing (outside cxxparse's subset): the argument of
`throw read_error(...)` is replaced by its first string literal; `std::errc{}` -> `std::errc()`;
range-`for (auto &vv : v)` -> `while (RANGE_FOR(vv, v))`.
"""
import json
import os
import re
import sys
sys.path.insert(0, os.path.dirname(os.path.abspath(__file__)))
import cxxparse as cp

REPO = os.environ.get('VERIF_REPO', '/repo')
INC = REPO + '/src/alpaqa/include/alpaqa/'
CSV = INC + 'implementation/util/io/csv.tpp'
PRINT = INC + 'implementation/util/print.tpp'

TE = cp.TranslationError


# ---------------------------------------------------------------- normalisation

def normalise(body):
    out = []
    i = 0
    pat = re.compile(r'throw\s+read_error\s*\(')
    while True:
        m = pat.search(body, i)
        if not m:
            out.append(body[i:])
            break
        out.append(body[i:m.start()])
        ob = m.end() - 1
        cb = cp.match_brace(body, ob, '(', ')')
        arg = body[ob + 1:cb]
        lit = re.search(r'"([^"]*)"', arg)
        out.append('throw read_error("%s")' % (lit.group(1).strip() if lit else '?'))
        i = cb + 1
    body = ''.join(out)
    body = body.replace('std::errc{}', 'std::errc()')
    body = re.sub(r'for\s*\(\s*auto\s*&\s*(\w+)\s*:\s*(\w+)\s*\)', r'while (RANGE_FOR(\1, \2))', body)
    body = re.sub(r'\[\[nodiscard\]\]', '', body)
    # error handler of the row functions (outside cxxparse's subset): `try {A} catch (read_error &) {B}`
    # -> `if (TRY()) {A} else {B}`; the re-throw `throw;` -> `throw read_error("rethrow");`
    body = re.sub(r'\btry\s*\{', 'if (TRY()) {', body)
    body = re.sub(r'\}\s*catch\s*\(\s*read_error\s*&\s*\)\s*\{', '} else {', body)
    body = re.sub(r'\bthrow\s*;', 'throw read_error("rethrow");', body)
    body = re.sub(r'std::numeric_limits\s*<\s*std::streamsize\s*>\s*::\s*max\s*\(\s*\)', 'STREAMSIZE_MAX', body)
    return body


# ---------------------------------------------------------------- expression emitter

def dotted(a):
    if a[0] == 'id':
        return a[1]
    if a[0] == 'mem':
        b = dotted(a[1])
        return None if b is None else b + '.' + a[2]
    return None


EFFECT_CALLS = {'is.peek': ('peek', 'P'), 'is.get': ('getc', 'P')}


class Ex:
    """Emit one C++ expression as Lean over atoms; collects parameters in first-use order."""

    ATOMS = {'bufidx': ('bufidx', 'N'), 'keep_reading': ('keep', 'B'), 'sep': ('sep', 'C'),
             'ptr': ('ptr', 'N'), 'bufend': ('bufend', 'N'), 'bufbegin': ('bufbegin', 'N')}
    CONSTS = {'bufmaxsize': ('bufmaxsize', 'N'), 'end': ('endCh', 'C')}
    TY = {'N': 'Nat', 'B': 'Bool', 'C': 'Char', 'P': 'Option Char'}

    def __init__(self):
        self.params = []
        self.effect_seen = False
        self.guards = {}        # effect param -> guard lean text

    def p(self, name, ty):
        if (name, ty) not in self.params:
            self.params.append((name, ty))
        return name, ty

    def e(self, a, guard='true'):
        k = a[0]
        if k == 'num':
            t = a[1].rstrip('uUlL')
            if not t.isdigit():
                raise TE(f'non-integer literal {a[1]}')
            return t, 'N'
        if k == 'chr':
            body = a[1][1:-1]
            table = {'\\n': "'\\n'", '\\t': "'\\t'", '\\0': "(Char.ofNat 0)"}
            if body in table:
                return table[body], 'C'
            if len(body) == 1 and body not in "'\\":
                return f"'{body}'", 'C'
            raise TE(f'char literal {a[1]}')
        if k == 'id':
            n = a[1]
            if n in ('true', 'false'):
                return n, 'B'
            if n in self.CONSTS:
                return self.CONSTS[n]
            if n in self.ATOMS:
                return self.p(*self.ATOMS[n])
            if n == 'is':
                return self.p('isOk', 'B')      # contextual conversion `(bool) is` = !fail()
            raise TE(f'unresolved identifier {n}')
        if k == 'cast':
            return self.e(a[2], guard)
        if k == 'call':
            d = dotted(a[1])
            if d == 's.data' and not a[2]:
                return '0', 'N'
            if d == 's.front' and not a[2]:
                return self.p('front', 'C')
            if d == 'is.eof' and not a[2]:
                return self.p('eof1' if self.effect_seen else 'eof0', 'B')
            if d == 'is.gcount' and not a[2]:
                return self.p('gcount', 'N')
            if d == 'std::errc' and not a[2]:
                return 'ERRC0', 'E'
            if d in EFFECT_CALLS and not a[2]:
                nm, ty = EFFECT_CALLS[d]
                if self.effect_seen:
                    raise TE('two side-effecting stream calls in one expression')
                self.effect_seen = True
                self.guards[nm] = guard
                return self.p(nm, ty)
            if d == 'is.get' and len(a[2]) == 3:
                if self.effect_seen:
                    raise TE('two side-effecting stream calls in one expression')
                self.effect_seen = True
                return self.p('getOk', 'B')     # stream converted to bool after the call
            raise TE(f'unsupported call {d}')
        if k == 'un':
            if a[1] == '!':
                x, t = self.e(a[2], guard)
                if t != 'B':
                    raise TE('! on non-bool')
                return f'(!{x})', 'B'
            if a[1] == '*':
                d = dotted(a[2])
                if d == 'ptr':
                    return self.p('ptrCh', 'C')
                if d == 'bufbegin':
                    return self.p('beginCh', 'C')
                raise TE(f'deref of {d}')
            raise TE(f'unary {a[1]}')
        if k == 'bin':
            op = a[1]
            if op in ('&&', '||'):
                x, tx = self.e(a[2], guard)
                g2 = f'({guard} && {x})' if op == '&&' else f'({guard} && !{x})'
                y, ty = self.e(a[3], g2)
                if tx != 'B' or ty != 'B':
                    raise TE(f'{op} on non-bool')
                return f'({x} {op} {y})', 'B'
            if op in ('==', '!='):
                sides = [dotted(z[1]) if z[0] == 'call' else None for z in (a[2], a[3])]
                if 'std::errc' in sides:
                    # `ec != std::errc()`  /  `ec == std::errc()`
                    other = a[2] if sides[1] == 'std::errc' else a[3]
                    if dotted(other) != 'ec':
                        raise TE('errc comparison')
                    ok, _ = self.p('ecOk', 'B')
                    return (f'(!{ok})' if op == '!=' else ok), 'B'
                x, tx = self.e(a[2], guard)
                y, ty = self.e(a[3], guard)
                if {tx, ty} == {'P', 'C'}:
                    if tx == 'C':
                        x = f'(some {x})'
                    else:
                        y = f'(some {y})'
                elif tx != ty:
                    raise TE(f'comparison {tx} {op} {ty}')
                return f'({x} {op} {y})', 'B'
            if op in ('<', '>', '<=', '>='):
                x, tx = self.e(a[2], guard)
                y, ty = self.e(a[3], guard)
                if tx != 'N' or ty != 'N':
                    raise TE(f'ordering on {tx},{ty}')
                lop = {'<': '<', '>': '>', '<=': '≤', '>=': '≥'}[op]
                return f'(decide ({x} {lop} {y}))', 'B'
            if op in ('+', '-'):
                x, tx = self.e(a[2], guard)
                y, ty = self.e(a[3], guard)
                if tx != 'N' or ty != 'N':
                    raise TE(f'arithmetic on {tx},{ty}')
                return f'({x} {op} {y})', 'N'
            raise TE(f'binary {op}')
        if k in ('id', 'mem'):
            raise TE(f'unresolved {dotted(a)}')
        raise TE(f'unsupported expression node {k}')


class Out:
    def __init__(self):
        self.defs = []
        self.regions = {}

    def const(self, name, ty, val, doc):
        self.defs.append(f'/-- {doc} -/\ndef {name} : {ty} := {val}\n')

    def fn(self, name, ast, doc, want=None, fixed_params=None):
        ex = Ex()
        body, ty = ex.e(ast)
        if want and ty != want:
            raise TE(f'{name}: expression has type {ty}, expected {want}')
        params = ex.params
        if fixed_params is not None:
            got = [p for p, _ in params]
            if got != fixed_params:
                raise TE(f'{name}: atoms {got} differ from the shape the model was written to '
                         f'{fixed_params}')
        ps = ' '.join(f'({n} : {Ex.TY[t]})' for n, t in params)
        self.defs.append(f'/-- {doc} -/\ndef {name} {ps} : {Ex.TY[ty]} := {body}\n'.replace('  :', ' :'))
        for eff, g in ex.guards.items():
            gname = name + 'Evals' + eff[0].upper() + eff[1:]
            # guard may only mention parameters that precede the effect
            gps = [(n, t) for n, t in params if re.search(r'\b%s\b' % n, g)]
            self.defs.append(f'/-- short-circuit guard: `{eff}` of `{name}` is evaluated iff … -/\n'
                             f'def {gname} {" ".join(f"({n} : {Ex.TY[t]})" for n, t in gps)} : Bool := {g}\n')


# ---------------------------------------------------------------- skeletons

def callee(e):
    if e[0] == 'call':
        d = dotted(e[1])
        return d
    return None


def calls_in(e, acc):
    if not isinstance(e, tuple):
        return acc
    if e and e[0] == 'call':
        d = dotted(e[1])
        if d:
            acc.append(d)
        for x in e[2]:
            calls_in(x, acc)
        return acc
    for x in e[1:]:
        if isinstance(x, tuple):
            calls_in(x, acc)
        elif isinstance(x, list):
            for y in x:
                calls_in(y, acc)
    return acc


INTERESTING = ('read_chunk', 'read_single', 'next_line', 'skip_comments', 'done', 'read', 'std::copy',
               'std::from_chars', 'push_back', 'RANGE_FOR', 'print_elem', 'print_csv_impl', 'TRY',
               'discard_line')


def brief(e):
    """Calls of interest inside an expression, in source order."""
    cs = [c.split('.')[-1] if c.split('.')[-1] in INTERESTING else c for c in calls_in(e, [])]
    cs = [c for c in cs if c in INTERESTING]
    return ','.join(cs)


def skel(ss):
    out = []
    for s in ss:
        k = s[0]
        if k == 'decl':
            nm = s[2] if isinstance(s[2], str) else '[' + ','.join(s[2]) + ']'
            b = brief(s[3]) if s[3] is not None else ''
            out.append(f'decl {nm}' + (f' = {b}' if b else ''))
        elif k == 'expr':
            e = s[1]
            if e[0] == 'bin' and e[1] in ('=', '+=', '-='):
                out.append(f'{dotted(e[2])} {e[1]}' + (f' {brief(e[3])}' if brief(e[3]) else ''))
            elif e[0] in ('un', 'post') and e[1] in ('++', '--'):
                out.append(f'{e[1]}{dotted(e[2])}')
            elif e[0] == 'bin' and e[1] == '<<':
                out.append('<< ' + brief(e))
            else:
                c = callee(e)
                if c == 'assert':
                    continue
                out.append('call ' + (brief(e) or str(c)))
        elif k == 'return':
            out.append('return' + (f' {brief(s[1])}' if s[1] is not None and brief(s[1]) else ''))
        elif k == 'throw':
            lit = s[1][2][0][1] if s[1][0] == 'call' and s[1][2] and s[1][2][0][0] == 'str' else '?'
            out.append('throw ' + lit.strip('"'))
        elif k == 'if':
            th = s[2][1] if s[2][0] == 'block' else [s[2]]
            el = None if s[3] is None else (s[3][1] if s[3][0] == 'block' else [s[3]])
            c = brief(s[1])
            t = 'if' + (f'[{c}]' if c else '') + ' {' + '; '.join(skel(th)) + '}'
            if el is not None:
                t += ' else {' + '; '.join(skel(el)) + '}'
            out.append(t)
        elif k == 'while':
            b = s[2][1] if s[2][0] == 'block' else [s[2]]
            c = brief(s[1])
            out.append('while' + (f'[{c}]' if c else '') + ' {' + '; '.join(skel(b)) + '}')
        elif k == 'for':
            b = s[4][1] if s[4][0] == 'block' else [s[4]]
            out.append('for {' + '; '.join(skel(b)) + '}')
        elif k == 'break':
            out.append('break')
        elif k == 'block':
            out.extend(skel(s[1]))
        else:
            out.append(k)
    return out


def lean_strlist(xs):
    return '[' + ', '.join(json.dumps(x, ensure_ascii=False) for x in xs) + ']'


def usable(lit):
    """C++ string / char literal -> Lean string literal with the same value (escapes \\n \\t \\\\ \\" are
    spelled identically in both languages; anything else is refused)."""
    body = lit[1:-1]
    if re.search(r'\\[^nt\\"\']', body):
        raise TE(f'unsupported escape in literal {lit}')
    body = body.replace("\\'", "'")
    if lit[0] == "'" and body == '"':
        body = '\\"'
    return '"' + body + '"'


def lean_str(s):
    return json.dumps(s, ensure_ascii=False)


# ---------------------------------------------------------------- shape helpers

def need(cond, what):
    if not cond:
        raise TE('unexpected statement shape: ' + what)


def body_of(s):
    return s[1] if s[0] == 'block' else [s]


def drop_asserts(ss):
    return [s for s in ss if not (s[0] == 'expr' and callee(s[1]) == 'assert')]


def main(out_path):
    o = Out()
    src = cp.strip_comments(open(CSV, encoding='utf8').read())
    _, sbody = cp.find_region(src, r'struct\s+CSVReader\s*\{')

    # ---- constants -------------------------------------------------------------------------
    def const_re(pat, what):
        m = re.search(pat, sbody)
        if not m:
            raise TE('constant not found: ' + what)
        return m.group(1)
    bufmax = const_re(r'static\s+constexpr\s+std::streamsize\s+bufmaxsize\s*=\s*(\d+)\s*;', 'bufmaxsize')
    arr = const_re(r'std::array\s*<\s*char\s*,\s*([^>]+?)\s*>\s*s\s*;', 'array s')
    bufidx0 = const_re(r'std::streamsize\s+bufidx\s*=\s*(\d+)\s*;', 'bufidx init')
    keep0 = const_re(r'bool\s+keep_reading\s*=\s*(true|false)\s*;', 'keep_reading init')
    endc = const_re(r"static\s+constexpr\s+char\s+end\s*=\s*('(?:\\.|[^'])')\s*;", 'end')
    o.const('bufmaxsize', 'Nat', bufmax, 'csv.tpp CSVReader::bufmaxsize')
    o.const('endCh', 'Char', Ex().e(('chr', endc))[0], 'csv.tpp CSVReader::end')
    ex = Ex()
    asz, _ = ex.e(cp.parse_expression(arr))
    need(not ex.params, 'array size expression has free atoms')
    o.const('arraySize', 'Nat', asz, 'csv.tpp: size of the array `s`')
    o.const('bufidxInit', 'Nat', bufidx0, 'csv.tpp: initial bufidx')
    o.const('keepReadingInit', 'Bool', keep0, 'csv.tpp: initial keep_reading')

    def region(name, anchor, scope=None, which=0):
        _, b = cp.find_region(scope if scope is not None else sbody, anchor, which)
        ss = drop_asserts(cp.parse_statements(normalise(b)))
        o.regions[name] = {'file': 'implementation/util/io/csv.tpp', 'hash': cp.ast_hash(ss)}
        o.const('skel_' + name, 'List String', lean_strlist(skel(ss)), f'statement skeleton of {name}')
        return ss

    # ---- read ------------------------------------------------------------------------------
    ss = region('read', r'\bF\s+read\s*\(\s*std::istream')
    need(len(ss) == 8 and [s[0] for s in ss] == ['if', 'decl', 'decl', 'decl', 'if', 'if', 'if', 'return'],
         'read')
    o.fn('readCallsChunk', ss[0][1], 'read: `if (keep_reading) read_chunk(is);`', 'B', ['keep'])
    need(ss[2][2] == 'bufend' and ss[3][2] == 'ptr', 'read decls')
    o.fn('readBufend', ss[2][3], 'read: `bufend = s.data() + bufidx` (offset from s.data())', 'N', ['bufidx'])
    rs = ss[3][3]
    need(rs[0] == 'call' and dotted(rs[1]) == 'read_single' and len(rs[2]) == 3 and dotted(rs[2][1]) == 'bufend',
         'read_single call')
    o.fn('readSingleBegin', rs[2][0], 'read: first argument of read_single', 'N', [])
    need(ss[4][3] is None and body_of(ss[4][2])[0][0] == 'throw', 'separator check')
    o.fn('readSepBad', ss[4][1], 'read: separator check (true = throw "unexpected character")', 'B',
         ['ptr', 'bufend', 'ptrCh', 'sep'])
    need(ss[5][3] is None and body_of(ss[5][2])[0][0] == 'throw', 'number-too-long check')
    o.fn('readLong', ss[5][1], 'read: number fills the window and the line continues (true = throw '
         '"number too long for buffer")', 'B', ['ptr', 'bufend', 'keep'])
    th, el = body_of(ss[6][2]), body_of(ss[6][3]) if ss[6][3] is not None else None
    need(el is not None and len(th) == 2 and len(el) == 1, 'shift if/else')
    o.fn('readShift', ss[6][1], 'read: `if (ptr != bufend)`', 'B', ['ptr', 'bufend'])
    cpy = th[0][1]
    need(th[0][0] == 'expr' and callee(cpy) == 'std::copy' and len(cpy[2]) == 3, 'std::copy')
    o.fn('readCopyFrom', cpy[2][0], 'read: std::copy first', 'N', ['ptr'])
    o.fn('readCopyTo', cpy[2][1], 'read: std::copy last', 'N', ['bufend'])
    o.fn('readCopyDest', cpy[2][2], 'read: std::copy d_first', 'N', [])
    upd = th[1][1]
    need(upd[0] == 'bin' and upd[1] in ('-=', '=', '+=') and dotted(upd[2]) == 'bufidx', 'bufidx update')
    rhs = upd[3] if upd[1] == '=' else ('bin', upd[1][0], upd[2], upd[3])
    o.fn('readBufidxShift', rhs, 'read: bufidx after `bufidx -= ptr + 1 - s.data()`', 'N', ['bufidx', 'ptr'])
    upd = el[0][1]
    need(upd[0] == 'bin' and upd[1] == '=' and dotted(upd[2]) == 'bufidx', 'bufidx reset')
    o.fn('readBufidxElse', upd[3], 'read: bufidx in the else branch', 'N', [])

    # ---- read_chunk ------------------------------------------------------------------------
    ss = region('read_chunk', r'void\s+read_chunk\s*\(')
    need([s[0] for s in ss] == ['if', 'if', 'if', 'expr', 'expr'], 'read_chunk')
    need(body_of(ss[0][2])[0][0] == 'throw' and body_of(ss[1][2])[0][0] == 'return'
         and body_of(ss[2][2])[0][0] == 'throw', 'read_chunk ifs')
    o.fn('chunkInvalid', ss[0][1], 'read_chunk: `if (!is) throw`', 'B', ['isOk'])
    o.fn('chunkFull', ss[1][1], 'read_chunk: `if (bufmaxsize == bufidx) return`', 'B', ['bufidx'])
    g = ss[2][1]
    o.fn('chunkGetFailed', g, 'read_chunk: `if (!is.get(…)) throw`', 'B', ['getOk'])
    gc = g[2] if g[0] == 'un' else g
    need(gc[0] == 'call' and dotted(gc[1]) == 'is.get' and len(gc[2]) == 3, 'is.get call')
    o.fn('chunkGetPos', gc[2][0], 'read_chunk: destination of is.get (offset from s.data())', 'N', ['bufidx'])
    o.fn('chunkGetCount', gc[2][1], 'read_chunk: count argument of is.get', 'N', ['bufidx'])
    o.fn('chunkGetDelim', gc[2][2], 'read_chunk: delimiter of is.get', 'C', [])
    upd = ss[3][1]
    need(upd[0] == 'bin' and upd[1] in ('+=', '=', '-=') and dotted(upd[2]) == 'bufidx', 'bufidx += gcount')
    rhs = upd[3] if upd[1] == '=' else ('bin', upd[1][0], upd[2], upd[3])
    o.fn('chunkBufidx', rhs, 'read_chunk: bufidx after `bufidx += is.gcount()`', 'N', ['bufidx', 'gcount'])
    upd = ss[4][1]
    need(upd[0] == 'bin' and upd[1] == '=' and dotted(upd[2]) == 'keep_reading', 'keep_reading =')
    o.fn('chunkKeep', upd[3], 'read_chunk: keep_reading (eof1 = eofbit after the peek)', 'B', ['peek', 'eof1'])

    # ---- skip_comments ---------------------------------------------------------------------
    ss = region('skip_comments', r'void\s+skip_comments\s*\(')
    need([s[0] for s in ss] == ['if', 'while'] and body_of(ss[0][2])[0][0] == 'return', 'skip_comments')
    o.fn('skipEarly', ss[0][1], 'skip_comments: early return (eof0 = eofbit before the peek)', 'B',
         ['eof0', 'peek'])
    o.fn('skipLoop', ss[1][1], 'skip_comments: outer loop condition', 'B', ['eof0'])
    lb = body_of(ss[1][2])
    need([s[0] for s in lb] == ['expr', 'if', 'while', 'expr', 'expr', 'if'] and callee(lb[0][1]) == 'read_chunk'
         and body_of(lb[1][2])[0][0] == 'break' and callee(lb[4][1]) == 'next_line'
         and lb[5][3] is None and body_of(lb[5][2])[0][0] == 'return', 'skip loop body')
    o.fn('skipAgain', lb[5][1], 'skip_comments: return test after a skipped comment line (eof0 = eofbit '
         'before the peek)', 'B', ['eof0', 'peek'])
    o.fn('skipBreak', lb[1][1], 'skip_comments: `break` condition (not a comment line)', 'B',
         ['bufidx', 'front'])
    o.fn('skipInner', lb[2][1], 'skip_comments: inner loop condition', 'B', ['keep'])
    ib = body_of(lb[2][2])
    need(len(ib) == 2 and ib[0][0] == 'expr' and ib[0][1][1] == '=' and dotted(ib[0][1][2]) == 'bufidx'
         and callee(ib[1][1]) == 'read_chunk', 'inner loop body')
    o.fn('skipInnerBufidx', ib[0][1][3], 'skip_comments: bufidx reset inside the inner loop', 'N', [])
    need(lb[3][1][1] == '=' and dotted(lb[3][1][2]) == 'bufidx', 'bufidx reset after inner loop')
    o.fn('skipAfterBufidx', lb[3][1][3], 'skip_comments: bufidx reset after the inner loop', 'N', [])

    # ---- read_single (the std::from_chars variant) -------------------------------------------
    ss = region('read_single', r'static\s+const\s+char\s*\*\s*read_single\s*\(')
    need([s[0] for s in ss] == ['if', 'decl', 'decl', 'if', 'return'], 'read_single')
    plus_body = body_of(ss[0][2])
    need(plus_body[0][0] == 'expr' and plus_body[0][1][0] in ('un', 'post')
         and plus_body[0][1][1] == '++' and dotted(plus_body[0][1][2]) == 'bufbegin',
         '++bufbegin')
    # after the skipped '+': nothing (a following '-' is then taken by from_chars), or exactly
    # `if (bufbegin != bufend && *bufbegin == '-') throw read_error(...)`
    def ref_stmts(text):
        return cp.ast_hash(drop_asserts(cp.parse_statements(normalise(text))))
    if len(plus_body) == 1:
        o.const('singleRejectsPlusMinus', 'Bool', 'false',
                "csv.tpp read_single: a '-' directly after the skipped '+' is not rejected")
    else:
        need(len(plus_body) == 2 and cp.ast_hash([plus_body[1]]) == ref_stmts(
            "if (bufbegin != bufend && *bufbegin == '-') throw read_error(\"csv::read_row conversion failed '\");"),
            "statement after ++bufbegin is not `if (bufbegin != bufend && *bufbegin == '-') throw read_error(...)`")
        o.const('singleRejectsPlusMinus', 'Bool', 'true',
                "csv.tpp read_single: `if (bufbegin != bufend && *bufbegin == '-') throw` after the skipped '+'")
    o.fn('singleSkipPlus', ss[0][1], "read_single: skip one leading '+'", 'B',
         ['bufbegin', 'bufend', 'beginCh'])
    fc = ss[1][3]
    need(ss[1][2] == ('ptr', 'ec') and callee(fc) == 'std::from_chars'
         and [dotted(a) for a in fc[2]] == ['bufbegin', 'bufend', 'v'], 'from_chars call')
    need(body_of(ss[3][2])[0][0] == 'throw', 'read_single throw')
    o.fn('singleFails', ss[3][1], 'read_single: `if (ec != std::errc{}) throw`', 'B', ['ecOk'])
    need(ss[4][1] == ('id', 'ptr'), 'return ptr')

    # ---- next_line / done --------------------------------------------------------------------
    ss = region('next_line', r'void\s+next_line\s*\(')
    need([s[0] for s in ss] == ['if'] and body_of(ss[0][2])[0][0] == 'throw', 'next_line')
    o.fn('nextLineThrows', ss[0][1], 'next_line: throw condition (getc = result of is.get(), none = EOF)',
         'B', ['bufidx', 'eof0', 'getc'])
    ss = region('done', r'bool\s+done\s*\(')
    need([s[0] for s in ss] == ['decl', 'return'] and ss[0][2] == 'keep_reading', 'done')
    o.fn('doneKeep', ss[0][3], 'done: local keep_reading', 'B', ['peek', 'eof1'])
    o.fn('doneRet', ss[1][1], 'done: return value', 'B', ['bufidx', 'keep'])

    # ---- row functions: skeleton + which of the two known shapes (plain / with the error handler) ----
    def ref(text):
        return cp.ast_hash(drop_asserts(cp.parse_statements(normalise(text))))
    handler = ('} catch (read_error &) { if (resync) reader.discard_line(is); throw; }')
    impl_body = ('reader.skip_comments(is); for (auto &vv : v) vv = reader.read(is, sep); '
                 'reader.next_line(is);')
    vec_body = ('reader.skip_comments(is); while (!reader.done(is)) v.push_back(reader.read(is, sep)); '
                'reader.next_line(is);')
    shapes = {
        'read_row_impl': {
            ref('CSVReader<F> reader; ' + impl_body): 'false',
            ref('CSVReader<F> reader; const bool resync = !is.fail(); try { ' + impl_body + handler): 'true'},
        'read_row_std_vector': {
            ref('CSVReader<F> reader; std::vector<F> v; ' + vec_body + ' return v;'): 'false',
            ref('CSVReader<F> reader; std::vector<F> v; const bool resync = !is.fail(); try { ' + vec_body
                + handler + ' return v;'): 'true'}}
    flags = {}
    for nm, anchor, lean in (('read_row_impl', r'void\s+read_row_impl\s*\(', 'rowImplResyncs'),
                             ('read_row_std_vector', r'read_row_std_vector\s*\(', 'rowVecResyncs')):
        ss = region(nm, anchor, scope=src)
        h = cp.ast_hash(ss)
        need(h in shapes[nm], f'{nm} is neither the plain body nor the body wrapped in the '
             f'`catch (read_error &) {{ if (resync) reader.discard_line(is); throw; }}` handler '
             f'(resync = !is.fail())')
        flags[nm] = shapes[nm][h]
        o.const(lean, 'Bool', flags[nm], f'csv.tpp {nm}: wrapped in the error handler that calls '
                'discard_line (exact statement shape checked by the translator)')
    if re.search(r'void\s+discard_line\s*\(', sbody):
        ss = region('discard_line', r'void\s+discard_line\s*\(')
        need(cp.ast_hash(ss) == ref('bufidx = 0; if (is.bad()) return; is.clear(); '
                                    'is.ignore(std::numeric_limits<std::streamsize>::max(), end);'),
             'discard_line is not `bufidx = 0; if (is.bad()) return; is.clear(); is.ignore(max, end);`')
    else:
        need('true' not in flags.values(), 'error handler present but CSVReader::discard_line is missing')
        o.const('skel_discard_line', 'List String', '[]', 'csv.tpp has no CSVReader::discard_line')

    # ---- printers ------------------------------------------------------------------------------
    psrc = cp.strip_comments(open(PRINT, encoding='utf8').read())
    hsrc = cp.strip_comments(open(INC + 'util/print.hpp', encoding='utf8').read())

    def strs(text):
        return re.findall(r'"((?:\\.|[^"\\])*)"', text)

    def chars_and_strs(text):
        return re.findall(r'"(?:\\.|[^"\\])*"|\'(?:\\.|[^\'\\])\'', text)
    for nm in ('print_csv_impl', 'print_matlab_impl', 'print_python_impl'):
        _, b = cp.find_region(psrc, r'std::ostream\s*&\s*' + nm + r'\s*\(')
        toks = [t[1] for t in cp.tokenize(b)]
        h = __import__('hashlib').sha256(repr(toks).encode()).hexdigest()[:16]
        o.regions[nm] = {'file': 'implementation/util/print.tpp', 'hash': h}
        lits = chars_and_strs(b)
        o.const('lits_' + nm, 'List String', '[' + ', '.join(usable(l) for l in lits) + ']',
                f'print.tpp {nm}: string / char literals in source order')
        # control skeleton: keywords and stream insertions in token order
        kw = [t for t in toks if t in ('if', 'else', 'for', 'return', '<<', 'print_elem', 'print_csv_impl',
                                       '==', '!=', '-', 'begin', 'end', 'sep', 'rows', 'cols')]
        o.const('skel_' + nm, 'List String', lean_strlist(kw), f'print.tpp {nm}: control / insertion skeleton')
    m = re.search(r'print_csv_impl\s*\(\s*std::ostream\s*&\s*os\s*,\s*const\s+T\s*&\s*M\s*,(.*?)\)\s*;', hsrc, re.S)
    need(m is not None, 'print_csv_impl declaration')
    o.const('csvDefaults', 'List String', '[' + ', '.join('"' + x + '"' for x in strs(m.group(1))) + ']',
            'print.hpp: default sep / begin / end of print_csv_impl')
    m = re.search(r'print_matlab_impl\s*\(.*?std::string_view\s+end\s*=\s*"((?:\\.|[^"\\])*)"', hsrc, re.S)
    need(m is not None, 'print_matlab_impl declaration')
    o.const('matlabEnd', 'String', '"' + m.group(1) + '"', 'print.hpp: default end of print_matlab_impl')
    m = re.search(r'print_python_impl\s*\(.*?std::string_view\s+end\s*=\s*"((?:\\.|[^"\\])*)"', hsrc, re.S)
    need(m is not None, 'print_python_impl declaration')
    o.const('pythonEnd', 'String', '"' + m.group(1) + '"', 'print.hpp: default end of print_python_impl')
    # float_to_str_vw: '+' prefix rule and format
    _, b = cp.find_region(psrc, r'float_to_str_vw\s*\(\s*auto\s*&\s*buf\s*,\s*F\s+value')
    toks = [t[1] for t in cp.tokenize(b)]
    o.regions['float_to_str_vw'] = {'file': 'implementation/util/print.tpp',
                                    'hash': __import__('hashlib').sha256(repr(toks).encode()).hexdigest()[:16]}
    o.const('lits_float_to_str_vw', 'List String',
            lean_strlist([l for l in chars_and_strs(b) if l.startswith("'")] + [t for t in toks if t in ('signbit', 'isnan', 'scientific', 'fixed',
                                                                      'general', 'hex', '!', '&&', '||')]),
            "print.tpp float_to_str_vw: '+' prefix for non-negative non-NaN, to_chars scientific")
    # every element buffer of the printers: `std::array<char, N> buf;` with a literal N
    decls = re.findall(r'std::array\s*<\s*char\s*,\s*([^>]+?)\s*>\s*buf\s*;', psrc)
    need(len(decls) >= 4 and all(d.isdigit() for d in decls),
         f'printer element buffers are not all `std::array<char, <literal>> buf;`: {decls}')
    need(len(re.findall(r'\bbuf\s*;', psrc)) == len(decls), 'a printer buffer `buf` of another type')
    o.const('printBufSizes', 'List Nat', '[' + ', '.join(decls) + ']',
            'print.tpp: sizes of all element buffers (float_to_str, print_csv_impl, print_matlab_impl, '
            'print_python_impl), in source order')
    # the result of std::to_chars in float_to_str_vw: error code dropped (`auto [end, _]`) or checked
    if re.search(r'auto\s*\[\s*end\s*,\s*_\s*\]\s*=\s*std::to_chars\s*\(', b):
        o.const('floatToStrChecksEc', 'Bool', 'false',
                'print.tpp float_to_str_vw: `auto [end, _] = std::to_chars(...)` — the error code is dropped')
    else:
        need(re.search(r'auto\s*\[\s*end\s*,\s*ec\s*\]\s*=\s*std::to_chars\s*\(', b) and
             re.search(r'if\s*\(\s*ec\s*!=\s*std::errc\s*\{\s*\}\s*\)\s*throw\b', b),
             'float_to_str_vw: result of std::to_chars neither `auto [end, _]` nor `auto [end, ec]` + `if (ec != std::errc{}) throw`')
        o.const('floatToStrChecksEc', 'Bool', 'true',
                'print.tpp float_to_str_vw: `if (ec != std::errc{}) throw` after std::to_chars')
    need(re.search(r'std::to_chars\s*\(\s*begin\s*,\s*buf\.data\(\)\s*\+\s*buf\.size\(\)\s*,\s*value\s*,\s*'
                   r'std::chars_format::scientific\s*,\s*precision\s*\)', b),
         'float_to_str_vw: std::to_chars(begin, buf.data() + buf.size(), value, scientific, precision)')
    m = re.search(r'float_to_str_vw\s*\(\s*auto\s*&\s*buf\s*,\s*F\s+value\s*,\s*int\s+precision\s*=\s*([^)]*?)\)', psrc)
    need(m is not None, 'float_to_str_vw default precision')
    o.const('defaultPrecision', 'String', lean_str(re.sub(r'\s+', '', m.group(1))),
            'print.tpp float_to_str_vw: default precision expression')

    text = ('/- GENERATED by /verif/gen/gen_c17.py from csv.tpp / print.tpp / print.hpp — do not edit. -/\n\n'
            'namespace Alpaqa.Gen.C17\n\n' + '\n'.join(o.defs) + '\nend Alpaqa.Gen.C17\n')
    old = open(out_path).read() if os.path.exists(out_path) else None
    if old != text:
        with open(out_path, 'w') as f:
            f.write(text)
    return o.regions


if __name__ == '__main__':
    out = sys.argv[1] if len(sys.argv) > 1 else os.path.join(
        os.path.dirname(os.path.abspath(__file__)), '..', 'lean', 'Alpaqa', 'Gen', 'C17.lean')
    try:
        r = main(out)
        print(json.dumps({'ok': True, 'regions': r}))
    except (cp.TranslationError, OSError) as e:
        print(json.dumps({'ok': False, 'error': str(e)}))
        sys.exit(2)
