#!/usr/bin/env python3
"""DIRS translator: the PANOC direction-provider wrappers (NoopDirection, LBFGSDirection,
StructuredLBFGSDirection, AndersonDirection), regenerated from /repo on every run
-> lean/Alpaqa/Gen/Dirs.lean.

What is translated (regions located by anchor + brace matching; parameters are identified by their
*position* in the C++ signature, so renaming is harmless and reordering is seen):

  noop.hpp        has_initial_direction / update / apply         -> noopHasInitial / noopUpdate / noopApply
                  initialize / changed_γ / reset                 -> bodies must be empty
  lbfgs.hpp       has_initial_direction                          -> lbfgsDirHasInitial
                  update:   `return lbfgs.update(a,b,c,d,sign[,forced])`
                                                                 -> lbfgsDirUpdateArgs (which of the 8 arguments go where,
                                                                    sign == Positive, forced)
                  apply:    `qₖ = pₖ; return lbfgs.apply(qₖ, γₖ)` -> lbfgsDirApplyArgs (vector handed over, γ handed over)
                  changed_γ: `if (rescale) lbfgs.scale_y(e) else lbfgs.reset()`
                                                                 -> lbfgsDirChangedGamma : Option α (some f = scale_y(f), none = reset)
                  initialize: `lbfgs.resize(problem.get_n())`, reset: `lbfgs.reset()`  -> shape-checked
  anderson.hpp    has_initial_direction / update                 -> andersonDirHasInitial / andersonDirUpdate
                  initialize: `anderson.resize(n); anderson.initialize(a, b)` -> andersonDirInitArgs
                  apply: `anderson.compute(a, b, qₖ); qₖ -= xₖ; return true`  -> andersonDirApply (over a `compute` oracle)
                  changed_γ                                      -> andersonDirChangedGamma : Option α (some f = scale_R(f), none = reset)
                  reset: `anderson.reset()`                       -> shape-checked
  structured-lbfgs.hpp
                  enum FailurePolicy                             -> inductive FailurePolicy
                  has_initial_direction                          -> slbfgsHasInitial
                  update (incl. the local `force`)               -> slbfgsUpdateArgs
                  changed_γ: empty, reset: `lbfgs.reset()`        -> shape-checked
  structured-lbfgs.tpp
                  initialize: the `if (…) throw` conditions      -> slbfgsInitThrows
                              allocation part                    -> shape-checked (hash)
                  apply: every assignment to qₖ / qₖ(J), every condition, the arguments of lbfgs.apply /
                         lbfgs.apply_masked, the `switch (failure_policy)` -> slbfgsNoFree, slbfgsAllFree,
                         slbfgsRhsFull, slbfgsFullArgs, slbfgsHessEnabled, slbfgsRhsJHess, slbfgsRhsJ,
                         slbfgsMaskedGamma, slbfgsFailureReturn, slbfgsFailureScales, slbfgsFailureScaleAll,
                         slbfgsFailureScaleFull, slbfgsFailureScaleJ; the control skeleton that connects
                         them is shape-checked (hash of the body with the translated leaves blanked)
                  approximate_hessian_vec_term: branch conditions -> slbfgsHvFD / slbfgsHvLagrangianOnly /
                         slbfgsHvUsesHessPsi / the penalty loop's scalars slbfgsZeta, slbfgsConstrInactive,
                         slbfgsPenaltyT, slbfgsPenaltyAcc; skeleton shape-checked
  panoc-helpers.tpp
                  calc_augmented_lagrangian_hessian_prod_fd      -> fdHessProd (over a `gradPsi` oracle; `cbrt_ε` parameter)
"""
import json
import os
import re
import sys
import unicodedata
sys.path.insert(0, os.path.dirname(os.path.abspath(__file__)))
import cxxparse as cp
from cxxparse import TranslationError
from lean_emit import Emitter, file_header, FILE_FOOTER, dotted, _indent

REPO = os.environ.get('VERIF_REPO', '/repo')
INC = REPO + '/src/alpaqa/include/alpaqa/'
F_NO = 'inner/directions/panoc/noop.hpp'
F_LB = 'inner/directions/panoc/lbfgs.hpp'
F_AN = 'inner/directions/panoc/anderson.hpp'
F_SH = 'inner/directions/panoc/structured-lbfgs.hpp'
F_ST = 'implementation/inner/directions/panoc/structured-lbfgs.tpp'
F_PH = 'implementation/inner/panoc-helpers.tpp'

# positional meaning of the arguments of the PANOCDirection interface
POS = {
    'initialize': [('problem', None), ('y', 'V'), ('Sig', 'V'), ('gamma_0', 'S'), ('x_0', 'V'),
                   ('xhat_0', 'V'), ('p_0', 'V'), ('grad_0', 'V')],
    'update': [('gamma_k', 'S'), ('gamma_next', 'S'), ('x_k', 'V'), ('x_next', 'V'), ('p_k', 'V'),
               ('p_next', 'V'), ('grad_k', 'V'), ('grad_next', 'V')],
    'apply': [('gamma_k', 'S'), ('x_k', 'V'), ('xhat_k', 'V'), ('p_k', 'V'), ('grad_k', 'V'),
              ('q_k', 'V')],
    'changed_γ': [('gamma_k', 'S'), ('old_gamma_k', 'S')],
    'reset': [],
    'has_initial_direction': [],
}
TY = {'S': 'α', 'V': 'Vec α', 'B': 'Bool', 'N': 'Nat'}


def nfc(s):
    return unicodedata.normalize('NFC', s)


def read(rel):
    return nfc(cp.strip_comments(open(INC + rel, encoding='utf8').read()))


def strip_attrs(s):
    return re.sub(r'\[\[[^\]]*\]\]', ' ', s)


def member(cls, name, what):
    """(param names by position, body) of member function `name` inside class text `cls`."""
    ms = list(re.finditer(r'(?<![\w~])' + re.escape(name) + r'\s*\(', cls))
    for m in ms:
        # a definition: matching ')' followed (after qualifiers) by '{'
        op = m.end() - 1
        cl = cp.match_brace(cls, op, '(', ')')
        rest = cls[cl + 1:]
        mm = re.match(r'\s*(const\s*)?\{', rest)
        if not mm:
            continue
        ob = cl + 1 + mm.end() - 1
        cb = cp.match_brace(cls, ob)
        params = []
        ptxt = strip_attrs(cls[op + 1:cl]).strip()
        if ptxt:
            for p in ptxt.split(','):
                ids = re.findall(r'[^\s&*]+', p.strip())
                params.append(nfc(ids[-1].lstrip('&*')))
        return params, cls[ob + 1:cb]
    raise TranslationError(f'{what}: definition of {name}(…) not found')


def param_env(fn, params, what):
    want = POS[fn]
    if len(params) != len(want):
        raise TranslationError(f'{what}: {fn} has {len(params)} parameters, the interface has {len(want)}')
    return {c: (l, t) for c, (l, t) in zip(params, want) if t is not None}


def sig(fn, only=None):
    return ' '.join(f'({l} : {TY[t]})' for l, t in POS[fn] if t is not None and (only is None or l in only))


def stmts_of(body):
    body = re.sub(r'"\s*"', '', body)          # adjacent string literals (messages of `throw`)
    return cp.parse_statements(body)


def is_call(e, obj, meth):
    return (e[0] == 'call' and e[1][0] == 'mem' and e[1][1] == ('id', obj) and e[1][2] == meth)


class Out:
    def __init__(self):
        self.defs, self.regions, self.lits = [], {}, set()

    def add(self, name, text, hashed, file):
        self.defs.append(text)
        self.regions[name] = {'file': file, 'hash': cp.ast_hash(hashed)}

    def shape(self, name, got, want, file, msg):
        if repr(got) != repr(want):
            raise TranslationError(f'{msg}: {repr(got)[:300]}')
        self.regions[name] = {'file': file, 'hash': cp.ast_hash(got)}


def const_bool(out, cls, fn, lean, file, what, nparams):
    params, body = member(cls, fn, what)
    if len(params) != nparams:
        raise TranslationError(f'{what}: {fn} has {len(params)} parameters, expected {nparams}')
    ss = stmts_of(body)
    if not (len(ss) == 1 and ss[0][0] == 'return' and ss[0][1] in (('id', 'true'), ('id', 'false'))):
        raise TranslationError(f'{what}::{fn}: body is not `return true/false;`')
    out.add(lean, f'/-- {file} :: {what}::{fn} -/\ndef {lean} : Bool := {ss[0][1][1]}\n', ss, file)


def empty_body(out, cls, fn, file, what):
    params, body = member(cls, fn, what)
    ss = stmts_of(body)
    out.shape(f'{what}.{fn}', ss, [], file, f'{what}::{fn}: body is no longer empty')


SIGN = {'LBFGS::Sign::Positive': 'true', 'LBFGS::Sign::Negative': 'false'}


def lbfgs_update_args(out, cls, lean, file, what):
    """`[const bool force = …;] return lbfgs.update(a, b, c, d[, sign[, forced]]);`"""
    params, body = member(cls, 'update', what)
    env = param_env('update', params, what)
    ss = stmts_of(body)
    em = Emitter(lambda d: env.get(d))
    for s in ss[:-1]:
        if not (s[0] == 'decl' and isinstance(s[2], str) and s[3] is not None):
            raise TranslationError(f'{what}::update: unexpected statement before the return')
        ty = em.type_of_decl(s[1], None)
        e, t = em.expr(s[3], ty)
        em.locals[s[2]] = (e, t)
    r = ss[-1] if ss else None
    if not (r and r[0] == 'return' and r[1] is not None and is_call(r[1], 'lbfgs', 'update')):
        raise TranslationError(f'{what}::update: does not end in `return lbfgs.update(…);`')
    a = r[1][2]
    if not 4 <= len(a) <= 6:
        raise TranslationError(f'{what}::update: lbfgs.update called with {len(a)} arguments')
    vs = [em.expr(x, 'V')[0] for x in a[:4]]
    pos = 'true'           # lbfgs.hpp: `Sign sign = Sign::Positive`
    if len(a) >= 5:
        d = dotted(a[4])
        if d not in SIGN:
            raise TranslationError(f'{what}::update: sign argument {d!r} not recognised')
        pos = SIGN[d]
    forced = 'false'       # lbfgs.hpp: `bool forced = false`
    if len(a) == 6:
        forced = em.expr(a[5], 'B')[0]
    out.add(lean,
            f'/-- {file} :: {what}::update — arguments of `lbfgs.update(xₖ, xₙₑₓₜ, pₖ, pₙₑₓₜ, sign, forced)`: '
            f'the four vectors, `sign == Sign::Positive`, `forced` -/\n'
            f'def {lean} {sig("update")} : Vec α × Vec α × Vec α × Vec α × Bool × Bool :=\n'
            f'  ({", ".join(vs)}, {pos}, {forced})\n', (params, ss), file)
    # the defaults this relies on
    hpp = read('accelerators/lbfgs.hpp')
    if not re.search(r'bool\s+update\s*\(\s*crvec\s+\S+\s*,\s*crvec\s+\S+\s*,\s*crvec\s+\S+\s*,\s*crvec\s+\S+\s*,'
                     r'\s*Sign\s+sign\s*=\s*Sign::Positive\s*,\s*bool\s+forced\s*=\s*false\s*\)', hpp):
        raise TranslationError('LBFGS::update: default arguments (Sign::Positive, forced = false) changed')


def changed_gamma(out, cls, lean, file, what, obj, scale_meth, flag):
    params, body = member(cls, 'changed_γ', what)
    env = param_env('changed_γ', params, what)
    env[flag] = ('rescale', 'B')
    ss = stmts_of(body)
    em = Emitter(lambda d: env.get(d))

    def arm(s):
        b = s[1] if s[0] == 'block' else [s]
        if len(b) != 1 or b[0][0] != 'expr':
            raise TranslationError(f'{what}::changed_γ: branch is not a single call')
        e = b[0][1]
        if is_call(e, obj, scale_meth) and len(e[2]) == 1:
            return f'some {em.expr(e[2][0], "S")[0]}'
        if is_call(e, obj, 'reset') and not e[2]:
            return 'none'
        raise TranslationError(f'{what}::changed_γ: branch is neither {obj}.{scale_meth}(e) nor {obj}.reset()')
    if not (len(ss) == 1 and ss[0][0] == 'if' and ss[0][3] is not None):
        raise TranslationError(f'{what}::changed_γ: expected a single if/else')
    c = em.expr(ss[0][1], 'B')[0]
    out.add(lean,
            f'/-- {file} :: {what}::changed_γ — `some f`: `{obj}.{scale_meth}(f)`, `none`: `{obj}.reset()` -/\n'
            f'def {lean} (rescale : Bool) {sig("changed_γ")} : Option α :=\n'
            f'  if {c} then {arm(ss[0][2])} else {arm(ss[0][3])}\n', (params, ss), file)


def single_call(out, cls, fn, file, what, obj, meth, args_repr=None):
    params, body = member(cls, fn, what)
    ss = stmts_of(body)
    ok = (len(ss) == 1 and ss[0][0] == 'expr' and is_call(ss[0][1], obj, meth)
          and (args_repr is None or repr(ss[0][1][2]) == args_repr))
    if not ok:
        raise TranslationError(f'{what}::{fn}: body is not `{obj}.{meth}(…);`: {repr(ss)[:200]}')
    out.regions[f'{what}.{fn}'] = {'file': file, 'hash': cp.ast_hash(ss)}


GET_N = repr([('call', ('mem', ('id', 'problem'), 'get_n', False), [], None)])


# ------------------------------------------------------------------------------------------------

def gen_noop(out):
    src = read(F_NO)
    _, cls = cp.find_region(src, r'struct\s+NoopDirection\s*\{')
    const_bool(out, cls, 'has_initial_direction', 'noopHasInitial', F_NO, 'NoopDirection', 0)
    const_bool(out, cls, 'update', 'noopUpdate', F_NO, 'NoopDirection', 8)
    const_bool(out, cls, 'apply', 'noopApply', F_NO, 'NoopDirection', 6)
    for fn in ('initialize', 'changed_γ', 'reset'):
        empty_body(out, cls, fn, F_NO, 'NoopDirection')


def gen_lbfgs(out):
    src = read(F_LB)
    _, cls = cp.find_region(src, r'struct\s+LBFGSDirection\s*\{')
    W = 'LBFGSDirection'
    const_bool(out, cls, 'has_initial_direction', 'lbfgsDirHasInitial', F_LB, W, 0)
    lbfgs_update_args(out, cls, 'lbfgsDirUpdateArgs', F_LB, W)
    # apply
    params, body = member(cls, 'apply', W)
    env = param_env('apply', params, W)
    ss = stmts_of(body)
    em = Emitter(lambda d: env.get(d))
    r = ss[-1] if ss else None
    if not (r and r[0] == 'return' and r[1] is not None and is_call(r[1], 'lbfgs', 'apply')
            and 1 <= len(r[1][2]) <= 2 and dotted(r[1][2][0]) in params
            and env[dotted(r[1][2][0])][0] == 'q_k'):
        raise TranslationError(f'{W}::apply: does not end in `return lbfgs.apply(qₖ, γ);`')
    em.locals = dict(env)
    if len(r[1][2]) == 2:
        fin = lambda: f'({em.lookup(dotted(r[1][2][0]))[0]}, {em.expr(r[1][2][1], "S")[0]})'
    else:
        em.nat_lits.add(1)
        fin = lambda: f'({em.lookup(dotted(r[1][2][0]))[0]}, -(1 : α))'       # lbfgs.hpp: `real_t γ = -1`
    term = em.stmts(ss[:-1], fin)
    out.lits.update(em.nat_lits)
    out.add('lbfgsDirApplyArgs',
            f'/-- {F_LB} :: {W}::apply — what is handed to `lbfgs.apply(q, γ)`: the vector in `qₖ`, the step size -/\n'
            f'def lbfgsDirApplyArgs {sig("apply")} : Vec α × α :=\n{_indent(term)}\n', (params, ss), F_LB)
    changed_gamma(out, cls, 'lbfgsDirChangedGamma', F_LB, W, 'lbfgs', 'scale_y',
                  'direction_params.rescale_on_step_size_changes')
    single_call(out, cls, 'initialize', F_LB, W, 'lbfgs', 'resize', GET_N)
    single_call(out, cls, 'reset', F_LB, W, 'lbfgs', 'reset', '[]')


def gen_anderson(out):
    src = read(F_AN)
    _, cls = cp.find_region(src, r'struct\s+AndersonDirection\s*\{')
    W = 'AndersonDirection'
    const_bool(out, cls, 'has_initial_direction', 'andersonDirHasInitial', F_AN, W, 0)
    const_bool(out, cls, 'update', 'andersonDirUpdate', F_AN, W, 8)
    # initialize
    params, body = member(cls, 'initialize', W)
    env = param_env('initialize', params, W)
    ss = stmts_of(body)
    if not (len(ss) == 2 and ss[0][0] == 'expr' and is_call(ss[0][1], 'anderson', 'resize')
            and repr(ss[0][1][2]) == GET_N and ss[1][0] == 'expr'
            and is_call(ss[1][1], 'anderson', 'initialize') and len(ss[1][1][2]) == 2):
        raise TranslationError(f'{W}::initialize: expected `anderson.resize(problem.get_n()); '
                               f'anderson.initialize(g, r);`')
    em = Emitter(lambda d: env.get(d))
    a = [em.expr(x, 'V')[0] for x in ss[1][1][2]]
    out.add('andersonDirInitArgs',
            f'/-- {F_AN} :: {W}::initialize — arguments of `anderson.initialize(g₀, r₀)` -/\n'
            f'def andersonDirInitArgs {sig("initialize")} : Vec α × Vec α :=\n  ({a[0]}, {a[1]})\n',
            (params, ss), F_AN)
    # apply
    params, body = member(cls, 'apply', W)
    env = param_env('apply', params, W)
    ss = stmts_of(body)
    em = Emitter(lambda d: env.get(d))

    def handler(e, em):
        if is_call(e, 'anderson', 'compute') and len(e[2]) == 3:
            g = em.expr(e[2][0], 'V')[0]
            r = em.expr(e[2][1], 'V')[0]
            o = dotted(e[2][2])
            if o not in em.locals or em.locals[o][1] != 'V':
                raise TranslationError(f'{W}::apply: output of anderson.compute is not a vector parameter')
            return [(o, 'V', f'(compute {g} {r})')]
        return None
    em.stmt_call_handler = handler
    em.locals = dict(env)
    em.ret_type = 'B'
    comp = [s[1] for s in ss if s[0] == 'expr' and is_call(s[1], 'anderson', 'compute')]
    if len(comp) != 1 or len(comp[0][2]) != 3:
        raise TranslationError(f'{W}::apply: expected exactly one `anderson.compute(g, r, q)`')
    # statement order: the model (`Anderson.apply`) advances the accelerator first and unconditionally, then
    # runs the translated body on the vector `compute` wrote — so the call must be the first statement and the
    # only `return` the last one
    kinds = ['compute' if (s_[0] == 'expr' and is_call(s_[1], 'anderson', 'compute')) else s_[0] for s_ in ss]
    if not (kinds and kinds[0] == 'compute' and kinds[-1] == 'return' and kinds.count('return') == 1
            and all(k == 'expr' for k in kinds[1:-1])):
        raise TranslationError(f'{W}::apply: statement order changed (expected `anderson.compute(…)` first, '
                               f'plain statements, one final return): {kinds}')
    out.regions[f'{W}.apply.order'] = {'file': F_AN, 'hash': cp.ast_hash(kinds)}
    ca = [em.expr(x, 'V')[0] for x in comp[0][2][:2]]
    out.add('andersonDirComputeArgs',
            f'/-- {F_AN} :: {W}::apply — the (g, r) handed to `anderson.compute(g, r, ·)` -/\n'
            f'def andersonDirComputeArgs {sig("apply", ["gamma_k", "x_k", "xhat_k", "p_k", "grad_k"])} : Vec α × Vec α :=\n'
            f'  ({ca[0]}, {ca[1]})\n', comp, F_AN)
    r = ss[-1] if ss else None
    if not (r and r[0] == 'return' and r[1] is not None):
        raise TranslationError(f'{W}::apply: no final return')
    qname = [c for c, (l, t) in env.items() if l == 'q_k'][0]
    term = em.stmts(ss[:-1], lambda: f'({em.lookup(qname)[0]}, {em.expr(r[1], "B")[0]})')
    out.add('andersonDirApply',
            f'/-- {F_AN} :: {W}::apply over `compute g r` = the vector `anderson.compute(g, r, ·)` writes: '
            f'(content of `qₖ` afterwards, returned flag) -/\n'
            f'def andersonDirApply (compute : Vec α → Vec α → Vec α) {sig("apply")} : Vec α × Bool :=\n'
            f'{_indent(term)}\n', (params, ss), F_AN)
    changed_gamma(out, cls, 'andersonDirChangedGamma', F_AN, W, 'anderson', 'scale_R',
                  'direction_params.rescale_on_step_size_changes')
    single_call(out, cls, 'reset', F_AN, W, 'anderson', 'reset', '[]')


# ------------------------------------------------------------------------------------------------

def blank(ast, leaves):
    """Replace the sub-ASTs in `leaves` (compared by repr) by ('leaf', k)."""
    table = {repr(l): k for k, l in enumerate(leaves)}

    def go(a):
        if isinstance(a, (tuple, list)):
            k = table.get(repr(a))
            if k is not None and isinstance(a, tuple):
                return ('leaf', k)
            r = [go(x) for x in a]
            return tuple(r) if isinstance(a, tuple) else r
        return a
    return go(ast)


def gen_structured(out):
    hpp = read(F_SH)
    tpp = read(F_ST)
    W = 'StructuredLBFGSDirection'
    # ---- enum FailurePolicy
    _, pcls = cp.find_region(hpp, r'struct\s+StructuredLBFGSDirectionParams\s*\{')
    _, ebody = cp.find_region(pcls, r'enum\s+FailurePolicy\s*\{')
    names = [t.strip() for t in ebody.split(',') if t.strip()]
    if not names or any(not re.fullmatch(r'\w+', n) for n in names):
        raise TranslationError('FailurePolicy: enumerators with explicit values / unexpected text')
    m = re.search(r'failure_policy\s*=\s*(\w+)\s*;', pcls)
    if not m or m.group(1) not in names:
        raise TranslationError('FailurePolicy: default value not found')
    out.add('FailurePolicy',
            f'/-- {F_SH} :: StructuredLBFGSDirectionParams::FailurePolicy -/\n'
            f'inductive FailurePolicy where\n' + ''.join(f'  | {n}\n' for n in names) +
            f'  deriving DecidableEq, Repr, Inhabited\n\n'
            f'/-- all enumerators in declaration order (numeric value = position) -/\n'
            f'def FailurePolicy.all : List FailurePolicy := [{", ".join("." + n for n in names)}]\n\n'
            f'/-- the default `failure_policy` -/\n'
            f'def FailurePolicy.default : FailurePolicy := .{m.group(1)}\n', (names, m.group(1)), F_SH)
    # defaults of the numeric / boolean parameters
    dflt = {}
    for nm in ('hessian_vec_factor', 'hessian_vec_finite_differences', 'full_augmented_hessian'):
        mm = re.search(r'(real_t|bool)\s+' + nm + r'\s*=\s*([\w.]+)\s*;', pcls)
        if not mm:
            raise TranslationError(f'StructuredLBFGSDirectionParams::{nm}: default not found')
        dflt[nm] = mm.group(2)
    out.lits.add(0)
    out.add('slbfgsDefaults',
            f'/-- {F_SH} :: defaults of (hessian_vec_factor, hessian_vec_finite_differences, full_augmented_hessian) -/\n'
            f'def slbfgsDefaults : α × Bool × Bool :=\n'
            f'  (({dflt["hessian_vec_factor"]} : α), {dflt["hessian_vec_finite_differences"]}, '
            f'{dflt["full_augmented_hessian"]})\n', sorted(dflt.items()), F_SH)

    _, cls = cp.find_region(hpp, r'struct\s+StructuredLBFGSDirection\s*\{')
    const_bool(out, cls, 'has_initial_direction', 'slbfgsHasInitial', F_SH, W, 0)
    lbfgs_update_args(out, cls, 'slbfgsUpdateArgs', F_SH, W)
    empty_body(out, cls, 'changed_γ', F_SH, W)
    single_call(out, cls, 'reset', F_SH, W, 'lbfgs', 'reset', '[]')

    DP = 'direction_params.'
    penv = {DP + 'hessian_vec_factor': ('hvf', 'S'), DP + 'hessian_vec_finite_differences': ('fd', 'B'),
            DP + 'full_augmented_hessian': ('full_aug', 'B')}
    PROV = {'provides_eval_inactive_indices_res_lna': 'prov_inactive',
            'provides_eval_hess_L_prod': 'prov_hess_L', 'provides_eval_hess_ψ_prod': 'prov_hess_psi',
            'provides_get_box_D': 'prov_box_D', 'provides_eval_grad_gi': 'prov_grad_gi'}

    def prov_handler(obj, name, args, em):
        if obj in (('id', 'problem'), ('un', '*', ('id', 'problem'))) or \
                (obj[0] == 'id' and obj[1] == 'problem'):
            if name in PROV and not args:
                return PROV[name], 'B'
        return None

    # ---- initialize: the throw conditions
    hdr, body = cp.find_region(tpp, r'void\s+StructuredLBFGSDirection<Conf>::initialize\s*\(')
    ss = stmts_of(body)
    throws = [s for s in ss if s[0] == 'if' and s[3] is None and
              ((s[2][0] == 'throw') or (s[2][0] == 'block' and len(s[2][1]) == 1 and s[2][1][0][0] == 'throw'))]
    rest = [s for s in ss if s not in throws]
    if ss[:len(throws)] != throws:
        raise TranslationError(f'{W}::initialize: the argument checks no longer come first')
    em = Emitter(lambda d: penv.get(d))
    em.method_handler = prov_handler
    conds = [em.expr(s[1], 'B')[0] for s in throws]
    out.lits.update(em.nat_lits)
    pv = ' '.join(f'({v} : Bool)' for v in PROV.values())
    out.add('slbfgsInitThrows',
            f'/-- {F_ST} :: {W}::initialize — disjunction of the `if (…) throw std::invalid_argument` tests -/\n'
            f'def slbfgsInitThrows (hvf : α) (fd : Bool) (full_aug : Bool) {pv} : Bool :=\n  '
            + ' ||\n  '.join(conds or ['false']) + '\n', throws, F_ST)
    want_rest = "[('expr', ('bin', '=', ('mem', ('id', 'this'), 'problem', True), ('un', '&', ('id', 'problem')))), " \
                "('expr', ('call', ('mem', ('mem', ('id', 'this'), 'y', True), 'emplace', False), [('id', 'y')], None)), " \
                "('expr', ('call', ('mem', ('mem', ('id', 'this'), 'Σ', True), 'emplace', False), [('id', 'Σ')], None)), " \
                "('decl', 'const auto', 'n', ('call', ('mem', ('id', 'problem'), 'get_n', False), [], None)), " \
                "('decl', 'const auto', 'm', ('call', ('mem', ('id', 'problem'), 'get_m', False), [], None)), " \
                "('expr', ('call', ('mem', ('id', 'lbfgs'), 'resize', False), [('id', 'n')], None)), " \
                "('expr', ('call', ('mem', ('id', 'J_sto'), 'resize', False), [('id', 'n')], None)), " \
                "('expr', ('call', ('mem', ('id', 'HqK'), 'resize', False), [('id', 'n')], None))"
    if not repr(rest).startswith(want_rest):
        raise TranslationError(f'{W}::initialize: storing problem / y / Σ and `lbfgs.resize(n)` changed: '
                               + repr(rest)[:400])
    out.regions[f'{W}.initialize.rest'] = {'file': F_ST, 'hash': cp.ast_hash(rest)}

    # ---- apply
    hdr, body = cp.find_region(tpp, r'bool\s+StructuredLBFGSDirection<Conf>::apply\s*\(')
    ptxt = strip_attrs(hdr[hdr.index('apply') + 5:])
    ptxt = ptxt[ptxt.index('(') + 1:ptxt.rindex(')')]
    params = [nfc(re.findall(r'[^\s&*]+', p.strip())[-1]) for p in ptxt.split(',')]
    env = param_env('apply', params, W)
    inv = {l: c for c, (l, t) in env.items()}
    q, p, gam = inv['q_k'], inv['p_k'], inv['gamma_k']
    # the `switch` is outside the statement subset: cut it out and parse its arms separately
    msw = re.search(r'switch\s*\(\s*direction_params\.failure_policy\s*\)\s*\{', body)
    if not msw:
        raise TranslationError(f'{W}::apply: `switch (direction_params.failure_policy)` not found')
    ob = body.index('{', msw.start())
    cb = cp.match_brace(body, ob)
    sw = body[ob + 1:cb]
    if body[cb + 1:].strip():
        raise TranslationError(f'{W}::apply: statements after the failure-policy switch')
    # qₖ(J) / pₖ(J) / HqK(J): componentwise over j ∈ J
    def jfix(t):
        t = re.sub(re.escape(q) + r'\s*\(\s*J\s*\)', 'q_J', t)
        t = re.sub(re.escape(p) + r'\s*\(\s*J\s*\)', 'p_J', t)
        t = re.sub(r'HqK\s*\(\s*J\s*\)', 'HqK_J', t)
        return t
    main_ss = stmts_of(jfix(body[:msw.start()]))
    env2 = dict(env)
    env2.update({'q_J': ('q_j', 'S'), 'p_J': ('p_j', 'S'), 'HqK_J': ('HqK_j', 'S'),
                 'nJ': ('nJ', 'N'), 'n': ('n', 'N'), 'J.size': ('nJ', 'N')})
    env2.update(penv)

    def mk():
        em = Emitter(lambda d: env2.get(d), componentwise=False)

        def mh(obj, name, args, em):
            if obj == ('id', 'J') and name == 'size' and not args:
                return 'nJ', 'N'
            return None
        em.method_handler = mh
        return em

    leaves = []
    # skeleton:  decl n; decl nJ; decl J; if (nJ==0) return false; if (J.size()==n) {q=…; return lbfgs.apply(q,γ)}
    #            q = p; if (hvf != 0) {q(J).setZero(); approximate…; q(J) = …} else {q(J) = …}
    #            bool success = lbfgs.apply_masked(q, γ, J); if (success) return true;
    def find_ifs(ss):
        return [s for s in ss if s[0] == 'if']
    ifs = find_ifs(main_ss)
    if len(ifs) != 4:
        raise TranslationError(f'{W}::apply: expected 4 top-level `if`s before the switch, found {len(ifs)}')
    i_nofree, i_allfree, i_hess, i_succ = ifs
    em = mk()
    c_nofree = em.expr(i_nofree[1], 'B')[0]
    leaves.append(i_nofree[1])
    b = i_nofree[2][1] if i_nofree[2][0] == 'block' else [i_nofree[2]]
    if repr(b) != repr([('return', ('id', 'false'))]) or i_nofree[3] is not None:
        raise TranslationError(f'{W}::apply: the no-free-variables branch is no longer `return false;`')
    out.add('slbfgsNoFree', f'/-- {F_ST} :: {W}::apply — "there are no inactive indices J" test (→ `return false`) -/\n'
            f'def slbfgsNoFree (nJ : Nat) (n : Nat) : Bool :=\n  {c_nofree}\n', i_nofree, F_ST)
    em = mk()
    c_all = em.expr(i_allfree[1], 'B')[0]
    leaves.append(i_allfree[1])
    out.add('slbfgsAllFree', f'/-- {F_ST} :: {W}::apply — "there are no active indices K" test -/\n'
            f'def slbfgsAllFree (nJ : Nat) (n : Nat) : Bool :=\n  {c_all}\n', i_allfree[1], F_ST)
    b = i_allfree[2][1] if i_allfree[2][0] == 'block' else [i_allfree[2]]
    if not (len(b) == 2 and b[0][0] == 'expr' and b[0][1][0] == 'bin' and b[0][1][1] == '='
            and dotted(b[0][1][2]) == q and b[1][0] == 'return' and is_call(b[1][1], 'lbfgs', 'apply')
            and len(b[1][1][2]) == 2 and dotted(b[1][1][2][0]) == q) or i_allfree[3] is not None:
        raise TranslationError(f'{W}::apply: the all-free branch is no longer `qₖ = …; return lbfgs.apply(qₖ, γ);`')
    em = mk()
    e_full = em.expr(b[0][1][3], 'V')[0]
    g_full = em.expr(b[1][1][2][1], 'S')[0]
    out.lits.update(em.nat_lits)
    leaves += [b[0][1][3], b[1][1][2][1]]
    out.add('slbfgsRhsFull', f'/-- {F_ST} :: {W}::apply — all indices free: the vector handed to `lbfgs.apply` -/\n'
            f'def slbfgsRhsFull {sig("apply", ["gamma_k", "x_k", "xhat_k", "p_k", "grad_k"])} : Vec α :=\n  {e_full}\n',
            b[0], F_ST)
    out.add('slbfgsFullGamma', f'/-- {F_ST} :: {W}::apply — all indices free: the γ handed to `lbfgs.apply` -/\n'
            f'def slbfgsFullGamma (gamma_k : α) : α :=\n  {g_full}\n', b[1], F_ST)
    # q = p
    asg = [s for s in main_ss if s[0] == 'expr' and s[1][0] == 'bin' and s[1][1] == '=' and dotted(s[1][2]) == q]
    if len(asg) != 1:
        raise TranslationError(f'{W}::apply: expected exactly one top-level assignment `qₖ = …`')
    em = mk()
    e_q0 = em.expr(asg[0][1][3], 'V')[0]
    leaves.append(asg[0][1][3])
    out.add('slbfgsQInit', f'/-- {F_ST} :: {W}::apply — active indices present: initial content of `qₖ` (the K part stays) -/\n'
            f'def slbfgsQInit {sig("apply", ["gamma_k", "x_k", "xhat_k", "p_k", "grad_k"])} : Vec α :=\n  {e_q0}\n',
            asg[0], F_ST)
    # hvf branch
    em = mk()
    c_h = em.expr(i_hess[1], 'B')[0]
    out.lits.update(em.nat_lits)
    leaves.append(i_hess[1])
    out.add('slbfgsHessEnabled', f'/-- {F_ST} :: {W}::apply — is the Hessian-vector correction computed? -/\n'
            f'def slbfgsHessEnabled (hvf : α) : Bool :=\n  {c_h}\n', i_hess[1], F_ST)
    th = i_hess[2][1] if i_hess[2][0] == 'block' else [i_hess[2]]
    el = (i_hess[3][1] if i_hess[3][0] == 'block' else [i_hess[3]]) if i_hess[3] is not None else None
    want_pre = [('expr', ('call', ('mem', ('id', 'q_J'), 'setZero', False), [], None)),
                ('expr', ('call', ('id', 'approximate_hessian_vec_term'),
                          [('id', inv['x_k']), ('id', inv['grad_k']), ('id', q), ('id', 'J')], None))]
    if not (len(th) == 3 and repr(th[:2]) == repr(want_pre) and th[2][0] == 'expr' and th[2][1][0] == 'bin'
            and th[2][1][1] == '=' and th[2][1][2] == ('id', 'q_J')):
        raise TranslationError(f'{W}::apply: Hessian-vector branch is no longer `qₖ(J).setZero(); '
                               f'approximate_hessian_vec_term(xₖ, grad_ψxₖ, qₖ, J); qₖ(J) = …;`')
    if not (el is not None and len(el) == 1 and el[0][0] == 'expr' and el[0][1][0] == 'bin'
            and el[0][1][1] == '=' and el[0][1][2] == ('id', 'q_J')):
        raise TranslationError(f'{W}::apply: the branch without Hessian-vector term is no longer `qₖ(J) = …;`')
    em = mk()
    e_jh = em.expr(th[2][1][3], 'S')[0]
    out.lits.update(em.nat_lits)
    em = mk()
    e_j = em.expr(el[0][1][3], 'S')[0]
    out.lits.update(em.nat_lits)
    leaves += [th[2][1][3], el[0][1][3]]
    out.add('slbfgsRhsJHess', f'/-- {F_ST} :: {W}::apply — component j ∈ J of the right-hand side with the '
            f'Hessian-vector correction (`HqK_j` = component of the product) -/\n'
            f'def slbfgsRhsJHess (gamma_k : α) (hvf : α) (p_j : α) (HqK_j : α) : α :=\n  {e_jh}\n', th[2], F_ST)
    out.add('slbfgsRhsJ', f'/-- {F_ST} :: {W}::apply — component j ∈ J of the right-hand side without it -/\n'
            f'def slbfgsRhsJ (gamma_k : α) (p_j : α) : α :=\n  {e_j}\n', el[0], F_ST)
    # masked call
    dm = [s for s in main_ss if s[0] == 'decl' and s[2] == 'success']
    if not (len(dm) == 1 and dm[0][3] is not None and is_call(dm[0][3], 'lbfgs', 'apply_masked')
            and len(dm[0][3][2]) == 3 and dotted(dm[0][3][2][0]) == q and dm[0][3][2][2] == ('id', 'J')):
        raise TranslationError(f'{W}::apply: `bool success = lbfgs.apply_masked(qₖ, γ, J);` changed')
    em = mk()
    g_m = em.expr(dm[0][3][2][1], 'S')[0]
    leaves.append(dm[0][3][2][1])
    out.add('slbfgsMaskedGamma', f'/-- {F_ST} :: {W}::apply — the γ handed to `lbfgs.apply_masked` -/\n'
            f'def slbfgsMaskedGamma (gamma_k : α) : α :=\n  {g_m}\n', dm[0], F_ST)
    b = i_succ[2][1] if i_succ[2][0] == 'block' else [i_succ[2]]
    if not (i_succ[1] == ('id', 'success') and repr(b) == repr([('return', ('id', 'true'))]) and i_succ[3] is None):
        raise TranslationError(f'{W}::apply: `if (success) return true;` changed')
    # J := J_sto.topRows(nJ), nJ := eval_inactive_indices_res_lna(γ, x, grad, J_sto)
    dn = [s for s in main_ss if s[0] == 'decl' and s[2] in ('nJ', 'J', 'n')]
    want_dn = [('decl', 'const auto', 'n', ('call', ('mem', ('id', 'problem'), 'get_n', True), [], None)),
               ('decl', 'auto', 'nJ', ('call', ('mem', ('id', 'problem'), 'eval_inactive_indices_res_lna', True),
                                        [('id', gam), ('id', inv['x_k']), ('id', inv['grad_k']), ('id', 'J_sto')], None)),
               ('decl', 'auto', 'J', ('call', ('mem', ('id', 'J_sto'), 'topRows', False), [('id', 'nJ')], None))]
    if repr(dn) != repr(want_dn):
        raise TranslationError(f'{W}::apply: `n`, `nJ = problem->eval_inactive_indices_res_lna(γₖ, xₖ, grad_ψxₖ, J_sto)`, '
                               f'`J = J_sto.topRows(nJ)` changed: ' + repr(dn)[:300])
    out.regions[f'{W}.apply.skeleton'] = {'file': F_ST, 'hash': cp.ast_hash(blank(main_ss, leaves))}
    SKEL = blank(main_ss, leaves)
    order = [s[0] if s[0] != 'decl' else ('decl', s[2]) for s in SKEL]
    want_order = [('decl', 'n'), ('decl', 'nJ'), ('decl', 'J'), 'if', 'if', 'expr', 'if', ('decl', 'success'), 'if']
    if order != want_order:
        raise TranslationError(f'{W}::apply: statement order changed: {order}')
    out.regions[f'{W}.apply.order'] = {'file': F_ST, 'hash': cp.ast_hash(order)}

    # ---- the switch
    arms = re.split(r'(case\s+[\w:]+\s*:|default\s*:)', sw)
    if arms[0].strip():
        raise TranslationError(f'{W}::apply: text before the first case label')
    cases = {}
    for lab, txt in zip(arms[1::2], arms[2::2]):
        lab = lab.strip()
        key = 'default' if lab.startswith('default') else lab[4:].rstrip(':').strip().split('::')[-1]
        cases[key] = stmts_of(jfix(txt))
    if set(cases) != set(names) | {'default'}:
        raise TranslationError(f'{W}::apply: switch arms {sorted(cases)} do not match the enumerators {names}')
    ret, scales, sc_defs = {}, {}, {}
    for key, ss in cases.items():
        em = mk()
        em.locals['success'] = ('success', 'B')
        if not ss or ss[-1][0] != 'return' or ss[-1][1] is None:
            raise TranslationError(f'{W}::apply: switch arm {key} does not end in a return (fall-through)')
        ret[key] = em.expr(ss[-1][1], 'B')[0]
        pre = ss[:-1]
        scales[key] = bool(pre)
        if pre:
            if not (len(pre) == 1 and pre[0][0] == 'if' and pre[0][3] is not None):
                raise TranslationError(f'{W}::apply: switch arm {key}: expected `if (…) qₖ *= γ; else qₖ(J) *= γ;`')
            a = pre[0][2][1] if pre[0][2][0] == 'block' else [pre[0][2]]
            b = pre[0][3][1] if pre[0][3][0] == 'block' else [pre[0][3]]
            if not (len(a) == 1 and a[0][0] == 'expr' and a[0][1][0] == 'bin' and dotted(a[0][1][2]) == q and
                    len(b) == 1 and b[0][0] == 'expr' and b[0][1][0] == 'bin' and b[0][1][2] == ('id', 'q_J')):
                raise TranslationError(f'{W}::apply: switch arm {key}: scaling statements changed')
            em.locals.update(env2)
            c = em.expr(pre[0][1], 'B')[0]
            ea = a[0][1]
            eb = b[0][1]
            rhs_a = ea[3] if ea[1] == '=' else ('bin', ea[1][0], ea[2], ea[3])
            rhs_b = eb[3] if eb[1] == '=' else ('bin', eb[1][0], eb[2], eb[3])
            sc_defs[key] = (c, em.expr(rhs_a, 'V')[0], em.expr(rhs_b, 'S')[0])
            out.lits.update(em.nat_lits)
    sc_keys = [k for k in names if scales[k]]
    if scales.get('default') or len(sc_keys) != 1:
        raise TranslationError(f'{W}::apply: expected exactly one switch arm that rescales qₖ, got {sc_keys}')
    mt = lambda d: '\n'.join(f'  | .{n} => {d[n]}' for n in names)
    out.add('slbfgsFailureReturn',
            f'/-- {F_ST} :: {W}::apply — value returned by the `switch (failure_policy)` after `apply_masked` '
            f'failed (`default:` arm: {ret["default"]}, unreachable for the enumerators) -/\n'
            f'def slbfgsFailureReturn (failure_policy : FailurePolicy) (success : Bool) : Bool :=\n'
            f'  match failure_policy with\n{mt(ret)}\n', cases, F_ST)
    out.add('slbfgsFailureScales',
            f'/-- {F_ST} :: {W}::apply — does the arm rescale `qₖ` before returning? -/\n'
            f'def slbfgsFailureScales (failure_policy : FailurePolicy) : Bool :=\n'
            f'  match failure_policy with\n{mt({n: ("true" if scales[n] else "false") for n in names})}\n',
            sorted(scales.items()), F_ST)
    c, fa, fb = sc_defs[sc_keys[0]]
    out.add('slbfgsFailureScaleAll',
            f'/-- {F_ST} :: {W}::apply, arm {sc_keys[0]} — test choosing between the whole-vector and the J-only scaling -/\n'
            f'def slbfgsFailureScaleAll (nJ : Nat) (n : Nat) : Bool :=\n  {c}\n', c, F_ST)
    out.add('slbfgsFailureScaleFull',
            f'/-- {F_ST} :: {W}::apply, arm {sc_keys[0]} — whole-vector scaling -/\n'
            f'def slbfgsFailureScaleFull (gamma_k : α) (q_k : Vec α) : Vec α :=\n  {fa}\n', fa, F_ST)
    out.add('slbfgsFailureScaleJ',
            f'/-- {F_ST} :: {W}::apply, arm {sc_keys[0]} — scaling of component j ∈ J -/\n'
            f'def slbfgsFailureScaleJ (gamma_k : α) (q_j : α) : α :=\n  {fb}\n', fb, F_ST)

    # ---- approximate_hessian_vec_term
    hdr, body = cp.find_region(tpp, r'void\s+StructuredLBFGSDirection<Conf>::approximate_hessian_vec_term\s*\(')
    ptxt = strip_attrs(hdr[hdr.index('approximate_hessian_vec_term') + len('approximate_hessian_vec_term'):])
    ptxt = ptxt[ptxt.index('(') + 1:ptxt.rindex(')')]
    hp = [nfc(re.findall(r'[^\s&*]+', p.strip())[-1]) for p in ptxt.split(',')]
    if len(hp) != 4:
        raise TranslationError(f'{W}::approximate_hessian_vec_term: signature changed')
    hx, hg, hq, hJ = hp
    body2 = body
    for pat, rep in ((r'\(\s*\*\s*y\s*\)\s*\(\s*i\s*\)', 'y_i'), (r'\(\s*\*\s*Σ\s*\)\s*\(\s*i\s*\)', 'Sig_i'),
                     (r'\bg\s*\(\s*i\s*\)', 'g_i'), (r'D\.lowerbound\s*\(\s*i\s*\)', 'D_lb_i'),
                     (r'D\.upperbound\s*\(\s*i\s*\)', 'D_ub_i'), (r'HqK\s*\(\s*j\s*\)', 'HqK_j'),
                     (r'work_n\s*\(\s*j\s*\)', 'work_n_j')):
        body2 = re.sub(pat, rep, body2)
    mj = re.search(r'for\s*\(\s*auto\s+j\s*:\s*' + re.escape(hJ) + r'\s*\)\s*(HqK_j\s*[-+*/]?=\s*[^;]+;)', body2)
    if not mj:
        raise TranslationError(f'{W}::approximate_hessian_vec_term: `for (auto j : J) HqK(j) += …;` not found')
    ss = stmts_of(parse_range_for_safe(body2))
    ss = [s for s in ss if not (s[0] == 'decl' and s[2] == 'm')]
    # shape: if (fd) { fd-call } else { if (!full_aug) { hessL } else { if (prov_hess_psi) { hessψ } else { hessL; if(full_aug) {loop} } } }
    if not (len(ss) == 1 and ss[0][0] == 'if' and ss[0][3] is not None):
        raise TranslationError(f'{W}::approximate_hessian_vec_term: top-level if/else changed')
    top = ss[0]
    em = Emitter(lambda d: penv.get(d))
    em.method_handler = prov_handler
    c_fd = em.expr(top[1], 'B')[0]
    fdb = top[2][1] if top[2][0] == 'block' else [top[2]]
    want_fd = [('expr', ('call', ('id', 'Helpers::calc_augmented_lagrangian_hessian_prod_fd'),
                         [('un', '*', ('id', 'problem')), ('id', hx), ('un', '*', ('id', 'y')),
                          ('un', '*', ('id', 'Σ')), ('id', hg), ('id', hq), ('id', 'HqK'), ('id', 'work_n'),
                          ('id', 'work_n2'), ('id', 'work_m')], None))]
    if repr(fdb) != repr(want_fd):
        raise TranslationError(f'{W}::approximate_hessian_vec_term: finite-difference call changed: ' + repr(fdb)[:300])
    eb = top[3][1] if top[3][0] == 'block' else [top[3]]
    if not (len(eb) == 1 and eb[0][0] == 'if' and eb[0][3] is not None):
        raise TranslationError(f'{W}::approximate_hessian_vec_term: exact branch changed shape')
    c_lag = em.expr(eb[0][1], 'B')[0]
    hessL = lambda: [('expr', ('call', ('mem', ('id', 'problem'), 'eval_hess_L_prod', True),
                               [('id', hx), ('un', '*', ('id', 'y')), ('num', '1'), ('id', hq), ('id', 'HqK')], None))]
    lb = eb[0][2][1] if eb[0][2][0] == 'block' else [eb[0][2]]
    if repr(lb) != repr(hessL()):
        raise TranslationError(f'{W}::approximate_hessian_vec_term: eval_hess_L_prod(xₖ, *y, 1, qₖ, HqK) call changed')
    ab = eb[0][3][1] if eb[0][3][0] == 'block' else [eb[0][3]]
    if not (len(ab) == 1 and ab[0][0] == 'if' and ab[0][3] is not None):
        raise TranslationError(f'{W}::approximate_hessian_vec_term: augmented branch changed shape')
    c_psi = em.expr(ab[0][1], 'B')[0]
    pb = ab[0][2][1] if ab[0][2][0] == 'block' else [ab[0][2]]
    want_psi = [('expr', ('call', ('mem', ('id', 'problem'), 'eval_hess_ψ_prod', True),
                          [('id', hx), ('un', '*', ('id', 'y')), ('un', '*', ('id', 'Σ')), ('num', '1'),
                           ('id', hq), ('id', 'HqK')], None))]
    if repr(pb) != repr(want_psi):
        raise TranslationError(f'{W}::approximate_hessian_vec_term: eval_hess_ψ_prod(xₖ, *y, *Σ, 1, qₖ, HqK) call changed')
    mb = ab[0][3][1] if ab[0][3][0] == 'block' else [ab[0][3]]
    if not (len(mb) == 2 and repr(mb[:1]) == repr(hessL()) and mb[1][0] == 'if' and mb[1][3] is None):
        raise TranslationError(f'{W}::approximate_hessian_vec_term: manual penalty-Hessian branch changed shape')
    c_pen = em.expr(mb[1][1], 'B')[0]
    for nm, c, doc in (('slbfgsHvFD', c_fd, 'finite differences are used'),
                       ('slbfgsHvLagrangianOnly', c_lag, '(exact branch) only the Hessian of the Lagrangian is used'),
                       ('slbfgsHvUsesHessPsi', c_psi, '(exact, augmented) the problem\'s eval_hess_ψ_prod is used'),
                       ('slbfgsHvAddsPenalty', c_pen, '(exact, augmented, no eval_hess_ψ_prod) the penalty terms are added by hand')):
        out.add(nm, f'/-- {F_ST} :: {W}::approximate_hessian_vec_term — {doc} -/\n'
                f'def {nm} (fd : Bool) (full_aug : Bool) (prov_hess_psi : Bool) : Bool :=\n  {c}\n', c, F_ST)
    pen = mb[1][2][1] if mb[1][2][0] == 'block' else [mb[1][2]]
    pen = [s for s in pen if not (s[0] == 'expr' and s[1][0] == 'call' and dotted(s[1][1]) == 'assert')]
    # const auto &D = get_box_D(); auto &g = work_m; eval_g(x, g); for (i…) { ζ; inactive; if (!inactive) {…} }
    if not (len(pen) == 4 and pen[0][0] == 'decl' and pen[0][2] == 'D' and pen[1][0] == 'decl' and pen[1][2] == 'g'
            and pen[2][0] == 'expr' and is_call(pen[2][1], 'problem', 'eval_g') and pen[3][0] == 'for'):
        raise TranslationError(f'{W}::approximate_hessian_vec_term: penalty loop prologue changed')
    f = pen[3]
    want_hdr = (('decl', 'index_t', 'i', ('num', '0')), ('bin', '<', ('id', 'i'), ('id', 'm')), ('un', '++', ('id', 'i')))
    if repr((f[1], f[2], f[3])) != repr(want_hdr):
        raise TranslationError(f'{W}::approximate_hessian_vec_term: penalty loop header is not `for (i = 0; i < m; ++i)`')
    fb = f[4][1] if f[4][0] == 'block' else [f[4]]
    if not (len(fb) == 3 and fb[0][0] == 'decl' and fb[0][2] == 'ζ' and fb[1][0] == 'decl' and fb[1][2] == 'inactive'
            and fb[2][0] == 'if' and fb[2][3] is None):
        raise TranslationError(f'{W}::approximate_hessian_vec_term: penalty loop body changed shape')
    senv = {'g_i': ('g_i', 'S'), 'y_i': ('y_i', 'S'), 'Sig_i': ('Sig_i', 'S'), 'D_lb_i': ('D_lb_i', 'S'),
            'D_ub_i': ('D_ub_i', 'S'), 'ζ': ('zeta', 'S'), 'HqK_j': ('HqK_j', 'S'), 'work_n_j': ('work_n_j', 'S'),
            'work_n': ('work_n', 'V'), hq: ('q_k', 'V'), 't': ('t', 'S'), 'inactive': ('inactive', 'B')}
    em = Emitter(lambda d: senv.get(d))
    out.add('slbfgsZeta', f'/-- {F_ST} :: penalty loop — ζ -/\n'
            f'def slbfgsZeta (g_i : α) (y_i : α) (Sig_i : α) : α :=\n  {em.expr(fb[0][3], "S")[0]}\n', fb[0], F_ST)
    out.add('slbfgsConstrInactive', f'/-- {F_ST} :: penalty loop — `inactive` -/\n'
            f'def slbfgsConstrInactive (D_lb_i : α) (D_ub_i : α) (zeta : α) : Bool :=\n  {em.expr(fb[1][3], "B")[0]}\n',
            fb[1], F_ST)
    out.add('slbfgsPenaltySkip', f'/-- {F_ST} :: penalty loop — is constraint i skipped? (negation of the `if`) -/\n'
            f'def slbfgsPenaltySkip (inactive : Bool) : Bool :=\n  !{em.expr(fb[2][1], "B")[0]}\n', fb[2][1], F_ST)
    ib = fb[2][2][1] if fb[2][2][0] == 'block' else [fb[2][2]]
    if not (len(ib) == 3 and ib[0][0] == 'expr' and is_call(ib[0][1], 'problem', 'eval_grad_gi')
            and repr(ib[0][1][2]) == repr([('id', hx), ('id', 'i'), ('id', 'work_n')])
            and ib[1][0] == 'decl' and ib[1][2] == 't'
            and repr(ib[2]) == repr(('expr', ('call', ('id', 'rangefor_J'), [], None)))):
        raise TranslationError(f'{W}::approximate_hessian_vec_term: penalty loop inner statements changed')
    out.add('slbfgsPenaltyT', f'/-- {F_ST} :: penalty loop — `t` -/\n'
            f'def slbfgsPenaltyT (Sig_i : α) (work_n : Vec α) (q_k : Vec α) : α :=\n  {em.expr(ib[1][3], "S")[0]}\n',
            ib[1], F_ST)
    # `for (auto j : J) HqK(j) += work_n(j) * t;` — range-for is outside the statement subset: its body
    # is taken from the source text (`mj`), its place in the loop is checked above
    js = stmts_of(mj.group(1))
    e = js[0][1]
    rhs = e[3] if e[1] == '=' else ('bin', e[1][0], e[2], e[3])
    out.add('slbfgsPenaltyAcc', f'/-- {F_ST} :: penalty loop — new value of `HqK(j)`, j ∈ J -/\n'
            f'def slbfgsPenaltyAcc (HqK_j : α) (work_n_j : α) (t : α) : α :=\n  {em.expr(rhs, "S")[0]}\n', js, F_ST)


def parse_range_for_safe(body):
    """cxxparse has no range-for: replace `for (auto j : J) stmt;` by `RANGEFOR_J(stmt_text);`-free text."""
    return re.sub(r'for\s*\(\s*auto\s+j\s*:\s*\w+\s*\)\s*[^;]+;', 'rangefor_J();', body)


def gen_fd(out):
    src = read(F_PH)
    hdr, body = cp.find_region(src, r'static\s+void\s+calc_augmented_lagrangian_hessian_prod_fd\s*\(')
    ptxt = hdr[hdr.index('(') + 1:hdr.rindex(')')]
    params = [nfc(re.findall(r'[^\s&*]+', p.strip())[-1]) for p in ptxt.split(',')]
    if len(params) != 10:
        raise TranslationError('calc_augmented_lagrangian_hessian_prod_fd: signature changed')
    pr, x, y, Sg, g, v, Hv, w1, w2, wm = params
    ss = stmts_of(body)
    want0 = ('decl', 'real_t', 'cbrt_ε',
             ('call', ('id', 'std::cbrt'), [('call', ('id', 'std::numeric_limits<real_t>::epsilon'), [], None)], None))
    if not ss or repr(ss[0]) != repr(want0):
        raise TranslationError('calc_augmented_lagrangian_hessian_prod_fd: `cbrt_ε = std::cbrt(epsilon)` changed: '
                               + repr(ss[:1])[:300])
    env = {x: ('x_k', 'V'), g: ('grad_psi', 'V'), v: ('v', 'V'), 'cbrt_ε': ('cbrt_eps', 'S'),
           w1: ('([] : Vec α)', 'V')}
    em = Emitter(lambda d: env.get(d))

    def handler(e, em):
        if is_call(e, pr, 'eval_grad_ψ') and len(e[2]) == 6:
            a = e[2]
            if [dotted(a[1]), dotted(a[2]), dotted(a[4]), dotted(a[5])] != [y, Sg, w2, wm]:
                raise TranslationError('calc_augmented_lagrangian_hessian_prod_fd: eval_grad_ψ arguments changed')
            if dotted(a[3]) != Hv:
                raise TranslationError('calc_augmented_lagrangian_hessian_prod_fd: eval_grad_ψ no longer writes Hv')
            return [(Hv, 'V', f'(gradPsi {em.expr(a[0], "V")[0]})')]
        return None
    em.stmt_call_handler = handler
    text = em.function('fdHessProd', [('gradPsi', 'gradPsi', 'Vec α → Vec α'), ('cbrt_ε', 'cbrt_eps', 'S'),
                                      (x, 'x_k', 'V'), (g, 'grad_psi', 'V'), (v, 'v', 'V')],
                       ss[1:], None, outputs=[Hv], out_types={Hv: 'V'},
                       doc=f'{F_PH} :: calc_augmented_lagrangian_hessian_prod_fd over `gradPsi x` = '
                           f'`eval_grad_ψ(x, y, Σ)`; `cbrt_eps` = `std::cbrt(epsilon)`')
    out.lits.update(em.nat_lits)
    out.add('fdHessProd', text, (params, ss), F_PH)


def main(out_path):
    out = Out()
    gen_noop(out)
    gen_lbfgs(out)
    gen_anderson(out)
    gen_structured(out)
    gen_fd(out)
    hdr = file_header('PANOC direction-provider wrappers (Noop / LBFGS / StructuredLBFGS / Anderson).',
                      imports=('Alpaqa.Model.Vec',), nat_lits=out.lits)
    hdr = hdr.replace('\nsection\n', '\nset_option linter.unusedVariables false\n\nsection\n', 1)
    text = hdr + '\n'.join(out.defs) + FILE_FOOTER
    old = open(out_path).read() if os.path.exists(out_path) else None
    if old != text:
        with open(out_path, 'w') as f:
            f.write(text)
    return out.regions


if __name__ == '__main__':
    outp = sys.argv[1] if len(sys.argv) > 1 else os.path.join(
        os.path.dirname(os.path.abspath(__file__)), '..', 'lean', 'Alpaqa', 'Gen', 'Dirs.lean')
    try:
        r = main(outp)
        print(json.dumps({'ok': True, 'regions': r}))
    except TranslationError as e:
        print(json.dumps({'ok': False, 'error': str(e)}))
        sys.exit(2)
