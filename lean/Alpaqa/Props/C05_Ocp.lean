/-
  C05 for PANOC-OCP — the forward-backward envelope decreases along accepted steps; the step size never
  grows; γ·L stays constant.

  `ocp_accepted_step` is structural (any carrier, every evaluator / direction oracle — Gauss-Newton steps
  always, periodically or never —, every stop schedule): an iteration that is *accepted* (k advances)
  leaves the old iterate as the spare one, the new current iterate passed both generated acceptance tests
  (`ocp_qubViolated`, `ocp_linesearchViolated`) against the old one, and its step size is the old one
  halved j times with L doubled j times.  The real-number readings of the two tests and of "halved" are
  proved over every linearly ordered field.
-/
import Alpaqa.Proofs.OcpLs
import Alpaqa.Proofs.Basic
import Alpaqa.Proofs.OcpDescent
import Alpaqa.Proofs.OcpExample
import Alpaqa.Proofs.OcpSized

namespace Alpaqa.Props.C05_Ocp
open Alpaqa Alpaqa.Ocp Alpaqa.Gen
set_option linter.unusedSectionVars false
set_option linter.unusedVariables false

section structural
variable {α D : Type} [Add α] [Sub α] [Mul α] [Div α] [Neg α] [LT α] [LE α] [DecidableLT α]
  [DecidableLE α] [BEq α] [RealLike α] [NatCast α] [OfScientific α]
  [OfNat α 0] [OfNat α 1] [OfNat α 2] [OfNat α 100]

/-- **Accepted step.**  If one pass of the loop body advances `k` (the step was accepted: no exception,
    line search not interrupted), then with `s'` the state afterwards:
    * the progress callback reported the old iterate `s.curr` with the accepted τ, and `s.curr` is now
      the spare iterate;
    * `s'.curr` satisfies the quadratic upper bound test unless `L ≥ L_max`;
    * if the accepted τ is positive, `s'.curr` passed the line-search test against `s.curr`;
    * γ was only halved (j times), L doubled with it. -/
theorem ocp_accepted_step (O : Oracles α) (dir : Dir D α) (P : Prob α) (pr : Params α)
    (stop : Nat → Bool) (s : St α D) (eps : α) (hf : s.fuelOut = false)
    (hf' : (iterBody O dir P pr stop s eps).1.fuelOut = false)
    (hacc : (iterBody O dir P pr stop s eps).1.k = s.k + 1) :
    (iterBody O dir P pr stop s eps).1.next = s.curr ∧
    Halved s.curr (iterBody O dir P pr stop s eps).1.curr ∧
    (decide ((iterBody O dir P pr stop s eps).1.curr.L < pr.Lmax) &&
      qubViolated pr (iterBody O dir P pr stop s eps).1.curr) = false ∧
    ∃ cb : Callback α, (iterBody O dir P pr stop s eps).1.cbs = cb :: s.cbs ∧ cb.it = s.curr ∧
      cb.status = .Busy ∧
      (decide (cb.tau > (0 : α)) &&
        linesearchViolated pr s.curr (iterBody O dir P pr stop s eps).1.curr) = false := by
  unfold iterBody at hf' hacc ⊢
  simp only [] at hf' hacc ⊢
  by_cases hex : ((directionStage dir P pr s).exc != Exc.none) = true
  · simp only [hex, if_true] at hacc; omega
  · simp only [hex, Bool.false_eq_true, if_false] at hf' hacc ⊢
    generalize hls : lineSearch O dir P pr stop s.curr (directionStage dir P pr s).q
        (directionStage dir P pr s).tauInit _ pr.lsFuel _ = ls at hf' hacc ⊢
    have hacc' := lineSearch_accept O dir P pr stop s.curr (directionStage dir P pr s).q
        (directionStage dir P pr s).tauInit
        (decide (pr.gnInterval > 0) && ((s.k + 1) % pr.gnInterval == 0) && !pr.disableAccel) pr.lsFuel
        { next := { s.next with gamma := s.curr.gamma, L := s.curr.L }, d := (directionStage dir P pr s).d,
          tick := (directionStage dir P pr s).tick, tau := (directionStage dir P pr s).tauInit,
          tauPrev := -1,
          doGnStep := (decide (pr.gnInterval > 0) && ((s.k + 1) % pr.gnInterval == 0) && !pr.disableAccel)
            || (s.doGnStep && pr.gnSticky),
          lsBacktracks := 0, stepsizeBacktracks := 0 }
        ⟨0, rfl, rfl⟩ rfl
    rw [hls] at hacc'
    by_cases hst : stop ls.tick
    · simp only [hst, if_true] at hacc; omega
    · simp only [hst, Bool.false_eq_true, if_false] at hf' hacc ⊢
      obtain ⟨hn, hc, _, hfo, cb, hcb, hit, hstat, htau, _, _⟩ := acceptStep_fields dir pr s
        (directionStage dir P pr s) ls
        { s.stats with
          lbfgsFailures := s.stats.lbfgsFailures + (directionStage dir P pr s).lbfgsFailures,
          lsBacktracks := s.stats.lsBacktracks + ls.lsBacktracks,
          stepsizeBacktracks := s.stats.stepsizeBacktracks + ls.stepsizeBacktracks } eps
      rw [hfo] at hf'
      have hlsf : ls.fuelOut = false := by rw [hf] at hf'; simpa using hf'
      obtain ⟨⟨hq, hl⟩, j, hj1, hj2⟩ := hacc'.2 hlsf (by simpa using hst)
      refine ⟨hn, ?_, ?_, cb, hcb, hit, hstat, ?_⟩
      · rw [hc]
        rcases updateStage_fields dir pr s.curr ls.next ls.d ls.tick (directionStage dir P pr s).didGn
          with hu | hu <;> rw [hu] <;> exact ⟨j, hj1, hj2⟩
      · rw [hc]
        rcases updateStage_fields dir pr s.curr ls.next ls.d ls.tick (directionStage dir P pr s).didGn
          with hu | hu <;> rw [hu] <;> exact hq
      · rw [hc, htau]
        rcases updateStage_fields dir pr s.curr ls.next ls.d ls.tick (directionStage dir P pr s).didGn
          with hu | hu <;> rw [hu] <;> exact hl

/-- If the line search is interrupted nothing is accepted: the current iterate and `k` stay. -/
theorem ocp_no_accept_when_interrupted (O : Oracles α) (dir : Dir D α) (P : Prob α) (pr : Params α)
    (stop : Nat → Bool) (s : St α D) (eps : α)
    (h : (iterBody O dir P pr stop s eps).1.k = s.k) :
    (iterBody O dir P pr stop s eps).1.curr = s.curr ∧ (iterBody O dir P pr stop s eps).1.cbs = s.cbs := by
  unfold iterBody at h ⊢
  simp only [] at h ⊢
  split_ifs at h ⊢
  · exact ⟨rfl, rfl⟩
  · exact ⟨rfl, rfl⟩
  · rw [(acceptStep_fields dir pr s _ _ _ eps).2.2.1] at h; omega

end structural

/-! ### Real-number readings (every linearly ordered field) -/
section field
variable {α : Type} [Field α] [LinearOrder α] [IsStrictOrderedRing α] [RealLike α]

/-- The line-search test passed means sufficient decrease of the forward-backward envelope:
    `φγ(next) ≤ φγ(curr) − β(1−γL)/(2γ)·‖p‖² + (1+|φγ(curr)|)·tol`. -/
theorem linesearch_descent (pr : Params α) (c n : Iterate α) (h : linesearchViolated pr c n = false) :
    n.fbe ≤ c.fbe - (pr.lsStrictness * (1 - c.gamma * c.L) / (2 * c.gamma)) * c.pTp
            + (1 + |c.fbe|) * pr.lsTol := by
  unfold linesearchViolated ocp_linesearchViolated at h
  simp only [eabs_eq_abs, Bool.not_eq_false', decide_eq_true_eq] at h
  exact h

/-- The quadratic-upper-bound test passed: `ψ(û) ≤ ψ(u) + ∇ψᵀp + (L/2)‖p‖² + (1+|ψ(u)|)·tol`. -/
theorem qub_holds (pr : Params α) (i : Iterate α) (h : qubViolated pr i = false) :
    i.psiuhat ≤ i.psiu + i.gradPsiTp + (0.5 : α) * i.L * i.pTp + (1 + |i.psiu|) * pr.qubTol := by
  unfold qubViolated ocp_qubViolated at h
  simp only [eabs_eq_abs, Bool.not_eq_false', decide_eq_true_eq] at h
  exact h

/-- The envelope is `ψ(u) + ‖p‖²/(2γ) + ∇ψᵀp`. -/
theorem fbe_eq (i : Iterate α) : i.fbe = i.psiu + i.pTp / (2 * i.gamma) + i.gradPsiTp := rfl

theorem halveN_eq (j : Nat) (g : α) : halveN j g = g / 2 ^ j := by
  induction j with
  | zero => simp [halveN]
  | succ j ih => simp only [halveN, ih, pow_succ]; field_simp

theorem doubleN_eq (j : Nat) (L : α) : doubleN j L = L * 2 ^ j := by
  induction j with
  | zero => simp [doubleN]
  | succ j ih => simp only [doubleN, ih, pow_succ]; ring

/-- **γ·L is constant** across accepted steps. -/
theorem gammaL_const (c n : Iterate α) (h : Halved c n) : n.gamma * n.L = c.gamma * c.L := by
  obtain ⟨j, h1, h2⟩ := h
  rw [h1, h2, halveN_eq, doubleN_eq]
  have : (2 : α) ^ j ≠ 0 := pow_ne_zero _ two_ne_zero
  field_simp

/-- **The step size never grows** (for a nonnegative step size). -/
theorem gamma_antitone (c n : Iterate α) (h : Halved c n) (hγ : 0 ≤ c.gamma) : n.gamma ≤ c.gamma := by
  obtain ⟨j, h1, _⟩ := h
  rw [h1, halveN_eq]
  have h2 : (1 : α) ≤ 2 ^ j := one_le_pow₀ (by norm_num)
  exact div_le_self hγ h2

/-- …and the Lipschitz estimate never shrinks. -/
theorem L_monotone (c n : Iterate α) (h : Halved c n) (hL : 0 ≤ c.L) : c.L ≤ n.L := by
  obtain ⟨j, _, h2⟩ := h
  rw [h2, doubleN_eq]
  have h3 : (1 : α) ≤ 2 ^ j := one_le_pow₀ (by norm_num)
  exact le_mul_of_one_le_right hL h3

/-! ### The whole run, as seen through the progress callback

Loop: `Ocp.run`.  Hypotheses: `0 < Lγ_factor` and `FuelOK pr nL nτ` (`Proofs/OcpFuel`: `0 < L_min ≤ L_max ≤
L_min·2^nL`, `L_max ≤ L_0·2^nL` for a user-supplied `L_0 > 0`, `1 < min_linesearch_coefficient·2^nτ`,
`(nL+1)(nτ+3) + 1 ≤ lsFuel`) — under which the model's loop fuel provably suffices, so no `fuelOut`
hypothesis.  All evaluator / direction oracles (Gauss-Newton always, periodically, never), all stop
schedules, budgets, initial guesses. -/

/-- **The reported step size never increases** along the progress callbacks of a solve. -/
theorem ocp_gamma_antitone {D : Type} (O : Oracles α) (dir : Dir D α) (P : Prob α) (d0 : D) (pr : Params α)
    (hpos : 0 < pr.LgammaFactor) (nL nτ : Nat) (hp : FuelOK pr nL nτ) (stop : Nat → Bool) (oot : Bool)
    (u0 y mu errz0 gV gQ : Vec α) (gS e0 : α) :
    List.IsChain (fun a b : Callback α => b.it.gamma ≤ a.it.gamma)
      (run O dir P d0 pr stop oot u0 y mu errz0 gV gQ gS e0).callbacks :=
  (run_callbacks_ok False O dir P d0 pr (fun h => h.elim) hpos nL nτ hp stop oot
    u0 y mu errz0 gV gQ gS e0).1.imp (fun _ _ h => h.1)

/-- **`γ·L` of every reported iterate equals `Lγ_factor`** (and `γ, L > 0`). -/
theorem ocp_gammaL_const {D : Type} (O : Oracles α) (dir : Dir D α) (P : Prob α) (d0 : D) (pr : Params α)
    (hpos : 0 < pr.LgammaFactor) (nL nτ : Nat) (hp : FuelOK pr nL nτ) (stop : Nat → Bool) (oot : Bool)
    (u0 y mu errz0 gV gQ : Vec α) (gS e0 : α) :
    ∀ cb ∈ (run O dir P d0 pr stop oot u0 y mu errz0 gV gQ gS e0).callbacks,
      cb.it.gamma * cb.it.L = pr.LgammaFactor ∧ 0 < cb.it.gamma ∧ 0 < cb.it.L := fun cb hcb =>
  have h := ((run_callbacks_ok False O dir P d0 pr (fun h => h.elim) hpos nL nτ hp stop oot
    u0 y mu errz0 gV gQ gS e0).2 cb hcb).gok
  ⟨h.2.2, h.1, h.2.1⟩

/-- **Every iterate handed to the callback satisfies the quadratic upper bound unless `L ≥ L_max`** —
    with the one exception that exists since the initial step-size loop polls the stop flag (C19): when
    that loop was cut short by a stop request (`InitInterrupted`), the *initial* iterate (reported with
    `k = 0`) was never brought to satisfy the bound (that solve returns from its first loop head,
    `Props/C19_Ocp.init_interrupted_then_returns`). -/
theorem ocp_reported_iterate_qub {D : Type} (O : Oracles α) (dir : Dir D α) (P : Prob α) (d0 : D)
    (pr : Params α) (hpos : 0 < pr.LgammaFactor) (nL nτ : Nat) (hp : FuelOK pr nL nτ)
    (stop : Nat → Bool) (oot : Bool) (u0 y mu errz0 gV gQ : Vec α) (gS e0 : α) :
    ∀ cb ∈ (run O dir P d0 pr stop oot u0 y mu errz0 gV gQ gS e0).callbacks,
      cb.it.psiuhat ≤ cb.it.psiu + cb.it.gradPsiTp + (0.5 : α) * cb.it.L * cb.it.pTp +
          (1 + |cb.it.psiu|) * pr.qubTol ∨ pr.Lmax ≤ cb.it.L ∨
      (InitInterrupted O P d0 pr stop u0 gV gQ gS e0 ∧ cb.k = 0) := fun cb hcb => by
  have h := ((run_callbacks_ok False O dir P d0 pr (fun h => h.elim) hpos nL nτ hp stop oot
    u0 y mu errz0 gV gQ gS e0).2 cb hcb).qub
  rcases h with (h | h) | h
  · left; exact qub_holds pr cb.it h
  · right; left; exact h
  · right; right; exact h

/-- **Descent between consecutive callbacks `k`, `k+1` of a solve** (`DescTo`, `Proofs/OcpDescent`): with
    `cₖ = (1−γₖLₖ)/(2γₖ)` from the fields reported at `k`,
    * `τₖ > 0` (accelerated step): `φₖ₊₁ ≤ φₖ − β·cₖ‖pₖ‖² + (1+|φₖ|)·ls_tol`;
    * `τₖ = 0` (safeguarded step) and the reported iterate passed the quadratic upper bound test:
      `φₖ₊₁ ≤ φₖ − cₖ‖pₖ‖² + (1+|ψₖ|)·qub_tol`
    — for a non-empty input box and a carrier without NaN (`BoxHyp`).  The optimality of the
    projected-gradient step that the second case needs is proved for the model's `eval_prox_impl`
    (`evalProxImpl_model_le`), not assumed.  Moreover the reported `φ` is the envelope of the reported
    iterate and every `Busy` callback has `τ ≥ 0`. -/
theorem ocp_descent_chain {D : Type} (O : Oracles α) (dir : Dir D α) (P : Prob α) (d0 : D)
    (pr : Params α) (hB : BoxHyp P) (hpos : 0 < pr.LgammaFactor) (nL nτ : Nat) (hp : FuelOK pr nL nτ)
    (stop : Nat → Bool) (oot : Bool) (u0 y mu errz0 gV gQ : Vec α) (gS e0 : α) :
    List.IsChain (fun a b : Callback α => DescTo pr a b.fbe)
      (run O dir P d0 pr stop oot u0 y mu errz0 gV gQ gS e0).callbacks ∧
    ∀ cb ∈ (run O dir P d0 pr stop oot u0 y mu errz0 gV gQ gS e0).callbacks,
      cb.fbe = cb.it.fbe ∧ (cb.status = .Busy → 0 ≤ cb.tau) := by
  have h := run_callbacks_ok True O dir P d0 pr (fun _ => hB) hpos nL nτ hp stop oot
    u0 y mu errz0 gV gQ gS e0
  exact ⟨h.1.imp (fun _ _ hc => hc.2 trivial), fun cb hcb => ⟨(h.2 cb hcb).fbe, (h.2 cb hcb).tau⟩⟩

/-- **Sizes of the reported iterates** (the premise under which `‖p‖²`, `∇ψᵀp` in `DescTo` are sums over all
    `N·nu` components, no `zipWith` of the list model truncating): under the size contract of the oracles
    (`SizeContract`, what the C++ asserts) and an initial guess of `N·nu` entries, every iterate handed to the
    progress callback is consistent (`Good`: roll-out, gradient, projected-gradient step) and has `u`, `∇ψ`,
    `p`, `û` of exactly `N·nu` entries.  (The descent chain itself, `ocp_descent_chain`, is proved without this
    premise: `evalProxImpl_model_le` holds for the truncating model as well.) -/
theorem ocp_callbacks_sized {D : Type} (O : Oracles α) (dir : Dir D α) (P : Prob α) (d0 : D)
    (pr : Params α) (hc : SizeContract O dir P) (nL nτ : Nat) (hp : FuelOK pr nL nτ)
    (stop : Nat → Bool) (oot : Bool) (u0 y mu errz0 gV gQ : Vec α) (gS e0 : α)
    (hu0 : u0.length = P.N * P.nu) :
    ∀ cb ∈ (run O dir P d0 pr stop oot u0 y mu errz0 gV gQ gS e0).callbacks,
      Good O P cb.it ∧ ItSized P cb.it :=
  run_callbacks_sized O dir P d0 pr hc nL nτ hp stop oot u0 y mu errz0 gV gQ gS e0 hu0

end field

/-! ### Non-vacuity -/
section examples
local instance ratRealLike : RealLike ℚ := ⟨id, fun _ => false, fun _ => true⟩

/-- a candidate with smaller envelope passes the line-search test, a larger one does not -/
example : ocp_linesearchViolated false (19/20 : ℚ) 0 1 1 (1/2) (-1/2) 1 (1/2) 1 (1/2) (-1/2) = false := by
  simp [ocp_linesearchViolated, ocp_fbe, eabs]; norm_num
example : ocp_linesearchViolated false (19/20 : ℚ) 0 1 1 (1/2) (-1/2) 1 3 1 (1/2) (-1/2) = true := by
  simp [ocp_linesearchViolated, ocp_fbe, eabs]; norm_num
example : halveN 3 (8 : ℚ) = 1 ∧ doubleN 3 (1 : ℚ) = 8 := by norm_num [halveN, doubleN]
end examples

/-! ### Non-vacuity of the run-level theorems: concrete runs of `Ocp.run` over ℚ (`Proofs/OcpExample`) -/
section run_examples
open Alpaqa.Ocp.Example

/-- `FuelOK` for the example parameters: `L_min = 10⁻⁵`, `L_max = 64 ≤ L_min·2²³`, `L₀ ∈ {1, 4, 8}`,
    `min_linesearch_coefficient = 1/256 > 2⁻⁹`, `lsFuel = 300 ≥ 24·12 + 1`. -/
theorem fuelOK_prS : FuelOK prS 23 9 :=
  ⟨by norm_num [prS, prA], by norm_num [prS, prA], by norm_num [prS, prA], fun _ => by norm_num [prS, prA],
    by norm_num [prS, prA], by norm_num [prS, prA]⟩
theorem fuelOK_prL : FuelOK prL 23 9 :=
  ⟨by norm_num [prL, prA], by norm_num [prL, prA], by norm_num [prL, prA], fun _ => by norm_num [prL, prA],
    by norm_num [prL, prA], by norm_num [prL, prA]⟩

theorem boxHyp_PA : BoxHyp PA := ⟨fun _ => rfl, by simp [PA, C03_Ocp.BoxOK], rfl⟩

/-- the safeguarded run `rS` (acceleration disabled, `L₀ = 1`): two initial step-size backtracks, then
    three `τ = 0` iterations with `γ = 19/80`, `L = 4` and a strictly decreasing envelope -/
example : (rS none).stats.stepsizeBacktracks = 2 ∧ (rS none).fuelOut = false ∧
    (rS none).callbacks.map (fun c => (c.k, c.it.gamma, c.it.L, c.tau)) =
      [(0, 19/80, 4, 0), (1, 19/80, 4, 0), (2, 19/80, 4, 0), (3, 19/80, 4, -1)] ∧
    (rS none).callbacks.map (·.fbe) =
      [341/640, 55549/819200, 509188781/26214400000, 323467312309/33554432000000] := by
  decide +kernel

/-- all hypotheses of the run-level theorems instantiated on `rS` (safeguarded steps) … -/
example : List.IsChain (fun a b : Callback ℚ => DescTo prS a b.fbe) (rS none).callbacks :=
  (ocp_descent_chain OA (dirOf 1 3) PA () prS boxHyp_PA (by norm_num [prS, prA]) 23 9 fuelOK_prS
    (stopAt none) false [1, 1/2] [] [] [] [] [] 0 0).1

/-- … and on `rL` (L-BFGS, accelerated steps `τ = 1`): `γ` antitone, `γ·L = 19/20`, QUB of every reported
    iterate -/
example : List.IsChain (fun a b : Callback ℚ => b.it.gamma ≤ a.it.gamma) (rL none).callbacks :=
  ocp_gamma_antitone OA (dirOf 1 3) PA () prL (by norm_num [prL, prA]) 23 9 fuelOK_prL (stopAt none) false
    [1, 1/2] [] [] [] [] [] 0 0

example : (rL none).callbacks.map (fun c => (c.k, c.tau)) = [(0, 1), (1, 1), (2, -1)] := by decide +kernel

/-- an interrupted initial step-size loop (`rS` with the flag visible from tick 21, i.e. during the first
    backtrack): `InitInterrupted`, one callback, `k = 0` — the exception clause of
    `ocp_reported_iterate_qub` is inhabited, and the reported iterate indeed violates the bound -/
example : InitInterrupted OA PA () prS (stopAt (some 21)) [1, 1/2] [] [] 0 0 ∧
    (rS (some 21)).callbacks.map (fun c => (c.k, qubViolated prS c.it)) = [(0, true)] :=
  ⟨(initInterrupted_iff _ _ _ _ _ _ _ _ _ _).mpr (by decide +kernel), by decide +kernel⟩

/-- `ocp_callbacks_sized` instantiated on `rS` -/
example : ∀ cb ∈ (rS none).callbacks, Good OA PA cb.it ∧ ItSized PA cb.it :=
  ocp_callbacks_sized OA (dirOf 1 3) PA () prS
    ⟨rfl, rfl, fun _ _ _ => rfl, fun _ _ _ _ _ => rfl,
      fun _ q _ _ hq => by show (smul _ q).length = _; rw [smul_length]; exact hq⟩
    23 9 fuelOK_prS (stopAt none) false [1, 1/2] [] [] [] [] [] 0 0 rfl

end run_examples

end Alpaqa.Props.C05_Ocp
