/-
  C01 ∘ C04 — the link between the two: **the oracles PANOC is handed are entries of the vtable the
  `ProblemVTable` constructor builds, for every provider mix**, and they meet `OracleContract`.

  `Props/C01_Alm.lean` proves `panoc_satisfies_inner_contract` / `alm_converged_certifies_kkt` under
  `OracleContract pb n m Pf` ("the problem oracles equal the closed forms on well-sized arguments")
  and discharges it for `cfProblem pb ψ` only — oracles *defined* as the closed forms.
  `Props/C04.lean` proves `resolve_correct`: for every subset of the seven optional first-order
  functions a problem class may supply (each `Sound`), every entry of the constructed vtable
  `resolve B P` equals its closed form.  Here:

  * `pbOf B C D` — the `ProblemCF` of the basic problem `B` (`g`, `∇L = ∇f + ∇g·y` *built from*
    `B.grad_f`, `B.grad_g_prod`), the box `C` on `x` and the box `D` on `g(x)`;
  * `vtProblem vt C w y Σ` — the `Panoc.Problem` whose `eval_ψ`, `eval_grad_ψ`, `eval_grad_L`,
    `eval_ψ_grad_ψ` oracles are the slots of the vtable `vt` at multipliers `y`, penalties `Σ`
    (prox = the box projection step for `C`, as in `cfProblem`: it is not a C04 slot);
  * `sound_vtable_meets_oracleContract` / **`resolve_meets_oracleContract`** — `OracleContract
    (pbOf B C D) B.n B.m (vtProblem (resolve B P) C w)` for all 2⁷ provider mixes;
  * `panoc_on_vtable_satisfies_inner_contract`, `alm_panoc_on_vtable_certifies_kkt` (`m ≠ 0`),
    `alm_m0_panoc_on_vtable_certifies_kkt` — the C01 end-to-end theorems with the oracle hypothesis
    replaced by `WF B`, `P.Sound B` and the box data;
  * `panoc_on_vtable_satisfies_inner_contract_lazy` — the same for the *raw* vtable slots
    (`vtProblemRaw`, no completion off the domain, no workspace model) with lazy gradient
    evaluation (`eager_gradient_eval = false`, the default);
  * **`panoc_on_raw_vtable_satisfies_inner_contract`** (and `resolve_raw_meets_oracleContractGrad`,
    `alm_panoc_on_raw_vtable_certifies_kkt`,
    `panoc_{noop,lbfgs,slbfgs,anderson}_on_raw_vtable_inner_contract`) — the raw slots with
    `eager_gradient_eval` **arbitrary and the workspace content of `eval_ψ_grad_ψ` arbitrary** (of
    size `m`): the consistency of the oracles is needed on well-sized arguments only
    (`Proofs/PanocInvOn.OracleLawOn`), and of it only the gradient half (`GradLawOn`,
    `Props/C01_Alm.OracleContractGrad` / `panoc_satisfies_inner_contract_grad`), which `Sound` gives
    outright — no completion off the domain, no workspace model;
    `resolve_raw_meets_oracleContractOn`: the full relativised law for a workspace that holds `ŷ` on
    the domain (`OracleContractOn`);
  * `panoc_{noop,lbfgs,slbfgs,anderson}_on_vtable_inner_contract` — the closed instances of
    `Props/DirectionsLoop.lean` (each shipped direction provider, `DirSized` proved) over the vtable;
  * `defaults_meet_oracleContract` — a problem class supplying only the required functions: no
    `Sound` hypothesis at all;
  * closed instances over ℚ (`n = 1`, `m = 1`, a problem supplying exactly `ψ` and `grad_L`; the
    all-defaults and the all-supplied mixes; an `m = 0` problem).

  Two things the C04 vtable model does not contain, and how they are handled (nothing is assumed
  silently):

  1. *The workspace of `eval_ψ_grad_ψ`.*  The C04 translation drops `work_n`, `work_m`; PANOC's model
     keeps `work_m` (third component of `Panoc.Problem.psiGradPsi`; `OracleLaw` demands it holds `ŷ`).
     `vtProblemW` takes the workspace content as a parameter `W` with the explicit hypothesis
     `W x y Σ = ŷ` on well-sized arguments; `vtProblem` instantiates `W` with the `ŷ` of the vtable's
     own `eval_ψ` (true for the library default: `auto &ŷ = work_m`; for a user-supplied
     `eval_ψ_grad_ψ` it is a requirement on that function which C04 does not state).  The lazy
     theorem needs no `W` at all.
  2. *`OracleLaw` is stated for every list `x`*, also of the wrong length, where C04 (and the C++:
     Eigen size assertion) says nothing.  `vtProblemW` therefore completes `eval_ψ_grad_ψ` on
     `x.length ≠ n` by the two separate evaluations; on `x.length = n` it *is* the vtable slot
     (`vtProblemW_psiGradPsi_sized`).  PANOC never evaluates an oracle off the domain
     (`Proofs/PanocSized.run_sized`); the lazy theorem is about the uncompleted slots.

  **Both closed since** (`Proofs/PanocInvOn`, `Proofs/C01PanocOn`, `Props/C01_Alm`): (2) `OracleLawOn n`
  (the law at `x.length = n` only) suffices for the PANOC theorems — the loop invariants carry the size
  invariant along (`panoc_satisfies_inner_contract_on`); (1) of that law only the gradient half is
  needed — PANOC with `eager_gradient_eval` treats `ŷx̂` as workspace and re-evaluates `eval_ψ` where it
  reads `ŷ` (`panoc_satisfies_inner_contract_grad`).  `panoc_on_raw_vtable_satisfies_inner_contract`
  is the inner contract for the uncompleted slots in either mode with `W` arbitrary of size `m`.
  `vtProblemW` / `vtProblem` and their theorems are kept (corollaries now: `OracleContract.on`).  The
  closed example `exP2` is a vtable whose raw slots violate the unrestricted `OracleLaw` (junk off the
  domain) and, with junk in `work_m`, even `OracleLawOn 1`, and over which PANOC in eager mode provably
  satisfies the inner contract and converges to the same point.

  Real-number semantics (ordered field), as everywhere in C01 / C04.
-/
import Alpaqa.Props.C01_Alm
import Alpaqa.Props.DirectionsLoop

namespace Alpaqa.Props.C01C04
open Alpaqa Alpaqa.Gen Alpaqa.C07 Alpaqa.C04 Alpaqa.Props.C01 Alpaqa.Props.C07 Alpaqa.Props.C01Alm
open Alpaqa.Panoc Alpaqa.Props.C05
set_option linter.unusedSectionVars false
set_option linter.unusedVariables false

variable {α : Type} [Field α] [LinearOrder α] [IsStrictOrderedRing α] [RealLike α]
  [Alpaqa.Proofs.C07.NoNaN α]

/-- the box on `x` (a `none` side is infinite), as in `ProblemCF.C` -/
abbrev BoxC (α : Type) := List (Option α × Option α)

/-! ### The closed-form problem of a basic problem -/

/-- The `ProblemCF` of the basic functions `B`, the box `C` on `x` and the box `D` on `g(x)`:
    `g = B.g`, `∇L(x, y) = ∇f(x) + ∇g(x)·y` built from `B.grad_f`, `B.grad_g_prod`
    (`C04.specGradL`).  No hypothesis relates it to `B`: it is constructed from it. -/
def pbOf (B : Basic α) (C : BoxC α) (D : BoxD α) : ProblemCF α := ⟨C, D, B.g, specGradL B⟩

/-- `B` is a box-constrained problem with the boxes `C ⊆ ℝⁿ`, `D ⊆ ℝᵐ`: its `eval_proj_diff_g` is
    `z ↦ z − Π_D z` (on vectors of size `m`), and `∇g(x)·y ∈ ℝⁿ` (the one size fact `C04.WF` does not
    contain: C04 never needs the size of a gradient it only adds to `∇f`). -/
structure IsBoxProblem (B : Basic α) (C : BoxC α) (D : BoxD α) : Prop where
  lenC : C.length = B.n
  lenD : D.length = B.m
  pd : ∀ z : Vec α, z.length = B.m → B.proj_diff_g z = boxProjDiff D z
  len_ggp : ∀ x y : Vec α, x.length = B.n → y.length = B.m → (B.grad_g_prod x y).length = B.n

/-! ### Bridging the two closed forms of `ŷ` -/

/-- for a penalty *vector* the C04 accessor (`Σ.size() == 1` ⇒ shared factor) is the component -/
theorem sigmaAt_vector (Sig : Vec α) (i : Nat) (h : i < Sig.length) : sigmaAt Sig i = vget Sig i := by
  unfold sigmaAt
  by_cases h1 : Sig.length = 1
  · have : i = 0 := by omega
    subst this
    simp [h1]
  · simp [h1]

/-- **C04's `ŷ` (`yhatSpec`, through `eval_proj_diff_g`, `Σ` a vector or a shared factor) is C01's
    `ŷ` (`yhatCF`, componentwise kernel `yhat1` over the box `D`)** for a box problem and a penalty
    vector of size `m` (`m = 1` included, where the C++ takes the `Σ.size() == 1` branch). -/
theorem yhatSpec_eq_yhatCF (B : Basic α) (C : BoxC α) (D : BoxD α) (hbox : IsBoxProblem B C D)
    (x y Sig : Vec α) (hy : y.length = B.m) (hS : Sig.length = B.m) :
    yhatSpec B.proj_diff_g (B.g x) y Sig = yhatCF (pbOf B C D) x y Sig := by
  unfold yhatSpec yhatCF
  simp only []
  apply List.map_congr_left
  intro i hi
  have hi' : i < y.length := List.mem_range.mp hi
  rw [hbox.pd _ (by rw [length_zetaV, hy]),
    vget_boxProjDiff D _ i (by rw [length_zetaV]; exact hi') (by rw [hbox.lenD, ← hy]; exact hi')]
  unfold zetaV
  rw [vget_map_range _ _ _ hi']
  unfold zetaAt yhat1
  rw [sigmaAt_vector Sig i (by omega)]
  rfl

theorem length_specGradL (B : Basic α) (hB : WF B) (C : BoxC α) (D : BoxD α)
    (hbox : IsBoxProblem B C D) (x y : Vec α) (hx : x.length = B.n) (hy : y.length = B.m) :
    (specGradL B x y).length = B.n := by
  unfold specGradL
  rw [length_vadd, hB.len_grad_f x hx, hbox.len_ggp x y hx hy, Nat.min_self]

/-! ### The PANOC problem built from a vtable -/

/-- The oracles PANOC is handed, **as slots of the vtable `vt`** at multipliers `y` and penalties `Σ`:
    `eval_ψ(x, y, Σ, ŷ)` (with `w` the previous content of the `ŷ` buffer, which the `m = 0` shortcut
    of the default leaves in place), `eval_grad_ψ(x, y, Σ, ·)`, `eval_grad_L(x, ŷ, ·)`,
    `eval_ψ_grad_ψ(x, y, Σ, ·, work_n, work_m)`; the prox step is the box projection step for `C`
    (`Props/C15`, exactly as in `cfProblem`).
    `W x y Σ` is what `eval_ψ_grad_ψ` leaves in `work_m` (not part of the C04 vtable model).
    On `x.length ≠ vt.n` — outside the domain of every slot — `eval_ψ_grad_ψ` is completed by the
    separate evaluations (see the file header, item 2). -/
def vtProblemW (vt : VTable α) (C : BoxC α) (W : Vec α → Vec α → Vec α → Vec α) (w y Sig : Vec α) :
    Panoc.Problem α where
  psi x := vt.eval_psi x y Sig w
  gradPsi x := vt.eval_grad_psi x y Sig
  gradL x yh := vt.eval_grad_L x yh
  prox γ x g := (0, vadd x (projStepVO γ x g C), projStepVO γ x g C)
  psiGradPsi x :=
    if x.length = vt.n then
      ((vt.eval_psi_grad_psi x y Sig).1, (vt.eval_psi_grad_psi x y Sig).2, W x y Sig)
    else
      ((vt.eval_psi_grad_psi x y Sig).1, vt.eval_grad_L x (vt.eval_psi x y Sig w).2,
        (vt.eval_psi x y Sig w).2)

/-- `vtProblemW` with the workspace of `eval_ψ_grad_ψ` holding the `ŷ` of the vtable's own `eval_ψ`
    (the library default computes `ŷ` in `work_m`). -/
def vtProblem (vt : VTable α) (C : BoxC α) (w y Sig : Vec α) : Panoc.Problem α :=
  vtProblemW vt C (fun x y Sig => (vt.eval_psi x y Sig w).2) w y Sig

/-- The raw slots: no completion off the domain; the workspace content is arbitrary (`W`). -/
def vtProblemRaw (vt : VTable α) (C : BoxC α) (W : Vec α → Vec α → Vec α → Vec α) (w y Sig : Vec α) :
    Panoc.Problem α where
  psi x := vt.eval_psi x y Sig w
  gradPsi x := vt.eval_grad_psi x y Sig
  gradL x yh := vt.eval_grad_L x yh
  prox γ x g := (0, vadd x (projStepVO γ x g C), projStepVO γ x g C)
  psiGradPsi x := ((vt.eval_psi_grad_psi x y Sig).1, (vt.eval_psi_grad_psi x y Sig).2, W x y Sig)

/-- on the domain, `vtProblemW`'s combined evaluation *is* the vtable slot (plus the workspace) -/
theorem vtProblemW_psiGradPsi_sized (vt : VTable α) (C : BoxC α) (W : Vec α → Vec α → Vec α → Vec α)
    (w y Sig x : Vec α) (hx : x.length = vt.n) :
    (vtProblemW vt C W w y Sig).psiGradPsi x
      = ((vt.eval_psi_grad_psi x y Sig).1, (vt.eval_psi_grad_psi x y Sig).2, W x y Sig) := by
  simp [vtProblemW, hx]

/-- every oracle of `vtProblemW` agrees with the raw slot on the domain; the four others everywhere -/
theorem vtProblemW_eq_raw (vt : VTable α) (C : BoxC α) (W : Vec α → Vec α → Vec α → Vec α)
    (w y Sig : Vec α) :
    (vtProblemW vt C W w y Sig).psi = (vtProblemRaw vt C W w y Sig).psi ∧
    (vtProblemW vt C W w y Sig).gradPsi = (vtProblemRaw vt C W w y Sig).gradPsi ∧
    (vtProblemW vt C W w y Sig).gradL = (vtProblemRaw vt C W w y Sig).gradL ∧
    (vtProblemW vt C W w y Sig).prox = (vtProblemRaw vt C W w y Sig).prox ∧
    ∀ x, x.length = vt.n →
      (vtProblemW vt C W w y Sig).psiGradPsi x = (vtProblemRaw vt C W w y Sig).psiGradPsi x :=
  ⟨rfl, rfl, rfl, rfl, fun x hx => vtProblemW_psiGradPsi_sized vt C W w y Sig x hx⟩

/-! ### The oracle contract -/

/-- the size facts and pointwise closed forms every sound vtable gives (shared by the theorems below) -/
theorem sound_sized (B : Basic α) (hB : WF B) (C : BoxC α) (D : BoxD α) (hbox : IsBoxProblem B C D)
    (vt : VTable α) (hvt : vt.Sound B) (w y Sig x : Vec α) (hw : w.length = B.m)
    (hy : y.length = B.m) (hS : Sig.length = B.m) (hx : x.length = B.n) :
    (vt.eval_psi x y Sig w).2 = yhatCF (pbOf B C D) x y Sig ∧
    (vt.eval_psi x y Sig w).2.length = B.m ∧
    (vt.eval_grad_psi x y Sig).length = B.n ∧
    (vt.eval_psi_grad_psi x y Sig).2.length = B.n ∧
    (vt.eval_psi_grad_psi x y Sig).2 = vt.eval_grad_L x (vt.eval_psi x y Sig w).2 := by
  have ha : Args B x y Sig := ⟨hx, hy, Or.inr hS⟩
  have hyl : (yhatSpec B.proj_diff_g (B.g x) y Sig).length = B.m := by rw [length_yhatSpec, hy]
  have hgl : (specGradPsi B x y Sig).length = B.n :=
    length_specGradL B hB C D hbox x _ hx hyl
  rw [hvt.psi x y Sig w ha hw, hvt.grad_psi x y Sig ha, hvt.psi_grad_psi x y Sig ha]
  refine ⟨yhatSpec_eq_yhatCF B C D hbox x y Sig hy hS, hyl, hgl, hgl, ?_⟩
  show specGradPsi B x y Sig = vt.eval_grad_L x (yhatSpec B.proj_diff_g (B.g x) y Sig)
  rw [hvt.grad_L x _ hx hyl]
  rfl

/-- **Every sound vtable meets `OracleContract`** — whatever produced it.  `W`: the workspace content
    of `eval_ψ_grad_ψ`, required to be `ŷ` on well-sized arguments (only `OracleContract.law`, i.e.
    eager gradient evaluation, reads it). -/
theorem sound_vtable_meets_oracleContractW (B : Basic α) (hB : WF B) (C : BoxC α) (D : BoxD α)
    (hbox : IsBoxProblem B C D) (vt : VTable α) (hvt : vt.Sound B) (hn : vt.n = B.n)
    (W : Vec α → Vec α → Vec α → Vec α) (w : Vec α) (hw : w.length = B.m)
    (hW : ∀ x y Sig, x.length = B.n → y.length = B.m → Sig.length = B.m →
      W x y Sig = (vt.eval_psi x y Sig w).2) :
    OracleContract (pbOf B C D) B.n B.m (vtProblemW vt C W w) := by
  refine ⟨?_, ?_, fun _ _ _ _ _ _ _ _ _ => ⟨rfl, rfl⟩, ?_, ?_⟩
  · intro y Sig x hy hS hx
    exact (sound_sized B hB C D hbox vt hvt w y Sig x hw hy hS hx).1
  · intro y Sig x yh hy hS hx hyh
    show vt.eval_grad_L x yh = specGradL B x yh
    exact hvt.grad_L x yh hx hyh
  · intro y Sig hy hS
    refine ⟨?_, ?_, ?_, ?_, ?_, ?_, ?_⟩
    · intro x hx
      rw [vtProblemW_psiGradPsi_sized vt C W w y Sig x (by rw [hn, hx])]
      exact (sound_sized B hB C D hbox vt hvt w y Sig x hw hy hS hx).2.2.2.1
    · intro x hx
      rw [vtProblemW_psiGradPsi_sized vt C W w y Sig x (by rw [hn, hx])]
      show (W x y Sig).length = B.m
      rw [hW x y Sig hx hy hS]
      exact (sound_sized B hB C D hbox vt hvt w y Sig x hw hy hS hx).2.1
    · intro x hx
      exact (sound_sized B hB C D hbox vt hvt w y Sig x hw hy hS hx).2.1
    · intro x hx
      exact (sound_sized B hB C D hbox vt hvt w y Sig x hw hy hS hx).2.2.1
    · intro x yh hx hyh
      show (vt.eval_grad_L x yh).length = B.n
      rw [hvt.grad_L x yh hx hyh]
      exact length_specGradL B hB C D hbox x yh hx hyh
    · intro γ x g hx hg
      show (vadd x (projStepVO γ x g C)).length = B.n
      rw [Alpaqa.Panoc.vadd_length, projStepVO_length, hx, hg, hbox.lenC]; simp
    · intro γ x g hx hg
      show (projStepVO γ x g C).length = B.n
      rw [projStepVO_length, hx, hg, hbox.lenC]; simp
  · intro y Sig hy hS x
    by_cases hx : x.length = vt.n
    · rw [vtProblemW_psiGradPsi_sized vt C W w y Sig x hx]
      have hx' : x.length = B.n := by rw [← hn]; exact hx
      exact ⟨hW x y Sig hx' hy hS, (sound_sized B hB C D hbox vt hvt w y Sig x hw hy hS hx').2.2.2.2⟩
    · simp [vtProblemW, hx]

/-- … with the workspace holding the `ŷ` of `eval_ψ` (`vtProblem`): no hypothesis on it left. -/
theorem sound_vtable_meets_oracleContract (B : Basic α) (hB : WF B) (C : BoxC α) (D : BoxD α)
    (hbox : IsBoxProblem B C D) (vt : VTable α) (hvt : vt.Sound B) (hn : vt.n = B.n)
    (w : Vec α) (hw : w.length = B.m) :
    OracleContract (pbOf B C D) B.n B.m (vtProblem vt C w) :=
  sound_vtable_meets_oracleContractW B hB C D hbox vt hvt hn _ w hw (fun _ _ _ _ _ _ => rfl)

/-- **Main theorem: the vtable the `ProblemVTable` constructor builds meets `OracleContract`, for
    every provider mix.**  For every basic problem `B` (`WF`: sizes), boxes `C`, `D`
    (`IsBoxProblem`), and *every* subset `P` of the optional functions
    `{f_grad_f, f_g, grad_f_grad_g_prod, grad_L, ψ, grad_ψ, ψ_grad_ψ}` supplied by the problem class
    (each supplied one equal to its closed form, `P.Sound B` — that is what supplying it means; the
    four second-order slots are arbitrary), the oracles PANOC is handed — the slots of `resolve B P`
    — equal C01's closed forms `pbOf B C D` on well-sized arguments, return vectors of the right
    size, and are mutually consistent.  (`w`: the previous content of the `ŷ` buffer, any vector of
    size `m`.) -/
theorem resolve_meets_oracleContract (B : Basic α) (hB : WF B) (P : Provided α) (hP : P.Sound B)
    (C : BoxC α) (D : BoxD α) (hbox : IsBoxProblem B C D) (w : Vec α) (hw : w.length = B.m) :
    OracleContract (pbOf B C D) B.n B.m (vtProblem (resolve B P) C w) :=
  sound_vtable_meets_oracleContract B hB C D hbox (resolve B P)
    (Alpaqa.Props.C04.resolve_correct B hB P hP) rfl w hw

/-- the same with an explicit workspace model `W` (any function that is `ŷ` on well-sized arguments) -/
theorem resolve_meets_oracleContractW (B : Basic α) (hB : WF B) (P : Provided α) (hP : P.Sound B)
    (C : BoxC α) (D : BoxD α) (hbox : IsBoxProblem B C D)
    (W : Vec α → Vec α → Vec α → Vec α) (w : Vec α) (hw : w.length = B.m)
    (hW : ∀ x y Sig, x.length = B.n → y.length = B.m → Sig.length = B.m →
      W x y Sig = yhatSpec B.proj_diff_g (B.g x) y Sig) :
    OracleContract (pbOf B C D) B.n B.m (vtProblemW (resolve B P) C W w) :=
  sound_vtable_meets_oracleContractW B hB C D hbox (resolve B P)
    (Alpaqa.Props.C04.resolve_correct B hB P hP) rfl W w hw (fun x y Sig hx hy hS => by
      rw [hW x y Sig hx hy hS,
        (Alpaqa.Props.C04.resolve_correct B hB P hP).psi x y Sig w ⟨hx, hy, Or.inr hS⟩ hw]
      rfl)


/-! ### The two extreme mixes -/

/-- supplying nothing is sound -/
theorem sound_none (B : Basic α) : ({} : Provided α).Sound B where
  f_grad_f := fun u h => by cases h
  f_g := fun u h => by cases h
  grad_f_grad_g_prod := fun u h => by cases h
  grad_L := fun u h => by cases h
  psi := fun u h => by cases h
  grad_psi := fun u h => by cases h
  psi_grad_psi := fun u h => by cases h

/-- the problem class that supplies all seven optional first-order functions as their closed forms -/
def fullProvided (B : Basic α) : Provided α :=
  { f_grad_f := some (specFGradF B), f_g := some (specFG B),
    grad_f_grad_g_prod := some (specGradFGradGProd B), grad_L := some (specGradL B),
    psi := some (specPsi B), grad_psi := some (specGradPsi B),
    psi_grad_psi := some (specPsiGradPsi B) }

theorem sound_full (B : Basic α) : (fullProvided B).Sound B where
  f_grad_f := fun u h x _ => by cases h; rfl
  f_g := fun u h x _ => by cases h; rfl
  grad_f_grad_g_prod := fun u h x y _ _ => by cases h; rfl
  grad_L := fun u h x y _ _ => by cases h; rfl
  psi := fun u h x y Sig _ => by cases h; rfl
  grad_psi := fun u h x y Sig _ => by cases h; rfl
  psi_grad_psi := fun u h x y Sig _ => by cases h; rfl

/-- **A problem class that supplies only the required functions** (`f, ∇f, g, ∇g·y`, the projection
    difference): every oracle PANOC is handed is a generated library default, and the contract holds
    with no hypothesis about any optional function. -/
theorem defaults_meet_oracleContract (B : Basic α) (hB : WF B) (C : BoxC α) (D : BoxD α)
    (hbox : IsBoxProblem B C D) (w : Vec α) (hw : w.length = B.m) :
    OracleContract (pbOf B C D) B.n B.m (vtProblem (resolve B {}) C w) :=
  resolve_meets_oracleContract B hB {} (sound_none B) C D hbox w hw

/-! ### The C01 end-to-end theorems over the constructed vtable -/
section corollaries
variable {Dd A : Type}

/-- **PANOC over the constructed vtable satisfies ALM's inner-solver contract, for every provider
    mix** — `panoc_satisfies_inner_contract` with its oracle hypothesis discharged by
    `resolve_meets_oracleContract`.  Remaining hypotheses: the problem data (`WF`, `Sound`,
    `IsBoxProblem`), and those of `panoc_satisfies_inner_contract` about provider, parameters, fuel and
    stop schedule (`DirSized`, `ParamsOK`, `FuelOK`, ApproxKKT criterion, `StopMono`). -/
theorem panoc_on_vtable_satisfies_inner_contract (B : Basic α) (hB : WF B) (P : Provided α)
    (hP : P.Sound B) (C : BoxC α) (D : BoxD α) (hbox : IsBoxProblem B C D) (w : Vec α)
    (hw : w.length = B.m)
    (dir : Direction Dd α) (d0 : Dd) (hD : DirSized B.n dir d0) (pr : Panoc.Params α) (hp : ParamsOK pr)
    (nf K : Nat) (hF : FuelOK pr nf K) (hcrit : pr.stopCrit = .ApproxKKT)
    (stop : InnerCall α → Nat → Bool) (hmono : ∀ c, StopMono (stop c))
    (oot clock almStop : InnerCall α → Bool) (gV : Vec α) (gS iS : α) :
    InnerContract (pbOf B C D) B.n B.m
      (panocInner (vtProblem (resolve B P) C w) dir d0 pr stop oot clock almStop gV gS iS) :=
  panoc_satisfies_inner_contract (pbOf B C D) B.n B.m (vtProblem (resolve B P) C w)
    (resolve_meets_oracleContract B hB P hP C D hbox w hw) dir d0 hD pr hp nf K hF hcrit stop hmono
    oot clock almStop gV gS iS

/-- **C01 end to end over the constructed vtable (`m ≠ 0`)**: ALM (`Props/C07` model) over the PANOC
    loop model over the vtable `resolve B P` — any provider mix — returns `Converged` only with the
    KKT certificate of the returned pair, for the closed forms `pbOf B C D` of the basic problem.
    No oracle hypothesis is left. -/
theorem alm_panoc_on_vtable_certifies_kkt (nan inf : α) (acc0 : A) (accAdd : A → Panoc.Stats α → A)
    (Pa : ALMParams α) (prob : C07.Problem α) (x y : Vec α) (Sig0 : Option (Vec α))
    (B : Basic α) (hB : WF B) (P : Provided α) (hP : P.Sound B) (C : BoxC α) (D : BoxD α)
    (hbox : IsBoxProblem B C D) (w : Vec α) (hw : w.length = B.m) (hpm : prob.m = B.m)
    (dir : Direction Dd α) (d0 : Dd) (hD : DirSized B.n dir d0) (pr : Panoc.Params α) (hp : ParamsOK pr)
    (nf K : Nat) (hF : FuelOK pr nf K) (hcrit : pr.stopCrit = .ApproxKKT)
    (stop : InnerCall α → Nat → Bool) (hmono : ∀ c, StopMono (stop c))
    (oot clock almStop : InnerCall α → Bool) (gV : Vec α) (gS iS : α)
    (hm : prob.m ≠ 0)
    (hC : ∀ b ∈ C, ∀ l u, b.1 = some l → b.2 = some u → l ≤ u)
    (hDok : ∀ i, i < prob.m → BndOK (lbAt D i) (ubAt D i))
    (hmin : 0 < Pa.min_penalty) (hmm : Pa.min_penalty ≤ Pa.max_penalty)
    (hlen : SigmaLen prob.m Sig0) (hx : x.length = B.n) (hy : y.length = prob.m)
    (hconv : (run nan inf acc0 accAdd Pa prob x y Sig0
      (panocInner (vtProblem (resolve B P) C w) dir d0 pr stop oot clock almStop gV gS iS)).stats.status
        = .Converged) :
    KKTCert (pbOf B C D) prob.m Pa.tolerance Pa.dual_tolerance
      (run nan inf acc0 accAdd Pa prob x y Sig0
        (panocInner (vtProblem (resolve B P) C w) dir d0 pr stop oot clock almStop gV gS iS)).x
      (run nan inf acc0 accAdd Pa prob x y Sig0
        (panocInner (vtProblem (resolve B P) C w) dir d0 pr stop oot clock almStop gV gS iS)).y := by
  have hI := panoc_on_vtable_satisfies_inner_contract B hB P hP C D hbox w hw dir d0 hD pr hp nf K hF
    hcrit stop hmono oot clock almStop gV gS iS
  rw [← hpm] at hI
  exact alm_converged_certifies_kkt nan inf acc0 accAdd Pa prob x y Sig0 _ (pbOf B C D) B.n hI hm hC hDok
    hmin hmm hlen hx hy hconv

/-- **… and without general constraints (`m = 0`)**: stationarity and `x ∈ C`. -/
theorem alm_m0_panoc_on_vtable_certifies_kkt (nan inf : α) (acc0 : A) (accAdd : A → Panoc.Stats α → A)
    (Pa : ALMParams α) (prob : C07.Problem α) (x y : Vec α) (Sig0 : Option (Vec α))
    (B : Basic α) (hB : WF B) (P : Provided α) (hP : P.Sound B) (C : BoxC α) (D : BoxD α)
    (hbox : IsBoxProblem B C D) (hpm : prob.m = B.m)
    (dir : Direction Dd α) (d0 : Dd) (hD : DirSized B.n dir d0) (pr : Panoc.Params α) (hp : ParamsOK pr)
    (nf K : Nat) (hF : FuelOK pr nf K) (hcrit : pr.stopCrit = .ApproxKKT)
    (stop : InnerCall α → Nat → Bool) (hmono : ∀ c, StopMono (stop c))
    (oot clock almStop : InnerCall α → Bool) (gV : Vec α) (gS iS : α)
    (hm : prob.m = 0) (h0 : Pa.max_iter ≠ 0)
    (hC : ∀ b ∈ C, ∀ l u, b.1 = some l → b.2 = some u → l ≤ u)
    (htol : 0 < Pa.tolerance) (hδ : 0 ≤ Pa.dual_tolerance) (hx : x.length = B.n)
    (hy : y.length = prob.m)
    (hconv : (run nan inf acc0 accAdd Pa prob x y Sig0
      (panocInner (vtProblem (resolve B P) C []) dir d0 pr stop oot clock almStop gV gS iS)).stats.status
        = .Converged) :
    KKTCert (pbOf B C D) 0 Pa.tolerance Pa.dual_tolerance
      (run nan inf acc0 accAdd Pa prob x y Sig0
        (panocInner (vtProblem (resolve B P) C []) dir d0 pr stop oot clock almStop gV gS iS)).x
      (run nan inf acc0 accAdd Pa prob x y Sig0
        (panocInner (vtProblem (resolve B P) C []) dir d0 pr stop oot clock almStop gV gS iS)).y := by
  have hBm : B.m = 0 := by rw [← hpm]; exact hm
  have hI := panoc_on_vtable_satisfies_inner_contract B hB P hP C D hbox [] (by rw [hBm]; rfl) dir d0 hD
    pr hp nf K hF hcrit stop hmono oot clock almStop gV gS iS
  rw [hBm] at hI
  exact alm_m0_converged_certifies_kkt nan inf acc0 accAdd Pa prob x y Sig0 _ (pbOf B C D) B.n hI hm h0 hC
    htol hδ hx hy hconv

/-! ### Lazy gradient evaluation: the raw slots, no workspace model -/

/-- `OracleContract` without the consistency clause `law` (which only eager gradient evaluation
    reads). -/
structure OracleContractLazy (pb : ProblemCF α) (n m : Nat) (Pf : Vec α → Vec α → Panoc.Problem α) :
    Prop where
  yhat : ∀ y Sig x, y.length = m → Sig.length = m → x.length = n →
    ((Pf y Sig).psi x).2 = yhatCF pb x y Sig
  gradL : ∀ y Sig x yh, y.length = m → Sig.length = m → x.length = n → yh.length = m →
    (Pf y Sig).gradL x yh = pb.gradL x yh
  prox : ∀ y Sig γ x g, y.length = m → Sig.length = m → x.length = n → g.length = n →
    ((Pf y Sig).prox γ x g).2.1 = vadd x (projStepVO γ x g pb.C) ∧
    ((Pf y Sig).prox γ x g).2.2 = projStepVO γ x g pb.C
  sized : ∀ y Sig, y.length = m → Sig.length = m → ProblemSized n m (Pf y Sig)

theorem OracleContract.toLazy {pb : ProblemCF α} {n m : Nat} {Pf : Vec α → Vec α → Panoc.Problem α}
    (h : OracleContract pb n m Pf) : OracleContractLazy pb n m Pf :=
  ⟨h.yhat, h.gradL, h.prox, h.sized⟩

/-- the lazy contract is `OracleContractOn` at `eager_gradient_eval = false` … -/
theorem OracleContractLazy.on {pb : ProblemCF α} {n m : Nat} {Pf : Vec α → Vec α → Panoc.Problem α}
    (h : OracleContractLazy pb n m Pf) {e : Bool} (he : e = false) : OracleContractOn pb n m e Pf :=
  ⟨h.yhat, h.gradL, h.prox, h.sized, fun ht => by rw [he] at ht; cases ht⟩

/-- … and conversely -/
theorem OracleContractOn.toLazy {pb : ProblemCF α} {n m : Nat} {e : Bool}
    {Pf : Vec α → Vec α → Panoc.Problem α} (h : OracleContractOn pb n m e Pf) :
    OracleContractLazy pb n m Pf :=
  ⟨h.yhat, h.gradL, h.prox, h.sized⟩

/-- `panoc_satisfies_inner_contract` for `eager_gradient_eval = false` (the default) under
    `OracleContractLazy`: `Props/C01_Alm.panoc_satisfies_inner_contract_on` with the mode discharged
    by the parameter instead of a consistency law. -/
theorem panoc_satisfies_inner_contract_lazy (pb : ProblemCF α) (n m : Nat)
    (Pf : Vec α → Vec α → Panoc.Problem α) (hO : OracleContractLazy pb n m Pf)
    (dir : Direction Dd α) (d0 : Dd) (hD : DirSized n dir d0) (pr : Panoc.Params α) (hp : ParamsOK pr)
    (hlazy : pr.eagerGradientEval = false)
    (nf K : Nat) (hF : FuelOK pr nf K)
    (hcrit : pr.stopCrit = .ApproxKKT)
    (stop : InnerCall α → Nat → Bool) (hmono : ∀ c, StopMono (stop c))
    (oot clock almStop : InnerCall α → Bool) (gV : Vec α) (gS iS : α) :
    InnerContract pb n m (panocInner Pf dir d0 pr stop oot clock almStop gV gS iS) :=
  panoc_satisfies_inner_contract_on pb n m Pf pr (hO.on hlazy) dir d0 hD hp nf K hF hcrit stop hmono oot
    clock almStop gV gS iS

/-- **The raw slots of every sound vtable meet the lazy contract** — `vtProblemRaw`: nothing completed
    off the domain; the workspace content `W` of `eval_ψ_grad_ψ` is arbitrary of size `m`. -/
theorem sound_vtable_meets_oracleContractLazy (B : Basic α) (hB : WF B) (C : BoxC α) (D : BoxD α)
    (hbox : IsBoxProblem B C D) (vt : VTable α) (hvt : vt.Sound B)
    (W : Vec α → Vec α → Vec α → Vec α) (w : Vec α) (hw : w.length = B.m)
    (hWl : ∀ x y Sig, x.length = B.n → y.length = B.m → Sig.length = B.m → (W x y Sig).length = B.m) :
    OracleContractLazy (pbOf B C D) B.n B.m (vtProblemRaw vt C W w) := by
  refine ⟨?_, ?_, fun _ _ _ _ _ _ _ _ _ => ⟨rfl, rfl⟩, ?_⟩
  · intro y Sig x hy hS hx
    exact (sound_sized B hB C D hbox vt hvt w y Sig x hw hy hS hx).1
  · intro y Sig x yh hy hS hx hyh
    show vt.eval_grad_L x yh = specGradL B x yh
    exact hvt.grad_L x yh hx hyh
  · intro y Sig hy hS
    refine ⟨?_, ?_, ?_, ?_, ?_, ?_, ?_⟩
    · intro x hx
      exact (sound_sized B hB C D hbox vt hvt w y Sig x hw hy hS hx).2.2.2.1
    · intro x hx
      exact hWl x y Sig hx hy hS
    · intro x hx
      exact (sound_sized B hB C D hbox vt hvt w y Sig x hw hy hS hx).2.1
    · intro x hx
      exact (sound_sized B hB C D hbox vt hvt w y Sig x hw hy hS hx).2.2.1
    · intro x yh hx hyh
      show (vt.eval_grad_L x yh).length = B.n
      rw [hvt.grad_L x yh hx hyh]
      exact length_specGradL B hB C D hbox x yh hx hyh
    · intro γ x g hx hg
      show (vadd x (projStepVO γ x g C)).length = B.n
      rw [Alpaqa.Panoc.vadd_length, projStepVO_length, hx, hg, hbox.lenC]; simp
    · intro γ x g hx hg
      show (projStepVO γ x g C).length = B.n
      rw [projStepVO_length, hx, hg, hbox.lenC]; simp

/-- **PANOC with lazy gradient evaluation over the raw slots of the constructed vtable satisfies the
    inner contract, for every provider mix** — no completion off the domain, no assumption on what
    `eval_ψ_grad_ψ` leaves in its workspace beyond its size. -/
theorem panoc_on_vtable_satisfies_inner_contract_lazy (B : Basic α) (hB : WF B) (P : Provided α)
    (hP : P.Sound B) (C : BoxC α) (D : BoxD α) (hbox : IsBoxProblem B C D)
    (W : Vec α → Vec α → Vec α → Vec α) (w : Vec α) (hw : w.length = B.m)
    (hWl : ∀ x y Sig, x.length = B.n → y.length = B.m → Sig.length = B.m → (W x y Sig).length = B.m)
    (dir : Direction Dd α) (d0 : Dd) (hD : DirSized B.n dir d0) (pr : Panoc.Params α) (hp : ParamsOK pr)
    (hlazy : pr.eagerGradientEval = false)
    (nf K : Nat) (hF : FuelOK pr nf K) (hcrit : pr.stopCrit = .ApproxKKT)
    (stop : InnerCall α → Nat → Bool) (hmono : ∀ c, StopMono (stop c))
    (oot clock almStop : InnerCall α → Bool) (gV : Vec α) (gS iS : α) :
    InnerContract (pbOf B C D) B.n B.m
      (panocInner (vtProblemRaw (resolve B P) C W w) dir d0 pr stop oot clock almStop gV gS iS) :=
  panoc_satisfies_inner_contract_lazy (pbOf B C D) B.n B.m (vtProblemRaw (resolve B P) C W w)
    (sound_vtable_meets_oracleContractLazy B hB C D hbox (resolve B P)
      (Alpaqa.Props.C04.resolve_correct B hB P hP) W w hw hWl)
    dir d0 hD pr hp hlazy nf K hF hcrit stop hmono oot clock almStop gV gS iS

/-! ### Either mode over the raw slots: the law on well-sized arguments only, nothing about the workspace -/

/-- **The raw slots of every sound vtable meet `OracleContractOn`** — `vtProblemRaw`: nothing is
    completed off the domain (there is no guard on `x.length`).  About the workspace content `W` of
    `eval_ψ_grad_ψ` (which the C04 vtable model does not contain):
    * `hWl` — it has size `m` on well-sized arguments (`work_m` is an `m`-vector);
    * `hW`  — **only if `eager_gradient_eval` is set**: on well-sized arguments it is the `ŷ` that the
      vtable's own `eval_ψ` returns.  With lazy evaluation its content is arbitrary. -/
theorem sound_vtable_raw_meets_oracleContractOn (B : Basic α) (hB : WF B) (C : BoxC α) (D : BoxD α)
    (hbox : IsBoxProblem B C D) (vt : VTable α) (hvt : vt.Sound B)
    (W : Vec α → Vec α → Vec α → Vec α) (w : Vec α) (hw : w.length = B.m) (eager : Bool)
    (hWl : ∀ x y Sig, x.length = B.n → y.length = B.m → Sig.length = B.m → (W x y Sig).length = B.m)
    (hW : eager = true → ∀ x y Sig, x.length = B.n → y.length = B.m → Sig.length = B.m →
      W x y Sig = (vt.eval_psi x y Sig w).2) :
    OracleContractOn (pbOf B C D) B.n B.m eager (vtProblemRaw vt C W w) := by
  have hL := sound_vtable_meets_oracleContractLazy B hB C D hbox vt hvt W w hw hWl
  refine ⟨hL.yhat, hL.gradL, hL.prox, hL.sized, ?_⟩
  intro he y Sig hy hS x hx
  exact ⟨hW he x y Sig hx hy hS, (sound_sized B hB C D hbox vt hvt w y Sig x hw hy hS hx).2.2.2.2⟩

/-- **The raw slots of the constructed vtable `resolve B P` meet `OracleContractOn`, for every
    provider mix** — the workspace hypothesis stated against the closed form `ŷ = yhatSpec` (C04),
    demanded in eager mode only, on well-sized arguments only. -/
theorem resolve_raw_meets_oracleContractOn (B : Basic α) (hB : WF B) (P : Provided α) (hP : P.Sound B)
    (C : BoxC α) (D : BoxD α) (hbox : IsBoxProblem B C D)
    (W : Vec α → Vec α → Vec α → Vec α) (w : Vec α) (hw : w.length = B.m) (eager : Bool)
    (hWl : ∀ x y Sig, x.length = B.n → y.length = B.m → Sig.length = B.m → (W x y Sig).length = B.m)
    (hW : eager = true → ∀ x y Sig, x.length = B.n → y.length = B.m → Sig.length = B.m →
      W x y Sig = yhatSpec B.proj_diff_g (B.g x) y Sig) :
    OracleContractOn (pbOf B C D) B.n B.m eager (vtProblemRaw (resolve B P) C W w) :=
  sound_vtable_raw_meets_oracleContractOn B hB C D hbox (resolve B P)
    (Alpaqa.Props.C04.resolve_correct B hB P hP) W w hw eager hWl (fun he x y Sig hx hy hS => by
      rw [hW he x y Sig hx hy hS,
        (Alpaqa.Props.C04.resolve_correct B hB P hP).psi x y Sig w ⟨hx, hy, Or.inr hS⟩ hw]
      rfl)

/-- **The raw slots of every sound vtable meet `OracleContractGrad`, whatever `eval_ψ_grad_ψ` leaves in
    its workspace**: `W` is arbitrary of size `m` — in *either* mode.  The gradient half of the law
    (`GradLawOn`) is a consequence of `Sound` alone (`eval_ψ_grad_ψ`'s gradient and `eval_grad_L ∘ eval_ψ`
    are both the closed form `specGradPsi` on well-sized arguments). -/
theorem sound_vtable_raw_meets_oracleContractGrad (B : Basic α) (hB : WF B) (C : BoxC α) (D : BoxD α)
    (hbox : IsBoxProblem B C D) (vt : VTable α) (hvt : vt.Sound B)
    (W : Vec α → Vec α → Vec α → Vec α) (w : Vec α) (hw : w.length = B.m) (eager : Bool)
    (hWl : ∀ x y Sig, x.length = B.n → y.length = B.m → Sig.length = B.m → (W x y Sig).length = B.m) :
    OracleContractGrad (pbOf B C D) B.n B.m eager (vtProblemRaw vt C W w) := by
  have hL := sound_vtable_meets_oracleContractLazy B hB C D hbox vt hvt W w hw hWl
  refine ⟨hL.yhat, hL.gradL, hL.prox, hL.sized, ?_⟩
  intro _ y Sig hy hS x hx
  exact (sound_sized B hB C D hbox vt hvt w y Sig x hw hy hS hx).2.2.2.2

/-- … in particular those of the constructed vtable `resolve B P`, for every provider mix. -/
theorem resolve_raw_meets_oracleContractGrad (B : Basic α) (hB : WF B) (P : Provided α) (hP : P.Sound B)
    (C : BoxC α) (D : BoxD α) (hbox : IsBoxProblem B C D)
    (W : Vec α → Vec α → Vec α → Vec α) (w : Vec α) (hw : w.length = B.m) (eager : Bool)
    (hWl : ∀ x y Sig, x.length = B.n → y.length = B.m → Sig.length = B.m → (W x y Sig).length = B.m) :
    OracleContractGrad (pbOf B C D) B.n B.m eager (vtProblemRaw (resolve B P) C W w) :=
  sound_vtable_raw_meets_oracleContractGrad B hB C D hbox (resolve B P)
    (Alpaqa.Props.C04.resolve_correct B hB P hP) W w hw eager hWl

/-- **PANOC over the RAW slots of the constructed vtable satisfies ALM's inner-solver contract, for
    every provider mix, with `eager_gradient_eval` arbitrary and the workspace content arbitrary.**
    `vtProblemRaw (resolve B P) C W w` is the vtable as it is: `eval_ψ_grad_ψ` is the slot at *every*
    argument (no guard, no completion off the domain), `W x y Σ` is whatever it leaves in `work_m`.
    **The only thing assumed about `W` is its size** (`hWl`: `work_m` is an `m`-vector — in the C++ it
    is the caller's buffer `ŷx̂(m)`, which the callee cannot resize).  In particular nothing is required
    of a user-supplied `eval_ψ_grad_ψ` beyond C04's `Sound` (value and gradient equal the closed
    forms on well-sized arguments): PANOC with `eager_gradient_eval` does not read `work_m` as `ŷ`
    (`panoc_satisfies_inner_contract_grad`).  Nothing is assumed about any slot at arguments of the
    wrong size.  Remaining hypotheses as in `panoc_on_vtable_satisfies_inner_contract`.
    (`panoc_on_vtable_satisfies_inner_contract_lazy` is the special case `eager_gradient_eval = false`.) -/
theorem panoc_on_raw_vtable_satisfies_inner_contract (B : Basic α) (hB : WF B) (P : Provided α)
    (hP : P.Sound B) (C : BoxC α) (D : BoxD α) (hbox : IsBoxProblem B C D)
    (W : Vec α → Vec α → Vec α → Vec α) (w : Vec α) (hw : w.length = B.m)
    (hWl : ∀ x y Sig, x.length = B.n → y.length = B.m → Sig.length = B.m → (W x y Sig).length = B.m)
    (dir : Direction Dd α) (d0 : Dd) (hD : DirSized B.n dir d0) (pr : Panoc.Params α) (hp : ParamsOK pr)
    (nf K : Nat) (hF : FuelOK pr nf K) (hcrit : pr.stopCrit = .ApproxKKT)
    (stop : InnerCall α → Nat → Bool) (hmono : ∀ c, StopMono (stop c))
    (oot clock almStop : InnerCall α → Bool) (gV : Vec α) (gS iS : α) :
    InnerContract (pbOf B C D) B.n B.m
      (panocInner (vtProblemRaw (resolve B P) C W w) dir d0 pr stop oot clock almStop gV gS iS) :=
  panoc_satisfies_inner_contract_grad (pbOf B C D) B.n B.m (vtProblemRaw (resolve B P) C W w) pr
    (resolve_raw_meets_oracleContractGrad B hB P hP C D hbox W w hw pr.eagerGradientEval hWl)
    dir d0 hD hp nf K hF hcrit stop hmono oot clock almStop gV gS iS

/-- **C01 end to end over the raw slots (`m ≠ 0`), either mode, any workspace content**: ALM over the
    PANOC loop model over the raw vtable `resolve B P` returns `Converged` only with the KKT
    certificate of the returned pair. -/
theorem alm_panoc_on_raw_vtable_certifies_kkt (nan inf : α) (acc0 : A) (accAdd : A → Panoc.Stats α → A)
    (Pa : ALMParams α) (prob : C07.Problem α) (x y : Vec α) (Sig0 : Option (Vec α))
    (B : Basic α) (hB : WF B) (P : Provided α) (hP : P.Sound B) (C : BoxC α) (D : BoxD α)
    (hbox : IsBoxProblem B C D)
    (W : Vec α → Vec α → Vec α → Vec α) (w : Vec α) (hw : w.length = B.m) (hpm : prob.m = B.m)
    (hWl : ∀ x y Sig, x.length = B.n → y.length = B.m → Sig.length = B.m → (W x y Sig).length = B.m)
    (dir : Direction Dd α) (d0 : Dd) (hD : DirSized B.n dir d0) (pr : Panoc.Params α) (hp : ParamsOK pr)
    (nf K : Nat) (hF : FuelOK pr nf K) (hcrit : pr.stopCrit = .ApproxKKT)
    (stop : InnerCall α → Nat → Bool) (hmono : ∀ c, StopMono (stop c))
    (oot clock almStop : InnerCall α → Bool) (gV : Vec α) (gS iS : α)
    (hm : prob.m ≠ 0)
    (hC : ∀ b ∈ C, ∀ l u, b.1 = some l → b.2 = some u → l ≤ u)
    (hDok : ∀ i, i < prob.m → BndOK (lbAt D i) (ubAt D i))
    (hmin : 0 < Pa.min_penalty) (hmm : Pa.min_penalty ≤ Pa.max_penalty)
    (hlen : SigmaLen prob.m Sig0) (hx : x.length = B.n) (hy : y.length = prob.m)
    (hconv : (run nan inf acc0 accAdd Pa prob x y Sig0
      (panocInner (vtProblemRaw (resolve B P) C W w) dir d0 pr stop oot clock almStop gV gS iS)).stats.status
        = .Converged) :
    KKTCert (pbOf B C D) prob.m Pa.tolerance Pa.dual_tolerance
      (run nan inf acc0 accAdd Pa prob x y Sig0
        (panocInner (vtProblemRaw (resolve B P) C W w) dir d0 pr stop oot clock almStop gV gS iS)).x
      (run nan inf acc0 accAdd Pa prob x y Sig0
        (panocInner (vtProblemRaw (resolve B P) C W w) dir d0 pr stop oot clock almStop gV gS iS)).y := by
  have hI := panoc_on_raw_vtable_satisfies_inner_contract B hB P hP C D hbox W w hw hWl dir d0 hD pr hp
    nf K hF hcrit stop hmono oot clock almStop gV gS iS
  rw [← hpm] at hI
  exact alm_converged_certifies_kkt nan inf acc0 accAdd Pa prob x y Sig0 _ (pbOf B C D) B.n hI hm hC hDok
    hmin hmm hlen hx hy hconv

end corollaries

/-! ### Each shipped direction provider (`Props/DirectionsLoop`) over the constructed vtable -/
section providers
open Alpaqa.Directions Alpaqa.Props.Directions Alpaqa.Props.DirectionsLoop
variable [PowLike α] [HasNaN α]

/-- PANOC + `NoopDirection` over `resolve B P`, every provider mix of the *problem* functions. -/
theorem panoc_noop_on_vtable_inner_contract (B : Basic α) (hB : WF B) (P : Provided α)
    (hP : P.Sound B) (C : BoxC α) (D : BoxD α) (hbox : IsBoxProblem B C D) (w : Vec α)
    (hw : w.length = B.m)
    (d0 : Latch Noop.State) (pr : Panoc.Params α) (hp : ParamsOK pr) (nf K : Nat) (hF : FuelOK pr nf K)
    (hcrit : pr.stopCrit = .ApproxKKT)
    (stop : InnerCall α → Nat → Bool) (hmono : ∀ c, StopMono (stop c))
    (oot clock almStop : InnerCall α → Bool) (gV : Vec α) (gS iS : α) :
    InnerContract (pbOf B C D) B.n B.m
      (panocInner (vtProblem (resolve B P) C w) noopDir d0 pr stop oot clock almStop gV gS iS) :=
  panoc_inner_contract_noop _ _ _ _ (resolve_meets_oracleContract B hB P hP C D hbox w hw) d0 pr hp nf K
    hF hcrit stop hmono oot clock almStop gV gS iS

/-- PANOC + `LBFGSDirection` (`memory ≥ 1`, any configuration, any initial state). -/
theorem panoc_lbfgs_on_vtable_inner_contract (B : Basic α) (hB : WF B) (P : Provided α)
    (hP : P.Sound B) (C : BoxC α) (D : BoxD α) (hbox : IsBoxProblem B C D) (w : Vec α)
    (hw : w.length = B.m)
    (c : LbfgsCfg α) (hm : 1 ≤ c.accel.memory) (d0 : Latch (Lbfgs.State α))
    (pr : Panoc.Params α) (hp : ParamsOK pr) (nf K : Nat) (hF : FuelOK pr nf K)
    (hcrit : pr.stopCrit = .ApproxKKT)
    (stop : InnerCall α → Nat → Bool) (hmono : ∀ c, StopMono (stop c))
    (oot clock almStop : InnerCall α → Bool) (gV : Vec α) (gS iS : α) :
    InnerContract (pbOf B C D) B.n B.m
      (panocInner (vtProblem (resolve B P) C w) (lbfgsDir c B.n) d0 pr stop oot clock almStop gV gS iS) :=
  panoc_inner_contract_lbfgs _ _ _ _ (resolve_meets_oracleContract B hB P hP C D hbox w hw) c hm d0 pr hp
    nf K hF hcrit stop hmono oot clock almStop gV gS iS

/-- PANOC + `StructuredLBFGSDirection` (`Ps`: what the provider itself reads of the problem, of the
    same dimension). -/
theorem panoc_slbfgs_on_vtable_inner_contract (B : Basic α) (hB : WF B) (P : Provided α)
    (hP : P.Sound B) (C : BoxC α) (D : BoxD α) (hbox : IsBoxProblem B C D) (w : Vec α)
    (hw : w.length = B.m)
    (Ps : SProblem α) (hn : Ps.n = B.n) (c : SCfg α) (hm : 1 ≤ c.accel.memory)
    (hok : slbfgsInitThrows c.hvf c.fd c.fullAug Ps.provInactive Ps.provHessL Ps.provHessPsi Ps.provBoxD
      Ps.provGradGi = false)
    (d0 : Latch (SLbfgs.State α))
    (pr : Panoc.Params α) (hp : ParamsOK pr) (nf K : Nat) (hF : FuelOK pr nf K)
    (hcrit : pr.stopCrit = .ApproxKKT)
    (stop : InnerCall α → Nat → Bool) (hmono : ∀ c, StopMono (stop c))
    (oot clock almStop : InnerCall α → Bool) (gV : Vec α) (gS iS : α) :
    InnerContract (pbOf B C D) Ps.n B.m
      (panocInner (vtProblem (resolve B P) C w) (slbfgsDir Ps c) d0 pr stop oot clock almStop gV gS iS) :=
  panoc_inner_contract_slbfgs _ _ Ps _
    (by rw [hn]; exact resolve_meets_oracleContract B hB P hP C D hbox w hw) c hm hok d0 pr hp
    nf K hF hcrit stop hmono oot clock almStop gV gS iS

/-- PANOC + `AndersonDirection`. -/
theorem panoc_anderson_on_vtable_inner_contract (B : Basic α) (hB : WF B) (P : Provided α)
    (hP : P.Sound B) (C : BoxC α) (D : BoxD α) (hbox : IsBoxProblem B C D) (w : Vec α)
    (hw : w.length = B.m)
    (c : AndersonCfg α) (y' Sig' : Vec α) (d0 : Latch (Anderson.State α))
    (pr : Panoc.Params α) (hp : ParamsOK pr) (nf K : Nat) (hF : FuelOK pr nf K)
    (hcrit : pr.stopCrit = .ApproxKKT)
    (stop : InnerCall α → Nat → Bool) (hmono : ∀ c, StopMono (stop c))
    (oot clock almStop : InnerCall α → Bool) (gV : Vec α) (gS iS : α) :
    InnerContract (pbOf B C D) B.n B.m
      (panocInner (vtProblem (resolve B P) C w) (andersonDir c B.n y' Sig') d0 pr stop oot clock almStop
        gV gS iS) :=
  panoc_inner_contract_anderson _ _ _ _ (resolve_meets_oracleContract B hB P hP C D hbox w hw) c y' Sig'
    d0 pr hp nf K hF hcrit stop hmono oot clock almStop gV gS iS

/-! #### … and over the raw slots, either mode, any workspace content
     (`panoc_on_raw_vtable_satisfies_inner_contract`) -/

/-- PANOC + `NoopDirection` over the raw slots of `resolve B P`, `eager_gradient_eval` arbitrary. -/
theorem panoc_noop_on_raw_vtable_inner_contract (B : Basic α) (hB : WF B) (P : Provided α)
    (hP : P.Sound B) (C : BoxC α) (D : BoxD α) (hbox : IsBoxProblem B C D)
    (W : Vec α → Vec α → Vec α → Vec α) (w : Vec α) (hw : w.length = B.m) (pr : Panoc.Params α)
    (hWl : ∀ x y Sig, x.length = B.n → y.length = B.m → Sig.length = B.m → (W x y Sig).length = B.m)
    (d0 : Latch Noop.State)
    (hp : ParamsOK pr) (nf K : Nat) (hF : FuelOK pr nf K) (hcrit : pr.stopCrit = .ApproxKKT)
    (stop : InnerCall α → Nat → Bool) (hmono : ∀ c, StopMono (stop c))
    (oot clock almStop : InnerCall α → Bool) (gV : Vec α) (gS iS : α) :
    InnerContract (pbOf B C D) B.n B.m
      (panocInner (vtProblemRaw (resolve B P) C W w) noopDir d0 pr stop oot clock almStop gV gS iS) :=
  panoc_on_raw_vtable_satisfies_inner_contract B hB P hP C D hbox W w hw hWl noopDir d0
    (dirSized_noop B.n d0) pr hp nf K hF hcrit stop hmono oot clock almStop gV gS iS

/-- PANOC + `LBFGSDirection` (`memory ≥ 1`) over the raw slots, either mode. -/
theorem panoc_lbfgs_on_raw_vtable_inner_contract (B : Basic α) (hB : WF B) (P : Provided α)
    (hP : P.Sound B) (C : BoxC α) (D : BoxD α) (hbox : IsBoxProblem B C D)
    (W : Vec α → Vec α → Vec α → Vec α) (w : Vec α) (hw : w.length = B.m) (pr : Panoc.Params α)
    (hWl : ∀ x y Sig, x.length = B.n → y.length = B.m → Sig.length = B.m → (W x y Sig).length = B.m)
    (c : LbfgsCfg α) (hm : 1 ≤ c.accel.memory) (d0 : Latch (Lbfgs.State α))
    (hp : ParamsOK pr) (nf K : Nat) (hF : FuelOK pr nf K) (hcrit : pr.stopCrit = .ApproxKKT)
    (stop : InnerCall α → Nat → Bool) (hmono : ∀ c, StopMono (stop c))
    (oot clock almStop : InnerCall α → Bool) (gV : Vec α) (gS iS : α) :
    InnerContract (pbOf B C D) B.n B.m
      (panocInner (vtProblemRaw (resolve B P) C W w) (lbfgsDir c B.n) d0 pr stop oot clock almStop gV gS iS) :=
  panoc_on_raw_vtable_satisfies_inner_contract B hB P hP C D hbox W w hw hWl (lbfgsDir c B.n) d0
    (dirSized_lbfgs c hm B.n d0) pr hp nf K hF hcrit stop hmono oot clock almStop gV gS iS

/-- PANOC + `StructuredLBFGSDirection` over the raw slots, either mode. -/
theorem panoc_slbfgs_on_raw_vtable_inner_contract (B : Basic α) (hB : WF B) (P : Provided α)
    (hP : P.Sound B) (C : BoxC α) (D : BoxD α) (hbox : IsBoxProblem B C D)
    (W : Vec α → Vec α → Vec α → Vec α) (w : Vec α) (hw : w.length = B.m) (pr : Panoc.Params α)
    (hWl : ∀ x y Sig, x.length = B.n → y.length = B.m → Sig.length = B.m → (W x y Sig).length = B.m)
    (Ps : SProblem α) (hn : Ps.n = B.n) (c : SCfg α) (hm : 1 ≤ c.accel.memory)
    (hok : slbfgsInitThrows c.hvf c.fd c.fullAug Ps.provInactive Ps.provHessL Ps.provHessPsi Ps.provBoxD
      Ps.provGradGi = false)
    (d0 : Latch (SLbfgs.State α))
    (hp : ParamsOK pr) (nf K : Nat) (hF : FuelOK pr nf K) (hcrit : pr.stopCrit = .ApproxKKT)
    (stop : InnerCall α → Nat → Bool) (hmono : ∀ c, StopMono (stop c))
    (oot clock almStop : InnerCall α → Bool) (gV : Vec α) (gS iS : α) :
    InnerContract (pbOf B C D) B.n B.m
      (panocInner (vtProblemRaw (resolve B P) C W w) (slbfgsDir Ps c) d0 pr stop oot clock almStop gV gS iS) :=
  panoc_on_raw_vtable_satisfies_inner_contract B hB P hP C D hbox W w hw hWl (slbfgsDir Ps c) d0
    (by rw [← hn]; exact dirSized_slbfgs Ps c hm hok d0) pr hp nf K hF hcrit stop hmono oot clock almStop
    gV gS iS

/-- PANOC + `AndersonDirection` over the raw slots, either mode. -/
theorem panoc_anderson_on_raw_vtable_inner_contract (B : Basic α) (hB : WF B) (P : Provided α)
    (hP : P.Sound B) (C : BoxC α) (D : BoxD α) (hbox : IsBoxProblem B C D)
    (W : Vec α → Vec α → Vec α → Vec α) (w : Vec α) (hw : w.length = B.m) (pr : Panoc.Params α)
    (hWl : ∀ x y Sig, x.length = B.n → y.length = B.m → Sig.length = B.m → (W x y Sig).length = B.m)
    (c : AndersonCfg α) (y' Sig' : Vec α) (d0 : Latch (Anderson.State α))
    (hp : ParamsOK pr) (nf K : Nat) (hF : FuelOK pr nf K) (hcrit : pr.stopCrit = .ApproxKKT)
    (stop : InnerCall α → Nat → Bool) (hmono : ∀ c, StopMono (stop c))
    (oot clock almStop : InnerCall α → Bool) (gV : Vec α) (gS iS : α) :
    InnerContract (pbOf B C D) B.n B.m
      (panocInner (vtProblemRaw (resolve B P) C W w) (andersonDir c B.n y' Sig') d0 pr stop oot clock
        almStop gV gS iS) :=
  panoc_on_raw_vtable_satisfies_inner_contract B hB P hP C D hbox W w hw hWl
    (andersonDir c B.n y' Sig') d0 (dirSized_anderson c B.n y' Sig' d0) pr hp nf K hF hcrit stop hmono oot
    clock almStop gV gS iS

end providers

/-! ### Non-vacuity: a closed instance over ℚ (`n = 1`, `m = 1`) -/
section examples
open Alpaqa.Panoc.Example

local instance : Alpaqa.Proofs.C07.NoNaN ℚ := ⟨fun _ => rfl⟩

/-- minimise `(x − 2)²` subject to `x ≥ 0` (box `C`) and `g(x) = x ≤ 1` (box `D`) — the problem of
    `Props/C01_Alm.pbEx`, here given by its *basic functions* `f, ∇f, g, ∇g·y` and the projection
    difference of `D`. -/
def exC1 : BoxC ℚ := [(some 0, none)]
def exD1 : BoxD ℚ := [(none, some 1)]
def exB1 : Basic ℚ where
  n := 1
  m := 1
  f := fun x => (vget x 0 - 2) * (vget x 0 - 2)
  grad_f := fun x => [2 * vget x 0 - 4]
  g := fun x => [vget x 0]
  grad_g_prod := fun _ y => [vget y 0]
  proj_diff_g := boxProjDiff exD1

/-- the problem class supplies exactly `eval_ψ` and `eval_grad_L` (a strict, non-empty subset of the
    seven optional first-order functions); the five others are the library defaults. -/
def exP1 : Provided ℚ := { psi := some (specPsi exB1), grad_L := some (specGradL exB1) }

theorem exB1_wf : WF exB1 where
  len_g := fun _ _ => rfl
  len_grad_f := fun _ _ => rfl
  len_pd := fun z hz => by
    show (boxProjDiff exD1 z).length = 1
    rw [length_boxProjDiff, hz]; rfl
  ggp_nil := fun h => by cases h

theorem exP1_sound : exP1.Sound exB1 where
  f_grad_f := fun u h => by cases h
  f_g := fun u h => by cases h
  grad_f_grad_g_prod := fun u h => by cases h
  grad_L := fun u h x y _ _ => by cases h; rfl
  psi := fun u h x y Sig _ => by cases h; rfl
  grad_psi := fun u h => by cases h
  psi_grad_psi := fun u h => by cases h

theorem exB1_box : IsBoxProblem exB1 exC1 exD1 := ⟨rfl, rfl, fun _ _ => rfl, fun _ _ _ _ => rfl⟩

/-- the mix is what it says: `ψ`, `grad_L` are the problem's, and the `grad_ψ`, `ψ_grad_ψ`, `f_g`
    slots PANOC reaches hold the *generated defaults* calling back through the final vtable
    (`Props/C04.resolve_fixpoint`) -/
example : exP1.psi.isSome = true ∧ exP1.grad_L.isSome = true ∧ exP1.grad_psi.isNone = true ∧
    exP1.psi_grad_psi.isNone = true ∧ exP1.f_g.isNone = true ∧ exP1.f_grad_f.isNone = true ∧
    exP1.grad_f_grad_g_prod.isNone = true ∧
    (resolve exB1 exP1).eval_grad_psi = Alpaqa.Gen.C04.default_eval_grad_psi (resolve exB1 exP1) ∧
    (resolve exB1 exP1).eval_psi_grad_psi
      = Alpaqa.Gen.C04.default_eval_psi_grad_psi (resolve exB1 exP1) ∧
    (resolve exB1 exP1).eval_f_g = Alpaqa.Gen.C04.default_eval_f_g (resolve exB1 exP1) :=
  ⟨rfl, rfl, rfl, rfl, rfl, rfl, rfl, rfl, rfl, rfl⟩

/-- **the contract theorem applies**: every hypothesis (`WF`, `Sound`, `IsBoxProblem`) discharged -/
theorem exVt_contract :
    OracleContract (pbOf exB1 exC1 exD1) 1 1 (vtProblem (resolve exB1 exP1) exC1 [0]) :=
  resolve_meets_oracleContract exB1 exB1_wf exP1 exP1_sound exC1 exD1 exB1_box [0] rfl

/-- the closed forms it speaks about are the expected ones: `g(x) = x`, `∇L(x, y) = 2x − 4 + y` -/
example (a b : ℚ) : (pbOf exB1 exC1 exD1).g [a] = [a] ∧
    (pbOf exB1 exC1 exD1).gradL [a] [b] = [2 * a - 4 + b] := ⟨rfl, rfl⟩

/-- PANOC parameters of `Props/C01_Alm` (ApproxKKT criterion); `prExE`: eager gradient evaluation -/
def prExE : Panoc.Params ℚ := { prEx with eagerGradientEval := true }

theorem prEx_ok : ParamsOK prEx :=
  ⟨by norm_num [prEx, prq], by norm_num [prEx, prq], by norm_num [prEx, prq], by norm_num [prEx, prq]⟩
theorem prEx_fuel : FuelOK prEx 1 9 := by
  refine ⟨?_, ?_, ?_, ?_, ?_, by norm_num, ?_, ?_⟩ <;> norm_num [prEx, prq, Lstart]
theorem prExE_ok : ParamsOK prExE :=
  ⟨by norm_num [prExE, prEx, prq], by norm_num [prExE, prEx, prq], by norm_num [prExE, prEx, prq],
    by norm_num [prExE, prEx, prq]⟩
theorem prExE_fuel : FuelOK prExE 1 9 := by
  refine ⟨?_, ?_, ?_, ?_, ?_, by norm_num, ?_, ?_⟩ <;> norm_num [prExE, prEx, prq, Lstart]

/-- the inner solver: the PANOC loop model over the vtable `resolve exB1 exP1` -/
def exInner (pr : Panoc.Params ℚ) : InnerCall ℚ → InnerResult ℚ (Panoc.Stats ℚ) :=
  panocInner (vtProblem (resolve exB1 exP1) exC1 [0]) dirNoop () pr (fun _ _ => false)
    (fun _ => false) (fun _ => false) (fun _ => false) [] 0 0

/-- **PANOC over the constructed vtable satisfies the inner contract — no hypothesis left**
    (lazy and eager gradient evaluation) -/
theorem exVt_inner (pr : Panoc.Params ℚ) (hp : ParamsOK pr) (hF : FuelOK pr 1 9)
    (hc : pr.stopCrit = .ApproxKKT) :
    InnerContract (pbOf exB1 exC1 exD1) 1 1 (exInner pr) :=
  panoc_on_vtable_satisfies_inner_contract exB1 exB1_wf exP1 exP1_sound exC1 exD1 exB1_box [0] rfl
    dirNoop () (dirSized_noop 1 ()) pr hp 1 9 hF hc (fun _ _ => false) (fun _ s t _ h => by cases h)
    (fun _ => false) (fun _ => false) (fun _ => false) [] 0 0

/-- a well-formed inner call from `x = 1/2` (`y = 2`, `Σ = 1`, tolerance `1/10`), and one at the
    solution `x = 1` -/
def exCall : InnerCall ℚ := ⟨[1/2], [2], [1], [7], ⟨true, 1/10, 0, false⟩⟩
def exCall0 : InnerCall ℚ := ⟨[1], [2], [1], [7], ⟨true, 1/10, 0, false⟩⟩

/-- not vacuous: from `x = 1/2` the run over the vtable takes two iterations (through
    `eval_ψ_grad_ψ`, `eval_grad_ψ` [defaults], `eval_ψ`, `eval_grad_L` [supplied]) and reports
    `Converged` with `ε = 36501/1024000 ≤ 1/10` near the solution `x = 1`, `y = 2` … -/
example : (exInner prEx exCall).status = .Converged ∧ (exInner prEx exCall).stats.iterations = 2 ∧
    (exInner prEx exCall).eps = 36501/1024000 ∧ (exInner prEx exCall).x = [1011833/1024000] ∧
    (exInner prEx exCall).y = [2035833/1024000] ∧ (exInner prEx exCall).errz = [-12167/1024000] := by
  decide +kernel

/-- … the same with eager gradient evaluation (`∇ψ(x̂)` from the default `eval_ψ_grad_ψ`) … -/
example : (exInner prExE exCall).status = .Converged ∧ (exInner prExE exCall).stats.iterations = 2 ∧
    (exInner prExE exCall).eps = 36501/1024000 ∧ (exInner prExE exCall).x = [1011833/1024000] ∧
    (exInner prExE exCall).y = [2035833/1024000] ∧ (exInner prExE exCall).errz = [-12167/1024000] := by
  decide +kernel

/-- … and started at the solution it stays there: `x = 1`, `y = 2`, `err_z = 0`, `ε = 0` -/
example : (exInner prEx exCall0).status = .Converged ∧ (exInner prEx exCall0).x = [1] ∧
    (exInner prEx exCall0).y = [2] ∧ (exInner prEx exCall0).errz = [0] ∧
    (exInner prEx exCall0).eps = 0 := by
  decide +kernel

theorem exC1_ok : ∀ b ∈ exC1, ∀ l u, b.1 = some l → b.2 = some u → l ≤ u := by
  intro b hb l u h1 h2
  simp only [exC1, List.mem_singleton] at hb
  subst hb; cases h2

theorem exD1_ok : ∀ i, i < probEx.m → BndOK (lbAt exD1 i) (ubAt exD1 i) := by
  intro i hi a b ha hb
  have : i = 0 := by simp [probEx] at hi; omega
  subst this
  simp [exD1, lbAt] at ha

/-- **the whole stack, closed**: ALM (`Props/C07` model) over the PANOC loop model over the
    constructed vtable of a problem supplying `ψ` and `grad_L` returns `Converged`, and
    `alm_panoc_on_vtable_certifies_kkt` — every hypothesis discharged — certifies the result. -/
example : KKTCert (pbOf exB1 exC1 exD1) 1 (1/10) (1/100)
    (run (0 : ℚ) 0 (Panoc.stats0 (0:ℚ)) (fun _ s => s) almEx probEx [1/2] [2] none (exInner prEx)).x
    (run (0 : ℚ) 0 (Panoc.stats0 (0:ℚ)) (fun _ s => s) almEx probEx [1/2] [2] none (exInner prEx)).y :=
  alm_panoc_on_vtable_certifies_kkt (0 : ℚ) 0 (Panoc.stats0 (0:ℚ)) (fun _ s => s) almEx probEx [1/2] [2] none
    exB1 exB1_wf exP1 exP1_sound exC1 exD1 exB1_box [0] rfl rfl
    dirNoop () (dirSized_noop 1 ()) prEx prEx_ok 1 9 prEx_fuel rfl (fun _ _ => false)
    (fun _ s t _ h => by cases h) (fun _ => false) (fun _ => false) (fun _ => false) [] 0 0
    (by decide) exC1_ok exD1_ok (by norm_num [almEx]) (by norm_num [almEx]) trivial rfl rfl
    (by decide +kernel)

/-- the certified pair of that run (two outer iterations) and of the run from the solution -/
example : (run (0 : ℚ) 0 (Panoc.stats0 (0:ℚ)) (fun _ s => s) almEx probEx [1/2] [2] none
      (exInner prEx)).x = [82564851/81920000] ∧
    (run (0 : ℚ) 0 (Panoc.stats0 (0:ℚ)) (fun _ s => s) almEx probEx [1/2] [2] none
      (exInner prEx)).y = [41361511/20480000] ∧
    (run (0 : ℚ) 0 (Panoc.stats0 (0:ℚ)) (fun _ s => s) almEx probEx [1] [2] none
      (exInner prEx)).stats.status = .Converged ∧
    (run (0 : ℚ) 0 (Panoc.stats0 (0:ℚ)) (fun _ s => s) almEx probEx [1] [2] none
      (exInner prEx)).x = [1] ∧
    (run (0 : ℚ) 0 (Panoc.stats0 (0:ℚ)) (fun _ s => s) almEx probEx [1] [2] none
      (exInner prEx)).y = [2] := by decide +kernel

/-- the two extreme mixes on the same problem: everything a library default / everything supplied -/
example :
    OracleContract (pbOf exB1 exC1 exD1) 1 1 (vtProblem (resolve exB1 {}) exC1 [0]) ∧
    OracleContract (pbOf exB1 exC1 exD1) 1 1 (vtProblem (resolve exB1 (fullProvided exB1)) exC1 [0]) :=
  ⟨defaults_meet_oracleContract exB1 exB1_wf exC1 exD1 exB1_box [0] rfl,
   resolve_meets_oracleContract exB1 exB1_wf _ (sound_full exB1) exC1 exD1 exB1_box [0] rfl⟩

/-- all defaults, all supplied, and the `{ψ, grad_L}` mix compute the same run -/
example :
    (panocInner (vtProblem (resolve exB1 {}) exC1 [0]) dirNoop () prEx (fun _ _ => false)
      (fun _ => false) (fun _ => false) (fun _ => false) [] 0 0 exCall).x = (exInner prEx exCall).x ∧
    (panocInner (vtProblem (resolve exB1 (fullProvided exB1)) exC1 [0]) dirNoop () prEx (fun _ _ => false)
      (fun _ => false) (fun _ => false) (fun _ => false) [] 0 0 exCall).x = (exInner prEx exCall).x := by
  decide +kernel

/-- an `m = 0` problem (`n = 1`, box `x ≥ 0`, no general constraints, `∇g·y` the zero vector),
    supplying only `f_grad_f`: the contract, and ALM's `m = 0` path certified end to end -/
def exB0 : Basic ℚ where
  n := 1
  m := 0
  f := fun x => (vget x 0 - 2) * (vget x 0 - 2)
  grad_f := fun x => [2 * vget x 0 - 4]
  g := fun _ => []
  grad_g_prod := fun _ _ => [0]
  proj_diff_g := boxProjDiff []
def exP0 : Provided ℚ := { f_grad_f := some (specFGradF exB0) }

theorem exB0_wf : WF exB0 where
  len_g := fun _ _ => rfl
  len_grad_f := fun _ _ => rfl
  len_pd := fun z hz => by
    show (boxProjDiff [] z).length = 0
    rw [length_boxProjDiff]; simp
  ggp_nil := fun _ _ _ => rfl

theorem exP0_sound : exP0.Sound exB0 where
  f_grad_f := fun u h x _ => by cases h; rfl
  f_g := fun u h => by cases h
  grad_f_grad_g_prod := fun u h => by cases h
  grad_L := fun u h => by cases h
  psi := fun u h => by cases h
  grad_psi := fun u h => by cases h
  psi_grad_psi := fun u h => by cases h

theorem exB0_box : IsBoxProblem exB0 exC1 [] := ⟨rfl, rfl, fun _ _ => rfl, fun _ _ _ _ => rfl⟩

example : OracleContract (pbOf exB0 exC1 []) 1 0 (vtProblem (resolve exB0 exP0) exC1 []) :=
  resolve_meets_oracleContract exB0 exB0_wf exP0 exP0_sound exC1 [] exB0_box [] rfl

/-- the inner solver and the ALM problem record (`m = 0`) of that problem -/
def exInner0 : InnerCall ℚ → InnerResult ℚ (Panoc.Stats ℚ) :=
  panocInner (vtProblem (resolve exB0 exP0) exC1 []) dirNoop () prEx (fun _ _ => false)
    (fun _ => false) (fun _ => false) (fun _ => false) [] 0 0
def probEx0 : C07.Problem ℚ := ⟨0, [], [], 0, 0, []⟩

/-- **`m = 0`, closed**: ALM over PANOC over the constructed vtable from `x = 1/2` returns `Converged`
    at `x = 1597/800` (solution `x = 2`; tolerance `1/10`), certified by
    `alm_m0_panoc_on_vtable_certifies_kkt` with every hypothesis discharged -/
example : KKTCert (pbOf exB0 exC1 []) 0 (1/10) (1/100)
    (run (0 : ℚ) 0 (Panoc.stats0 (0:ℚ)) (fun _ s => s) almEx probEx0 [1/2] [] none exInner0).x
    (run (0 : ℚ) 0 (Panoc.stats0 (0:ℚ)) (fun _ s => s) almEx probEx0 [1/2] [] none exInner0).y :=
  alm_m0_panoc_on_vtable_certifies_kkt (0 : ℚ) 0 (Panoc.stats0 (0:ℚ)) (fun _ s => s) almEx probEx0 [1/2] []
    none exB0 exB0_wf exP0 exP0_sound exC1 [] exB0_box rfl
    dirNoop () (dirSized_noop 1 ()) prEx prEx_ok 1 9 prEx_fuel rfl (fun _ _ => false)
    (fun _ s t _ h => by cases h) (fun _ => false) (fun _ => false) (fun _ => false) [] 0 0
    rfl (by decide) exC1_ok (by norm_num [almEx]) (by norm_num [almEx]) rfl rfl (by decide +kernel)

example : (run (0 : ℚ) 0 (Panoc.stats0 (0:ℚ)) (fun _ s => s) almEx probEx0 [1/2] [] none exInner0).x
    = [1597/800] := by decide +kernel

/-- the lazy theorem on the raw slots, with junk in the workspace of `eval_ψ_grad_ψ` -/
example :
    InnerContract (pbOf exB1 exC1 exD1) 1 1
      (panocInner (vtProblemRaw (resolve exB1 exP1) exC1 (fun _ _ _ => [12345]) [0]) dirNoop () prEx
        (fun _ _ => false) (fun _ => false) (fun _ => false) (fun _ => false) [] 0 0) :=
  panoc_on_vtable_satisfies_inner_contract_lazy exB1 exB1_wf exP1 exP1_sound exC1 exD1 exB1_box
    (fun _ _ _ => [12345]) [0] rfl (fun _ _ _ _ _ _ => rfl)
    dirNoop () (dirSized_noop 1 ()) prEx prEx_ok rfl 1 9 prEx_fuel rfl (fun _ _ => false)
    (fun _ s t _ h => by cases h) (fun _ => false) (fun _ => false) (fun _ => false) [] 0 0

/-! #### eager gradient evaluation over the RAW slots (`panoc_on_raw_vtable_satisfies_inner_contract`) -/

/-- a problem class that supplies its own `eval_ψ_grad_ψ` (and `eval_ψ`): the closed form on
    `x ∈ ℝ¹`, **junk of the wrong size elsewhere** — exactly what C04's `Sound` allows (it speaks
    about well-sized arguments only) -/
def exP2 : Provided ℚ :=
  { psi := some (specPsi exB1),
    psi_grad_psi := some (fun x y Sig =>
      if x.length = 1 then specPsiGradPsi exB1 x y Sig else (12345, [7, 7, 7])) }

theorem exP2_sound : exP2.Sound exB1 where
  f_grad_f := fun u h => by cases h
  f_g := fun u h => by cases h
  grad_f_grad_g_prod := fun u h => by cases h
  grad_L := fun u h => by cases h
  psi := fun u h x y Sig _ => by cases h; rfl
  grad_psi := fun u h => by cases h
  psi_grad_psi := fun u h x y Sig ha => by
    cases h
    have hx : x.length = 1 := ha.1
    simp [hx]

/-- what that `eval_ψ_grad_ψ` leaves in `work_m`: `ŷ(x)` on `x ∈ ℝ¹`, junk of the wrong size
    elsewhere -/
def exW2 (x y Sig : Vec ℚ) : Vec ℚ :=
  if x.length = 1 then yhatSpec exB1.proj_diff_g (exB1.g x) y Sig else [12345, 678]

theorem exW2_len : ∀ x y Sig : Vec ℚ, x.length = exB1.n → y.length = exB1.m → Sig.length = exB1.m →
    (exW2 x y Sig).length = exB1.m := by
  intro x y Sig hx hy hS
  have hx' : x.length = 1 := hx
  simp only [exW2, hx', if_true]
  rw [length_yhatSpec]; exact hy

theorem exW2_yhat : ∀ x y Sig : Vec ℚ, x.length = exB1.n → y.length = exB1.m → Sig.length = exB1.m →
    exW2 x y Sig = yhatSpec exB1.proj_diff_g (exB1.g x) y Sig := by
  intro x y Sig hx hy hS
  have hx' : x.length = 1 := hx
  simp only [exW2, hx', if_true]

/-- the raw slots of that vtable **violate the unrestricted `OracleLaw`** (at `x = []`: the gradient
    slot returns a 3-vector, `eval_grad_L` a 1-vector) — `OracleContract` is not available for them,
    `panoc_satisfies_inner_contract` does not apply … -/
example : ¬ OracleLaw (vtProblemRaw (resolve exB1 exP2) exC1 exW2 [0] [2] [1]) := by
  intro h
  have h1 := congrArg List.length (h []).2
  revert h1
  decide +kernel

/-- … **but the relativised contract holds, in eager mode**: `OracleContractOn … true` (workspace
    `exW2`: `ŷ` on the domain) -/
theorem exVt2_contractOn :
    OracleContractOn (pbOf exB1 exC1 exD1) 1 1 true (vtProblemRaw (resolve exB1 exP2) exC1 exW2 [0]) :=
  resolve_raw_meets_oracleContractOn exB1 exB1_wf exP2 exP2_sound exC1 exD1 exB1_box exW2 [0] rfl true
    exW2_len (fun _ => exW2_yhat)

/-- the same slots with **junk in the workspace everywhere** (`work_m = [12345]`, also on `ℝ¹`) violate
    even the relativised full law `OracleLawOn 1` (at `x = [1/2]`: `ŷ = [3/2] ≠ [12345]`) … -/
example : ¬ OracleLawOn 1 (vtProblemRaw (resolve exB1 exP2) exC1 (fun _ _ _ => [12345]) [0] [2] [1]) := by
  intro h
  have h1 := (h [1/2] rfl).1
  revert h1
  decide +kernel

/-- … the gradient half alone holds (`OracleContractGrad`, eager), which is all PANOC needs -/
theorem exVt2_contractGrad :
    OracleContractGrad (pbOf exB1 exC1 exD1) 1 1 true
      (vtProblemRaw (resolve exB1 exP2) exC1 (fun _ _ _ => [12345]) [0]) :=
  resolve_raw_meets_oracleContractGrad exB1 exB1_wf exP2 exP2_sound exC1 exD1 exB1_box _ [0] rfl true
    (fun _ _ _ _ _ _ => rfl)

/-- the inner solver over the raw slots, junk in the workspace of `eval_ψ_grad_ψ` -/
def exInnerRaw (pr : Panoc.Params ℚ) : InnerCall ℚ → InnerResult ℚ (Panoc.Stats ℚ) :=
  panocInner (vtProblemRaw (resolve exB1 exP2) exC1 (fun _ _ _ => [12345]) [0]) dirNoop () pr
    (fun _ _ => false) (fun _ => false) (fun _ => false) (fun _ => false) [] 0 0

/-- **PANOC with `eager_gradient_eval = true` over the raw slots — a user-supplied `eval_ψ_grad_ψ`
    that is junk off the domain and leaves junk in `work_m` — satisfies the inner contract; no
    hypothesis left** (`prExE`; the same statement holds for `prEx`, lazy) -/
theorem exVt2_inner_eager : InnerContract (pbOf exB1 exC1 exD1) 1 1 (exInnerRaw prExE) :=
  panoc_on_raw_vtable_satisfies_inner_contract exB1 exB1_wf exP2 exP2_sound exC1 exD1 exB1_box _ [0] rfl
    (fun _ _ _ _ _ _ => rfl)
    dirNoop () (dirSized_noop 1 ()) prExE prExE_ok 1 9 prExE_fuel rfl (fun _ _ => false)
    (fun _ s t _ h => by cases h) (fun _ => false) (fun _ => false) (fun _ => false) [] 0 0

example : prExE.eagerGradientEval = true := rfl

/-- not vacuous, and the junk is not returned: the eager run over the raw slots from `x = 1/2` is the
    run of the guarded problem (`exInner prExE`) — `Converged` after two iterations near `x = 1`,
    `y = 2`, with `y = ŷ(x̂)` re-evaluated by the exit block -/
example : (exInnerRaw prExE exCall).status = .Converged ∧ (exInnerRaw prExE exCall).stats.iterations = 2 ∧
    (exInnerRaw prExE exCall).eps = 36501/1024000 ∧ (exInnerRaw prExE exCall).x = [1011833/1024000] ∧
    (exInnerRaw prExE exCall).y = [2035833/1024000] ∧ (exInnerRaw prExE exCall).errz = [-12167/1024000] := by
  decide +kernel

/-- the whole stack over the raw slots in eager mode, closed: ALM returns `Converged`, certified by
    `alm_panoc_on_raw_vtable_certifies_kkt` with every hypothesis discharged -/
example : KKTCert (pbOf exB1 exC1 exD1) 1 (1/10) (1/100)
    (run (0 : ℚ) 0 (Panoc.stats0 (0:ℚ)) (fun _ s => s) almEx probEx [1/2] [2] none (exInnerRaw prExE)).x
    (run (0 : ℚ) 0 (Panoc.stats0 (0:ℚ)) (fun _ s => s) almEx probEx [1/2] [2] none (exInnerRaw prExE)).y :=
  alm_panoc_on_raw_vtable_certifies_kkt (0 : ℚ) 0 (Panoc.stats0 (0:ℚ)) (fun _ s => s) almEx probEx [1/2] [2]
    none exB1 exB1_wf exP2 exP2_sound exC1 exD1 exB1_box _ [0] rfl rfl (fun _ _ _ _ _ _ => rfl)
    dirNoop () (dirSized_noop 1 ()) prExE prExE_ok 1 9 prExE_fuel rfl (fun _ _ => false)
    (fun _ s t _ h => by cases h) (fun _ => false) (fun _ => false) (fun _ => false) [] 0 0
    (by decide) exC1_ok exD1_ok (by norm_num [almEx]) (by norm_num [almEx]) trivial rfl rfl
    (by decide +kernel)

end examples

end Alpaqa.Props.C01C04
