/-
  DIRS for ZeroFPR — C01's inner-solver contract for the ZeroFPR loop model with the models of the
  four SHIPPED direction providers (`NoopDirection`, `LBFGSDirection`, `StructuredLBFGSDirection`,
  `AndersonDirection`; `Model/Directions.lean`, `Model/DirectionsPanoc.lean`) in place of the toy
  provider `Zerofpr.Example.exDir` of `Props/C01_Zerofpr`.

  The C++ `ZeroFPRSolver<DirectionT>` is instantiated with the very same provider classes as
  `PANOCSolver<DirectionT>`; only the arguments differ.  `zerofpr.tpp` calls
    * `direction.initialize(problem, y, Σ, γₖ, x̂ₖ, prox->x̂, prox->p, prox->grad_ψ)` at `k = 0`
      (PANOC: `γₖ, xₖ, x̂ₖ, pₖ, ∇ψ(xₖ)`) — i.e. the provider is initialised AT `x̂₀` with the prox
      step and gradient taken at `x̂₀`;
    * `direction.has_initial_direction()` at `k = 0` only;
    * `direction.apply(γₖ, x̂ₖ, prox->x̂, prox->p, prox->grad_ψ, q)` (PANOC: `γₖ, xₖ, x̂ₖ, pₖ, ∇ψ(xₖ), q`);
    * `direction.update(γₖ, γₙ, x̂ₖ, xₙ, prox->p, pₙ, prox->grad_ψ, ∇ψ(xₙ))` when
      `update_direction_from_prox_step` (and, after the line search, `τ > 0`), else
      `direction.update(γₖ, γₙ, xₖ, xₙ, pₖ, pₙ, ∇ψ(xₖ), ∇ψ(xₙ))` as in PANOC;
    * `direction.changed_γ(γₙ, γₖ)`, `direction.reset()` as in PANOC.
  `Model/Zerofpr.lean` (`directionStage`, `dirUpdate`, `updateStage`, `lsPass`) passes exactly these
  arguments to a `Zerofpr.Direction` record whose six fields have the SAME types as those of
  `Panoc.Direction` (`init`, `hasInitial`, `apply`, `update`, `changedGamma`, `reset`; the positional
  vector arguments are just "`x`-slot, `x̂`-slot, `p`-slot, `∇ψ`-slot").  So the adapter
  `ofPanocDir` is the field-by-field identity, and every statement of `Props/Directions.lean` about
  what a provider does with its arguments applies with ZeroFPR's arguments substituted.

  What is proved here:
  * `ofPanocDir`, `dirSized_ofPanocDir` — **generic transport**: PANOC's size contract
    `Panoc.DirSized n dir d₀'` (a successful `apply` leaves a `q` of size `n` in every state reachable
    from `d₀'` through `initialize` and well-sized calls, `Panoc.DirReach`) gives ZeroFPR's
    `Zerofpr.DirSized n (ofPanocDir dir) (Panoc.DirReach n dir d₀')`: the invariant `R` is PANOC's
    reachability predicate itself.  (ZeroFPR's arguments are all of size `n`, which is all `DirReach`
    asks of them.)
  * `zerofprDirSized_{noop,lbfgs,slbfgs,anderson}` — the four instances, from
    `Props/Directions.dirSized_{noop,lbfgs,slbfgs,anderson}`; for Noop also with `R = True`
    (`zerofprDirSized_noop_all`).
  * **the start state.**  `Zerofpr.DirSized n dir R` together with `R d₀` (`Proofs/ZerofprSized`) asks
    the size contract of `apply` in *every* state satisfying the loop invariant `R`, including the
    state `d₀` the solver is handed — before `initialize`; a never-initialised L-BFGS / Anderson object
    (buffer of another dimension) does not satisfy it, whereas PANOC's `Proofs/PanocSized` tracks
    `DirOK` (`k = 0 ∧ d = d₀`, or reached).  This is closed here at the level of the RUN:
    `run_start` / `zerofprInner_start` — **a ZeroFPR run does not depend on the provider state it is
    handed except through `initialize`**: if `dir.init d' = dir.init d₀` (as functions of the arguments),
    the runs from `d'` and from `d₀` agree in every field of the result except `dfinal`, the provider
    state at exit (at `k = 0` `directionStage` calls `initialize` first; `iterBody` then overwrites the
    provider state in both of its exits; `headStep` / `exitBlock` do not read it).  The three stateful
    shipped providers' `initialize` ignores the previous buffer (`resize` / `AA.new`), so
    `init (init d …) … = init d …` (`initIdem_{lbfgs,slbfgs,anderson}`), and the run from ANY `d₀` is
    the run from the reachable state `init d₀ 0 0 0 0 0`.
  * `zerofpr_{noop,lbfgs,slbfgs,anderson}_satisfies_inner_contract` — **no provider hypothesis left,
    any initial provider state `d₀`** (e.g. the freshly constructed `⟨Lbfgs.fresh, false⟩`): `memory ≥ 1`
    for the two L-BFGS providers and, for the structured one, the argument checks of `initialize`
    passing — as for PANOC (`Props/DirectionsLoop`).  Generic forms:
    `zerofpr_ofPanocDir_satisfies_inner_contract_of_reached` (start state reachable) and
    `zerofpr_ofPanocDir_satisfies_inner_contract` (`initialize` idempotent, any start state).
  * `alm_zerofpr_{noop,lbfgs,slbfgs,anderson}_certifies_kkt` and `alm_m0_zerofpr_…` — the ALM
    corollaries.
  * closed instances over ℚ: ZeroFPR + `LBFGSDirection` from the freshly constructed provider on
    `pbEx` of `Props/C01_Alm`, `Converged`; ZeroFPR + `NoopDirection`.

  **Not claimed.**  Only the size contract the C01 theorem needs is transported.  The C09 / C10
  *functional* descriptions of the direction along a ZeroFPR run (the analogues of
  `panoc_lbfgs_direction`, `panoc_slbfgs_direction`, `panoc_anderson_direction`: "`q = H·p`" etc. with
  ZeroFPR's arguments) are not restated here.  `StructuredLBFGSDirection`'s model reads the problem
  (`SProblem`) at the point it is handed — for ZeroFPR that is `x̂ₖ` with `∇ψ(x̂ₖ)`; nothing about the
  meaning of the active set at `x̂ₖ` is claimed.  A latched exception (`Latch.threw`) is carried along
  as in the PANOC adapter.
  Real-number semantics (ordered field, no NaN), as everywhere in C01.
-/
import Alpaqa.Props.C01_Zerofpr
import Alpaqa.Props.Directions

namespace Alpaqa.Props.ZerofprDirections
open Alpaqa Alpaqa.Gen Alpaqa.C07 Alpaqa.C04 Alpaqa.Directions Alpaqa.Props.Directions
open Alpaqa.Props.C01 Alpaqa.Props.C07 Alpaqa.Props.C01Alm Alpaqa.Props.C01Zerofpr
set_option linter.unusedSectionVars false
set_option linter.unusedVariables false

section
variable {α A D : Type} [Field α] [LinearOrder α] [IsStrictOrderedRing α]
  [RealLike α] [PowLike α] [HasNaN α] [Alpaqa.Proofs.C07.NoNaN α]

/-- A provider of PANOC's interface as a provider of ZeroFPR's: field by field the same functions
    (the two record types have identical field types; ZeroFPR's loop model passes its own arguments —
    see the file header). -/
def ofPanocDir (dir : Panoc.Direction D α) : Zerofpr.Direction D α where
  init := dir.init
  hasInitial := dir.hasInitial
  apply := dir.apply
  update := dir.update
  changedGamma := dir.changedGamma
  reset := dir.reset

@[simp] theorem ofPanocDir_init (dir : Panoc.Direction D α) : (ofPanocDir dir).init = dir.init := rfl
@[simp] theorem ofPanocDir_hasInitial (dir : Panoc.Direction D α) :
    (ofPanocDir dir).hasInitial = dir.hasInitial := rfl
@[simp] theorem ofPanocDir_apply (dir : Panoc.Direction D α) : (ofPanocDir dir).apply = dir.apply := rfl
@[simp] theorem ofPanocDir_update (dir : Panoc.Direction D α) : (ofPanocDir dir).update = dir.update := rfl
@[simp] theorem ofPanocDir_changedGamma (dir : Panoc.Direction D α) :
    (ofPanocDir dir).changedGamma = dir.changedGamma := rfl
@[simp] theorem ofPanocDir_reset (dir : Panoc.Direction D α) : (ofPanocDir dir).reset = dir.reset := rfl

/-- **Generic transport of the size contract.**  PANOC's contract on the states reachable from `d0'`
    is ZeroFPR's contract with the invariant `R := Panoc.DirReach n dir d0'`: `DirReach` is closed under
    every provider operation on `n`-sized arguments (its constructors), and on it a successful `apply`
    leaves a `q` of size `n` (`Panoc.DirSized`). -/
theorem dirSized_ofPanocDir (n : Nat) (dir : Panoc.Direction D α) (d0' : D)
    (hD : Panoc.DirSized n dir d0') :
    Zerofpr.DirSized n (ofPanocDir dir) (Panoc.DirReach n dir d0') where
  init := fun d γ x xh p g hR hx hxh hp hg => Panoc.DirReach.reinit γ x xh p g hR hx hxh hp hg
  apply_R := fun d γ x xh p g q hR hx hxh hp hg => Panoc.DirReach.apply γ x xh p g q hR hx hxh hp hg
  apply_q := fun d γ x xh p g q hR hx hxh hp hg h => hD d hR γ x xh p g q hx hxh hp hg h
  update_R := fun d γk γn xk xn pk pn gk gn hR h1 h2 h3 h4 h5 h6 =>
    Panoc.DirReach.update γk γn xk xn pk pn gk gn hR h1 h2 h3 h4 h5 h6
  changed_R := fun d γ γ' hR => Panoc.DirReach.changedGamma γ γ' hR
  reset_R := fun d hR => Panoc.DirReach.reset hR

/-- the state after one `initialize` on well-sized arguments is reachable -/
theorem reach_init (n : Nat) (dir : Panoc.Direction D α) (d0' : D) (γ : α) (x xh p g : Vec α)
    (hx : x.length = n) (hxh : xh.length = n) (hp : p.length = n) (hg : g.length = n) :
    Panoc.DirReach n dir d0' (dir.init d0' γ x xh p g) :=
  Panoc.DirReach.init γ x xh p g hx hxh hp hg

/-! ### the four shipped providers meet ZeroFPR's size contract -/

/-- `NoopDirection`, invariant `True`: every state (its `apply` never succeeds). -/
theorem zerofprDirSized_noop_all (n : Nat) :
    Zerofpr.DirSized n (ofPanocDir (noopDir (α := α))) (fun _ => True) where
  init := fun _ _ _ _ _ _ _ _ _ _ _ => trivial
  apply_R := fun _ _ _ _ _ _ _ _ _ _ _ _ => trivial
  apply_q := fun d γ x xh p g q _ _ _ _ _ h =>
    absurd h (by simp [ofPanocDir, noopDir, latchApply, Noop.apply, trivial_flags.2.1])
  update_R := fun _ _ _ _ _ _ _ _ _ _ _ _ _ _ _ _ => trivial
  changed_R := fun _ _ _ _ => trivial
  reset_R := fun _ _ => trivial

theorem zerofprDirSized_noop (n : Nat) (d0' : Latch Noop.State) :
    Zerofpr.DirSized n (ofPanocDir (noopDir (α := α))) (Panoc.DirReach n (noopDir (α := α)) d0') :=
  dirSized_ofPanocDir n noopDir d0' (dirSized_noop n d0')

/-- `LBFGSDirection` (`memory ≥ 1`, rescaling on or off). -/
theorem zerofprDirSized_lbfgs (c : LbfgsCfg α) (hm : 1 ≤ c.accel.memory) (n : Nat)
    (d0' : Latch (Lbfgs.State α)) :
    Zerofpr.DirSized n (ofPanocDir (lbfgsDir c n)) (Panoc.DirReach n (lbfgsDir c n) d0') :=
  dirSized_ofPanocDir n (lbfgsDir c n) d0' (dirSized_lbfgs c hm n d0')

/-- `StructuredLBFGSDirection` (`memory ≥ 1`, the argument checks of `initialize` pass). -/
theorem zerofprDirSized_slbfgs (P : SProblem α) (c : SCfg α) (hm : 1 ≤ c.accel.memory)
    (hok : slbfgsInitThrows c.hvf c.fd c.fullAug P.provInactive P.provHessL P.provHessPsi P.provBoxD
      P.provGradGi = false)
    (d0' : Latch (SLbfgs.State α)) :
    Zerofpr.DirSized P.n (ofPanocDir (slbfgsDir P c)) (Panoc.DirReach P.n (slbfgsDir P c) d0') :=
  dirSized_ofPanocDir P.n (slbfgsDir P c) d0' (dirSized_slbfgs P c hm hok d0')

/-- `AndersonDirection`. -/
theorem zerofprDirSized_anderson (c : AndersonCfg α) (n : Nat) (y' Sig' : Vec α)
    (d0' : Latch (Anderson.State α)) :
    Zerofpr.DirSized n (ofPanocDir (andersonDir c n y' Sig'))
      (Panoc.DirReach n (andersonDir c n y' Sig') d0') :=
  dirSized_ofPanocDir n (andersonDir c n y' Sig') d0' (dirSized_anderson c n y' Sig' d0')

/-! ### the run does not depend on the start state of the provider except through `initialize` -/

/-- everything a `Zerofpr.Result` holds except `dfinal`, the provider state at exit -/
def core (r : Zerofpr.Result α D) : Zerofpr.Stats α × Vec α × Vec α × Vec α × Bool ×
    List (Zerofpr.Callback α) × Nat × Option (Zerofpr.Iterate α) × Bool :=
  (r.stats, r.x, r.y, r.errz, r.wrote, r.callbacks, r.ticks, r.final, r.fuelOut)

open Alpaqa.Zerofpr in
/-- at `k = 0` the direction stage reads the provider state only through `initialize` -/
theorem directionStage_start (dir : Zerofpr.Direction D α) (s : St α D) (d' : D) (hk : s.k = 0)
    (hi : ∀ γ x xh p g, dir.init d' γ x xh p g = dir.init s.d γ x xh p g) :
    directionStage dir { s with d := d' } = directionStage dir s := by
  unfold directionStage
  simp only [hk, hi, beq_self_eq_true, if_true]

open Alpaqa.Zerofpr in
/-- … hence so does the whole iteration (both of its exits overwrite the provider state) -/
theorem iterBody_start (P : Zerofpr.Problem α) (dir : Zerofpr.Direction D α) (pr : Zerofpr.Params α)
    (stop : Nat → Bool) (s : St α D) (d' : D) (eps : α) (hk : s.k = 0)
    (hi : ∀ γ x xh p g, dir.init d' γ x xh p g = dir.init s.d γ x xh p g) :
    iterBody P dir pr stop { s with d := d' } eps = iterBody P dir pr stop s eps := by
  have hds := directionStage_start dir s d' hk hi
  have hls : lsOf P dir pr stop { s with d := d' } = lsOf P dir pr stop s := by
    unfold lsOf lsInit
    rw [hds]
  unfold iterBody
  rw [hds, hls]

open Alpaqa.Zerofpr in
theorem mainLoop_start (P : Zerofpr.Problem α) (dir : Zerofpr.Direction D α) (pr : Zerofpr.Params α)
    (stop : Nat → Bool) (oot : Bool) (x0 y Sig errz0 : Vec α) (n : Nat) (s : St α D) (d' : D)
    (hk : s.k = 0) (hi : ∀ γ x xh p g, dir.init d' γ x xh p g = dir.init s.d γ x xh p g) :
    core (mainLoop P dir pr stop oot x0 y Sig errz0 n { s with d := d' }) =
      core (mainLoop P dir pr stop oot x0 y Sig errz0 n s) := by
  cases n with
  | zero => rfl
  | succ n =>
    have hh : headStep P pr stop oot { s with d := d' } =
        ({ (headStep P pr stop oot s).1 with d := d' }, (headStep P pr stop oot s).2.1,
          (headStep P pr stop oot s).2.2) := rfl
    simp only [mainLoop]
    rw [hh]
    by_cases hb : ((headStep P pr stop oot s).2.2 != .Busy) = true
    · simp only [hb, if_true]; rfl
    · simp only [hb, Bool.false_eq_true, if_false]
      rw [iterBody_start P dir pr stop (headStep P pr stop oot s).1 d' _ hk hi]

open Alpaqa.Zerofpr in
/-- **A ZeroFPR run depends on the provider state it is handed only through `initialize`**: two start
    states on which `initialize` agrees give results that agree in every field except `dfinal`
    (every exit, every stop schedule, every parameter set; also the early `NotFinite` return and the
    out-of-fuel exit of the model). -/
theorem run_start (P : Zerofpr.Problem α) (dir : Zerofpr.Direction D α) (d0 d' : D)
    (pr : Zerofpr.Params α) (stop : Nat → Bool) (oot : Bool) (x0 y Sig errz0 gV : Vec α) (gS iS : α)
    (hi : ∀ γ x xh p g, dir.init d' γ x xh p g = dir.init d0 γ x xh p g) :
    core (Zerofpr.run P dir d' pr stop oot x0 y Sig errz0 gV gS iS) =
      core (Zerofpr.run P dir d0 pr stop oot x0 y Sig errz0 gV gS iS) := by
  unfold Zerofpr.run initState
  by_cases hf : (!RealLike.isFinite (initLipschitz P pr x0 gV gS).1.L) = true
  · simp only [hf, if_true]; rfl
  · simp only [hf]
    exact mainLoop_start P dir pr stop oot x0 y Sig errz0 _
      { curr := _, next := _, prox := _, q := _, qValid := false, d := d0, tick := _, stats := _, k := 0,
        noProgress := _, cbs := _, fuelOut := _ } d' rfl hi

/-- … so the inner-solver function ALM sees is the same. -/
theorem zerofprInner_start (Pf : Vec α → Vec α → Zerofpr.Problem α) (dir : Zerofpr.Direction D α)
    (d0 d' : D) (hi : ∀ γ x xh p g, dir.init d' γ x xh p g = dir.init d0 γ x xh p g)
    (pr : Zerofpr.Params α) (stop : InnerCall α → Nat → Bool) (oot clock almStop : InnerCall α → Bool)
    (gV : Vec α) (gS iS : α) :
    zerofprInner Pf dir d' pr stop oot clock almStop gV gS iS =
      zerofprInner Pf dir d0 pr stop oot clock almStop gV gS iS := by
  funext c
  have h := run_start (Pf c.y c.sigma) dir d0 d' (zerofprParams pr c) (stop c) (oot c) c.x c.y c.sigma
    c.errBuf gV gS iS hi
  simp only [core, Prod.mk.injEq] at h
  obtain ⟨h1, h2, h3, h4, -⟩ := h
  unfold zerofprInner zerofprRun
  simp only [h1, h2, h3, h4]

/-- `initialize` forgets what an earlier `initialize` did -/
def InitIdem (dir : Panoc.Direction D α) : Prop :=
  ∀ d γ' x' xh' p' g' γ x xh p g,
    dir.init (dir.init d γ' x' xh' p' g') γ x xh p g = dir.init d γ x xh p g

/-- `LBFGSDirection::initialize` is `lbfgs.resize(n)`, whatever the buffer held -/
theorem initIdem_lbfgs (c : LbfgsCfg α) (n : Nat) : InitIdem (lbfgsDir c n) := by
  intro d γ' x' xh' p' g' γ x xh p g
  show latchRes (latchRes d (Lbfgs.init c n d.st)) (Lbfgs.init c n (latchRes d (Lbfgs.init c n d.st)).st) =
    latchRes d (Lbfgs.init c n d.st)
  unfold Lbfgs.init
  cases C09.resize c.accel n <;> rfl

/-- `StructuredLBFGSDirection::initialize`: the argument checks, then `lbfgs.resize(n)` -/
theorem initIdem_slbfgs (P : SProblem α) (c : SCfg α) : InitIdem (slbfgsDir P c) := by
  intro d γ' x' xh' p' g' γ x xh p g
  show latchRes (latchRes d (SLbfgs.init P c d.st)) (SLbfgs.init P c (latchRes d (SLbfgs.init P c d.st)).st) =
    latchRes d (SLbfgs.init P c d.st)
  unfold SLbfgs.init
  split_ifs
  · rfl
  · cases C09.resize c.accel P.n <;> rfl

/-- `AndersonDirection::initialize`: `anderson.resize(n); anderson.initialize(…)` on a new accelerator -/
theorem initIdem_anderson (c : AndersonCfg α) (n : Nat) (y' Sig' : Vec α) :
    InitIdem (andersonDir c n y' Sig') := fun _ _ _ _ _ _ _ _ _ _ _ => rfl

/-! ### C01: the inner-solver contract of ALM, ZeroFPR with each shipped provider -/

/-- **ZeroFPR over any provider of PANOC's interface that meets PANOC's size contract**, started
    from a reachable provider state. -/
theorem zerofpr_ofPanocDir_satisfies_inner_contract_of_reached (pb : ProblemCF α) (n m : Nat)
    (Pf : Vec α → Vec α → Zerofpr.Problem α) (hO : ZfOracleContract pb n m Pf)
    (dir : Panoc.Direction D α) (d0' : D) (hD : Panoc.DirSized n dir d0')
    (d0 : D) (hd0 : Panoc.DirReach n dir d0' d0)
    (pr : Zerofpr.Params α) (hfac : 0 < pr.LgammaFactor)
    (N M : Nat) (hF : Zerofpr.FuelOK pr N M) (hcrit : pr.stopCrit = .ApproxKKT)
    (stop : InnerCall α → Nat → Bool) (hmono : ∀ c, Zerofpr.StopMono (stop c))
    (oot clock almStop : InnerCall α → Bool) (gV : Vec α) (gS iS : α) :
    InnerContract pb n m (zerofprInner Pf (ofPanocDir dir) d0 pr stop oot clock almStop gV gS iS) :=
  zerofpr_satisfies_inner_contract pb n m Pf hO (ofPanocDir dir) _ (dirSized_ofPanocDir n dir d0' hD)
    d0 hd0 pr hfac N M hF hcrit stop hmono oot clock almStop gV gS iS

/-- **… started from ANY provider state**, for a provider whose `initialize` is idempotent: the run
    from `d0` is the run from the reachable state `initialize(d0, 0, 0, 0, 0, 0)`
    (`zerofprInner_start`). -/
theorem zerofpr_ofPanocDir_satisfies_inner_contract (pb : ProblemCF α) (n m : Nat)
    (Pf : Vec α → Vec α → Zerofpr.Problem α) (hO : ZfOracleContract pb n m Pf)
    (dir : Panoc.Direction D α) (hidem : InitIdem dir) (d0 : D) (hD : Panoc.DirSized n dir d0)
    (pr : Zerofpr.Params α) (hfac : 0 < pr.LgammaFactor)
    (N M : Nat) (hF : Zerofpr.FuelOK pr N M) (hcrit : pr.stopCrit = .ApproxKKT)
    (stop : InnerCall α → Nat → Bool) (hmono : ∀ c, Zerofpr.StopMono (stop c))
    (oot clock almStop : InnerCall α → Bool) (gV : Vec α) (gS iS : α) :
    InnerContract pb n m (zerofprInner Pf (ofPanocDir dir) d0 pr stop oot clock almStop gV gS iS) := by
  have hz : (List.replicate n (0 : α)).length = n := List.length_replicate
  rw [← zerofprInner_start Pf (ofPanocDir dir) d0
    (dir.init d0 0 (List.replicate n 0) (List.replicate n 0) (List.replicate n 0) (List.replicate n 0))
    (fun γ x xh p g => hidem d0 _ _ _ _ _ γ x xh p g) pr stop oot clock almStop gV gS iS]
  exact zerofpr_ofPanocDir_satisfies_inner_contract_of_reached pb n m Pf hO dir d0 hD _
    (reach_init n dir d0 0 _ _ _ _ hz hz hz hz) pr hfac N M hF hcrit stop hmono oot clock almStop gV gS iS

/-- **ZeroFPR with `NoopDirection` satisfies ALM's inner-solver contract** — no provider hypothesis,
    any initial provider state. -/
theorem zerofpr_noop_satisfies_inner_contract (pb : ProblemCF α) (n m : Nat)
    (Pf : Vec α → Vec α → Zerofpr.Problem α) (hO : ZfOracleContract pb n m Pf)
    (d0 : Latch Noop.State) (pr : Zerofpr.Params α) (hfac : 0 < pr.LgammaFactor)
    (N M : Nat) (hF : Zerofpr.FuelOK pr N M) (hcrit : pr.stopCrit = .ApproxKKT)
    (stop : InnerCall α → Nat → Bool) (hmono : ∀ c, Zerofpr.StopMono (stop c))
    (oot clock almStop : InnerCall α → Bool) (gV : Vec α) (gS iS : α) :
    InnerContract pb n m
      (zerofprInner Pf (ofPanocDir noopDir) d0 pr stop oot clock almStop gV gS iS) :=
  zerofpr_satisfies_inner_contract pb n m Pf hO (ofPanocDir noopDir) _ (zerofprDirSized_noop_all n)
    d0 trivial pr hfac N M hF hcrit stop hmono oot clock almStop gV gS iS

/-- **ZeroFPR with `LBFGSDirection` satisfies ALM's inner-solver contract** — every L-BFGS parameter
    set with `memory ≥ 1`, rescaling on or off, **any initial provider state** (freshly constructed, or
    left by an earlier solve of any dimension). -/
theorem zerofpr_lbfgs_satisfies_inner_contract (pb : ProblemCF α) (n m : Nat)
    (Pf : Vec α → Vec α → Zerofpr.Problem α) (hO : ZfOracleContract pb n m Pf)
    (c : LbfgsCfg α) (hm : 1 ≤ c.accel.memory) (d0 : Latch (Lbfgs.State α))
    (pr : Zerofpr.Params α) (hfac : 0 < pr.LgammaFactor)
    (N M : Nat) (hF : Zerofpr.FuelOK pr N M) (hcrit : pr.stopCrit = .ApproxKKT)
    (stop : InnerCall α → Nat → Bool) (hmono : ∀ c, Zerofpr.StopMono (stop c))
    (oot clock almStop : InnerCall α → Bool) (gV : Vec α) (gS iS : α) :
    InnerContract pb n m
      (zerofprInner Pf (ofPanocDir (lbfgsDir c n)) d0 pr stop oot clock almStop gV gS iS) :=
  zerofpr_ofPanocDir_satisfies_inner_contract pb n m Pf hO (lbfgsDir c n) (initIdem_lbfgs c n) d0
    (dirSized_lbfgs c hm n d0) pr hfac N M hF hcrit stop hmono oot clock almStop gV gS iS

/-- … with `StructuredLBFGSDirection` (forced pairs of any curvature, either failure policy). -/
theorem zerofpr_slbfgs_satisfies_inner_contract (pb : ProblemCF α) (m : Nat) (P : SProblem α)
    (Pf : Vec α → Vec α → Zerofpr.Problem α) (hO : ZfOracleContract pb P.n m Pf)
    (c : SCfg α) (hm : 1 ≤ c.accel.memory)
    (hok : slbfgsInitThrows c.hvf c.fd c.fullAug P.provInactive P.provHessL P.provHessPsi P.provBoxD
      P.provGradGi = false)
    (d0 : Latch (SLbfgs.State α))
    (pr : Zerofpr.Params α) (hfac : 0 < pr.LgammaFactor)
    (N M : Nat) (hF : Zerofpr.FuelOK pr N M) (hcrit : pr.stopCrit = .ApproxKKT)
    (stop : InnerCall α → Nat → Bool) (hmono : ∀ c, Zerofpr.StopMono (stop c))
    (oot clock almStop : InnerCall α → Bool) (gV : Vec α) (gS iS : α) :
    InnerContract pb P.n m
      (zerofprInner Pf (ofPanocDir (slbfgsDir P c)) d0 pr stop oot clock almStop gV gS iS) :=
  zerofpr_ofPanocDir_satisfies_inner_contract pb P.n m Pf hO (slbfgsDir P c) (initIdem_slbfgs P c) d0
    (dirSized_slbfgs P c hm hok d0) pr hfac N M hF hcrit stop hmono oot clock almStop gV gS iS

/-- … with `AndersonDirection`. -/
theorem zerofpr_anderson_satisfies_inner_contract (pb : ProblemCF α) (n m : Nat)
    (Pf : Vec α → Vec α → Zerofpr.Problem α) (hO : ZfOracleContract pb n m Pf)
    (c : AndersonCfg α) (y' Sig' : Vec α) (d0 : Latch (Anderson.State α))
    (pr : Zerofpr.Params α) (hfac : 0 < pr.LgammaFactor)
    (N M : Nat) (hF : Zerofpr.FuelOK pr N M) (hcrit : pr.stopCrit = .ApproxKKT)
    (stop : InnerCall α → Nat → Bool) (hmono : ∀ c, Zerofpr.StopMono (stop c))
    (oot clock almStop : InnerCall α → Bool) (gV : Vec α) (gS iS : α) :
    InnerContract pb n m
      (zerofprInner Pf (ofPanocDir (andersonDir c n y' Sig')) d0 pr stop oot clock almStop gV gS iS) :=
  zerofpr_ofPanocDir_satisfies_inner_contract pb n m Pf hO (andersonDir c n y' Sig')
    (initIdem_anderson c n y' Sig') d0 (dirSized_anderson c n y' Sig' d0) pr hfac N M hF hcrit stop hmono
    oot clock almStop gV gS iS

/-! ### ALM over ZeroFPR with each shipped provider -/

/-- **C01 for ALM over ZeroFPR + `NoopDirection`** (`m ≠ 0`): `Converged` only with the KKT
    certificate of the returned pair — no provider hypothesis, any initial provider state. -/
theorem alm_zerofpr_noop_certifies_kkt (nan inf : α) (acc0 : A) (accAdd : A → Zerofpr.Stats α → A)
    (P : ALMParams α) (prob : Alpaqa.C07.Problem α) (x y : Vec α) (Sig0 : Option (Vec α))
    (pb : ProblemCF α) (n : Nat)
    (Pf : Vec α → Vec α → Zerofpr.Problem α) (hO : ZfOracleContract pb n prob.m Pf)
    (d0 : Latch Noop.State)
    (pr : Zerofpr.Params α) (hfac : 0 < pr.LgammaFactor)
    (N M : Nat) (hF : Zerofpr.FuelOK pr N M) (hcrit : pr.stopCrit = .ApproxKKT)
    (stop : InnerCall α → Nat → Bool) (hmono : ∀ c, Zerofpr.StopMono (stop c))
    (oot clock almStop : InnerCall α → Bool) (gV : Vec α) (gS iS : α)
    (hm : prob.m ≠ 0)
    (hC : ∀ b ∈ pb.C, ∀ l u, b.1 = some l → b.2 = some u → l ≤ u)
    (hDb : ∀ i, i < prob.m → BndOK (lbAt pb.D i) (ubAt pb.D i))
    (hmin : 0 < P.min_penalty) (hmm : P.min_penalty ≤ P.max_penalty)
    (hlen : SigmaLen prob.m Sig0) (hx : x.length = n) (hy : y.length = prob.m)
    (hconv : (Alpaqa.C07.run nan inf acc0 accAdd P prob x y Sig0
      (zerofprInner Pf (ofPanocDir noopDir) d0 pr stop oot clock almStop gV gS iS)).stats.status =
        .Converged) :
    KKTCert pb prob.m P.tolerance P.dual_tolerance
      (Alpaqa.C07.run nan inf acc0 accAdd P prob x y Sig0
        (zerofprInner Pf (ofPanocDir noopDir) d0 pr stop oot clock almStop gV gS iS)).x
      (Alpaqa.C07.run nan inf acc0 accAdd P prob x y Sig0
        (zerofprInner Pf (ofPanocDir noopDir) d0 pr stop oot clock almStop gV gS iS)).y :=
  alm_converged_certifies_kkt nan inf acc0 accAdd P prob x y Sig0 _ pb n
    (zerofpr_noop_satisfies_inner_contract pb n prob.m Pf hO d0 pr hfac N M hF hcrit
      stop hmono oot clock almStop gV gS iS)
    hm hC hDb hmin hmm hlen hx hy hconv

/-- … `m = 0` (stationarity and `x ∈ C`). -/
theorem alm_m0_zerofpr_noop_certifies_kkt (nan inf : α) (acc0 : A) (accAdd : A → Zerofpr.Stats α → A)
    (P : ALMParams α) (prob : Alpaqa.C07.Problem α) (x y : Vec α) (Sig0 : Option (Vec α))
    (pb : ProblemCF α) (n : Nat)
    (Pf : Vec α → Vec α → Zerofpr.Problem α) (hO : ZfOracleContract pb n 0 Pf)
    (d0 : Latch Noop.State)
    (pr : Zerofpr.Params α) (hfac : 0 < pr.LgammaFactor)
    (N M : Nat) (hF : Zerofpr.FuelOK pr N M) (hcrit : pr.stopCrit = .ApproxKKT)
    (stop : InnerCall α → Nat → Bool) (hmono : ∀ c, Zerofpr.StopMono (stop c))
    (oot clock almStop : InnerCall α → Bool) (gV : Vec α) (gS iS : α)
    (hm : prob.m = 0) (h0 : P.max_iter ≠ 0)
    (hC : ∀ b ∈ pb.C, ∀ l u, b.1 = some l → b.2 = some u → l ≤ u)
    (htol : 0 < P.tolerance) (hδ : 0 ≤ P.dual_tolerance) (hx : x.length = n) (hy : y.length = prob.m)
    (hconv : (Alpaqa.C07.run nan inf acc0 accAdd P prob x y Sig0
      (zerofprInner Pf (ofPanocDir noopDir) d0 pr stop oot clock almStop gV gS iS)).stats.status =
        .Converged) :
    KKTCert pb 0 P.tolerance P.dual_tolerance
      (Alpaqa.C07.run nan inf acc0 accAdd P prob x y Sig0
        (zerofprInner Pf (ofPanocDir noopDir) d0 pr stop oot clock almStop gV gS iS)).x
      (Alpaqa.C07.run nan inf acc0 accAdd P prob x y Sig0
        (zerofprInner Pf (ofPanocDir noopDir) d0 pr stop oot clock almStop gV gS iS)).y :=
  alm_m0_converged_certifies_kkt nan inf acc0 accAdd P prob x y Sig0 _ pb n
    (zerofpr_noop_satisfies_inner_contract pb n 0 Pf hO d0 pr hfac N M hF hcrit
      stop hmono oot clock almStop gV gS iS)
    hm h0 hC htol hδ hx hy hconv

/-- **C01 for ALM over ZeroFPR + `LBFGSDirection`** (`m ≠ 0`): `Converged` only with the KKT
    certificate of the returned pair — no provider hypothesis, any initial provider state. -/
theorem alm_zerofpr_lbfgs_certifies_kkt (nan inf : α) (acc0 : A) (accAdd : A → Zerofpr.Stats α → A)
    (P : ALMParams α) (prob : Alpaqa.C07.Problem α) (x y : Vec α) (Sig0 : Option (Vec α))
    (pb : ProblemCF α) (n : Nat)
    (Pf : Vec α → Vec α → Zerofpr.Problem α) (hO : ZfOracleContract pb n prob.m Pf)
    (c : LbfgsCfg α) (hmem : 1 ≤ c.accel.memory) (d0 : Latch (Lbfgs.State α))
    (pr : Zerofpr.Params α) (hfac : 0 < pr.LgammaFactor)
    (N M : Nat) (hF : Zerofpr.FuelOK pr N M) (hcrit : pr.stopCrit = .ApproxKKT)
    (stop : InnerCall α → Nat → Bool) (hmono : ∀ c, Zerofpr.StopMono (stop c))
    (oot clock almStop : InnerCall α → Bool) (gV : Vec α) (gS iS : α)
    (hm : prob.m ≠ 0)
    (hC : ∀ b ∈ pb.C, ∀ l u, b.1 = some l → b.2 = some u → l ≤ u)
    (hDb : ∀ i, i < prob.m → BndOK (lbAt pb.D i) (ubAt pb.D i))
    (hmin : 0 < P.min_penalty) (hmm : P.min_penalty ≤ P.max_penalty)
    (hlen : SigmaLen prob.m Sig0) (hx : x.length = n) (hy : y.length = prob.m)
    (hconv : (Alpaqa.C07.run nan inf acc0 accAdd P prob x y Sig0
      (zerofprInner Pf (ofPanocDir (lbfgsDir c n)) d0 pr stop oot clock almStop gV gS iS)).stats.status =
        .Converged) :
    KKTCert pb prob.m P.tolerance P.dual_tolerance
      (Alpaqa.C07.run nan inf acc0 accAdd P prob x y Sig0
        (zerofprInner Pf (ofPanocDir (lbfgsDir c n)) d0 pr stop oot clock almStop gV gS iS)).x
      (Alpaqa.C07.run nan inf acc0 accAdd P prob x y Sig0
        (zerofprInner Pf (ofPanocDir (lbfgsDir c n)) d0 pr stop oot clock almStop gV gS iS)).y :=
  alm_converged_certifies_kkt nan inf acc0 accAdd P prob x y Sig0 _ pb n
    (zerofpr_lbfgs_satisfies_inner_contract pb n prob.m Pf hO c hmem d0 pr hfac N M hF hcrit
      stop hmono oot clock almStop gV gS iS)
    hm hC hDb hmin hmm hlen hx hy hconv

/-- … `m = 0` (stationarity and `x ∈ C`). -/
theorem alm_m0_zerofpr_lbfgs_certifies_kkt (nan inf : α) (acc0 : A) (accAdd : A → Zerofpr.Stats α → A)
    (P : ALMParams α) (prob : Alpaqa.C07.Problem α) (x y : Vec α) (Sig0 : Option (Vec α))
    (pb : ProblemCF α) (n : Nat)
    (Pf : Vec α → Vec α → Zerofpr.Problem α) (hO : ZfOracleContract pb n 0 Pf)
    (c : LbfgsCfg α) (hmem : 1 ≤ c.accel.memory) (d0 : Latch (Lbfgs.State α))
    (pr : Zerofpr.Params α) (hfac : 0 < pr.LgammaFactor)
    (N M : Nat) (hF : Zerofpr.FuelOK pr N M) (hcrit : pr.stopCrit = .ApproxKKT)
    (stop : InnerCall α → Nat → Bool) (hmono : ∀ c, Zerofpr.StopMono (stop c))
    (oot clock almStop : InnerCall α → Bool) (gV : Vec α) (gS iS : α)
    (hm : prob.m = 0) (h0 : P.max_iter ≠ 0)
    (hC : ∀ b ∈ pb.C, ∀ l u, b.1 = some l → b.2 = some u → l ≤ u)
    (htol : 0 < P.tolerance) (hδ : 0 ≤ P.dual_tolerance) (hx : x.length = n) (hy : y.length = prob.m)
    (hconv : (Alpaqa.C07.run nan inf acc0 accAdd P prob x y Sig0
      (zerofprInner Pf (ofPanocDir (lbfgsDir c n)) d0 pr stop oot clock almStop gV gS iS)).stats.status =
        .Converged) :
    KKTCert pb 0 P.tolerance P.dual_tolerance
      (Alpaqa.C07.run nan inf acc0 accAdd P prob x y Sig0
        (zerofprInner Pf (ofPanocDir (lbfgsDir c n)) d0 pr stop oot clock almStop gV gS iS)).x
      (Alpaqa.C07.run nan inf acc0 accAdd P prob x y Sig0
        (zerofprInner Pf (ofPanocDir (lbfgsDir c n)) d0 pr stop oot clock almStop gV gS iS)).y :=
  alm_m0_converged_certifies_kkt nan inf acc0 accAdd P prob x y Sig0 _ pb n
    (zerofpr_lbfgs_satisfies_inner_contract pb n 0 Pf hO c hmem d0 pr hfac N M hF hcrit
      stop hmono oot clock almStop gV gS iS)
    hm h0 hC htol hδ hx hy hconv

/-- **C01 for ALM over ZeroFPR + `StructuredLBFGSDirection`** (`m ≠ 0`): `Converged` only with the KKT
    certificate of the returned pair — no provider hypothesis, any initial provider state. -/
theorem alm_zerofpr_slbfgs_certifies_kkt (nan inf : α) (acc0 : A) (accAdd : A → Zerofpr.Stats α → A)
    (P : ALMParams α) (prob : Alpaqa.C07.Problem α) (x y : Vec α) (Sig0 : Option (Vec α))
    (pb : ProblemCF α) (Ps : SProblem α)
    (Pf : Vec α → Vec α → Zerofpr.Problem α) (hO : ZfOracleContract pb Ps.n prob.m Pf)
    (c : SCfg α) (hmem : 1 ≤ c.accel.memory)
    (hok : slbfgsInitThrows c.hvf c.fd c.fullAug Ps.provInactive Ps.provHessL Ps.provHessPsi Ps.provBoxD
      Ps.provGradGi = false)
    (d0 : Latch (SLbfgs.State α))
    (pr : Zerofpr.Params α) (hfac : 0 < pr.LgammaFactor)
    (N M : Nat) (hF : Zerofpr.FuelOK pr N M) (hcrit : pr.stopCrit = .ApproxKKT)
    (stop : InnerCall α → Nat → Bool) (hmono : ∀ c, Zerofpr.StopMono (stop c))
    (oot clock almStop : InnerCall α → Bool) (gV : Vec α) (gS iS : α)
    (hm : prob.m ≠ 0)
    (hC : ∀ b ∈ pb.C, ∀ l u, b.1 = some l → b.2 = some u → l ≤ u)
    (hDb : ∀ i, i < prob.m → BndOK (lbAt pb.D i) (ubAt pb.D i))
    (hmin : 0 < P.min_penalty) (hmm : P.min_penalty ≤ P.max_penalty)
    (hlen : SigmaLen prob.m Sig0) (hx : x.length = Ps.n) (hy : y.length = prob.m)
    (hconv : (Alpaqa.C07.run nan inf acc0 accAdd P prob x y Sig0
      (zerofprInner Pf (ofPanocDir (slbfgsDir Ps c)) d0 pr stop oot clock almStop gV gS iS)).stats.status =
        .Converged) :
    KKTCert pb prob.m P.tolerance P.dual_tolerance
      (Alpaqa.C07.run nan inf acc0 accAdd P prob x y Sig0
        (zerofprInner Pf (ofPanocDir (slbfgsDir Ps c)) d0 pr stop oot clock almStop gV gS iS)).x
      (Alpaqa.C07.run nan inf acc0 accAdd P prob x y Sig0
        (zerofprInner Pf (ofPanocDir (slbfgsDir Ps c)) d0 pr stop oot clock almStop gV gS iS)).y :=
  alm_converged_certifies_kkt nan inf acc0 accAdd P prob x y Sig0 _ pb Ps.n
    (zerofpr_slbfgs_satisfies_inner_contract pb prob.m Ps Pf hO c hmem hok d0 pr hfac N M hF hcrit
      stop hmono oot clock almStop gV gS iS)
    hm hC hDb hmin hmm hlen hx hy hconv

/-- … `m = 0` (stationarity and `x ∈ C`). -/
theorem alm_m0_zerofpr_slbfgs_certifies_kkt (nan inf : α) (acc0 : A) (accAdd : A → Zerofpr.Stats α → A)
    (P : ALMParams α) (prob : Alpaqa.C07.Problem α) (x y : Vec α) (Sig0 : Option (Vec α))
    (pb : ProblemCF α) (Ps : SProblem α)
    (Pf : Vec α → Vec α → Zerofpr.Problem α) (hO : ZfOracleContract pb Ps.n 0 Pf)
    (c : SCfg α) (hmem : 1 ≤ c.accel.memory)
    (hok : slbfgsInitThrows c.hvf c.fd c.fullAug Ps.provInactive Ps.provHessL Ps.provHessPsi Ps.provBoxD
      Ps.provGradGi = false)
    (d0 : Latch (SLbfgs.State α))
    (pr : Zerofpr.Params α) (hfac : 0 < pr.LgammaFactor)
    (N M : Nat) (hF : Zerofpr.FuelOK pr N M) (hcrit : pr.stopCrit = .ApproxKKT)
    (stop : InnerCall α → Nat → Bool) (hmono : ∀ c, Zerofpr.StopMono (stop c))
    (oot clock almStop : InnerCall α → Bool) (gV : Vec α) (gS iS : α)
    (hm : prob.m = 0) (h0 : P.max_iter ≠ 0)
    (hC : ∀ b ∈ pb.C, ∀ l u, b.1 = some l → b.2 = some u → l ≤ u)
    (htol : 0 < P.tolerance) (hδ : 0 ≤ P.dual_tolerance) (hx : x.length = Ps.n) (hy : y.length = prob.m)
    (hconv : (Alpaqa.C07.run nan inf acc0 accAdd P prob x y Sig0
      (zerofprInner Pf (ofPanocDir (slbfgsDir Ps c)) d0 pr stop oot clock almStop gV gS iS)).stats.status =
        .Converged) :
    KKTCert pb 0 P.tolerance P.dual_tolerance
      (Alpaqa.C07.run nan inf acc0 accAdd P prob x y Sig0
        (zerofprInner Pf (ofPanocDir (slbfgsDir Ps c)) d0 pr stop oot clock almStop gV gS iS)).x
      (Alpaqa.C07.run nan inf acc0 accAdd P prob x y Sig0
        (zerofprInner Pf (ofPanocDir (slbfgsDir Ps c)) d0 pr stop oot clock almStop gV gS iS)).y :=
  alm_m0_converged_certifies_kkt nan inf acc0 accAdd P prob x y Sig0 _ pb Ps.n
    (zerofpr_slbfgs_satisfies_inner_contract pb 0 Ps Pf hO c hmem hok d0 pr hfac N M hF hcrit
      stop hmono oot clock almStop gV gS iS)
    hm h0 hC htol hδ hx hy hconv

/-- **C01 for ALM over ZeroFPR + `AndersonDirection`** (`m ≠ 0`): `Converged` only with the KKT
    certificate of the returned pair — no provider hypothesis, any initial provider state. -/
theorem alm_zerofpr_anderson_certifies_kkt (nan inf : α) (acc0 : A) (accAdd : A → Zerofpr.Stats α → A)
    (P : ALMParams α) (prob : Alpaqa.C07.Problem α) (x y : Vec α) (Sig0 : Option (Vec α))
    (pb : ProblemCF α) (n : Nat)
    (Pf : Vec α → Vec α → Zerofpr.Problem α) (hO : ZfOracleContract pb n prob.m Pf)
    (c : AndersonCfg α) (y' Sig' : Vec α) (d0 : Latch (Anderson.State α))
    (pr : Zerofpr.Params α) (hfac : 0 < pr.LgammaFactor)
    (N M : Nat) (hF : Zerofpr.FuelOK pr N M) (hcrit : pr.stopCrit = .ApproxKKT)
    (stop : InnerCall α → Nat → Bool) (hmono : ∀ c, Zerofpr.StopMono (stop c))
    (oot clock almStop : InnerCall α → Bool) (gV : Vec α) (gS iS : α)
    (hm : prob.m ≠ 0)
    (hC : ∀ b ∈ pb.C, ∀ l u, b.1 = some l → b.2 = some u → l ≤ u)
    (hDb : ∀ i, i < prob.m → BndOK (lbAt pb.D i) (ubAt pb.D i))
    (hmin : 0 < P.min_penalty) (hmm : P.min_penalty ≤ P.max_penalty)
    (hlen : SigmaLen prob.m Sig0) (hx : x.length = n) (hy : y.length = prob.m)
    (hconv : (Alpaqa.C07.run nan inf acc0 accAdd P prob x y Sig0
      (zerofprInner Pf (ofPanocDir (andersonDir c n y' Sig')) d0 pr stop oot clock almStop gV gS iS)).stats.status =
        .Converged) :
    KKTCert pb prob.m P.tolerance P.dual_tolerance
      (Alpaqa.C07.run nan inf acc0 accAdd P prob x y Sig0
        (zerofprInner Pf (ofPanocDir (andersonDir c n y' Sig')) d0 pr stop oot clock almStop gV gS iS)).x
      (Alpaqa.C07.run nan inf acc0 accAdd P prob x y Sig0
        (zerofprInner Pf (ofPanocDir (andersonDir c n y' Sig')) d0 pr stop oot clock almStop gV gS iS)).y :=
  alm_converged_certifies_kkt nan inf acc0 accAdd P prob x y Sig0 _ pb n
    (zerofpr_anderson_satisfies_inner_contract pb n prob.m Pf hO c y' Sig' d0 pr hfac N M hF hcrit
      stop hmono oot clock almStop gV gS iS)
    hm hC hDb hmin hmm hlen hx hy hconv

/-- … `m = 0` (stationarity and `x ∈ C`). -/
theorem alm_m0_zerofpr_anderson_certifies_kkt (nan inf : α) (acc0 : A) (accAdd : A → Zerofpr.Stats α → A)
    (P : ALMParams α) (prob : Alpaqa.C07.Problem α) (x y : Vec α) (Sig0 : Option (Vec α))
    (pb : ProblemCF α) (n : Nat)
    (Pf : Vec α → Vec α → Zerofpr.Problem α) (hO : ZfOracleContract pb n 0 Pf)
    (c : AndersonCfg α) (y' Sig' : Vec α) (d0 : Latch (Anderson.State α))
    (pr : Zerofpr.Params α) (hfac : 0 < pr.LgammaFactor)
    (N M : Nat) (hF : Zerofpr.FuelOK pr N M) (hcrit : pr.stopCrit = .ApproxKKT)
    (stop : InnerCall α → Nat → Bool) (hmono : ∀ c, Zerofpr.StopMono (stop c))
    (oot clock almStop : InnerCall α → Bool) (gV : Vec α) (gS iS : α)
    (hm : prob.m = 0) (h0 : P.max_iter ≠ 0)
    (hC : ∀ b ∈ pb.C, ∀ l u, b.1 = some l → b.2 = some u → l ≤ u)
    (htol : 0 < P.tolerance) (hδ : 0 ≤ P.dual_tolerance) (hx : x.length = n) (hy : y.length = prob.m)
    (hconv : (Alpaqa.C07.run nan inf acc0 accAdd P prob x y Sig0
      (zerofprInner Pf (ofPanocDir (andersonDir c n y' Sig')) d0 pr stop oot clock almStop gV gS iS)).stats.status =
        .Converged) :
    KKTCert pb 0 P.tolerance P.dual_tolerance
      (Alpaqa.C07.run nan inf acc0 accAdd P prob x y Sig0
        (zerofprInner Pf (ofPanocDir (andersonDir c n y' Sig')) d0 pr stop oot clock almStop gV gS iS)).x
      (Alpaqa.C07.run nan inf acc0 accAdd P prob x y Sig0
        (zerofprInner Pf (ofPanocDir (andersonDir c n y' Sig')) d0 pr stop oot clock almStop gV gS iS)).y :=
  alm_m0_converged_certifies_kkt nan inf acc0 accAdd P prob x y Sig0 _ pb n
    (zerofpr_anderson_satisfies_inner_contract pb n 0 Pf hO c y' Sig' d0 pr hfac N M hF hcrit
      stop hmono oot clock almStop gV gS iS)
    hm h0 hC htol hδ hx hy hconv

end

/-! ### Non-vacuity: ZeroFPR + `LBFGSDirection` over ℚ on `pbEx` of `Props/C01_Alm` -/
section examples

local instance : RealLike ℚ := Alpaqa.Props.C01Alm.instRealLikeRat
local instance instPowLikeRatZD : PowLike ℚ := ⟨fun x _ => x⟩
local instance instHasNaNRatZD : HasNaN ℚ := ⟨0⟩
local instance : Alpaqa.Proofs.C07.NoNaN ℚ := ⟨fun _ => rfl⟩

/-- `LBFGSDirection`, memory 2, curvature scaling, `min_div_fac = min_abs_s = 0` (the configuration of
    `Props/DirectionsLoop.cL2`) -/
def cLz : LbfgsCfg ℚ :=
  { accel := { memory := 2, minDivFac := 0, minAbsS := 0, cbfgsAlpha := 1, cbfgsEps := 0,
               forcePosDef := true, curvature := true }, rescale := false }

/-- the freshly constructed provider object (no storage yet) -/
def d0z : Latch (Lbfgs.State ℚ) := ⟨Lbfgs.fresh, false⟩

/-- **ZeroFPR + `LBFGSDirection` (from the freshly constructed provider) over the closed-form oracles
    of `pbEx` satisfies the inner contract — no hypothesis left.** -/
theorem zerofprEx_contract_lbfgs :
    InnerContract pbEx 1 1
      (zerofprInner (zfCfProblem pbEx psiEx) (ofPanocDir (lbfgsDir cLz 1)) d0z zfPrEx (fun _ _ => false)
        (fun _ => false) (fun _ => false) (fun _ => false) [] 0 0) :=
  zerofpr_lbfgs_satisfies_inner_contract pbEx 1 1 (zfCfProblem pbEx psiEx) pbEx_zfContract cLz
    (by decide) d0z zfPrEx (by norm_num [zfPrEx]) 7 9
    zfPrEx_fuelOK rfl (fun _ _ => false) (fun _ _ _ _ h => h) (fun _ => false) (fun _ => false)
    (fun _ => false) [] 0 0

/-- … and with `NoopDirection` from the freshly constructed provider -/
theorem zerofprEx_contract_noop :
    InnerContract pbEx 1 1
      (zerofprInner (zfCfProblem pbEx psiEx) (ofPanocDir noopDir) ⟨(), false⟩ zfPrEx (fun _ _ => false)
        (fun _ => false) (fun _ => false) (fun _ => false) [] 0 0) :=
  zerofpr_noop_satisfies_inner_contract pbEx 1 1 (zfCfProblem pbEx psiEx) pbEx_zfContract ⟨(), false⟩
    zfPrEx (by norm_num [zfPrEx]) 7 9 zfPrEx_fuelOK rfl (fun _ _ => false) (fun _ _ _ _ h => h)
    (fun _ => false) (fun _ => false) (fun _ => false) [] 0 0

/-- not vacuous: from `x = 1/2` ZeroFPR + L-BFGS reports `Converged` within its budget, having called the
    provider (at least one iteration) -/
example :
    let r := zerofprInner (zfCfProblem pbEx psiEx) (ofPanocDir (lbfgsDir cLz 1)) d0z zfPrEx
      (fun _ _ => false) (fun _ => false) (fun _ => false) (fun _ => false) [] 0 0
      ⟨[1/2], [2], [1], [7], ⟨true, 1/10, 0, false⟩⟩
    r.status = .Converged ∧ 0 < r.stats.iterations ∧ r.eps ≤ 1/10 := by
  decide +kernel

/-- **the whole stack, closed**: ALM (`Props/C07` model) over ZeroFPR + `LBFGSDirection` (freshly
    constructed provider at every inner solve) on `pbEx` from `x = 1/2` returns `Converged`, and
    `alm_zerofpr_lbfgs_certifies_kkt` — every hypothesis discharged — certifies its result. -/
example : KKTCert pbEx 1 (1/10) (1/100)
    (Alpaqa.C07.run (0 : ℚ) 0 (Zerofpr.stats0 (0:ℚ)) (fun _ s => s) almEx probEx [1/2] [2] none
      (zerofprInner (zfCfProblem pbEx psiEx) (ofPanocDir (lbfgsDir cLz 1)) d0z zfPrEx (fun _ _ => false)
        (fun _ => false) (fun _ => false) (fun _ => false) [] 0 0)).x
    (Alpaqa.C07.run (0 : ℚ) 0 (Zerofpr.stats0 (0:ℚ)) (fun _ s => s) almEx probEx [1/2] [2] none
      (zerofprInner (zfCfProblem pbEx psiEx) (ofPanocDir (lbfgsDir cLz 1)) d0z zfPrEx (fun _ _ => false)
        (fun _ => false) (fun _ => false) (fun _ => false) [] 0 0)).y :=
  alm_zerofpr_lbfgs_certifies_kkt (0 : ℚ) 0 (Zerofpr.stats0 (0:ℚ)) (fun _ s => s) almEx probEx [1/2] [2]
    none pbEx 1 (zfCfProblem pbEx psiEx) pbEx_zfContract cLz (by decide) d0z zfPrEx
    (by norm_num [zfPrEx]) 7 9 zfPrEx_fuelOK rfl (fun _ _ => false) (fun _ _ _ _ h => h) (fun _ => false)
    (fun _ => false) (fun _ => false) [] 0 0
    (by decide) pbEx_C pbEx_D (by norm_num [almEx]) (by norm_num [almEx]) trivial rfl rfl
    (by decide +kernel)

end examples

end Alpaqa.Props.ZerofprDirections
