/-
  C20 — what the OCP loader computes itself, and what it must not do.

  1. `DLControlProblem::eval_proj_diff_g` / `eval_proj_multipliers` have no C-ABI member: the loader
     implements them on boxes it queries from the plug-in when it is loaded.  The constructor's box
     logic and the two bodies are regenerated (`Gen/C20.lean`: `dlOCPProj`, `boxProjectBody`,
     `boxProjDiffBody`, `projMultipliersBoxBody`) and pinned here; the model
     (`Model/C20.lean` §4: `dlocpBoxes`, `dlocpProjDiff`, `dlocpProjMult`) is what that text means, is
     executed bit for bit against the real loader by the driver, and is characterised below for all
     horizons, dimensions and vectors.
  2. The registration function of a plug-in is run iff the documented conditions hold; in particular
     never when `<name>_version()` reports another ABI (both loaders).
  3. `check` of the two loaders.
-/
import Alpaqa.Proofs.Basic
import Alpaqa.Props.C20

namespace Alpaqa.Props.C20
open Alpaqa Alpaqa.C20 Alpaqa.Gen.C20

/-! ## 1. The description read from the source -/

/-- constructor: `D = Box{get_nc()}`, `D_N = Box{get_nc_N()}` (unbounded), then `get_D(D)` if the
    plug-in provides it; `get_D_N(D_N)` if provided, else `get_D(D_N)` iff `get_D` is provided and
    `nc_N == nc`.  Bodies: one loop over the `N` stages on segment `[t·nc, t·nc + nc)` with `D`,
    then the terminal segment `[N·nc, N·nc + nc_N)` with `D_N`; the same segments for both. -/
theorem dl_ocp_projection_description :
    dlOCPProj =
      { dims := [("N", "get_N()"), ("nc", "get_nc()"), ("nc_N", "get_nc_N()")],
        boxSizes := [("D", "get_nc()"), ("D_N", "get_nc_N()")],
        boxFill := [("D", "if", "provides_get_D()", "get_D"), ("D_N", "if", "provides_get_D_N()", "get_D_N"),
                    ("D_N", "else if", "provides_get_D() && get_nc_N() == get_nc()", "get_D")],
        diff := [{ loop := some ("t", "N"), off := "t * nc", len := "nc", box := "D" },
                 { loop := none, off := "N * nc", len := "nc_N", box := "D_N" }],
        mult := [{ loop := some ("t", "N"), off := "t * nc", len := "nc", box := "D" },
                 { loop := none, off := "N * nc", len := "nc_N", box := "D_N" }] } := by
  decide

/-- the helpers the two bodies call, as text: `project` = `cwiseMax(lb).cwiseMin(ub)` (`maxLb` then
    `minUb`), `projecting_difference` = `v - project(v)` (`boxDiff`), and
    `eval_proj_multipliers_box` with `penalty_alm_split = 0` = `cwiseMax(lb = -inf ? 0 : -M)` then
    `cwiseMin(ub = +inf ? 0 : +M)` (`boxMult`) -/
theorem box_helper_bodies :
    boxProjectBody = "return v.cwiseMax(box.lowerbound).cwiseMin(box.upperbound);" ∧
    boxProjDiffBody = "return v - project(v, box);" ∧
    projMultipliersBoxBody = "auto num_alm = y.size() - penalty_alm_split; auto y_qpm = y.topRows(penalty_alm_split); auto y_alm = y.bottomRows(num_alm); auto z_alm_lb = D.lowerbound.bottomRows(num_alm); auto z_alm_ub = D.upperbound.bottomRows(num_alm); y_qpm.setZero(); auto y_alm_lb = (z_alm_lb.array() == -alpaqa::inf<config_t>).select(vec::Zero(num_alm), -M); auto y_alm_ub = (z_alm_ub.array() == +alpaqa::inf<config_t>).select(vec::Zero(num_alm), +M); y_alm = y_alm.cwiseMax(y_alm_lb).cwiseMin(y_alm_ub);" :=
  ⟨rfl, rfl, rfl⟩

/-! ## 2. Which boxes -/

section boxes
variable {α : Type}

/-- the stage box is what `get_D` answers, the unbounded box of size `nc` without `get_D` -/
theorem dlocpBoxes_stage (nc ncN : Nat) (getD getDN : Option (BoxO α)) :
    (dlocpBoxes nc ncN getD getDN).1 = match getD with | some b => b | none => infBox nc := by
  cases getD <;> rfl

/-- the terminal box is what `get_D_N` answers when the plug-in has it … -/
theorem dlocpBoxes_terminal_own (nc ncN : Nat) (getD : Option (BoxO α)) (b : BoxO α) :
    (dlocpBoxes nc ncN getD (some b)).2 = b := by
  cases getD <;> rfl

/-- … the stage box iff `get_D_N` is absent, `get_D` present and `nc_N = nc` … -/
theorem dlocpBoxes_terminal_fallback (nc : Nat) (b : BoxO α) :
    (dlocpBoxes nc nc (some b) none).2 = b := by
  simp [dlocpBoxes]

/-- … and unbounded (size `nc_N`) otherwise -/
theorem dlocpBoxes_terminal_unbounded (nc ncN : Nat) (getD : Option (BoxO α))
    (h : getD = none ∨ ncN ≠ nc) : (dlocpBoxes nc ncN getD none).2 = infBox ncN := by
  cases getD with
  | none => rfl
  | some b =>
    rcases h with h | h
    · cases h
    · simp [dlocpBoxes, h]

example : (dlocpBoxes 1 1 (some [(some (0 : Int), none)]) none).2 = [(some 0, none)] ∧
    (dlocpBoxes 1 2 (some [(some (0 : Int), none)]) none).2 = [(none, none), (none, none)] ∧
    (dlocpBoxes 1 1 (none : Option (BoxO Int)) none) = ([(none, none)], [(none, none)]) ∧
    (dlocpBoxes 1 1 (some [(some (0 : Int), none)]) (some [(none, some 3)])).2 = [(none, some 3)] := by decide

end boxes

/-! ## 3. Stage by stage -/

section stagewise
variable {α : Type} [LT α] [DecidableLT α]

omit [LT α] [DecidableLT α] in
theorem tileBox_succ (N : Nat) (D DN : BoxO α) : tileBox (N + 1) D DN = D ++ tileBox N D DN := by
  simp [tileBox, List.replicate_succ]

theorem boxDiff_append [Sub α] (B1 B2 : BoxO α) (z1 z2 : List α) (h : z1.length = B1.length) :
    boxDiff (B1 ++ B2) (z1 ++ z2) = boxDiff B1 z1 ++ boxDiff B2 z2 := by
  unfold boxDiff; exact List.zipWith_append h

theorem boxMult_append [Neg α] [OfNat α 0] (M : α) (B1 B2 : BoxO α) (y1 y2 : List α)
    (h : y1.length = B1.length) :
    boxMult M (B1 ++ B2) (y1 ++ y2) = boxMult M B1 y1 ++ boxMult M B2 y2 := by
  unfold boxMult; exact List.zipWith_append h

/-- **`eval_proj_diff_g`, all horizons / dimensions / vectors**: for a vector made of one block per
    stage (each as long as the stage box) followed by the terminal block, the result is block `t`
    projected on `D` for every stage, then the terminal block projected on `D_N`. -/
theorem dlocpProjDiff_stagewise [Sub α] (D DN : BoxO α) (zs : List (List α)) (zN : List α)
    (hz : ∀ s ∈ zs, s.length = D.length) :
    dlocpProjDiff zs.length D DN (zs.flatten ++ zN) = (zs.map (boxDiff D)).flatten ++ boxDiff DN zN := by
  unfold dlocpProjDiff
  induction zs with
  | nil => simp [tileBox]
  | cons s zs ih =>
    have hs : s.length = D.length := hz s (by simp)
    have ih' := ih (fun t ht => hz t (by simp [ht]))
    simp only [List.length_cons, tileBox_succ, List.flatten_cons, List.append_assoc, List.map_cons]
    rw [boxDiff_append D _ s _ hs, ih']

/-- the same for `eval_proj_multipliers` -/
theorem dlocpProjMult_stagewise [Neg α] [OfNat α 0] (M : α) (D DN : BoxO α) (ys : List (List α))
    (yN : List α) (hy : ∀ s ∈ ys, s.length = D.length) :
    dlocpProjMult ys.length D DN M (ys.flatten ++ yN) = (ys.map (boxMult M D)).flatten ++ boxMult M DN yN := by
  unfold dlocpProjMult
  induction ys with
  | nil => simp [tileBox]
  | cons s ys ih =>
    have hs : s.length = D.length := hy s (by simp)
    have ih' := ih (fun t ht => hy t (by simp [ht]))
    simp only [List.length_cons, tileBox_succ, List.flatten_cons, List.append_assoc, List.map_cons]
    rw [boxMult_append M D _ s _ hs, ih']

example : dlocpProjDiff 2 [(some (0 : Int), some 10)] [(none, some 1)] [-5, 20, 7] = [-5, 10, 6] ∧
    (([[-5], [20]] : List (List Int)).map (boxDiff [(some 0, some 10)])).flatten ++ boxDiff [(none, some 1)] [7] = [-5, 10, 6] ∧
    dlocpProjMult 2 [(some (0 : Int), none)] [(none, none)] 3 [-5, 20, 7] = [-3, 0, 0] := by decide

end stagewise

/-! ## 4. Component by component (any linearly ordered field) -/

section comp
variable {α : Type}

/-- `l ≤ v` for a finite lower bound, nothing for `-inf` -/
def aboveLb [LE α] (lb : Bnd α) (v : α) : Prop := match lb with | none => True | some l => l ≤ v
/-- `v ≤ u` for a finite upper bound, nothing for `+inf` -/
def belowUb [LE α] (v : α) (ub : Bnd α) : Prop := match ub with | none => True | some u => v ≤ u
/-- the bounds of one component do not cross -/
def boundsOK [LE α] (lb ub : Bnd α) : Prop := match lb, ub with | some l, some u => l ≤ u | _, _ => True

/-- what one component of `eval_proj_multipliers_box` computes -/
def multClip [LT α] [DecidableLT α] [Neg α] [OfNat α 0] (M : α) (lb ub : Bnd α) (y : α) : α :=
  emin (emax y (match lb with | none => 0 | some _ => -M)) (match ub with | none => 0 | some _ => M)

theorem boxDiff_eq_map [LT α] [DecidableLT α] [Sub α] (B : BoxO α) (z : List α) :
    boxDiff B z = List.zipWith (fun v b => v - minUb (maxLb v b.1) b.2) z B := rfl

theorem boxMult_eq_map [LT α] [DecidableLT α] [Neg α] [OfNat α 0] (M : α) (B : BoxO α) (y : List α) :
    boxMult M B y = List.zipWith (fun v b => multClip M b.1 b.2 v) y B := rfl

variable [Field α] [LinearOrder α] [IsStrictOrderedRing α]

/-- **one component of `eval_proj_diff_g`** is `v − p` where `p = min(max(v, lb), ub)`: `p` lies in
    the box (when the bounds do not cross), `p = v` when `v` is in the box (the difference is then
    0), and no point of the box is nearer to `v` than `p` -/
theorem project_spec (v : α) (lb ub : Bnd α) (hb : boundsOK lb ub) :
    aboveLb lb (minUb (maxLb v lb) ub) ∧ belowUb (minUb (maxLb v lb) ub) ub ∧
    (aboveLb lb v → belowUb v ub → minUb (maxLb v lb) ub = v) ∧
    (∀ q, aboveLb lb q → belowUb q ub → |v - minUb (maxLb v lb) ub| ≤ |v - q|) := by
  cases lb with
  | none =>
    cases ub with
    | none => simp [maxLb, minUb, aboveLb, belowUb]
    | some u =>
      simp only [maxLb, minUb, emin_eq_min, aboveLb, belowUb, true_implies, true_and]
      refine ⟨min_le_right _ _, fun h => min_eq_left h, fun q hq => ?_⟩
      rcases le_total v u with h | h
      · rw [min_eq_left h]; simp
      · rw [min_eq_right h, abs_of_nonneg (by linarith), abs_of_nonneg (by linarith)]; linarith
  | some l =>
    cases ub with
    | none =>
      simp only [maxLb, minUb, emax_eq_max, aboveLb, belowUb, true_implies, true_and]
      refine ⟨le_max_right _ _, fun h => max_eq_left h, fun q hq => ?_⟩
      rcases le_total l v with h | h
      · rw [max_eq_left h]; simp
      · rw [max_eq_right h, abs_of_nonpos (by linarith), abs_of_nonpos (by linarith)]; linarith
    | some u =>
      have hlu : l ≤ u := hb
      simp only [maxLb, minUb, emax_eq_max, emin_eq_min, aboveLb, belowUb]
      refine ⟨le_min (le_max_right _ _) hlu, min_le_right _ _, fun h1 h2 => ?_, fun q h1 h2 => ?_⟩
      · rw [max_eq_left h1, min_eq_left h2]
      · rcases le_total v l with h | h
        · rw [max_eq_right h, min_eq_left hlu, abs_of_nonpos (by linarith), abs_of_nonpos (by linarith)]
          linarith
        · rw [max_eq_left h]
          rcases le_total v u with h' | h'
          · rw [min_eq_left h']; simp
          · rw [min_eq_right h', abs_of_nonneg (by linarith), abs_of_nonneg (by linarith)]; linarith

/-- **one component of `eval_proj_multipliers`** (for `M ≥ 0`): the result lies in `[−M, M]`; it is
    `≥ 0` where the constraint has no lower bound and `≤ 0` where it has no upper bound ("if
    there's no lower bound, the multipliers can only be positive"); a multiplier that already
    satisfies all this is left unchanged -/
theorem multiplier_spec (M y : α) (hM : 0 ≤ M) (lb ub : Bnd α) :
    -M ≤ multClip M lb ub y ∧ multClip M lb ub y ≤ M ∧
    (lb = none → 0 ≤ multClip M lb ub y) ∧ (ub = none → multClip M lb ub y ≤ 0) ∧
    ((match lb with | none => (0 : α) | some _ => -M) ≤ y →
      y ≤ (match ub with | none => (0 : α) | some _ => M) → multClip M lb ub y = y) := by
  cases lb <;> cases ub <;> simp only [multClip, emax_eq_max, emin_eq_min] <;>
    refine ⟨?_, ?_, ?_, ?_, ?_⟩ <;> intros <;>
    first
    | contradiction
    | (simp only [min_def, max_def]; split_ifs <;> linarith)

example : minUb (maxLb (7 : ℚ) (some 0)) (some 5) = 5 ∧ minUb (maxLb (-7 : ℚ) (some 0)) none = 0 ∧
    minUb (maxLb (3 : ℚ) (some 0)) (some 5) = 3 ∧ boundsOK (some (0 : ℚ)) (some 5) ∧
    multClip (2 : ℚ) (some 0) (some 5) 9 = 2 ∧ multClip (2 : ℚ) (some 0) none 9 = 0 ∧
    multClip (2 : ℚ) none (some 5) (-9) = 0 ∧ multClip (2 : ℚ) (some 0) (some 5) (-1) = -1 := by
  simp only [maxLb, minUb, multClip, boundsOK, emax_eq_max, emin_eq_min]; norm_num

end comp

/-! ## 5. The registration function runs iff documented -/

/-- **both loaders, every plug-in description**: the constructor (interpreted from the regenerated
    step list) runs the plug-in's registration function iff the library opens, `<name>_version()`
    — when exported — reports this ABI, and the registration symbol exists. -/
theorem register_called_iff_documented (d : PluginDescr) :
    registerCalled invalidAbiDerivesFromDynamicLoadError dlNLP.ctor d = registerSpec d ∧
    registerCalled invalidAbiDerivesFromDynamicLoadError dlOCP.ctor d = registerSpec d := by
  have h : PluginDescr.all.all (fun d =>
      registerCalled invalidAbiDerivesFromDynamicLoadError dlNLP.ctor d == registerSpec d &&
      registerCalled invalidAbiDerivesFromDynamicLoadError dlOCP.ctor d == registerSpec d) = true := by decide
  rw [List.all_eq_true] at h
  have := h d (descr_all_complete d)
  simpa using this

/-- in particular: a plug-in whose `<name>_version()` reports another ABI is rejected *before* any of
    its code beyond the version function runs, whatever the struct it would return carries -/
theorem register_not_called_on_version_mismatch (d : PluginDescr) (h : d.versionSym = .mismatch) :
    registerCalled invalidAbiDerivesFromDynamicLoadError dlNLP.ctor d = false ∧
    registerCalled invalidAbiDerivesFromDynamicLoadError dlOCP.ctor d = false ∧
    load invalidAbiDerivesFromDynamicLoadError dlNLP.ctor d ≠ .ok true ∧
    load invalidAbiDerivesFromDynamicLoadError dlOCP.ctor d ≠ .ok false := by
  obtain ⟨h1, h2⟩ := register_called_iff_documented d
  have hs : registerSpec d = false := by simp [registerSpec, h]
  refine ⟨by rw [h1, hs], by rw [h2, hs], ?_, ?_⟩
  · rw [loader_decision_nlp]; unfold loadSpec; rw [h]; split <;> [simp; (split <;> simp)]
  · rw [loader_decision_ocp]; unfold loadSpec; rw [h]; split <;> [simp; (split <;> simp)]

/-- the version function reports another ABI while the returned struct would carry the current one
    (the plug-ins `c20_badversion` / `c20_ocp_badversion`), and the converse (`c20_badabi`) -/
example :
    registerCalled invalidAbiDerivesFromDynamicLoadError dlOCP.ctor ⟨false, true, .mismatch, true, true, false, true⟩ = false ∧
    load invalidAbiDerivesFromDynamicLoadError dlOCP.ctor ⟨false, true, .mismatch, true, true, false, true⟩ = .error .abiMismatch ∧
    registerCalled invalidAbiDerivesFromDynamicLoadError dlOCP.ctor ⟨false, true, .good, true, false, false, true⟩ = true ∧
    load invalidAbiDerivesFromDynamicLoadError dlOCP.ctor ⟨false, true, .good, true, false, false, true⟩ = .error .abiMismatch ∧
    registerCalled invalidAbiDerivesFromDynamicLoadError dlNLP.ctor ⟨false, true, .missing, true, true, false, true⟩ = true := by
  decide

/-! ## 6. `check` -/

/-- `DLControlProblem::check` is defined inline in dl-problem.hpp with an EMPTY body (the C ABI has no
    member for it; nothing is validated) — this is what the exemption `("check", …)` of
    `vtNotForwardedOCP` rests on: it breaks as soon as a body appears.  `DLProblem` defines no
    `check` of its own (inline or not) and inherits `BoxConstrProblem::check`. -/
theorem dl_check_bodies :
    dlOCP.inlineBodies = [("check", "")] ∧ dlNLP.inlineBodies = [] ∧
    dlNLP.declared.contains "check" = false ∧ dlNLP.own.contains "check" = false ∧
    boxConstrDeclared.contains "check" = true ∧
    dlOCP.fwd.all (fun e => e.method != "check") = true := by decide

end Alpaqa.Props.C20
