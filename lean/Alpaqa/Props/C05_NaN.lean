/-
  C05 — the acceptance tests reject a NaN cost (finding `C05-nan-cost-passes-acceptance-tests`, fixed).

  The generated kernels `<solver>_qubViolated` / `<solver>_linesearchViolated` (`Alpaqa/Gen/C05.lean`,
  regenerated from /repo's `qub_violated` / `linesearch_violated` lambdas on every run) are evaluated here on
  `XR β` — finite values, `±inf`, `nan` with IEEE-754 comparison and arithmetic (`Model/XR`, `Proofs/C06Spec`):

  * `*_qub_rejects_nan`: a NaN `ψ(x̂)` violates the quadratic-upper-bound test whatever the other operands are
    (finite, infinite or NaN) — all five solvers;
  * `*_qub_accept_not_nan`: an accepted test (`= false`) means neither `ψ(x̂)` nor `ψ(x)` is NaN;
  * `*_ls_rejects_nan`: a candidate whose `ψ` is NaN (hence a NaN envelope) violates the line-search test
    (PANOC, ZeroFPR, PANOC-OCP; `force_linesearch = false`), `*_ls_accept_not_nan`: accepted ⇒ `ψ(next)` not NaN;
  * `*_qubViolated_eq_gt` / `*_linesearchViolated_eq_gt`: over a linearly ordered field (no NaN) the tests are
    the strict comparisons `ψ(x̂) > bound`, `φ(next) > bound` the descent theorems were stated for: the way the
    comparison is written matters for NaN only.

  With the kernels written as `a > b` (the code before the repair) the first four families are false:
  `nan > b` is false, the test passes.  They fail to build against such a source.
-/
import Alpaqa.Gen.C05
import Alpaqa.Model.XR
import Alpaqa.Proofs.C06Spec
import Alpaqa.Proofs.Basic
import Mathlib.Tactic.Linarith
import Mathlib.Tactic.NormNum

namespace Alpaqa.Props.C05NaN
open Alpaqa Alpaqa.Gen

/-! ### IEEE facts on `XR β` used below -/
set_option linter.unusedSectionVars false
section xr
variable {β : Type} [Field β] [LinearOrder β] [IsStrictOrderedRing β]

/-- `nan ≤ b` is false. -/
theorem nan_le_false (b : XR β) : decide ((XR.nan : XR β) ≤ b) = false := by
  have : XR.leb (XR.nan : XR β) b = false := by cases b <;> rfl
  simpa [LE.le] using this

/-- `a ≤ nan` is false. -/
theorem le_nan_false (a : XR β) : decide (a ≤ (XR.nan : XR β)) = false := by
  have : XR.leb a (XR.nan : XR β) = false := by cases a <;> rfl
  simpa [LE.le] using this

theorem nan_add (x : XR β) : (XR.nan : XR β) + x = XR.nan := by
  show XR.add XR.nan x = XR.nan
  cases x <;> rfl

theorem add_nan (x : XR β) : x + (XR.nan : XR β) = XR.nan := by
  show XR.add x XR.nan = XR.nan
  cases x <;> rfl

theorem nan_sub (x : XR β) : (XR.nan : XR β) - x = XR.nan := by
  show XR.add XR.nan (XR.neg x) = XR.nan
  cases x <;> rfl

theorem isNaN_iff (x : XR β) : RealLike.isNaN x = true ↔ x = XR.nan := by
  cases x <;> simp [RealLike.isNaN]

end xr

/-! ### Quadratic upper bound: a NaN `ψ(x̂)` is never accepted -/
section qub
variable {β : Type} [Field β] [LinearOrder β] [IsStrictOrderedRing β]

/-- **PANOC: a NaN `ψ(x̂)` violates the quadratic-upper-bound test**, for every tolerance, `ψ(x)`, `∇ψᵀp`, `L`,
    `‖p‖²` in `XR β` (finite, `±inf` or NaN). -/
theorem panoc_qub_rejects_nan (tol ψ g L pTp : XR β) :
    panoc_qubViolated tol ψ XR.nan g L pTp = true := by
  simp [panoc_qubViolated, nan_le_false]

theorem zerofpr_qub_rejects_nan (tol ψ g L pTp : XR β) :
    zerofpr_qubViolated tol ψ XR.nan g L pTp = true := by
  simp [zerofpr_qubViolated, nan_le_false]

theorem pantr_qub_rejects_nan (tol ψ g L pTp : XR β) :
    pantr_qubViolated tol ψ XR.nan g L pTp = true := by
  simp [pantr_qubViolated, nan_le_false]

theorem fista_qub_rejects_nan (tol ψ g L pTp : XR β) :
    fista_qubViolated tol ψ XR.nan g L pTp = true := by
  simp [fista_qubViolated, nan_le_false]

theorem ocp_qub_rejects_nan (tol ψ g L pTp : XR β) :
    ocp_qubViolated tol ψ XR.nan g L pTp = true := by
  simp [ocp_qubViolated, nan_le_false]

/-- **PANOC: an accepted quadratic-upper-bound test means no NaN on either side**: neither `ψ(x̂)` nor `ψ(x)`
    (which makes the bound NaN) is NaN. -/
theorem panoc_qub_accept_not_nan (tol ψ ψh g L pTp : XR β)
    (h : panoc_qubViolated tol ψ ψh g L pTp = false) :
    RealLike.isNaN ψh = false ∧ RealLike.isNaN ψ = false := by
  constructor
  · cases hn : RealLike.isNaN ψh
    · rfl
    · rw [(isNaN_iff ψh).mp hn, panoc_qub_rejects_nan] at h; cases h
  · cases hn : RealLike.isNaN ψ
    · rfl
    · rw [(isNaN_iff ψ).mp hn] at h
      simp [panoc_qubViolated, nan_add, le_nan_false] at h

theorem zerofpr_qub_accept_not_nan (tol ψ ψh g L pTp : XR β)
    (h : zerofpr_qubViolated tol ψ ψh g L pTp = false) :
    RealLike.isNaN ψh = false ∧ RealLike.isNaN ψ = false := by
  constructor
  · cases hn : RealLike.isNaN ψh
    · rfl
    · rw [(isNaN_iff ψh).mp hn, zerofpr_qub_rejects_nan] at h; cases h
  · cases hn : RealLike.isNaN ψ
    · rfl
    · rw [(isNaN_iff ψ).mp hn] at h
      simp [zerofpr_qubViolated, nan_add, le_nan_false] at h

theorem pantr_qub_accept_not_nan (tol ψ ψh g L pTp : XR β)
    (h : pantr_qubViolated tol ψ ψh g L pTp = false) :
    RealLike.isNaN ψh = false ∧ RealLike.isNaN ψ = false := by
  constructor
  · cases hn : RealLike.isNaN ψh
    · rfl
    · rw [(isNaN_iff ψh).mp hn, pantr_qub_rejects_nan] at h; cases h
  · cases hn : RealLike.isNaN ψ
    · rfl
    · rw [(isNaN_iff ψ).mp hn] at h
      simp [pantr_qubViolated, nan_add, le_nan_false] at h

theorem fista_qub_accept_not_nan (tol ψ ψh g L pTp : XR β)
    (h : fista_qubViolated tol ψ ψh g L pTp = false) :
    RealLike.isNaN ψh = false ∧ RealLike.isNaN ψ = false := by
  constructor
  · cases hn : RealLike.isNaN ψh
    · rfl
    · rw [(isNaN_iff ψh).mp hn, fista_qub_rejects_nan] at h; cases h
  · cases hn : RealLike.isNaN ψ
    · rfl
    · rw [(isNaN_iff ψ).mp hn] at h
      simp [fista_qubViolated, nan_add, le_nan_false] at h

theorem ocp_qub_accept_not_nan (tol ψ ψh g L pTp : XR β)
    (h : ocp_qubViolated tol ψ ψh g L pTp = false) :
    RealLike.isNaN ψh = false ∧ RealLike.isNaN ψ = false := by
  constructor
  · cases hn : RealLike.isNaN ψh
    · rfl
    · rw [(isNaN_iff ψh).mp hn, ocp_qub_rejects_nan] at h; cases h
  · cases hn : RealLike.isNaN ψ
    · rfl
    · rw [(isNaN_iff ψ).mp hn] at h
      simp [ocp_qubViolated, nan_add, le_nan_false] at h

end qub

/-! ### Line search: a candidate with a NaN cost is never accepted -/
section ls
variable {β : Type} [Field β] [LinearOrder β] [IsStrictOrderedRing β]

/-- **PANOC: a candidate whose `ψ` is NaN violates the line-search test** (not forced), whatever the current
    iterate and the other fields of the candidate are. -/
theorem panoc_ls_rejects_nan (b tol cψ ch cpTp cγ cg cL nh npTp nγ ng : XR β) :
    panoc_linesearchViolated false b tol cψ ch cpTp cγ cg cL XR.nan nh npTp nγ ng = true := by
  simp [panoc_linesearchViolated, panoc_fbe, nan_add, nan_le_false]

theorem zerofpr_ls_rejects_nan (b tol cψ ch cpTp cγ cg cL nh npTp nγ ng : XR β) :
    zerofpr_linesearchViolated false b tol cψ ch cpTp cγ cg cL XR.nan nh npTp nγ ng = true := by
  simp [zerofpr_linesearchViolated, zerofpr_fbe, nan_add, nan_le_false]

theorem ocp_ls_rejects_nan (f : Bool) (b tol cψ cpTp cγ cg cL npTp nγ ng : XR β) :
    ocp_linesearchViolated f b tol cψ cpTp cγ cg cL XR.nan npTp nγ ng = true := by
  simp [ocp_linesearchViolated, ocp_fbe, nan_add, nan_le_false]

/-- … and a NaN envelope of the *current* iterate (`ψ(x)` NaN) makes the bound NaN: nothing is accepted
    against it either. -/
theorem panoc_ls_rejects_nan_curr (b tol ch cpTp cγ cg cL nψ nh npTp nγ ng : XR β) :
    panoc_linesearchViolated false b tol XR.nan ch cpTp cγ cg cL nψ nh npTp nγ ng = true := by
  simp [panoc_linesearchViolated, panoc_fbe, nan_add, nan_sub, le_nan_false]

theorem zerofpr_ls_rejects_nan_curr (b tol ch cpTp cγ cg cL nψ nh npTp nγ ng : XR β) :
    zerofpr_linesearchViolated false b tol XR.nan ch cpTp cγ cg cL nψ nh npTp nγ ng = true := by
  simp [zerofpr_linesearchViolated, zerofpr_fbe, nan_add, nan_sub, le_nan_false]

theorem ocp_ls_rejects_nan_curr (f : Bool) (b tol cpTp cγ cg cL nψ npTp nγ ng : XR β) :
    ocp_linesearchViolated f b tol XR.nan cpTp cγ cg cL nψ npTp nγ ng = true := by
  simp [ocp_linesearchViolated, ocp_fbe, nan_add, nan_sub, le_nan_false]

/-- **An accepted line-search test means the candidate's cost is not NaN** (nor the current one's). -/
theorem panoc_ls_accept_not_nan (b tol cψ ch cpTp cγ cg cL nψ nh npTp nγ ng : XR β)
    (h : panoc_linesearchViolated false b tol cψ ch cpTp cγ cg cL nψ nh npTp nγ ng = false) :
    RealLike.isNaN nψ = false ∧ RealLike.isNaN cψ = false := by
  constructor
  · cases hn : RealLike.isNaN nψ
    · rfl
    · rw [(isNaN_iff nψ).mp hn, panoc_ls_rejects_nan] at h; cases h
  · cases hn : RealLike.isNaN cψ
    · rfl
    · rw [(isNaN_iff cψ).mp hn, panoc_ls_rejects_nan_curr] at h; cases h

theorem zerofpr_ls_accept_not_nan (b tol cψ ch cpTp cγ cg cL nψ nh npTp nγ ng : XR β)
    (h : zerofpr_linesearchViolated false b tol cψ ch cpTp cγ cg cL nψ nh npTp nγ ng = false) :
    RealLike.isNaN nψ = false ∧ RealLike.isNaN cψ = false := by
  constructor
  · cases hn : RealLike.isNaN nψ
    · rfl
    · rw [(isNaN_iff nψ).mp hn, zerofpr_ls_rejects_nan] at h; cases h
  · cases hn : RealLike.isNaN cψ
    · rfl
    · rw [(isNaN_iff cψ).mp hn, zerofpr_ls_rejects_nan_curr] at h; cases h

theorem ocp_ls_accept_not_nan (f : Bool) (b tol cψ cpTp cγ cg cL nψ npTp nγ ng : XR β)
    (h : ocp_linesearchViolated f b tol cψ cpTp cγ cg cL nψ npTp nγ ng = false) :
    RealLike.isNaN nψ = false ∧ RealLike.isNaN cψ = false := by
  constructor
  · cases hn : RealLike.isNaN nψ
    · rfl
    · rw [(isNaN_iff nψ).mp hn, ocp_ls_rejects_nan] at h; cases h
  · cases hn : RealLike.isNaN cψ
    · rfl
    · rw [(isNaN_iff cψ).mp hn, ocp_ls_rejects_nan_curr] at h; cases h

end ls

/-! ### Without NaN the tests are the strict comparisons of the descent theorems -/
section field
variable {α : Type} [Field α] [LinearOrder α] [IsStrictOrderedRing α] [RealLike α]

omit [Field α] [IsStrictOrderedRing α] [RealLike α] in
/-- over a linear order `!(a ≤ b)` is `a > b` -/
theorem not_decide_le (a b : α) : (!decide (a ≤ b)) = decide (a > b) := by
  by_cases h : a ≤ b
  · simp [h, not_lt.mpr h]
  · simp [h, not_le.mp h]

theorem panoc_qubViolated_eq_gt (tol ψ ψh g L pTp : α) :
    panoc_qubViolated tol ψ ψh g L pTp = decide (ψh > ψ + g + 0.5 * L * pTp + (1 + |ψ|) * tol) := by
  simp only [panoc_qubViolated, eabs_eq_abs, not_decide_le]

theorem zerofpr_qubViolated_eq_gt (tol ψ ψh g L pTp : α) :
    zerofpr_qubViolated tol ψ ψh g L pTp = decide (ψh > ψ + g + 0.5 * L * pTp + (1 + |ψ|) * tol) := by
  simp only [zerofpr_qubViolated, eabs_eq_abs, not_decide_le]

theorem pantr_qubViolated_eq_gt (tol ψ ψh g L pTp : α) :
    pantr_qubViolated tol ψ ψh g L pTp = decide (ψh > ψ + g + 0.5 * L * pTp + (1 + |ψ|) * tol) := by
  simp only [pantr_qubViolated, eabs_eq_abs, not_decide_le]

theorem fista_qubViolated_eq_gt (tol ψ ψh g L pTp : α) :
    fista_qubViolated tol ψ ψh g L pTp = decide (ψh > ψ + g + 0.5 * L * pTp + (1 + |ψ|) * tol) := by
  simp only [fista_qubViolated, eabs_eq_abs, not_decide_le]

theorem ocp_qubViolated_eq_gt (tol ψ ψh g L pTp : α) :
    ocp_qubViolated tol ψ ψh g L pTp = decide (ψh > ψ + g + 0.5 * L * pTp + (1 + |ψ|) * tol) := by
  simp only [ocp_qubViolated, eabs_eq_abs, not_decide_le]

theorem panoc_linesearchViolated_eq_gt (b tol cψ ch cpTp cγ cg cL nψ nh npTp nγ ng : α) :
    panoc_linesearchViolated false b tol cψ ch cpTp cγ cg cL nψ nh npTp nγ ng =
      decide (panoc_fbe nψ nh npTp nγ ng >
        panoc_fbe cψ ch cpTp cγ cg - b * (1 - cγ * cL) / (2 * cγ) * cpTp
          + (1 + |panoc_fbe cψ ch cpTp cγ cg|) * tol) := by
  simp only [panoc_linesearchViolated, eabs_eq_abs, not_decide_le, Bool.false_eq_true, if_false]

theorem zerofpr_linesearchViolated_eq_gt (b tol cψ ch cpTp cγ cg cL nψ nh npTp nγ ng : α) :
    zerofpr_linesearchViolated false b tol cψ ch cpTp cγ cg cL nψ nh npTp nγ ng =
      decide (zerofpr_fbe nψ nh npTp nγ ng >
        zerofpr_fbe cψ ch cpTp cγ cg - b * (1 - cγ * cL) / (2 * cγ) * cpTp
          + (1 + |zerofpr_fbe cψ ch cpTp cγ cg|) * tol) := by
  simp only [zerofpr_linesearchViolated, eabs_eq_abs, not_decide_le, Bool.false_eq_true, if_false]

theorem ocp_linesearchViolated_eq_gt (f : Bool) (b tol cψ cpTp cγ cg cL nψ npTp nγ ng : α) :
    ocp_linesearchViolated f b tol cψ cpTp cγ cg cL nψ npTp nγ ng =
      decide (ocp_fbe nψ npTp nγ ng >
        ocp_fbe cψ cpTp cγ cg - b * (1 - cγ * cL) / (2 * cγ) * cpTp
          + (1 + |ocp_fbe cψ cpTp cγ cg|) * tol) := by
  simp only [ocp_linesearchViolated, eabs_eq_abs, not_decide_le]

end field

/-! ### Non-vacuity / concrete values (`XR ℚ`) -/

-- a NaN ψ(x̂) with ordinary finite data: rejected
example : panoc_qubViolated (XR.fin (1/100 : ℚ)) (XR.fin 3) XR.nan (XR.fin (-1)) (XR.fin 2) (XR.fin 1) = true :=
  panoc_qub_rejects_nan _ _ _ _ _
-- `+inf` is rejected as before, a value below the bound is accepted, one above is rejected
example : panoc_qubViolated (XR.fin (0 : ℚ)) (XR.fin 3) XR.pinf (XR.fin (-1)) (XR.fin 2) (XR.fin 1) = true := by
  decide +kernel
example : panoc_qubViolated (XR.fin (0 : ℚ)) (XR.fin 3) (XR.fin 2) (XR.fin (-1)) (XR.fin 2) (XR.fin 1) = false := by
  decide +kernel
example : panoc_qubViolated (XR.fin (0 : ℚ)) (XR.fin 3) (XR.fin 4) (XR.fin (-1)) (XR.fin 2) (XR.fin 1) = true := by
  decide +kernel
-- the hypothesis of `panoc_qub_accept_not_nan` is satisfiable
example : RealLike.isNaN (XR.fin (2 : ℚ)) = false ∧ RealLike.isNaN (XR.fin (3 : ℚ)) = false :=
  panoc_qub_accept_not_nan (XR.fin 0) (XR.fin 3) (XR.fin 2) (XR.fin (-1)) (XR.fin 2) (XR.fin 1) (by decide +kernel)
-- line search: candidate with NaN cost rejected; a candidate with smaller envelope accepted
example : ocp_linesearchViolated false (XR.fin (1/2 : ℚ)) (XR.fin 0) (XR.fin 3) (XR.fin 1) (XR.fin (1/4)) (XR.fin (-1))
    (XR.fin 2) XR.nan (XR.fin 1) (XR.fin (1/4)) (XR.fin 0) = true :=
  ocp_ls_rejects_nan _ _ _ _ _ _ _ _ _ _ _
example : ocp_linesearchViolated false (XR.fin (1/2 : ℚ)) (XR.fin 0) (XR.fin 3) (XR.fin 1) (XR.fin (1/4)) (XR.fin (-1))
    (XR.fin 2) (XR.fin 0) (XR.fin 1) (XR.fin (1/4)) (XR.fin 0) = false := by
  decide +kernel

end Alpaqa.Props.C05NaN
