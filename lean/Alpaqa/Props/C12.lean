/-
  C12 — OCP cost, adjoint gradient and masked Riccati (Gauss-Newton) step are exact.

  * The storage layout (`OCPVars.*Start / *Len`) and the `IndexSet` loops (`buildJ`,
    `computeComplement`) are regenerated from /repo's C++ on every run (`Alpaqa/Gen/C12.lean`).
  * `forward`, `backward`, `factorMasked`, `solveMasked`, `indexSetUpdate` are the hand models of
    `Alpaqa/Model/C12.lean`, tied to the real code by the correspondence run of `checks/c12.py`.
  All theorems hold over every (linearly ordered) field, for every horizon, every dimension tuple,
  every user function (oracle) and every mask; IEEE rounding is not modelled.

  PURE FUNCTIONS vs. C++ OBJECTS.  `forward`, `forwardSimulate`, `backward`, `factorMasked`,
  `solveMasked` are pure functions of the data they are handed (the storage vector, `D`, `D_N`, `μ`,
  `y`; the per-stage LQR data and masks).  The C++ `OCPEvaluator` is an object with mutable work
  vectors (`work_x`, `work_λ`, `work_c`, …) and `StatefulLQRFactor` keeps `P`, `gain_K`, `e`, `s`, …
  between calls; `panoc-ocp.tpp` uses ONE of each for a whole solve and interleaves calls on different
  storages (`forward` of a rejected candidate between `forward` and `backward` of the iterate that is
  kept; `take_safe_step` copies `x̂` and calls only `backward`; `initial_lipschitz_estimate` calls
  `forward_simulate` then `backward`).  The theorems below therefore speak about one call on the
  storage it is handed; that the real objects' answers do not depend on their call history is NOT a
  theorem — it is what the call-sequence correspondence of `checks/c12.py` ties: `fbs` ops (one
  evaluator, K ≥ 3 storages with different constraint activity, seeded sequences of
  forward / forward_simulate / backward / copy, compared bit for bit with these pure functions and
  monitored against the exact gradient at the storage handed to `backward`) and `rics` sequences
  (one factor object across cases, bit-identical to a fresh object).
-/
import Alpaqa.Proofs.C12Layout
import Alpaqa.Proofs.C12Compl
import Alpaqa.Proofs.C12Forward
import Alpaqa.Proofs.C12Sim
import Alpaqa.Proofs.C12Penalty
import Alpaqa.Proofs.C12Adjoint
import Alpaqa.Proofs.C12Riccati
import Alpaqa.Proofs.C12Optimal
import Alpaqa.Proofs.C12Deriv
import Alpaqa.Proofs.C12AffQuad
import Mathlib.Tactic.NormNum
import Mathlib.Algebra.Order.Field.Rat

namespace Alpaqa.Props.C12
open Alpaqa Alpaqa.C12 Alpaqa.Gen.C12 OCPVars
set_option linter.unusedSectionVars false

/-! ### 1. Storage layout of `OCPVariables` (generated index formulas) -/

/-- For all `N, nx, nu, nh, nc, nh_N, nc_N ≥ 0`: the segments `xk uk hk ck` (`t < N`) and
    `xk hk ck` (`t = N`) of the storage vector are pairwise disjoint and inside
    `[0, create().size())`.  (`segValid`: `uk` exists for `t < N`, the others for `t ≤ N`.) -/
theorem layout_disjoint_inbounds (N nx nu nh nc nhN ncN : Nat) (k k' : Kind) (t t' : Nat)
    (hv : segValid N k t) (hv' : segValid N k' t') (hne : k ≠ k' ∨ t ≠ t') :
    segDisj (segStart (OCPVars.ofProblem N nx nu nh nc nhN ncN) k t)
            (segLen (OCPVars.ofProblem N nx nu nh nc nhN ncN) k t)
            (segStart (OCPVars.ofProblem N nx nu nh nc nhN ncN) k' t')
            (segLen (OCPVars.ofProblem N nx nu nh nc nhN ncN) k' t') ∧
    segStart (OCPVars.ofProblem N nx nu nh nc nhN ncN) k t +
      segLen (OCPVars.ofProblem N nx nu nh nc nhN ncN) k t ≤
      (OCPVars.ofProblem N nx nu nh nc nhN ncN).createSize :=
  layout_core N nx nu nh nc nhN ncN k k' t t' hv hv' hne

/-- The segments have the dimensions of the problem, `xuk(t)` is `xk(t)` followed by `uk(t)`. -/
theorem layout_dimensions (N nx nu nh nc nhN ncN t : Nat) :
    (OCPVars.ofProblem N nx nu nh nc nhN ncN).xkLen t = nx ∧
    (OCPVars.ofProblem N nx nu nh nc nhN ncN).ukLen t = nu ∧
    (OCPVars.ofProblem N nx nu nh nc nhN ncN).hkLen t = (if t < N then nh else nhN) ∧
    (OCPVars.ofProblem N nx nu nh nc nhN ncN).ckLen t = (if t < N then nc else ncN) ∧
    (OCPVars.ofProblem N nx nu nh nc nhN ncN).xukStart t =
      (OCPVars.ofProblem N nx nu nh nc nhN ncN).xkStart t ∧
    (OCPVars.ofProblem N nx nu nh nc nhN ncN).ukStart t =
      (OCPVars.ofProblem N nx nu nh nc nhN ncN).xkStart t + nx ∧
    (OCPVars.ofProblem N nx nu nh nc nhN ncN).xukLen t = nx + nu :=
  ⟨xkLen_ofProblem .., ukLen_ofProblem .., hkLen_ofProblem .., ckLen_ofProblem ..,
   (xuk_contiguous ..).1, (xuk_contiguous ..).2, xukLen_ofProblem ..⟩

/-- The `qr` vector: `qk(t)` (`t ≤ N`) and `rk(t)` (`t < N`) are pairwise disjoint and inside
    `[0, create_qr().size())`. -/
theorem qr_layout_disjoint_inbounds (N nx nu nh nc nhN ncN : Nat) (k k' : Bool) (t t' : Nat)
    (hv : qrValid N k t) (hv' : qrValid N k' t') (hne : k ≠ k' ∨ t ≠ t') :
    segDisj (qrStart (OCPVars.ofProblem N nx nu nh nc nhN ncN) k t)
            (qrLen (OCPVars.ofProblem N nx nu nh nc nhN ncN) k t)
            (qrStart (OCPVars.ofProblem N nx nu nh nc nhN ncN) k' t')
            (qrLen (OCPVars.ofProblem N nx nu nh nc nhN ncN) k' t') ∧
    qrStart (OCPVars.ofProblem N nx nu nh nc nhN ncN) k t +
      qrLen (OCPVars.ofProblem N nx nu nh nc nhN ncN) k t ≤
      (OCPVars.ofProblem N nx nu nh nc nhN ncN).createQrSize :=
  qr_layout_core N nx nu nh nc nhN ncN k k' t t' hv hv' hne

/-- The `AB` matrix: the column blocks `Ak(t)`, `Bk(t)` (`t < N`) are pairwise disjoint, inside
    `[0, create_AB().cols())`, and the matrix has `nx` rows. -/
theorem ab_layout_disjoint_inbounds (N nx nu nh nc nhN ncN : Nat) (k k' : Bool) (t t' : Nat)
    (hv : t < N) (hv' : t' < N) (hne : k ≠ k' ∨ t ≠ t') :
    segDisj (abStart (OCPVars.ofProblem N nx nu nh nc nhN ncN) k t)
            (abLen (OCPVars.ofProblem N nx nu nh nc nhN ncN) k t)
            (abStart (OCPVars.ofProblem N nx nu nh nc nhN ncN) k' t')
            (abLen (OCPVars.ofProblem N nx nu nh nc nhN ncN) k' t') ∧
    abStart (OCPVars.ofProblem N nx nu nh nc nhN ncN) k t +
      abLen (OCPVars.ofProblem N nx nu nh nc nhN ncN) k t ≤
      (OCPVars.ofProblem N nx nu nh nc nhN ncN).createABCols ∧
    (OCPVars.ofProblem N nx nu nh nc nhN ncN).createABRows = nx :=
  ab_layout_core N nx nu nh nc nhN ncN k k' t t' hv hv' hne

example : (OCPVars.ofProblem 2 2 1 1 2 3 1).createSize = 18 ∧
    (OCPVars.ofProblem 2 2 1 1 2 3 1).hkStart 2 = 14 ∧
    (OCPVars.ofProblem 2 2 1 1 2 3 1).ckStart 1 = 10 := by decide
example : segValid 2 Kind.u 1 ∧ segValid 2 Kind.c 2 ∧ ¬ segValid 2 Kind.u 2 := by
  simp [segValid]

/-! ### 2. `IndexSet::update` / `compute_complement` (generated loops) -/

/-- For every predicate (every mask) and every `n`: `J` = the indices satisfying it, ascending;
    `K` = the ascending complement; `J ++ K` is a permutation of `range n`. -/
theorem complement_spec (cond : Nat → Bool) (n : Nat) :
    buildJ cond n = (List.range n).filter cond ∧
    computeComplement (buildJ cond n) n = (List.range n).filter (fun i => !cond i) ∧
    (buildJ cond n).Pairwise (· < ·) ∧
    (computeComplement (buildJ cond n) n).Pairwise (· < ·) ∧
    (buildJ cond n ++ computeComplement (buildJ cond n) n).Perm (List.range n) := by
  have hJ := buildJ_eq cond n
  have hK : computeComplement (buildJ cond n) n = (List.range n).filter (fun i => !cond i) := by
    rw [hJ]; exact computeComplement_eq cond n
  refine ⟨hJ, hK, ?_, ?_, ?_⟩
  · rw [hJ]; exact List.Pairwise.filter _ List.pairwise_lt_range
  · rw [hK]; exact List.Pairwise.filter _ List.pairwise_lt_range
  · rw [hK, hJ]; exact List.filter_append_perm cond (List.range n)

/-- `IndexSet::update` does this for every time step. -/
theorem indexSet_update_spec (cond : Nat → Nat → Bool) (N n t : Nat) (ht : t < N) :
    (indexSetUpdate cond N n).getD t ([], []) =
      ((List.range n).filter (cond t), (List.range n).filter (fun i => !cond t i)) := by
  unfold indexSetUpdate
  rw [List.getD_eq_getElem?_getD, List.getElem?_map, List.getElem?_range ht]
  simp only [Option.map_some, Option.getD_some]
  rw [(complement_spec (cond t) n).2.1, (complement_spec (cond t) n).1]

example : buildJ (fun i => i % 2 == 0) 5 = [0, 2, 4] ∧
    computeComplement (buildJ (fun i => i % 2 == 0) 5) 5 = [1, 3] := by decide
example : computeComplement [] 3 = [0, 1, 2] ∧ computeComplement [0, 1, 2] 3 = [] := by decide

/-! ### 3. `forward` = Σ stage costs + terminal cost + ½ Σ μ-weighted squared box distance -/
section forward
variable {α : Type} [Field α] [LinearOrder α] [IsStrictOrderedRing α]

/-- For every horizon, all dimensions (`nh = 0`: the stage cost acts on `(x;u)`; `nc = 0`: no
    stage penalty; `nh_N = 0`, `nc_N = 0` likewise — in particular terminal-only constraints),
    every problem (oracles `P`), every `μ`, `y`, boxes with infinite sides, and every storage vector
    holding `x_init` and the inputs `u_t`:  the value returned by `forward` is
    `Σ_t [ℓ_t(h_t(x_t,u_t)) + ½·dist²_μ(c_t(x_t) + y_t/μ_t, D)] + ℓ_N(h_N(x_N)) + ½·dist²_μ(…, D_N)`
    along the trajectory `x_{t+1} = f_t(x_t, u_t)` simulated from `x₀ = x_init`
    (`stageCost`, `terminalCost`, `traj`; `penaltyTerm_spec` below unfolds the penalty). -/
theorem forward_eq_spec (N nx nu nh nc nhN ncN : Nat) (P : OCP α)
    (hw : WellDim P nx nh nc nhN ncN) (D DN : Box α) (μ y st x0 : Vec α) (U : Nat → Vec α)
    (hlen : st.length = (OCPVars.ofProblem N nx nu nh nc nhN ncN).createSize)
    (hx0 : getSeg st ((OCPVars.ofProblem N nx nu nh nc nhN ncN).xkStart 0)
      ((OCPVars.ofProblem N nx nu nh nc nhN ncN).xkLen 0) = x0)
    (hU : ∀ t < N, getSeg st ((OCPVars.ofProblem N nx nu nh nc nhN ncN).ukStart t)
      ((OCPVars.ofProblem N nx nu nh nc nhN ncN).ukLen t) = U t) :
    (forward P (OCPVars.ofProblem N nx nu nh nc nhN ncN) D DN μ y st).2 =
      ∑ t ∈ Finset.range N, stageCost P nh nc D μ y t (traj P x0 U t) (U t)
        + terminalCost P N nc nhN ncN DN μ y (traj P x0 U N) :=
  (forward_spec N nx nu nh nc nhN ncN P hw D DN μ y st x0 U hlen hx0 hU).1

/-- `forward` is a function of the storage it is handed (and `D`, `D_N`, `μ`, `y`) alone: this
    theorem and `backward_adjoint` say nothing about which calls the C++ evaluator object served
    before — see "PURE FUNCTIONS vs. C++ OBJECTS" in the file header (`fbs` correspondence).

    …and afterwards the storage holds the simulated trajectory, the untouched inputs, the outputs
    and the constraint values (the precondition of `backward`). -/
theorem forward_storage_spec (N nx nu nh nc nhN ncN : Nat) (P : OCP α)
    (hw : WellDim P nx nh nc nhN ncN) (D DN : Box α) (μ y st x0 : Vec α) (U : Nat → Vec α)
    (hlen : st.length = (OCPVars.ofProblem N nx nu nh nc nhN ncN).createSize)
    (hx0 : getSeg st ((OCPVars.ofProblem N nx nu nh nc nhN ncN).xkStart 0)
      ((OCPVars.ofProblem N nx nu nh nc nhN ncN).xkLen 0) = x0)
    (hU : ∀ t < N, getSeg st ((OCPVars.ofProblem N nx nu nh nc nhN ncN).ukStart t)
      ((OCPVars.ofProblem N nx nu nh nc nhN ncN).ukLen t) = U t) :
    FwdInv N nx nu nh nc nhN ncN P x0 U N
      (forward P (OCPVars.ofProblem N nx nu nh nc nhN ncN) D DN μ y st).1 ∧
    (nhN > 0 → getSeg (forward P (OCPVars.ofProblem N nx nu nh nc nhN ncN) D DN μ y st).1
        ((OCPVars.ofProblem N nx nu nh nc nhN ncN).hkStart N)
        ((OCPVars.ofProblem N nx nu nh nc nhN ncN).hkLen N) = P.hN (traj P x0 U N)) ∧
    (ncN > 0 → getSeg (forward P (OCPVars.ofProblem N nx nu nh nc nhN ncN) D DN μ y st).1
        ((OCPVars.ofProblem N nx nu nh nc nhN ncN).ckStart N)
        ((OCPVars.ofProblem N nx nu nh nc nhN ncN).ckLen N) = P.cN (traj P x0 U N)) :=
  (forward_spec N nx nu nh nc nhN ncN P hw D DN μ y st x0 U hlen hx0 hU).2

/-- `OCPEvaluator::forward_simulate(storage)` (what `panoc-ocp.tpp` runs before the `backward` of
    `initial_lipschitz_estimate`) leaves exactly the storage `forward` leaves, for every `D`, `D_N`,
    `μ`, `y`: it establishes the same precondition of `backward`. -/
theorem forward_simulate_storage (P : OCP α) (v : OCPVars) (D DN : Box α) (μ y st : Vec α) :
    forwardSimulate P v st = (forward P v D DN μ y st).1 :=
  forwardSimulate_eq P v D DN μ y st

/-- The penalty term is half the `μ`-weighted squared distance of `ζ = c + y/μ` to the box:
    `½ Σᵢ μᵢ (ζᵢ − Π_D ζᵢ)²`, and `ζᵢ − Π_D ζᵢ` is the signed distance to `[lbᵢ, ubᵢ]` (infinite
    sides included): the projection lies in the interval and no point of it is closer. -/
theorem penaltyTerm_spec (c : Vec α) (D : Box α) (μ y : Vec α) :
    penaltyTerm c D μ y
      = 1 / 2 * (List.zipWith (fun m d => m * d ^ 2) μ (projDiff (zeta c μ y) D)).sum ∧
    ∀ (z : α) (b : Bnd α × Bnd α), (∀ l u, b.1 = some l → b.2 = some u → l ≤ u) →
      inBnd (z - projDiff1 z b) b ∧ ∀ w, inBnd w b → (projDiff1 z b) ^ 2 ≤ (z - w) ^ 2 :=
  ⟨penaltyTerm_eq c D μ y, fun z b h => projDiff1_dist z b h⟩

/-- special cases of the quantifier, spelled out: no outputs and no constraints at all -/
theorem forward_eq_spec_plain (N nx nu : Nat) (P : OCP α) (hw : WellDim P nx 0 0 0 0)
    (D DN : Box α) (μ y st x0 : Vec α) (U : Nat → Vec α)
    (hlen : st.length = (OCPVars.ofProblem N nx nu 0 0 0 0).createSize)
    (hx0 : getSeg st ((OCPVars.ofProblem N nx nu 0 0 0 0).xkStart 0)
      ((OCPVars.ofProblem N nx nu 0 0 0 0).xkLen 0) = x0)
    (hU : ∀ t < N, getSeg st ((OCPVars.ofProblem N nx nu 0 0 0 0).ukStart t)
      ((OCPVars.ofProblem N nx nu 0 0 0 0).ukLen t) = U t) :
    (forward P (OCPVars.ofProblem N nx nu 0 0 0 0) D DN μ y st).2 =
      ∑ t ∈ Finset.range N, P.l t (traj P x0 U t ++ U t) + P.lN (traj P x0 U N) := by
  rw [forward_eq_spec N nx nu 0 0 0 0 P hw D DN μ y st x0 U hlen hx0 hU]
  simp [stageCost, terminalCost]

/-- …and terminal-only constraints (`nc = 0`, `nc_N > 0`) -/
theorem forward_eq_spec_terminal_only (N nx nu ncN : Nat) (hc : ncN > 0) (P : OCP α)
    (hw : WellDim P nx 0 0 0 ncN) (D DN : Box α) (μ y st x0 : Vec α) (U : Nat → Vec α)
    (hlen : st.length = (OCPVars.ofProblem N nx nu 0 0 0 ncN).createSize)
    (hx0 : getSeg st ((OCPVars.ofProblem N nx nu 0 0 0 ncN).xkStart 0)
      ((OCPVars.ofProblem N nx nu 0 0 0 ncN).xkLen 0) = x0)
    (hU : ∀ t < N, getSeg st ((OCPVars.ofProblem N nx nu 0 0 0 ncN).ukStart t)
      ((OCPVars.ofProblem N nx nu 0 0 0 ncN).ukLen t) = U t) :
    (forward P (OCPVars.ofProblem N nx nu 0 0 0 ncN) D DN μ y st).2 =
      ∑ t ∈ Finset.range N, P.l t (traj P x0 U t ++ U t) + (P.lN (traj P x0 U N)
        + penaltyTerm (P.cN (traj P x0 U N)) DN (getSeg μ 0 ncN) (getSeg y 0 ncN)) := by
  rw [forward_eq_spec N nx nu 0 0 0 ncN P hw D DN μ y st x0 U hlen hx0 hU]
  simp [stageCost, terminalCost, hc]

end forward

/-! ### 4. `backward` = transpose of the linearised roll-out -/
section backward
variable {α : Type} [Field α] [LinearOrder α] [IsStrictOrderedRing α]

/-- (`backward` is a pure function of the storage it is handed — typically one filled by an earlier
    `forward` / `forward_simulate`, possibly a copy, with other storages evaluated in between; the
    history-independence of the C++ evaluator object is tied by the `fbs` call-sequence
    correspondence, see the file header.)

    For every horizon `N`, every problem and every storage vector: with `A_t, B_t` the Jacobians
    behind `eval_grad_f_prod` at the stored `(x_t, u_t)` (contract `hadj`: the returned vector is the
    adjoint of the linearised dynamics `jac t`), `(q_t, r_t)` the stage gradients `backward` leaves in
    `qr(t)` (`stageQR`: `eval_qr` plus `∇c·(μ∘(ζ − Π_D ζ))`) and `q_N` the terminal one,
      `⟨g, δu⟩ = Σ_t (⟨q_t, δx_t⟩ + ⟨r_t, δu_t⟩) + ⟨q_N, δx_N⟩`,
    `δx₀ = 0`, `δx_{t+1} = A_t δx_t + B_t δu_t` — for every direction `δu`: the gradient returned by
    the adjoint sweep is the forward (tangent) sensitivity of the cost. -/
theorem backward_adjoint (N nx nu nh nc nhN ncN : Nat) (P : OCP α) (hg : GradDim P nx nu)
    (D DN : Box α) (μ y st : Vec α) (jac : Nat → Vec α → Vec α → Vec α)
    (hjl : ∀ t < N, ∀ a b, a.length = nx → b.length = nu → (jac t a b).length = nx)
    (hadj : ∀ t < N, ∀ lam a b, lam.length = nx → a.length = nx → b.length = nu →
      dot (P.gradFProd t
            (getSeg st ((OCPVars.ofProblem N nx nu nh nc nhN ncN).xkStart t)
              ((OCPVars.ofProblem N nx nu nh nc nhN ncN).xkLen t))
            (getSeg st ((OCPVars.ofProblem N nx nu nh nc nhN ncN).ukStart t)
              ((OCPVars.ofProblem N nx nu nh nc nhN ncN).ukLen t)) lam) (a ++ b)
        = dot lam (jac t a b))
    (δu : Nat → Vec α) (hδu : ∀ t < N, (δu t).length = nu) :
    dot (backward P (OCPVars.ofProblem N nx nu nh nc nhN ncN) D DN μ y st).g
        ((List.range N).map δu).flatten
      = ∑ t ∈ Finset.range N,
          (dot (stageQR P (OCPVars.ofProblem N nx nu nh nc nhN ncN) D μ y st t).1
              (tangent jac δu nx t)
            + dot (stageQR P (OCPVars.ofProblem N nx nu nh nc nhN ncN) D μ y st t).2 (δu t))
        + dot (backward P (OCPVars.ofProblem N nx nu nh nc nhN ncN) D DN μ y st).qN
            (tangent jac δu nx N) := by
  obtain ⟨h1, _, h3⟩ := backward_adjoint_core N nx nu nh nc nhN ncN P hg D DN μ y st jac hjl hadj
    δu hδu
  rw [h1, h3]

/-- what `backward` writes to `qr(t)` and `q_N()` (the linear terms of the Gauss-Newton QP) -/
theorem backward_qr_spec (N nx nu nh nc nhN ncN : Nat) (P : OCP α)
    (D DN : Box α) (μ y st : Vec α) :
    (backward P (OCPVars.ofProblem N nx nu nh nc nhN ncN) D DN μ y st).qrs =
      (List.range N).map (fun t =>
        (stageQR P (OCPVars.ofProblem N nx nu nh nc nhN ncN) D μ y st t).1 ++
        (stageQR P (OCPVars.ofProblem N nx nu nh nc nhN ncN) D μ y st t).2) ∧
    (backward P (OCPVars.ofProblem N nx nu nh nc nhN ncN) D DN μ y st).qN =
      backwardTerminal P (OCPVars.ofProblem N nx nu nh nc nhN ncN) DN μ y st := by
  obtain ⟨_, e2⟩ := backwardLoop_eq P (OCPVars.ofProblem N nx nu nh nc nhN ncN) D μ y st N
    (backwardTerminal P (OCPVars.ofProblem N nx nu nh nc nhN ncN) DN μ y st) [] []
  refine ⟨?_, rfl⟩
  unfold backward
  simp only [N_ofProblem]
  rw [e2]; simp

/-- The multiplier `μ∘(ζ − Π_D ζ)` that `backward` pushes through `∇c` is the derivative of the
    penalty `ζ ↦ ½ μ (ζ − Πζ)²` (componentwise; first-order remainder in `[0, ½ μ Δζ²]`). -/
theorem penalty_gradient (z z' m : α) (b : Bnd α × Bnd α) (hm : 0 ≤ m)
    (hne : ∀ l u, b.1 = some l → b.2 = some u → l ≤ u) :
    0 ≤ 1 / 2 * m * (projDiff1 z' b) ^ 2 - 1 / 2 * m * (projDiff1 z b) ^ 2
          - m * projDiff1 z b * (z' - z) ∧
    1 / 2 * m * (projDiff1 z' b) ^ 2 - 1 / 2 * m * (projDiff1 z b) ^ 2
          - m * projDiff1 z b * (z' - z) ≤ 1 / 2 * m * (z' - z) ^ 2 :=
  penalty_grad_bound z z' m b hm hne

/- `backward_is_gradient_partial` — general smooth problems, NOT proved here:
     under `HasFDerivAt` hypotheses on `f_t, h_t, ℓ_t, c_t` (with `jac t` = the Fréchet derivative
     of `f_t` at `(x_t,u_t)`, `eval_qr` = `Jhᵀ∇ℓ`, `eval_grad_constr_prod` = `Jcᵀ·`), the map
     `u ↦ (forward … u).2` has Fréchet derivative `δu ↦ ⟨(backward …).g, δu⟩`.
   What is proved for every problem: `backward_adjoint` (the sweep equals the tangent-mode
   sensitivity for every direction, every N) and `penalty_gradient` (the only non-smooth
   ingredient).  What is proved for the class of affine-quadratic problems:
   `backward_is_gradient_affquad` below (the chain rule over the N-fold composition is exact there).
   Missing for general nonlinear `f_t, h_t, c_t`: the chain rule over `ℝ` (Mathlib
   `HasFDerivAt.comp` along `traj`).  On the real code this part is exercised by the monitor of
   `checks/c12.py`, which differentiates the cost polynomial exactly (forward-mode differentiation
   over `Fraction`s, bilinear dynamics and quadratic constraints included) and demands equality in
   the exact regime. -/

end backward

/-! ### 4b. `backward` = derivative of `forward` for affine-quadratic problems -/
section deriv
variable {α : Type} [Field α] [LinearOrder α] [IsStrictOrderedRing α]

/-- **`backward_is_gradient_affquad`** — for the class of *affine-quadratic* optimal-control
    problems (`AffQuad`, `Alpaqa/Proofs/C12Deriv.lean`: affine dynamics `f_t`, affine constraints
    `c_t, c_N`, stage and terminal costs `ℓ_t∘h_t`, `ℓ_N∘h_N` quadratic in `(x, u)`, derivative
    oracles `eval_grad_f_prod / eval_qr / eval_q_N / eval_grad_constr_prod(_N)` returning the
    documented transposed-Jacobian products), every horizon, all dimensions, `μ > 0`, boxes with
    infinite sides: the vector `g` that `backward` computes from the storage left by `forward` at the
    inputs `U` is the derivative of the `forward` cost with respect to the inputs — for every
    direction `δU` and every step `ε`,
      `|forward(U + ε·δU) − forward(U) − ε·⟨g, δU⟩| ≤ K·ε²`,
    `K = |quadPart δU| + penCap δU` independent of `ε` (taking `δU` a unit vector: every partial
    derivative).  The chain rule over the `N`-fold composition is exact for this class
    (`traj_affine`, `cost_expansion`); the ALM penalty is only `C¹`, its remainder is trapped in
    `[0, ½ μ δζ²]` (`penalty_expand`). -/
theorem backward_is_gradient_affquad (N nx nu nh nc nhN ncN : Nat) (P : OCP α)
    (A : AffQuad P nx nu nh nc nhN ncN) (hw : WellDim P nx nh nc nhN ncN) (hg : GradDim P nx nu)
    (D DN : Box α) (μ y st st' x0 : Vec α) (U δU : Nat → Vec α) (ε : α)
    (hx0l : x0.length = nx) (hUl : ∀ t < N, (U t).length = nu) (hδl : ∀ t < N, (δU t).length = nu)
    (hμl : μ.length = N * nc + ncN) (hyl : y.length = N * nc + ncN) (hμ : ∀ m ∈ μ, 0 < m)
    (hDl : D.length = nc) (hDNl : DN.length = ncN)
    (hD : ∀ bd ∈ D, ∀ l u, bd.1 = some l → bd.2 = some u → l ≤ u)
    (hDN : ∀ bd ∈ DN, ∀ l u, bd.1 = some l → bd.2 = some u → l ≤ u)
    (hlen : st.length = (OCPVars.ofProblem N nx nu nh nc nhN ncN).createSize)
    (hx0 : getSeg st ((OCPVars.ofProblem N nx nu nh nc nhN ncN).xkStart 0)
      ((OCPVars.ofProblem N nx nu nh nc nhN ncN).xkLen 0) = x0)
    (hU : ∀ t < N, getSeg st ((OCPVars.ofProblem N nx nu nh nc nhN ncN).ukStart t)
      ((OCPVars.ofProblem N nx nu nh nc nhN ncN).ukLen t) = U t)
    (hlen' : st'.length = (OCPVars.ofProblem N nx nu nh nc nhN ncN).createSize)
    (hx0' : getSeg st' ((OCPVars.ofProblem N nx nu nh nc nhN ncN).xkStart 0)
      ((OCPVars.ofProblem N nx nu nh nc nhN ncN).xkLen 0) = x0)
    (hU' : ∀ t < N, getSeg st' ((OCPVars.ofProblem N nx nu nh nc nhN ncN).ukStart t)
      ((OCPVars.ofProblem N nx nu nh nc nhN ncN).ukLen t) = vadd (U t) (smul ε (δU t))) :
    |(forward P (OCPVars.ofProblem N nx nu nh nc nhN ncN) D DN μ y st').2
        - (forward P (OCPVars.ofProblem N nx nu nh nc nhN ncN) D DN μ y st).2
        - ε * dot (backward P (OCPVars.ofProblem N nx nu nh nc nhN ncN) D DN μ y
              (forward P (OCPVars.ofProblem N nx nu nh nc nhN ncN) D DN μ y st).1).g
            ((List.range N).map δU).flatten|
      ≤ (|quadPart N nx nu nh nc nhN ncN P A δU| + penCap N nx nu nh nc nhN ncN P A μ δU) * ε ^ 2 := by
  obtain ⟨inv, hhN, hcN⟩ := forward_storage_spec N nx nu nh nc nhN ncN P hw D DN μ y st x0 U hlen hx0 hU
  rw [forward_eq_spec N nx nu nh nc nhN ncN P hw D DN μ y st x0 U hlen hx0 hU,
    forward_eq_spec N nx nu nh nc nhN ncN P hw D DN μ y st' x0 _ hlen' hx0' hU']
  exact cost_directional_derivative N nx nu nh nc nhN ncN P A hw hg D DN μ y _ x0 U δU hx0l hUl hδl
    hμl hyl hμ hDl hDNl hD hDN inv hhN hcN ε

/-- **`backward_is_gradient_affine_quadratic`** — the same statement for the problems given by
    matrices: `f_t(x,u) = A_t x + B_t u + b_t`, `ℓ_t(x,u) = ½(x;u)ᵀH_t(x;u) + g_tᵀ(x;u)`,
    `ℓ_N(x) = ½xᵀH_N x + g_Nᵀx` (`H` symmetric), `c_t(x) = E_t x + e_t`, `c_N(x) = E_N x + e_N`
    (no outputs: `nh = nh_N = 0`), all dimensions and horizons: `AQData.toOCP` builds the twelve
    oracles, `AQData.affQuad` shows the problem is in the class. -/
theorem backward_is_gradient_affine_quadratic (N nx nu nc ncN : Nat) (d : AQData α) (hwf : d.WF nx nu)
    (D DN : Box α) (μ y st st' x0 : Vec α) (U δU : Nat → Vec α) (ε : α)
    (hx0l : x0.length = nx) (hUl : ∀ t < N, (U t).length = nu) (hδl : ∀ t < N, (δU t).length = nu)
    (hμl : μ.length = N * nc + ncN) (hyl : y.length = N * nc + ncN) (hμ : ∀ m ∈ μ, 0 < m)
    (hDl : D.length = nc) (hDNl : DN.length = ncN)
    (hD : ∀ bd ∈ D, ∀ l u, bd.1 = some l → bd.2 = some u → l ≤ u)
    (hDN : ∀ bd ∈ DN, ∀ l u, bd.1 = some l → bd.2 = some u → l ≤ u)
    (hlen : st.length = (OCPVars.ofProblem N nx nu 0 nc 0 ncN).createSize)
    (hx0 : getSeg st ((OCPVars.ofProblem N nx nu 0 nc 0 ncN).xkStart 0)
      ((OCPVars.ofProblem N nx nu 0 nc 0 ncN).xkLen 0) = x0)
    (hU : ∀ t < N, getSeg st ((OCPVars.ofProblem N nx nu 0 nc 0 ncN).ukStart t)
      ((OCPVars.ofProblem N nx nu 0 nc 0 ncN).ukLen t) = U t)
    (hlen' : st'.length = (OCPVars.ofProblem N nx nu 0 nc 0 ncN).createSize)
    (hx0' : getSeg st' ((OCPVars.ofProblem N nx nu 0 nc 0 ncN).xkStart 0)
      ((OCPVars.ofProblem N nx nu 0 nc 0 ncN).xkLen 0) = x0)
    (hU' : ∀ t < N, getSeg st' ((OCPVars.ofProblem N nx nu 0 nc 0 ncN).ukStart t)
      ((OCPVars.ofProblem N nx nu 0 nc 0 ncN).ukLen t) = vadd (U t) (smul ε (δU t))) :
    |(forward (d.toOCP nx nu nc ncN) (OCPVars.ofProblem N nx nu 0 nc 0 ncN) D DN μ y st').2
        - (forward (d.toOCP nx nu nc ncN) (OCPVars.ofProblem N nx nu 0 nc 0 ncN) D DN μ y st).2
        - ε * dot (backward (d.toOCP nx nu nc ncN) (OCPVars.ofProblem N nx nu 0 nc 0 ncN) D DN μ y
              (forward (d.toOCP nx nu nc ncN) (OCPVars.ofProblem N nx nu 0 nc 0 ncN) D DN μ y st).1).g
            ((List.range N).map δU).flatten|
      ≤ (|quadPart N nx nu 0 nc 0 ncN (d.toOCP nx nu nc ncN) (d.affQuad nx nu nc ncN hwf) δU|
          + penCap N nx nu 0 nc 0 ncN (d.toOCP nx nu nc ncN) (d.affQuad nx nu nc ncN hwf) μ δU) * ε ^ 2 :=
  backward_is_gradient_affquad N nx nu 0 nc 0 ncN (d.toOCP nx nu nc ncN) (d.affQuad nx nu nc ncN hwf)
    (d.wellDim nx nu nc ncN) (d.gradDim nx nu nc ncN) D DN μ y st st' x0 U δU ε hx0l hUl hδl hμl hyl hμ
    hDl hDNl hD hDN hlen hx0 hU hlen' hx0' hU'
end deriv

/-! ### 5. `factor_masked` + `solve_masked` return a KKT point of the masked QP -/
section riccati
variable {α : Type} [Field α]

/-- (`factorMasked` / `solveMasked` are pure functions of the per-stage data and masks; the C++
    `StatefulLQRFactor` object is reused by `panoc-ocp.tpp` across Gauss-Newton steps with different
    masks and data — history-independence is tied by the `rics` sequences of `checks/c12.py`.)

    For every horizon `N`, all dimensions, every per-stage data (Jacobians `A_t, B_t`, cost blocks
    `Q_t, R_t, S_t` symmetric, linear terms `q_t, r_t`, prescribed values `u_t`), every per-stage
    split `J_t ++ K_t ~ range nu` of the inputs into free and fixed components (all masks, empty
    and full included) and every solve oracle that meets its contract `R̄X = B` at the matrices that
    arise (`SolveOK`; this is all that is used of `LDLT` / `PartialPivLU`, so both factorisation
    options are covered):  the step `(Δx, Δu)` returned by `solve_masked` after `factor_masked`,
    with costates `λ_t = P_t Δx_t + s_t`, satisfies the KKT system of

      min Σ_t [½ΔxᵀQ_tΔx + ΔuᵀS_tΔx + ½ΔuᵀR_tΔu + q_tᵀΔx + r_tᵀΔu] + ½Δx_NᵀQ_NΔx_N + q_NᵀΔx_N
      s.t. Δx₀ = 0, Δx_{t+1} = A_tΔx_t + B_tΔu_t, Δu_t[K_t] = u_t[K_t]:

    dynamics, fixed components at their values, stationarity in the free inputs
    `(R_tΔu_t + S_tΔx_t + r_t + B_tᵀλ_{t+1})[J_t] = 0`, costate recursion
    `λ_t = Q_tΔx_t + S_tᵀΔu_t + q_t + A_tᵀλ_{t+1}` (`0 < t < N`) and `λ_N = Q_NΔx_N + q_N`. -/
theorem riccati_kkt (N nx nu : Nat) (solveM : Mat α → Mat α → Mat α)
    (solveV : Mat α → Vec α → Vec α) (data : Nat → LQRStage α) (QN : Mat α) (qN : Vec α)
    (hpart : ∀ i < N, ((data i).J ++ (data i).K).Perm (List.range nu))
    (hQ : ∀ i < N, SymM nx (data i).Q) (hQN : SymM nx QN)
    (hR : ∀ i < N, ∀ a < nu, ∀ b < nu, mget (data i).R a b = mget (data i).R b a)
    (hsolve : ∀ i < N, SolveOK nx nu solveM solveV (data i)
      (ricStg N nx nu solveM solveV data QN qN i).Pn (ricStg N nx nu solveM solveV data QN qN i).sn) :
    -- dynamics from Δx₀ = 0
    ricDx N nx nu solveM solveV data QN qN 0 = mkV nx (fun _ => 0) ∧
    (∀ i < N, ricDx N nx nu solveM solveV data QN qN (i + 1) =
      addV nx (mulMV nx nx (data i).A (ricDx N nx nu solveM solveV data QN qN i))
              (mulMV nx nu (data i).B (ricDu N nx nu solveM solveV data QN qN i))) ∧
    -- fixed components
    (∀ i < N, ∀ k ∈ (data i).K,
      vget (ricDu N nx nu solveM solveV data QN qN i) k = vget (data i).u k) ∧
    -- stationarity in the free components
    (∀ i < N, ∀ j ∈ (data i).J,
      vget (addV nu (addV nu (addV nu
          (mulMV nu nu (data i).R (ricDu N nx nu solveM solveV data QN qN i))
          (mulMV nu nx (data i).S (ricDx N nx nu solveM solveV data QN qN i))) (data i).r)
          (mulTV nu nx (data i).B (ricLam N nx nu solveM solveV data QN qN (i + 1)))) j = 0) ∧
    -- costates
    (∀ i, 0 < i → i < N → ricLam N nx nu solveM solveV data QN qN i =
      addV nx (addV nx (addV nx
          (mulMV nx nx (data i).Q (ricDx N nx nu solveM solveV data QN qN i))
          (mulTV nx nu (data i).S (ricDu N nx nu solveM solveV data QN qN i))) (data i).q)
          (mulTV nx nx (data i).A (ricLam N nx nu solveM solveV data QN qN (i + 1)))) ∧
    (N > 0 → ricLam N nx nu solveM solveV data QN qN N =
      addV nx (mulMV nx nx QN (ricDx N nx nu solveM solveV data QN qN N)) qN) :=
  ⟨ric_dx0 N nx nu solveM solveV data QN qN,
   fun i hi => ric_dynamics N nx nu solveM solveV data QN qN i hi,
   fun i hi k hk => ric_fixed N nx nu solveM solveV data QN qN hpart i hi k hk,
   fun i hi j hj => ric_stationary N nx nu solveM solveV data QN qN hpart hsolve i hi j hj,
   fun i h0 hi => ric_costate N nx nu solveM solveV data QN qN hpart hQ hQN hR hsolve i h0 hi,
   fun hN => ric_terminal N nx nu solveM solveV data QN qN hN⟩

/-- The index sets produced by `IndexSet::update` satisfy the partition hypothesis of
    `riccati_kkt` for every predicate. -/
theorem riccati_masks_from_indexset (cond : Nat → Bool) (nu : Nat) :
    (buildJ cond nu ++ computeComplement (buildJ cond nu) nu).Perm (List.range nu) :=
  (complement_spec cond nu).2.2.2.2

end riccati

section optimal
variable {α : Type} [Field α] [LinearOrder α] [IsStrictOrderedRing α]

/-- **The step is the minimiser of the masked QP** (= what a dense KKT solve returns).
    Under the hypotheses of `riccati_kkt` and positive-semidefinite reduced input Hessians
    `R̄_t = R_t[J,J] + B_t[:,J]ᵀ P_{t+1} B_t[:,J]`:  the returned `(Δx, Δu)` is feasible
    (`Δx₀ = 0`, dynamics, fixed components at their values) and for every feasible `(X', U')`
      `cost(X', U') − cost(Δx, Δu) = Σ_t ½ w_tᵀ R̄_t w_t ≥ 0`, `w_t = δu_t[J] − K_t δx_t`
    (`qpCost`: `Σ_t [½xᵀQ_t x + uᵀS_t x + ½uᵀR_t u + q_tᵀx + r_tᵀu] + ½x_NᵀQ_N x_N + q_Nᵀx_N`).
    Cholesky and LU share the statement: only `SolveOK` is used of the factorisation. -/
theorem riccati_optimal (N nx nu : Nat) (solveM : Mat α → Mat α → Mat α)
    (solveV : Mat α → Vec α → Vec α) (data : Nat → LQRStage α) (QN : Mat α) (qN : Vec α)
    (hpart : ∀ i < N, ((data i).J ++ (data i).K).Perm (List.range nu))
    (hQ : ∀ i < N, SymM nx (data i).Q) (hQN : SymM nx QN)
    (hR : ∀ i < N, ∀ a < nu, ∀ b < nu, mget (data i).R a b = mget (data i).R b a)
    (hsolve : ∀ i < N, SolveOK nx nu solveM solveV (data i)
      (ricStg N nx nu solveM solveV data QN qN i).Pn (ricStg N nx nu solveM solveV data QN qN i).sn)
    (hPSD : ∀ t < N, ∀ w : Fin (data t).J.length → α,
      0 ≤ bil (toM (data t).J.length (data t).J.length
        (ricStg N nx nu solveM solveV data QN qN t).Rbar) w w) :
    QPFeasible N nx nu data
      (fun t => toV nx (ricDx N nx nu solveM solveV data QN qN t))
      (fun t => toV nu (ricDu N nx nu solveM solveV data QN qN t)) ∧
    ∀ (X' : Nat → Fin nx → α) (U' : Nat → Fin nu → α), QPFeasible N nx nu data X' U' →
      qpCost N nx nu data QN qN X' U'
          - qpCost N nx nu data QN qN
              (fun t => toV nx (ricDx N nx nu solveM solveV data QN qN t))
              (fun t => toV nu (ricDu N nx nu solveM solveV data QN qN t))
        = ∑ t ∈ Finset.range N,
            1 / 2 * bil (toM (data t).J.length (data t).J.length
                (ricStg N nx nu solveM solveV data QN qN t).Rbar)
              (ricW N nx nu solveM solveV data QN qN X' U' t)
              (ricW N nx nu solveM solveV data QN qN X' U' t) ∧
      qpCost N nx nu data QN qN
          (fun t => toV nx (ricDx N nx nu solveM solveV data QN qN t))
          (fun t => toV nu (ricDu N nx nu solveM solveV data QN qN t))
        ≤ qpCost N nx nu data QN qN X' U' :=
  ⟨ric_feasible N nx nu solveM solveV data QN qN hpart, fun X' U' hf =>
    ⟨ric_cost_gap N nx nu solveM solveV data QN qN hpart hQ hQN hR hsolve X' U' hf,
     ric_optimal N nx nu solveM solveV data QN qN hpart hQ hQN hR hsolve X' U' hf hPSD⟩⟩

/-- …and with positive-*definite* reduced input Hessians it is the *unique* minimiser: a feasible
    point with the same cost coincides with the returned step. -/
theorem riccati_unique (N nx nu : Nat) (solveM : Mat α → Mat α → Mat α)
    (solveV : Mat α → Vec α → Vec α) (data : Nat → LQRStage α) (QN : Mat α) (qN : Vec α)
    (hpart : ∀ i < N, ((data i).J ++ (data i).K).Perm (List.range nu))
    (hQ : ∀ i < N, SymM nx (data i).Q) (hQN : SymM nx QN)
    (hR : ∀ i < N, ∀ a < nu, ∀ b < nu, mget (data i).R a b = mget (data i).R b a)
    (hsolve : ∀ i < N, SolveOK nx nu solveM solveV (data i)
      (ricStg N nx nu solveM solveV data QN qN i).Pn (ricStg N nx nu solveM solveV data QN qN i).sn)
    (hPD : ∀ t < N, ∀ w : Fin (data t).J.length → α, w ≠ 0 →
      0 < bil (toM (data t).J.length (data t).J.length
        (ricStg N nx nu solveM solveV data QN qN t).Rbar) w w)
    (X' : Nat → Fin nx → α) (U' : Nat → Fin nu → α) (hf : QPFeasible N nx nu data X' U')
    (heq : qpCost N nx nu data QN qN X' U' = qpCost N nx nu data QN qN
      (fun t => toV nx (ricDx N nx nu solveM solveV data QN qN t))
      (fun t => toV nu (ricDu N nx nu solveM solveV data QN qN t))) :
    (∀ t ≤ N, X' t = toV nx (ricDx N nx nu solveM solveV data QN qN t)) ∧
    (∀ t < N, U' t = toV nu (ricDu N nx nu solveM solveV data QN qN t)) :=
  ric_unique N nx nu solveM solveV data QN qN hpart hQ hQN hR hsolve X' U' hf hPD heq

end optimal



/-! ### Non-vacuity: the hypotheses hold for concrete instances over `ℚ` -/
section examples

/-- a scalar OCP: `x⁺ = 2x + u`, output `h = x + u`, costs `½h²`, constraint `c = x ∈ [0, 1]`. -/
def exOCP : OCP ℚ where
  f _ x u := [2 * x.getD 0 0 + u.getD 0 0]
  h _ x u := [x.getD 0 0 + u.getD 0 0]
  hN x := [x.getD 0 0]
  l _ h := 1 / 2 * h.getD 0 0 * h.getD 0 0
  lN h := 1 / 2 * h.getD 0 0 * h.getD 0 0
  c _ x := [x.getD 0 0]
  cN x := [x.getD 0 0]
  gradFProd _ _ _ p := [2 * p.getD 0 0, p.getD 0 0]
  qr _ _ h := [h.getD 0 0, h.getD 0 0]
  qN _ h := [h.getD 0 0]
  gradCProd _ _ p := [p.getD 0 0]
  gradCProdN _ p := [p.getD 0 0]

example : WellDim exOCP 1 1 1 1 1 := ⟨fun _ _ _ => rfl, fun _ _ _ => rfl, fun _ => rfl,
  fun _ _ => rfl, fun _ => rfl⟩
example : GradDim exOCP 1 1 := ⟨fun _ _ _ _ => rfl, fun _ _ _ => rfl, fun _ _ => rfl,
  fun _ _ _ => rfl, fun _ _ => rfl⟩

/-- the storage `[x₀=1, u₀=-1, h, c | x₁, u₁=1/2, h, c | x₂, h, c]` meets the hypotheses of
    `forward_eq_spec`, and the cost is what the property says (checked by evaluation). -/
example :
    let st : Vec ℚ := [1, -1, 0, 0, 0, 1 / 2, 0, 0, 0, 0, 0]
    st.length = (OCPVars.ofProblem 2 1 1 1 1 1 1).createSize ∧
    getSeg st ((OCPVars.ofProblem 2 1 1 1 1 1 1).xkStart 0) 1 = [1] ∧
    getSeg st ((OCPVars.ofProblem 2 1 1 1 1 1 1).ukStart 1) 1 = [1 / 2] ∧
    (forward exOCP (OCPVars.ofProblem 2 1 1 1 1 1 1) [(some 0, some 1)] [(none, some 1)]
      [1, 2, 4] [0, 1, 0] st).2 = 0 + (1 / 2 * (3 / 2) * (3 / 2) + 1 / 2 * 2 * (1 / 2) ^ 2)
        + (1 / 2 * (5 / 2) * (5 / 2) + 1 / 2 * 4 * (3 / 2) ^ 2) := by
  decide +kernel

/-- `forward_simulate` on that storage leaves what `forward` leaves (evaluated). -/
example :
    forwardSimulate exOCP (OCPVars.ofProblem 2 1 1 1 1 1 1) [1, -1, 0, 0, 0, 1 / 2, 0, 0, 0, 0, 0]
      = [1, -1, 0, 1, 1, 1 / 2, 3 / 2, 1, 5 / 2, 5 / 2, 5 / 2] := by
  decide +kernel

/-- the adjointness contract of `backward_adjoint` holds for the Jacobian `(A, B) = (2, 1)`. -/
example (lam a b : Vec ℚ) (hl : lam.length = 1) (ha : a.length = 1) (hb : b.length = 1) :
    dot (exOCP.gradFProd 0 [] [] lam) (a ++ b)
      = dot lam [2 * a.getD 0 0 + b.getD 0 0] := by
  obtain ⟨l, rfl⟩ := List.length_eq_one_iff.mp hl
  obtain ⟨x, rfl⟩ := List.length_eq_one_iff.mp ha
  obtain ⟨u, rfl⟩ := List.length_eq_one_iff.mp hb
  simp [exOCP, dot_cons]; ring

/-- a one-stage LQR problem with a free input and exact division as the solve oracle. -/
def exStage : LQRStage ℚ :=
  { A := [[1]], B := [[1]], Q := [[1]], R := [[1]], S := [[0]], q := [1], r := [0], u := [0],
    J := [0], K := [] }
def exSolveM (R B : Mat ℚ) : Mat ℚ := mkM 1 1 fun _ j => mget B 0 j / mget R 0 0
def exSolveV (R : Mat ℚ) (b : Vec ℚ) : Vec ℚ := mkV 1 fun _ => vget b 0 / mget R 0 0

example : (exStage.J ++ exStage.K).Perm (List.range 1) := by decide
example : SolveOK 1 1 exSolveM exSolveV exStage
    (ricStg 1 1 1 exSolveM exSolveV (fun _ => exStage) [[1]] [0] 0).Pn
    (ricStg 1 1 1 exSolveM exSolveV (fun _ => exStage) [[1]] [0] 0).sn := by
  unfold SolveOK; decide +kernel
example : SymM 1 ([[1]] : Mat ℚ) := by
  unfold SymM; ext i j; fin_cases i; fin_cases j; rfl
/-- with `P₁ = 1`, `s₁ = 0`: `R̄ = 2`, `t = 0 + 0 = 0`, so `Δu₀ = 0`, `Δx₁ = 0`. -/
example : ricDu 1 1 1 exSolveM exSolveV (fun _ => exStage) [[1]] [0] 0 = [0] ∧
    (ricStg 1 1 1 exSolveM exSolveV (fun _ => exStage) [[1]] [0] 0).Rbar = [[2]] := by
  decide +kernel

/-- the reduced input Hessian `R̄₀ = 2` of that instance is positive definite -/
example (w : Fin 1 → ℚ) (hw : w ≠ 0) :
    0 < bil (toM 1 1 (ricStg 1 1 1 exSolveM exSolveV (fun _ => exStage) [[1]] [0] 0).Rbar) w w := by
  have hR : (ricStg 1 1 1 exSolveM exSolveV (fun _ => exStage) [[1]] [0] 0).Rbar = [[2]] := by
    decide +kernel
  have h0 : w 0 ≠ 0 := by
    intro h; apply hw; ext i; fin_cases i; exact h
  rw [hR]
  simp only [bil, Matrix.mulVec, dotProduct, Finset.univ_unique, Fin.default_eq_zero,
    Finset.sum_singleton, toM, mget]
  have : (0 : ℚ) < w 0 * w 0 := mul_self_pos.mpr h0
  simp
  nlinarith

/-! #### a two-stage instance with mixed masks: `N = 2`, `nx = 1`, `nu = 2`;
    stage 0 has `J = [0]`, `K = [1]` (one free, one fixed input), stage 1 has every input fixed. -/

def exSt0 : LQRStage ℚ :=
  { A := [[1]], B := [[1, 2]], Q := [[1]], R := [[2, 1], [1, 3]], S := [[1], [1 / 2]], q := [1],
    r := [1, -1], u := [5, 3], J := [0], K := [1] }
def exSt1 : LQRStage ℚ :=
  { A := [[2]], B := [[1, 1]], Q := [[2]], R := [[1, 0], [0, 1]], S := [[1], [1]], q := [0],
    r := [1, 1], u := [1, -2], J := [], K := [0, 1] }
def exData2 (i : Nat) : LQRStage ℚ := if i = 0 then exSt0 else exSt1
/-- exact solve oracle for the (0×0 and 1×1) reduced Hessians of this instance -/
def exSolveM2 (R B : Mat ℚ) : Mat ℚ := mkM R.length 1 fun i j => mget B i j / mget R i i
def exSolveV2 (R : Mat ℚ) (b : Vec ℚ) : Vec ℚ := mkV R.length fun i => vget b i / mget R i i

theorem ex2_part : ∀ i < 2, ((exData2 i).J ++ (exData2 i).K).Perm (List.range 2) := by
  intro i hi
  have : i = 0 ∨ i = 1 := by omega
  rcases this with rfl | rfl <;> decide
theorem symM_one (M : Mat ℚ) : SymM 1 M := by
  unfold SymM; ext i j; fin_cases i; fin_cases j; rfl
theorem ex2_Q : ∀ i < 2, SymM 1 (exData2 i).Q := fun _ _ => symM_one _
theorem ex2_R : ∀ i < 2, ∀ a < 2, ∀ b < 2, mget (exData2 i).R a b = mget (exData2 i).R b a := by
  intro i hi a ha b hb
  have h1 : i = 0 ∨ i = 1 := by omega
  have h2 : a = 0 ∨ a = 1 := by omega
  have h3 : b = 0 ∨ b = 1 := by omega
  rcases h1 with rfl | rfl <;> rcases h2 with rfl | rfl <;> rcases h3 with rfl | rfl <;> rfl
theorem ex2_solve : ∀ i < 2, SolveOK 1 2 exSolveM2 exSolveV2 (exData2 i)
    (ricStg 2 1 2 exSolveM2 exSolveV2 exData2 [[1]] [1] i).Pn
    (ricStg 2 1 2 exSolveM2 exSolveV2 exData2 [[1]] [1] i).sn := by
  intro i hi
  have : i = 0 ∨ i = 1 := by omega
  rcases this with rfl | rfl <;> (unfold SolveOK; decide +kernel)
/-- a positive 1×1 matrix is positive definite -/
theorem pd_one (c : ℚ) (hc : 0 < c) (w : Fin 1 → ℚ) (hw : w ≠ 0) : 0 < bil (toM 1 1 [[c]]) w w := by
  have h0 : w 0 ≠ 0 := by
    intro h; apply hw; ext i; fin_cases i; exact h
  simp only [bil, Matrix.mulVec, dotProduct, Finset.univ_unique, Fin.default_eq_zero,
    Finset.sum_singleton, toM, mget]
  have : (0 : ℚ) < w 0 * w 0 := mul_self_pos.mpr h0
  simp
  nlinarith
/-- reduced input Hessians: `R̄₀ = R₀[0,0] + B₀[:,0]ᵀ P₁ B₀[:,0] = 2 + 6 = 8 ≻ 0`; `R̄₁` is 0×0. -/
theorem ex2_PD : ∀ t < 2, ∀ w : Fin (exData2 t).J.length → ℚ, w ≠ 0 →
    0 < bil (toM (exData2 t).J.length (exData2 t).J.length
      (ricStg 2 1 2 exSolveM2 exSolveV2 exData2 [[1]] [1] t).Rbar) w w := by
  intro t ht
  have : t = 0 ∨ t = 1 := by omega
  rcases this with rfl | rfl
  · intro w hw
    have hR : (ricStg 2 1 2 exSolveM2 exSolveV2 exData2 [[1]] [1] 0).Rbar = [[8]] := by decide +kernel
    rw [hR]
    exact pd_one 8 (by norm_num) w hw
  · intro w hw
    exfalso; apply hw; ext i; exact i.elim0

/-- the step of that instance: `Δu₀ = (−39/8, 3)` (free component from the recursion, fixed one at
    its prescribed value), `Δu₁ = (1, −2)` (all fixed), `Δx = 0, 9/8, 5/4`. -/
example : (List.range 2).map (ricDu 2 1 2 exSolveM2 exSolveV2 exData2 [[1]] [1]) = [[-39 / 8, 3], [1, -2]] ∧
    (List.range 3).map (ricDx 2 1 2 exSolveM2 exSolveV2 exData2 [[1]] [1]) = [[0], [9 / 8], [5 / 4]] := by
  decide +kernel

/-- `riccati_kkt`, `riccati_optimal`, `riccati_unique` applied to it, every hypothesis discharged. -/
example := riccati_kkt 2 1 2 exSolveM2 exSolveV2 exData2 [[1]] [1] ex2_part ex2_Q (symM_one _) ex2_R ex2_solve
example := riccati_optimal 2 1 2 exSolveM2 exSolveV2 exData2 [[1]] [1] ex2_part ex2_Q (symM_one _) ex2_R ex2_solve
  (fun t ht w => by
    by_cases hw : w = 0
    · subst hw; simp [bil]
    · exact (ex2_PD t ht w hw).le)
example := riccati_unique 2 1 2 exSolveM2 exSolveV2 exData2 [[1]] [1] ex2_part ex2_Q (symM_one _) ex2_R ex2_solve
  ex2_PD _ _
  (riccati_optimal 2 1 2 exSolveM2 exSolveV2 exData2 [[1]] [1] ex2_part ex2_Q (symM_one _) ex2_R ex2_solve
    (fun t ht w => by
      by_cases hw : w = 0
      · subst hw; simp [bil]
      · exact (ex2_PD t ht w hw).le)).1 rfl

/-! #### the affine-quadratic class is inhabited; `backward_is_gradient_affquad` applied -/

theorem getD_smul0 (ε : ℚ) (a : Vec ℚ) : (smul ε a).getD 0 0 = ε * a.getD 0 0 := by
  cases a <;> simp [smul]

/-- the scalar problem `exOCP` (`x⁺ = 2x + u`, `h = x + u`, `ℓ = ½h²`, `c = x`) is affine-quadratic:
    `jac(a, b) = 2a + b`, `cJ(a) = a`, second-order parts `½(a + b)²` and `½a²`. -/
def exAQ : AffQuad exOCP 1 1 1 1 1 1 where
  jac _ a b := [2 * a.getD 0 0 + b.getD 0 0]
  cJ _ a := [a.getD 0 0]
  cJN a := [a.getD 0 0]
  lq _ a b := 1 / 2 * (a.getD 0 0 + b.getD 0 0) ^ 2
  lqN a := 1 / 2 * (a.getD 0 0) ^ 2
  jac_len _ _ _ _ _ := rfl
  cJ_len _ _ _ := rfl
  cJN_len _ _ := rfl
  f_aff t x u a b hx hu ha hb := by
    obtain ⟨x, rfl⟩ := List.length_eq_one_iff.mp hx
    obtain ⟨u, rfl⟩ := List.length_eq_one_iff.mp hu
    obtain ⟨a, rfl⟩ := List.length_eq_one_iff.mp ha
    obtain ⟨b, rfl⟩ := List.length_eq_one_iff.mp hb
    simp [exOCP, vadd, vzip]; ring
  f_adj t x u lam a b hl ha hb := by
    obtain ⟨l, rfl⟩ := List.length_eq_one_iff.mp hl
    obtain ⟨a, rfl⟩ := List.length_eq_one_iff.mp ha
    obtain ⟨b, rfl⟩ := List.length_eq_one_iff.mp hb
    simp [exOCP, dot_cons]; ring
  l_quad t x u a b hx hu ha hb := by
    obtain ⟨x, rfl⟩ := List.length_eq_one_iff.mp hx
    obtain ⟨u, rfl⟩ := List.length_eq_one_iff.mp hu
    obtain ⟨a, rfl⟩ := List.length_eq_one_iff.mp ha
    obtain ⟨b, rfl⟩ := List.length_eq_one_iff.mp hb
    simp [exOCP, stageL, stageH, vadd, vzip, dot_cons]; ring
  lN_quad x a hx ha := by
    obtain ⟨x, rfl⟩ := List.length_eq_one_iff.mp hx
    obtain ⟨a, rfl⟩ := List.length_eq_one_iff.mp ha
    simp [exOCP, termL, termH, vadd, vzip, dot_cons]; ring
  c_aff t x a hx ha := by
    obtain ⟨x, rfl⟩ := List.length_eq_one_iff.mp hx
    obtain ⟨a, rfl⟩ := List.length_eq_one_iff.mp ha
    simp [exOCP, vadd, vzip]
  c_adj t x p a hp ha := by
    obtain ⟨p, rfl⟩ := List.length_eq_one_iff.mp hp
    obtain ⟨a, rfl⟩ := List.length_eq_one_iff.mp ha
    simp [exOCP, dot_cons]
  cN_aff x a hx ha := by
    obtain ⟨x, rfl⟩ := List.length_eq_one_iff.mp hx
    obtain ⟨a, rfl⟩ := List.length_eq_one_iff.mp ha
    simp [exOCP, vadd, vzip]
  cN_adj x p a hp ha := by
    obtain ⟨p, rfl⟩ := List.length_eq_one_iff.mp hp
    obtain ⟨a, rfl⟩ := List.length_eq_one_iff.mp ha
    simp [exOCP, dot_cons]
  jac_smul t ε a b := by
    show [2 * (smul ε a).getD 0 0 + (smul ε b).getD 0 0] = smul ε [2 * a.getD 0 0 + b.getD 0 0]
    rw [getD_smul0, getD_smul0]; simp only [smul, List.map_cons, List.map_nil]; congr 1; ring
  cJ_smul t ε a := by
    show [(smul ε a).getD 0 0] = smul ε [a.getD 0 0]
    rw [getD_smul0]; rfl
  cJN_smul ε a := by
    show [(smul ε a).getD 0 0] = smul ε [a.getD 0 0]
    rw [getD_smul0]; rfl
  lq_smul t ε a b := by simp only [getD_smul0]; ring
  lqN_smul ε a := by simp only [getD_smul0]; ring

/-- `backward_is_gradient_affquad` on that problem, `N = 2`, storage of the `forward_eq_spec`
    example (`x₀ = 1`, `u = (−1, ½)`), direction `δu = (1, −2)`, every step `ε`: all hypotheses
    discharged. -/
example (ε : ℚ) :=
  backward_is_gradient_affquad 2 1 1 1 1 1 1 exOCP exAQ
    ⟨fun _ _ _ => rfl, fun _ _ _ => rfl, fun _ => rfl, fun _ _ => rfl, fun _ => rfl⟩
    ⟨fun _ _ _ _ => rfl, fun _ _ _ => rfl, fun _ _ => rfl, fun _ _ _ => rfl, fun _ _ => rfl⟩
    [(some 0, some 1)] [(none, some 1)] [1, 2, 4] [0, 1, 0]
    [1, -1, 0, 0, 0, 1 / 2, 0, 0, 0, 0, 0]
    [1, -1 + ε * 1, 0, 0, 0, 1 / 2 + ε * (-2), 0, 0, 0, 0, 0] [1]
    (fun t => if t = 0 then [-1] else [1 / 2]) (fun t => if t = 0 then [1] else [-2]) ε
    rfl (fun t _ => by split_ifs <;> rfl) (fun t _ => by split_ifs <;> rfl) rfl rfl
    (by intro m hm; simp at hm; rcases hm with rfl | rfl | rfl <;> norm_num) rfl rfl
    (by intro bd hbd l u h1 h2; simp at hbd; subst hbd; cases h1; cases h2; norm_num)
    (by intro bd hbd l u h1 h2; simp at hbd; subst hbd; cases h1)
    rfl rfl
    (by intro t ht; have : t = 0 ∨ t = 1 := by omega
        rcases this with rfl | rfl <;> rfl)
    rfl rfl
    (by intro t ht; have : t = 0 ∨ t = 1 := by omega
        rcases this with rfl | rfl <;> rfl)

/-- the numbers of that instance at `ε = 1/4`: `V(U) = 9`, `g = (39/2, 10)`, `⟨g, δu⟩ = −1/2`,
    `V(U + ε δu) = 9`, so the remainder is `1/8 = (|quadPart| + penCap)·ε² = (1 + 1)/16`: the bound
    is attained. -/
example :
    (forward exOCP (OCPVars.ofProblem 2 1 1 1 1 1 1) [(some 0, some 1)] [(none, some 1)] [1, 2, 4] [0, 1, 0]
        [1, -1, 0, 0, 0, 1 / 2, 0, 0, 0, 0, 0]).2 = 9 ∧
    (backward exOCP (OCPVars.ofProblem 2 1 1 1 1 1 1) [(some 0, some 1)] [(none, some 1)] [1, 2, 4] [0, 1, 0]
        (forward exOCP (OCPVars.ofProblem 2 1 1 1 1 1 1) [(some 0, some 1)] [(none, some 1)] [1, 2, 4] [0, 1, 0]
          [1, -1, 0, 0, 0, 1 / 2, 0, 0, 0, 0, 0]).1).g = [39 / 2, 10] ∧
    (forward exOCP (OCPVars.ofProblem 2 1 1 1 1 1 1) [(some 0, some 1)] [(none, some 1)] [1, 2, 4] [0, 1, 0]
        [1, -1 + 1 / 4 * 1, 0, 0, 0, 1 / 2 + 1 / 4 * (-2), 0, 0, 0, 0, 0]).2 = 9 := by
  decide +kernel
example : quadPart 2 1 1 1 1 1 1 exOCP exAQ (fun t => if t = 0 then [(1:ℚ)] else [-2]) = 1 ∧
    penCap 2 1 1 1 1 1 1 exOCP exAQ [1, 2, 4] (fun t => if t = 0 then [(1:ℚ)] else [-2]) = 1 := by
  simp only [quadPart, penCap, Finset.sum_range_succ, Finset.sum_range_zero]
  decide +kernel

/-- a two-state, one-input affine-quadratic problem given by matrices (symmetric Hessians): the
    well-formedness hypothesis of `backward_is_gradient_affine_quadratic` holds. -/
def exAQData : AQData ℚ where
  A _ := [[1, 1], [0, 1]]
  B _ := [[0], [1]]
  b _ := [0, 1 / 2]
  H _ := [[2, 0, 1], [0, 1, 0], [1, 0, 3]]
  g _ := [1, 0, -1]
  HN := [[1, 1 / 2], [1 / 2, 2]]
  gN := [0, 1]
  E _ := [[1, -1]]
  e _ := [1 / 2]
  EN := [[0, 1]]
  eN := [0]
example : exAQData.WF 2 1 :=
  ⟨fun _ => by ext i j; fin_cases i <;> fin_cases j <;> rfl, fun _ => rfl,
   by ext i j; fin_cases i <;> fin_cases j <;> rfl, rfl⟩

end examples

end Alpaqa.Props.C12
