/-
  C03 (FISTA) — Written-back x, y and slack error are feasible and mutually consistent.

  Theorems about the FISTA loop model (`Alpaqa/Model/Fista.lean`, tied to fista.tpp by bit-exact
  trace replay and, for its decision kernels and update statements, by the translators
  gen_c05 / gen_c06 / gen_c08).  They hold for *every* problem oracle, stop schedule
  (`stop : Nat → Bool`, any function of the number of oracle calls made so far), time-limit oracle,
  iteration budget (0 included), all three Lipschitz modes (fixed, user `L_0`, finite-difference
  estimate), both values of `always_overwrite_results` and `disable_acceleration`, every exit
  status, and over *any* carrier (IEEE doubles included): they are structural facts about which
  oracle answer ends up in which output.  Unlike the PANOC theorems they need no fuel hypothesis:
  the main loop provably ends at a loop head, and the iterate is consistent after every pass of the
  backtracking loop.
-/
import Alpaqa.Proofs.FistaInv
import Alpaqa.Proofs.FistaFuel
import Mathlib.Algebra.Order.Field.Rat

namespace Alpaqa.Props.C03_Fista
open Alpaqa Alpaqa.Fista Alpaqa.Gen
set_option linter.unusedSectionVars false

variable {α : Type} [Add α] [Sub α] [Mul α] [Div α] [Neg α] [LT α] [LE α] [DecidableLT α]
  [DecidableLE α] [BEq α] [RealLike α] [NatCast α] [OfScientific α]
  [OfNat α 0] [OfNat α 1] [OfNat α 2] [OfNat α 4] [OfNat α 100]

/-- A solve either returns early (`NotFinite` Lipschitz estimate, nothing written, no callback) or
    ends with the exit block at a loop head whose status is not `Busy`. -/
theorem fista_run_cases (P : Problem α) (pr : Params α) (stop : Nat → Bool) (oot : Bool)
    (x0 y Sig errz0 gV : Vec α) (nan inf : α) :
    ((run P pr stop oot x0 y Sig errz0 gV nan inf).wrote = false ∧
      (run P pr stop oot x0 y Sig errz0 gV nan inf).x = x0 ∧
      (run P pr stop oot x0 y Sig errz0 gV nan inf).y = y ∧
      (run P pr stop oot x0 y Sig errz0 gV nan inf).errz = errz0 ∧
      (run P pr stop oot x0 y Sig errz0 gV nan inf).stats.status = .NotFinite ∧
      (run P pr stop oot x0 y Sig errz0 gV nan inf).stats.iterations = 0 ∧
      (run P pr stop oot x0 y Sig errz0 gV nan inf).callbacks = []) ∨
    EndsAt P pr stop oot x0 y Sig errz0 (run P pr stop oot x0 y Sig errz0 gV nan inf) := by
  unfold run
  cases hi : initState P pr x0 gV nan with
  | inl t => left; exact ⟨rfl, rfl, rfl, rfl, rfl, rfl, rfl⟩
  | inr s =>
    right
    have hk := initState_k P pr x0 gV nan s hi
    exact mainLoop_endsAtHead P pr stop oot x0 y Sig errz0 _ s (by omega) (by rw [hk.1, hk.2.1]; rfl)
      (by omega)

/-- **Exit contract of `FISTASolver::operator()`.**  Whenever the outputs are overwritten:
    `x_out` is the `x̂` of a proximal-gradient step (hence in `C` for any prox that maps into `C`),
    `y_out` is the ψ-oracle's `ŷ` *at that very `x_out`* (in the fixed-step mode this is what the
    late `if (fixed_lipschitz && !need_grad_ψx̂) eval_ψx̂(*curr)` of the exit block is for), and
    `err_z = (y_out − y_in)/Σ`.  Otherwise `x`, `y`, `err_z` are the caller's values, untouched. -/
theorem fista_exit_contract (P : Problem α) (pr : Params α) (stop : Nat → Bool) (oot : Bool)
    (x0 y Sig errz0 gV : Vec α) (nan inf : α) :
    ExitOK P x0 y Sig errz0 (run P pr stop oot x0 y Sig errz0 gV nan inf) := by
  rcases fista_run_cases P pr stop oot x0 y Sig errz0 gV nan inf with h | h
  · exact ⟨fun hw => by rw [h.1] at hw; exact absurd hw (by decide), fun _ => ⟨h.2.1, h.2.2.1, h.2.2.2.1⟩⟩
  · obtain ⟨s, _, _, _, hr⟩ := h
    rw [hr]
    apply exitBlock_ok
    rw [(headStep_curr P pr stop oot _).1]
    exact proxStage_good P pr stop s

/-- Feasibility: if the problem's prox step maps into `C` (proved for the shipped box / box+ℓ1 /
    unconstrained steps in `Props/C15`), the written-back `x` is in `C`. -/
theorem fista_x_out_feasible (InC : Vec α → Prop) (P : Problem α) (hP : ∀ γ x g, InC (P.prox γ x g).2.1)
    (pr : Params α) (stop : Nat → Bool) (oot : Bool) (x0 y Sig errz0 gV : Vec α) (nan inf : α)
    (hw : (run P pr stop oot x0 y Sig errz0 gV nan inf).wrote = true) :
    InC (run P pr stop oot x0 y Sig errz0 gV nan inf).x := by
  obtain ⟨⟨γ, x, g, hx⟩, _, _⟩ := (fista_exit_contract P pr stop oot x0 y Sig errz0 gV nan inf).1 hw
  rw [hx]; exact hP γ x g

/-- Consistency: `y_out = ŷ(x_out)` and `err_z = (y_out − y_in)/Σ`. -/
theorem fista_y_errz_consistent (P : Problem α) (pr : Params α) (stop : Nat → Bool) (oot : Bool)
    (x0 y Sig errz0 gV : Vec α) (nan inf : α)
    (hw : (run P pr stop oot x0 y Sig errz0 gV nan inf).wrote = true) :
    (run P pr stop oot x0 y Sig errz0 gV nan inf).y
        = (P.psi (run P pr stop oot x0 y Sig errz0 gV nan inf).x).2 ∧
    (errz0.length > 0 → (run P pr stop oot x0 y Sig errz0 gV nan inf).errz
        = vdiv (vsub (run P pr stop oot x0 y Sig errz0 gV nan inf).y y) Sig) := by
  obtain ⟨_, hy, he⟩ := (fista_exit_contract P pr stop oot x0 y Sig errz0 gV nan inf).1 hw
  exact ⟨hy, fun h => by rw [he, if_pos h]⟩

/-- With `always_overwrite_results` disabled and an exit that is neither Converged nor
    Interrupted, `x`, `y` (and `err_z`) are left untouched. -/
theorem fista_untouched (P : Problem α) (pr : Params α) (stop : Nat → Bool) (oot : Bool)
    (x0 y Sig errz0 gV : Vec α) (nan inf : α)
    (hw : (run P pr stop oot x0 y Sig errz0 gV nan inf).wrote = false) :
    (run P pr stop oot x0 y Sig errz0 gV nan inf).x = x0 ∧
    (run P pr stop oot x0 y Sig errz0 gV nan inf).y = y ∧
    (run P pr stop oot x0 y Sig errz0 gV nan inf).errz = errz0 :=
  (fista_exit_contract P pr stop oot x0 y Sig errz0 gV nan inf).2 hw

/-- The outputs are overwritten exactly when the status is Converged / Interrupted or
    `always_overwrite_results` is set (and the solve got past the Lipschitz estimate). -/
theorem fista_wrote_iff (P : Problem α) (pr : Params α) (stop : Nat → Bool) (oot : Bool)
    (x0 y Sig errz0 gV : Vec α) (nan inf : α)
    (h : EndsAt P pr stop oot x0 y Sig errz0 (run P pr stop oot x0 y Sig errz0 gV nan inf)) :
    (run P pr stop oot x0 y Sig errz0 gV nan inf).wrote =
      ((run P pr stop oot x0 y Sig errz0 gV nan inf).stats.status == .Converged ||
       (run P pr stop oot x0 y Sig errz0 gV nan inf).stats.status == .Interrupted ||
       pr.alwaysOverwrite) := by
  obtain ⟨s, _, _, _, hr⟩ := h
  rw [hr]
  have := exitBlock_fields P pr (headStep P pr stop oot (proxStage P pr stop s)).1
    (headStep P pr stop oot (proxStage P pr stop s)).2.1 (headStep P pr stop oot (proxStage P pr stop s)).2.2
    x0 y Sig errz0
  rw [this.1, this.2.1]

/-! ### The model's backtracking fuel suffices (linearly ordered fields)

The theorems above hold whatever the model's fuel does; but a run of the *model* is a run of the C++ loop
only if the backtracking `while` was never truncated by the model's `qubFuel`.  Over an ordered field this
is a theorem under `FistaFuelOK pr nL` (`0 < L_min ≤ L_max ≤ L_min·2^nL`, `L_max ≤ L_0·2^nL` for a
user-supplied `L_0 > 0`, `nL + 1 ≤ qubFuel`): `L` doubles per pass and the loop stops at `L ≥ L_max`. -/
theorem fista_fuel_suffices {β : Type} [Field β] [LinearOrder β] [IsStrictOrderedRing β] [RealLike β]
    (P : Problem β) (pr : Params β) (stop : Nat → Bool) (oot : Bool)
    (x0 y Sig errz0 gV : Vec β) (nan inf : β) (nL : Nat) (hp : FistaFuelOK pr nL) :
    (run P pr stop oot x0 y Sig errz0 gV nan inf).fuelOut = false :=
  run_fuelOut_false P pr stop oot x0 y Sig errz0 gV nan inf nL hp

/-! ### Non-vacuity: a concrete run of the model over ℚ (constant oracles) -/

local instance instRealLikeRatC03F : RealLike ℚ := ⟨id, fun _ => false, fun _ => true⟩

/-- one-dimensional problem, prox oracle returning `x̂ = 1/2`, ψ oracle returning `ŷ = [3]`. -/
def exP : Problem ℚ :=
  { psiGradPsi := fun x => (0, x, []), psi := fun _ => (0, [3]), gradPsi := fun x => x,
    gradL := fun _ _ => [0], prox := fun _ _ _ => (0, [1/2], [0]) }

def exPr : Params ℚ :=
  { L0 := 1, lipEps := 0, lipDelta := 0, LgammaFactor := 1, maxIter := 3, Lmin := 1, Lmax := 1,
    stopCrit := .ProjGradNorm, maxNoProgress := 10, qubTol := 0, disableAcceleration := false,
    alwaysOverwrite := true, tolerance := 1 }

example : (run exP exPr (fun _ => false) false [2] [1] [2] [0] [] 0 0).wrote = true ∧
    (run exP exPr (fun _ => false) false [2] [1] [2] [0] [] 0 0).x = [1/2] ∧
    (run exP exPr (fun _ => false) false [2] [1] [2] [0] [] 0 0).y = [3] ∧
    (run exP exPr (fun _ => false) false [2] [1] [2] [0] [] 0 0).errz = [1] := by
  decide +kernel

/-- `FistaFuelOK` for the example parameters (fixed step size `L_min = L_max = 1`: `nL = 0`) and the
    fuel theorem instantiated -/
example : (run exP exPr (fun _ => false) false [2] [1] [2] [0] [] 0 0).fuelOut = false :=
  fista_fuel_suffices exP exPr (fun _ => false) false [2] [1] [2] [0] [] 0 0 0
    ⟨by norm_num [exPr], by norm_num [exPr], by norm_num [exPr],
     fun h => by exact absurd h (by decide), by norm_num [exPr]⟩

/-- `FistaFuelOK` for the library's DEFAULT `FISTAParams` (backtracking: `L_min = 1e-5`, `L_max = 1e20`,
    `L_0 = 0` i.e. estimated) with the model's default fuel 4096: `nL = 84` (`2⁸⁴ ≥ 10²⁵`), `85 ≤ 4096`. -/
def prFistaDefault : Params ℚ :=
  { exPr with L0 := 0, Lmin := 1/100000, Lmax := 100000000000000000000, LgammaFactor := 19/20,
              maxIter := 1000, qubFuel := 4096 }
example : FistaFuelOK prFistaDefault 84 :=
  ⟨by norm_num [prFistaDefault, exPr], by norm_num [prFistaDefault, exPr], by norm_num [prFistaDefault, exPr],
    fun _ h => by norm_num [prFistaDefault, exPr] at h, by norm_num [prFistaDefault, exPr]⟩

end Alpaqa.Props.C03_Fista
