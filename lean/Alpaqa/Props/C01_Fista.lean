/-
  C01 for the FISTA inner solver: the FISTA loop model satisfies the inner contract of `Props/C01_Alm`,
  hence ALM over FISTA returning `Converged` certifies an approximate KKT point.

  * `OracleContractFista pb n m Pf` — what FISTA's problem record has to do on well-sized arguments:
    `eval_ψ`'s `ŷ`, `eval_grad_L`, the prox step equal the user's closed forms (`ProblemCF`), and the
    oracles return vectors of the right size (`Proofs/C01Fista.FistaProblemSized`).  No consistency law
    between `eval_ψ_grad_ψ` and `eval_ψ` is needed: FISTA always computes `∇ψ(x̂)` as
    `eval_grad_L(x̂, ŷ)` with the `ŷ` of `eval_ψ(x̂)` (`Proofs/FistaInv.proxStage_gradHat`).
  * `fista_satisfies_inner_contract` — `InnerContract pb n m (fistaInner …)` for the ApproxKKT criterion,
    every step-size mode (fixed `L_min = L_max`, user `L_0`, finite-difference estimate), with and without
    acceleration, every stop schedule, time-limit oracle, clock, ALM stop oracle.  Nothing is assumed
    about the run.
  * `fista_written_closed_form` — every criterion, every writing exit, both step-size modes: `x_out` is a
    projected-gradient point with `γ > 0`, `y_out = ŷ(x_out)`, `err_z = (y_out − y)/Σ` in closed form
    (covers the late `eval_ψx̂` of the exit block in the fixed-step mode).
  * `alm_fista_certifies_kkt` / `alm_m0_fista_certifies_kkt` — the composed statements.
  * closed examples over ℚ on the problem `pbEx` of `Props/C01_Alm` (fixed-step and backtracking mode).
  Real-number semantics (ordered field, no NaN); IEEE rounding is not modelled.
-/
import Alpaqa.Props.C01_Alm
import Alpaqa.Proofs.C01Fista

namespace Alpaqa.Props.C01Fista
open Alpaqa Alpaqa.Gen Alpaqa.C07 Alpaqa.C04 Alpaqa.Props.C01 Alpaqa.Props.C07 Alpaqa.Props.C01Alm
open Alpaqa.Fista Alpaqa.Props.C03_Fista Alpaqa.Props.C06_Fista
set_option linter.unusedSectionVars false

variable {α A : Type} [Field α] [LinearOrder α] [IsStrictOrderedRing α] [RealLike α]
  [Alpaqa.Proofs.C07.NoNaN α]

/-- The problem oracles FISTA is handed (for multipliers `y` and penalties `Σ` of size `m`) equal the
    closed forms on well-sized arguments: `eval_ψ`'s `ŷ` (`Props/C04.yhat_closed_kernel`), `eval_grad_L`
    (`grad_L_closed`), the prox step is the box projection step (`Props/C15`, `Props/C01.projStepO_some`);
    and they return vectors of the right size (`FistaProblemSized`).  The analogue of
    `C01Alm.OracleContract` for `Fista.Problem`; FISTA never reads the workspace of `eval_ψ_grad_ψ` and
    never uses its gradient at `x̂`, so there is no `law` clause. -/
structure OracleContractFista (pb : ProblemCF α) (n m : Nat) (Pf : Vec α → Vec α → Fista.Problem α) :
    Prop where
  yhat : ∀ y Sig x, y.length = m → Sig.length = m → x.length = n →
    ((Pf y Sig).psi x).2 = yhatCF pb x y Sig
  gradL : ∀ y Sig x yh, y.length = m → Sig.length = m → x.length = n → yh.length = m →
    (Pf y Sig).gradL x yh = pb.gradL x yh
  prox : ∀ y Sig γ x g, y.length = m → Sig.length = m → x.length = n → g.length = n →
    ((Pf y Sig).prox γ x g).2.1 = vadd x (projStepVO γ x g pb.C) ∧
    ((Pf y Sig).prox γ x g).2.2 = projStepVO γ x g pb.C
  sized : ∀ y Sig, y.length = m → Sig.length = m → FistaProblemSized n m (Pf y Sig)

/-- FISTA's parameters for an inner call: tolerance and `always_overwrite_results` from the options -/
def fistaParams (pr : Fista.Params α) (c : InnerCall α) : Fista.Params α :=
  { pr with tolerance := c.opts.tolerance, alwaysOverwrite := c.opts.always_overwrite_results }

/-- the FISTA run an inner call triggers: tolerance and `always_overwrite_results` from the options,
    `y`, `Σ`, `x`, the `err_z` buffer from the call; stop schedule and time-limit oracle are arbitrary;
    `gV` / `nanS` the arbitrary initial content of never-written storage, `infS` the default `Stats::ε` -/
def fistaRun (Pf : Vec α → Vec α → Fista.Problem α) (pr : Fista.Params α)
    (stop : InnerCall α → Nat → Bool) (oot : InnerCall α → Bool) (gV : Vec α) (nanS infS : α)
    (c : InnerCall α) : Fista.Result α :=
  Fista.run (Pf c.y c.sigma) (fistaParams pr c) (stop c) (oot c) c.x c.y c.sigma c.errBuf gV nanS infS

/-- `FISTASolver::operator()` as an inner-solver function of the ALM model.  `stop` is FISTA's own flag as
    a function of the tick, `clock` / `almStop` the two oracle bits ALM reads after the inner solve —
    arbitrary, and not related to `stop` (as for `C01Alm.panocInner`). -/
def fistaInner (Pf : Vec α → Vec α → Fista.Problem α) (pr : Fista.Params α)
    (stop : InnerCall α → Nat → Bool) (oot clock almStop : InnerCall α → Bool) (gV : Vec α) (nanS infS : α)
    (c : InnerCall α) : InnerResult α (Fista.Stats α) :=
  let r := fistaRun Pf pr stop oot gV nanS infS c
  ⟨r.stats.status, r.stats.eps, r.x, r.y, r.errz, r.stats, clock c, almStop c⟩

theorem fuelOK_fistaParams {pr : Fista.Params α} {nL : Nat} (h : FistaFuelOK pr nL) (c : InnerCall α) :
    FistaFuelOK (fistaParams pr c) nL :=
  ⟨h.lmin_pos, h.lmin_le, h.lmax_lmin, h.lmax_l0, h.fuel⟩

/-- the model run behind `fistaInner` is a run of the C++ loop: the backtracking `while` is never truncated
    by the model's fuel (`Proofs/FistaFuel`; the main loop's own fuel is never used up,
    `FistaInv.mainLoop_endsAtHead`) — for every stop schedule, monotone or not -/
theorem fistaRun_fuel (Pf : Vec α → Vec α → Fista.Problem α) (pr : Fista.Params α) (nL : Nat)
    (hF : FistaFuelOK pr nL) (stop : InnerCall α → Nat → Bool) (oot : InnerCall α → Bool) (gV : Vec α)
    (nanS infS : α) (c : InnerCall α) : (fistaRun Pf pr stop oot gV nanS infS c).fuelOut = false :=
  run_fuelOut_false _ _ _ _ _ _ _ _ _ _ _ nL (fuelOK_fistaParams hF c)

/-- **What FISTA writes back, every criterion, every step-size mode** (well-formed call, any exit that
    writes: `Converged`, `Interrupted`, or `always_overwrite_results`): `x_out` is the projected-gradient
    point `x + Π-step(γ, x, g)` of an iterate with `γ > 0`, `y_out = ŷ(x_out)` in closed form and
    `err_z = (y_out − y)/Σ`.  With a fixed step size (`L_min = L_max`) and a criterion that does not read
    `∇ψ(x̂)`, `ψ(x̂)` / `ŷ` are evaluated in the exit block only (`if (fixed_lipschitz && !need_grad_ψx̂)
    eval_ψx̂(*curr)`); the clause `y_out = ŷ(x_out)` holds there too (`Props/C03_Fista.fista_exit_contract`). -/
theorem fista_written_closed_form (pb : ProblemCF α) (n m : Nat)
    (Pf : Vec α → Vec α → Fista.Problem α) (hO : OracleContractFista pb n m Pf)
    (pr : Fista.Params α) (hpos : 0 < pr.LgammaFactor) (nL : Nat) (hF : FistaFuelOK pr nL)
    (stop : InnerCall α → Nat → Bool) (oot : InnerCall α → Bool) (gV : Vec α) (nanS infS : α)
    (c : InnerCall α) (hwf : WFCall n m c)
    (hw : (fistaRun Pf pr stop oot gV nanS infS c).wrote = true) :
    ∃ (γ : α) (x gψ : Vec α), 0 < γ ∧
      (fistaRun Pf pr stop oot gV nanS infS c).x = vadd x (projStepVO γ x gψ pb.C) ∧
      (fistaRun Pf pr stop oot gV nanS infS c).y =
        yhatCF pb (fistaRun Pf pr stop oot gV nanS infS c).x c.y c.sigma ∧
      (0 < c.errBuf.length → (fistaRun Pf pr stop oot gV nanS infS c).errz =
        vdiv (vsub (fistaRun Pf pr stop oot gV nanS infS c).y c.y) c.sigma) := by
  have hPs := hO.sized c.y c.sigma hwf.y hwf.sigma
  unfold fistaRun at hw ⊢
  generalize hpr' : fistaParams pr c = pr' at hw ⊢
  have hpos' : 0 < pr'.LgammaFactor := by subst hpr'; exact hpos
  have hF' : FistaFuelOK pr' nL := by subst hpr'; exact fuelOK_fistaParams hF c
  set P := Pf c.y c.sigma with hP
  obtain ⟨_, hyout, hez⟩ :=
    (fista_exit_contract P pr' (stop c) (oot c) c.x c.y c.sigma c.errBuf gV nanS infS).1 hw
  rcases run_exit_inv hPs pr' hpos' nL hF' (stop c) (oot c) c.x c.y c.sigma c.errBuf gV nanS infS hwf.x
    with hnf | ⟨s, hs, hγ, hrun⟩
  · rw [hnf.2.1] at hw; cases hw
  · have hsz := proxStage_sized hPs pr' (stop c) s hs
    have hgood := proxStage_good P pr' (stop c) s
    have hγc := proxStage_gamma_pos P pr' (stop c) s hγ
    have hprox := hO.prox c.y c.sigma (proxStage P pr' (stop c) s).curr.gamma (proxStage P pr' (stop c) s).curr.x
      (proxStage P pr' (stop c) s).curr.gradPsi hwf.y hwf.sigma hsz.x hsz.g
    have hx : (Fista.run P pr' (stop c) (oot c) c.x c.y c.sigma c.errBuf gV nanS infS).x =
        (proxStage P pr' (stop c) s).curr.xhat := by
      have hw' := hw
      rw [hrun] at hw' ⊢
      rw [exitBlock_x P pr' _ _ _ c.x c.y c.sigma c.errBuf hw', (headStep_curr P pr' (stop c) (oot c) _).1]
    refine ⟨(proxStage P pr' (stop c) s).curr.gamma, (proxStage P pr' (stop c) s).curr.x,
      (proxStage P pr' (stop c) s).curr.gradPsi, hγc, ?_, ?_, ?_⟩
    · rw [hx, hgood.1.2.1]; exact hprox.1
    · rw [hyout]
      exact hO.yhat c.y c.sigma _ hwf.y hwf.sigma (by rw [hx]; exact hsz.xhat)
    · intro hl
      rw [hez, if_pos hl]

/-- **What a `Converged` FISTA run on a well-formed call looks like** (ApproxKKT criterion): the iterate
    `it` at the last loop head has `γ > 0`, `(x̂, p)` the projected-gradient step from `(x, γ, ∇ψ)` in closed
    form, `ŷ = ŷ(x̂)` in closed form, `∇ψ(x̂) = ∇L(x̂, ŷ)` in closed form; `x̂`, `ŷ` are what is written back,
    `ε` is the generated ApproxKKT residual of `it`, `err_z = (ŷ − y)/Σ`, and `ε ≤` the given tolerance. -/
theorem fista_converged_run (pb : ProblemCF α) (n m : Nat)
    (Pf : Vec α → Vec α → Fista.Problem α) (hO : OracleContractFista pb n m Pf)
    (pr : Fista.Params α) (hpos : 0 < pr.LgammaFactor) (nL : Nat) (hF : FistaFuelOK pr nL)
    (hcrit : pr.stopCrit = .ApproxKKT)
    (stop : InnerCall α → Nat → Bool) (oot : InnerCall α → Bool) (gV : Vec α) (nanS infS : α)
    (c : InnerCall α) (hwf : WFCall n m c)
    (hc : (fistaRun Pf pr stop oot gV nanS infS c).stats.status = .Converged) :
    ∃ it : Fista.Iterate α, 0 < it.gamma ∧
      it.xhat = vadd it.x (projStepVO it.gamma it.x it.gradPsi pb.C) ∧
      it.p = projStepVO it.gamma it.x it.gradPsi pb.C ∧
      it.yhat = yhatCF pb it.xhat c.y c.sigma ∧
      it.gradPsiHat = pb.gradL it.xhat it.yhat ∧
      (fistaRun Pf pr stop oot gV nanS infS c).x = it.xhat ∧
      (fistaRun Pf pr stop oot gV nanS infS c).y = it.yhat ∧
      (fistaRun Pf pr stop oot gV nanS infS c).stats.eps =
        stopCrit_ApproxKKT (fun _ v _ => (v, v)) it.p it.gamma it.x it.xhat it.yhat it.gradPsi
          it.gradPsiHat ∧
      (0 < c.errBuf.length → (fistaRun Pf pr stop oot gV nanS infS c).errz =
        vdiv (vsub it.yhat c.y) c.sigma) ∧
      (0 < c.opts.tolerance →
        (fistaRun Pf pr stop oot gV nanS infS c).stats.eps ≤ c.opts.tolerance) := by
  have hPs := hO.sized c.y c.sigma hwf.y hwf.sigma
  unfold fistaRun at hc ⊢
  generalize hpr' : fistaParams pr c = pr' at hc ⊢
  have hpos' : 0 < pr'.LgammaFactor := by subst hpr'; exact hpos
  have hF' : FistaFuelOK pr' nL := by subst hpr'; exact fuelOK_fistaParams hF c
  have hcrit' : pr'.stopCrit = .ApproxKKT := by subst hpr'; exact hcrit
  have htol' : pr'.tolerance = c.opts.tolerance := by subst hpr'; rfl
  have hneed : needGradHat pr' = true := by unfold needGradHat; rw [hcrit']; rfl
  set P := Pf c.y c.sigma with hP
  -- the exit contract of C03 (both step-size modes): y = ŷ(x_out), err_z = (y − y_in)/Σ
  have hok := fista_exit_contract P pr' (stop c) (oot c) c.x c.y c.sigma c.errBuf gV nanS infS
  -- Converged ⇔ ε ≤ tol' (C06)
  have hends := (fista_run_cases P pr' (stop c) (oot c) c.x c.y c.sigma c.errBuf gV nanS infS).resolve_left
    (fun h => by rw [h.2.2.2.2.1] at hc; cases hc)
  have hconv := (fista_converged_iff P pr' (stop c) (oot c) c.x c.y c.sigma c.errBuf gV nanS infS hends).mp hc
  have hwrote : (Fista.run P pr' (stop c) (oot c) c.x c.y c.sigma c.errBuf gV nanS infS).wrote = true := by
    rw [fista_wrote_iff P pr' (stop c) (oot c) c.x c.y c.sigma c.errBuf gV nanS infS hends, hc]; rfl
  obtain ⟨_, hyout, hez⟩ := hok.1 hwrote
  rcases run_exit_inv hPs pr' hpos' nL hF' (stop c) (oot c) c.x c.y c.sigma c.errBuf gV nanS infS hwf.x
    with hnf | ⟨s, hs, hγ, hrun⟩
  · rw [hnf.1] at hc; cases hc
  · set sh := proxStage P pr' (stop c) s with hsh
    have hhc := headStep_curr P pr' (stop c) (oot c) sh
    have hsz := proxStage_sized hPs pr' (stop c) s hs
    have hgood := proxStage_good P pr' (stop c) s
    have hgh := proxStage_gradHat P pr' (stop c) s hneed
    have hγc := proxStage_gamma_pos P pr' (stop c) s hγ
    rw [← hsh] at hsz hgood hgh hγc
    have hprox := hO.prox c.y c.sigma sh.curr.gamma sh.curr.x sh.curr.gradPsi hwf.y hwf.sigma hsz.x hsz.g
    have hyh : sh.curr.yhat = (P.psi sh.curr.xhat).2 := hgood.2 (by rw [hneed]; simp)
    have hyl : sh.curr.yhat.length = m := by rw [hyh]; exact hPs.psi_yhat _ hsz.xhat
    have hx : (Fista.run P pr' (stop c) (oot c) c.x c.y c.sigma c.errBuf gV nanS infS).x = sh.curr.xhat := by
      have hw' := hwrote
      rw [hrun] at hw' ⊢
      rw [exitBlock_x P pr' _ _ _ c.x c.y c.sigma c.errBuf hw', hhc.1]
    have hy : (Fista.run P pr' (stop c) (oot c) c.x c.y c.sigma c.errBuf gV nanS infS).y = sh.curr.yhat := by
      rw [hyout, hx, ← hyh]
    have heps : (Fista.run P pr' (stop c) (oot c) c.x c.y c.sigma c.errBuf gV nanS infS).stats.eps =
        stopCrit_ApproxKKT (fun _ v _ => (v, v)) sh.curr.p sh.curr.gamma sh.curr.x sh.curr.xhat
          sh.curr.yhat sh.curr.gradPsi sh.curr.gradPsiHat := by
      rw [hrun, (exitBlock_fields P pr' _ _ _ c.x c.y c.sigma c.errBuf).2.2.2.1]
      have e1 : (headStep P pr' (stop c) (oot c) sh).2.1 = epsOf P pr' sh.curr := by
        unfold headStep; rfl
      rw [e1]
      unfold epsOf
      rw [hcrit']
      rfl
    refine ⟨sh.curr, hγc, ?_, ?_, ?_, ?_, hx, hy, heps, ?_, ?_⟩
    · rw [hgood.1.2.1]; exact hprox.1
    · rw [hgood.1.2.2]; exact hprox.2
    · rw [hyh]; exact hO.yhat c.y c.sigma _ hwf.y hwf.sigma hsz.xhat
    · rw [hgh]; exact hO.gradL c.y c.sigma _ _ hwf.y hwf.sigma hsz.xhat hyl
    · intro hl
      rw [hez, if_pos hl, hy]
    · intro ht
      unfold Alpaqa.Props.C06.effTol at hconv
      rw [htol', if_pos ht] at hconv
      exact hconv

/-- **FISTA satisfies `InnerContract`** for the ApproxKKT criterion (part of the property statement), in all
    three step-size modes — fixed (`L_min = L_max`: `ψ(x̂)`, `ŷ` are evaluated in the loop body because the
    criterion needs `∇ψ(x̂)`; the `y = ŷ(x̂)` / `err_z` clauses are derived from the mode-independent exit
    contract `Props/C03_Fista.fista_exit_contract`, which also covers the late `eval_ψx̂` of the exit block),
    user-supplied `L_0`, finite-difference estimate —, with and without acceleration, every `max_iter`
    (0 included), every stop schedule (**monotone or not**: unlike PANOC's, FISTA's fuel theorem needs no
    `StopMono`), time-limit oracle, clock, ALM stop oracle, and parameters with `0 < Lγ_factor` and
    `FistaFuelOK pr nL` (`0 < L_min ≤ L_max ≤ L_min·2^nL`, …: needed for `L > 0`, hence `γ > 0`; it also makes
    the model's backtracking fuel sufficient, `fistaRun_fuel`).
    Nothing is assumed about the run itself: which iterate is written back, that `ε` is the ApproxKKT
    criterion of exactly that iterate with `∇ψ(x̂) = ∇L(x̂, ŷ)`, `γ > 0`, `y = ŷ(x̂)`, `err_z = (ŷ − y)/Σ`,
    `Converged ⇒ ε ≤ tolerance`, the sizes of `x`, `y`, `err_z` (`Proofs/C01Fista.run_sized`) are all proved
    from the loop model. -/
theorem fista_satisfies_inner_contract (pb : ProblemCF α) (n m : Nat)
    (Pf : Vec α → Vec α → Fista.Problem α) (hO : OracleContractFista pb n m Pf)
    (pr : Fista.Params α) (hpos : 0 < pr.LgammaFactor) (nL : Nat) (hF : FistaFuelOK pr nL)
    (hcrit : pr.stopCrit = .ApproxKKT)
    (stop : InnerCall α → Nat → Bool) (oot clock almStop : InnerCall α → Bool)
    (gV : Vec α) (nanS infS : α) :
    InnerContract pb n m (fistaInner Pf pr stop oot clock almStop gV nanS infS) := by
  have hsize : ∀ c, WFCall n m c →
      (fistaRun Pf pr stop oot gV nanS infS c).x.length = n ∧
      (fistaRun Pf pr stop oot gV nanS infS c).y.length = m ∧
      (fistaRun Pf pr stop oot gV nanS infS c).errz.length = m := fun c hwf =>
    run_sized (hO.sized c.y c.sigma hwf.y hwf.sigma) (fistaParams pr c) hpos nL (fuelOK_fistaParams hF c)
      (stop c) (oot c) c.x c.y c.sigma c.errBuf gV nanS infS hwf.x hwf.y hwf.sigma hwf.errBuf
  refine ⟨?_, ?_, fun c hwf => (hsize c hwf).1, fun c hwf => (hsize c hwf).2.1,
    fun c hwf => (hsize c hwf).2.2⟩
  · intro c hwf hc
    obtain ⟨it, hγ, hxh, hpp, hyh, hgL, hx, hy, heps, herr, _⟩ :=
      fista_converged_run pb n m Pf hO pr hpos nL hF hcrit stop oot gV nanS infS c hwf hc
    refine ⟨it.gamma, it.x, it.gradPsi, hγ, ?_, ?_, ?_, ?_⟩
    · show (fistaRun Pf pr stop oot gV nanS infS c).x = _
      rw [hx]; exact hxh
    · show (fistaRun Pf pr stop oot gV nanS infS c).stats.eps = stopCrit_ApproxKKT _ _ _ _
        (fistaRun Pf pr stop oot gV nanS infS c).x (fistaRun Pf pr stop oot gV nanS infS c).y _
        (pb.gradL (fistaRun Pf pr stop oot gV nanS infS c).x (fistaRun Pf pr stop oot gV nanS infS c).y)
      rw [heps, hx, hy, ← hgL, ← hpp]
    · show (fistaRun Pf pr stop oot gV nanS infS c).y =
        yhatCF pb (fistaRun Pf pr stop oot gV nanS infS c).x c.y c.sigma
      rw [hy, hx]; exact hyh
    · intro hl
      show (fistaRun Pf pr stop oot gV nanS infS c).errz =
        vdiv (vsub (fistaRun Pf pr stop oot gV nanS infS c).y c.y) c.sigma
      rw [herr hl, hy]
  · intro c hwf ht hc
    obtain ⟨_, _, _, _, _, _, _, _, _, _, htol⟩ :=
      fista_converged_run pb n m Pf hO pr hpos nL hF hcrit stop oot gV nanS infS c hwf hc
    exact htol ht

/-! ### The oracles built from the closed forms meet `OracleContractFista` -/

/-- The problem oracles FISTA is handed, built from the user's closed forms (`ψ` arbitrary: it only enters
    the quadratic-upper-bound test). -/
def cfProblemFista (pb : ProblemCF α) (ψ : Vec α → Vec α → Vec α → α) (y Sig : Vec α) : Fista.Problem α where
  psiGradPsi x := (ψ y Sig x, pb.gradL x (yhatCF pb x y Sig), yhatCF pb x y Sig)
  psi x := (ψ y Sig x, yhatCF pb x y Sig)
  gradPsi x := pb.gradL x (yhatCF pb x y Sig)
  gradL x yh := pb.gradL x yh
  prox γ x g := (0, vadd x (projStepVO γ x g pb.C), projStepVO γ x g pb.C)

/-- **`OracleContractFista` holds for the closed-form oracles** of every problem with `|C| = n` whose `∇L`
    returns vectors of size `n`. -/
theorem cfProblemFista_contract (pb : ProblemCF α) (ψ : Vec α → Vec α → Vec α → α) (n m : Nat)
    (hC : pb.C.length = n)
    (hgL : ∀ x y, x.length = n → y.length = m → (pb.gradL x y).length = n) :
    OracleContractFista pb n m (cfProblemFista pb ψ) := by
  refine ⟨fun _ _ _ _ _ _ => rfl, fun _ _ _ _ _ _ _ _ => rfl, fun _ _ _ _ _ _ _ _ _ => ⟨rfl, rfl⟩, ?_⟩
  intro y Sig hy _
  have hyl : ∀ x, (yhatCF pb x y Sig).length = m := fun x => by rw [yhatCF_length, hy]
  refine ⟨fun x hx => hgL _ _ hx (hyl x), fun x _ => hyl x, fun x hx => hgL _ _ hx (hyl x), ?_, ?_⟩
  · intro γ x g hx hg
    show (vadd x (projStepVO γ x g pb.C)).length = n
    rw [fvadd_length, projStepVO_length, hx, hg, hC]; simp
  · intro γ x g hx hg
    show (projStepVO γ x g pb.C).length = n
    rw [projStepVO_length, hx, hg, hC]; simp

/-! ### Composition with the ALM outer loop -/

/-- **C01 for ALM over FISTA** (`m ≠ 0`): whenever the ALM model (`Props/C07`; any ALM parameters with
    `0 < min_penalty ≤ max_penalty`, any initial penalties of the right size, any clock / stop oracles) run
    over the FISTA loop model (ApproxKKT criterion, `0 < Lγ_factor`, `FistaFuelOK`, any step-size mode,
    any stop schedule) returns `Converged`, the returned `(x, y)` carries the KKT certificate with
    `tolerance` and `dual_tolerance`. -/
theorem alm_fista_certifies_kkt (nan inf : α) (acc0 : A) (accAdd : A → Fista.Stats α → A)
    (P : ALMParams α) (prob : Alpaqa.C07.Problem α) (x y : Vec α) (Sig0 : Option (Vec α))
    (pb : ProblemCF α) (n : Nat)
    (Pf : Vec α → Vec α → Fista.Problem α) (hO : OracleContractFista pb n prob.m Pf)
    (pr : Fista.Params α) (hpos : 0 < pr.LgammaFactor) (nL : Nat) (hF : FistaFuelOK pr nL)
    (hcrit : pr.stopCrit = .ApproxKKT)
    (stop : InnerCall α → Nat → Bool) (oot clock almStop : InnerCall α → Bool)
    (gV : Vec α) (nanS infS : α)
    (hm : prob.m ≠ 0)
    (hC : ∀ b ∈ pb.C, ∀ l u, b.1 = some l → b.2 = some u → l ≤ u)
    (hD : ∀ i, i < prob.m → BndOK (lbAt pb.D i) (ubAt pb.D i))
    (hmin : 0 < P.min_penalty) (hmm : P.min_penalty ≤ P.max_penalty)
    (hlen : SigmaLen prob.m Sig0) (hx : x.length = n) (hy : y.length = prob.m)
    (hconv : (run nan inf acc0 accAdd P prob x y Sig0
      (fistaInner Pf pr stop oot clock almStop gV nanS infS)).stats.status = .Converged) :
    KKTCert pb prob.m P.tolerance P.dual_tolerance
      (run nan inf acc0 accAdd P prob x y Sig0 (fistaInner Pf pr stop oot clock almStop gV nanS infS)).x
      (run nan inf acc0 accAdd P prob x y Sig0 (fistaInner Pf pr stop oot clock almStop gV nanS infS)).y :=
  alm_converged_certifies_kkt nan inf acc0 accAdd P prob x y Sig0 _ pb n
    (fista_satisfies_inner_contract pb n prob.m Pf hO pr hpos nL hF hcrit stop oot clock almStop gV nanS infS)
    hm hC hD hmin hmm hlen hx hy hconv

/-- **C01 for ALM over FISTA, `m = 0`**: ALM passes FISTA's status through; `Converged` certifies
    stationarity within `tolerance` and `x ∈ C`. -/
theorem alm_m0_fista_certifies_kkt (nan inf : α) (acc0 : A) (accAdd : A → Fista.Stats α → A)
    (P : ALMParams α) (prob : Alpaqa.C07.Problem α) (x y : Vec α) (Sig0 : Option (Vec α))
    (pb : ProblemCF α) (n : Nat)
    (Pf : Vec α → Vec α → Fista.Problem α) (hO : OracleContractFista pb n 0 Pf)
    (pr : Fista.Params α) (hpos : 0 < pr.LgammaFactor) (nL : Nat) (hF : FistaFuelOK pr nL)
    (hcrit : pr.stopCrit = .ApproxKKT)
    (stop : InnerCall α → Nat → Bool) (oot clock almStop : InnerCall α → Bool)
    (gV : Vec α) (nanS infS : α)
    (hm : prob.m = 0) (h0 : P.max_iter ≠ 0)
    (hC : ∀ b ∈ pb.C, ∀ l u, b.1 = some l → b.2 = some u → l ≤ u)
    (htol : 0 < P.tolerance) (hδ : 0 ≤ P.dual_tolerance) (hx : x.length = n) (hy : y.length = prob.m)
    (hconv : (run nan inf acc0 accAdd P prob x y Sig0
      (fistaInner Pf pr stop oot clock almStop gV nanS infS)).stats.status = .Converged) :
    KKTCert pb 0 P.tolerance P.dual_tolerance
      (run nan inf acc0 accAdd P prob x y Sig0 (fistaInner Pf pr stop oot clock almStop gV nanS infS)).x
      (run nan inf acc0 accAdd P prob x y Sig0 (fistaInner Pf pr stop oot clock almStop gV nanS infS)).y :=
  alm_m0_converged_certifies_kkt nan inf acc0 accAdd P prob x y Sig0 _ pb n
    (fista_satisfies_inner_contract pb n 0 Pf hO pr hpos nL hF hcrit stop oot clock almStop gV nanS infS)
    hm h0 hC htol hδ hx hy hconv

/-! ### Non-vacuity: `pbEx` of `Props/C01_Alm` (`n = 1`, `m = 1`, ℚ) -/
section examples

local instance instRealLikeRatC01F : RealLike ℚ := ⟨id, fun _ => false, fun _ => true⟩
local instance : Alpaqa.Proofs.C07.NoNaN ℚ := ⟨fun _ => rfl⟩

/-- FISTA parameters, backtracking mode: user `L_0 = 4`, `L ∈ [1/16, 64]`, ApproxKKT -/
def prFx : Fista.Params ℚ :=
  { L0 := 4, lipEps := 1/1000000, lipDelta := 1/1000000000000, LgammaFactor := 19/20, maxIter := 8,
    Lmin := 1/16, Lmax := 64, stopCrit := .ApproxKKT, maxNoProgress := 10, qubTol := 0,
    disableAcceleration := false, alwaysOverwrite := false, tolerance := 0, qubFuel := 16 }

/-- the same with a fixed step size `L_min = L_max = 4` -/
def prFxFixed : Fista.Params ℚ := { prFx with Lmin := 4, Lmax := 4 }

theorem prFx_fuel : FistaFuelOK prFx 10 :=
  ⟨by norm_num [prFx], by norm_num [prFx], by norm_num [prFx], fun _ _ => by norm_num [prFx],
    by norm_num [prFx]⟩

theorem prFxFixed_fuel : FistaFuelOK prFxFixed 0 :=
  ⟨by norm_num [prFxFixed, prFx], by norm_num [prFxFixed, prFx], by norm_num [prFxFixed, prFx],
    fun h => absurd h (by decide), by norm_num [prFxFixed, prFx]⟩

theorem pbEx_contractFista : OracleContractFista pbEx 1 1 (cfProblemFista pbEx psiEx) :=
  cfProblemFista_contract pbEx psiEx 1 1 rfl (fun _ _ _ _ => rfl)

/-- **the FISTA loop model over the closed-form oracles of `pbEx` satisfies the inner contract** — no
    hypothesis left (backtracking mode) -/
theorem fistaEx_contract :
    InnerContract pbEx 1 1
      (fistaInner (cfProblemFista pbEx psiEx) prFx (fun _ _ => false) (fun _ => false)
        (fun _ => false) (fun _ => false) [] 0 0) :=
  fista_satisfies_inner_contract pbEx 1 1 (cfProblemFista pbEx psiEx) pbEx_contractFista prFx
    (by norm_num [prFx]) 10 prFx_fuel rfl (fun _ _ => false) (fun _ => false) (fun _ => false)
    (fun _ => false) [] 0 0

/-- … and in the fixed-step mode -/
theorem fistaExFixed_contract :
    InnerContract pbEx 1 1
      (fistaInner (cfProblemFista pbEx psiEx) prFxFixed (fun _ _ => false) (fun _ => false)
        (fun _ => false) (fun _ => false) [] 0 0) :=
  fista_satisfies_inner_contract pbEx 1 1 (cfProblemFista pbEx psiEx) pbEx_contractFista prFxFixed
    (by norm_num [prFxFixed, prFx]) 0 prFxFixed_fuel rfl (fun _ _ => false) (fun _ => false)
    (fun _ => false) (fun _ => false) [] 0 0

/-- the contract is not vacuous there: on the well-formed call at the solution the FISTA model reports
    `Converged` with `x = [1]`, `y = [2]`, `err_z = [0]` (the `err_z` buffer held `[7]`) -/
example : (fistaInner (cfProblemFista pbEx psiEx) prFx (fun _ _ => false) (fun _ => false)
      (fun _ => false) (fun _ => false) [] 0 0 ⟨[1], [2], [1], [7], ⟨true, 1/10, 0, false⟩⟩).status = .Converged ∧
    (fistaInner (cfProblemFista pbEx psiEx) prFx (fun _ _ => false) (fun _ => false)
      (fun _ => false) (fun _ => false) [] 0 0 ⟨[1], [2], [1], [7], ⟨true, 1/10, 0, false⟩⟩).x = [1] ∧
    (fistaInner (cfProblemFista pbEx psiEx) prFx (fun _ _ => false) (fun _ => false)
      (fun _ => false) (fun _ => false) [] 0 0 ⟨[1], [2], [1], [7], ⟨true, 1/10, 0, false⟩⟩).y = [2] ∧
    (fistaInner (cfProblemFista pbEx psiEx) prFx (fun _ _ => false) (fun _ => false)
      (fun _ => false) (fun _ => false) [] 0 0 ⟨[1], [2], [1], [7], ⟨true, 1/10, 0, false⟩⟩).errz = [0] := by
  decide +kernel

/-- a run that iterates: from `x = [1/2]` (backtracking mode, accelerated) FISTA converges within its budget -/
example : (fistaInner (cfProblemFista pbEx psiEx) prFx (fun _ _ => false) (fun _ => false)
      (fun _ => false) (fun _ => false) [] 0 0 ⟨[1/2], [2], [1], [7], ⟨true, 1/10, 0, false⟩⟩).status = .Converged ∧
    0 < (fistaInner (cfProblemFista pbEx psiEx) prFx (fun _ _ => false) (fun _ => false)
      (fun _ => false) (fun _ => false) [] 0 0 ⟨[1/2], [2], [1], [7], ⟨true, 1/10, 0, false⟩⟩).stats.iterations := by
  decide +kernel

/-- the same in the fixed-step mode -/
example : (fistaInner (cfProblemFista pbEx psiEx) prFxFixed (fun _ _ => false) (fun _ => false)
      (fun _ => false) (fun _ => false) [] 0 0 ⟨[1/2], [2], [1], [7], ⟨true, 1/10, 0, false⟩⟩).status = .Converged ∧
    0 < (fistaInner (cfProblemFista pbEx psiEx) prFxFixed (fun _ _ => false) (fun _ => false)
      (fun _ => false) (fun _ => false) [] 0 0 ⟨[1/2], [2], [1], [7], ⟨true, 1/10, 0, false⟩⟩).stats.iterations := by
  decide +kernel

/-- `fista_written_closed_form` is about the late `eval_ψx̂` too: fixed step size, criterion `ProjGradNorm`
    (does not read `∇ψ(x̂)`): `ŷ` is evaluated in the exit block only, and `y = ŷ(x̂) = [2]`, `err_z = [0]` -/
example : (fistaRun (cfProblemFista pbEx psiEx) { prFxFixed with stopCrit := .ProjGradNorm } (fun _ _ => false)
      (fun _ => false) [] 0 0 ⟨[1], [2], [1], [7], ⟨true, 1/10, 0, false⟩⟩).wrote = true ∧
    (fistaRun (cfProblemFista pbEx psiEx) { prFxFixed with stopCrit := .ProjGradNorm } (fun _ _ => false)
      (fun _ => false) [] 0 0 ⟨[1], [2], [1], [7], ⟨true, 1/10, 0, false⟩⟩).y = [2] ∧
    (fistaRun (cfProblemFista pbEx psiEx) { prFxFixed with stopCrit := .ProjGradNorm } (fun _ _ => false)
      (fun _ => false) [] 0 0 ⟨[1], [2], [1], [7], ⟨true, 1/10, 0, false⟩⟩).errz = [0] := by
  decide +kernel

/-- **the whole stack, closed**: ALM (`Props/C07` model) over the FISTA loop model on `pbEx` returns
    `Converged`, and `alm_fista_certifies_kkt` — every hypothesis discharged — certifies its result -/
example : KKTCert pbEx 1 (1/10) (1/100)
    (run (0 : ℚ) 0 (0 : Nat) (fun a _ => a + 1) almEx probEx [1] [2] none
      (fistaInner (cfProblemFista pbEx psiEx) prFx (fun _ _ => false) (fun _ => false)
        (fun _ => false) (fun _ => false) [] 0 0)).x
    (run (0 : ℚ) 0 (0 : Nat) (fun a _ => a + 1) almEx probEx [1] [2] none
      (fistaInner (cfProblemFista pbEx psiEx) prFx (fun _ _ => false) (fun _ => false)
        (fun _ => false) (fun _ => false) [] 0 0)).y :=
  alm_fista_certifies_kkt (0 : ℚ) 0 (0 : Nat) (fun a _ => a + 1) almEx probEx [1] [2] none pbEx 1
    (cfProblemFista pbEx psiEx) pbEx_contractFista prFx (by norm_num [prFx]) 10 prFx_fuel rfl
    (fun _ _ => false) (fun _ => false) (fun _ => false) (fun _ => false) [] 0 0
    (by decide) pbEx_C pbEx_D (by norm_num [almEx]) (by norm_num [almEx]) trivial rfl rfl
    (by decide +kernel)

/-- the values that run returns -/
example : (run (0 : ℚ) 0 (0 : Nat) (fun a _ => a + 1) almEx probEx [1] [2] none
      (fistaInner (cfProblemFista pbEx psiEx) prFx (fun _ _ => false) (fun _ => false)
        (fun _ => false) (fun _ => false) [] 0 0)).x = [1] ∧
    (run (0 : ℚ) 0 (0 : Nat) (fun a _ => a + 1) almEx probEx [1] [2] none
      (fistaInner (cfProblemFista pbEx psiEx) prFx (fun _ _ => false) (fun _ => false)
        (fun _ => false) (fun _ => false) [] 0 0)).y = [2] := by
  decide +kernel

/-- **the whole stack from a point that is not the solution**: ALM over FISTA from `x = [1/2]` — the inner solve iterates
    (see the inner-run example above: `0 < iterations`) — returns `Converged`, certified with every hypothesis discharged -/
example : KKTCert pbEx 1 (1/10) (1/100)
    (run (0 : ℚ) 0 (0 : Nat) (fun a _ => a + 1) almEx probEx [1/2] [2] none
      (fistaInner (cfProblemFista pbEx psiEx) prFx (fun _ _ => false) (fun _ => false)
        (fun _ => false) (fun _ => false) [] 0 0)).x
    (run (0 : ℚ) 0 (0 : Nat) (fun a _ => a + 1) almEx probEx [1/2] [2] none
      (fistaInner (cfProblemFista pbEx psiEx) prFx (fun _ _ => false) (fun _ => false)
        (fun _ => false) (fun _ => false) [] 0 0)).y :=
  alm_fista_certifies_kkt (0 : ℚ) 0 (0 : Nat) (fun a _ => a + 1) almEx probEx [1/2] [2] none pbEx 1
    (cfProblemFista pbEx psiEx) pbEx_contractFista prFx (by norm_num [prFx]) 10 prFx_fuel rfl
    (fun _ _ => false) (fun _ => false) (fun _ => false) (fun _ => false) [] 0 0
    (by decide) pbEx_C pbEx_D (by norm_num [almEx]) (by norm_num [almEx]) trivial rfl rfl
    (by decide +kernel)

/-- … and it does not return its starting point -/
example : (run (0 : ℚ) 0 (0 : Nat) (fun a _ => a + 1) almEx probEx [1/2] [2] none
      (fistaInner (cfProblemFista pbEx psiEx) prFx (fun _ _ => false) (fun _ => false)
        (fun _ => false) (fun _ => false) [] 0 0)).x ≠ [1/2] := by
  decide +kernel

end examples

end Alpaqa.Props.C01Fista
