/-
  C07 — ALM outer-loop invariants: penalties, multiplier bounds, tolerances, accounting.

  Objects.  `Alpaqa.C07.run` (Model/C07.lean) is the hand-written control skeleton of
  `ALMSolver<InnerSolverT>::operator()`; everything the loop computes is `Alpaqa.Gen.*`
  (Gen/C07.lean), regenerated from alm.tpp / alm-helpers.tpp on every run.  The inner solver is an
  arbitrary function of what it is called with (so the theorems quantify over *all* sequences of
  inner outcomes), the clock an oracle bit per inner solve, and so is ALM's own stop flag
  (`stopSeen`: what `stop_signal.stop_requested()` reads right after that inner solve); `nan`, `inf`, the statistics
  accumulator and `m` (incl. `m = 0`), `single_penalty_factor`, the optional user Σ are all
  universally quantified.  Carrier: any linearly ordered field without NaN (`NoNaN`): real-number
  semantics of the program text; IEEE rounding is not modelled.

  Hypotheses.  `ValidParams` / `SigmaLen` / `SigmaLeMax` / `SizeOK` (defined, with the reason for every
  conjunct, in `Proofs/C07Run.lean` next to the loop invariants) list every hypothesis the proofs
  force; each theorem takes only what it needs.  `SizeOK n m inner` constrains the inner solver on
  *well-sized* calls only (`SizedCall n m`: `x` of size `n`; `y`, Σ, the `err_z` buffer of size `m`):
  there it hands `x`, `y`, `err_z` back with the sizes it got.  The loop is proved to make only such
  calls (`step_call_sized`) from `x.length = n`, `y.length = m` and `SigmaLen` — nothing is assumed
  about an inner solver on ill-sized buffers.  After the repairs /verif/fixes/C07-*.diff
  (penalties never decrease, ε₀ = max(initial_tolerance, tolerance), single-factor mode uses the
  largest entry of the caller's Σ, a caller Σ with a non-positive entry is not used) `penalty_mono`
  needs no parameter hypothesis at all and `penalty_le_max` keeps exactly the property's exemption
  "unless the caller's initial ones do".  The remaining excluded points (unvalidated
  `tolerance_update_factor > 1`, negative `tolerance`, `min_penalty ≤ 0`, `max_multiplier < 0`; the
  unchecked `m = 0` status) are run on the real code by `checks/c07.py` (`excluded_points`) and are
  counterexamples of the model too (see the `example`s at the end).
-/
import Alpaqa.Proofs.C07Run

namespace Alpaqa.Props.C07
open Alpaqa Alpaqa.Gen Alpaqa.C07 Alpaqa.Proofs.C07
set_option linter.unusedSectionVars false

variable {α A S : Type} [Field α] [LinearOrder α] [IsStrictOrderedRing α] [RealLike α] [NoNaN α]

variable (nan inf : α) (acc0 : A) (accAdd : A → S → A) (P : ALMParams α) (prob : Problem α)
  (x y : Vec α) (Sig0 : Option (Vec α)) (inner : InnerCall α → InnerResult α S)

local notation "RUN" => run nan inf acc0 accAdd P prob x y Sig0 inner
local notation "LOOP" => loop P prob accAdd (Option.isSome Sig0) (Option.getD Sig0 []) inner
local notation "STEP" => mkStep P prob accAdd (Option.isSome Sig0) (Option.getD Sig0 []) inner
local notation "INIT" => almInit P nan inf acc0 prob.m (Option.isSome Sig0) (Option.getD Sig0 []) prob.f0 prob.g0

/-! ### The property -/

/-- Every Σ passed to an inner solve of the loop satisfies `Q`, if `Q` holds for the Σ the loop
    starts with and is preserved by `update_penalty_weights`. -/
theorem history_sigma (Q : Vec α → Prop) (hnil : Q [])
    (hQ : ∀ Δ first e eo ne neo Sg, e.length = Sg.length → Q Sg →
      Q (updatePenaltyWeights P Δ first e eo ne neo Sg))
    (hlen : SigmaLen prob.m Sig0) (h0 : Q (INIT).Sig_curr) {n : Nat} (hin : SizeOK n prob.m inner)
    (hx : x.length = n) (hy : y.length = prob.m) :
    ∀ h ∈ (RUN).history, Q h.1.sigma := by
  rcases run_cases nan inf acc0 accAdd P prob x y Sig0 inner with ⟨_, hr⟩ | ⟨_, _, hr⟩ | ⟨_, _, hr⟩ <;>
    rw [hr]
  · intro h hh; cases hh
  · intro h hh
    simp only [List.mem_singleton] at hh
    subst hh; exact hnil
  · intro h hh
    rw [loop_history_eq, List.mem_map] at hh
    obtain ⟨s, hs', rfl⟩ := hh
    obtain ⟨x', y', hI, he⟩ := steps_sigInv nan inf acc0 accAdd P prob x y Sig0 inner Q hQ hlen.hlen h0 hin
      hx hy _ s hs'
    rw [he, mkStep_call]
    exact hI.1.2

/-- **penalty_pos.**  Every penalty factor passed to the inner solver is positive — for every
    `penalty_update_factor`, every `max_penalty`, every caller-supplied Σ (one with a non-positive
    component is not used).  Forced: `0 < min_penalty ≤ max_penalty` (automatic initial penalty). -/
theorem penalty_pos (hmin : 0 < P.min_penalty) (hmm : P.min_penalty ≤ P.max_penalty)
    (hlen : SigmaLen prob.m Sig0) {n : Nat} (hin : SizeOK n prob.m inner)
    (hx : x.length = n) (hy : y.length = prob.m) :
    ∀ h ∈ (RUN).history, ∀ σ ∈ h.1.sigma, 0 < σ :=
  history_sigma nan inf acc0 accAdd P prob x y Sig0 inner AllPos (fun _ h => by cases h)
    (fun Δ first e eo ne neo Sg hl h => upw_pos P Δ first e eo ne neo Sg hl h) hlen
    (by rw [almInit_Sig]; exact uniformize_pos P _ (initSig0_pos nan P prob Sig0 hmin hmm)) hin hx hy

/-- **penalty_le_max.**  No penalty factor exceeds `max_penalty` *unless the caller's initial ones
    do*: `initial_penalty ≤ max_penalty` and `SigmaLeMax` (the caller's Σ, if any) are exactly that
    exemption.  Forced besides: `min_penalty ≤ max_penalty`. -/
theorem penalty_le_max (hmm : P.min_penalty ≤ P.max_penalty) (hip : P.initial_penalty ≤ P.max_penalty)
    (hs : SigmaLeMax P Sig0) (hlen : SigmaLen prob.m Sig0) {n : Nat} (hin : SizeOK n prob.m inner)
    (hx : x.length = n) (hy : y.length = prob.m) :
    ∀ h ∈ (RUN).history, ∀ σ ∈ h.1.sigma, σ ≤ P.max_penalty :=
  history_sigma nan inf acc0 accAdd P prob x y Sig0 inner (AllLe P) (fun _ h => by cases h)
    (fun Δ first e eo ne neo Sg hl h => upw_le P Δ first e eo ne neo Sg hl h) hlen
    (by rw [almInit_Sig]; exact uniformize_le P _ (initSig0_le nan P prob Sig0 hmm hip hs)) hin hx hy

/-- **penalty_mono.**  Between consecutive outer iterations no penalty factor decreases — with no
    hypothesis on the parameters or on the caller's Σ (values above `max_penalty`,
    `penalty_update_factor < 1`, non-uniform Σ in single-factor mode included). -/
theorem penalty_mono (hlen : SigmaLen prob.m Sig0) {n : Nat} (hin : SizeOK n prob.m inner)
    (hx : x.length = n) (hy : y.length = prob.m)
    (pre : List (InnerCall α × InnerResult α S)) (a b : InnerCall α × InnerResult α S)
    (post : List (InnerCall α × InnerResult α S)) (h : (RUN).history = pre ++ a :: b :: post)
    (j : Nat) : vget a.1.sigma j ≤ vget b.1.sigma j := by
  rcases run_cases nan inf acc0 accAdd P prob x y Sig0 inner with ⟨_, hr⟩ | ⟨_, _, hr⟩ | ⟨_, _, hr⟩ <;>
    rw [hr] at h
  · exact absurd (congrArg List.length h) (by simp)
  · exact absurd (congrArg List.length h) (by simp; omega)
  · obtain ⟨i, st, st', x', y', hI, hc, rfl, rfl⟩ := history_pair nan inf acc0 accAdd P prob x y Sig0 inner
      (SigSzInv (Uniform P) n prob.m)
      ⟨⟨almInit_len nan inf acc0 P prob Sig0 hlen.hlen, by rw [almInit_Sig]; exact uniformize_uniform P _⟩,
        hx, hy⟩
      (fun i st st' x y hI hc => sigInv_step accAdd P prob Sig0 inner (Uniform P)
        (fun Δ first e eo ne neo Sg _ h => upw_uniform P Δ first e eo ne neo Sg h) hin i st st' x y hI hc)
      _ pre a b post h
    simp only [mkStep_call]
    rw [(step_cont P prob accAdd _ _ inner hc).2.2.2.2]
    exact upw_mono _ _ _ _ _ _ _ _ (step_errz_len accAdd P prob Sig0 inner hin i st x' y' hI.sz) hI.1.2 j

/-- **penalty_grows_only_where_needed (i).**  A penalty factor changes between two consecutive
    inner solves only if the slack error of the first exceeds the dual tolerance
    (`if (norm_e <= params.dual_tolerance) return;`).  No parameter validity is needed. -/
theorem penalty_unchanged_when_feasible (hlen : SigmaLen prob.m Sig0)
    {n : Nat} (hin : SizeOK n prob.m inner) (hx : x.length = n) (hy : y.length = prob.m)
    (pre : List (InnerCall α × InnerResult α S)) (a b : InnerCall α × InnerResult α S)
    (post : List (InnerCall α × InnerResult α S)) (h : (RUN).history = pre ++ a :: b :: post)
    (j : Nat) (hne : vget b.1.sigma j ≠ vget a.1.sigma j) :
    P.dual_tolerance < normInf a.2.errz := by
  rcases run_cases nan inf acc0 accAdd P prob x y Sig0 inner with ⟨_, hr⟩ | ⟨_, _, hr⟩ | ⟨_, _, hr⟩ <;>
    rw [hr] at h
  · exact absurd (congrArg List.length h) (by simp)
  · exact absurd (congrArg List.length h) (by simp; omega)
  · obtain ⟨i, st, st', x', y', hI, hc, rfl, rfl⟩ := history_pair nan inf acc0 accAdd P prob x y Sig0 inner
      (SzInv n prob.m) ⟨almInit_len nan inf acc0 P prob Sig0 hlen.hlen, hx, hy⟩
      (fun i st st' x y hI hc => szInv_step accAdd P prob Sig0 inner hin i st st' x y hI hc)
      _ pre a b post h
    simp only [mkStep_call] at hne
    rw [(step_cont P prob accAdd _ _ inner hc).2.2.2.2] at hne
    exact (upw_changed _ _ _ _ _ _ _ _
      (step_errz_len accAdd P prob Sig0 inner hin i st x' y' hI) j hne).1

/-- **penalty_grows_only_where_needed (ii).**  From the second update on, component `j` changes
    only if its violation failed to shrink by the factor θ = `rel_penalty_increase_threshold`
    relative to the previous inner solve (`|e_j| > θ|e_j^old|`); with `single_penalty_factor` the
    test is on the ∞-norms, as the code has it.  (The first update, after the very first inner
    solve, has `first_iter = true` and may change every component.) -/
theorem penalty_grows_only_where_needed (hlen : SigmaLen prob.m Sig0)
    {n : Nat} (hin : SizeOK n prob.m inner) (hx : x.length = n) (hy : y.length = prob.m)
    (pre : List (InnerCall α × InnerResult α S)) (z a b : InnerCall α × InnerResult α S)
    (post : List (InnerCall α × InnerResult α S)) (h : (RUN).history = pre ++ z :: a :: b :: post)
    (j : Nat) (hne : vget b.1.sigma j ≠ vget a.1.sigma j) :
    if P.single_penalty_factor = true then
      P.rel_penalty_increase_threshold * normInf z.2.errz < normInf a.2.errz
    else P.rel_penalty_increase_threshold * |vget z.2.errz j| < |vget a.2.errz j| := by
  rcases run_cases nan inf acc0 accAdd P prob x y Sig0 inner with ⟨_, hr⟩ | ⟨_, _, hr⟩ | ⟨_, _, hr⟩ <;>
    rw [hr] at h
  · exact absurd (congrArg List.length h) (by simp)
  · exact absurd (congrArg List.length h) (by simp; omega)
  · obtain ⟨i, st, st', st'', x', y', hI, hc, rfl, hc2, rfl, rfl⟩ :=
      history_triple nan inf acc0 accAdd P prob x y Sig0 inner
      (SzInv n prob.m) ⟨almInit_len nan inf acc0 P prob Sig0 hlen.hlen, hx, hy⟩
      (fun i st st' x y hI hc => szInv_step accAdd P prob Sig0 inner hin i st st' x y hI hc)
      _ pre z a b post h
    have hI' := szInv_step accAdd P prob Sig0 inner hin i st st' x' y' hI hc
    simp only [mkStep_call] at hne
    rw [(step_cont P prob accAdd _ _ inner hc2).2.2.2.2] at hne
    have := (upw_changed _ _ _ _ _ _ _ _
      (step_errz_len accAdd P prob Sig0 inner hin (i + 1) st' _ _ hI') j hne).2
    have hst' := (step_cont P prob accAdd _ _ inner hc).2.2.2.2
    simp only [Nat.add_eq_zero_iff, one_ne_zero, and_false, beq_iff_eq, false_or] at this
    have e1 : st'.error_old = (STEP i st x' y').res.errz := by rw [hst']
    have e2 : st'.norm_e_old = normInf (STEP i st x' y').res.errz := by rw [hst']
    rw [e1, e2] at this
    exact this

/-- **multipliers_in_bounds_signed.**  The multipliers every inner solve receives lie in
    `[-max_multiplier, max_multiplier]`, are `≥ 0` on rows without lower bound and `≤ 0` on rows
    without upper bound (`y` has `m` entries; forced: `0 ≤ max_multiplier`). -/
theorem multipliers_in_bounds_signed (hM : 0 ≤ P.max_multiplier) (hy : y.length = prob.m) :
    ∀ h ∈ (RUN).history, ∀ j,
      -P.max_multiplier ≤ vget h.1.y j ∧ vget h.1.y j ≤ P.max_multiplier ∧
      (prob.lbInf.getD j false = true → 0 ≤ vget h.1.y j) ∧
      (prob.ubInf.getD j false = true → vget h.1.y j ≤ 0) := by
  rcases run_cases nan inf acc0 accAdd P prob x y Sig0 inner with ⟨_, hr⟩ | ⟨_, hm, hr⟩ | ⟨_, _, hr⟩ <;>
    rw [hr]
  · intro h hh; cases hh
  · intro h hh j
    simp only [List.mem_singleton] at hh
    subst hh
    have : y = [] := List.eq_nil_of_length_eq_zero (by rw [hy, hm])
    subst this
    simp only [vget_ge ([] : Vec α) j (Nat.zero_le _)]
    exact ⟨by linarith, hM, fun _ => le_refl _, fun _ => le_refl _⟩
  · intro h hh j
    rw [loop_history_eq, List.mem_map] at hh
    obtain ⟨s, hs', rfl⟩ := hh
    obtain ⟨x', y', _, he⟩ := loop_steps_forall P prob accAdd _ _ inner (fun _ _ _ _ => True)
      (fun _ _ _ _ _ _ _ => trivial) _ 0 INIT x y trivial s hs'
    rw [he]
    simp only [mkStep_call, projMult]
    exact projMultipliers_bounds _ _ _ _ _ hM j

/-- **tolerance_antitone_ge_final.**  The inner tolerances never drop below the final tolerance
    and never increase — also when `initial_tolerance < tolerance` (the loop then starts at
    `tolerance`).  Forced: `0 ≤ tolerance`, `tolerance_update_factor ≤ 1`. -/
theorem tolerance_antitone_ge_final (h0 : 0 ≤ P.tolerance) (h2 : P.tolerance_update_factor ≤ 1) :
    (∀ h ∈ (RUN).history, P.tolerance ≤ h.1.opts.tolerance) ∧
    (∀ pre a b post, (RUN).history = pre ++ a :: b :: post →
      b.1.opts.tolerance ≤ a.1.opts.tolerance) := by
  have hJ0 : (fun st : LoopState α A => P.tolerance ≤ st.eps) INIT := by
    show P.tolerance ≤ (almInit _ _ _ _ _ _ _ _ _).eps
    rw [almInit_eps]; exact le_max_right _ _
  have hJ : ∀ i (st st' : LoopState α A) x y, P.tolerance ≤ st.eps →
      (STEP i st x y).out = .cont st' → P.tolerance ≤ st'.eps := by
    intro i st st' x y _ hc
    rw [(step_cont P prob accAdd _ _ inner hc).2.2.2.2]
    simp only [fmaxS_eq_max]; exact le_max_right _ _
  rcases run_cases nan inf acc0 accAdd P prob x y Sig0 inner with ⟨_, hr⟩ | ⟨_, _, hr⟩ | ⟨_, _, hr⟩ <;>
    rw [hr]
  · exact ⟨fun h hh => (by cases hh), fun pre a b post h => absurd (congrArg List.length h) (by simp)⟩
  · refine ⟨fun h hh => ?_, fun pre a b post h => absurd (congrArg List.length h) (by simp; omega)⟩
    simp only [List.mem_singleton] at hh
    subst hh; exact le_refl _
  · constructor
    · intro h hh
      rw [loop_history_eq, List.mem_map] at hh
      obtain ⟨s, hs', rfl⟩ := hh
      obtain ⟨x', y', hI, he⟩ := loop_steps_forall P prob accAdd _ _ inner
        (fun _ st _ _ => P.tolerance ≤ st.eps) (fun i st x y st' hI hc => hJ i st st' x y hI hc)
        _ 0 INIT x y hJ0 s hs'
      rw [he]; exact hI
    · intro pre a b post h
      obtain ⟨i, st, st', x', y', hI, hc, rfl, rfl⟩ := history_pair nan inf acc0 accAdd P prob x y Sig0
        inner (fun st _ _ => P.tolerance ≤ st.eps) hJ0 (fun i st st' x y h hc => hJ i st st' x y h hc)
        _ pre a b post h
      simp only [mkStep_call, almInnerOpts]
      rw [(step_cont P prob accAdd _ _ inner hc).2.2.2.2]
      simp only [fmaxS_eq_max]
      have : (0:α) ≤ st.eps := le_trans h0 hI
      exact max_le (by nlinarith) hI

/-- **outer_le_max_iter.**  At most `max_iter` inner solves; `outer_iterations` counts them; the
    `throw std::logic_error` after the loop is unreachable. -/
theorem outer_le_max_iter :
    (RUN).history.length ≤ P.max_iter ∧ (RUN).stats.outer_iterations = (RUN).history.length ∧
    (RUN).logicError = false := by
  rcases run_cases nan inf acc0 accAdd P prob x y Sig0 inner with ⟨h0, hr⟩ | ⟨h0, _, hr⟩ | ⟨h0, _, hr⟩ <;>
    rw [hr]
  · exact ⟨by simp, rfl, rfl⟩
  · exact ⟨by simp; omega, rfl, rfl⟩
  · have hne := loop_no_throw P prob accAdd Sig0.isSome (Sig0.getD []) inner P.max_iter 0 INIT x y
      (by omega) h0
    refine ⟨?_, ?_, hne⟩
    · rw [loop_history_eq, List.length_map]; exact loop_len _ _ _ _ _ _ _ _ _ _ _
    · rw [loop_outer _ _ _ _ _ _ _ _ _ _ _ hne]; omega

/-- **converged_iff_last_inner.**  With general constraints (`m ≠ 0`), `Converged` is reported
    exactly when the last inner solve converged with `ε ≤ tolerance` and slack error
    `‖e‖∞ ≤ dual_tolerance`.  No hypothesis on parameters or on the inner solver. -/
theorem converged_iff_last_inner (hm : prob.m ≠ 0) :
    (RUN).stats.status = .Converged ↔
      ∃ last, (RUN).history.getLast? = some last ∧ last.2.status = .Converged ∧
        last.2.eps ≤ P.tolerance ∧ normInf last.2.errz ≤ P.dual_tolerance := by
  rcases run_cases nan inf acc0 accAdd P prob x y Sig0 inner with ⟨h0, hr⟩ | ⟨h0, hm0, hr⟩ | ⟨h0, _, hr⟩
  · rw [hr]; simp [almMaxIter0]
  · exact absurd hm0 hm
  · rw [hr]
    obtain ⟨init, s, stats, Sg, x', y', _, _, hs, hout, hst, _, hh, _, _, _⟩ :=
      loop_path_last nan inf acc0 accAdd P prob x y Sig0 inner h0
    rw [hst, hh, List.getLast?_concat]
    rw [hs] at hout
    have hd := step_done P prob accAdd _ _ inner hout
    rw [← hs] at hd
    simp only [Option.some.injEq, exists_eq_left']
    by_cases hi : s.res.status = .Interrupted
    · rw [hd.2.2.2.2.2.2.2.1 hi, hi]; simp
    · have h3 := hd.2.2.2.2.2.2.2.2 hi
      constructor
      · intro hc
        by_contra hn
        have hn' : ¬ AlmConv P s.res.status s.res.eps s.res.errz := fun ⟨a, b, c⟩ => hn ⟨b, a, c⟩
        cases hsp : s.res.stopSeen
        · cases ho : s.res.outOfTime
          · rw [(h3.2.2.2 hn' hsp ho).2] at hc; cases hc
          · rw [h3.2.2.1 hn' hsp ho] at hc; cases hc
        · rw [h3.2.1 hn' hsp] at hc; cases hc
      · rintro ⟨a, b, c⟩; exact h3.1 ⟨b, a, c⟩

/-- **interrupted_returns_immediately.**  After an inner solve that reports `Interrupted` no
    further inner solve happens, and ALM itself reports `Interrupted`. -/
theorem interrupted_returns_immediately
    (pre : List (InnerCall α × InnerResult α S)) (h : InnerCall α × InnerResult α S)
    (post : List (InnerCall α × InnerResult α S)) (hh : (RUN).history = pre ++ h :: post)
    (hi : h.2.status = .Interrupted) : post = [] ∧ (RUN).stats.status = .Interrupted := by
  rcases run_cases nan inf acc0 accAdd P prob x y Sig0 inner with ⟨h0, hr⟩ | ⟨h0, hm0, hr⟩ | ⟨h0, _, hr⟩ <;>
    rw [hr] at hh ⊢
  · exact absurd (congrArg List.length hh) (by simp)
  · have hl := congrArg List.length hh
    simp only [List.length_cons, List.length_nil, List.length_append] at hl
    have hp : pre = [] := List.eq_nil_of_length_eq_zero (by omega)
    have hq : post = [] := List.eq_nil_of_length_eq_zero (by omega)
    subst hp hq
    simp only [List.nil_append, List.cons.injEq, and_true] at hh
    subst hh
    exact ⟨rfl, by simp only [almM0]; exact hi⟩
  · cases post with
    | cons b post' =>
      exfalso
      obtain ⟨i, st, st', x', y', _, hc, rfl, _⟩ := history_pair nan inf acc0 accAdd P prob x y Sig0
        inner (fun _ _ _ => True) trivial (fun _ _ _ _ _ _ _ => trivial) _ pre h b post' hh
      exact (step_cont P prob accAdd _ _ inner hc).1 hi
    | nil =>
      refine ⟨rfl, ?_⟩
      obtain ⟨init, s, stats, Sg, x', y', _, _, hs, hout, hst, _, hhist, _, _, _⟩ :=
        loop_path_last nan inf acc0 accAdd P prob x y Sig0 inner h0
      rw [hhist] at hh
      have := List.append_inj_right' hh (by simp)
      simp only [List.cons.injEq, and_true] at this
      rw [hst]
      rw [hs] at hout
      have hd := step_done P prob accAdd _ _ inner hout
      rw [← hs] at hd
      apply hd.2.2.2.2.2.2.2.1
      rw [← this] at hi; exact hi

/-- **sigma_handed_back.**  On the loop path the caller's Σ buffer receives the penalties the
    last inner solve was called with; without a buffer nothing is handed back; on the
    `max_iter == 0` and `m == 0` paths the buffer is left untouched. -/
theorem sigma_handed_back :
    (Sig0 = none → (RUN).sigmaOut = none) ∧
    (P.max_iter = 0 ∨ prob.m = 0 → (RUN).sigmaOut = Sig0) ∧
    (P.max_iter ≠ 0 → prob.m ≠ 0 → Sig0.isSome = true →
      ∃ last, (RUN).history.getLast? = some last ∧ (RUN).sigmaOut = some last.1.sigma) := by
  rcases run_cases nan inf acc0 accAdd P prob x y Sig0 inner with ⟨h0, hr⟩ | ⟨h0, hm0, hr⟩ | ⟨h0, hm, hr⟩ <;>
    rw [hr]
  · exact ⟨fun h => h, fun _ => rfl, fun h => absurd h0 h⟩
  · exact ⟨fun h => h, fun _ => rfl, fun _ h => absurd hm0 h⟩
  · obtain ⟨init, s, stats, Sg, x', y', _, _, hs, hout, _, hsig, hhist, _, _, _⟩ :=
      loop_path_last nan inf acc0 accAdd P prob x y Sig0 inner h0
    rw [hs] at hout
    have hd := step_done P prob accAdd _ _ inner hout
    refine ⟨fun hn => ?_, fun h => ?_, fun _ _ hsome => ?_⟩
    · rw [hsig, hn]; rfl
    · rcases h with h | h
      · exact absurd h h0
      · exact absurd h hm
    · refine ⟨(s.call, s.res), ?_, ?_⟩
      · rw [hhist, List.getLast?_concat]
      · rw [hsig, hsome, hd.2.2.2.2.2.2.1, hsome]
        simp only [if_true]
        rw [hs]; rfl

/-- **stats_are_sums.**  The accumulated inner statistics are the inner solver's own `+=` folded
    over the inner solves in order, and `inner_convergence_failures` counts the solves that did
    not report `Converged` — on every path. -/
theorem stats_are_sums :
    (RUN).stats.inner = ((RUN).history.map (·.2.stats)).foldl accAdd acc0 ∧
    (RUN).stats.inner_convergence_failures =
      (RUN).history.countP (fun h => !(h.2.status == .Converged)) := by
  rcases run_cases nan inf acc0 accAdd P prob x y Sig0 inner with ⟨h0, hr⟩ | ⟨h0, hm0, hr⟩ | ⟨h0, hm, hr⟩ <;>
    rw [hr]
  · exact ⟨rfl, rfl⟩
  · refine ⟨rfl, ?_⟩
    simp only [almM0, ALMStats.default, List.countP_cons, List.countP_nil, b2n]
    cases (inner ⟨x, y, [], [], almInnerOptsM0 P⟩).status <;> rfl
  · have := loop_acc P prob accAdd Sig0.isSome (Sig0.getD []) inner P.max_iter 0 INIT x y
    have e1 : (INIT).s.inner = acc0 := by unfold almInit; rfl
    have e2 : (INIT).s.inner_convergence_failures = 0 := by unfold almInit; rfl
    rw [e1, e2, Nat.zero_add] at this
    exact this

/-- With an additive accumulator (e.g. iteration counters) the fold is the sum. -/
theorem stats_are_sums_nat (accN : Nat) (f : S → Nat) (l : List (InnerCall α × InnerResult α S)) :
    (l.map (·.2.stats)).foldl (fun a s => a + f s) accN = accN + (l.map (fun h => f h.2.stats)).sum := by
  induction l generalizing accN with
  | nil => simp
  | cons h t ih => simp only [List.map_cons, List.foldl_cons, List.sum_cons]; rw [ih]; omega

/-- **final_status_of_last_inner.**  On the loop path (`max_iter ≠ 0`, `m ≠ 0`) the result is read off
    the last inner solve: ε, δ = ‖e‖∞, `x`, `y` are its outputs, and the status is the first that
    applies of: `Interrupted` (the inner solver reported it), `Converged` (ALM's termination test),
    `Interrupted` (ALM's own stop flag was visible after the inner solve — repair
    /verif/fixes/C19-alm-stop-flag.diff), `MaxTime` (clock), `MaxIter` (then all `max_iter` inner
    solves were made). -/
theorem final_status_of_last_inner (h0 : P.max_iter ≠ 0) (hm : prob.m ≠ 0) :
    ∃ last, (RUN).history.getLast? = some last ∧
      (RUN).stats.eps = last.2.eps ∧ (RUN).stats.delta = normInf last.2.errz ∧
      (RUN).x = last.2.x ∧ (RUN).y = last.2.y ∧
      (last.2.status = .Interrupted → (RUN).stats.status = .Interrupted) ∧
      (last.2.status ≠ .Interrupted →
        (AlmConv P last.2.status last.2.eps last.2.errz → (RUN).stats.status = .Converged) ∧
        (¬ AlmConv P last.2.status last.2.eps last.2.errz → last.2.stopSeen = true →
          (RUN).stats.status = .Interrupted) ∧
        (¬ AlmConv P last.2.status last.2.eps last.2.errz → last.2.stopSeen = false →
          last.2.outOfTime = true → (RUN).stats.status = .MaxTime) ∧
        (¬ AlmConv P last.2.status last.2.eps last.2.errz → last.2.stopSeen = false →
          last.2.outOfTime = false →
          (RUN).history.length = P.max_iter ∧ (RUN).stats.status = .MaxIter)) := by
  rcases run_cases nan inf acc0 accAdd P prob x y Sig0 inner with ⟨h, _⟩ | ⟨_, hm0, _⟩ | ⟨_, _, hr⟩
  · exact absurd h h0
  · exact absurd hm0 hm
  · rw [hr]
    obtain ⟨init, s, stats, Sg, x', y', hne, hsteps, hs, hout, hst, _, hh, hx', hy', _⟩ :=
      loop_path_last nan inf acc0 accAdd P prob x y Sig0 inner h0
    have hlast := (loop_last P prob accAdd Sig0.isSome (Sig0.getD []) inner P.max_iter 0 INIT x y hne)
    rw [hs] at hout
    have hd := step_done P prob accAdd _ _ inner hout
    rw [← hs] at hd
    refine ⟨(s.call, s.res), by rw [hh, List.getLast?_concat], by rw [hst]; exact hd.1,
      by rw [hst]; exact hd.2.1, hx', hy', by rw [hst]; exact hd.2.2.2.2.2.2.2.1, fun hn => ?_⟩
    have h3 := hd.2.2.2.2.2.2.2.2 hn
    rw [hst]
    refine ⟨h3.1, h3.2.1, h3.2.2.1, fun hc hsp ho => ?_⟩
    have h4 := h3.2.2.2 hc hsp ho
    refine ⟨?_, h4.2⟩
    -- the returning pass has index `max_iter − 1`, and it is pass number `history.length`
    have hlen : (LOOP P.max_iter 0 INIT x y).stats.outer_iterations =
        0 + (LOOP P.max_iter 0 INIT x y).history.length :=
      loop_outer P prob accAdd _ _ inner _ _ _ _ _ hne
    rw [hst, hd.2.2.1] at hlen
    omega

/-- **stop_visible_after_inner_returns_interrupted.**  If ALM's own stop flag is visible after
    inner solve number `pre.length` (whatever that inner solve itself reported — `Converged`,
    `MaxIter`, `NoProgress`, …), no further inner solve is started and the run returns there:
    `outer_iterations` = that many inner solves, the accumulated statistics are the sums so far,
    `x`, `y`, ε, δ are that inner solve's outputs, the caller's Σ buffer receives the penalties it
    was called with, and the status is `Interrupted` — unless ALM's own termination test succeeded
    in this very iteration (the last inner solve converged with ε ≤ tolerance and ‖e‖∞ ≤ dual
    tolerance): then the natural status `Converged` is kept ("or the natural final status if it
    finished first"; `converged_iff_last_inner` stays an equivalence).  On the `m = 0` path there
    is a single inner solve and no loop: the first four clauses hold, the status is the inner one
    (`m0_single_call`). -/
theorem stop_visible_after_inner_returns_interrupted
    (pre : List (InnerCall α × InnerResult α S)) (h : InnerCall α × InnerResult α S)
    (post : List (InnerCall α × InnerResult α S)) (hh : (RUN).history = pre ++ h :: post)
    (hs : h.2.stopSeen = true) :
    post = [] ∧ (RUN).stats.outer_iterations = pre.length + 1 ∧
    (RUN).stats.inner = ((pre ++ [h]).map (·.2.stats)).foldl accAdd acc0 ∧
    (RUN).stats.inner_convergence_failures =
      (pre ++ [h]).countP (fun c => !(c.2.status == .Converged)) ∧
    (prob.m ≠ 0 →
      (RUN).x = h.2.x ∧ (RUN).y = h.2.y ∧ (RUN).stats.eps = h.2.eps ∧
      (RUN).stats.delta = normInf h.2.errz ∧
      (Sig0.isSome = true → (RUN).sigmaOut = some h.1.sigma) ∧
      (¬ (h.2.status = .Converged ∧ h.2.eps ≤ P.tolerance ∧ normInf h.2.errz ≤ P.dual_tolerance) →
        (RUN).stats.status = .Interrupted) ∧
      (h.2.status = .Converged ∧ h.2.eps ≤ P.tolerance ∧ normInf h.2.errz ≤ P.dual_tolerance →
        (RUN).stats.status = .Converged)) := by
  have hpost : post = [] := by
    rcases run_cases nan inf acc0 accAdd P prob x y Sig0 inner with ⟨h0, hr⟩ | ⟨h0, hm0, hr⟩ | ⟨h0, _, hr⟩ <;>
      rw [hr] at hh
    · exact absurd (congrArg List.length hh) (by simp)
    · have hl := congrArg List.length hh
      simp only [List.length_cons, List.length_nil, List.length_append] at hl
      exact List.eq_nil_of_length_eq_zero (by omega)
    · cases post with
      | nil => rfl
      | cons b post' =>
        exfalso
        obtain ⟨i, st, st', x', y', _, hc, rfl, _⟩ := history_pair nan inf acc0 accAdd P prob x y Sig0
          inner (fun _ _ _ => True) trivial (fun _ _ _ _ _ _ _ => trivial) _ pre h b post' hh
        have := step_cont_stop P prob accAdd _ _ inner hc
        rw [this] at hs; cases hs
  subst hpost
  have hmi : P.max_iter ≠ 0 := by
    intro h0
    rcases run_cases nan inf acc0 accAdd P prob x y Sig0 inner with ⟨_, hr⟩ | ⟨h, _, _⟩ | ⟨h, _, _⟩
    · rw [hr] at hh; exact absurd (congrArg List.length hh) (by simp)
    · exact h h0
    · exact h h0
  have hlast : (RUN).history.getLast? = some h := by rw [hh, List.getLast?_concat]
  have hO := outer_le_max_iter nan inf acc0 accAdd P prob x y Sig0 inner
  have hS := stats_are_sums nan inf acc0 accAdd P prob x y Sig0 inner
  refine ⟨rfl, by rw [hO.2.1, hh]; simp, by rw [hS.1, hh], by rw [hS.2, hh], fun hm => ?_⟩
  obtain ⟨last, hl, he, hdl, hx, hy, hI, hst⟩ :=
    final_status_of_last_inner nan inf acc0 accAdd P prob x y Sig0 inner hmi hm
  rw [hlast] at hl
  injection hl with hl
  subst hl
  refine ⟨hx, hy, he, hdl, fun hsome => ?_, fun hn => ?_, fun hc => ?_⟩
  · obtain ⟨l2, hl2, hsg⟩ := (sigma_handed_back nan inf acc0 accAdd P prob x y Sig0 inner).2.2 hmi hm hsome
    rw [hlast] at hl2
    injection hl2 with hl2
    rw [hsg, hl2]
  · by_cases hi : h.2.status = .Interrupted
    · exact hI hi
    · exact (hst hi).2.1 (fun ⟨a, b, c⟩ => hn ⟨b, a, c⟩) hs
  · have hi : h.2.status ≠ .Interrupted := by rw [hc.1]; decide
    exact (hst hi).1 ⟨hc.2.1, hc.1, hc.2.2⟩

/-- **interrupted_iff.**  With general constraints (`m ≠ 0`), ALM reports `Interrupted` exactly when
    the last inner solve reported `Interrupted`, or ALM's own stop flag was visible after it and
    ALM's termination test did not succeed in that iteration. -/
theorem interrupted_iff (hm : prob.m ≠ 0) :
    (RUN).stats.status = .Interrupted ↔
      ∃ last, (RUN).history.getLast? = some last ∧
        (last.2.status = .Interrupted ∨
          (last.2.stopSeen = true ∧
            ¬ (last.2.status = .Converged ∧ last.2.eps ≤ P.tolerance ∧
                normInf last.2.errz ≤ P.dual_tolerance))) := by
  by_cases h0 : P.max_iter = 0
  · rcases run_cases nan inf acc0 accAdd P prob x y Sig0 inner with ⟨_, hr⟩ | ⟨h, _, _⟩ | ⟨h, _, _⟩
    · rw [hr]; simp [almMaxIter0]
    · exact absurd h0 h
    · exact absurd h0 h
  obtain ⟨last, hl, _, _, _, _, hI, hst⟩ :=
    final_status_of_last_inner nan inf acc0 accAdd P prob x y Sig0 inner h0 hm
  rw [hl]
  simp only [Option.some.injEq, exists_eq_left']
  by_cases hi : last.2.status = .Interrupted
  · simp only [hi, true_or, iff_true]; exact hI hi
  · have h3 := hst hi
    simp only [hi, false_or]
    by_cases hc : AlmConv P last.2.status last.2.eps last.2.errz
    · rw [h3.1 hc]
      constructor
      · intro h; cases h
      · rintro ⟨_, hn⟩; exact absurd ⟨hc.2.1, hc.1, hc.2.2⟩ hn
    · have hn : ¬ (last.2.status = .Converged ∧ last.2.eps ≤ P.tolerance ∧
          normInf last.2.errz ≤ P.dual_tolerance) := fun ⟨a, b, c⟩ => hc ⟨b, a, c⟩
      cases hsp : last.2.stopSeen
      · constructor
        · intro h
          cases ho : last.2.outOfTime
          · rw [(h3.2.2.2 hc hsp ho).2] at h; cases h
          · rw [h3.2.2.1 hc hsp ho] at h; cases h
        · rintro ⟨h, _⟩; cases h
      · exact ⟨fun _ => ⟨rfl, hn⟩, fun _ => h3.2.1 hc hsp⟩

/-- **m0_single_call.**  Without general constraints (`m = 0`, `max_iter ≠ 0`) the inner solver is
    called exactly once, with the unprojected `y`, empty Σ, the *final* tolerance and
    `always_overwrite_results`; its status and ε are passed through, δ = 0. -/
theorem m0_single_call (hm : prob.m = 0) (h0 : P.max_iter ≠ 0) :
    ∃ c r, (RUN).history = [(c, r)] ∧ r = inner c ∧ c.x = x ∧ c.y = y ∧ c.sigma = [] ∧
      c.opts.tolerance = P.tolerance ∧ c.opts.always_overwrite_results = true ∧
      (RUN).stats.status = r.status ∧ (RUN).stats.eps = r.eps ∧ (RUN).stats.delta = 0 ∧
      (RUN).stats.outer_iterations = 1 ∧ (RUN).x = r.x ∧ (RUN).y = r.y ∧ (RUN).sigmaOut = Sig0 := by
  rcases run_cases nan inf acc0 accAdd P prob x y Sig0 inner with ⟨h, _⟩ | ⟨_, _, hr⟩ | ⟨_, h, _⟩
  · exact absurd h h0
  · rw [hr]
    exact ⟨_, _, rfl, rfl, rfl, rfl, rfl, rfl, rfl, rfl, rfl, rfl, rfl, rfl, rfl, rfl⟩
  · exact absurd hm h

/-- On the `m = 0` path the status is the inner solver's, unchecked.  It means "ε ≤ tolerance and
    slack error ≤ dual tolerance" only under the inner solver's own contract (`Converged` ⇒
    `ε ≤` the tolerance it was given — C06 `converged_iff`) and `0 ≤ dual_tolerance`. -/
theorem m0_converged_iff (hm : prob.m = 0) (h0 : P.max_iter ≠ 0) (hd : 0 ≤ P.dual_tolerance)
    (hc : ∀ c, (inner c).status = .Converged → (inner c).eps ≤ c.opts.tolerance)
    (he : ∀ c, (inner c).errz.length = c.errBuf.length) :
    (RUN).stats.status = .Converged ↔
      ∃ last, (RUN).history.getLast? = some last ∧ last.2.status = .Converged ∧
        last.2.eps ≤ P.tolerance ∧ normInf last.2.errz ≤ P.dual_tolerance := by
  rcases run_cases nan inf acc0 accAdd P prob x y Sig0 inner with ⟨h, _⟩ | ⟨_, _, hr⟩ | ⟨_, h, _⟩
  · exact absurd h h0
  · rw [hr]
    simp only [List.getLast?_singleton, Option.some.injEq, exists_eq_left', almM0]
    constructor
    · intro h
      refine ⟨h, hc _ h, ?_⟩
      have : (inner ⟨x, y, [], [], almInnerOptsM0 P⟩).errz = [] :=
        List.eq_nil_of_length_eq_zero (by rw [he]; rfl)
      rw [this]; simpa [normInf, vabs, redux] using hd
    · exact fun h => h.1
  · exact absurd hm h

/-- On the `m = 0` path (one inner solve, its status passed through, ALM's own flag not consulted)
    `Interrupted` is reported exactly when the inner solve reported it. -/
theorem m0_interrupted_iff (hm : prob.m = 0) (h0 : P.max_iter ≠ 0) :
    (RUN).stats.status = .Interrupted ↔
      ∃ last, (RUN).history.getLast? = some last ∧ last.2.status = .Interrupted := by
  obtain ⟨c, r, hh, _, _, _, _, _, _, hst, _⟩ :=
    m0_single_call nan inf acc0 accAdd P prob x y Sig0 inner hm h0
  rw [hh, hst]; simp

/-- Tie of the hand-written loop skeleton to the translated loop header
    `for (unsigned i = 0; i < params.max_iter; ++i)`. -/
theorem loop_header_tie (i : Nat) :
    almLoopInit = 0 ∧ almLoopStep i = i + 1 ∧ almLoopCond P i = decide (i < P.max_iter) ∧
    almMaxIter0Cond P = (P.max_iter == 0) := ⟨rfl, rfl, rfl, rfl⟩

/-! ### Non-vacuity: the hypotheses hold for a concrete instance (over ℚ) and a run evaluates -/
section examples

local instance instRealLikeRat : RealLike ℚ := ⟨id, fun _ => false, fun _ => true⟩
local instance : NoNaN ℚ := ⟨fun _ => rfl⟩

/-- tolerance 2⁻¹⁰, dual 2⁻⁸, Δ = 4, initial penalty 1, θ = ρ = 1/4, M = 16, Σ ≤ 256, 2 iterations -/
def exP : ALMParams ℚ := ⟨1/1024, 1/256, 4, 1, 4, 1, 1/4, 1/4, 16, 256, 1/1024, 2, false⟩
/-- two constraints: a two-sided row and a row without lower bound -/
def exProb : Problem ℚ := ⟨2, [false, true], [false, false], 0, 3, [1, -2]⟩
/-- an inner solver that never converges, pushes `y` out of bounds and reports slack error 1 -/
def exInner (c : InnerCall ℚ) : InnerResult ℚ Nat :=
  ⟨.MaxIter, 1, c.x, c.y.map (· + 100), c.errBuf.map (fun _ => (1 : ℚ)), 7, false, false⟩

example : ValidParams exP := by unfold ValidParams exP; norm_num
/-- single-factor mode, `penalty_update_factor < 1`, `initial_tolerance < tolerance`: valid now -/
example : ValidParams (⟨1/1024, 1/256, 1/2, 1, 4, 1/4096, 1/4, 1/4, 16, 256, 1/1024, 2, true⟩ : ALMParams ℚ) := by
  unfold ValidParams; norm_num
example : SigmaLen 2 (some [(1/2 : ℚ), 2]) ∧ SigmaLeMax exP (some [1/2, 2]) := by
  unfold SigmaLen SigmaLeMax exP; norm_num
/-- `exInner` keeps all sizes on well-sized calls (here `n = 1`, `m = 2`, as in the runs below) -/
theorem exInner_sizeOK : SizeOK 1 2 exInner :=
  ⟨fun c h => by simp [exInner, h.errBuf], fun c h => by simp [exInner, h.x],
   fun c h => by simp [exInner, h.y]⟩
example : ∀ c, (exInner c).status = .Converged → (exInner c).eps ≤ c.opts.tolerance := by
  intro c h; simp [exInner] at h

set_option maxRecDepth 4000 in
/-- the penalties of the two inner solves of that run: grown by `max(Δ|e_i|/‖e‖, 1) = 4` -/
example : (run (0:ℚ) 0 (0:Nat) (· + ·) exP exProb [0] [50, -50] none exInner).history.map (·.1.sigma)
    = [[1, 1], [4, 4]] := by
  simp [run, loop, mkStep, exP, exProb, exInner, almMaxIter0Cond, almInit, almLoopInit, almLoopStep,
    almPreCall, almIter, almInnerOpts, updatePenaltyWeights, projMult, C15.projMultipliers,
    C15.projMult1, vallFinite, norm2, sqNorm, vsum, redux, normInf, vabs, eabs, emax, emin, fmaxS,
    fminS, RealLike.isNaN, RealLike.isFinite, RealLike.sqrt, vget, ALMStats.default, b2n,
    List.range_succ]
  norm_num

/-! #### ALM's own stop flag (repair /verif/fixes/C19-alm-stop-flag.diff) -/

deriving instance DecidableEq for Alpaqa.Gen.InnerSolveOptions
deriving instance DecidableEq for Alpaqa.C07.InnerCall
deriving instance DecidableEq for Alpaqa.C07.InnerResult

/-- as `exInner`, but ALM's stop flag is visible after the second inner solve (`outer_iter = 1`) —
    which itself reports `MaxIter`, not `Interrupted` -/
def exInnerStop (c : InnerCall ℚ) : InnerResult ℚ Nat :=
  ⟨.MaxIter, 1, c.x, c.y.map (· + 100), c.errBuf.map (fun _ => (1 : ℚ)), 7, false,
    decide (1 ≤ c.opts.outer_iter)⟩
/-- `exP` with four outer iterations -/
def exP4 : ALMParams ℚ := { exP with max_iter := 4 }
/-- four iterations allowed, caller's Σ = [1, 2] -/
def exRunStop : Result ℚ Nat Nat :=
  run (0:ℚ) 0 (0:Nat) (· + ·) exP4 exProb [0] [50, -50] (some [1, 2]) exInnerStop

def exC0 : InnerCall ℚ := ⟨[0], [16, 0], [1, 2], [0, 0], ⟨true, 1, 0, false⟩⟩
def exR0 : InnerResult ℚ Nat := ⟨.MaxIter, 1, [0], [116, 100], [1, 1], 7, false, false⟩
def exC1 : InnerCall ℚ := ⟨[0], [16, 16], [4, 8], [0, 0], ⟨true, 1/4, 1, false⟩⟩
def exR1 : InnerResult ℚ Nat := ⟨.MaxIter, 1, [0], [116, 116], [1, 1], 7, false, true⟩

/-- the run makes two of the four admissible inner solves (by evaluation in the kernel) -/
theorem exRunStop_history : exRunStop.history = [] ++ (exC0, exR0) :: (exC1, exR1) :: [] := by
  decide +kernel

/-- **`stop_visible_after_inner_returns_interrupted`, every hypothesis discharged**, on that run
    (`pre = [first solve]`, `h` = the second solve, flag visible, inner status `MaxIter`):
    `Interrupted`, two outer iterations, statistics 7 + 7, Σ of the second solve handed back -/
example : exRunStop.stats.status = .Interrupted ∧ exRunStop.stats.outer_iterations = 2 ∧
    exRunStop.stats.inner = 14 ∧ exRunStop.sigmaOut = some [4, 8] ∧ exRunStop.y = [116, 116] := by
  have h := stop_visible_after_inner_returns_interrupted (0:ℚ) 0 (0:Nat) (· + ·) exP4 exProb [0] [50, -50]
    (some [1, 2]) exInnerStop [(exC0, exR0)] (exC1, exR1) [] exRunStop_history rfl
  have h5 := h.2.2.2.2 (by decide)
  exact ⟨h5.2.2.2.2.2.1 (by simp [exR1]), h.2.1, h.2.2.1, h5.2.2.2.2.1 rfl, h5.2.1⟩

theorem exInnerStop_sizeOK : SizeOK 1 2 exInnerStop :=
  ⟨fun c h => by simp [exInnerStop, h.errBuf], fun c h => by simp [exInnerStop, h.x],
   fun c h => by simp [exInnerStop, h.y]⟩

/-- **`penalty_pos` / `penalty_le_max`, closed** on that run: parameter validity, `SigmaLen`,
    `SigmaLeMax`, `SizeOK 1 2` (well-sized calls only), `x.length = 1`, `y.length = 2` all discharged -/
example : (∀ h ∈ exRunStop.history, ∀ σ ∈ h.1.sigma, 0 < σ) ∧
    (∀ h ∈ exRunStop.history, ∀ σ ∈ h.1.sigma, σ ≤ 256) :=
  ⟨penalty_pos (0:ℚ) 0 (0:Nat) (· + ·) exP4 exProb [0] [50, -50] (some [1, 2]) exInnerStop
      (by norm_num [exP4, exP]) (by norm_num [exP4, exP]) rfl exInnerStop_sizeOK rfl rfl,
   penalty_le_max (0:ℚ) 0 (0:Nat) (· + ·) exP4 exProb [0] [50, -50] (some [1, 2]) exInnerStop
      (by norm_num [exP4, exP]) (by norm_num [exP4, exP])
      (by intro σ hσ; simp at hσ; rcases hσ with rfl | rfl <;> norm_num [exP4, exP]) rfl
      exInnerStop_sizeOK rfl rfl⟩

/-- **`penalty_mono` and `penalty_unchanged_when_feasible`, closed** on the two consecutive inner
    solves of that run: Σ = [1, 2] → [4, 8]; it changed, so the first solve's slack error exceeded
    the dual tolerance -/
example : (∀ j, vget exC0.sigma j ≤ vget exC1.sigma j) ∧ exP4.dual_tolerance < normInf exR0.errz :=
  ⟨fun j => penalty_mono (0:ℚ) 0 (0:Nat) (· + ·) exP4 exProb [0] [50, -50] (some [1, 2]) exInnerStop rfl
      exInnerStop_sizeOK rfl rfl [] (exC0, exR0) (exC1, exR1) [] exRunStop_history j,
   penalty_unchanged_when_feasible (0:ℚ) 0 (0:Nat) (· + ·) exP4 exProb [0] [50, -50] (some [1, 2]) exInnerStop
      rfl exInnerStop_sizeOK rfl rfl [] (exC0, exR0) (exC1, exR1) [] exRunStop_history 0
      (by simp [exC0, exC1, vget])⟩

/-- `SizeOK` says nothing about ill-sized calls: an inner solver that *drops* the `err_z` buffer
    whenever it is handed a Σ of the wrong size still satisfies it (the former, unrelativised
    `∀ c, errz.length = errBuf.length` excluded it) -/
example : SizeOK 1 2 (fun c : InnerCall ℚ =>
    if c.sigma.length = 2 then exInner c else { exInner c with errz := [] }) :=
  ⟨fun c h => by simp [h.sigma, exInner, h.errBuf], fun c h => by simp [h.sigma, exInner, h.x],
   fun c h => by simp [h.sigma, exInner, h.y]⟩

/-- the same facts by plain evaluation -/
example : exRunStop.stats.status = .Interrupted ∧ exRunStop.stats.outer_iterations = 2 ∧
    exRunStop.history.length = 2 ∧ exRunStop.logicError = false := by decide +kernel

/-- **`interrupted_iff`**, right to left on that run (second disjunct: no inner solve reported
    `Interrupted`), and `interrupted_returns_immediately`'s hypothesis is *not* what fired -/
example : exRunStop.stats.status = .Interrupted :=
  (interrupted_iff (0:ℚ) 0 (0:Nat) (· + ·) exP4 exProb [0] [50, -50] (some [1, 2]) exInnerStop
    (by decide)).mpr
    ⟨(exC1, exR1), by show exRunStop.history.getLast? = _; rw [exRunStop_history]; rfl,
      Or.inr ⟨rfl, by simp [exR1]⟩⟩

/-- without the flag the same inner solver runs through all four iterations: `MaxIter` -/
example : (run (0:ℚ) 0 (0:Nat) (· + ·) exP4 exProb [0] [50, -50] (some [1, 2]) exInner).stats.status
      = .MaxIter ∧
    (run (0:ℚ) 0 (0:Nat) (· + ·) exP4 exProb [0] [50, -50] (some [1, 2]) exInner).history.length = 4 := by
  decide +kernel

/-- the exception is real: flag visible after an inner solve with which ALM's own termination test
    succeeds — the natural status `Converged` is kept -/
def exInnerStopConv (c : InnerCall ℚ) : InnerResult ℚ Nat :=
  ⟨.Converged, 0, c.x, c.y, c.errBuf.map (fun _ => (0 : ℚ)), 3, false, true⟩
example : (run (0:ℚ) 0 (0:Nat) (· + ·) exP4 exProb [0] [1, -1] none exInnerStopConv).stats.status
      = .Converged ∧
    (run (0:ℚ) 0 (0:Nat) (· + ·) exP4 exProb [0] [1, -1] none exInnerStopConv).history.length = 1 := by
  decide +kernel

/-- … and an inner solve that merely reports `Converged` (ε above ALM's tolerance) does not hide
    the request: `Interrupted` after one inner solve -/
def exInnerStopConv' (c : InnerCall ℚ) : InnerResult ℚ Nat :=
  ⟨.Converged, 1/2, c.x, c.y, c.errBuf.map (fun _ => (1 : ℚ)), 3, false, true⟩
example : (run (0:ℚ) 0 (0:Nat) (· + ·) exP4 exProb [0] [1, -1] none exInnerStopConv').stats.status
      = .Interrupted ∧
    (run (0:ℚ) 0 (0:Nat) (· + ·) exP4 exProb [0] [1, -1] none exInnerStopConv').history.length = 1 := by
  decide +kernel

/-! The repaired update rules at the former excluded points (now theorems, see `penalty_mono`,
    `tolerance_antitone_ge_final`): -/

/-- a penalty above `max_penalty` (user Σ or `initial_penalty`) is kept, not decreased -/
example : vget (updatePenaltyWeights { exP with max_penalty := 8 } 4 true [1] [1] 1 1 [32]) 0 = 32 := by
  simp [updatePenaltyWeights, exP, vget, fminS, fmaxS, eabs, RealLike.isNaN]; norm_num
/-- single-factor mode with `penalty_update_factor < 1` keeps the penalty -/
example : vget (updatePenaltyWeights { exP with single_penalty_factor := true } (1/2) true [1] [1] 1 1
    [2]) 0 = 2 := by
  simp [updatePenaltyWeights, exP, vget, fminS, fmaxS, RealLike.isNaN]; norm_num
/-- single-factor mode takes the largest entry of a non-uniform caller Σ for all constraints -/
example : uniformize { exP with single_penalty_factor := true } [1, 64] = [64, 64] := by
  simp [uniformize, redux, emax]
/-- a caller Σ with a non-positive entry is not used (`initial_penalty` instead) -/
example : initSig0 exP 0 2 true [-1, 2] 3 [1, -2] = [1, 1] := by
  simp [initSig0, exP, redux, emin, vallFinite, RealLike.isFinite]; norm_num

/-! What remains excluded is a counterexample (the remaining `ValidParams` conjuncts are forced;
    open finding `C07-alm-params-not-validated`), at the level of the generated rules: -/

/-- `tolerance_update_factor > 1`: the tolerance update increases the inner tolerance -/
example : (1 : ℚ) < fmaxS ((2 : ℚ) * 1) (1/1024) := by
  simp [fmaxS, RealLike.isNaN]; norm_num
/-- negative `tolerance`: the tolerance update increases the (negative) inner tolerance -/
example : (-1 : ℚ) < fmaxS ((1/2 : ℚ) * (-1)) (-4) := by
  simp [fmaxS, RealLike.isNaN]; norm_num
/-- `min_penalty ≤ 0` with a non-positive `initial_penalty_factor`: negative automatic penalty -/
example : vget (initializePenalty { exP with min_penalty := -4, initial_penalty_factor := -1 } [0] 3 [1]) 0
    < 0 := by
  simp [initializePenalty, exP, vget, eclamp, emax, eabs, sqNorm, vsum, redux]; norm_num
/-- `max_multiplier < 0`: the projected multiplier `M` lies outside `[-M, M]` read as `[2, -2]` -/
example : C15.projMult1 false false (-2 : ℚ) 0 < -(-2) := by
  simp [C15.projMult1, emax, emin]

end examples

end Alpaqa.Props.C07
