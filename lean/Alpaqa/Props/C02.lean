/-
  C02 — Convergence on well-posed convex problems (**partial**).

  "Every stack returns `Converged` within the iteration limits in binary64" is not a theorem about
  any model (it depends on rounding and on constants of the instance); that half of the property is
  explored by `checks/c02.py` on the real solvers.  What *is* proved here, for every linearly ordered
  field, every dimension `n`, `m`, every mix of finite / infinite / equal bounds:

  * `kkt_error_bound` — the a-posteriori inequality of the property,
        μ ‖x − x*‖² ≤ ε ‖x − x*‖₁ + δ ‖y − y*‖₁,
    from an `(ε, δ)`-approximate KKT pair `(x, y)` (exactly the C01 certificate) and an exact KKT
    pair `(x*, y*)`, for a strongly monotone gradient map and *arbitrary* sets `C`, `D` with
    variational normal cones;  `kkt_error_bound_quad` instantiates `G x = Q_s x + c`;
    `c01_certificate_implies_bound` takes the hypotheses in the componentwise form delivered by
    `Props/C01` (`InBox` / `InNormalCone` with optional bounds).
  * `exactKKT_unique` / `exactKKT_unique_minimiser` — soundness of the decidable checker
    `C02.isExactKKT` (run at `Rat` by `drv_c02`): an accepted `(x*, y*)` satisfies
    `f x* + (μ/2)‖z − x*‖² ≤ f z` for every feasible `z`; hence `x*` is the unique minimiser.  The
    "independent active-set solve" of the property is therefore proof-carrying.
    `exactKKT_hypotheses` turns an accepted pair into the `(x*, y*, n*)` hypotheses of
    `kkt_error_bound`; `isSCCert_sound` certifies the constant `μ` from a factor `B`.
  * `descent_finite_termination` — the arithmetic core of the sublinear global-convergence argument in
    exact arithmetic (finite horizon), instantiated on the callback log of a concrete PANOC model run;
    it says nothing about the binary64 solver.
  * `alm_multiplier_update_is_dual_ascent_partial` — the ALM multiplier update produces a pair
    `(z, ŷ)` with `z ∈ D`, `ŷ ∈ N_D(z)`, `g − z = (ŷ − y)/σ` (the `(e, δ)` hypothesis of the bound);
    algebraic identity only, no rate.

  Not proved (and not provable about a model we can write): linear rate / iteration counts of each
  stack, behaviour under rounding.
-/
import Alpaqa.Proofs.C02
import Alpaqa.Props.C01
import Alpaqa.Proofs.PanocLoopExample

namespace Alpaqa.Props.C02
open Alpaqa Alpaqa.C02 Alpaqa.Props.C01 Matrix
set_option linter.unusedSectionVars false

variable {α : Type} [Field α] [LinearOrder α] [IsStrictOrderedRing α]

/-- Variational normal cone of an arbitrary set `S ⊆ αᵏ` at `s`: `nv ∈ N_S(s)` iff
    `⟨nv, z − s⟩ ≤ 0` for every `z ∈ S`. -/
def NormalCone {k : ℕ} (S : Set (Fin k → α)) (s nv : Fin k → α) : Prop :=
  ∀ z ∈ S, nv ⬝ᵥ (z - s) ≤ 0

/-- Monotonicity of the normal-cone operator. -/
theorem normalCone_monotone {k : ℕ} (S : Set (Fin k → α)) (s s' nv nv' : Fin k → α)
    (hs : s ∈ S) (hs' : s' ∈ S) (h : NormalCone S s nv) (h' : NormalCone S s' nv') :
    0 ≤ (nv - nv') ⬝ᵥ (s - s') := by
  have h1 := h s' hs'
  have h2 := h' s hs
  have e1 : nv ⬝ᵥ (s' - s) = -(nv ⬝ᵥ (s - s')) := by rw [← dotProduct_neg, neg_sub]
  rw [e1] at h1
  rw [sub_dotProduct]
  linarith

/-! ### The a-posteriori bound (Appendix A.5) -/

/-- **C02's inequality.**  `G` strongly monotone with modulus `μ`, `A` any matrix, `C`, `D` any
    sets.  `(x, y)` is an approximate KKT pair: `G x + Aᵀy + nv = r`, `nv ∈ N_C(x)`, `x ∈ C`,
    `‖r‖∞ ≤ ε`; `z := A x − e ∈ D`, `‖e‖∞ ≤ δ`, `y ∈ N_D(z)`.  `(x*, y*)` is an exact KKT pair.
    Then `μ Σ (x_i − x*_i)² ≤ ε Σ |x_i − x*_i| + δ Σ |y_j − y*_j|`. -/
theorem kkt_error_bound {n m : ℕ} (G : (Fin n → α) → (Fin n → α)) (μ ε δ : α)
    (hG : ∀ x x', μ * ((x - x') ⬝ᵥ (x - x')) ≤ (G x - G x') ⬝ᵥ (x - x'))
    (A : Matrix (Fin m) (Fin n) α) (C : Set (Fin n → α)) (D : Set (Fin m → α))
    (x nv r : Fin n → α) (y e : Fin m → α) (xs ns : Fin n → α) (ys : Fin m → α)
    (hxC : x ∈ C) (hn : NormalCone C x nv) (hr : G x + Aᵀ *ᵥ y + nv = r) (hε : ∀ i, |r i| ≤ ε)
    (hzD : A *ᵥ x - e ∈ D) (hδ : ∀ j, |e j| ≤ δ) (hy : NormalCone D (A *ᵥ x - e) y)
    (hxsC : xs ∈ C) (hns : NormalCone C xs ns) (hs : G xs + Aᵀ *ᵥ ys + ns = 0)
    (hzsD : A *ᵥ xs ∈ D) (hys : NormalCone D (A *ᵥ xs) ys) :
    μ * ∑ i, (x i - xs i) ^ 2 ≤ ε * ∑ i, |x i - xs i| + δ * ∑ j, |y j - ys j| := by
  have hmono := hG x xs
  -- G x − G x* = r − Aᵀ(y − y*) − (nv − n*)
  have hGd : G x - G xs = r - Aᵀ *ᵥ (y - ys) - (nv - ns) := by
    have h1 : G x = r - Aᵀ *ᵥ y - nv := by rw [← hr]; abel
    have h2 : G xs = -(Aᵀ *ᵥ ys) - ns := by
      have := eq_neg_of_add_eq_zero_left hs
      rw [← sub_eq_zero]; rw [← hs]; abel
    rw [h1, h2, mulVec_sub]; abel
  -- normal-cone monotonicity on C
  have hC := normalCone_monotone C x xs nv ns hxC hxsC hn hns
  -- normal-cone monotonicity on D at z = A x − e, z* = A x*
  have hD := normalCone_monotone D (A *ᵥ x - e) (A *ᵥ xs) y ys hzD hzsD hy hys
  have hAd : (Aᵀ *ᵥ (y - ys)) ⬝ᵥ (x - xs) = (y - ys) ⬝ᵥ (A *ᵥ x - e - A *ᵥ xs) + (y - ys) ⬝ᵥ e := by
    rw [mulVec_transpose, ← dotProduct_mulVec, mulVec_sub, ← dotProduct_add]
    congr 1; abel
  have hr' := dotProduct_le_of_abs_le r (x - xs) ε hε
  have he' := neg_dotProduct_le_of_abs_le e (y - ys) δ hδ
  have hsq : (x - xs) ⬝ᵥ (x - xs) = ∑ i, (x i - xs i) ^ 2 := by
    rw [dotProduct_self_eq_sum_sq]; rfl
  have hsplit : (r - Aᵀ *ᵥ (y - ys) - (nv - ns)) ⬝ᵥ (x - xs)
      = r ⬝ᵥ (x - xs) - (Aᵀ *ᵥ (y - ys)) ⬝ᵥ (x - xs) - (nv - ns) ⬝ᵥ (x - xs) := by
    rw [sub_dotProduct, sub_dotProduct]
  rw [hGd, hsplit, hAd, hsq] at hmono
  simp only [Pi.sub_apply] at hr' he'
  linarith

/-- The quadratic's gradient `G x = ½(Q x + Qᵀx) + c` is strongly monotone with the modulus `μ` of
    the quadratic form. -/
theorem quad_strongly_monotone {n : ℕ} (Q : Matrix (Fin n) (Fin n) α) (c : Fin n → α) (μ : α)
    (hQ : ∀ d : Fin n → α, μ * (d ⬝ᵥ d) ≤ d ⬝ᵥ (Q *ᵥ d)) (x x' : Fin n → α) :
    μ * ((x - x') ⬝ᵥ (x - x')) ≤
      (((2 : α)⁻¹ • (Q *ᵥ x + Qᵀ *ᵥ x) + c) - ((2 : α)⁻¹ • (Q *ᵥ x' + Qᵀ *ᵥ x') + c)) ⬝ᵥ (x - x') := by
  have h := hQ (x - x')
  have e : (((2 : α)⁻¹ • (Q *ᵥ x + Qᵀ *ᵥ x) + c) - ((2 : α)⁻¹ • (Q *ᵥ x' + Qᵀ *ᵥ x') + c))
      = (2 : α)⁻¹ • (Q *ᵥ (x - x') + Qᵀ *ᵥ (x - x')) := by
    rw [mulVec_sub, mulVec_sub]
    funext i
    simp only [Pi.sub_apply, Pi.add_apply, Pi.smul_apply, smul_eq_mul]
    ring
  have e2 : (Qᵀ *ᵥ (x - x')) ⬝ᵥ (x - x') = (x - x') ⬝ᵥ (Q *ᵥ (x - x')) := by
    rw [mulVec_transpose, ← dotProduct_mulVec]
  rw [e, smul_dotProduct, add_dotProduct, e2, dotProduct_comm (Q *ᵥ (x - x')) (x - x'), smul_eq_mul]
  have : (2 : α)⁻¹ * ((x - x') ⬝ᵥ Q *ᵥ (x - x') + (x - x') ⬝ᵥ Q *ᵥ (x - x'))
      = (x - x') ⬝ᵥ Q *ᵥ (x - x') := by ring
  rw [this]; exact h

/-- `kkt_error_bound` for `f = ½xᵀQx + cᵀx` (`Q` need not be symmetric), `g = A x`. -/
theorem kkt_error_bound_quad {n m : ℕ} (Q : Matrix (Fin n) (Fin n) α) (c : Fin n → α) (μ ε δ : α)
    (hQ : ∀ d : Fin n → α, μ * (d ⬝ᵥ d) ≤ d ⬝ᵥ (Q *ᵥ d))
    (A : Matrix (Fin m) (Fin n) α) (C : Set (Fin n → α)) (D : Set (Fin m → α))
    (x nv r : Fin n → α) (y e : Fin m → α) (xs ns : Fin n → α) (ys : Fin m → α)
    (hxC : x ∈ C) (hn : NormalCone C x nv)
    (hr : ((2 : α)⁻¹ • (Q *ᵥ x + Qᵀ *ᵥ x) + c) + Aᵀ *ᵥ y + nv = r) (hε : ∀ i, |r i| ≤ ε)
    (hzD : A *ᵥ x - e ∈ D) (hδ : ∀ j, |e j| ≤ δ) (hy : NormalCone D (A *ᵥ x - e) y)
    (hxsC : xs ∈ C) (hns : NormalCone C xs ns)
    (hs : ((2 : α)⁻¹ • (Q *ᵥ xs + Qᵀ *ᵥ xs) + c) + Aᵀ *ᵥ ys + ns = 0)
    (hzsD : A *ᵥ xs ∈ D) (hys : NormalCone D (A *ᵥ xs) ys) :
    μ * ∑ i, (x i - xs i) ^ 2 ≤ ε * ∑ i, |x i - xs i| + δ * ∑ j, |y j - ys j| :=
  kkt_error_bound (fun x => (2 : α)⁻¹ • (Q *ᵥ x + Qᵀ *ᵥ x) + c) μ ε δ
    (quad_strongly_monotone Q c μ hQ) A C D x nv r y e xs ns ys hxC hn hr hε hzD hδ hy hxsC hns hs
    hzsD hys

/-! ### Boxes with optional bounds: componentwise sign conditions give the variational cone -/

/-- The box `Π [lb_i, ub_i]` (`none` = infinite side) as a set. -/
def BoxSet {k : ℕ} (lb ub : Fin k → Option α) : Set (Fin k → α) :=
  {z | ∀ i, InBox (lb i) (ub i) (z i)}

/-- Sign conditions w.r.t. the active set of `z` (what `C02.signB` decides). -/
def SignCond (lb ub : Option α) (z nv : α) : Prop :=
  (0 < nv → ub = some z) ∧ (nv < 0 → lb = some z)

theorem inNormalCone_of_signCond (lb ub : Option α) (z nv : α) (h : SignCond lb ub z nv) :
    InNormalCone lb ub z nv := by
  intro w hw
  rcases lt_trichotomy nv 0 with hn | hn | hn
  · have := hw.1 z (h.2 hn)
    nlinarith [mul_nonneg (neg_nonneg.mpr hn.le) (sub_nonneg.mpr this)]
  · rw [hn, zero_mul]
  · have := hw.2 z (h.1 hn)
    nlinarith [mul_nonneg hn.le (sub_nonneg.mpr this)]

/-- **Componentwise ⇒ variational**: for a product of intervals with optional bounds, componentwise
    membership in the interval normal cones (`Props/C01.InNormalCone`) gives the variational normal
    cone of the product. -/
theorem box_normalCone_componentwise {k : ℕ} (lb ub : Fin k → Option α) (s nv : Fin k → α)
    (h : ∀ i, InNormalCone (lb i) (ub i) (s i) (nv i)) : NormalCone (BoxSet lb ub) s nv := by
  intro z hz
  rw [dotProduct]
  exact Finset.sum_nonpos fun i _ => h i (z i) (hz i)

theorem box_normalCone_of_signCond {k : ℕ} (lb ub : Fin k → Option α) (s nv : Fin k → α)
    (h : ∀ i, SignCond (lb i) (ub i) (s i) (nv i)) : NormalCone (BoxSet lb ub) s nv :=
  box_normalCone_componentwise lb ub s nv fun i => inNormalCone_of_signCond _ _ _ _ (h i)

/-- `Props/C01.Certified` (lists in lock-step) read off at an index: coordinate `i` of `−ĝ` is
    within `tol` of the interval normal cone at `x̂_i = x_i + p_i`. -/
theorem certified_get (γ tol : α) :
    ∀ (x g gh : List α) (C : List (Option α × Option α)), Certified γ tol x g gh C →
      ∀ (i : ℕ) (hx : i < x.length) (hg : i < g.length) (hgh : i < gh.length) (hC : i < C.length),
        ∃ nv, InNormalCone C[i].1 C[i].2 (x[i] + projStepO γ x[i] g[i] C[i].1 C[i].2) nv ∧
          |(-gh[i]) - nv| ≤ tol
  | x :: xs, g :: gs, gh :: ghs, b :: bs, h, 0, _, _, _, _ => h.1
  | x :: xs, g :: gs, gh :: ghs, b :: bs, h, i + 1, hx, hg, hgh, hC => by
    simpa using certified_get γ tol xs gs ghs bs h.2 i (by simpa using hx) (by simpa using hg)
      (by simpa using hgh) (by simpa using hC)

/-- **C01's certificate implies C02's bound.**  `x`, `y` are what the ALM solver returned; the
    hypotheses are the conclusions of `Props/C01` in componentwise form: each coordinate of
    `−∇L(x, y)` is within `ε` of the interval normal cone of `C_i` at `x_i` (`approxKKT_certifies` /
    `certified_get`), and each row has a slack `e_j`, `|e_j| ≤ δ`, with `(A x)_j − e_j ∈ D_j` and
    `y_j` in the interval normal cone there (`alm_multiplier_update_is_dual_ascent_partial` below;
    `e = err_z`).  `(x*, y*)` is an exact KKT pair in the same componentwise form
    (`exactKKT_hypotheses`). -/
theorem c01_certificate_implies_bound {n m : ℕ} (Q : Matrix (Fin n) (Fin n) α) (c : Fin n → α)
    (μ ε δ : α) (hQ : ∀ d : Fin n → α, μ * (d ⬝ᵥ d) ≤ d ⬝ᵥ (Q *ᵥ d))
    (A : Matrix (Fin m) (Fin n) α) (Clb Cub : Fin n → Option α) (Dlb Dub : Fin m → Option α)
    (x : Fin n → α) (y : Fin m → α) (xs : Fin n → α) (ys : Fin m → α)
    (hxC : ∀ i, InBox (Clb i) (Cub i) (x i))
    (hstat : ∀ i, ∃ nv, InNormalCone (Clb i) (Cub i) (x i) nv ∧
      |(-(((2 : α)⁻¹ • (Q *ᵥ x + Qᵀ *ᵥ x) + c) + Aᵀ *ᵥ y) i) - nv| ≤ ε)
    (hfeas : ∀ j, ∃ e, |e| ≤ δ ∧ InBox (Dlb j) (Dub j) ((A *ᵥ x) j - e) ∧
      InNormalCone (Dlb j) (Dub j) ((A *ᵥ x) j - e) (y j))
    (hxsC : ∀ i, InBox (Clb i) (Cub i) (xs i))
    (hsstat : ∀ i, InNormalCone (Clb i) (Cub i) (xs i)
      (-(((2 : α)⁻¹ • (Q *ᵥ xs + Qᵀ *ᵥ xs) + c) + Aᵀ *ᵥ ys) i))
    (hzsD : ∀ j, InBox (Dlb j) (Dub j) ((A *ᵥ xs) j))
    (hys : ∀ j, InNormalCone (Dlb j) (Dub j) ((A *ᵥ xs) j) (ys j)) :
    μ * ∑ i, (x i - xs i) ^ 2 ≤ ε * ∑ i, |x i - xs i| + δ * ∑ j, |y j - ys j| := by
  choose nv hnv hnε using hstat
  choose e heδ heD heN using hfeas
  refine kkt_error_bound_quad Q c μ ε δ hQ A (BoxSet Clb Cub) (BoxSet Dlb Dub) x nv
    ((((2 : α)⁻¹ • (Q *ᵥ x + Qᵀ *ᵥ x) + c) + Aᵀ *ᵥ y) + nv) y e xs
    (-(((2 : α)⁻¹ • (Q *ᵥ xs + Qᵀ *ᵥ xs) + c) + Aᵀ *ᵥ ys)) ys hxC
    (box_normalCone_componentwise _ _ _ _ hnv) rfl ?_ heD heδ
    (box_normalCone_componentwise _ _ _ _ heN) hxsC
    (box_normalCone_componentwise _ _ _ _ hsstat) (add_neg_cancel _) hzsD
    (box_normalCone_componentwise _ _ _ _ hys)
  intro i
  have := hnε i
  rw [Pi.add_apply, ← abs_neg]
  convert this using 2
  ring

/-! ### The exact-KKT checker is sound -/

theorem inBoxB_iff (lb ub : Option α) (z : α) : inBoxB lb ub z = true ↔ InBox lb ub z := by
  unfold inBoxB InBox
  cases lb <;> cases ub <;> simp only [Bool.and_eq_true, decide_eq_true_eq, Option.some.injEq,
    forall_eq', reduceCtorEq, false_imp_iff, implies_true, true_and, and_true, Bool.true_and,
    Bool.and_true]

theorem signB_iff (lb ub : Option α) (z nv : α) : signB lb ub z nv = true ↔ SignCond lb ub z nv := by
  unfold signB SignCond
  rw [Bool.and_eq_true]
  refine and_congr ?_ ?_
  · by_cases h1 : 0 < nv
    · cases ub <;> simp only [h1, if_true, forall_const, decide_eq_true_eq, Option.some.injEq,
        reduceCtorEq, Bool.false_eq_true]
    · simp only [h1, if_false, false_imp_iff]
  · by_cases h2 : nv < 0
    · cases lb <;> simp only [h2, if_true, forall_const, decide_eq_true_eq, Option.some.injEq,
        reduceCtorEq, Bool.false_eq_true]
    · simp only [h2, if_false, false_imp_iff]

/-- The objective `f z = ½ zᵀQz + cᵀz`. -/
def quadObj {n : ℕ} (Q : Matrix (Fin n) (Fin n) α) (c : Fin n → α) (z : Fin n → α) : α :=
  (2 : α)⁻¹ * (z ⬝ᵥ (Q *ᵥ z)) + c ⬝ᵥ z

/-- An accepted certificate yields the exact-KKT hypotheses of `kkt_error_bound` /
    `c01_certificate_implies_bound` (with `n* := −(Q_s x* + c + Aᵀy*)`). -/
theorem exactKKT_hypotheses {n m : ℕ} (Q : Fin n → Fin n → α) (c : Fin n → α)
    (A : Fin m → Fin n → α) (Clb Cub : Fin n → Option α) (Dlb Dub : Fin m → Option α)
    (xs : Fin n → α) (ys : Fin m → α) (h : isExactKKT Q c A Clb Cub Dlb Dub xs ys = true) :
    (∀ i, InBox (Clb i) (Cub i) (xs i)) ∧
    (∀ i, InNormalCone (Clb i) (Cub i) (xs i)
      (-(((2 : α)⁻¹ • ((Matrix.of Q) *ᵥ xs + (Matrix.of Q)ᵀ *ᵥ xs) + c) + (Matrix.of A)ᵀ *ᵥ ys) i)) ∧
    (∀ j, InBox (Dlb j) (Dub j) (((Matrix.of A) *ᵥ xs) j)) ∧
    (∀ j, InNormalCone (Dlb j) (Dub j) (((Matrix.of A) *ᵥ xs) j) (ys j)) := by
  simp only [isExactKKT, Bool.and_eq_true, chkXinC, chkAxInD, chkStat, chkMult, allFin_iff,
    inBoxB_iff, signB_iff] at h
  obtain ⟨⟨⟨h1, h2⟩, h3⟩, h4⟩ := h
  refine ⟨h1, fun i => ?_, fun j => ?_, fun j => ?_⟩
  · apply inNormalCone_of_signCond
    have h3i := h3 i
    rw [grad2_eq] at h3i
    set a := ((Matrix.of Q) *ᵥ xs) i with ha
    set b := ((Matrix.of Q)ᵀ *ᵥ xs) i with hb
    set t := ((Matrix.of A)ᵀ *ᵥ ys) i with ht
    have e : (-(((2 : α)⁻¹ • ((Matrix.of Q) *ᵥ xs + (Matrix.of Q)ᵀ *ᵥ xs) + c) + (Matrix.of A)ᵀ *ᵥ ys) i)
        = (2 : α)⁻¹ * (-(a + b + 2 * c i + 2 * t)) := by
      simp only [Pi.add_apply, Pi.smul_apply, smul_eq_mul, ← ha, ← hb, ← ht]
      ring
    rw [e]
    have h2pos : (0 : α) < (2 : α)⁻¹ := by positivity
    refine ⟨fun hp => h3i.1 ?_, fun hn => h3i.2 ?_⟩
    · by_contra hc
      exact absurd hp (not_lt.mpr (mul_nonpos_of_nonneg_of_nonpos h2pos.le (not_lt.mp hc)))
    · by_contra hc
      exact absurd hn (not_lt.mpr (mul_nonneg h2pos.le (not_lt.mp hc)))
  · have := h2 j; rwa [mulV_eq] at this
  · apply inNormalCone_of_signCond
    have := h4 j; rwa [mulV_eq] at this

/-- **Soundness of the certificate checker.**  If `isExactKKT` accepts `(x*, y*)` and `μ` is a
    strong-convexity constant of the quadratic form, then for every feasible `z`
    (`z ∈ C`, `A z ∈ D`):  `f x* + (μ/2) ‖z − x*‖² ≤ f z`. -/
theorem exactKKT_unique {n m : ℕ} (Q : Fin n → Fin n → α) (c : Fin n → α)
    (A : Fin m → Fin n → α) (Clb Cub : Fin n → Option α) (Dlb Dub : Fin m → Option α)
    (xs : Fin n → α) (ys : Fin m → α) (μ : α)
    (h : isExactKKT Q c A Clb Cub Dlb Dub xs ys = true)
    (hQ : ∀ d : Fin n → α, μ * (d ⬝ᵥ d) ≤ d ⬝ᵥ ((Matrix.of Q) *ᵥ d))
    (z : Fin n → α) (hzC : ∀ i, InBox (Clb i) (Cub i) (z i))
    (hzD : ∀ j, InBox (Dlb j) (Dub j) (((Matrix.of A) *ᵥ z) j)) :
    quadObj (Matrix.of Q) c xs + μ / 2 * ∑ i, (z i - xs i) ^ 2 ≤ quadObj (Matrix.of Q) c z := by
  obtain ⟨_, hstat, _, hmul⟩ := exactKKT_hypotheses Q c A Clb Cub Dlb Dub xs ys h
  set Qm : Matrix (Fin n) (Fin n) α := Matrix.of Q with hQm
  set Am : Matrix (Fin m) (Fin n) α := Matrix.of A with hAm
  set d := z - xs with hd
  have hz : z = xs + d := by rw [hd]; abel
  -- ⟨n*, z − x*⟩ ≤ 0 and ⟨y*, A z − A x*⟩ ≤ 0
  have hN : (-((2 : α)⁻¹ • (Qm *ᵥ xs + Qmᵀ *ᵥ xs) + c + Amᵀ *ᵥ ys)) ⬝ᵥ (z - xs) ≤ 0 :=
    box_normalCone_componentwise Clb Cub xs (-((2 : α)⁻¹ • (Qm *ᵥ xs + Qmᵀ *ᵥ xs) + c + Amᵀ *ᵥ ys))
      hstat z hzC
  have hY := box_normalCone_componentwise Dlb Dub (Am *ᵥ xs) ys hmul (Am *ᵥ z) hzD
  rw [← hd] at hN
  rw [← mulVec_sub, ← hd, dotProduct_mulVec, ← mulVec_transpose] at hY
  rw [neg_dotProduct, add_dotProduct, add_dotProduct, smul_dotProduct, add_dotProduct,
    smul_eq_mul] at hN
  have e2 : (Qmᵀ *ᵥ xs) ⬝ᵥ d = xs ⬝ᵥ (Qm *ᵥ d) := by
    rw [mulVec_transpose, ← dotProduct_mulVec]
  have e3 : (Qm *ᵥ xs) ⬝ᵥ d = d ⬝ᵥ (Qm *ᵥ xs) := dotProduct_comm _ _
  rw [e2, e3] at hN
  have hquad := hQ d
  have hsq : d ⬝ᵥ d = ∑ i, (z i - xs i) ^ 2 := by rw [dotProduct_self_eq_sum_sq]; rfl
  rw [hsq] at hquad
  unfold quadObj
  rw [hz, mulVec_add, dotProduct_add, add_dotProduct, add_dotProduct, dotProduct_add]
  have hsimp : ∀ i, (xs + d) i - xs i = z i - xs i := by
    intro i; rw [hz]
  simp only [hsimp]
  nlinarith [hN, hY, hquad]

/-- Hence `x*` is the **unique** minimiser: a feasible `z` that is at least as good equals `x*`. -/
theorem exactKKT_unique_minimiser {n m : ℕ} (Q : Fin n → Fin n → α) (c : Fin n → α)
    (A : Fin m → Fin n → α) (Clb Cub : Fin n → Option α) (Dlb Dub : Fin m → Option α)
    (xs : Fin n → α) (ys : Fin m → α) (μ : α) (hμ : 0 < μ)
    (h : isExactKKT Q c A Clb Cub Dlb Dub xs ys = true)
    (hQ : ∀ d : Fin n → α, μ * (d ⬝ᵥ d) ≤ d ⬝ᵥ ((Matrix.of Q) *ᵥ d))
    (z : Fin n → α) (hzC : ∀ i, InBox (Clb i) (Cub i) (z i))
    (hzD : ∀ j, InBox (Dlb j) (Dub j) (((Matrix.of A) *ᵥ z) j)) :
    quadObj (Matrix.of Q) c xs ≤ quadObj (Matrix.of Q) c z ∧
      (quadObj (Matrix.of Q) c z ≤ quadObj (Matrix.of Q) c xs → z = xs) := by
  have hb := exactKKT_unique Q c A Clb Cub Dlb Dub xs ys μ h hQ z hzC hzD
  have hsq : (z - xs) ⬝ᵥ (z - xs) = ∑ i, (z i - xs i) ^ 2 := by
    rw [dotProduct_self_eq_sum_sq]; rfl
  have hnn : 0 ≤ ∑ i, (z i - xs i) ^ 2 := by rw [← hsq]; exact dotProduct_self_nonneg' _
  have hμ2 : 0 < μ / 2 := by positivity
  refine ⟨by nlinarith, fun hle => ?_⟩
  have h0 : μ / 2 * ∑ i, (z i - xs i) ^ 2 ≤ 0 := by linarith
  have h1 : ∑ i, (z i - xs i) ^ 2 ≤ 0 := by
    by_contra hc
    exact absurd h0 (not_le.mpr (mul_pos hμ2 (not_le.mp hc)))
  have := dotProduct_self_eq_zero' (z - xs) (by rw [hsq]; exact h1)
  exact sub_eq_zero.mp this

/-- **Strong-convexity certificate**: `Q + Qᵀ = 2μI + 2BᵀB` entrywise ⇒ `μ‖d‖² ≤ dᵀQd`. -/
theorem isSCCert_sound {n k : ℕ} (Q : Fin n → Fin n → α) (μ : α) (B : Fin k → Fin n → α)
    (h : isSCCert Q μ B = true) (d : Fin n → α) :
    μ * (d ⬝ᵥ d) ≤ d ⬝ᵥ ((Matrix.of Q) *ᵥ d) := by
  simp only [isSCCert, allFin_iff, decide_eq_true_eq, fsum_eq_sum] at h
  -- 2 dᵀQd = Σ_ij d_i (Q_ij + Q_ji) d_j = 2μ dᵀd + 2 ‖Bd‖²
  have hBd : 0 ≤ ((Matrix.of B) *ᵥ d) ⬝ᵥ ((Matrix.of B) *ᵥ d) := dotProduct_self_nonneg' _
  have key : d ⬝ᵥ ((Matrix.of Q) *ᵥ d) + d ⬝ᵥ ((Matrix.of Q) *ᵥ d)
      = (μ * (d ⬝ᵥ d) + μ * (d ⬝ᵥ d))
        + (((Matrix.of B) *ᵥ d) ⬝ᵥ ((Matrix.of B) *ᵥ d) + ((Matrix.of B) *ᵥ d) ⬝ᵥ ((Matrix.of B) *ᵥ d)) := by
    have e1 : d ⬝ᵥ ((Matrix.of Q) *ᵥ d) = ∑ i, ∑ j, d i * (Q i j * d j) := by
      simp only [dotProduct, mulVec, Matrix.of_apply, Finset.mul_sum]
    have e1' : d ⬝ᵥ ((Matrix.of Q) *ᵥ d) = ∑ i, ∑ j, d i * (Q j i * d j) := by
      rw [e1, Finset.sum_comm]
      refine Finset.sum_congr rfl fun i _ => Finset.sum_congr rfl fun j _ => by ring
    have e2 : μ * (d ⬝ᵥ d) = ∑ i, ∑ j, d i * ((if i = j then μ else 0) * d j) := by
      simp only [dotProduct, Finset.mul_sum, ite_mul, zero_mul, mul_ite, mul_zero,
        Finset.sum_ite_eq, Finset.mem_univ, if_true]
      refine Finset.sum_congr rfl fun i _ => by ring
    have e3 : ((Matrix.of B) *ᵥ d) ⬝ᵥ ((Matrix.of B) *ᵥ d)
        = ∑ i, ∑ j, d i * ((∑ l, B l i * B l j) * d j) := by
      simp only [dotProduct, mulVec, Matrix.of_apply, Finset.sum_mul, Finset.mul_sum]
      rw [Finset.sum_comm]
      refine Finset.sum_congr rfl fun i _ => ?_
      rw [Finset.sum_comm]
      refine Finset.sum_congr rfl fun l _ => ?_
      refine Finset.sum_congr rfl fun j _ => by ring
    nth_rewrite 1 [e1']
    rw [e1]
    rw [e2, e3]
    simp only [← Finset.sum_add_distrib]
    refine Finset.sum_congr rfl fun i _ => Finset.sum_congr rfl fun j _ => ?_
    have hij := h i j
    have : (Q j i + Q i j) = ((if i = j then μ else 0) + (if i = j then μ else 0))
        + ((∑ l, B l i * B l j) + (∑ l, B l i * B l j)) := by
      rw [add_comm (Q j i), hij]; split_ifs <;> ring
    calc d i * (Q j i * d j) + d i * (Q i j * d j) = d i * ((Q j i + Q i j) * d j) := by ring
      _ = _ := by rw [this]; ring
  linarith

/-- **What `checks/c02.py` relies on, in one statement**: the two decidable certificates accepted by
    `drv_c02` (`isSCCert` for `μ`, `isExactKKT` for `(x*, y*)`) together with the C01 certificate of
    the solver's output `(x, y)` give the property's inequality. -/
theorem bound_from_certificates {n m k : ℕ} (Q : Fin n → Fin n → α) (c : Fin n → α)
    (A : Fin m → Fin n → α) (B : Fin k → Fin n → α) (μ ε δ : α)
    (Clb Cub : Fin n → Option α) (Dlb Dub : Fin m → Option α)
    (x : Fin n → α) (y : Fin m → α) (xs : Fin n → α) (ys : Fin m → α)
    (hSC : isSCCert Q μ B = true) (hK : isExactKKT Q c A Clb Cub Dlb Dub xs ys = true)
    (hxC : ∀ i, InBox (Clb i) (Cub i) (x i))
    (hstat : ∀ i, ∃ nv, InNormalCone (Clb i) (Cub i) (x i) nv ∧
      |(-(((2 : α)⁻¹ • ((Matrix.of Q) *ᵥ x + (Matrix.of Q)ᵀ *ᵥ x) + c) + (Matrix.of A)ᵀ *ᵥ y) i) - nv| ≤ ε)
    (hfeas : ∀ j, ∃ e, |e| ≤ δ ∧ InBox (Dlb j) (Dub j) (((Matrix.of A) *ᵥ x) j - e) ∧
      InNormalCone (Dlb j) (Dub j) (((Matrix.of A) *ᵥ x) j - e) (y j)) :
    μ * ∑ i, (x i - xs i) ^ 2 ≤ ε * ∑ i, |x i - xs i| + δ * ∑ j, |y j - ys j| := by
  obtain ⟨h1, h2, h3, h4⟩ := exactKKT_hypotheses Q c A Clb Cub Dlb Dub xs ys hK
  exact c01_certificate_implies_bound (Matrix.of Q) c μ ε δ (isSCCert_sound Q μ B hSC) (Matrix.of A)
    Clb Cub Dlb Dub x y xs ys hxC hstat hfeas h1 h2 h3 h4

/-! ### Sublinear global convergence in exact arithmetic -/

theorem descent_telescope (φ s : ℕ → α) (c : α) (N : ℕ)
    (hdesc : ∀ k < N, φ (k + 1) ≤ φ k - c * s k) :
    ∀ M ≤ N, φ M ≤ φ 0 - c * ∑ k ∈ Finset.range M, s k := by
  intro M
  induction M with
  | zero => intro _; simp
  | succ M ih =>
    intro hM
    rw [Finset.sum_range_succ, mul_add]
    have := hdesc M (by omega)
    have := ih (by omega)
    linarith

/-- **Finite termination of any sufficient-decrease method** (finite horizon: only the first `N` steps
    are constrained, so the statement applies to the callback log of a *finite* run).  If
    `φ_{k+1} ≤ φ_k − c·s_k` for `k < N` (`s_k = ‖p_k‖²`, `c > 0`) and `φ_N ≥ φ_inf`, then among the
    first `N` iterates one has `s_k ≤ (φ_0 − φ_inf)/(c N)`.

    Role: this is the arithmetic core of the sublinear global-convergence argument only.  The descent
    hypothesis is what `Props/C05` proves for the loop models (`accepted_step_descent_loop`: every
    completed iteration decreases the envelope by `(1−γL)/(2γ)·‖p‖²`, resp. `β` times that); it is
    instantiated below on the callback log of a concrete PANOC model run.  No statement about the
    binary64 solver follows from it (see the step-size-collapse finding in `checks/c02.py`). -/
theorem descent_finite_termination (φ s : ℕ → α) (c φinf : α) (hc : 0 < c) (N : ℕ) (hN : 0 < N)
    (hdesc : ∀ k < N, φ (k + 1) ≤ φ k - c * s k) (hinf : φinf ≤ φ N) :
    ∃ k < N, s k ≤ (φ 0 - φinf) / (c * N) := by
  by_contra hcon0
  have hcon : ∀ k < N, (φ 0 - φinf) / (c * N) < s k :=
    fun k hk => lt_of_not_ge fun hle => hcon0 ⟨k, hk, hle⟩
  have hNpos : (0 : α) < (N : α) := by exact_mod_cast hN
  set b := (φ 0 - φinf) / (c * N) with hb
  have hsum : (N : α) * b < ∑ k ∈ Finset.range N, s k := by
    have : ∑ _k ∈ Finset.range N, b < ∑ k ∈ Finset.range N, s k :=
      Finset.sum_lt_sum_of_nonempty (by simpa using Nat.pos_iff_ne_zero.mp hN)
        fun k hk => hcon k (Finset.mem_range.mp hk)
    simpa using this
  have htel := descent_telescope φ s c N hdesc N le_rfl
  have hbc : c * ((N : α) * b) = φ 0 - φinf := by
    rw [hb]; field_simp
  have : c * ((N : α) * b) < c * ∑ k ∈ Finset.range N, s k := mul_lt_mul_of_pos_left hsum hc
  linarith

/-! ### The multiplier update delivers the `(e, δ)` hypothesis (algebra only; **partial**) -/

/-- Projection onto `[lb, ub]` with optional bounds. -/
def projO (lb ub : Option α) (v : α) : α :=
  let a := match lb with | none => v | some l => max v l
  match ub with | none => a | some u => min a u

/-- The ALM multiplier update `ŷ = σ(ζ − Π_D ζ)`, `ζ = g + y/σ`, `σ > 0`, is a step
    `ŷ = y + σ e` with `e = g − z`, `z = Π_D ζ ∈ D`, and `ŷ ∈ N_D(z)`: exactly the hypothesis
    `z = A x − e ∈ D`, `y ∈ N_D(z)` of `kkt_error_bound`, with `e = err_z` the quantity ALM tests
    against `δ`.  (Full statement not reached: that this is a proximal-point step on the dual with
    a rate — no rate is proved.) -/
theorem alm_multiplier_update_is_dual_ascent_partial (σ g y : α) (lb ub : Option α) (hσ : 0 < σ)
    (hb : ∀ l u, lb = some l → ub = some u → l ≤ u) :
    InBox lb ub (projO lb ub (g + y / σ)) ∧
    InNormalCone lb ub (projO lb ub (g + y / σ)) (σ * ((g + y / σ) - projO lb ub (g + y / σ))) ∧
    σ * ((g + y / σ) - projO lb ub (g + y / σ)) = y + σ * (g - projO lb ub (g + y / σ)) := by
  refine ⟨?_, ?_, by field_simp; ring⟩
  · unfold InBox projO
    cases lb <;> cases ub <;> simp only [Option.some.injEq, forall_eq', reduceCtorEq, false_imp_iff,
      implies_true, true_and, and_true]
    · exact min_le_right _ _
    · exact le_max_right _ _
    · rename_i l u
      exact ⟨le_min (le_max_right _ _) (hb l u rfl rfl), min_le_right _ _⟩
  · intro w hw
    set ζ := g + y / σ
    unfold InBox at hw
    have key : ∀ z : α, (ζ - z) * (w - z) ≤ 0 → σ * (ζ - z) * (w - z) ≤ 0 := by
      intro z hz
      rw [mul_assoc]; exact mul_nonpos_of_nonneg_of_nonpos hσ.le hz
    apply key
    unfold projO
    cases lb <;> cases ub <;> simp only [Option.some.injEq, forall_eq', reduceCtorEq, false_imp_iff,
      implies_true, true_and, and_true] at hw ⊢
    · simp
    · rename_i u
      rcases le_total ζ u with h | h
      · rw [min_eq_left h]; simp
      · rw [min_eq_right h]; exact mul_nonpos_of_nonneg_of_nonpos (by linarith) (by linarith)
    · rename_i l
      rcases le_total ζ l with h | h
      · rw [max_eq_right h]; exact mul_nonpos_of_nonpos_of_nonneg (by linarith) (by linarith)
      · rw [max_eq_left h]; simp
    · rename_i l u
      have hlu := hb l u rfl rfl
      rcases le_total ζ l with h | h
      · rw [max_eq_right h, min_eq_left hlu]
        exact mul_nonpos_of_nonpos_of_nonneg (by linarith) (by linarith [hw.1])
      · rw [max_eq_left h]
        rcases le_total ζ u with h2 | h2
        · rw [min_eq_left h2]; simp
        · rw [min_eq_right h2]
          exact mul_nonpos_of_nonneg_of_nonpos (by linarith) (by linarith [hw.2])

/-! ### Non-vacuity: a 2-variable QP with one equality row and one active bound

  minimise ½ xᵀQx + cᵀx,  Q = [[2,1],[1,2]] = 1·I + BᵀB with B = [1 1],  c = (1, −1),
  subject to x₀ + x₁ = 1, x₀ ≥ 0.  Solution x* = (0, 1), y* = −1, n* = (−1, 0) (x₀ on its bound). -/

section examples
def exQ : Fin 2 → Fin 2 → ℚ := fun i j => if i = j then 2 else 1
def exc : Fin 2 → ℚ := fun i => if i = 0 then 1 else -1
def exA : Fin 1 → Fin 2 → ℚ := fun _ _ => 1
def exB : Fin 1 → Fin 2 → ℚ := fun _ _ => 1
def exClb : Fin 2 → Option ℚ := fun i => if i = 0 then some 0 else none
def exCub : Fin 2 → Option ℚ := fun _ => none
def exDlb : Fin 1 → Option ℚ := fun _ => some 1
def exDub : Fin 1 → Option ℚ := fun _ => some 1
def exXs : Fin 2 → ℚ := fun i => if i = 0 then 0 else 1
def exYs : Fin 1 → ℚ := fun _ => -1

/-- evaluate a checker on the concrete instance: unfold the structural recursions, then arithmetic -/
local macro "c02_eval" : tactic => `(tactic|
  (simp [isExactKKT, isSCCert, chkXinC, chkAxInD, chkStat, chkMult, allFin, inBoxB, signB, grad2,
     tmulV, mulV, fdot, fsum, exQ, exc, exA, exB, exClb, exCub, exDlb, exDub, exXs, exYs] <;> norm_num))

example : isExactKKT exQ exc exA exClb exCub exDlb exDub exXs exYs = true := by c02_eval
example : isSCCert exQ 1 exB = true := by c02_eval
/-- a wrong multiplier, a wrong active set and a wrong `μ` are rejected -/
example : isExactKKT exQ exc exA exClb exCub exDlb exDub exXs (fun _ => 1) = false := by c02_eval
example : isExactKKT exQ exc exA exClb exCub exDlb exDub (fun _ => 1 / 2) exYs = false := by
  c02_eval
example : isSCCert exQ 2 exB = false := by c02_eval

/-- the certified pair is the unique minimiser over the feasible set (all hypotheses discharged) -/
example (z : Fin 2 → ℚ) (hzC : ∀ i, InBox (exClb i) (exCub i) (z i))
    (hzD : ∀ j, InBox (exDlb j) (exDub j) (((Matrix.of exA) *ᵥ z) j)) :
    quadObj (Matrix.of exQ) exc exXs ≤ quadObj (Matrix.of exQ) exc z :=
  (exactKKT_unique_minimiser exQ exc exA exClb exCub exDlb exDub exXs exYs 1 one_pos
    (by c02_eval) (isSCCert_sound exQ 1 exB (by c02_eval)) z hzC hzD).1

/-! #### The bound on a point that is **not** the solution -/

def exX : Fin 2 → ℚ := fun i => if i = 0 then 0 else 11 / 10
def exY : Fin 1 → ℚ := fun _ => -6 / 5

theorem ex_hxC : ∀ i, InBox (exClb i) (exCub i) (exX i) := by
  rw [Fin.forall_fin_two]; constructor <;> simp [InBox, exClb, exCub, exX]

theorem ex_hstat : ∀ i, ∃ nv, InNormalCone (exClb i) (exCub i) (exX i) nv ∧
    |(-(((2 : ℚ)⁻¹ • ((Matrix.of exQ) *ᵥ exX + (Matrix.of exQ)ᵀ *ᵥ exX) + exc) + (Matrix.of exA)ᵀ *ᵥ exY) i) - nv|
      ≤ 1 / 10 := by
  rw [Fin.forall_fin_two]; constructor
  · refine ⟨-1, ?_, ?_⟩
    · intro z hz
      have := hz.1 0 (by simp [exClb])
      simp [exX]; linarith
    · simp [Matrix.mulVec, dotProduct, Fin.sum_univ_two, exQ, exc, exA, exX, exY]
      norm_num [abs_le]
  · refine ⟨0, ?_, ?_⟩
    · intro z _; simp
    · simp [Matrix.mulVec, dotProduct, Fin.sum_univ_two, exQ, exc, exA, exX, exY]
      norm_num [abs_le]

theorem ex_hfeas : ∀ j, ∃ e, |e| ≤ (1 / 10 : ℚ) ∧ InBox (exDlb j) (exDub j) (((Matrix.of exA) *ᵥ exX) j - e) ∧
    InNormalCone (exDlb j) (exDub j) (((Matrix.of exA) *ᵥ exX) j - e) (exY j) := by
  intro j
  have hj : j = 0 := Subsingleton.elim _ _
  subst hj
  have hA : ((Matrix.of exA) *ᵥ exX) 0 = 11 / 10 := by
    simp [Matrix.mulVec, dotProduct, Fin.sum_univ_two, exA, exX]
  refine ⟨1 / 10, by norm_num [abs_le], ?_, ?_⟩
  · rw [hA]; constructor <;> intro b hb <;> simp [exDlb, exDub] at hb <;> subst hb <;> norm_num
  · rw [hA]; intro z hz
    have h1 := hz.1 1 (by simp [exDlb]); have h2 := hz.2 1 (by simp [exDub])
    have : z = 1 := le_antisymm h2 h1
    subst this; norm_num

/-- **`bound_from_certificates` on a point that is not the solution**: `x = (0, 11/10)`, `y = −6/5`
    is an `(ε, δ) = (1/10, 1/10)`-KKT pair of the example QP (`r = (−1/10, 0)`, `e = 1/10`),
    `x* = (0, 1)`, `y* = −1`; every hypothesis discharged. -/
example : (1 : ℚ) * ∑ i, (exX i - exXs i) ^ 2 ≤
    1 / 10 * ∑ i, |exX i - exXs i| + 1 / 10 * ∑ j, |exY j - exYs j| :=
  bound_from_certificates exQ exc exA exB 1 (1 / 10) (1 / 10) exClb exCub exDlb exDub exX exY exXs exYs
    (by c02_eval) (by c02_eval) ex_hxC ex_hstat ex_hfeas

/-- the instance is not the trivial one, and the inequality is the numerical statement `1/100 ≤ 3/100` -/
example : exX ≠ exXs ∧ exY ≠ exYs ∧ (1 : ℚ) * ∑ i, (exX i - exXs i) ^ 2 = 1 / 100 ∧
    (1 / 10 * ∑ i, |exX i - exXs i| + 1 / 10 * ∑ j, |exY j - exYs j| : ℚ) = 3 / 100 := by
  refine ⟨fun h => ?_, fun h => ?_, ?_, ?_⟩
  · have := congrFun h 1; simp [exX, exXs] at this; norm_num at this
  · have := congrFun h 0; simp [exY, exYs] at this; norm_num at this
  · simp [Fin.sum_univ_two, exX, exXs]; norm_num
  · simp [Fin.sum_univ_two, exX, exXs, exY, exYs]; norm_num [abs_of_pos, abs_of_neg]

/-- **`c01_certificate_implies_bound` on the same point** (the exact-KKT side from the accepted
    certificate through `exactKKT_hypotheses`, `μ` through `isSCCert_sound`). -/
example : (1 : ℚ) * ∑ i, (exX i - exXs i) ^ 2 ≤
    1 / 10 * ∑ i, |exX i - exXs i| + 1 / 10 * ∑ j, |exY j - exYs j| := by
  obtain ⟨h1, h2, h3, h4⟩ := exactKKT_hypotheses exQ exc exA exClb exCub exDlb exDub exXs exYs (by c02_eval)
  exact c01_certificate_implies_bound (Matrix.of exQ) exc 1 (1 / 10) (1 / 10)
    (isSCCert_sound exQ 1 exB (by c02_eval)) (Matrix.of exA) exClb exCub exDlb exDub exX exY exXs exYs
    ex_hxC ex_hstat ex_hfeas h1 h2 h3 h4

/-- **`kkt_error_bound` itself, closed**: `G x = ½(Q + Qᵀ)x + c`, `C = [0, ∞) × ℝ`, `D = {1}`, the
    approximate pair `x = (0, 11/10)`, `y = −6/5` with normal-cone element `n = (−1, 0)`, residual
    `r = (−1/10, 0)` (`‖r‖∞ = ε = 1/10`), slack `e = 1/10 = δ`; the exact pair `x* = (0, 1)`, `y* = −1`,
    `n* = (−1, 0)`. -/
example : (1 : ℚ) * ∑ i, (exX i - exXs i) ^ 2 ≤
    1 / 10 * ∑ i, |exX i - exXs i| + 1 / 10 * ∑ j, |exY j - exYs j| := by
  have hmv : ∀ v : Fin 2 → ℚ, ∀ i, ((Matrix.of exQ) *ᵥ v) i = exQ i 0 * v 0 + exQ i 1 * v 1 := by
    intro v i; simp [Matrix.mulVec, dotProduct, Fin.sum_univ_two]
  have hmvT : ∀ v : Fin 2 → ℚ, ∀ i, ((Matrix.of exQ)ᵀ *ᵥ v) i = exQ 0 i * v 0 + exQ 1 i * v 1 := by
    intro v i; simp [Matrix.mulVec, dotProduct, Fin.sum_univ_two]
  have hAT : ∀ w : Fin 1 → ℚ, ∀ i, ((Matrix.of exA)ᵀ *ᵥ w) i = w 0 := by
    intro w i; simp [Matrix.mulVec, dotProduct, exA]
  have hA : ∀ v : Fin 2 → ℚ, ∀ j, ((Matrix.of exA) *ᵥ v) j = v 0 + v 1 := by
    intro v j; simp [Matrix.mulVec, dotProduct, Fin.sum_univ_two, exA]
  refine kkt_error_bound (fun x => (2 : ℚ)⁻¹ • ((Matrix.of exQ) *ᵥ x + (Matrix.of exQ)ᵀ *ᵥ x) + exc) 1 (1 / 10) (1 / 10)
    (quad_strongly_monotone (Matrix.of exQ) exc 1 (isSCCert_sound exQ 1 exB (by c02_eval)))
    (Matrix.of exA) (BoxSet exClb exCub) (BoxSet exDlb exDub)
    exX (fun i => if i = 0 then -1 else 0) (fun i => if i = 0 then -1 / 10 else 0) exY (fun _ => 1 / 10)
    exXs (fun i => if i = 0 then -1 else 0) exYs
    ex_hxC ?_ ?_ ?_ ?_ ?_ ?_ ?_ ?_ ?_ ?_ ?_
  · -- n ∈ N_C(x)
    apply box_normalCone_of_signCond
    rw [Fin.forall_fin_two]; constructor <;> simp [SignCond, exClb, exCub, exX]
  · -- G x + Aᵀy + n = r
    funext i
    simp only [Pi.add_apply, Pi.smul_apply, smul_eq_mul, hmv, hmvT, hAT]
    revert i; rw [Fin.forall_fin_two]; constructor <;> simp [exQ, exc, exX, exY] <;> norm_num
  · rw [Fin.forall_fin_two]; constructor <;> norm_num [abs_le]
  · -- z = A x − e ∈ D
    intro j; simp only [Pi.sub_apply, hA]; simp [InBox, exDlb, exDub, exX]; norm_num
  · intro j; norm_num [abs_le]
  · -- y ∈ N_D(z): D is a point
    intro z hz
    have hz0 : z 0 = 1 := le_antisymm ((hz 0).2 1 (by simp [exDub])) ((hz 0).1 1 (by simp [exDlb]))
    simp [dotProduct, hA, exX, hz0]; norm_num
  · show ∀ i, InBox (exClb i) (exCub i) (exXs i)
    rw [Fin.forall_fin_two]; constructor <;> simp [InBox, exClb, exCub, exXs]
  · apply box_normalCone_of_signCond
    rw [Fin.forall_fin_two]; constructor <;> simp [SignCond, exClb, exCub, exXs]
  · funext i
    simp only [Pi.add_apply, Pi.smul_apply, smul_eq_mul, hmv, hmvT, hAT, Pi.zero_apply]
    revert i; rw [Fin.forall_fin_two]; constructor <;> simp [exQ, exc, exXs, exYs] <;> norm_num
  · intro j; simp only [hA]; simp [InBox, exDlb, exDub, exXs]
  · intro z hz
    have hz0 : z 0 = 1 := le_antisymm ((hz 0).2 1 (by simp [exDub])) ((hz 0).1 1 (by simp [exDlb]))
    simp [dotProduct, hA, exXs, hz0]

/-! #### `descent_finite_termination` on a concrete PANOC model run

  `Proofs/PanocLoopExample.rq none`: the PANOC loop model (`Model/Panoc.run`, the definition the C03 /
  C05 / C06 theorems and the trace replay are about) on `ψ = ½‖x‖²` from `x₀ = [1]` with the no-op
  provider — three reported iterates, both completed iterations safeguarded (`τ = 0`), `γ = 19/40`,
  `L = 2`.  `φ_k` is the envelope and `s_k = ‖p_k‖²` the squared step the *model* reports for iterate
  `k` (independent quantities, not defined from each other), `c = (1 − γL)/(2γ) = 1/19` is C05's
  descent constant. -/

section panoc_run
open Alpaqa.Panoc Alpaqa.Panoc.Example

def runFbe (k : ℕ) : ℚ := ((rq none).callbacks.map (·.fbe)).getD k 0
def runPTp (k : ℕ) : ℚ := ((rq none).callbacks.map (·.it.pTp)).getD k 0

example : ∃ k < 2, runPTp k ≤ (runFbe 0 - 0) / (1 / 19 * (2 : ℕ)) := by
  have hφ : (rq none).callbacks.map (·.fbe) = [21/80, 9261/128000, 4084101/204800000] := by
    decide +kernel
  have hs : (rq none).callbacks.map (·.it.pTp) = [361/1600, 159201/2560000, 70207641/4096000000] := by
    decide +kernel
  refine descent_finite_termination runFbe runPTp (1 / 19) 0 (by norm_num) 2 (by norm_num) ?_ ?_
  · intro k hk
    have hk' : k = 0 ∨ k = 1 := by omega
    rcases hk' with rfl | rfl <;> simp [runFbe, runPTp, hφ, hs] <;> norm_num
  · simp [runFbe, hφ]; norm_num

/-- the constant used is the model's: `(1 − γ_k L_k)/(2γ_k) = 1/19` at every reported iterate -/
example : (rq none).callbacks.map (fun c => (1 - c.it.gamma * c.it.L) / (2 * c.it.gamma)) =
    [1/19, 1/19, 1/19] := by decide +kernel
end panoc_run

/-- … and on an infinite sequence in closed form: exact proximal-gradient iterates of `ψ = ½x²` with
    `γ = ½` (`L = 1`): `x_k = 2⁻ᵏ`, envelope `φ_k = x_k²/4`, step `‖p_k‖² = x_k²/4`,
    `c = (1 − γL)/(2γ) = ½`, `N = 8`. -/
example : ∃ k < 8, (1 / 4 : ℚ) ^ k / 4 ≤ (1 / 4 - 0) / (1 / 2 * (8 : ℕ)) := by
  have h := descent_finite_termination (fun k : ℕ => (1 / 4 : ℚ) ^ k / 4) (fun k : ℕ => (1 / 4 : ℚ) ^ k / 4)
    (1 / 2) 0 (by norm_num) 8 (by norm_num)
    (fun k _ => by
      have : (0 : ℚ) ≤ (1 / 4) ^ k := by positivity
      rw [pow_succ]; nlinarith)
    (by positivity)
  simpa using h

example : projO (some (0 : ℚ)) (some 1) (3 + 2 / 2) = 1 := by norm_num [projO]
end examples

end Alpaqa.Props.C02
