/-
  C01 — PANOC / ZeroFPR with `StructuredLBFGSDirection` (and `AndersonDirection`), the provider's
  problem view taken PER INNER CALL (audit round 4, finding L1).

  `StructuredLBFGSDirection::initialize(problem, y, Σ, …)` stores the multipliers `y` and penalties `Σ`
  of the CURRENT inner solve (and a pointer to the problem); `apply` then evaluates
  `eval_hess_L_prod(x, y, …)` / `eval_hess_ψ_prod(x, y, Σ, …)` / `eval_grad_ψ(x, y, Σ, …)` with them.
  The model `Directions.slbfgsDir (P : SProblem α) c` carries what the provider reads of the problem
  — including the captured `P.y`, `P.Sig` and the oracles closed over them — in the value `P`, because
  `Panoc.Direction.init` has no `(y, Σ)` argument.  In `Props/DirectionsLoop.panoc_inner_contract_slbfgs`,
  `Props/C01_C04.panoc_slbfgs_on_{,raw_}vtable_inner_contract` and
  `Props/ZerofprDirections.{zerofpr_slbfgs_satisfies_inner_contract, alm_zerofpr_slbfgs_certifies_kkt}`
  that `P` is ONE value for the whole ALM run, i.e. the same `(y, Σ)` at every inner call — which is not
  what the C++ does from the second outer iteration on.

  Here the provider is built per call, from the call's own multipliers and penalties, as
  `Props/PantrNewtonTR.pantrNewtonTRInner` does for the Newton-TR provider:

      panocSlbfgsInner   Pf Ps cfg d0 … c := panocInner   Pf (slbfgsDir (Ps c.y c.sigma) cfg) d0 … c
      zerofprSlbfgsInner Pf Ps cfg d0 … c := zerofprInner Pf (ofPanocDir (slbfgsDir (Ps c.y c.sigma) cfg)) d0 … c

  with `Ps : Vec α → Vec α → SProblem α` ANY family of problem views (nothing ties `(Ps y Σ).y` to `y`
  etc.: the contract does not need it, so every such family — in particular the intended one, the
  problem's oracles closed over `(y, Σ)` — is covered).  `InnerContract` is pointwise in the call `c`
  (all five fields are `∀ c, WFCall n m c → …` about `inner c` only), so each theorem below is the
  pointwise application of the fixed-provider theorem at `Ps c.y c.sigma`
  (`innerContract_pointwise`).  The hypotheses on the view become hypotheses on the family:
  `∀ y Σ, (Ps y Σ).n = n` and `∀ y Σ, slbfgsInitThrows … (Ps y Σ).prov… = false` (the argument checks of
  `initialize` pass at every call; in the C++ the `provides_*` flags do not depend on `(y, Σ)`).

  `AndersonDirection::initialize` receives `(y, Σ)` too and ignores them (`Model/Directions`:
  `Anderson.init`); `andersonDir c n y Σ` has them as parameters, so the per-call forms
  `panocAndersonInner` / `zerofprAndersonInner` are added for uniformity.

  The initial provider state `d0` is the same at every call, as in the fixed-provider theorems (any `d0`;
  the run depends on it only through `initialize` — `ZerofprDirections.zerofprInner_start` for ZeroFPR;
  PANOC's contract holds from any `d0`).  Real-number semantics, as everywhere in C01.
-/
import Alpaqa.Props.C01_C04
import Alpaqa.Props.C01_Zerofpr_C04
import Alpaqa.Props.ZerofprDirections

namespace Alpaqa.Props.SlbfgsPerCall
open Alpaqa Alpaqa.Gen Alpaqa.C07 Alpaqa.C04 Alpaqa.Directions Alpaqa.Props.Directions
open Alpaqa.Props.C01 Alpaqa.Props.C07 Alpaqa.Props.C01Alm Alpaqa.Props.C01Zerofpr
open Alpaqa.Props.C01C04 Alpaqa.Props.C01ZerofprC04 Alpaqa.Props.DirectionsLoop
open Alpaqa.Props.ZerofprDirections
set_option linter.unusedSectionVars false
set_option linter.unusedVariables false

section
variable {α A S : Type} [Field α] [LinearOrder α] [IsStrictOrderedRing α]
  [RealLike α] [PowLike α] [HasNaN α] [Alpaqa.Proofs.C07.NoNaN α]

/-- **`InnerContract` is pointwise in the call**: if for every call `c'` the inner-solver function
    `F c'` (the solver configured from `c'`) satisfies the contract, so does the diagonal
    `c ↦ F c c` (the solver configured from the very call it is handed). -/
theorem innerContract_pointwise (pb : ProblemCF α) (n m : Nat)
    (F : InnerCall α → InnerCall α → InnerResult α S)
    (h : ∀ c', InnerContract pb n m (F c')) :
    InnerContract pb n m (fun c => F c c) :=
  ⟨fun c => (h c).conv c, fun c => (h c).conv_tol c, fun c => (h c).xSize c,
    fun c => (h c).ySize c, fun c => (h c).eSize c⟩

/-! ### the per-call inner-solver functions -/

/-- `PANOCSolver<StructuredLBFGSDirection>::operator()` as an inner-solver function of the ALM model:
    the PANOC loop model over the provider `slbfgsDir`, whose problem view is that of the call's
    multipliers and penalties (`Ps y Σ`: `initialize` stores `y`, `Σ`). -/
def panocSlbfgsInner (Pf : Vec α → Vec α → Panoc.Problem α) (Ps : Vec α → Vec α → SProblem α)
    (cfg : SCfg α) (d0 : Latch (SLbfgs.State α)) (pr : Panoc.Params α)
    (stop : InnerCall α → Nat → Bool) (oot clock almStop : InnerCall α → Bool)
    (gV : Vec α) (gS iS : α) (c : InnerCall α) : InnerResult α (Panoc.Stats α) :=
  panocInner Pf (slbfgsDir (Ps c.y c.sigma) cfg) d0 pr stop oot clock almStop gV gS iS c

/-- `ZeroFPRSolver<StructuredLBFGSDirection>::operator()`, likewise. -/
def zerofprSlbfgsInner (Pf : Vec α → Vec α → Zerofpr.Problem α) (Ps : Vec α → Vec α → SProblem α)
    (cfg : SCfg α) (d0 : Latch (SLbfgs.State α)) (pr : Zerofpr.Params α)
    (stop : InnerCall α → Nat → Bool) (oot clock almStop : InnerCall α → Bool)
    (gV : Vec α) (gS iS : α) (c : InnerCall α) : InnerResult α (Zerofpr.Stats α) :=
  zerofprInner Pf (ofPanocDir (slbfgsDir (Ps c.y c.sigma) cfg)) d0 pr stop oot clock almStop gV gS iS c

/-- `PANOCSolver<AndersonDirection>::operator()`: `initialize` is handed the call's `(y, Σ)` (and
    ignores them). -/
def panocAndersonInner (Pf : Vec α → Vec α → Panoc.Problem α) (cfg : AndersonCfg α) (n : Nat)
    (d0 : Latch (Anderson.State α)) (pr : Panoc.Params α)
    (stop : InnerCall α → Nat → Bool) (oot clock almStop : InnerCall α → Bool)
    (gV : Vec α) (gS iS : α) (c : InnerCall α) : InnerResult α (Panoc.Stats α) :=
  panocInner Pf (andersonDir cfg n c.y c.sigma) d0 pr stop oot clock almStop gV gS iS c

/-- `ZeroFPRSolver<AndersonDirection>::operator()`, likewise. -/
def zerofprAndersonInner (Pf : Vec α → Vec α → Zerofpr.Problem α) (cfg : AndersonCfg α) (n : Nat)
    (d0 : Latch (Anderson.State α)) (pr : Zerofpr.Params α)
    (stop : InnerCall α → Nat → Bool) (oot clock almStop : InnerCall α → Bool)
    (gV : Vec α) (gS iS : α) (c : InnerCall α) : InnerResult α (Zerofpr.Stats α) :=
  zerofprInner Pf (ofPanocDir (andersonDir cfg n c.y c.sigma)) d0 pr stop oot clock almStop gV gS iS c

/-- with a constant family the per-call function is the fixed-provider one -/
theorem panocSlbfgsInner_const (Pf : Vec α → Vec α → Panoc.Problem α) (P : SProblem α)
    (cfg : SCfg α) (d0 : Latch (SLbfgs.State α)) (pr : Panoc.Params α)
    (stop : InnerCall α → Nat → Bool) (oot clock almStop : InnerCall α → Bool) (gV : Vec α) (gS iS : α) :
    panocSlbfgsInner Pf (fun _ _ => P) cfg d0 pr stop oot clock almStop gV gS iS =
      panocInner Pf (slbfgsDir P cfg) d0 pr stop oot clock almStop gV gS iS := rfl

theorem zerofprSlbfgsInner_const (Pf : Vec α → Vec α → Zerofpr.Problem α) (P : SProblem α)
    (cfg : SCfg α) (d0 : Latch (SLbfgs.State α)) (pr : Zerofpr.Params α)
    (stop : InnerCall α → Nat → Bool) (oot clock almStop : InnerCall α → Bool) (gV : Vec α) (gS iS : α) :
    zerofprSlbfgsInner Pf (fun _ _ => P) cfg d0 pr stop oot clock almStop gV gS iS =
      zerofprInner Pf (ofPanocDir (slbfgsDir P cfg)) d0 pr stop oot clock almStop gV gS iS := rfl

/-! ### the inner-solver contract -/

/-- **PANOC with `StructuredLBFGSDirection`, the provider's `(y, Σ)` those of the current inner call,
    satisfies ALM's inner-solver contract**: `memory ≥ 1`; every view of the family has dimension `n`
    and passes the argument checks of `initialize`.  Any initial provider state. -/
theorem panoc_slbfgs_per_call_satisfies_inner_contract (pb : ProblemCF α) (n m : Nat)
    (Pf : Vec α → Vec α → Panoc.Problem α) (hO : OracleContract pb n m Pf)
    (Ps : Vec α → Vec α → SProblem α) (hn : ∀ y Sig, (Ps y Sig).n = n)
    (cfg : SCfg α) (hm : 1 ≤ cfg.accel.memory)
    (hok : ∀ y Sig, slbfgsInitThrows cfg.hvf cfg.fd cfg.fullAug (Ps y Sig).provInactive
      (Ps y Sig).provHessL (Ps y Sig).provHessPsi (Ps y Sig).provBoxD (Ps y Sig).provGradGi = false)
    (d0 : Latch (SLbfgs.State α))
    (pr : Panoc.Params α) (hp : Alpaqa.Props.C05.ParamsOK pr) (nf K : Nat) (hF : Panoc.FuelOK pr nf K)
    (hcrit : pr.stopCrit = .ApproxKKT)
    (stop : InnerCall α → Nat → Bool) (hmono : ∀ c, Panoc.StopMono (stop c))
    (oot clock almStop : InnerCall α → Bool) (gV : Vec α) (gS iS : α) :
    InnerContract pb n m (panocSlbfgsInner Pf Ps cfg d0 pr stop oot clock almStop gV gS iS) :=
  innerContract_pointwise pb n m
    (fun c' => panocInner Pf (slbfgsDir (Ps c'.y c'.sigma) cfg) d0 pr stop oot clock almStop gV gS iS)
    (fun c' => hn c'.y c'.sigma ▸
      panoc_inner_contract_slbfgs pb m (Ps c'.y c'.sigma) Pf (by rw [hn]; exact hO) cfg hm
        (hok c'.y c'.sigma) d0 pr hp nf K hF hcrit stop hmono oot clock almStop gV gS iS)

/-- **ZeroFPR with `StructuredLBFGSDirection`, the provider's `(y, Σ)` those of the current inner call,
    satisfies ALM's inner-solver contract.** -/
theorem zerofpr_slbfgs_per_call_satisfies_inner_contract (pb : ProblemCF α) (n m : Nat)
    (Pf : Vec α → Vec α → Zerofpr.Problem α) (hO : ZfOracleContract pb n m Pf)
    (Ps : Vec α → Vec α → SProblem α) (hn : ∀ y Sig, (Ps y Sig).n = n)
    (cfg : SCfg α) (hm : 1 ≤ cfg.accel.memory)
    (hok : ∀ y Sig, slbfgsInitThrows cfg.hvf cfg.fd cfg.fullAug (Ps y Sig).provInactive
      (Ps y Sig).provHessL (Ps y Sig).provHessPsi (Ps y Sig).provBoxD (Ps y Sig).provGradGi = false)
    (d0 : Latch (SLbfgs.State α))
    (pr : Zerofpr.Params α) (hfac : 0 < pr.LgammaFactor)
    (N M : Nat) (hF : Zerofpr.FuelOK pr N M) (hcrit : pr.stopCrit = .ApproxKKT)
    (stop : InnerCall α → Nat → Bool) (hmono : ∀ c, Zerofpr.StopMono (stop c))
    (oot clock almStop : InnerCall α → Bool) (gV : Vec α) (gS iS : α) :
    InnerContract pb n m (zerofprSlbfgsInner Pf Ps cfg d0 pr stop oot clock almStop gV gS iS) :=
  innerContract_pointwise pb n m
    (fun c' => zerofprInner Pf (ofPanocDir (slbfgsDir (Ps c'.y c'.sigma) cfg)) d0 pr stop oot clock
      almStop gV gS iS)
    (fun c' => hn c'.y c'.sigma ▸
      zerofpr_slbfgs_satisfies_inner_contract pb m (Ps c'.y c'.sigma) Pf (by rw [hn]; exact hO) cfg hm
        (hok c'.y c'.sigma) d0 pr hfac N M hF hcrit stop hmono oot clock almStop gV gS iS)

/-- PANOC with `AndersonDirection` handed the call's `(y, Σ)`. -/
theorem panoc_anderson_per_call_satisfies_inner_contract (pb : ProblemCF α) (n m : Nat)
    (Pf : Vec α → Vec α → Panoc.Problem α) (hO : OracleContract pb n m Pf)
    (cfg : AndersonCfg α) (d0 : Latch (Anderson.State α))
    (pr : Panoc.Params α) (hp : Alpaqa.Props.C05.ParamsOK pr) (nf K : Nat) (hF : Panoc.FuelOK pr nf K)
    (hcrit : pr.stopCrit = .ApproxKKT)
    (stop : InnerCall α → Nat → Bool) (hmono : ∀ c, Panoc.StopMono (stop c))
    (oot clock almStop : InnerCall α → Bool) (gV : Vec α) (gS iS : α) :
    InnerContract pb n m (panocAndersonInner Pf cfg n d0 pr stop oot clock almStop gV gS iS) :=
  innerContract_pointwise pb n m
    (fun c' => panocInner Pf (andersonDir cfg n c'.y c'.sigma) d0 pr stop oot clock almStop gV gS iS)
    (fun c' => panoc_inner_contract_anderson pb n m Pf hO cfg c'.y c'.sigma d0 pr hp nf K hF hcrit stop
      hmono oot clock almStop gV gS iS)

/-- ZeroFPR with `AndersonDirection` handed the call's `(y, Σ)`. -/
theorem zerofpr_anderson_per_call_satisfies_inner_contract (pb : ProblemCF α) (n m : Nat)
    (Pf : Vec α → Vec α → Zerofpr.Problem α) (hO : ZfOracleContract pb n m Pf)
    (cfg : AndersonCfg α) (d0 : Latch (Anderson.State α))
    (pr : Zerofpr.Params α) (hfac : 0 < pr.LgammaFactor)
    (N M : Nat) (hF : Zerofpr.FuelOK pr N M) (hcrit : pr.stopCrit = .ApproxKKT)
    (stop : InnerCall α → Nat → Bool) (hmono : ∀ c, Zerofpr.StopMono (stop c))
    (oot clock almStop : InnerCall α → Bool) (gV : Vec α) (gS iS : α) :
    InnerContract pb n m (zerofprAndersonInner Pf cfg n d0 pr stop oot clock almStop gV gS iS) :=
  innerContract_pointwise pb n m
    (fun c' => zerofprInner Pf (ofPanocDir (andersonDir cfg n c'.y c'.sigma)) d0 pr stop oot clock
      almStop gV gS iS)
    (fun c' => zerofpr_anderson_satisfies_inner_contract pb n m Pf hO cfg c'.y c'.sigma d0 pr hfac N M hF
      hcrit stop hmono oot clock almStop gV gS iS)

/-! ### ALM over the per-call inner solvers -/

/-- **C01 for ALM over PANOC + `StructuredLBFGSDirection`, provider `(y, Σ)` per inner call**
    (`m ≠ 0`): `Converged` only with the KKT certificate of the returned pair. -/
theorem alm_panoc_slbfgs_per_call_certifies_kkt (nan inf : α) (acc0 : A)
    (accAdd : A → Panoc.Stats α → A)
    (P : ALMParams α) (prob : Alpaqa.C07.Problem α) (x y : Vec α) (Sig0 : Option (Vec α))
    (pb : ProblemCF α) (n : Nat)
    (Pf : Vec α → Vec α → Panoc.Problem α) (hO : OracleContract pb n prob.m Pf)
    (Ps : Vec α → Vec α → SProblem α) (hn : ∀ y Sig, (Ps y Sig).n = n)
    (cfg : SCfg α) (hmem : 1 ≤ cfg.accel.memory)
    (hok : ∀ y Sig, slbfgsInitThrows cfg.hvf cfg.fd cfg.fullAug (Ps y Sig).provInactive
      (Ps y Sig).provHessL (Ps y Sig).provHessPsi (Ps y Sig).provBoxD (Ps y Sig).provGradGi = false)
    (d0 : Latch (SLbfgs.State α))
    (pr : Panoc.Params α) (hp : Alpaqa.Props.C05.ParamsOK pr) (nf K : Nat) (hF : Panoc.FuelOK pr nf K)
    (hcrit : pr.stopCrit = .ApproxKKT)
    (stop : InnerCall α → Nat → Bool) (hmono : ∀ c, Panoc.StopMono (stop c))
    (oot clock almStop : InnerCall α → Bool) (gV : Vec α) (gS iS : α)
    (hm : prob.m ≠ 0)
    (hC : ∀ b ∈ pb.C, ∀ l u, b.1 = some l → b.2 = some u → l ≤ u)
    (hDb : ∀ i, i < prob.m → BndOK (lbAt pb.D i) (ubAt pb.D i))
    (hmin : 0 < P.min_penalty) (hmm : P.min_penalty ≤ P.max_penalty)
    (hlen : SigmaLen prob.m Sig0) (hx : x.length = n) (hy : y.length = prob.m)
    (hconv : (Alpaqa.C07.run nan inf acc0 accAdd P prob x y Sig0
      (panocSlbfgsInner Pf Ps cfg d0 pr stop oot clock almStop gV gS iS)).stats.status = .Converged) :
    KKTCert pb prob.m P.tolerance P.dual_tolerance
      (Alpaqa.C07.run nan inf acc0 accAdd P prob x y Sig0
        (panocSlbfgsInner Pf Ps cfg d0 pr stop oot clock almStop gV gS iS)).x
      (Alpaqa.C07.run nan inf acc0 accAdd P prob x y Sig0
        (panocSlbfgsInner Pf Ps cfg d0 pr stop oot clock almStop gV gS iS)).y :=
  alm_converged_certifies_kkt nan inf acc0 accAdd P prob x y Sig0 _ pb n
    (panoc_slbfgs_per_call_satisfies_inner_contract pb n prob.m Pf hO Ps hn cfg hmem hok d0 pr hp nf K hF
      hcrit stop hmono oot clock almStop gV gS iS)
    hm hC hDb hmin hmm hlen hx hy hconv

/-- … `m = 0` (stationarity and `x ∈ C`). -/
theorem alm_m0_panoc_slbfgs_per_call_certifies_kkt (nan inf : α) (acc0 : A)
    (accAdd : A → Panoc.Stats α → A)
    (P : ALMParams α) (prob : Alpaqa.C07.Problem α) (x y : Vec α) (Sig0 : Option (Vec α))
    (pb : ProblemCF α) (n : Nat)
    (Pf : Vec α → Vec α → Panoc.Problem α) (hO : OracleContract pb n 0 Pf)
    (Ps : Vec α → Vec α → SProblem α) (hn : ∀ y Sig, (Ps y Sig).n = n)
    (cfg : SCfg α) (hmem : 1 ≤ cfg.accel.memory)
    (hok : ∀ y Sig, slbfgsInitThrows cfg.hvf cfg.fd cfg.fullAug (Ps y Sig).provInactive
      (Ps y Sig).provHessL (Ps y Sig).provHessPsi (Ps y Sig).provBoxD (Ps y Sig).provGradGi = false)
    (d0 : Latch (SLbfgs.State α))
    (pr : Panoc.Params α) (hp : Alpaqa.Props.C05.ParamsOK pr) (nf K : Nat) (hF : Panoc.FuelOK pr nf K)
    (hcrit : pr.stopCrit = .ApproxKKT)
    (stop : InnerCall α → Nat → Bool) (hmono : ∀ c, Panoc.StopMono (stop c))
    (oot clock almStop : InnerCall α → Bool) (gV : Vec α) (gS iS : α)
    (hm : prob.m = 0) (h0 : P.max_iter ≠ 0)
    (hC : ∀ b ∈ pb.C, ∀ l u, b.1 = some l → b.2 = some u → l ≤ u)
    (htol : 0 < P.tolerance) (hδ : 0 ≤ P.dual_tolerance) (hx : x.length = n) (hy : y.length = prob.m)
    (hconv : (Alpaqa.C07.run nan inf acc0 accAdd P prob x y Sig0
      (panocSlbfgsInner Pf Ps cfg d0 pr stop oot clock almStop gV gS iS)).stats.status = .Converged) :
    KKTCert pb 0 P.tolerance P.dual_tolerance
      (Alpaqa.C07.run nan inf acc0 accAdd P prob x y Sig0
        (panocSlbfgsInner Pf Ps cfg d0 pr stop oot clock almStop gV gS iS)).x
      (Alpaqa.C07.run nan inf acc0 accAdd P prob x y Sig0
        (panocSlbfgsInner Pf Ps cfg d0 pr stop oot clock almStop gV gS iS)).y :=
  alm_m0_converged_certifies_kkt nan inf acc0 accAdd P prob x y Sig0 _ pb n
    (panoc_slbfgs_per_call_satisfies_inner_contract pb n 0 Pf hO Ps hn cfg hmem hok d0 pr hp nf K hF
      hcrit stop hmono oot clock almStop gV gS iS)
    hm h0 hC htol hδ hx hy hconv

/-- **C01 for ALM over ZeroFPR + `StructuredLBFGSDirection`, provider `(y, Σ)` per inner call**
    (`m ≠ 0`): `Converged` only with the KKT certificate of the returned pair. -/
theorem alm_zerofpr_slbfgs_per_call_certifies_kkt (nan inf : α) (acc0 : A)
    (accAdd : A → Zerofpr.Stats α → A)
    (P : ALMParams α) (prob : Alpaqa.C07.Problem α) (x y : Vec α) (Sig0 : Option (Vec α))
    (pb : ProblemCF α) (n : Nat)
    (Pf : Vec α → Vec α → Zerofpr.Problem α) (hO : ZfOracleContract pb n prob.m Pf)
    (Ps : Vec α → Vec α → SProblem α) (hn : ∀ y Sig, (Ps y Sig).n = n)
    (cfg : SCfg α) (hmem : 1 ≤ cfg.accel.memory)
    (hok : ∀ y Sig, slbfgsInitThrows cfg.hvf cfg.fd cfg.fullAug (Ps y Sig).provInactive
      (Ps y Sig).provHessL (Ps y Sig).provHessPsi (Ps y Sig).provBoxD (Ps y Sig).provGradGi = false)
    (d0 : Latch (SLbfgs.State α))
    (pr : Zerofpr.Params α) (hfac : 0 < pr.LgammaFactor)
    (N M : Nat) (hF : Zerofpr.FuelOK pr N M) (hcrit : pr.stopCrit = .ApproxKKT)
    (stop : InnerCall α → Nat → Bool) (hmono : ∀ c, Zerofpr.StopMono (stop c))
    (oot clock almStop : InnerCall α → Bool) (gV : Vec α) (gS iS : α)
    (hm : prob.m ≠ 0)
    (hC : ∀ b ∈ pb.C, ∀ l u, b.1 = some l → b.2 = some u → l ≤ u)
    (hDb : ∀ i, i < prob.m → BndOK (lbAt pb.D i) (ubAt pb.D i))
    (hmin : 0 < P.min_penalty) (hmm : P.min_penalty ≤ P.max_penalty)
    (hlen : SigmaLen prob.m Sig0) (hx : x.length = n) (hy : y.length = prob.m)
    (hconv : (Alpaqa.C07.run nan inf acc0 accAdd P prob x y Sig0
      (zerofprSlbfgsInner Pf Ps cfg d0 pr stop oot clock almStop gV gS iS)).stats.status = .Converged) :
    KKTCert pb prob.m P.tolerance P.dual_tolerance
      (Alpaqa.C07.run nan inf acc0 accAdd P prob x y Sig0
        (zerofprSlbfgsInner Pf Ps cfg d0 pr stop oot clock almStop gV gS iS)).x
      (Alpaqa.C07.run nan inf acc0 accAdd P prob x y Sig0
        (zerofprSlbfgsInner Pf Ps cfg d0 pr stop oot clock almStop gV gS iS)).y :=
  alm_converged_certifies_kkt nan inf acc0 accAdd P prob x y Sig0 _ pb n
    (zerofpr_slbfgs_per_call_satisfies_inner_contract pb n prob.m Pf hO Ps hn cfg hmem hok d0 pr hfac N M
      hF hcrit stop hmono oot clock almStop gV gS iS)
    hm hC hDb hmin hmm hlen hx hy hconv

/-- … `m = 0` (stationarity and `x ∈ C`). -/
theorem alm_m0_zerofpr_slbfgs_per_call_certifies_kkt (nan inf : α) (acc0 : A)
    (accAdd : A → Zerofpr.Stats α → A)
    (P : ALMParams α) (prob : Alpaqa.C07.Problem α) (x y : Vec α) (Sig0 : Option (Vec α))
    (pb : ProblemCF α) (n : Nat)
    (Pf : Vec α → Vec α → Zerofpr.Problem α) (hO : ZfOracleContract pb n 0 Pf)
    (Ps : Vec α → Vec α → SProblem α) (hn : ∀ y Sig, (Ps y Sig).n = n)
    (cfg : SCfg α) (hmem : 1 ≤ cfg.accel.memory)
    (hok : ∀ y Sig, slbfgsInitThrows cfg.hvf cfg.fd cfg.fullAug (Ps y Sig).provInactive
      (Ps y Sig).provHessL (Ps y Sig).provHessPsi (Ps y Sig).provBoxD (Ps y Sig).provGradGi = false)
    (d0 : Latch (SLbfgs.State α))
    (pr : Zerofpr.Params α) (hfac : 0 < pr.LgammaFactor)
    (N M : Nat) (hF : Zerofpr.FuelOK pr N M) (hcrit : pr.stopCrit = .ApproxKKT)
    (stop : InnerCall α → Nat → Bool) (hmono : ∀ c, Zerofpr.StopMono (stop c))
    (oot clock almStop : InnerCall α → Bool) (gV : Vec α) (gS iS : α)
    (hm : prob.m = 0) (h0 : P.max_iter ≠ 0)
    (hC : ∀ b ∈ pb.C, ∀ l u, b.1 = some l → b.2 = some u → l ≤ u)
    (htol : 0 < P.tolerance) (hδ : 0 ≤ P.dual_tolerance) (hx : x.length = n) (hy : y.length = prob.m)
    (hconv : (Alpaqa.C07.run nan inf acc0 accAdd P prob x y Sig0
      (zerofprSlbfgsInner Pf Ps cfg d0 pr stop oot clock almStop gV gS iS)).stats.status = .Converged) :
    KKTCert pb 0 P.tolerance P.dual_tolerance
      (Alpaqa.C07.run nan inf acc0 accAdd P prob x y Sig0
        (zerofprSlbfgsInner Pf Ps cfg d0 pr stop oot clock almStop gV gS iS)).x
      (Alpaqa.C07.run nan inf acc0 accAdd P prob x y Sig0
        (zerofprSlbfgsInner Pf Ps cfg d0 pr stop oot clock almStop gV gS iS)).y :=
  alm_m0_converged_certifies_kkt nan inf acc0 accAdd P prob x y Sig0 _ pb n
    (zerofpr_slbfgs_per_call_satisfies_inner_contract pb n 0 Pf hO Ps hn cfg hmem hok d0 pr hfac N M
      hF hcrit stop hmono oot clock almStop gV gS iS)
    hm h0 hC htol hδ hx hy hconv

/-! ### … over the raw slots of the C04 vtable `resolve B P` (every provider mix) -/

/-- PANOC + `StructuredLBFGSDirection` (provider `(y, Σ)` per inner call) over the raw slots of
    `resolve B P`, `eager_gradient_eval` arbitrary, any workspace content of size `m`: no oracle
    hypothesis left. -/
theorem panoc_slbfgs_per_call_on_raw_vtable_inner_contract (B : Basic α) (hB : WF B) (P : Provided α)
    (hP : P.Sound B) (C : BoxC α) (D : BoxD α) (hbox : IsBoxProblem B C D)
    (W : Vec α → Vec α → Vec α → Vec α) (w : Vec α) (hw : w.length = B.m) (pr : Panoc.Params α)
    (hWl : ∀ x y Sig, x.length = B.n → y.length = B.m → Sig.length = B.m → (W x y Sig).length = B.m)
    (Ps : Vec α → Vec α → SProblem α) (hn : ∀ y Sig, (Ps y Sig).n = B.n)
    (cfg : SCfg α) (hm : 1 ≤ cfg.accel.memory)
    (hok : ∀ y Sig, slbfgsInitThrows cfg.hvf cfg.fd cfg.fullAug (Ps y Sig).provInactive
      (Ps y Sig).provHessL (Ps y Sig).provHessPsi (Ps y Sig).provBoxD (Ps y Sig).provGradGi = false)
    (d0 : Latch (SLbfgs.State α))
    (hp : Alpaqa.Props.C05.ParamsOK pr) (nf K : Nat) (hF : Panoc.FuelOK pr nf K)
    (hcrit : pr.stopCrit = .ApproxKKT)
    (stop : InnerCall α → Nat → Bool) (hmono : ∀ c, Panoc.StopMono (stop c))
    (oot clock almStop : InnerCall α → Bool) (gV : Vec α) (gS iS : α) :
    InnerContract (pbOf B C D) B.n B.m
      (panocSlbfgsInner (vtProblemRaw (resolve B P) C W w) Ps cfg d0 pr stop oot clock almStop gV gS iS) :=
  innerContract_pointwise (pbOf B C D) B.n B.m
    (fun c' => panocInner (vtProblemRaw (resolve B P) C W w) (slbfgsDir (Ps c'.y c'.sigma) cfg) d0 pr stop
      oot clock almStop gV gS iS)
    (fun c' => panoc_slbfgs_on_raw_vtable_inner_contract B hB P hP C D hbox W w hw pr hWl
      (Ps c'.y c'.sigma) (hn c'.y c'.sigma) cfg hm (hok c'.y c'.sigma) d0 hp nf K hF hcrit stop hmono oot
      clock almStop gV gS iS)

/-- ZeroFPR + `StructuredLBFGSDirection` (provider `(y, Σ)` per inner call) over the raw slots of
    `resolve B P`, any workspace content of size `m`. -/
theorem zerofpr_slbfgs_per_call_on_raw_vtable_inner_contract (B : Basic α) (hB : WF B) (P : Provided α)
    (hP : P.Sound B) (C : BoxC α) (D : BoxD α) (hbox : IsBoxProblem B C D)
    (W : Vec α → Vec α → Vec α → Vec α) (w : Vec α) (hw : w.length = B.m)
    (Ps : Vec α → Vec α → SProblem α) (hn : ∀ y Sig, (Ps y Sig).n = B.n)
    (cfg : SCfg α) (hm : 1 ≤ cfg.accel.memory)
    (hok : ∀ y Sig, slbfgsInitThrows cfg.hvf cfg.fd cfg.fullAug (Ps y Sig).provInactive
      (Ps y Sig).provHessL (Ps y Sig).provHessPsi (Ps y Sig).provBoxD (Ps y Sig).provGradGi = false)
    (d0 : Latch (SLbfgs.State α))
    (pr : Zerofpr.Params α) (hfac : 0 < pr.LgammaFactor)
    (N M : Nat) (hF : Zerofpr.FuelOK pr N M) (hcrit : pr.stopCrit = .ApproxKKT)
    (stop : InnerCall α → Nat → Bool) (hmono : ∀ c, Zerofpr.StopMono (stop c))
    (oot clock almStop : InnerCall α → Bool) (gV : Vec α) (gS iS : α) :
    InnerContract (pbOf B C D) B.n B.m
      (zerofprSlbfgsInner (vtProblemZf (resolve B P) C W w) Ps cfg d0 pr stop oot clock almStop gV gS iS) :=
  zerofpr_slbfgs_per_call_satisfies_inner_contract (pbOf B C D) B.n B.m _
    (resolve_raw_meets_zfOracleContract B hB P hP C D hbox W w hw) Ps hn cfg hm hok d0 pr hfac N M hF hcrit
    stop hmono oot clock almStop gV gS iS

end

end Alpaqa.Props.SlbfgsPerCall
