/-
  C05 (PANTR) — the forward-backward envelope along reported iterates; step size never grows.

  What the *code's tests* imply, read over an ordered field (real-number semantics of the generated
  kernels `pantr_fbe`, `pantr_qubViolated`, `pantr_candidateRatio`, `pantr_updatedRadius`; IEEE
  rounding is what the documented margins are for).  No smoothness, no convexity, arbitrary problem
  oracles and arbitrary trust-region direction provider.

  * `pantr_accepted_ratio` / `pantr_accepted_descent`: a candidate is accepted only in the branch
    `q_model < 0` and only if the generated ratio `ρ ≥ ratio_threshold_acceptable`; this gives
      `φ(cand) ≤ φ(x̂ₖ) + (1 + |φ(x̂ₖ)|)·TR_tol − thr·c·|q_model|`,
    `c = 1` (plain ratio) or `c = 1 − Lγ_factor` (`ratio_approx_fbe_quadratic_model`, needs
    `Lγ_factor < 1` — at `Lγ_factor ≥ 1` the code divides by a non-positive number and the test
    means nothing; the default is 0.95).  With `thr ≥ 0`: `φ(cand) ≤ φ(x̂ₖ) + margin`.
    Here `φ(x̂ₖ)` is the envelope of `prox` (the forward-backward point) and `φ(cand)` the
    candidate's envelope *as the test saw them* — with `compute_ratio_using_new_stepsize = false`
    that is before the candidate's own step-size backtracking.
  * `pantr_fb_descent`: a reported iterate satisfies `ψ(x̂)+h(x̂) ≤ φ_γ(x) − ((1−γL)/(2γ))‖p‖² + margin`
    unless `L ≥ L_max` (`pantr_reported_qub`).
  * `pantr_tr_iteration_descent`: the two chained with the one fact the code does not test —
    `φ_γ(x̂ₖ) ≤ ψ(x̂ₖ) + h(x̂ₖ)` (envelope ≤ cost, a property of an exact prox step: hypothesis).
  * `pantr_rejected_takes_fb_step`: not accepted ⇒ the next iterate is `x̂ₖ`; accepted ⇒ `x̂ₖ + q`.
  * `pantr_gamma_antitone`, `pantr_gammaL_const`, `pantr_gammaL_initial`: `γ` never increases,
    `γ·L` is constant (`= Lγ_factor` from the start).
  * `pantr_radius_ge_min`: the trust radius is `≥ min_radius` at all times (for a non-NaN
    `min_radius`).
-/
import Alpaqa.Proofs.PantrOrd
import Alpaqa.Proofs.PantrExample

namespace Alpaqa.Props.C05_Pantr
open Alpaqa Alpaqa.Pantr Alpaqa.Gen
set_option linter.unusedSectionVars false

variable {α D : Type} [Field α] [LinearOrder α] [IsStrictOrderedRing α] [RealLike α]

/-- The factor the acceptance threshold is multiplied with (`1` or `1 − Lγ_factor`). -/
def ratioScale (pr : Params α) : α := if pr.ratioApproxFbe then 1 - pr.LgammaFactor else 1

/-- `(1 + |φ|)·TR_tolerance_factor` -/
def trMargin (pr : Params α) (i : Iterate α) : α := (1 + |i.fbe|) * pr.trTol

/-- `(1 + |ψ(x)|)·quadratic_upperbound_tolerance_factor` -/
def qubMargin (pr : Params α) (i : Iterate α) : α := (1 + |i.psix|) * pr.qubTol

/-- **An accepted candidate passed the generated ratio test in the `q_model < 0` branch.** -/
theorem pantr_accepted_ratio (co : Consts α) (P : Problem α) (dir : Direction D α) (pr : Params α)
    (stop : Nat → Bool)
    (s : St α D) (ha : (trStage co P dir pr stop s).accept = true) :
    ∃ qModel : α, qModel < 0 ∧
      (trStage co P dir pr stop s).rho = candidateRatio pr (trStage co P dir pr stop s).prox
        (trStage co P dir pr stop s).cand qModel ∧
      pr.ratioThresholdAcceptable ≤ (trStage co P dir pr stop s).rho := by
  obtain ⟨qm, h1, h2, h3, -⟩ := trStage_accept_ratio co P dir pr stop s ha
  exact ⟨qm, h1, h2, h3⟩

/-- **Accepted ⇒ envelope descent relative to the forward-backward point**, with the margin and
    the model decrease the code used. -/
theorem pantr_accepted_descent (co : Consts α) (P : Problem α) (dir : Direction D α) (pr : Params α)
    (stop : Nat → Bool)
    (s : St α D) (ha : (trStage co P dir pr stop s).accept = true)
    (hL : pr.ratioApproxFbe = true → pr.LgammaFactor < 1) :
    ∃ qModel : α, qModel < 0 ∧
      (trStage co P dir pr stop s).cand.fbe ≤
        (trStage co P dir pr stop s).prox.fbe + trMargin pr (trStage co P dir pr stop s).prox
          - pr.ratioThresholdAcceptable * ratioScale pr * (-qModel) := by
  obtain ⟨qm, h1, h2, h3⟩ := pantr_accepted_ratio co P dir pr stop s ha
  refine ⟨qm, h1, ?_⟩
  rw [h2] at h3
  exact ratio_test_descent qm pr.trTol pr.LgammaFactor pr.ratioThresholdAcceptable pr.ratioApproxFbe
    _ _ _ _ _ _ _ _ _ _ h1 hL h3

/-- … in particular, for a non-negative threshold (and `Lγ_factor ≤ 1`): no increase beyond the
    documented margin. -/
theorem pantr_accepted_nonincrease (co : Consts α) (P : Problem α) (dir : Direction D α)
    (pr : Params α)
    (stop : Nat → Bool) (s : St α D) (ha : (trStage co P dir pr stop s).accept = true)
    (hL : pr.ratioApproxFbe = true → pr.LgammaFactor < 1) (hthr : 0 ≤ pr.ratioThresholdAcceptable) :
    (trStage co P dir pr stop s).cand.fbe ≤
      (trStage co P dir pr stop s).prox.fbe + trMargin pr (trStage co P dir pr stop s).prox := by
  obtain ⟨qm, h1, h2⟩ := pantr_accepted_descent co P dir pr stop s ha hL
  have hs : 0 ≤ ratioScale pr := by
    unfold ratioScale; split_ifs with h
    · exact (sub_pos.mpr (hL h)).le
    · exact zero_le_one
  have : 0 ≤ pr.ratioThresholdAcceptable * ratioScale pr * (-qm) :=
    mul_nonneg (mul_nonneg hthr hs) (neg_pos.mpr h1).le
  linarith

/-- **Forward-backward descent from the quadratic upper bound test**: an iterate on which
    `qub_violated` is false satisfies
    `ψ(x̂) + h(x̂) ≤ φ_γ(x) − ((1 − γL)/(2γ))·‖p‖² + (1 + |ψ(x)|)·qub_tol`. -/
theorem pantr_fb_descent (pr : Params α) (i : Iterate α) (hγ : 0 < i.gamma)
    (h : qubViolated pr i = false) :
    i.psixhat + i.hxhat ≤ i.fbe - (1 - i.gamma * i.L) / (2 * i.gamma) * i.pTp + qubMargin pr i :=
  fb_descent_of_qub pr.qubTol i.psix i.psixhat i.gradPsiTp i.L i.pTp i.hxhat i.gamma hγ h

/-- **Every reported iterate satisfies the quadratic upper bound unless `L` reached `L_max`**
    (Busy callbacks and the final one) — with one exception since `backtrack_qub` polls the stop flag
    (C19): the iterate of the *final* callback when a stop request was visible at the final loop-head
    check (tick `ticks − 1`); that request may have cut the last step-size loop (initial, or in the
    last iteration) short.  For a stop flag that is never lowered. -/
theorem pantr_reported_qub (co : Consts α) (P : Problem α) (dir : Direction D α) (d0 : D)
    (pr : Params α) (stop : Nat → Bool) (hm : StopMono stop) (oot : Bool)
    (x0 y Sig errz0 gV : Vec α)
    (hfuel : (run co P dir d0 pr stop oot x0 y Sig errz0 gV).fuelOut = false) :
    ∀ cb ∈ (run co P dir d0 pr stop oot x0 y Sig errz0 gV).callbacks,
      qubViolated pr cb.it = false ∨ pr.Lmax ≤ cb.it.L ∨
      (cb.status ≠ .Busy ∧ stop ((run co P dir d0 pr stop oot x0 y Sig errz0 gV).ticks - 1) = true) := by
  unfold run at hfuel ⊢
  cases hi : initState co P d0 pr stop x0 gV with
  | inl t => simp
  | inr s =>
    simp only [hi] at hfuel ⊢
    have hs := initState_good co P d0 pr stop x0 gV s hi
    have hc : s.cbs = [] := hs.2.2.2
    intro cb hmem
    rcases (mainLoop_callbacks co P dir pr stop hm oot x0 y Sig errz0 _ s hs.1
      (fun hf hq => hs.2.1 hf hq.here) (by rw [hc]; simp) hfuel cb hmem).2 with this | this
    · unfold QubOK at this
      simp only [Bool.and_eq_false_iff, decide_eq_false_iff_not, not_lt] at this
      rcases this with h | h
      · exact .inr (.inl h)
      · exact .inl h
    · exact .inr (.inr this)

/-- Every iterate reported with status `Busy` — i.e. every iterate the solver went on from —
    satisfies the quadratic upper bound unless `L` reached `L_max`; so does the final one if no stop
    request was visible at the final loop-head check. -/
theorem pantr_reported_qub_busy (co : Consts α) (P : Problem α) (dir : Direction D α) (d0 : D)
    (pr : Params α) (stop : Nat → Bool) (hm : StopMono stop) (oot : Bool)
    (x0 y Sig errz0 gV : Vec α)
    (hfuel : (run co P dir d0 pr stop oot x0 y Sig errz0 gV).fuelOut = false) :
    ∀ cb ∈ (run co P dir d0 pr stop oot x0 y Sig errz0 gV).callbacks,
      (cb.status = .Busy ∨ stop ((run co P dir d0 pr stop oot x0 y Sig errz0 gV).ticks - 1) = false) →
      qubViolated pr cb.it = false ∨ pr.Lmax ≤ cb.it.L := by
  intro cb hmem hcond
  rcases pantr_reported_qub co P dir d0 pr stop hm oot x0 y Sig errz0 gV hfuel cb hmem with h | h | h
  · exact .inl h
  · exact .inr h
  · rcases hcond with hb | hns
    · exact absurd hb h.1
    · rw [hns] at h; exact absurd h.2 (by decide)

/-- **One trust-region iteration, chained**: for a current iterate that satisfies the quadratic
    upper bound, an accepted candidate has
    `φ(cand) ≤ φ(xₖ) − ((1−γL)/(2γ))‖pₖ‖² + qub-margin + TR-margin − thr·c·|q_model|`,
    *provided* the envelope at the forward-backward point is at most the cost there,
    `φ_γ(x̂ₖ) ≤ ψ(x̂ₖ) + h(x̂ₖ)` — the one link the code does not test (it holds for an exact prox
    step: take `u = x̂ₖ` in the minimisation defining the envelope). -/
theorem pantr_tr_iteration_descent (co : Consts α) (P : Problem α) (dir : Direction D α)
    (pr : Params α)
    (stop : Nat → Bool) (s : St α D) (ha : (trStage co P dir pr stop s).accept = true)
    (hL : pr.ratioApproxFbe = true → pr.LgammaFactor < 1) (hγ : 0 < s.curr.gamma)
    (hq : qubViolated pr s.curr = false)
    (henv : (trStage co P dir pr stop s).prox.fbe ≤ s.curr.psixhat + s.curr.hxhat) :
    ∃ qModel : α, qModel < 0 ∧
      (trStage co P dir pr stop s).cand.fbe ≤
        s.curr.fbe - (1 - s.curr.gamma * s.curr.L) / (2 * s.curr.gamma) * s.curr.pTp
          + qubMargin pr s.curr + trMargin pr (trStage co P dir pr stop s).prox
          - pr.ratioThresholdAcceptable * ratioScale pr * (-qModel) := by
  obtain ⟨qm, h1, h2⟩ := pantr_accepted_descent co P dir pr stop s ha hL
  have h3 := pantr_fb_descent pr s.curr hγ hq
  exact ⟨qm, h1, by linarith⟩

/-- **Rejected ⇒ the forward-backward step is taken; accepted ⇒ the candidate `x̂ₖ + q`.** -/
theorem pantr_rejected_takes_fb_step (co : Consts α) (P : Problem α) (dir : Direction D α)
    (pr : Params α) (stop : Nat → Bool) (s : St α D) (eps : α) :
    ((iterBody co P dir pr stop s eps).accept = false → (iterBody co P dir pr stop s eps).curr.x = s.curr.xhat) ∧
    ((iterBody co P dir pr stop s eps).accept = true →
      (iterBody co P dir pr stop s eps).curr.x = vadd s.curr.xhat (iterBody co P dir pr stop s eps).q) := by
  have h := (iterBody_spec co P dir pr stop s eps).2.2.2
  constructor <;> intro ha <;> simpa [ha] using h

/-- **The step size never increases** across an iteration … -/
theorem pantr_gamma_antitone (co : Consts α) (P : Problem α) (dir : Direction D α) (pr : Params α)
    (stop : Nat → Bool)
    (s : St α D) (eps : α) (h0 : 0 ≤ s.curr.gamma) :
    (iterBody co P dir pr stop s eps).curr.gamma ≤ s.curr.gamma :=
  (iterBody_GL co P dir pr stop s eps).gamma_le h0

/-- … **and `γ·L` stays constant** (every change is `γ /= 2; L *= 2`), positivity is kept. -/
theorem pantr_gammaL_const (co : Consts α) (P : Problem α) (dir : Direction D α) (pr : Params α)
    (stop : Nat → Bool)
    (s : St α D) (eps : α) :
    (iterBody co P dir pr stop s eps).curr.gamma * (iterBody co P dir pr stop s eps).curr.L
      = s.curr.gamma * s.curr.L ∧
    (0 < s.curr.gamma → 0 < (iterBody co P dir pr stop s eps).curr.gamma) :=
  ⟨(iterBody_GL co P dir pr stop s eps).gammaL, (iterBody_GL co P dir pr stop s eps).gamma_pos⟩

/-- Initially `γ·L = Lγ_factor` (for a non-zero Lipschitz estimate), so by `pantr_gammaL_const`
    at every iterate. -/
theorem pantr_gammaL_initial (co : Consts α) (P : Problem α) (d0 : D) (pr : Params α)
    (stop : Nat → Bool)
    (x0 gV : Vec α) (s : St α D) (hi : initState co P d0 pr stop x0 gV = .inr s) (hL : s.curr.L ≠ 0) :
    s.curr.gamma * s.curr.L = pr.LgammaFactor := by
  obtain ⟨c0, h0, hg⟩ := initState_GL co P d0 pr stop x0 gV s hi
  rw [hg.gammaL, h0]
  obtain ⟨n, -, hn⟩ := hg
  have hc0L : c0.L ≠ 0 := by
    intro hz; apply hL; rw [hn, hz, zero_mul]
  field_simp

/-- **The trust radius never drops below `min_radius`** (for a `min_radius` that is not NaN): true
    initially and kept by every iteration. -/
theorem pantr_radius_ge_min (co : Consts α) (P : Problem α) (dir : Direction D α) (pr : Params α)
    (stop : Nat → Bool)
    (hb : RealLike.isNaN pr.minRadius = false) :
    (∀ g : Vec α, pr.minRadius ≤ initialRadius pr g) ∧
    (∀ (s : St α D) (eps : α), pr.minRadius ≤ s.Delta →
      pr.minRadius ≤ (iterBody co P dir pr stop s eps).Delta) := by
  refine ⟨fun g => initialRadius_ge pr g hb, fun s eps h => ?_⟩
  rw [(iterBody_Delta co P dir pr stop s eps).1]
  rcases trStage_Delta co P dir pr stop s with h1 | ⟨q, rho, h1⟩
  · rw [h1]; exact h
  · rw [h1]; exact updatedRadius_ge pr q rho s.Delta hb

/-! ### Non-vacuity (over `ℚ`) -/
section examples
local instance : RealLike ℚ := ⟨id, fun _ => false, fun _ => true⟩

/-- ratio test: `φ(prox) = 10`, `φ(cand) = 7`, `q_model = −4`, no margin: `ρ = 3/4 ≥ 1/5`, and the
    implied inequality `7 ≤ 10 − (1/5)·4` holds -/
example : pantr_candidateRatio (-4 : ℚ) 0 false (19/20) 10 0 0 1 0 7 0 0 1 0 = 3/4 := by
  norm_num [pantr_candidateRatio, pantr_fbe, eabs]
example : pantr_fbe (7 : ℚ) 0 0 1 0 ≤ pantr_fbe 10 0 0 1 0 + (1 + |pantr_fbe (10 : ℚ) 0 0 1 0|) * 0
    - (1/5) * (if false then 1 - 19/20 else 1) * (-(-4)) :=
  ratio_test_descent (-4) 0 (19/20) (1/5) false 10 0 0 1 0 7 0 0 1 0 (by norm_num) (by simp)
    (by norm_num [pantr_candidateRatio, pantr_fbe, eabs])
/-- with the approximate model the same data give `ρ = 15` -/
example : pantr_candidateRatio (-4 : ℚ) 0 true (19/20) 10 0 0 1 0 7 0 0 1 0 = 15 := by
  norm_num [pantr_candidateRatio, pantr_fbe, eabs]
/-- the QUB test on `ψ(x)=2`, `ψ(x̂)=1`, `∇ψᵀp=−2`, `L=2`, `‖p‖²=1` does not fire -/
example : pantr_qubViolated (0 : ℚ) 2 1 (-2) 2 1 = false := by
  norm_num [pantr_qubViolated, eabs]
/-- radius update: very successful / successful / unsuccessful -/
example : pantr_updatedRadius (9/10 : ℚ) 1 2 (4/5) (1/5) (5/2) (999/1000) (7/20) = 5 ∧
    pantr_updatedRadius (1/2 : ℚ) 1 2 (4/5) (1/5) (5/2) (999/1000) (7/20) = 999/1000 ∧
    pantr_updatedRadius (0 : ℚ) 1 2 (4/5) (1/5) (5/2) (999/1000) (7/20) = 7/10 := by
  norm_num [pantr_updatedRadius, emax]
/-- a closed run in which a candidate is accepted (`Proofs/PantrExample.lean`) -/
example : ((Alpaqa.Pantr.Example.solve 3 false (-1) 0).callbacks.map (·.tau)) = [1, 1] := by decide

end examples

end Alpaqa.Props.C05_Pantr
