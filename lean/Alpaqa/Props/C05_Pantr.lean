/-
  C05 (PANTR) — the forward-backward envelope along reported iterates; step size never grows.

  What the *code's tests* imply, read over an ordered field (real-number semantics of the generated
  kernels `pantr_fbe`, `pantr_qubViolated`, `pantr_candidateRatio`, `pantr_updatedRadius`; IEEE
  rounding is what the documented margins are for).  No smoothness, no convexity, arbitrary problem
  oracles and arbitrary trust-region direction provider.

  * `pantr_accepted_ratio` / `pantr_accepted_descent`: a candidate is accepted only in the branch
    `q_model < 0` and only if the generated ratio `ρ ≥ ratio_threshold_acceptable`; this gives
      `φ(cand) ≤ φ(x̂ₖ) + (1 + |φ(x̂ₖ)|)·TR_tol − thr·c·|q_model|`,
    `c = 1` (plain ratio) or `c = 1 − Lγ_factor` (`ratio_approx_fbe_quadratic_model`, needs
    `Lγ_factor < 1` — at `Lγ_factor ≥ 1` the code divides by a non-positive number and the test
    means nothing; the default is 0.95).  With `thr ≥ 0`: `φ(cand) ≤ φ(x̂ₖ) + margin`.
    Here `φ(x̂ₖ)` is the envelope of `prox` (the forward-backward point) and `φ(cand)` the
    candidate's envelope *as the test saw them* — with `compute_ratio_using_new_stepsize = false`
    that is before the candidate's own step-size backtracking.
  * `pantr_fb_descent`: a reported iterate satisfies `ψ(x̂)+h(x̂) ≤ φ_γ(x) − ((1−γL)/(2γ))‖p‖² + margin`
    unless `L ≥ L_max` (`pantr_reported_qub`).
  * `pantr_tr_iteration_descent`: the two chained with the one fact the code does not test —
    `φ_γ(x̂ₖ) ≤ ψ(x̂ₖ) + h(x̂ₖ)` (envelope ≤ cost, a property of an exact prox step: hypothesis).
  * `pantr_rejected_takes_fb_step`: not accepted ⇒ the next iterate is `x̂ₖ`; accepted ⇒ `x̂ₖ + q`.
  * `pantr_gamma_antitone`, `pantr_gammaL_const`, `pantr_gammaL_initial`: `γ` never increases,
    `γ·L` is constant (`= Lγ_factor` from the start).
  * `pantr_radius_ge_min`: the trust radius is `≥ min_radius` at all times (for a non-NaN
    `min_radius`).

  WHOLE-RUN statements, over the list of progress callbacks `(run …).callbacks` (oldest first; the
  `Busy` callback `k` reports the iterate current at iteration `k` and `τ = 1 / 0` = candidate accepted /
  rejected in iteration `k`; the last callback reports the final iterate), from the loop invariant of
  `Proofs/PantrChain.lean`:
  * `pantr_gamma_antitone_run`, `pantr_gammaL_const_run`, `pantr_callback_fields_run`,
    `pantr_next_iterate_run` — no fuel hypothesis, every stop schedule, `ParamsOK` (positivity of
    `Lγ_factor`, `L_min`, `L_max`);
  * `pantr_reported_qub` (`FuelOK`, monotone stop flag): every reported iterate satisfies the quadratic
    upper bound unless `L ≥ L_max` — or it is the final iterate of a solve whose last step-size loop a
    visible stop request cut short;
  * `pantr_descent_run`: the descent inequality between consecutive callbacks `a`, `b`
    (`DescStep`): for an `a` that passed the quadratic-upper-bound test,
      rejected (`τ_a = 0`):  `φ_b ≤ φ_a − c_a‖p_a‖² + (1+|ψ_a|)·qub_tol`, `c_a = (1 − γ_a L_a)/(2γ_a)`,
                             whatever step size the fallback's backtracking chose;
      accepted (`τ_a = 1`):  `φ_b ≤ φ_p + (1+|φ_p|)·TR_tol − thr·c·(−q_model)` for some
                             `φ_p ≤ φ_a − c_a‖p_a‖² + (1+|ψ_a|)·qub_tol` and `q_model < 0`, PROVIDED the
                             candidate was tested with the step size it is reported with:
                             `compute_ratio_using_new_stepsize`, or `γ_b = γ_a` (the property's
                             "for trust-region steps: non-increase whenever the step size is unchanged").
    Hypotheses (`DescHyp`): the SIZED prox contract `ProxContract.Sized n hval dom P.prox`
    (discharged for the shipped box / box+ℓ1 step by `ProxContract.boxL1_sized`), ψ-oracle
    consistency `∀ x, (P.psiGradPsi x).1 = (P.psi x).1` (`compute_FBS_step` re-evaluates `ψ(x̂ₖ)` with
    `eval_ψ_grad_ψ` although `curr->ψx̂` came from `eval_ψ`), and `ratio_approx_fbe_quadratic_model →
    Lγ_factor < 1`; plus the well-formedness of the call (`Proofs/PantrSized.lean`): `x₀` an `n`-vector,
    `ProblemSized n m P`, `DirSized n dir R` with `R d₀` — a size contract of the provider over an
    invariant `R` of ITS REACHED states (a negative model value comes with a `q` of size `n`), not over
    all states —, `inf ≥ 0`.  Under these every reported iterate is sized (`pantr_sizes_run`) and
    `DescStep` carries no size premise.  The `…_local` forms (`pantr_descent_run_local`, …) demand
    nothing of the direction provider and take the size facts as premises on the observable callback
    fields instead (`DescStepLocal`: `a.it.x.length = n`, `a.it.gradPsi.length = n`; `GradSized n P`).
  * `pantr_descent_run_nonincrease` (`0 ≤ ratio_threshold_acceptable`: the model-decrease term dropped),
    `pantr_descent_run_qub` (`FuelOK`, monotone flag: the premise "passed the test" replaced by
    `L_a < L_max`).

  Fuel: `pantr_reported_qub`, `pantr_reported_qub_busy`, `pantr_descent_run_qub` take `FuelOK pr N`
  (`Proofs/PantrFuel.lean`); their `…_fuel` forms take `fuelOut = false` instead and hold verbatim at
  any ordered-field carrier without parameter assumptions (the replay asserts `fuelOut = false` on
  every recorded run).  The main loop's fuel `max_iter + 1` suffices unconditionally.
-/
import Alpaqa.Proofs.PantrOrd
import Alpaqa.Proofs.PantrFuel
import Alpaqa.Proofs.PantrChain
import Alpaqa.Proofs.PantrSized
import Alpaqa.Proofs.PantrExample
import Alpaqa.Proofs.PantrExampleQ

namespace Alpaqa.Props.C05_Pantr
open Alpaqa Alpaqa.Pantr Alpaqa.Gen
set_option linter.unusedSectionVars false

variable {α D : Type} [Field α] [LinearOrder α] [IsStrictOrderedRing α] [RealLike α]

/-- The factor the acceptance threshold is multiplied with (`1` or `1 − Lγ_factor`). -/
def ratioScale (pr : Params α) : α := if pr.ratioApproxFbe then 1 - pr.LgammaFactor else 1

theorem ratioScale_eq (pr : Params α) : ratioScale pr = ratioScaleOf pr := rfl

/-- `(1 + |φ|)·TR_tolerance_factor` -/
def trMargin (pr : Params α) (i : Iterate α) : α := (1 + |i.fbe|) * pr.trTol

/-- `(1 + |ψ(x)|)·quadratic_upperbound_tolerance_factor` -/
def qubMargin (pr : Params α) (i : Iterate α) : α := (1 + |i.psix|) * pr.qubTol

/-- **An accepted candidate passed the generated ratio test in the `q_model < 0` branch.** -/
theorem pantr_accepted_ratio (co : Consts α) (P : Problem α) (dir : Direction D α) (pr : Params α)
    (stop : Nat → Bool)
    (s : St α D) (ha : (trStage co P dir pr stop s).accept = true) :
    ∃ qModel : α, qModel < 0 ∧
      (trStage co P dir pr stop s).rho = candidateRatio pr (trStage co P dir pr stop s).prox
        (trStage co P dir pr stop s).cand qModel ∧
      pr.ratioThresholdAcceptable ≤ (trStage co P dir pr stop s).rho := by
  obtain ⟨qm, h1, h2, h3, -⟩ := trStage_accept_ratio co P dir pr stop s ha
  exact ⟨qm, h1, h2, h3⟩

/-- **Accepted ⇒ envelope descent relative to the forward-backward point**, with the margin and
    the model decrease the code used. -/
theorem pantr_accepted_descent (co : Consts α) (P : Problem α) (dir : Direction D α) (pr : Params α)
    (stop : Nat → Bool)
    (s : St α D) (ha : (trStage co P dir pr stop s).accept = true)
    (hL : pr.ratioApproxFbe = true → pr.LgammaFactor < 1) :
    ∃ qModel : α, qModel < 0 ∧
      (trStage co P dir pr stop s).cand.fbe ≤
        (trStage co P dir pr stop s).prox.fbe + trMargin pr (trStage co P dir pr stop s).prox
          - pr.ratioThresholdAcceptable * ratioScale pr * (-qModel) := by
  obtain ⟨qm, h1, h2, h3⟩ := pantr_accepted_ratio co P dir pr stop s ha
  refine ⟨qm, h1, ?_⟩
  rw [h2] at h3
  exact ratio_test_descent qm pr.trTol pr.LgammaFactor pr.ratioThresholdAcceptable pr.ratioApproxFbe
    _ _ _ _ _ _ _ _ _ _ h1 hL h3

/-- … in particular, for a non-negative threshold (and `Lγ_factor ≤ 1`): no increase beyond the
    documented margin. -/
theorem pantr_accepted_nonincrease (co : Consts α) (P : Problem α) (dir : Direction D α)
    (pr : Params α)
    (stop : Nat → Bool) (s : St α D) (ha : (trStage co P dir pr stop s).accept = true)
    (hL : pr.ratioApproxFbe = true → pr.LgammaFactor < 1) (hthr : 0 ≤ pr.ratioThresholdAcceptable) :
    (trStage co P dir pr stop s).cand.fbe ≤
      (trStage co P dir pr stop s).prox.fbe + trMargin pr (trStage co P dir pr stop s).prox := by
  obtain ⟨qm, h1, h2⟩ := pantr_accepted_descent co P dir pr stop s ha hL
  have hs : 0 ≤ ratioScale pr := by
    unfold ratioScale; split_ifs with h
    · exact (sub_pos.mpr (hL h)).le
    · exact zero_le_one
  have : 0 ≤ pr.ratioThresholdAcceptable * ratioScale pr * (-qm) :=
    mul_nonneg (mul_nonneg hthr hs) (neg_pos.mpr h1).le
  linarith

/-- **Forward-backward descent from the quadratic upper bound test**: an iterate on which
    `qub_violated` is false satisfies
    `ψ(x̂) + h(x̂) ≤ φ_γ(x) − ((1 − γL)/(2γ))·‖p‖² + (1 + |ψ(x)|)·qub_tol`. -/
theorem pantr_fb_descent (pr : Params α) (i : Iterate α) (hγ : 0 < i.gamma)
    (h : qubViolated pr i = false) :
    i.psixhat + i.hxhat ≤ i.fbe - (1 - i.gamma * i.L) / (2 * i.gamma) * i.pTp + qubMargin pr i :=
  fb_descent_of_qub pr.qubTol i.psix i.psixhat i.gradPsiTp i.L i.pTp i.hxhat i.gamma hγ h

/-- Fuel as a hypothesis (no parameter assumptions; the replay asserts `fuelOut = false` on every
    recorded run).

    **Every reported iterate satisfies the quadratic upper bound unless `L` reached `L_max`**
    (Busy callbacks and the final one) — with one exception since `backtrack_qub` polls the stop flag
    (C19): the iterate of the *final* callback when a stop request was visible at the final loop-head
    check (tick `ticks − 1`); that request may have cut the last step-size loop (initial, or in the
    last iteration) short.  For a stop flag that is never lowered. -/
theorem pantr_reported_qub_fuel (co : Consts α) (P : Problem α) (dir : Direction D α) (d0 : D)
    (pr : Params α) (stop : Nat → Bool) (hm : StopMono stop) (oot : Bool)
    (x0 y Sig errz0 gV : Vec α)
    (hfuel : (run co P dir d0 pr stop oot x0 y Sig errz0 gV).fuelOut = false) :
    ∀ cb ∈ (run co P dir d0 pr stop oot x0 y Sig errz0 gV).callbacks,
      qubViolated pr cb.it = false ∨ pr.Lmax ≤ cb.it.L ∨
      (cb.status ≠ .Busy ∧ stop ((run co P dir d0 pr stop oot x0 y Sig errz0 gV).ticks - 1) = true) := by
  unfold run at hfuel ⊢
  cases hi : initState co P d0 pr stop x0 gV with
  | inl t => simp
  | inr s =>
    simp only [hi] at hfuel ⊢
    have hs := initState_good co P d0 pr stop x0 gV s hi
    have hc : s.cbs = [] := hs.2.2.2
    intro cb hmem
    rcases (mainLoop_callbacks co P dir pr stop hm oot x0 y Sig errz0 _ s hs.1
      (fun hf hq => hs.2.1 hf hq.here) (by rw [hc]; simp) hfuel cb hmem).2 with this | this
    · unfold QubOK at this
      simp only [Bool.and_eq_false_iff, decide_eq_false_iff_not, not_lt] at this
      rcases this with h | h
      · exact .inr (.inl h)
      · exact .inl h
    · exact .inr (.inr this)

/-- Fuel as a hypothesis.  Every iterate reported with status `Busy` — i.e. every iterate the solver went on from —
    satisfies the quadratic upper bound unless `L` reached `L_max`; so does the final one if no stop
    request was visible at the final loop-head check. -/
theorem pantr_reported_qub_busy_fuel (co : Consts α) (P : Problem α) (dir : Direction D α) (d0 : D)
    (pr : Params α) (stop : Nat → Bool) (hm : StopMono stop) (oot : Bool)
    (x0 y Sig errz0 gV : Vec α)
    (hfuel : (run co P dir d0 pr stop oot x0 y Sig errz0 gV).fuelOut = false) :
    ∀ cb ∈ (run co P dir d0 pr stop oot x0 y Sig errz0 gV).callbacks,
      (cb.status = .Busy ∨ stop ((run co P dir d0 pr stop oot x0 y Sig errz0 gV).ticks - 1) = false) →
      qubViolated pr cb.it = false ∨ pr.Lmax ≤ cb.it.L := by
  intro cb hmem hcond
  rcases pantr_reported_qub_fuel co P dir d0 pr stop hm oot x0 y Sig errz0 gV hfuel cb hmem with h | h | h
  · exact .inl h
  · exact .inr h
  · rcases hcond with hb | hns
    · exact absurd hb h.1
    · rw [hns] at h; exact absurd h.2 (by decide)

/-- **Every reported iterate satisfies the quadratic upper bound unless `L` reached `L_max`** (Busy
    callbacks and the final one), under `FuelOK pr N` and for a stop flag that is never lowered — with
    the one exception `backtrack_qub`'s stop poll creates (C19): the iterate of the *final* callback
    when a stop request was visible at the final loop-head check (tick `ticks − 1`); that request may
    have cut the last step-size loop (initial, or in the last iteration) short. -/
theorem pantr_reported_qub (co : Consts α) (P : Problem α) (dir : Direction D α) (d0 : D)
    (pr : Params α) (stop : Nat → Bool) (hm : StopMono stop) (oot : Bool)
    (x0 y Sig errz0 gV : Vec α) (N : Nat) (hF : FuelOK pr N) :
    ∀ cb ∈ (run co P dir d0 pr stop oot x0 y Sig errz0 gV).callbacks,
      qubViolated pr cb.it = false ∨ pr.Lmax ≤ cb.it.L ∨
      (cb.status ≠ .Busy ∧ stop ((run co P dir d0 pr stop oot x0 y Sig errz0 gV).ticks - 1) = true) :=
  pantr_reported_qub_fuel co P dir d0 pr stop hm oot x0 y Sig errz0 gV
    (pantr_fuel_suffices co P dir d0 pr stop oot x0 y Sig errz0 gV N hF)

/-- Every iterate reported with status `Busy` — i.e. every iterate the solver went on from —
    satisfies the quadratic upper bound unless `L` reached `L_max`; so does the final one if no stop
    request was visible at the final loop-head check. -/
theorem pantr_reported_qub_busy (co : Consts α) (P : Problem α) (dir : Direction D α) (d0 : D)
    (pr : Params α) (stop : Nat → Bool) (hm : StopMono stop) (oot : Bool)
    (x0 y Sig errz0 gV : Vec α) (N : Nat) (hF : FuelOK pr N) :
    ∀ cb ∈ (run co P dir d0 pr stop oot x0 y Sig errz0 gV).callbacks,
      (cb.status = .Busy ∨ stop ((run co P dir d0 pr stop oot x0 y Sig errz0 gV).ticks - 1) = false) →
      qubViolated pr cb.it = false ∨ pr.Lmax ≤ cb.it.L :=
  pantr_reported_qub_busy_fuel co P dir d0 pr stop hm oot x0 y Sig errz0 gV
    (pantr_fuel_suffices co P dir d0 pr stop oot x0 y Sig errz0 gV N hF)

/-- **One trust-region iteration, chained**: for a current iterate that satisfies the quadratic
    upper bound, an accepted candidate has
    `φ(cand) ≤ φ(xₖ) − ((1−γL)/(2γ))‖pₖ‖² + qub-margin + TR-margin − thr·c·|q_model|`,
    *provided* the envelope at the forward-backward point is at most the cost there,
    `φ_γ(x̂ₖ) ≤ ψ(x̂ₖ) + h(x̂ₖ)` — the one link the code does not test (it holds for an exact prox
    step: take `u = x̂ₖ` in the minimisation defining the envelope). -/
theorem pantr_tr_iteration_descent (co : Consts α) (P : Problem α) (dir : Direction D α)
    (pr : Params α)
    (stop : Nat → Bool) (s : St α D) (ha : (trStage co P dir pr stop s).accept = true)
    (hL : pr.ratioApproxFbe = true → pr.LgammaFactor < 1) (hγ : 0 < s.curr.gamma)
    (hq : qubViolated pr s.curr = false)
    (henv : (trStage co P dir pr stop s).prox.fbe ≤ s.curr.psixhat + s.curr.hxhat) :
    ∃ qModel : α, qModel < 0 ∧
      (trStage co P dir pr stop s).cand.fbe ≤
        s.curr.fbe - (1 - s.curr.gamma * s.curr.L) / (2 * s.curr.gamma) * s.curr.pTp
          + qubMargin pr s.curr + trMargin pr (trStage co P dir pr stop s).prox
          - pr.ratioThresholdAcceptable * ratioScale pr * (-qModel) := by
  obtain ⟨qm, h1, h2⟩ := pantr_accepted_descent co P dir pr stop s ha hL
  have h3 := pantr_fb_descent pr s.curr hγ hq
  exact ⟨qm, h1, by linarith⟩

/-- **Rejected ⇒ the forward-backward step is taken; accepted ⇒ the candidate `x̂ₖ + q`.** -/
theorem pantr_rejected_takes_fb_step (co : Consts α) (P : Problem α) (dir : Direction D α)
    (pr : Params α) (stop : Nat → Bool) (s : St α D) (eps : α) :
    ((iterBody co P dir pr stop s eps).accept = false → (iterBody co P dir pr stop s eps).curr.x = s.curr.xhat) ∧
    ((iterBody co P dir pr stop s eps).accept = true →
      (iterBody co P dir pr stop s eps).curr.x = vadd s.curr.xhat (iterBody co P dir pr stop s eps).q) := by
  have h := (iterBody_spec co P dir pr stop s eps).2.2.2
  constructor <;> intro ha <;> simpa [ha] using h

/-- **The step size never increases** across an iteration … -/
theorem pantr_gamma_antitone (co : Consts α) (P : Problem α) (dir : Direction D α) (pr : Params α)
    (stop : Nat → Bool)
    (s : St α D) (eps : α) (h0 : 0 ≤ s.curr.gamma) :
    (iterBody co P dir pr stop s eps).curr.gamma ≤ s.curr.gamma :=
  (iterBody_GL co P dir pr stop s eps).gamma_le h0

/-- … **and `γ·L` stays constant** (every change is `γ /= 2; L *= 2`), positivity is kept. -/
theorem pantr_gammaL_const (co : Consts α) (P : Problem α) (dir : Direction D α) (pr : Params α)
    (stop : Nat → Bool)
    (s : St α D) (eps : α) :
    (iterBody co P dir pr stop s eps).curr.gamma * (iterBody co P dir pr stop s eps).curr.L
      = s.curr.gamma * s.curr.L ∧
    (0 < s.curr.gamma → 0 < (iterBody co P dir pr stop s eps).curr.gamma) :=
  ⟨(iterBody_GL co P dir pr stop s eps).gammaL, (iterBody_GL co P dir pr stop s eps).gamma_pos⟩

/-- Initially `γ·L = Lγ_factor` (for a non-zero Lipschitz estimate), so by `pantr_gammaL_const`
    at every iterate. -/
theorem pantr_gammaL_initial (co : Consts α) (P : Problem α) (d0 : D) (pr : Params α)
    (stop : Nat → Bool)
    (x0 gV : Vec α) (s : St α D) (hi : initState co P d0 pr stop x0 gV = .inr s) (hL : s.curr.L ≠ 0) :
    s.curr.gamma * s.curr.L = pr.LgammaFactor := by
  obtain ⟨c0, h0, hg⟩ := initState_GL co P d0 pr stop x0 gV s hi
  rw [hg.gammaL, h0]
  obtain ⟨n, -, hn⟩ := hg
  have hc0L : c0.L ≠ 0 := by
    intro hz; apply hL; rw [hn, hz, zero_mul]
  field_simp

/-- **The trust radius never drops below `min_radius`** (for a `min_radius` that is not NaN): true
    initially and kept by every iteration. -/
theorem pantr_radius_ge_min (co : Consts α) (P : Problem α) (dir : Direction D α) (pr : Params α)
    (stop : Nat → Bool)
    (hb : RealLike.isNaN pr.minRadius = false) :
    (∀ g : Vec α, pr.minRadius ≤ initialRadius pr g) ∧
    (∀ (s : St α D) (eps : α), pr.minRadius ≤ s.Delta →
      pr.minRadius ≤ (iterBody co P dir pr stop s eps).Delta) := by
  refine ⟨fun g => initialRadius_ge pr g hb, fun s eps h => ?_⟩
  rw [(iterBody_Delta co P dir pr stop s eps).1]
  rcases trStage_Delta co P dir pr stop s with h1 | ⟨q, rho, h1⟩
  · rw [h1]; exact h
  · rw [h1]; exact updatedRadius_ge pr q rho s.Delta hb

/-! ### The whole run, as seen through the progress callback -/

/-- **The reported step size never increases** along the progress callbacks of a solve — every
    problem, direction provider, stop schedule, budget; no fuel hypothesis. -/
theorem pantr_gamma_antitone_run (co : Consts α) (P : Problem α) (dir : Direction D α) (d0 : D)
    (pr : Params α) (hp : ParamsOK pr) (stop : Nat → Bool) (oot : Bool) (x0 y Sig errz0 gV : Vec α) :
    List.IsChain (fun a b : Callback α => b.it.gamma ≤ a.it.gamma)
      (run co P dir d0 pr stop oot x0 y Sig errz0 gV).callbacks :=
  (run_callbacks_ok False 0 (fun _ => 0) (fun _ => True) co P dir d0 pr (fun h => h.elim) hp stop oot
    x0 y Sig errz0 gV).1.imp (fun _ _ h => h.gamma_le)

/-- **`γ·L` of every reported iterate equals `Lγ_factor`** (and `γ, L > 0`): the first step size is
    `Lγ_factor / L`, every later change is `γ /= 2; L *= 2`. -/
theorem pantr_gammaL_const_run (co : Consts α) (P : Problem α) (dir : Direction D α) (d0 : D)
    (pr : Params α) (hp : ParamsOK pr) (stop : Nat → Bool) (oot : Bool) (x0 y Sig errz0 gV : Vec α) :
    ∀ cb ∈ (run co P dir d0 pr stop oot x0 y Sig errz0 gV).callbacks,
      cb.it.gamma * cb.it.L = pr.LgammaFactor ∧ 0 < cb.it.gamma ∧ 0 < cb.it.L := fun cb hcb =>
  have h := ((run_callbacks_ok False 0 (fun _ => 0) (fun _ => True) co P dir d0 pr (fun h => h.elim) hp
    stop oot x0 y Sig errz0 gV).2 cb hcb).gok
  ⟨h.2.2, h.1, h.2.1⟩

/-- What every callback reports is self-consistent: `φγ` is `pantr_fbe` of the reported
    `ψ, h(x̂), ‖p‖², γ, ∇ψᵀp`; `‖p‖²`, `∇ψᵀp` are those of the reported `p`, `∇ψ`; `(h(x̂), x̂, p)` is the
    prox oracle's answer at the reported `(γ, x, ∇ψ)`, `ψ(x̂)`, `ŷ` the ψ oracle's at `x̂`; `τ ∈ {0, 1}`. -/
theorem pantr_callback_fields_run (co : Consts α) (P : Problem α) (dir : Direction D α) (d0 : D)
    (pr : Params α) (hp : ParamsOK pr) (stop : Nat → Bool) (oot : Bool) (x0 y Sig errz0 gV : Vec α) :
    ∀ cb ∈ (run co P dir d0 pr stop oot x0 y Sig errz0 gV).callbacks,
      cb.fbe = pantr_fbe cb.it.psix cb.it.hxhat cb.it.pTp cb.it.gamma cb.it.gradPsiTp ∧
      cb.it.pTp = sqNorm cb.it.p ∧ cb.it.gradPsiTp = dot cb.it.p cb.it.gradPsi ∧ Good P cb.it ∧
      (cb.tau = 0 ∨ cb.tau = 1) := fun cb hcb =>
  have h := (run_callbacks_ok False 0 (fun _ => 0) (fun _ => True) co P dir d0 pr (fun h => h.elim) hp
    stop oot x0 y Sig errz0 gV).2 cb hcb
  ⟨h.fbe, h.scal.1, h.scal.2, h.good, h.tau⟩

/-- **Rejected ⇒ the forward-backward step is taken; accepted ⇒ the candidate `x̂ₖ + q`**, along the
    whole run: for consecutive callbacks `a`, `b`: `a` is a `Busy` callback, and `b` reports
    `x = x̂_a` if `τ_a = 0`, `x = x̂_a + q_a` if `τ_a = 1`. -/
theorem pantr_next_iterate_run (co : Consts α) (P : Problem α) (dir : Direction D α) (d0 : D)
    (pr : Params α) (hp : ParamsOK pr) (stop : Nat → Bool) (oot : Bool) (x0 y Sig errz0 gV : Vec α) :
    List.IsChain (fun a b : Callback α => a.status = .Busy ∧ (a.tau = 0 → b.it.x = a.it.xhat) ∧
        (a.tau = 1 → b.it.x = vadd a.it.xhat a.q))
      (run co P dir d0 pr stop oot x0 y Sig errz0 gV).callbacks :=
  (run_callbacks_ok False 0 (fun _ => 0) (fun _ => True) co P dir d0 pr (fun h => h.elim) hp stop oot
    x0 y Sig errz0 gV).1.imp (fun _ _ h => ⟨h.busy, h.x_rej, h.x_acc⟩)

/-- `φ_a − ((1 − γ_a L_a)/(2γ_a))·‖p_a‖² + (1 + |ψ_a|)·qub_tol`, from the fields callback `a` reports. -/
def descBoundOf (pr : Params α) (a : Callback α) : α :=
  a.fbe - (1 - a.it.gamma * a.it.L) / (2 * a.it.gamma) * a.it.pTp + qubMargin pr a.it

/-- The descent relation between consecutive callbacks `a` (iteration `k`) and `b` (the next one), for an
    `a` that passed the quadratic-upper-bound test:
    * rejected step (`τ_a = 0`): `φ_b ≤ φ_a − c_a‖p_a‖² + margin` — whatever step size the fallback's
      backtracking chose;
    * accepted step (`τ_a = 1`) tested with the step size it is reported with
      (`compute_ratio_using_new_stepsize`, or `γ_b = γ_a`):
      `φ_b ≤ φ_p + (1+|φ_p|)·TR_tol − thr·c·(−q_model)` with `φ_p ≤ φ_a − c_a‖p_a‖² + margin`,
      `q_model < 0` (`φ_p` = envelope of the forward-backward point, `q_model` = the provider's model
      value). -/
def DescStep (pr : Params α) (a b : Callback α) : Prop :=
  qubViolated pr a.it = false →
    (a.tau = 0 → b.fbe ≤ descBoundOf pr a) ∧
    (a.tau = 1 → (pr.computeRatioUsingNewStepsize = true ∨ b.it.gamma = a.it.gamma) →
      ∃ φp qm : α, qm < 0 ∧ φp ≤ descBoundOf pr a ∧
        b.fbe ≤ φp + (1 + |φp|) * pr.trTol - pr.ratioThresholdAcceptable * ratioScale pr * (-qm))

/-- `DescStep` with the size facts as premises on the observable fields of `a` (what the `…_local`
    theorems prove without any size contract on the direction provider). -/
def DescStepLocal (pr : Params α) (n : Nat) (a b : Callback α) : Prop :=
  a.it.x.length = n → a.it.gradPsi.length = n → DescStep pr a b

/-- Local form: the size facts are premises on the callback fields (`DescStepLocal`) and on the gradient
    oracle (`GradSized`); nothing is demanded of the direction provider.  Every direction provider, stop
    schedule and budget; no fuel hypothesis. -/
theorem pantr_descent_run_local (n : Nat) (hval : Vec α → α) (dom : Vec α → Prop) (co : Consts α)
    (P : Problem α) (dir : Direction D α) (d0 : D) (pr : Params α) (hH : DescHyp n hval dom P pr)
    (hgs : GradSized n P) (hp : ParamsOK pr) (stop : Nat → Bool) (oot : Bool)
    (x0 y Sig errz0 gV : Vec α) :
    List.IsChain (DescStepLocal pr n) (run co P dir d0 pr stop oot x0 y Sig errz0 gV).callbacks := by
  have h := run_callbacks_ok True n hval dom co P dir d0 pr (fun _ => ⟨hH, hgs⟩) hp stop oot
    x0 y Sig errz0 gV
  refine h.1.imp_of_mem_imp (fun a b _ hb hs => ?_)
  have hd := hs.desc trivial
  have hfb := (h.2 b hb).fbe
  intro h1 h2 h3
  have := hd h1 h2 h3
  rw [hfb]
  exact this

/-- Local form of `pantr_descent_run_nonincrease`. -/
theorem pantr_descent_run_nonincrease_local (n : Nat) (hval : Vec α → α) (dom : Vec α → Prop)
    (co : Consts α) (P : Problem α) (dir : Direction D α) (d0 : D) (pr : Params α)
    (hH : DescHyp n hval dom P pr) (hgs : GradSized n P) (hp : ParamsOK pr)
    (hthr : 0 ≤ pr.ratioThresholdAcceptable) (stop : Nat → Bool) (oot : Bool)
    (x0 y Sig errz0 gV : Vec α) :
    List.IsChain (fun a b : Callback α =>
        a.it.x.length = n → a.it.gradPsi.length = n → qubViolated pr a.it = false →
        (a.tau = 0 → b.fbe ≤ descBoundOf pr a) ∧
        (a.tau = 1 → (pr.computeRatioUsingNewStepsize = true ∨ b.it.gamma = a.it.gamma) →
          ∃ φp : α, φp ≤ descBoundOf pr a ∧ b.fbe ≤ φp + (1 + |φp|) * pr.trTol))
      (run co P dir d0 pr stop oot x0 y Sig errz0 gV).callbacks := by
  refine (pantr_descent_run_local n hval dom co P dir d0 pr hH hgs hp stop oot x0 y Sig errz0 gV).imp
    (fun a b h h1 h2 h3 => ?_)
  refine ⟨(h h1 h2 h3).1, fun ht hc => ?_⟩
  obtain ⟨φp, qm, hqm, h4, h5⟩ := (h h1 h2 h3).2 ht hc
  have hs : 0 ≤ ratioScale pr := by
    unfold ratioScale; split_ifs with ha
    · exact (sub_pos.mpr (hH.approx ha)).le
    · exact zero_le_one
  have : 0 ≤ pr.ratioThresholdAcceptable * ratioScale pr * (-qm) :=
    mul_nonneg (mul_nonneg hthr hs) (neg_pos.mpr hqm).le
  exact ⟨φp, h4, by linarith⟩

/-- Local form, fuel as a hypothesis: `pantr_descent_run_local` combined with `pantr_reported_qub_fuel` —
    the premise "`a` passed the quadratic-upper-bound test" replaced by `L_a < L_max` (every `Busy`
    iterate below `L_max` did pass it). -/
theorem pantr_descent_run_qub_local_fuel (n : Nat) (hval : Vec α → α) (dom : Vec α → Prop)
    (co : Consts α) (P : Problem α) (dir : Direction D α) (d0 : D) (pr : Params α)
    (hH : DescHyp n hval dom P pr) (hgs : GradSized n P) (hp : ParamsOK pr) (stop : Nat → Bool)
    (hm : StopMono stop) (oot : Bool) (x0 y Sig errz0 gV : Vec α)
    (hfuel : (run co P dir d0 pr stop oot x0 y Sig errz0 gV).fuelOut = false) :
    List.IsChain (fun a b : Callback α =>
        a.it.x.length = n → a.it.gradPsi.length = n → a.it.L < pr.Lmax →
        (a.tau = 0 → b.fbe ≤ descBoundOf pr a) ∧
        (a.tau = 1 → (pr.computeRatioUsingNewStepsize = true ∨ b.it.gamma = a.it.gamma) →
          ∃ φp qm : α, qm < 0 ∧ φp ≤ descBoundOf pr a ∧
            b.fbe ≤ φp + (1 + |φp|) * pr.trTol - pr.ratioThresholdAcceptable * ratioScale pr * (-qm)))
      (run co P dir d0 pr stop oot x0 y Sig errz0 gV).callbacks := by
  have hq := pantr_reported_qub_busy_fuel co P dir d0 pr stop hm oot x0 y Sig errz0 gV hfuel
  have hb := pantr_next_iterate_run co P dir d0 pr hp stop oot x0 y Sig errz0 gV
  have hd := pantr_descent_run_local n hval dom co P dir d0 pr hH hgs hp stop oot x0 y Sig errz0 gV
  have hboth : List.IsChain (fun a b : Callback α => a.status = .Busy ∧ DescStepLocal pr n a b)
      (run co P dir d0 pr stop oot x0 y Sig errz0 gV).callbacks := by
    generalize (run co P dir d0 pr stop oot x0 y Sig errz0 gV).callbacks = l at hb hd
    induction l with
    | nil => exact List.isChain_nil
    | cons a l ih =>
      rw [List.isChain_cons] at hb hd ⊢
      exact ⟨fun y hy => ⟨(hb.1 y hy).1, hd.1 y hy⟩, ih hb.2 hd.2⟩
  refine hboth.imp_of_mem_imp (fun a b ha _ h h1 h2 h3 => ?_)
  rcases hq a ha (.inl h.1) with h4 | h4
  · exact h.2 h1 h2 h4
  · exact absurd h3 (not_lt.mpr h4)

/-- Local form under `FuelOK pr N`. -/
theorem pantr_descent_run_qub_local (n : Nat) (hval : Vec α → α) (dom : Vec α → Prop) (co : Consts α)
    (P : Problem α) (dir : Direction D α) (d0 : D) (pr : Params α) (hH : DescHyp n hval dom P pr)
    (hgs : GradSized n P) (hp : ParamsOK pr) (stop : Nat → Bool) (hm : StopMono stop) (oot : Bool)
    (x0 y Sig errz0 gV : Vec α) (N : Nat) (hF : FuelOK pr N) :
    List.IsChain (fun a b : Callback α =>
        a.it.x.length = n → a.it.gradPsi.length = n → a.it.L < pr.Lmax →
        (a.tau = 0 → b.fbe ≤ descBoundOf pr a) ∧
        (a.tau = 1 → (pr.computeRatioUsingNewStepsize = true ∨ b.it.gamma = a.it.gamma) →
          ∃ φp qm : α, qm < 0 ∧ φp ≤ descBoundOf pr a ∧
            b.fbe ≤ φp + (1 + |φp|) * pr.trTol - pr.ratioThresholdAcceptable * ratioScale pr * (-qm)))
      (run co P dir d0 pr stop oot x0 y Sig errz0 gV).callbacks :=
  pantr_descent_run_qub_local_fuel n hval dom co P dir d0 pr hH hgs hp stop hm oot x0 y Sig errz0 gV
    (pantr_fuel_suffices co P dir d0 pr stop oot x0 y Sig errz0 gV N hF)

/-! #### Without size premises: well-formed calls (`Proofs/PantrSized.lean`)

On a well-formed call — `x₀` an `n`-vector, problem oracles sized (`ProblemSized n m P`), direction provider
sized over an invariant `R` of its state that holds initially (`DirSized n dir R`, `R d₀`: the contract is
demanded only of the provider states the loop reaches), `inf ≥ 0` — every reported iterate has `x`, `∇ψ(x)`
of size `n` (`run_callbacks_sized`), so the size premises of the `…_local` forms are discharged. -/

/-- **Descent of the envelope between consecutive callbacks of a solve** (`DescStep`: no size premise),
    for every stop schedule and budget; no fuel hypothesis.  Hypotheses: `DescHyp` (sized prox contract,
    ψ-oracle consistency, `ratio_approx… → Lγ_factor < 1`), `ParamsOK`, and the well-formedness of the
    call: `ProblemSized`, `DirSized n dir R`, `R d₀`, `x₀.length = n`, `inf ≥ 0`. -/
theorem pantr_descent_run {n m : Nat} (hval : Vec α → α) (dom : Vec α → Prop) (co : Consts α)
    (hinf : ¬ co.inf < 0) (P : Problem α) (hPs : ProblemSized n m P) (dir : Direction D α)
    (R : D → Prop) (hD : DirSized n dir R) (d0 : D) (hR0 : R d0) (pr : Params α)
    (hH : DescHyp n hval dom P pr) (hp : ParamsOK pr) (stop : Nat → Bool) (oot : Bool)
    (x0 y Sig errz0 gV : Vec α) (hx0 : x0.length = n) :
    List.IsChain (DescStep pr) (run co P dir d0 pr stop oot x0 y Sig errz0 gV).callbacks := by
  have hs := run_callbacks_sized hPs hD co hinf d0 hR0 pr stop oot x0 y Sig errz0 gV hx0
  exact (pantr_descent_run_local n hval dom co P dir d0 pr hH hPs.gradSized hp stop oot
    x0 y Sig errz0 gV).imp_of_mem_imp (fun a b ha _ h => h (hs a ha).x (hs a ha).g)

/-- … with a non-negative acceptance threshold the model-decrease term can be dropped: an accepted
    step that is reported with the step size it was tested with increases the envelope by at most the
    documented margin over `φ_p ≤ φ_a − c_a‖p_a‖² + margin`; in particular (`TR_tol = qub_tol = 0`,
    `γ_a L_a ≤ 1`) `φ_b ≤ φ_a`: "non-increase whenever the step size is unchanged". -/
theorem pantr_descent_run_nonincrease {n m : Nat} (hval : Vec α → α) (dom : Vec α → Prop)
    (co : Consts α) (hinf : ¬ co.inf < 0) (P : Problem α) (hPs : ProblemSized n m P)
    (dir : Direction D α) (R : D → Prop) (hD : DirSized n dir R) (d0 : D) (hR0 : R d0) (pr : Params α)
    (hH : DescHyp n hval dom P pr) (hp : ParamsOK pr) (hthr : 0 ≤ pr.ratioThresholdAcceptable)
    (stop : Nat → Bool) (oot : Bool) (x0 y Sig errz0 gV : Vec α) (hx0 : x0.length = n) :
    List.IsChain (fun a b : Callback α =>
        qubViolated pr a.it = false →
        (a.tau = 0 → b.fbe ≤ descBoundOf pr a) ∧
        (a.tau = 1 → (pr.computeRatioUsingNewStepsize = true ∨ b.it.gamma = a.it.gamma) →
          ∃ φp : α, φp ≤ descBoundOf pr a ∧ b.fbe ≤ φp + (1 + |φp|) * pr.trTol))
      (run co P dir d0 pr stop oot x0 y Sig errz0 gV).callbacks := by
  have hs := run_callbacks_sized hPs hD co hinf d0 hR0 pr stop oot x0 y Sig errz0 gV hx0
  exact (pantr_descent_run_nonincrease_local n hval dom co P dir d0 pr hH hPs.gradSized hp hthr stop oot
    x0 y Sig errz0 gV).imp_of_mem_imp (fun a b ha _ h => h (hs a ha).x (hs a ha).g)

/-- Fuel as a hypothesis: descent between consecutive callbacks for every iterate below `L_max`. -/
theorem pantr_descent_run_qub_fuel {n m : Nat} (hval : Vec α → α) (dom : Vec α → Prop)
    (co : Consts α) (hinf : ¬ co.inf < 0) (P : Problem α) (hPs : ProblemSized n m P)
    (dir : Direction D α) (R : D → Prop) (hD : DirSized n dir R) (d0 : D) (hR0 : R d0) (pr : Params α)
    (hH : DescHyp n hval dom P pr) (hp : ParamsOK pr) (stop : Nat → Bool) (hm : StopMono stop)
    (oot : Bool) (x0 y Sig errz0 gV : Vec α) (hx0 : x0.length = n)
    (hfuel : (run co P dir d0 pr stop oot x0 y Sig errz0 gV).fuelOut = false) :
    List.IsChain (fun a b : Callback α =>
        a.it.L < pr.Lmax →
        (a.tau = 0 → b.fbe ≤ descBoundOf pr a) ∧
        (a.tau = 1 → (pr.computeRatioUsingNewStepsize = true ∨ b.it.gamma = a.it.gamma) →
          ∃ φp qm : α, qm < 0 ∧ φp ≤ descBoundOf pr a ∧
            b.fbe ≤ φp + (1 + |φp|) * pr.trTol - pr.ratioThresholdAcceptable * ratioScale pr * (-qm)))
      (run co P dir d0 pr stop oot x0 y Sig errz0 gV).callbacks := by
  have hs := run_callbacks_sized hPs hD co hinf d0 hR0 pr stop oot x0 y Sig errz0 gV hx0
  exact (pantr_descent_run_qub_local_fuel n hval dom co P dir d0 pr hH hPs.gradSized hp stop hm oot
    x0 y Sig errz0 gV hfuel).imp_of_mem_imp (fun a b ha _ h => h (hs a ha).x (hs a ha).g)

/-- **Descent between consecutive callbacks for every iterate below `L_max`**, under `FuelOK pr N`,
    for a stop flag that is never lowered, on a well-formed call: no premise on the pair other than
    `L_a < L_max`. -/
theorem pantr_descent_run_qub {n m : Nat} (hval : Vec α → α) (dom : Vec α → Prop)
    (co : Consts α) (hinf : ¬ co.inf < 0) (P : Problem α) (hPs : ProblemSized n m P)
    (dir : Direction D α) (R : D → Prop) (hD : DirSized n dir R) (d0 : D) (hR0 : R d0) (pr : Params α)
    (hH : DescHyp n hval dom P pr) (hp : ParamsOK pr) (stop : Nat → Bool) (hm : StopMono stop)
    (oot : Bool) (x0 y Sig errz0 gV : Vec α) (hx0 : x0.length = n) (N : Nat) (hF : FuelOK pr N) :
    List.IsChain (fun a b : Callback α =>
        a.it.L < pr.Lmax →
        (a.tau = 0 → b.fbe ≤ descBoundOf pr a) ∧
        (a.tau = 1 → (pr.computeRatioUsingNewStepsize = true ∨ b.it.gamma = a.it.gamma) →
          ∃ φp qm : α, qm < 0 ∧ φp ≤ descBoundOf pr a ∧
            b.fbe ≤ φp + (1 + |φp|) * pr.trTol - pr.ratioThresholdAcceptable * ratioScale pr * (-qm)))
      (run co P dir d0 pr stop oot x0 y Sig errz0 gV).callbacks :=
  pantr_descent_run_qub_fuel hval dom co hinf P hPs dir R hD d0 hR0 pr hH hp stop hm oot
    x0 y Sig errz0 gV hx0 (pantr_fuel_suffices co P dir d0 pr stop oot x0 y Sig errz0 gV N hF)

/-- Every iterate handed to the progress callback has `x`, `∇ψ(x)`, `x̂`, `p` of size `n` and `ŷ` of size
    `m`, and the returned `x`, `y`, `err_z` have sizes `n`, `m`, `m` — on a well-formed call. -/
theorem pantr_sizes_run {n m : Nat} (co : Consts α) (hinf : ¬ co.inf < 0) (P : Problem α)
    (hPs : ProblemSized n m P) (dir : Direction D α) (R : D → Prop) (hD : DirSized n dir R) (d0 : D)
    (hR0 : R d0) (pr : Params α) (stop : Nat → Bool) (oot : Bool) (x0 y Sig errz0 gV : Vec α)
    (hx0 : x0.length = n) (hy : y.length = m) (hS : Sig.length = m) (he : errz0.length = m) :
    (∀ cb ∈ (run co P dir d0 pr stop oot x0 y Sig errz0 gV).callbacks, Sized n m cb.it) ∧
    OutSized n m (run co P dir d0 pr stop oot x0 y Sig errz0 gV) :=
  ⟨run_callbacks_sized hPs hD co hinf d0 hR0 pr stop oot x0 y Sig errz0 gV hx0,
   run_sized hPs hD co hinf d0 hR0 pr stop oot x0 y Sig errz0 gV hx0 hy hS he⟩

/-! ### Non-vacuity (over `ℚ`) -/
section examples
local instance : RealLike ℚ := ⟨id, fun _ => false, fun _ => true⟩

/-- ratio test: `φ(prox) = 10`, `φ(cand) = 7`, `q_model = −4`, no margin: `ρ = 3/4 ≥ 1/5`, and the
    implied inequality `7 ≤ 10 − (1/5)·4` holds -/
example : pantr_candidateRatio (-4 : ℚ) 0 false (19/20) 10 0 0 1 0 7 0 0 1 0 = 3/4 := by
  norm_num [pantr_candidateRatio, pantr_fbe, eabs]
example : pantr_fbe (7 : ℚ) 0 0 1 0 ≤ pantr_fbe 10 0 0 1 0 + (1 + |pantr_fbe (10 : ℚ) 0 0 1 0|) * 0
    - (1/5) * (if false then 1 - 19/20 else 1) * (-(-4)) :=
  ratio_test_descent (-4) 0 (19/20) (1/5) false 10 0 0 1 0 7 0 0 1 0 (by norm_num) (by simp)
    (by norm_num [pantr_candidateRatio, pantr_fbe, eabs])
/-- with the approximate model the same data give `ρ = 15` -/
example : pantr_candidateRatio (-4 : ℚ) 0 true (19/20) 10 0 0 1 0 7 0 0 1 0 = 15 := by
  norm_num [pantr_candidateRatio, pantr_fbe, eabs]
/-- the QUB test on `ψ(x)=2`, `ψ(x̂)=1`, `∇ψᵀp=−2`, `L=2`, `‖p‖²=1` does not fire -/
example : pantr_qubViolated (0 : ℚ) 2 1 (-2) 2 1 = false := by
  norm_num [pantr_qubViolated, eabs]
/-- radius update: very successful / successful / unsuccessful -/
example : pantr_updatedRadius (9/10 : ℚ) 1 2 (4/5) (1/5) (5/2) (999/1000) (7/20) = 5 ∧
    pantr_updatedRadius (1/2 : ℚ) 1 2 (4/5) (1/5) (5/2) (999/1000) (7/20) = 999/1000 ∧
    pantr_updatedRadius (0 : ℚ) 1 2 (4/5) (1/5) (5/2) (999/1000) (7/20) = 7/10 := by
  norm_num [pantr_updatedRadius, emax]
/-- a closed run in which a candidate is accepted (`Proofs/PantrExample.lean`) -/
example : ((Alpaqa.Pantr.Example.solve 3 false (-1) 0).callbacks.map (·.tau)) = [1, 1] := by decide

end examples

/-! ### Non-vacuity of the whole-run theorems (`Proofs/PantrExampleQ.lean`: one accepted and one
    rejected trust-region step, one initial step-size halving; the sized prox contract is proved for
    the example's 1-D box step in `prox_sized`) -/
section examplesQ
open Alpaqa.Pantr.ExampleQ

/-- the run: callbacks `k = 0` (accepted, `τ = 1`), `k = 1` (rejected, `τ = 0`), final `k = 2`; every
    reported iterate is a 1-vector with a 1-vector gradient, passed the quadratic upper bound test and
    has `L = 1 < L_max = 100`; the step size is `1/2` throughout (one initial halving from `1`);
    envelope values `4 > 1/4 > 1/16` against the bounds `φ − c‖p‖² + margin = 2, 1/8` -/
example : (rq none).callbacks.map (fun c => (c.k, c.tau, c.it.x, c.it.gradPsi, qubViolated prq c.it)) =
    [(0, 1, [4], [4], false), (1, 0, [1], [1], false), (2, 0, [1/2], [1/2], false)] ∧
    (rq none).callbacks.map (fun c => (c.it.gamma, c.it.L, c.fbe, descBoundOf prq c)) =
    [(1/2, 1, 4, 2), (1/2, 1, 1/4, 1/8), (1/2, 1, 1/16, 1/32)] ∧
    (rq none).stats.stepsizeBacktracks = 1 ∧ (rq none).fuelOut = false := by decide +kernel

example : StopMono (stopAt none) := fun _ _ _ h => h
example : StopMono (stopAt (some 6)) := by
  intro a b hab h; simp only [stopAt, decide_eq_true_eq] at h ⊢; omega

example : List.IsChain (fun a b : Callback ℚ => b.it.gamma ≤ a.it.gamma) (rq none).callbacks :=
  pantr_gamma_antitone_run coq Pq dirq 0 prq paramsOK (stopAt none) false [4] [5] [2] [7] [0]
example : ∀ cb ∈ (rq none).callbacks,
    cb.it.gamma * cb.it.L = prq.LgammaFactor ∧ 0 < cb.it.gamma ∧ 0 < cb.it.L :=
  pantr_gammaL_const_run coq Pq dirq 0 prq paramsOK (stopAt none) false [4] [5] [2] [7] [0]
example : ∀ cb ∈ (rq none).callbacks,
    cb.fbe = pantr_fbe cb.it.psix cb.it.hxhat cb.it.pTp cb.it.gamma cb.it.gradPsiTp ∧
    cb.it.pTp = sqNorm cb.it.p ∧ cb.it.gradPsiTp = dot cb.it.p cb.it.gradPsi ∧ Good Pq cb.it ∧
    (cb.tau = 0 ∨ cb.tau = 1) :=
  pantr_callback_fields_run coq Pq dirq 0 prq paramsOK (stopAt none) false [4] [5] [2] [7] [0]
example : List.IsChain (fun a b : Callback ℚ => a.status = .Busy ∧ (a.tau = 0 → b.it.x = a.it.xhat) ∧
    (a.tau = 1 → b.it.x = vadd a.it.xhat a.q)) (rq none).callbacks :=
  pantr_next_iterate_run coq Pq dirq 0 prq paramsOK (stopAt none) false [4] [5] [2] [7] [0]
example : ∀ cb ∈ (rq (some 6)).callbacks, qubViolated prq cb.it = false ∨ prq.Lmax ≤ cb.it.L ∨
    (cb.status ≠ .Busy ∧ stopAt (some 6) ((rq (some 6)).ticks - 1) = true) :=
  pantr_reported_qub coq Pq dirq 0 prq (stopAt (some 6))
    (by intro a b hab h; simp only [stopAt, decide_eq_true_eq] at h ⊢; omega) false [4] [5] [2] [7] [0] 8 fuelOK
example : ∀ cb ∈ (rq none).callbacks,
    (cb.status = .Busy ∨ stopAt none ((rq none).ticks - 1) = false) →
    qubViolated prq cb.it = false ∨ prq.Lmax ≤ cb.it.L :=
  pantr_reported_qub_busy coq Pq dirq 0 prq (stopAt none) (fun _ _ _ h => h) false [4] [5] [2] [7] [0] 8 fuelOK
/-- the descent chain on the run with an accepted and a rejected step -/
example : List.IsChain (DescStep prq) (rq none).callbacks :=
  pantr_descent_run (fun _ => 0) domq coq (by norm_num [coq]) Pq problemSized dirq (fun _ => True)
    dirSized 0 trivial prq descHyp paramsOK (stopAt none) false [4] [5] [2] [7] [0] rfl
/-- … the local form (size facts as premises) on the same run -/
example : List.IsChain (DescStepLocal prq 1) (rq none).callbacks :=
  pantr_descent_run_local 1 (fun _ => 0) domq coq Pq dirq 0 prq descHyp problemSized.gradSized paramsOK
    (stopAt none) false [4] [5] [2] [7] [0]
/-- sizes along the run and of the outputs -/
example : (∀ cb ∈ (rq none).callbacks, Sized 1 1 cb.it) ∧ OutSized 1 1 (rq none) :=
  pantr_sizes_run coq (by norm_num [coq]) Pq problemSized dirq (fun _ => True) dirSized 0 trivial prq
    (stopAt none) false [4] [5] [2] [7] [0] rfl rfl rfl rfl
example : List.IsChain (fun a b : Callback ℚ =>
    qubViolated prq a.it = false →
    (a.tau = 0 → b.fbe ≤ descBoundOf prq a) ∧
    (a.tau = 1 → (prq.computeRatioUsingNewStepsize = true ∨ b.it.gamma = a.it.gamma) →
      ∃ φp : ℚ, φp ≤ descBoundOf prq a ∧ b.fbe ≤ φp + (1 + |φp|) * prq.trTol)) (rq none).callbacks :=
  pantr_descent_run_nonincrease (fun _ => 0) domq coq (by norm_num [coq]) Pq problemSized dirq
    (fun _ => True) dirSized 0 trivial prq descHyp paramsOK (by norm_num [prq]) (stopAt none) false
    [4] [5] [2] [7] [0] rfl
example : List.IsChain (fun a b : Callback ℚ =>
    a.it.L < prq.Lmax →
    (a.tau = 0 → b.fbe ≤ descBoundOf prq a) ∧
    (a.tau = 1 → (prq.computeRatioUsingNewStepsize = true ∨ b.it.gamma = a.it.gamma) →
      ∃ φp qm : ℚ, qm < 0 ∧ φp ≤ descBoundOf prq a ∧
        b.fbe ≤ φp + (1 + |φp|) * prq.trTol - prq.ratioThresholdAcceptable * ratioScale prq * (-qm)))
    (rq none).callbacks :=
  pantr_descent_run_qub (fun _ => 0) domq coq (by norm_num [coq]) Pq problemSized dirq (fun _ => True)
    dirSized 0 trivial prq descHyp paramsOK (stopAt none) (fun _ _ _ h => h) false
    [4] [5] [2] [7] [0] rfl 8 fuelOK
/-- the local forms on the same run -/
example : List.IsChain (fun a b : Callback ℚ =>
    a.it.x.length = 1 → a.it.gradPsi.length = 1 → a.it.L < prq.Lmax →
    (a.tau = 0 → b.fbe ≤ descBoundOf prq a) ∧
    (a.tau = 1 → (prq.computeRatioUsingNewStepsize = true ∨ b.it.gamma = a.it.gamma) →
      ∃ φp qm : ℚ, qm < 0 ∧ φp ≤ descBoundOf prq a ∧
        b.fbe ≤ φp + (1 + |φp|) * prq.trTol - prq.ratioThresholdAcceptable * ratioScale prq * (-qm)))
    (rq none).callbacks :=
  pantr_descent_run_qub_local 1 (fun _ => 0) domq coq Pq dirq 0 prq descHyp problemSized.gradSized
    paramsOK (stopAt none) (fun _ _ _ h => h) false [4] [5] [2] [7] [0] 8 fuelOK

end examplesQ

end Alpaqa.Props.C05_Pantr
