/- C03 — placeholder while the loop-model theorems are being written. -/
import Alpaqa.Model.Panoc
namespace Alpaqa.Props.C03
theorem placeholder : True := trivial
example : True := trivial
end Alpaqa.Props.C03
