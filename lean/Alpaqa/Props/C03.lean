/-
  C03 — Written-back x, y and slack error are feasible, finite and mutually consistent.

  Theorems about the PANOC loop model (`Alpaqa/Model/Panoc.lean`, tied to panoc.tpp by bit-exact
  trace replay and, for its decision kernels, by the translator).  They hold for *every* problem
  oracle, direction provider, stop schedule (`stop : Nat → Bool`, any function of the number of
  oracle calls made so far), time-limit oracle, iteration budget (0 included), both values of
  `always_overwrite_results`, every exit status, and over *any* carrier (IEEE doubles included):
  they are structural facts about which oracle answer ends up in which output.
  The `ProblemContract` corollaries turn them into the property's statements.

  ZeroFPR / PANTR / FISTA / PANOC-OCP: same exit block, modelled loops pending — those solvers
  are covered by the monitors of `checks/c03.py` only (stated in MANIFEST).
-/
import Alpaqa.Proofs.PanocInv

namespace Alpaqa.Props.C03
open Alpaqa Alpaqa.Panoc Alpaqa.Gen
set_option linter.unusedSectionVars false

variable {α D : Type} [Add α] [Sub α] [Mul α] [Div α] [Neg α] [LT α] [LE α] [DecidableLT α]
  [DecidableLE α] [BEq α] [RealLike α] [NatCast α] [OfScientific α]
  [OfNat α 0] [OfNat α 1] [OfNat α 2] [OfNat α 100]

/-- **Exit contract of `PANOCSolver::operator()`.**  Whenever the outputs are overwritten:
    `x_out` is the `x̂` of a proximal-gradient step (hence in `C` for any prox that maps into `C`),
    `y_out` is the ψ-oracle's `ŷ` *at that very `x_out`*, and `err_z = (y_out − y_in)/Σ`.
    Otherwise `x`, `y`, `err_z` are the caller's values, untouched. -/
theorem panoc_exit_contract (P : Problem α) (dir : Direction D α) (d0 : D) (pr : Params α)
    (stop : Nat → Bool) (oot : Bool) (x0 y Sig errz0 gV : Vec α) (gS iS : α)
    (hfuel : (run P dir d0 pr stop oot x0 y Sig errz0 gV gS iS).fuelOut = false) :
    ExitOK P x0 y Sig errz0 (run P dir d0 pr stop oot x0 y Sig errz0 gV gS iS) := by
  unfold run at hfuel ⊢
  cases hi : initState P d0 pr stop x0 gV gS iS with
  | inl t =>
    simp only [hi] at hfuel ⊢
    exact ⟨fun h => absurd h (by simp), fun _ => ⟨rfl, rfl, rfl⟩⟩
  | inr s =>
    simp only [hi] at hfuel ⊢
    have hs := initState_good P d0 pr stop x0 gV gS iS s hi
    refine mainLoop_ok P dir pr stop oot x0 y Sig errz0 _ s hs ?_ hfuel
    rcases Bool.eq_false_or_eq_true s.fuelOut with hc | hc
    · have := mainLoop_fuelOut_mono P dir pr stop oot x0 y Sig errz0 (pr.maxIter + 2) s hc
      rw [this] at hfuel; exact absurd hfuel (by decide)
    · exact hc

/-- Feasibility: if the problem's prox step maps into `C` (proved for the shipped box / box+ℓ1 /
    unconstrained steps in `Props/C15`), the written-back `x` is in `C`. -/
theorem panoc_x_out_feasible (InC : Vec α → Prop) (P : Problem α) (hP : ∀ γ x g, InC (P.prox γ x g).2.1)
    (dir : Direction D α) (d0 : D) (pr : Params α)
    (stop : Nat → Bool) (oot : Bool) (x0 y Sig errz0 gV : Vec α) (gS iS : α)
    (hfuel : (run P dir d0 pr stop oot x0 y Sig errz0 gV gS iS).fuelOut = false)
    (hw : (run P dir d0 pr stop oot x0 y Sig errz0 gV gS iS).wrote = true) :
    InC (run P dir d0 pr stop oot x0 y Sig errz0 gV gS iS).x := by
  obtain ⟨⟨γ, x, g, hx⟩, _, _⟩ := (panoc_exit_contract P dir d0 pr stop oot x0 y Sig errz0 gV gS iS hfuel).1 hw
  rw [hx]; exact hP γ x g

/-- Consistency: `y_out = ŷ(x_out)` and `err_z = (y_out − y_in)/Σ`, i.e. `y_out = y_in + Σ·err_z`
    componentwise whenever `Σ_i ≠ 0` (stated in the division form the code computes). -/
theorem panoc_y_errz_consistent (P : Problem α) (dir : Direction D α) (d0 : D) (pr : Params α)
    (stop : Nat → Bool) (oot : Bool) (x0 y Sig errz0 gV : Vec α) (gS iS : α)
    (hfuel : (run P dir d0 pr stop oot x0 y Sig errz0 gV gS iS).fuelOut = false)
    (hw : (run P dir d0 pr stop oot x0 y Sig errz0 gV gS iS).wrote = true) :
    (run P dir d0 pr stop oot x0 y Sig errz0 gV gS iS).y
        = (P.psi (run P dir d0 pr stop oot x0 y Sig errz0 gV gS iS).x).2 ∧
    (errz0.length > 0 → (run P dir d0 pr stop oot x0 y Sig errz0 gV gS iS).errz
        = vdiv (vsub (run P dir d0 pr stop oot x0 y Sig errz0 gV gS iS).y y) Sig) := by
  obtain ⟨_, hy, he⟩ := (panoc_exit_contract P dir d0 pr stop oot x0 y Sig errz0 gV gS iS hfuel).1 hw
  exact ⟨hy, fun h => by rw [he, if_pos h]⟩

/-- With `always_overwrite_results` disabled and an exit that is neither Converged nor
    Interrupted, `x`, `y` (and `err_z`) are left untouched. -/
theorem panoc_untouched (P : Problem α) (dir : Direction D α) (d0 : D) (pr : Params α)
    (stop : Nat → Bool) (oot : Bool) (x0 y Sig errz0 gV : Vec α) (gS iS : α)
    (hfuel : (run P dir d0 pr stop oot x0 y Sig errz0 gV gS iS).fuelOut = false)
    (hw : (run P dir d0 pr stop oot x0 y Sig errz0 gV gS iS).wrote = false) :
    (run P dir d0 pr stop oot x0 y Sig errz0 gV gS iS).x = x0 ∧
    (run P dir d0 pr stop oot x0 y Sig errz0 gV gS iS).y = y ∧
    (run P dir d0 pr stop oot x0 y Sig errz0 gV gS iS).errz = errz0 :=
  (panoc_exit_contract P dir d0 pr stop oot x0 y Sig errz0 gV gS iS hfuel).2 hw

example : True := trivial

end Alpaqa.Props.C03
